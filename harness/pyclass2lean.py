#!/usr/bin/env python3
"""pyclass2lean — translator from the small imperative Python subset used by `EoN.simulation._ListDict_` to Lean 4.

On every run the class source is read from /repo's working tree (ast) and translated statement by statement into
lean/EoNVerif/Gen/ListDictGen.lean: one Lean function per method, over an explicit record of the object's attributes,
in the `Except String` monad (a raised Python exception = `throw "<ExceptionName>"`).  `Proofs/GenLD.lean` proves that
the generated methods refine the hand-written model `LD` (`Model/ListDict.lean`) that the C16 theorems (and through
them C01–C03, C15) are stated about.

Literal semantics kept: dict `pop` of a missing key / `list.pop()` of an empty list / `max()` of an empty sequence
raise; reading a missing key of the `defaultdict(int)` attribute *inserts* it with value 0 (`ddTouch`), with Python's
short-circuit evaluation order; a bare attribute reference statement (`self._update_max_weight` without parentheses)
does nothing.  Dicts are association lists (Basic.lean: alGet/alSet/alHas), lists are Lean lists.

Supported subset (anything else raises Unsupported): assignments to locals / attributes / `self.D[k]` / `self.L[i]`,
augmented assignment, `if/elif/else`, `x is not None` tests on optional parameters, early `return` as the last
statement of an `if` body, `raise`, calls of other translated methods, `len`, `in`, `.pop`, `.append`,
`Counter(self.D.values())` + `max(C.keys())` + `C[v]`, `sum(self.D.values())`, arithmetic and comparisons, and the one loop shape
`while True: choice = random.choice(L); if random.random() < E: break` (compiled to a recursion over scripted draws).
The attribute kinds and the parameter kinds are the only hand-supplied input (FIELDS, SIGS).
"""
import ast, os, sys, hashlib

REPO = os.environ.get("EON_REPO", "/repo")


class Unsupported(Exception):
    pass


CLASS = "_ListDict_"
# attribute -> (lean field name, kind)   kinds: dict:<valtype>, ddict:<valtype> (defaultdict(int)), list, bool, rat, int
FIELDS = {
    "item_to_position": ("item_to_position", "dict:Nat"),
    "items": ("items", "list"),
    "weighted": ("weighted", "bool"),
    "weight": ("weight", "ddict:Rat"),
    "max_weight": ("max_weight", "rat"),
    "_total_weight": ("total_weight_", "rat"),
    "max_weight_count": ("max_weight_count", "int"),
}
LEAN_TY = {"bool": "Bool", "rat": "Rat", "int": "Int", "list": "List α", "dict:Nat": "List (α × Nat)", "ddict:Rat": "List (α × Rat)"}
# method -> (lean name, params "name:kind", returns)   param kinds: item (α), orat (Option Rat);  returns: unit | item | bool | nat | rat
SIGS = {
    "__len__": ("len__", "", "nat"),
    "__contains__": ("contains__", "item:item", "bool"),
    "_update_max_weight": ("update_max_weight", "", "unit"),
    "insert": ("insert", "item:item weight:orat", "unit"),
    "update": ("update", "item:item weight_increment:orat", "unit"),
    "remove": ("remove", "choice:item", "unit"),
    "total_weight": ("total_weight", "", "rat"),
    "choose_random": ("choose_random", "", "item"),
}
ORDER = ["__len__", "__contains__", "_update_max_weight", "remove", "update", "insert", "total_weight", "choose_random"]
PURE = {"__len__", "__contains__"}          # single `return <expr>`: translated as pure functions of the state
RET_TY = {"unit": "Unit", "item": "α", "bool": "Bool", "nat": "Nat", "rat": "Rat"}


def fkind(attr):
    if attr not in FIELDS:
        raise Unsupported(f"unknown attribute self.{attr}")
    return FIELDS[attr]


class Method:
    def __init__(self, node, cls):
        self.node, self.cls = node, cls
        self.lean_name, sig, self.ret = SIGS[node.name]
        self.params = [tuple(x.split(":")) for x in sig.split()]
        names = [a.arg for a in node.args.args]
        if names != ["self"] + [p for p, _ in self.params]:
            raise Unsupported(f"{node.name}: parameter list changed: {names}")
        self.env = {p: k for p, k in self.params}      # local name -> kind: item, orat, rat, nat, int, counter
        self.n = 0

    def tmp(self, base="v"):
        self.n += 1
        return f"{base}_{self.n}"

    # ------------------------------------------------------------------ expressions
    # returns (pre-lines, term, kind); `s` is always the current state variable
    def expr(self, e, ind, want=None):
        if isinstance(e, ast.Constant):
            if e.value is None:
                return [], "none", "none"
            if isinstance(e.value, bool):
                return [], ("true" if e.value else "false"), "bool"
            if isinstance(e.value, int):
                return [], str(e.value), "num"
            raise Unsupported(f"constant {e.value!r}")
        if isinstance(e, ast.Name):
            if e.id not in self.env:
                raise Unsupported(f"unknown name {e.id}")
            return [], e.id, self.env[e.id]
        if isinstance(e, ast.Attribute) and isinstance(e.value, ast.Name) and e.value.id == "self":
            f, k = fkind(e.attr)
            return [], f"s.{f}", k
        if isinstance(e, ast.Subscript):
            v = e.value
            if isinstance(v, ast.Attribute) and isinstance(v.value, ast.Name) and v.value.id == "self":
                f, k = fkind(v.attr)
                pk, key, _ = self.expr(e.slice, ind)
                if k.startswith("ddict"):
                    return pk + [f"{ind}let s := {{ s with {f} := PyRT.ddTouch s.{f} {key} }}"], f"(alGet s.{f} (0 : Rat) {key})", "rat"
                if k.startswith("dict"):
                    t = self.tmp()
                    return pk + [f'{ind}let {t} ← PyRT.dictGet s.{f} {key}'], t, "nat"
                raise Unsupported("subscript load of a list attribute")
            if isinstance(v, ast.Name) and self.env.get(v.id) == "counter":
                pk, key, _ = self.expr(e.slice, ind)
                return pk, f"(PyRT.countEq {v.id} {key})", "int"
            raise Unsupported("subscript")
        if isinstance(e, ast.Call):
            f = e.func
            if isinstance(f, ast.Name) and f.id == "len" and len(e.args) == 1:
                a = e.args[0]
                if isinstance(a, ast.Name) and a.id == "self":
                    return [], f"({SIGS['__len__'][0]} s)", "nat"
                p, t, k = self.expr(a, ind)
                if k != "list":
                    raise Unsupported("len of a non-list")
                return p, f"{t}.length", "nat"
            if isinstance(f, ast.Name) and f.id == "max" and len(e.args) == 1:
                a = e.args[0]
                if isinstance(a, ast.Call) and isinstance(a.func, ast.Attribute) and a.func.attr == "keys" \
                        and isinstance(a.func.value, ast.Name) and self.env.get(a.func.value.id) == "counter":
                    t = self.tmp("m")
                    return [f"{ind}let {t} ← PyRT.maxOf {a.func.value.id}"], t, "rat"
                raise Unsupported("max of something else")
            if isinstance(f, ast.Name) and f.id == "sum" and len(e.args) == 1:
                a = e.args[0]
                if isinstance(a, ast.Call) and isinstance(a.func, ast.Attribute) and a.func.attr == "values" and not a.args:
                    p, t, k = self.expr(a.func.value, ind)
                    if k in ("ddict:Rat", "dict:Rat"):
                        return p, f"(PyRT.sumVals {t})", "rat"
                raise Unsupported("sum of something else")
            if isinstance(f, ast.Name) and f.id == "Counter" and len(e.args) == 1:
                a = e.args[0]
                if isinstance(a, ast.Call) and isinstance(a.func, ast.Attribute) and a.func.attr == "values" and not a.args:
                    p, t, k = self.expr(a.func.value, ind)
                    if k.startswith("ddict") or k.startswith("dict"):
                        return p, f"({t}.map (·.2))", "counter"
                raise Unsupported("Counter of something else")
            if isinstance(f, ast.Attribute) and isinstance(f.value, ast.Name) and f.value.id == "self":
                return self.call(f.attr, e, ind)
            if isinstance(f, ast.Attribute) and f.attr == "append" and len(e.args) == 1:
                tgt = f.value
                if isinstance(tgt, ast.Attribute) and isinstance(tgt.value, ast.Name) and tgt.value.id == "self" \
                        and fkind(tgt.attr)[1] == "list":
                    fld = fkind(tgt.attr)[0]
                    pa, a, _ = self.expr(e.args[0], ind)
                    return pa + [f"{ind}let s := {{ s with {fld} := s.{fld} ++ [{a}] }}"], "()", "unit"
                raise Unsupported("append")
            if isinstance(f, ast.Attribute) and f.attr == "pop":
                tgt = f.value
                if isinstance(tgt, ast.Attribute) and isinstance(tgt.value, ast.Name) and tgt.value.id == "self":
                    fld, k = fkind(tgt.attr)
                    t = self.tmp()
                    if k == "list" and not e.args:
                        return [f"{ind}let ({t}, l') ← PyRT.listPop s.{fld}", f"{ind}let s := {{ s with {fld} := l' }}"], t, "item"
                    if (k.startswith("dict") or k.startswith("ddict")) and len(e.args) == 1:
                        pk, key, _ = self.expr(e.args[0], ind)
                        vk = "nat" if k.endswith("Nat") else "rat"
                        return pk + [f"{ind}let ({t}, d') ← PyRT.dictPop s.{fld} {key}", f"{ind}let s := {{ s with {fld} := d' }}"], t, vk
                raise Unsupported("pop")
            raise Unsupported(f"call {ast.dump(f)[:60]}")
        if isinstance(e, ast.BinOp):
            op = {ast.Add: "+", ast.Sub: "-", ast.Mult: "*", ast.Div: "/"}.get(type(e.op))
            if op is None:
                raise Unsupported("operator")
            pa, a, ka = self.expr(e.left, ind)
            pb, b, kb = self.expr(e.right, ind)
            k = ka if ka != "num" else kb
            if op == "-" and k == "nat":
                # len(self.items)-1 : Python int subtraction; the translator keeps it in Int and converts back where a Nat is stored
                return pa + pb, f"(({a} : Int) - ({b} : Int))", "int"
            return pa + pb, f"({a} {op} {b})", k
        if isinstance(e, ast.Compare) and len(e.ops) == 1:
            l, r, o = e.left, e.comparators[0], e.ops[0]
            if isinstance(o, ast.In):
                pa, a, _ = self.expr(l, ind)
                if isinstance(r, ast.Name) and r.id == "self":
                    return pa, f"({SIGS['__contains__'][0]} s {a})", "bool"
                pb, b, kb = self.expr(r, ind)
                if kb.startswith("dict") or kb.startswith("ddict"):
                    return pa + pb, f"(alHas {b} {a})", "bool"
                raise Unsupported("in")
            pa, a, ka = self.expr(l, ind)
            pb, b, kb = self.expr(r, ind)
            if ka == "orat" and kb == "num":
                b = f"(some ({b} : Rat))"
            sym = {ast.Eq: "=", ast.NotEq: "≠", ast.Gt: ">", ast.Lt: "<", ast.GtE: "≥", ast.LtE: "≤"}.get(type(o))
            if sym is None:
                raise Unsupported("comparison")
            return pa + pb, f"(decide ({a} {sym} {b}))", "bool"
        if isinstance(e, ast.BoolOp):
            parts = [self.expr(v, ind + "  ") for v in e.values]
            if all(not p for p, _, _ in parts[1:]):
                j = " || " if isinstance(e.op, ast.Or) else " && "
                return parts[0][0], "(" + j.join(t for _, t, _ in parts) + ")", "bool"
            if len(parts) != 2:
                raise Unsupported("effectful boolean chain")
            # short-circuit with an effectful right operand: the effect happens only when the right operand is evaluated
            (p0, t0, _), (p1, t1, _) = parts
            c = self.tmp("c")
            skip = "true" if isinstance(e.op, ast.Or) else "false"
            test = t0 if isinstance(e.op, ast.Or) else f"(!{t0})"
            lines = p0 + [f"{ind}let ((s : PyLD α), ({c} : Bool)) ← (if {test} then pure (s, {skip}) else do"] + \
                [l for l in p1] + [f"{ind}  pure (s, {t1}))"]
            return lines, c, "bool"
        if isinstance(e, ast.UnaryOp) and isinstance(e.op, ast.Not):
            p, t, _ = self.expr(e.operand, ind)
            return p, f"(!{t})", "bool"
        raise Unsupported(f"expression {ast.dump(e)[:80]}")

    def call(self, mname, e, ind):
        if mname not in SIGS:
            raise Unsupported(f"call of untranslated method {mname}")
        lean, sig, ret = SIGS[mname]
        want = [x.split(":")[0] for x in sig.split()]
        args = {}
        pre = []
        for w, a in zip(want, e.args):
            p, t, _ = self.expr(a, ind)
            pre += p
            args[w] = t
        for kw in e.keywords:
            p, t, _ = self.expr(kw.value, ind)
            pre += p
            args[kw.arg] = t
        if set(args) != set(want):
            raise Unsupported(f"call of {mname} with arguments {sorted(args)}")
        al = " ".join(args[w] for w in want)
        if mname in PURE:
            return pre, f"({lean} s {al})".replace("  ", " "), ret
        if ret == "unit":
            return pre + [f"{ind}let s : PyLD α ← {lean} s {al}".rstrip()], "()", "unit"
        t = self.tmp("r")
        return pre + [f"{ind}let (s, {t}) ← {lean} s {al}".rstrip()], t, ret

    # ------------------------------------------------------------------ statements
    def ret_term(self, t):
        return "pure s" if self.ret == "unit" else f"pure (s, {t})"

    def block(self, stmts, ind, tail):
        """compile stmts; `tail` = lines to emit after the block when control falls off its end.
        returns (lines, falls_through)"""
        out = []
        for i, st in enumerate(stmts):
            rest = stmts[i + 1:]
            if isinstance(st, ast.Expr) and isinstance(st.value, ast.Constant) and isinstance(st.value.value, str):
                continue
            if isinstance(st, ast.Expr) and isinstance(st.value, ast.Attribute):
                out.append(f"{ind}-- `{ast.unparse(st)}`: attribute reference without call, no effect")
                continue
            if isinstance(st, ast.Expr) and isinstance(st.value, ast.Call):
                p, t, k = self.expr(st.value, ind)
                out += p
                continue
            if isinstance(st, ast.Return):
                if st.value is None:
                    out.append(f"{ind}{self.ret_term('()')}")
                else:
                    p, t, k = self.expr(st.value, ind)
                    if self.ret == "rat" and k == "nat":
                        t = f"(({t} : Nat) : Rat)"
                    out += p + [f"{ind}{self.ret_term(t)}"]
                return out, False
            if isinstance(st, ast.Raise):
                name = "Exception"
                if isinstance(st.exc, ast.Call) and isinstance(st.exc.func, ast.Name):
                    name = st.exc.func.id
                out.append(f'{ind}throw "{name}"')
                return out, False
            if isinstance(st, ast.Assign) and len(st.targets) == 1:
                out += self.assign(st.targets[0], st.value, ind)
                continue
            if isinstance(st, ast.AugAssign):
                op = {ast.Add: ast.Add(), ast.Sub: ast.Sub()}.get(type(st.op))
                if op is None:
                    raise Unsupported("augmented operator")
                load = ast.copy_location(ast.Attribute(value=st.target.value, attr=st.target.attr, ctx=ast.Load()), st.target) \
                    if isinstance(st.target, ast.Attribute) else None
                if load is None:
                    raise Unsupported("augmented assignment target")
                out += self.assign(st.target, ast.BinOp(left=load, op=op, right=st.value), ind)
                continue
            if isinstance(st, ast.If):
                lines, falls = self.ifstmt(st, ind, rest, tail)
                out += lines
                return out, falls
            if isinstance(st, ast.While):
                raise Unsupported("loop outside the recognised choose_random shape")
            raise Unsupported(f"statement {type(st).__name__}")
        out += [ind + t for t in tail]
        return out, True

    def assign(self, tgt, val, ind):
        p, t, k = self.expr(val, ind)
        if isinstance(tgt, ast.Name):
            if k == "counter":
                self.env[tgt.id] = "counter"
                return p + [f"{ind}let {tgt.id} : List Rat := {t}"]
            self.env[tgt.id] = k if k != "num" else "int"
            return p + [f"{ind}let {tgt.id} := {t}"]
        if isinstance(tgt, ast.Attribute) and isinstance(tgt.value, ast.Name) and tgt.value.id == "self":
            f, fk = fkind(tgt.attr)
            return p + [f"{ind}let s := {{ s with {f} := {t} }}"]
        if isinstance(tgt, ast.Subscript) and isinstance(tgt.value, ast.Attribute) and isinstance(tgt.value.value, ast.Name) \
                and tgt.value.value.id == "self":
            f, fk = fkind(tgt.value.attr)
            pk, key, kk = self.expr(tgt.slice, ind)
            if fk.startswith("dict") or fk.startswith("ddict"):
                if fk.endswith("Nat") and k == "int":
                    t = f"(Int.toNat {t})"
                return p + pk + [f"{ind}let s := {{ s with {f} := alSet s.{f} {key} {t} }}"]
            if fk == "list":
                return p + pk + [f"{ind}let l' ← PyRT.listSet s.{f} {key} {t}", f"{ind}let s := {{ s with {f} := l' }}"]
        raise Unsupported("assignment target")

    def ifstmt(self, st, ind, rest, tail):
        """`if` followed by `rest`: the continuation (rest + tail) is emitted after the if when some branch falls through.
        Branches that end in return/raise do not fall through."""
        test = st.test
        # `x is not None` on an optional parameter: match
        if isinstance(test, ast.Compare) and len(test.ops) == 1 and isinstance(test.ops[0], ast.IsNot) \
                and isinstance(test.left, ast.Name) and self.env.get(test.left.id) == "orat" \
                and isinstance(test.comparators[0], ast.Constant) and test.comparators[0].value is None:
            x = test.left.id
            cont, _ = self.block(rest, ind, tail)
            out = [f"{ind}let s : PyLD α ← (match {x} with"]
            self.env[x] = "rat"
            b1, f1 = self.block(st.body, ind + "    ", ["pure s"])
            self.env[x] = "none"
            b2, f2 = self.block(st.orelse, ind + "    ", ["pure s"])
            self.env[x] = "orat"
            if not (f1 and f2):
                raise Unsupported("return inside an `is not None` branch")
            out += [f"{ind}  | some {x} => do"] + b1 + [f"{ind}  | none => do"] + b2
            out[-1] = out[-1] + ")"
            return out + cont, True
        p, c, _ = self.expr(test, ind)
        # does a branch return?  then the continuation must live in the other branch
        def returns(body):
            return bool(body) and isinstance(body[-1], (ast.Return, ast.Raise))
        if returns(st.body) or returns(st.orelse):
            b1, f1 = self.block(st.body, ind + "  ", [])
            if returns(st.body) and not st.orelse:
                cont, falls = self.block(rest, ind + "  ", tail)
                return p + [f"{ind}if {c} then do"] + b1 + [f"{ind}else do"] + cont, falls
            if returns(st.orelse) or returns(st.body):
                # state-only branch + terminating branch, then continuation inside the non-terminating branch
                contA, fA = (self.block(st.body + rest, ind + "  ", tail) if not returns(st.body) else (b1, False))
                contB, fB = (self.block(st.orelse + rest, ind + "  ", tail) if not returns(st.orelse) else self.block(st.orelse, ind + "  ", []))
                return p + [f"{ind}if {c} then do"] + contA + [f"{ind}else do"] + contB, (fA or fB)
        saved = dict(self.env)
        b1, _ = self.block(st.body, ind + "  ", ["pure s"])
        self.env = dict(saved)
        b2, _ = self.block(st.orelse, ind + "  ", ["pure s"]) if st.orelse else ([f"{ind}  pure s"], True)
        self.env = saved
        out = p + [f"{ind}let s : PyLD α ← (if {c} then do"] + b1 + [f"{ind}else do"] + b2
        out[-1] = out[-1] + ")"
        cont, falls = self.block(rest, ind, tail)
        return out + cont, falls

    # ------------------------------------------------------------------ whole methods
    def emit(self):
        n = self.node
        body = [s for s in n.body if not (isinstance(s, ast.Expr) and isinstance(s.value, ast.Constant))]
        ps = "".join(f" ({p} : {'α' if k == 'item' else 'Option Rat'})" for p, k in self.params)
        doc = f"/-- generated from `{CLASS}.{n.name}` (EoN/simulation.py:{n.lineno}) -/\n"
        if n.name in PURE:
            if len(body) != 1 or not isinstance(body[0], ast.Return):
                raise Unsupported("pure method is not a single return")
            p, t, _ = self.expr(body[0].value, "  ")
            if p:
                raise Unsupported("effects in a pure method")
            return doc + f"def {self.lean_name} (s : PyLD α){ps} : {RET_TY[self.ret]} :=\n  {t}\n"
        rty = "PyLD α" if self.ret == "unit" else f"PyLD α × {RET_TY[self.ret]}"
        if n.name == "choose_random":
            return doc + self.choose(body, ps, rty)
        lines, falls = self.block(body, "  ", [self.ret_term('()')])
        return doc + f"def {self.lean_name} (s : PyLD α){ps} : Except String ({rty}) := do\n" + "\n".join(lines) + "\n"

    def choose_shape(self, body):
        """if self.weighted: while True: choice = random.choice(self.items); if random.random() < E: break; return choice
           else: return random.choice(self.items)        -> the comparison node `random.random() < E`"""
        try:
            top = body[0]
            assert len(body) == 1 and isinstance(top, ast.If)
            assert ast.unparse(top.test) == "self.weighted"
            wh, ret = [s for s in top.body if not isinstance(s, ast.Expr)]
            assert isinstance(wh, ast.While) and ast.unparse(wh.test) == "True" and isinstance(ret, ast.Return)
            a, cond = wh.body
            assert ast.unparse(a) == "choice = random.choice(self.items)" and ast.unparse(ret) == "return choice"
            assert isinstance(cond, ast.If) and len(cond.body) == 1 and isinstance(cond.body[0], ast.Break) and not cond.orelse
            cmpx = cond.test
            assert isinstance(cmpx, ast.Compare) and ast.unparse(cmpx.left) == "random.random()" and isinstance(cmpx.ops[0], ast.Lt)
            assert len(top.orelse) == 1 and ast.unparse(top.orelse[0]) == "return random.choice(self.items)"
        except (AssertionError, ValueError, IndexError):
            raise Unsupported("choose_random no longer has the recognised rejection-loop shape")
        return cmpx

    def choose(self, body, ps, rty):
        cmpx = self.choose_shape(body)
        self.env["choice"] = "item"
        p, thr, _ = self.expr(cmpx.comparators[0], "      ")
        pre = "\n".join(p) + ("\n" if p else "")
        return (f"def {self.lean_name} (s : PyLD α) : List (Nat × Rat) → Except String ({rty})\n"
                f'  | [] => throw "draws-exhausted"\n'
                f"  | (i, r) :: rest => do\n"
                f"    let choice ← PyRT.listChoice s.items i\n"
                f"    if s.weighted then do\n{pre}"
                f"      if r < {thr} then pure (s, choice) else {self.lean_name} s rest\n"
                f"    else pure (s, choice)\n")

    def choose_tm(self):
        """the same loop against the tape monad (`Model/Tape.lean`): every `random.choice` / `random.random` call pops
        the next scripted draw and is logged with its argument; `/` is Python's float division (ZeroDivisionError)"""
        body = [s for s in self.node.body if not (isinstance(s, ast.Expr) and isinstance(s.value, ast.Constant))]
        cmpx = self.choose_shape(body)
        self.env["choice"] = "item"
        thr_e = cmpx.comparators[0]
        if not (isinstance(thr_e, ast.BinOp) and isinstance(thr_e.op, ast.Div)):
            raise Unsupported("acceptance threshold is not a quotient")
        pa, a, _ = self.expr(thr_e.left, "      ")
        pb, b, _ = self.expr(thr_e.right, "      ")
        pre = "\n".join(pa + pb) + ("\n" if (pa or pb) else "")
        return (f"/-- generated from `{CLASS}.choose_random` (EoN/simulation.py:{self.node.lineno}), tape version -/\n"
                f"def choose_random_tm (enc : α → List Nat) (s : PyLD α) : Nat → TM (PyLD α × α)\n"
                f'  | 0 => TM.fail "fuel"\n'
                f"  | fuel + 1 => do\n"
                f"    if s.weighted then do\n"
                f"      let i ← TM.popChoice (s.items.map enc)\n"
                f"      let choice ← PyTM.liftE (PyRT.listChoice s.items i)\n"
                f"      let r ← TM.popUnif\n{pre}"
                f"      let thr ← PyTM.liftE (PyTM.fdiv {a} {b})\n"
                f"      if r < thr then pure (s, choice) else choose_random_tm enc s fuel\n"
                f"    else do\n"
                f"      let i ← TM.popChoice (s.items.map enc)\n"
                f"      let choice ← PyTM.liftE (PyRT.listChoice s.items i)\n"
                f"      pure (s, choice)\n")


def random_removal_tm(node):
    got = [ast.unparse(s) for s in node.body if not (isinstance(s, ast.Expr) and isinstance(s.value, ast.Constant))]
    if got != ["choice = self.choose_random()", "self.remove(choice)", "return choice"]:
        raise Unsupported("random_removal changed: %r" % got)
    return (f"/-- generated from `{CLASS}.random_removal` (EoN/simulation.py:{node.lineno}), tape version -/\n"
            f"def random_removal_tm (enc : α → List Nat) (s : PyLD α) (fuel : Nat) : TM (PyLD α × α) := do\n"
            f"  let (s, choice) ← choose_random_tm enc s fuel\n"
            f"  let s : PyLD α ← PyTM.liftE (remove s choice)\n"
            f"  pure (s, choice)\n")


HEADER_TM = '''import EoNVerif.Gen.ListDictGen
import EoNVerif.Gen.PyTM
/-!
GENERATED by harness/pyclass2lean.py from class `_ListDict_` of EoN/simulation.py — do not edit; regenerated on every
check run.  Tape versions of the two sampling methods (used by the generated Gillespie functions).
source sha1: {sha}
-/
namespace GenLD
variable {{α : Type}} [DecidableEq α]

'''


HEADER = '''import EoNVerif.Gen.PyRT
/-!
GENERATED by harness/pyclass2lean.py from class `_ListDict_` of EoN/simulation.py — do not edit; regenerated on every
check run.   source sha1: {sha}
-/
namespace GenLD
variable {{α : Type}} [DecidableEq α]

/-- the attributes of a `_ListDict_` object -/
structure PyLD (α : Type) where
{fields}

/-- generated from `{cls}.__init__` -/
def init (weighted : Bool) : PyLD α :=
  {{ item_to_position := [], items := [], weighted := weighted, weight := [], max_weight := 0, total_weight_ := 0,
    max_weight_count := 0 }}

'''


def check_init(node):
    """__init__ must still be the attribute initialisation the `init` definition above encodes"""
    want = ["self.item_to_position = {}", "self.items = []", "self.weighted = weighted",
            "if self.weighted:\n    self.weight = defaultdict(int)\n    self.max_weight = 0\n    self._total_weight = 0\n    self.max_weight_count = 0"]
    got = [ast.unparse(s) for s in node.body]
    if got != want:
        raise Unsupported("__init__ changed: %r" % got)


def translate(repo=REPO):
    src = open(os.path.join(repo, "EoN", "simulation.py")).read()
    tree = ast.parse(src)
    cls = next((n for n in tree.body if isinstance(n, ast.ClassDef) and n.name == CLASS), None)
    errors, out, sources = {}, [], []
    if cls is None:
        return "", {CLASS: "class not found"}
    methods = {n.name: n for n in cls.body if isinstance(n, ast.FunctionDef)}
    try:
        check_init(methods["__init__"])
    except (Unsupported, KeyError) as ex:
        errors["__init__"] = str(ex)
    for name in ORDER:
        if name not in methods:
            errors[name] = "method not found"
            continue
        try:
            out.append(Method(methods[name], cls).emit())
            sources.append(ast.unparse(methods[name]))
        except Unsupported as ex:
            errors[name] = f"unsupported: {ex}"
    sha = hashlib.sha1("\n".join(sources).encode()).hexdigest()
    fields = "\n".join(f"  {f} : {LEAN_TY[k]}" for f, k in FIELDS.values())
    tm = ""
    try:
        tm_parts = [Method(methods["choose_random"], cls).choose_tm(), random_removal_tm(methods["random_removal"])]
        tm = HEADER_TM.format(sha=sha) + "\n".join(tm_parts) + "\nend GenLD\n"
    except (Unsupported, KeyError) as ex:
        errors["choose_random/random_removal (tape version)"] = f"unsupported: {ex}"
    # `update_total_weight`: self._total_weight = sum(self.weight[item] for item in self.items)
    try:
        n = methods["update_total_weight"]
        got = [ast.unparse(x) for x in n.body if not (isinstance(x, ast.Expr) and isinstance(x.value, ast.Constant))]
        if got != ["self._total_weight = sum((self.weight[item] for item in self.items))"]:
            raise Unsupported("update_total_weight changed: %r" % got)
        out.append(f"/-- generated from `{CLASS}.update_total_weight` (EoN/simulation.py:{n.lineno}); reading `self.weight[item]` on the\n"
                   "defaultdict inserts missing keys with 0 -/\n"
                   "def update_total_weight (s : PyLD α) : Except String (PyLD α) := do\n"
                   "  let s := s.items.foldl (fun (s : PyLD α) item => { s with weight := PyRT.ddTouch s.weight item }) s\n"
                   "  pure { s with total_weight_ := sumRat (s.items.map (fun item => alGet s.weight (0 : Rat) item)) }\n")
        sources.append(ast.unparse(n))
    except (Unsupported, KeyError) as ex:
        errors["update_total_weight"] = f"unsupported: {ex}"
    sha = hashlib.sha1("\n".join(sources).encode()).hexdigest()
    translate.tm_text = tm
    return HEADER.format(sha=sha, fields=fields, cls=CLASS) + "\n".join(out) + "\nend GenLD\n", errors


def regenerate():
    import warnings
    target = os.path.join(os.path.dirname(os.path.abspath(__file__)), "..", "lean", "EoNVerif", "Gen", "ListDictGen.lean")
    with warnings.catch_warnings():
        warnings.simplefilter("ignore")
        text, errors = translate()
    old = open(target).read() if os.path.exists(target) else None
    if text and old != text:
        tmp = target + ".tmp%d" % os.getpid()
        with open(tmp, "w") as f:
            f.write(text)
        os.replace(tmp, target)
    tm = getattr(translate, "tm_text", "")
    target_tm = os.path.join(os.path.dirname(target), "ListDictTM.lean")
    old_tm = open(target_tm).read() if os.path.exists(target_tm) else None
    if tm and old_tm != tm:
        tmp = target_tm + ".tmp%d" % os.getpid()
        with open(tmp, "w") as f:
            f.write(tm)
        os.replace(tmp, target_tm)
    return old != text or (bool(tm) and old_tm != tm), errors


def main():
    changed, errors = regenerate()
    print("pyclass2lean: Gen/ListDictGen.lean %s (%d methods)" % ("rewritten" if changed else "up to date", len(SIGS) - len(errors)))
    for n, e in errors.items():
        print(f"pyclass2lean: {n}: {e}")
    return 1 if errors else 0


if __name__ == "__main__":
    sys.exit(main())
