import EoNVerif.Model.ListDict
import EoNVerif.Model.Tape
/-!
Model of `Gillespie_SIR` (simulation.py 3123–3262) and `Gillespie_SIS` (3362–3489).

The step is split into a *pure* event application (`applyRec`, `applyTrans`: status change, incremental update of
the two `_ListDict_`s, appended row) and the *selection* of the event from the tape (`pick`).  Invariants are
proved about the pure part for every enabled event; the selection lemma shows that `pick` only returns enabled
events; the law is stated with the same threshold expressions `pick` compares the draws with.
-/

structure GParams where
  nodes : List Node
  nbrs : Node → List Node            -- G.neighbors(u) in iteration order
  tau : Rat
  gamma : Rat
  ew : Option (Node → Node → Rat)    -- G.adj[u][v][transmission_weight]
  nw : Option (Node → Rat)           -- G.nodes[u][recovery_weight]
  sis : Bool

inductive GEvent
  | recover (u : Node)
  | transmit (u v : Node)
deriving DecidableEq, Repr

structure GState where
  status : Node → St
  inf : LD Node
  links : LD (Node × Node)
  times : List Rat       -- reversed (latest first)
  S : List Int
  I : List Int
  R : List Int
  log : List (Rat × GEvent)  -- reversed event log (what full-data bookkeeping records)

namespace Gillespie

def edgeW (P : GParams) (u v : Node) : Option Rat := P.ew.map fun f => f u v
def nodeW (P : GParams) (u : Node) : Option Rat := P.nw.map fun f => f u

def hd (l : List Int) : Int := l.headD 0

/-- initial loop: `for node in initial_infecteds: infecteds.update(node,…); for nbr …: if status[nbr]=='S': IS_links.update(…)` -/
def initLinks (P : GParams) (status : Node → St) (node : Node) (links : LD (Node × Node)) :
    List Node → Option (LD (Node × Node))
  | [] => some links
  | nbr :: rest =>
    if status nbr = St.S then
      match links.update (node, nbr) (edgeW P node nbr) with
      | some l => initLinks P status node l rest
      | none => none
    else initLinks P status node links rest

def initLoop (P : GParams) (status : Node → St) :
    List Node → LD Node → LD (Node × Node) → Option (LD Node × LD (Node × Node))
  | [], inf, links => some (inf, links)
  | node :: rest, inf, links =>
    match inf.update node (nodeW P node) with
    | none => none
    | some inf' =>
      match initLinks P status node links (P.nbrs node) with
      | none => none
      | some links' => initLoop P status rest inf' links'

def initStatus (infs recs : List Node) : Node → St :=
  fun v => if v ∈ recs then St.R else if v ∈ infs then St.I else St.S

/-- State before the first `expovariate`. `recs` is `[]` for SIS. -/
def init (P : GParams) (infs recs : List Node) (tmin : Rat) : Option GState :=
  let status := initStatus infs recs
  match initLoop P status infs (LD.empty (P.nw.isSome)) (LD.empty (P.ew.isSome)) with
  | none => none
  | some (inf, links) =>
    let I0 : Int := infs.length
    let R0 : Int := recs.length
    some { status := status, inf := inf, links := links, times := [tmin],
           S := [(P.nodes.length : Int) - I0 - R0], I := [I0], R := [R0], log := [] }

/-- SIR recovery loop: `for nbr in G.neighbors(u): if status[nbr]=='S': IS_links.remove((u,nbr))` -/
def recLoopSIR (status : Node → St) (u : Node) (links : LD (Node × Node)) :
    List Node → Option (LD (Node × Node))
  | [] => some links
  | nbr :: rest =>
    if status nbr = St.S then
      match links.remove (u, nbr) with
      | some l => recLoopSIR status u l rest
      | none => none
    else recLoopSIR status u links rest

/-- SIS recovery loop (3442–3448): skip self, S neighbour: remove (u,nbr); else: update((nbr,u), edgeweight(u,nbr)). -/
def recLoopSIS (P : GParams) (status : Node → St) (u : Node) (links : LD (Node × Node)) :
    List Node → Option (LD (Node × Node))
  | [] => some links
  | nbr :: rest =>
    if nbr = u then recLoopSIS P status u links rest
    else if status nbr = St.S then
      match links.remove (u, nbr) with
      | some l => recLoopSIS P status u l rest
      | none => none
    else
      match links.update (nbr, u) (edgeW P u nbr) with
      | some l => recLoopSIS P status u l rest
      | none => none

/-- transmission loop over the neighbours of the recipient `v` -/
def transLoop (P : GParams) (status : Node → St) (v : Node) (links : LD (Node × Node)) :
    List Node → Option (LD (Node × Node))
  | [] => some links
  | nbr :: rest =>
    if status nbr = St.S then
      match links.update (v, nbr) (edgeW P v nbr) with
      | some l => transLoop P status v l rest
      | none => none
    else if (P.sis ∨ status nbr = St.I) ∧ nbr ≠ v then
      match links.remove (nbr, v) with
      | some l => transLoop P status v l rest
      | none => none
    else transLoop P status v links rest

/-- recovery of `u` at time `t` (after `infecteds.random_removal()` chose it). `none` = KeyError. -/
def applyRec (P : GParams) (s : GState) (u : Node) (t : Rat) : Option GState := do
  let inf ← s.inf.remove u
  let newSt := if P.sis then St.S else St.R
  let status := fset s.status u newSt
  let links ← (if P.sis then recLoopSIS P status u s.links (P.nbrs u)
               else recLoopSIR status u s.links (P.nbrs u))
  pure { s with status := status, inf := inf, links := links, times := t :: s.times,
                S := (if P.sis then hd s.S + 1 else hd s.S) :: s.S,
                I := (hd s.I - 1) :: s.I,
                R := (if P.sis then s.R else (hd s.R + 1) :: s.R),
                log := (t, GEvent.recover u) :: s.log }

/-- transmission along `(u,v)` at time `t` (after `IS_links.choose_random()` chose it). -/
def applyTrans (P : GParams) (s : GState) (u v : Node) (t : Rat) : Option GState := do
  let status := fset s.status v St.I
  let inf ← s.inf.update v (nodeW P v)
  let links ← transLoop P status v s.links (P.nbrs v)
  pure { s with status := status, inf := inf, links := links, times := t :: s.times,
                S := (hd s.S - 1) :: s.S, I := (hd s.I + 1) :: s.I,
                R := (if P.sis then s.R else hd s.R :: s.R),
                log := (t, GEvent.transmit u v) :: s.log }

def recRate (P : GParams) (s : GState) : Rat := P.gamma * s.inf.totalWeight
def transRate (P : GParams) (s : GState) : Rat := P.tau * s.links.totalWeight
def totalRate (P : GParams) (s : GState) : Rat := recRate P s + transRate P s

/-- the threshold `total_recovery_rate/total_rate` that `random.random()` is compared with -/
def recThr (P : GParams) (s : GState) : Rat := recRate P s / totalRate P s

def encNode (u : Node) : List Nat := [u]
def encLink (p : Node × Node) : List Nat := [p.1, p.2]

/-- `choose_random()` against the tape (fuel bounds the rejection loop; the harness tapes always accept in time). -/
def chooseTM {α : Type} [DecidableEq α] (enc : α → List Nat) (ld : LD α) : Nat → TM α
  | 0 => TM.fail "fuel"
  | fuel + 1 => do
    let i ← TM.popChoice (ld.items.map enc)
    match ld.items[i]? with
    | none => TM.fail "tape-bad-index"
    | some c =>
      if !ld.weighted then pure c
      else
        if ld.maxW = 0 then TM.fail "ZeroDivisionError" else
        let r ← TM.popUnif
        if r < ld.acceptThr c then pure c else chooseTM enc ld fuel

/-- one iteration of the `while` body up to (not including) the next `expovariate`. -/
def pick (P : GParams) (s : GState) (fuel : Nat) : TM GEvent := do
  let r ← TM.popUnif
  if r < recThr P s then
    let u ← chooseTM encNode s.inf fuel
    pure (GEvent.recover u)
  else
    let (u, v) ← chooseTM encLink s.links fuel
    pure (GEvent.transmit u v)

def applyEvent (P : GParams) (s : GState) (e : GEvent) (t : Rat) : Option GState :=
  match e with
  | .recover u => applyRec P s u t
  | .transmit u v => applyTrans P s u v t

/-- the main loop.  `t` is the time of the next event (`none` = `inf`). -/
def loop (P : GParams) (tmax : ERat) (cfuel : Nat) : Nat → GState → ERat → TM GState
  | 0, _, _ => TM.fail "fuel"
  | fuel + 1, s, t =>
    match t with
    | none => pure s            -- t = inf: `t < tmax` is false
    | some tv =>
      if s.inf.items.isEmpty ∨ !(ERat.lt (some tv) tmax) then pure s
      else do
        let e ← pick P s cfuel
        match applyEvent P s e tv with
        | none => TM.fail "KeyError"
        | some s' =>
          let tot := totalRate P s'
          if tot > 0 then do
            let d ← TM.popExpo tot
            loop P tmax cfuel fuel s' (some (tv + d))
          else loop P tmax cfuel fuel s' none

/-- whole simulation from normalised initial sets -/
def run (P : GParams) (infs recs : List Node) (tmin : Rat) (tmax : ERat) (fuel cfuel : Nat) : TM GState := do
  match init P infs recs tmin with
  | none => TM.fail "KeyError"
  | some s0 =>
    let tot := totalRate P s0
    if tot > 0 then do
      let d ← TM.popExpo tot
      loop P tmax cfuel fuel s0 (some (tmin + d))
    else loop P tmax cfuel fuel s0 none

end Gillespie
