"""C06 — ODE outputs conserve the population and start from the requested state.
End-to-end on the real integrator for every entry point: times == linspace, S+I(+R) == N (1e-9 N), compartments in
[0,N] (1e-6 N), SIR monotonicity; every consistent initial condition accepted; at tmin S,I,R and the documented
full-data series equal the requested initial state, computed by the Lean initial-condition model (`InitCond`)."""
from fractions import Fraction as F
import numpy as np, networkx as nx
import common, odes, gen
from common import fr, rs
from sims import err_enum

RATES = [(0.4, 1.0), (2.0, 0.1), (0.0, 1.0), (1.0, 0.0), (1.0, 1.0)]


def close(a, b, tol):
    return abs(float(a) - float(b)) <= tol


def expected_initial(e, desc, ic):
    """expected initial values by name from the Lean `ode_ic` answer"""
    N = ic["N"]
    ks = range(len(ic["Nk"]))
    if desc["style"] in ("rho", "default"):
        r = ic["rho"]
        exp = dict(S=F(r["S"]), I=F(r["I"]), R=F(0), Sk=[F(x) for x in r["Sk"]], Ik=[F(x) for x in r["Ik"]], Rk=[F(0) for _ in ks],
                   SS=F(r["SS"]), SI=F(r["SI"]), II=F(r["II"]))
    else:
        c, cl, p = ic["count"], ic["class"], ic["pairs"]
        exp = dict(S=F(c[0]), I=F(c[1]), R=F(c[2]), Sk=[F(x) for x in cl[0]], Ik=[F(x) for x in cl[1]], Rk=[F(x) for x in cl[2]],
                   SS=F(p[0][0]), SI=F(p[0][1]), II=F(p[1][1]))
    exp["theta"] = F(1)
    return exp


def probe_known(ctx):
    """re-establish every listed known finding on its specific input, so that its KNOWN-FINDING line is printed on
    every run while the defect is present (and disappears once it is repaired)"""
    import EoN
    G = nx.random_regular_graph(3, 12, seed=1)
    t, S, I = EoN.SIS_super_compact_pairwise_from_graph(G, 0.4, 1.0, initial_infecteds=[0, 1], tmax=3, tcount=7)
    if not np.all(np.isfinite(S + I)):
        ctx.violation("SIS_super_compact_pairwise_from_graph: nan on a regular graph",
                      dict(entry="SIS_super_compact_pairwise_from_graph", regular=True, probe=True))
    H = nx.gnp_random_graph(24, 0.35, seed=7)
    H.add_node(24)
    for name in ("SIS_heterogeneous_pairwise_from_graph", "SIR_heterogeneous_pairwise_from_graph"):
        worst = 0.0
        for seed in range(6):
            Hs = nx.gnp_random_graph(24, 0.35, seed=seed)
            try:
                res = getattr(EoN, name)(Hs, 1.0, 0.0, rho=0.125, tmax=6, tcount=13)
                S = np.asarray(res[1], dtype=float)
                worst = max(worst, float(np.max(np.diff(S))) if name.startswith("SIR") else float(np.max(S) - Hs.order()))
            except Exception:
                worst = float("inf")
        if not np.isfinite(worst) or worst > 1e-6 * 24:
            ctx.violation("%s: unstable with gamma=0" % name, dict(entry=name, gamma=0.0, depleting=True, probe=True))


def rhs_correspondence(ctx, drv):
    """captured right-hand sides vs the Lean models at the initial state and at perturbed states"""
    import oderhs
    cap = oderhs.Capture()
    reqs, metas = [], []
    cap.install()
    try:
        for name, e in odes.E.items():
            if e["scalar"] or e["discrete"]:
                continue
            for k in range(ctx.scale(3, 20)):
                style = e["ic"][k % len(e["ic"])]
                G, gkind = odes.graph(ctx.rng, small=e["small"])
                tau, gamma = ctx.rng.choice([(0.5, 1.0), (1.0, 0.25), (2.0, 1.0)])
                kw, desc = odes.ic_kwargs(name, style, G, ctx.rng)
                extra = {}
                if e["nodelevel"] and ctx.rng.random() < 0.5 and "pair" not in name:
                    for u, v in G.edges():
                        G.edges[u, v]["w"] = ctx.rng.choice([0.5, 1.0, 2.0])
                    for u in G:
                        G.nodes[u]["r"] = ctx.rng.choice([0.5, 1.0, 2.0])
                    extra = dict(transmission_weight="w", recovery_weight="r")
                n0 = len(cap.calls)
                try:
                    odes.call(name, G, kw, tau, gamma, 0.0, 1.0, 3, False, extra=extra)
                except Exception:
                    continue
                for func, y0, args in cap.calls[n0:]:
                    for j in range(3):
                        y = oderhs.perturb(y0, ctx.rng, j)
                        rq = oderhs.request(func, y, args, G)
                        if rq is None:
                            ctx.count("rhs:unmodelled:" + func.__name__)
                            break
                        try:
                            with np.errstate(all="ignore"):
                                dy = np.asarray(func(y.copy(), 0.0, *args), dtype=float)
                        except Exception:
                            continue
                        if not np.all(np.isfinite(dy)):
                            continue
                        tol = rq.pop("tol", 1e-9)
                        reqs.append(rq)
                        metas.append((dict(entry=name, stream="rhs", rhs=func.__name__, model=rq["model"], p=rq["p"], v=rq["v"],
                                           graph=dict(kind=gkind, n=G.order())), dy, tol))
                        ctx.count("rhs:" + rq["model"])
    finally:
        cap.remove()
    for (rep, dy, tol), m in zip(metas, drv.batch(reqs)):
        ctx.traces += 1
        ctx.case(rep, nontrivial=True)
        if not m.get("ok"):
            ctx.disagreement("rhs-driver", dict(rep, model_resp=m))
            continue
        want = np.array([float(F(x)) for x in m["dy"]])
        scale = max(1.0, float(np.max(np.abs(want))), float(np.max(np.abs(dy))))
        if want.shape != dy.shape or float(np.max(np.abs(want - dy))) > tol * scale:
            ctx.disagreement("rhs:" + rep["model"], dict(rep, impl=[float(x) for x in dy], lean=[float(x) for x in want]))


def probe_known2_start():
    """the recorded failing input of the SIR effective-degree instability (corpus/C06) — 45 s of stiff integration, run in
    its own process (harness/c06_probe2.py) while the other streams of the check run"""
    import subprocess, sys, os
    return subprocess.Popen([sys.executable, os.path.join(os.path.dirname(os.path.abspath(__file__)), "c06_probe2.py")],
                            stdout=subprocess.PIPE, stderr=subprocess.PIPE, text=True)


def probe_known2(ctx, proc):
    out, err = proc.communicate()
    verdict = out.strip().splitlines()[-1] if out.strip() else None
    if verdict not in ("BAD", "OK"):
        raise RuntimeError("c06_probe2 failed: " + err[-800:])
    if verdict == "BAD":
        ctx.violation("SIR_effective_degree_from_graph: unstable when susceptibles are exhausted",
                      dict(entry="SIR_effective_degree_from_graph", depleting=True, probe=True))


def probe_known3(ctx):
    """the recorded failing input of the SIR homogeneous-pairwise instability (corpus/C06)"""
    import EoN, json, os
    c = json.load(open(os.path.join(common.VERIF, "corpus", "C06", "sir_homogeneous_pairwise_depleting.json")))
    H = nx.Graph(); H.add_nodes_from(range(c["n"])); H.add_edges_from(c["edges"])
    try:
        with np.errstate(all="ignore"):
            t, S, I, R = EoN.SIR_homogeneous_pairwise_from_graph(H, c["tau"], c["gamma"], initial_infecteds=c["infs"],
                                                                   tmin=c["tmin"], tmax=c["tmax"], tcount=c["tcount"])
        bad = (not np.all(np.isfinite(S + I + R))) or np.max(S) > c["n"] * (1 + 1e-6) or np.max(np.diff(S)) > 1e-6 * c["n"]
    except Exception:
        bad = True
    if bad:
        ctx.violation("SIR_homogeneous_pairwise_from_graph: unstable when susceptibles are exhausted",
                      dict(entry="SIR_homogeneous_pairwise_from_graph", depleting=True, probe=True))


def generated_initcond(ctx):
    """the Lean code GENERATED from _initialize_node_status_, _count_edge_types_ and _get_Nk_and_IC_as_arrays_
    (harness/pyinit2lean.py -> Gen/InitCondGen.lean), run by its own driver on the same graphs and initial sets as the
    Python functions (incl. overlapping sets and nodes outside G, which must raise EoNError on both sides)."""
    import fcntl, subprocess, os, json, pyinit2lean
    import EoN.analytic as an
    lean = common.LEAN
    os.makedirs(os.path.join(lean, ".audit"), exist_ok=True)
    with open(os.path.join(lean, ".audit", "geninit.lock"), "w") as lock:
        fcntl.flock(lock, fcntl.LOCK_EX)
        try:
            _, errors = pyinit2lean.regenerate()
        except Exception as e:
            errors = {"translator": "crashed: %r" % e}
        if errors:
            ctx.disagreement("generated-initcond:translation", dict(entry="initial-condition builders", errors=errors))
            return
        p = common.lake(["build", "driverinit"])
    if p.returncode != 0:
        ctx.disagreement("generated-initcond:build", dict(entry="initial-condition builders", log="\n".join(
            l for l in (p.stdout + p.stderr).splitlines() if "error" in l)[:1500]))
        return
    reqs, impls = [], []
    for k in range(ctx.scale(300, 2000)):
        G, gkind = odes.graph(ctx.rng, small=ctx.rng.random() < 0.5)
        idx = gen.index_of(G)
        nodes = list(G)
        n = len(nodes)
        infs = ctx.rng.sample(nodes, ctx.rng.randint(0, min(4, n)))
        rest = [u for u in nodes if u not in infs]
        recs = ctx.rng.sample(rest, ctx.rng.randint(0, min(3, len(rest))))
        shape = ["ok", "ok", "ok", "overlap", "outside", "dup"][k % 6]
        outside = []
        if shape == "overlap" and infs:
            recs = recs + [infs[0]]
        elif shape == "outside":
            outside = ["__not_a_node__"]
        elif shape == "dup" and infs:
            infs = infs + [infs[-1]]
        rho = ctx.rng.choice([0.125, 0.25, 0.5])
        def call(f):
            try:
                return dict(ok=True, val=f())
            except an.EoN.EoNError:
                return dict(ok=False, err="EoNError")
            except Exception as e:
                return dict(ok=False, err=type(e).__name__)
        ii, rr = infs + outside, recs
        st = call(lambda: an._initialize_node_status_(G, ii, rr))
        if st["ok"]:
            st["val"] = [st["val"][u] for u in nodes]
        ce = call(lambda: [int(x) for x in an._count_edge_types_(G, ii, rr, SIR=False)])
        nk = call(lambda: [[rs(x) for x in a] for a in an._get_Nk_and_IC_as_arrays_(G, initial_infecteds=ii, initial_recovereds=rr)])
        rh = [[rs(x) for x in a] for a in an._get_Nk_and_IC_as_arrays_(G, rho=rho)]
        impls.append((dict(entry="initial-condition builders", graph=dict(kind=gkind, n=n, edges=[[idx[u], idx[v]] for u, v in G.edges()]),
                           infs=[idx.get(u, n) for u in ii], recs=[idx[u] for u in rr], shape=shape, rho=rho), st, ce, nk, rh))
        reqs.append(dict(n=n, deg=[G.degree(u) for u in nodes], edges=[[idx[u], idx[v]] for u, v in G.edges()],
                         infs=[idx.get(u, n) for u in ii], recs=[idx[u] for u in rr], rho=rs(rho)))
        ctx.count("initcond-gen:" + shape)
    exe = os.path.join(lean, ".lake", "build", "bin", "driverinit")
    data = "\n".join(json.dumps(r, separators=(",", ":")) for r in reqs) + "\n"
    q = subprocess.run([exe], input=data, capture_output=True, text=True)
    lines = q.stdout.splitlines()
    if q.returncode != 0 or len(lines) != len(reqs):
        raise RuntimeError("driverinit crashed: " + q.stderr[-1000:])
    for (rep, st, ce, nk, rh), line in zip(impls, lines):
        g = json.loads(line)
        ctx.case(rep, nontrivial=True)
        d = []
        for name, a, b in (("_initialize_node_status_", st, g["status"]), ("_count_edge_types_", ce, g["edges"]),
                           ("_get_Nk_and_IC_as_arrays_(sets)", nk, g["sets"])):
            if a != b:
                d.append(name)
        if rh != g["rho"]:
            d.append("_get_Nk_and_IC_as_arrays_(rho)")
        if d:
            ctx.disagreement("generated-initcond:" + ",".join(d), dict(rep, impl=dict(status=st, edges=ce, sets=nk, rho=rh), generated=g))


def generated_glue(ctx):
    """the Lean code GENERATED from twelve ODE entry points (harness/pyglue2lean.py -> Gen/OdeGlue.lean: packing of X0,
    the argument tuple handed to the right-hand side, unpacking of the solution, derived series, EoNError guards, both
    return_full_data branches), run by its own driver with `integrate.odeint` replaced by the table of rows the real
    SciPy returned in the implementation's own call.  The entry points are reached through the *_from_graph wrappers
    and directly; every returned array is compared (1e-9 relative: the implementation computes in floats)."""
    import fcntl, subprocess, os, json, inspect, py2lean, pyglue2lean, EoN.analytic as an
    lean = common.LEAN
    os.makedirs(os.path.join(lean, ".audit"), exist_ok=True)
    with open(os.path.join(lean, ".audit", "gen_py2lean.lock"), "w") as lock:
        fcntl.flock(lock, fcntl.LOCK_EX)
        try:
            _, e1 = py2lean.regenerate()
            _, e2 = pyglue2lean.regenerate()
            errors = dict(e1, **e2)
        except Exception as e:
            errors = {"translator": "crashed: %r" % e}
        if errors:
            ctx.disagreement("generated-glue:translation", dict(entry="ODE entry points", errors=errors))
            return
        p = common.lake(["build", "driverglue"])
    if p.returncode != 0:
        ctx.disagreement("generated-glue:build", dict(entry="ODE entry points", log="\n".join(
            l for l in (p.stdout + p.stderr).splitlines() if "error" in l)[:1500]))
        return
    names = list(pyglue2lean.SIGS)
    records, stack = [], []
    orig = {n: getattr(an, n) for n in names}
    orig_odeint = an.integrate.odeint

    def odeint_wrap(func, X0, times, args=(), **kw):
        X = orig_odeint(func, X0, times, args=args, **kw)
        if stack:
            stack[-1]["X"] = np.array(X, dtype=float)
        return X

    def make(n):
        sig = inspect.signature(orig[n])

        def w(*a, **k):
            ba = sig.bind(*a, **k)
            ba.apply_defaults()
            rec = dict(fn=n, args=dict(ba.arguments))
            stack.append(rec)
            try:
                res = orig[n](*a, **k)
            finally:
                stack.pop()
            rec["res"] = res
            records.append(rec)
            return res
        return w
    an.integrate.odeint = odeint_wrap
    for n in names:
        setattr(an, n, make(n))
    try:
        for name, e in odes.E.items():
            if e["scalar"] or e["discrete"]:
                continue
            for k in range(ctx.scale(4, 16)):
                style = e["ic"][k % len(e["ic"])]
                G, gkind = odes.graph(ctx.rng, small=e["small"])
                kw, desc = odes.ic_kwargs(name, style, G, ctx.rng)
                tau, gamma = RATES[ctx.rng.randrange(len(RATES))]
                before = len(records)
                try:
                    odes.call(name, G, kw, tau, gamma, 0.0, ctx.rng.choice([1.0, 2.0]), ctx.rng.choice([3, 5]), k % 2 == 0 and bool(e["full"]), p=0.5)
                except Exception:
                    pass
                for r_ in records[before:]:
                    r_["via"] = name
    finally:
        an.integrate.odeint = orig_odeint
        for n in names:
            setattr(an, n, orig[n])
    reqs, metas = [], []
    F_ = F

    def q(x):
        return rs(F_(float(x)))
    for rec in records:
        if "X" not in rec or not np.all(np.isfinite(rec["X"])):
            continue
        a = rec["args"]
        rq = dict(fn=rec["fn"], X=[[q(v) for v in row] for row in rec["X"]])
        sig = dict(p.split(":") for p in pyglue2lean.SIGS[rec["fn"]].split())
        ok = True
        for pn, pk in sig.items():
            v = a[pn]
            if pk == "S":
                rq[pn] = q(v)
            elif pk == "N":
                rq[pn] = int(v)
            elif pk == "B":
                rq[pn] = bool(v)
            elif pk == "V":
                rq[pn] = [q(x) for x in np.asarray(v, dtype=float).ravel()]
            elif pk == "F" and pn == "psihat":
                th = rec["X"][:, 0]
                rq[pn] = [[q(t_), q(v(t_))] for t_ in th]
        if not all(np.isfinite(float(F_(x))) for x in [rq.get("tmin", "0")]):
            ok = False
        if ok:
            reqs.append(rq)
            metas.append(rec)
            ctx.count("generated-glue:%s%s" % (rec["fn"], ":full" if a.get("return_full_data") else ""))
    if not reqs:
        return
    exe = os.path.join(lean, ".lake", "build", "bin", "driverglue")
    data = "\n".join(json.dumps(r_, separators=(",", ":")) for r_ in reqs) + "\n"
    pr = subprocess.run([exe], input=data, capture_output=True, text=True)
    lines = pr.stdout.splitlines()
    if pr.returncode != 0 or len(lines) != len(reqs):
        raise RuntimeError("driverglue crashed: " + pr.stderr[-1000:])
    for rec, line in zip(metas, lines):
        g = json.loads(line)
        rep = dict(entry=rec["fn"], stream="generated-glue", via=rec.get("via"), args={k: (str(v)[:60]) for k, v in rec["args"].items()})
        ctx.case(rep, nontrivial=True)
        if not g.get("ok"):
            ctx.disagreement("generated-glue-error", dict(rep, generated=g))
            continue
        res = rec["res"]
        bad = None
        if len(res) != len(g["out"]):
            bad = "number of returned arrays: impl %d generated %d" % (len(res), len(g["out"]))
        else:
            for j, (mine, theirs) in enumerate(zip(g["out"], res)):
                arr_ = np.asarray(theirs, dtype=float)
                if "s" in mine:
                    m_ = np.array([float(F_(x)) for x in mine["s"]])
                else:
                    m_ = np.array([[float(F_(x)) for x in row] for row in mine["m"]]).T if mine["m"] and mine["m"][0] else np.zeros(arr_.shape)
                if m_.shape != arr_.shape or not np.allclose(m_, arr_, rtol=1e-9, atol=1e-9):
                    bad = "returned array %d differs (shape %s vs %s)" % (j, m_.shape, arr_.shape)
                    break
        if bad:
            ctx.disagreement("generated-glue:" + bad[:200], rep)


def layouts(ctx):
    """the array-taking solvers accept a consistent initial condition whatever its memory layout: the same 2-D tables
    as C-ordered arrays, Fortran-ordered arrays, transposes of the transposed table and windows into a larger
    pre-allocated table must all be accepted and give the same solution"""
    import c19
    for k in range(ctx.scale(6, 30)):
        calls = c19.direct_calls(ctx, kind=odes.KINDS[k % len(odes.KINDS)])
        for name, f, args, kwargs in calls:
            if not any(isinstance(a, np.ndarray) and a.ndim == 2 for a in list(args) + list(kwargs.values())):
                continue
            try:
                base = f(*args, **kwargs)
            except Exception:
                continue            # the C-ordered call is C06's / C19's business elsewhere
            for layout in ("fortran", "transposed", "window"):
                def conv(a):
                    if not (isinstance(a, np.ndarray) and a.ndim == 2):
                        return a
                    if layout == "fortran":
                        return np.asfortranarray(a)
                    if layout == "transposed":
                        return np.ascontiguousarray(a.T).T
                    big = np.zeros((a.shape[0] + 2, a.shape[1] + 3), dtype=a.dtype)
                    big[1:1 + a.shape[0], 2:2 + a.shape[1]] = a
                    return big[1:1 + a.shape[0], 2:2 + a.shape[1]]
                a2 = tuple(conv(a) for a in args)
                k2 = {kk: conv(v) for kk, v in kwargs.items()}
                rep = dict(entry=name, stream="layout", layout=layout)
                ctx.case(dict(rep, k=k), nontrivial=True)
                ctx.count("layout:%s" % layout)
                try:
                    res = f(*a2, **k2)
                except Exception as ex:
                    ctx.violation("%s rejects a consistent initial condition given as a %s array: %s" % (name, layout, type(ex).__name__),
                                  dict(rep, error=err_enum(ex), message=str(ex)[:120]))
                    continue
                same = len(res) == len(base) and all(np.allclose(np.asarray(x, dtype=float), np.asarray(y, dtype=float), rtol=1e-9, atol=1e-9, equal_nan=True)
                                                     for x, y in zip(res, base))
                if not same:
                    ctx.violation("%s: the solution depends on the memory layout of the initial condition (%s)" % (name, layout), rep)


def run(ctx):
    drv = common.LeanDriver()
    probe2 = probe_known2_start()
    generated_initcond(ctx)
    generated_glue(ctx)
    import genwrap, genglue2
    genwrap.run_stream(ctx)           # the *_from_graph wrappers regenerated from the source (Gen/WrapGen.lean)
    genglue2.run_stream(ctx)          # sixteen further ODE entry points regenerated whole (Gen/OdeGlue2.lean)
    discrete_theta_zero(ctx)
    layouts(ctx)
    probe_known(ctx)
    probe_known3(ctx)
    rhs_correspondence(ctx, drv)
    reqs, metas = [], []
    per = ctx.scale(28, 84)
    for name, e in odes.E.items():
        for k in range(per):
            # every (initial-condition style, graph kind) combination is visited
            style = e["ic"][k % len(e["ic"])]
            G, gkind = odes.graph(ctx.rng, small=e["small"], kind=odes.KINDS[(k // len(e["ic"])) % len(odes.KINDS)])
            idx = gen.index_of(G)
            tau, gamma = RATES[ctx.rng.randrange(len(RATES))]
            p = ctx.rng.choice([0.25, 0.5, 0.0, 1.0])
            # one case in three: THE SAME graph object has already been through the library with a different wiring
            # (an earlier call, then edges moved in place keeping the node and edge counts): the result must depend on
            # what the graph is now, not on what the object looked like before
            rewired = False
            if k % 3 == 2 and G.number_of_edges() >= 1 and not G.is_directed():
                try:
                    kw0, _ = odes.ic_kwargs(name, style, G, ctx.rng)
                    odes.call(name, G, kw0, 0.5, 1.0, 0 if e["discrete"] else 0.0, 2 if e["discrete"] else 1.0, 3, False, p=0.5)
                except Exception:
                    pass
                nodes_ = list(G)
                for _ in range(ctx.rng.randint(1, max(1, G.number_of_edges() // 2))):
                    non = [(a, b) for i_, a in enumerate(nodes_) for b in nodes_[i_ + 1:] if not G.has_edge(a, b)]
                    if not non:
                        break
                    a, b = ctx.rng.choice(list(G.edges()))
                    G.remove_edge(a, b)
                    G.add_edge(*ctx.rng.choice(non))
                    rewired = True
                if rewired:
                    ctx.count("rewired-in-place-after-a-call")
                    gkind += ":rewired-in-place"
            kw, desc = odes.ic_kwargs(name, style, G, ctx.rng)
            full = bool(e["full"]) and ctx.rng.random() < 0.6
            tmin = ctx.rng.choice([0, 0, 1, 2])
            if e["discrete"]:
                tmax, tcount = tmin + 6, 7
            else:
                tmin = float(tmin)
                tmax, tcount = tmin + ctx.rng.choice([2.0, 4.0]), ctx.rng.choice([5, 9, 5, 9, 2, 1])
            rep = dict(entry=name, graph=dict(kind=gkind, n=G.order(), edges=[[idx[u], idx[v]] for u, v in G.edges()]),
                       ic={k_: ([idx[u] for u in v] if isinstance(v, list) else v) for k_, v in desc.items()}, tau=tau, gamma=gamma, p=p,
                       tmin=tmin, tmax=tmax, tcount=tcount, full=full,
                       regular=len(set(dict(G.degree()).values())) == 1,
                       depleting=(gamma == 0 or tau / gamma >= 10))
            ctx.count("%s:%s" % (name.replace("_from_graph", ""), style))
            # the initial sets as the caller may hand them over: list, tuple, set, NumPy array of labels (a sampled index
            # array is the usual way of picking them), a dict-keys view — "an iterable of nodes" in every docstring
            for key in ("initial_infecteds", "initial_recovereds"):
                if isinstance(kw.get(key), list) and ctx.rng.random() < 0.45:
                    kind_ = ctx.rng.choice(["array", "array", "tuple", "set", "dictkeys"])
                    vals = kw[key]
                    if kind_ == "array" and all(isinstance(u, int) for u in vals):
                        kw[key] = np.array(vals)
                    elif kind_ == "tuple":
                        kw[key] = tuple(vals)
                    elif kind_ == "set":
                        kw[key] = set(vals)
                    elif kind_ == "dictkeys":
                        kw[key] = dict.fromkeys(vals).keys()
                    else:
                        kind_ = "list"
                    rep.setdefault("containers", {})[key] = kind_
                    ctx.count("container:%s" % kind_)
            # node-level entry points: an explicit nodelist (a permutation of the nodes) together with rho / the default is a
            # consistent initial condition too (fixed in /repo 19d1024: the pair-based solvers crashed on it)
            nl = None
            if e.get("nodelevel") and style in ("rho", "default") and k % 2 == 1:
                nl = list(G)
                ctx.rng.shuffle(nl)
                rep["nodelist"] = [idx[u] for u in nl]
                ctx.count("%s:nodelist+%s" % (name, style))
            try:
                res = odes.call(name, G, kw, tau, gamma, tmin, tmax, tcount, full, p=p, nodelist=nl)
            except Exception as ex:
                ctx.case(rep, nontrivial=False)
                import traceback
                ctx.violation("%s rejected / crashed on a consistent initial condition: %s" % (name, type(ex).__name__),
                              dict(rep, error=err_enum(ex), tb=traceback.format_exc()[-500:]))
                continue
            rho = desc.get("rho", 0)
            reqs.append(dict(op="ode_ic", adj=gen.adj_lists(G, idx), infs=[idx[u] for u in desc.get("infs", [])],
                             recs=[idx[u] for u in desc.get("recs", [])], rho=common.rs(F(rho).limit_denominator(10 ** 6) if rho else 0)))
            metas.append((rep, e, desc, res, G))
    probe_known2(ctx, probe2)
    for (rep, e, desc, res, G), ic in zip(metas, drv.batch(reqs)):
        name = e["name"]
        N = G.order()
        if e["scalar"]:
            v = float(res)
            ctx.case(rep, nontrivial=True)
            if not (-1e-9 <= v <= 1 + 1e-9):
                ctx.violation("%s returned an attack rate outside [0,1]: %r" % (name, v), dict(rep, value=v))
            continue
        full = rep["full"]
        try:
            t, S, I, R, d = odes.sir_curves(name, res, full)
        except Exception as ex:
            ctx.case(rep, nontrivial=False)
            ctx.violation("%s: return value does not have the documented layout (%s)" % (name, type(ex).__name__), dict(rep, error=type(ex).__name__))
            continue
        ctx.case(rep, nontrivial=True, sample=dict(rep, S0=float(S[0]), I0=float(I[0])))
        bad = []
        want_t = np.arange(rep["tmin"], rep["tmax"] + 1) if e["discrete"] else np.linspace(rep["tmin"], rep["tmax"], rep["tcount"])
        if len(t) != len(want_t) or not np.allclose(t, want_t, rtol=0, atol=1e-12):
            bad.append("times != linspace(tmin,tmax,tcount): %s" % list(t[:4]))
        tot = S + I + (R if R is not None else 0)
        if np.any(~np.isfinite(tot)) or np.max(np.abs(tot - N)) > 1e-9 * N + 1e-9:
            bad.append("S+I(+R) != N (max dev %.3g)" % float(np.max(np.abs(tot - N))))
        for nm, x in (("S", S), ("I", I), ("R", R)):
            if x is not None and (np.min(x) < -1e-6 * N or np.max(x) > N * (1 + 1e-6)):
                bad.append("%s outside [0,N]: [%.4g, %.4g]" % (nm, float(np.min(x)), float(np.max(x))))
        if e["sir"]:
            if np.any(np.diff(S) > 1e-6 * N):
                bad.append("S increases in an SIR model")
            if np.any(np.diff(R) < -1e-6 * N):
                bad.append("R decreases in an SIR model")
        # initial state
        exp = expected_initial(e, desc, ic)
        tol = 1e-9 * N
        for nm, x in (("S", S), ("I", I), ("R", R)):
            if x is not None and not close(x[0], exp[nm], tol):
                bad.append("%s(tmin)=%.6g, requested %.6g" % (nm, float(x[0]), float(exp[nm])))
        if full:
            for nm in ("SS", "SI", "II", "theta"):
                if nm in d and not close(np.asarray(d[nm], dtype=float).ravel()[0], exp[nm], tol):
                    bad.append("full-data series %s starts at %.6g, expected %.6g" % (nm, float(np.asarray(d[nm]).ravel()[0]), float(exp[nm])))
            for nm in ("Sk", "Ik", "Rk"):
                if nm in d:
                    arr_ = np.asarray(d[nm], dtype=float)
                    if arr_.ndim != 2:
                        bad.append("full-data series %s is not a (degree x time) array: return_full_data ignored or layout differs from the docstring" % nm)
                        continue
                    arr0 = arr_[:, 0]
                    if len(arr0) != len(exp[nm]) or any(not close(a, b, tol) for a, b in zip(arr0, exp[nm])):
                        bad.append("full-data series %s starts at %s, expected %s" % (nm, [round(float(a), 6) for a in arr0], [float(b) for b in exp[nm]]))
        if bad:
            ctx.violation("%s: %s" % (name, "; ".join(bad)[:400]), dict(rep, problems=bad))


def discrete_theta_zero(ctx):
    """`EBCM_discrete_from_graph` / `EBCM_discrete` driven to theta = 0 EXACTLY: transmission probability 1 and a request in which
    no susceptible node has a susceptible or recovered neighbour (phiS0 = phiR0 = 0), on graphs WITH ISOLATED NODES (a degree-0
    class: the k = 0 term of psihat' is 0 * x**(-1)).  S+I+R = N at every index and nothing is nan (defect fixed in /repo; the
    first case is the input the thorough tier found it on)."""
    import EoN
    cases = [(7, [[0, 3], [0, 1], [1, 6], [2, 5], [3, 6], [5, 6]], [6, 2, 0], [1, 5], 1, 7)]
    r = ctx.rng
    for _ in range(ctx.scale(12, 60)):
        m = r.randint(2, 6)
        G = nx.star_graph(m) if r.random() < 0.5 else nx.complete_bipartite_graph(2, m)
        centre = [0] if G.number_of_nodes() == m + 1 else [0, 1]
        n = G.number_of_nodes()
        iso = r.randint(1, 3)
        cases.append((n + iso, [list(e) for e in G.edges()], centre, [], r.choice([0, 1, -2]), None))
    for n, edges, infs, recs, tmin, tmax in cases:
        G = nx.Graph(); G.add_nodes_from(range(n)); G.add_edges_from(edges)
        tmax = tmin + 5 if tmax is None else tmax
        rep = dict(entry="EBCM_discrete_from_graph", stream="theta-zero", n=n, edges=edges, infs=infs, recs=recs, p=1.0, tmin=tmin, tmax=tmax)
        ctx.case(rep, nontrivial=True)
        ctx.count("theta-zero")
        try:
            with np.errstate(all="ignore"):
                t, S, I, R = EoN.EBCM_discrete_from_graph(G, 1.0, initial_infecteds=infs, initial_recovereds=recs or None, tmin=tmin, tmax=tmax)
        except Exception as e:
            ctx.violation("EBCM_discrete_from_graph raised %s with p = 1 on a graph with isolated nodes (a consistent initial condition)"
                          % type(e).__name__, dict(rep, error=repr(e)[:200]))
            continue
        tot = np.asarray(S, dtype=float) + np.asarray(I, dtype=float) + np.asarray(R, dtype=float)
        if not np.all(np.isfinite(tot)) or np.max(np.abs(tot - n)) > 1e-9 * n:
            ctx.violation("EBCM_discrete_from_graph with p = 1 on a graph with isolated nodes: S+I+R != N (%s)" % [float(x) for x in tot[:6]],
                          dict(rep, S=[float(x) for x in S], I=[float(x) for x in I], R=[float(x) for x in R]))
