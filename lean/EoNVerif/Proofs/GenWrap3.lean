import EoNVerif.Proofs.GenWrap2
/-!
Lemmas for C06h (`Props/C06h.lean`): the `*_from_graph` wrappers of `Gen/WrapGen.lean` not covered by C06e / C06g —
`Attack_rate_discrete_from_graph`, `Attack_rate_cts_time_from_graph`, `EBCM_discrete_from_graph` (argument records, the
link array ↔ dict needed to compose them with the generated `GenHelp` base functions through C08c, `EBCM_discrete` with a
partial `psihatPrime`), the `rho` / default branch of `SIR_compact_effective_degree_from_graph`, the `psihatPrime` of the
`rho` branch of `EBCM_from_graph`.
-/
namespace GenWrapProofs3
open GenInit InitCond GenInitProofs GenWrap GenWrapProofs GenWrapProofs2
open GenHelpProofs (ok_bind err_bind pure_eq_ok throw_eq_err PkAL kAveAL fold_keys_ok psiHatAL psiHatPAL)

/-! ## an array indexed by degree read as a dict -/

theorem alGet_zip_range' (v : List Rat) : ∀ (s k : Nat),
    alGet ((List.range' s v.length).zip v) 0 k = if s ≤ k then v.getD (k - s) 0 else 0 := by
  induction v with
  | nil => intro s k; simp [alGet]
  | cons a t ih =>
    intro s k
    simp only [List.length_cons, List.range'_succ, List.zip_cons_cons, alGet]
    rw [ih]
    by_cases h : s = k
    · subst h; simp
    · by_cases h2 : s ≤ k
      · have h3 : s + 1 ≤ k := by omega
        have e : k - s = (k - (s + 1)) + 1 := by omega
        simp [h, h2, h3, e]
      · have h3 : ¬ s + 1 ≤ k := by omega
        simp [h, h2, h3]

/-- **`Sk0[k]` of the dict the composed wrappers hand to the base function is the array entry** -/
theorem alGet_vecToDict (v : List Rat) (k : Nat) : alGet (PyWrap.vecToDict v) 0 k = v.getD k 0 := by
  unfold PyWrap.vecToDict
  rw [List.range_eq_range', alGet_zip_range']
  simp

theorem alHas_zip_range' (v : List Rat) : ∀ (s k : Nat),
    alHas ((List.range' s v.length).zip v) k = decide (s ≤ k ∧ k < s + v.length) := by
  induction v with
  | nil => intro s k; simp [alHas]
  | cons a t ih =>
    intro s k
    simp only [List.length_cons, List.range'_succ, List.zip_cons_cons, alHas]
    rw [ih]
    by_cases h : s = k
    · subst h; simp
    · simp only [h, if_false]
      congr 1
      apply propext
      constructor <;> intro hh <;> omega

/-- the keys of that dict are `0..len-1` -/
theorem alHas_vecToDict (v : List Rat) (k : Nat) : alHas (PyWrap.vecToDict v) k = decide (k < v.length) := by
  unfold PyWrap.vecToDict
  rw [List.range_eq_range', alHas_zip_range']
  simp

/-- `psiHatV` (array) is C08c's `psiHatAL` (dict) -/
theorem psiHatV_eq_AL (Pk : List (Nat × Rat)) (v : List Rat) :
    psiHatV Pk v = psiHatAL Pk (PyWrap.vecToDict v) := by
  funext x
  unfold psiHatV psiHatAL
  simp only [alGet_vecToDict]

theorem psiHatPV_eq_PAL (Pk : List (Nat × Rat)) (v : List Rat) :
    psiHatPV Pk v = psiHatPAL Pk (PyWrap.vecToDict v) := by
  funext x
  unfold psiHatPV psiHatPAL
  simp only [alGet_vecToDict]

/-! ## the node loop of the two attack-rate wrappers: `(Sk0, SS, SR, SX)` -/

/-- one pass of the node loop of `Attack_rate_*_from_graph` (`ebStep` of Proofs/GenWrap2.lean without the `R0` counter) -/
def arStep (d : Node → Nat) (st : Node → St) (nb : Node → List Node) (w : Nat → Rat)
    (acc : List Rat × Int × Int × Int) (u : Node) : List Rat × Int × Int × Int :=
  if st u = St.S then
    (acc.1.set (d u) (acc.1.getD (d u) 0 + w (d u)), acc.2.1 + (nbCount st nb u St.S : Nat),
      acc.2.2.1 + (nbCount st nb u St.R : Nat), acc.2.2.2 + (d u : Nat))
  else acc

def proj5 (x : List Rat × Int × Int × Int × Int) : List Rat × Int × Int × Int := (x.1, x.2.1, x.2.2.1, x.2.2.2.1)

theorem arStep_proj (d : Node → Nat) (st : Node → St) (nb : Node → List Node) (w : Nat → Rat)
    (x : List Rat × Int × Int × Int × Int) (u : Node) :
    arStep d st nb w (proj5 x) u = proj5 (ebStep d st nb w x u) := by
  unfold arStep ebStep proj5
  cases h : st u <;> simp

theorem foldl_arStep_proj (d : Node → Nat) (st : Node → St) (nb : Node → List Node) (w : Nat → Rat) (l : List Node) :
    ∀ x, l.foldl (arStep d st nb w) (proj5 x) = proj5 (l.foldl (ebStep d st nb w) x) := by
  induction l with
  | nil => intro x; rfl
  | cons a t ih => intro x; rw [List.foldl_cons, List.foldl_cons, arStep_proj, ih]

theorem arStep_length (d : Node → Nat) (st : Node → St) (nb : Node → List Node) (w : Nat → Rat)
    (acc : List Rat × Int × Int × Int) (u : Node) : (arStep d st nb w acc u).1.length = acc.1.length := by
  unfold arStep
  split
  · simp
  · rfl

/-- a node loop on `(Sk0, SS, SR, SX)` whose body is `arStep` whenever the array has `M + 1` entries -/
theorem loop4 (d : Node → Nat) (st : Node → St) (nb : Node → List Node) (w : Nat → Rat) (M : Nat)
    (l : List Node) (hl : ∀ u ∈ l, d u ≤ M)
    (step : List Rat × Int × Int × Int → Node → Except String (List Rat × Int × Int × Int))
    (hstep : ∀ acc u, u ∈ l → acc.1.length = M + 1 → step acc u = .ok (arStep d st nb w acc u))
    (F : Nat → Rat) (SS SR SX : Int) :
    l.foldlM step (vec M F, SS, SR, SX) =
      .ok (vec M (fun k => F k + (cnt d st l St.S k : Rat) * w k),
       SS + (sumS st (fun u => nbCount st nb u St.S) l : Nat), SR + (sumS st (fun u => nbCount st nb u St.R) l : Nat),
       SX + (sumS st d l : Nat)) := by
  rw [foldlM_of_pure_on step (arStep d st nb w) (fun acc => acc.1.length = M + 1) l _ _ (vec_length _ _)]
  · have := foldl_arStep_proj d st nb w l (vec M F, SS, SR, SX, 0)
    rw [foldl_ebStep d st nb w M l hl] at this
    exact congrArg Except.ok this
  · intro a x hx hP
    exact ⟨hstep a x hx hP, by rw [arStep_length]; exact hP⟩

/-! ## `Attack_rate_discrete_from_graph`, `Attack_rate_cts_time_from_graph`: the argument records -/

/-- `SS/SX` resp. `SR/SX` as the wrappers compute them (`SX` replaced by 1 when it is 0) -/
def phiOf (A : WArgs) (st : Node → St) (x : St) : Rat :=
  ((sumS st (fun u => nbCount st A.neighbors u x) A.nodes : Nat) : Rat) / ((gI (sumS st A.degree A.nodes) : Nat) : Rat)

theorem ARd_sets (A : WArgs) (p : Rat) (infs : List Node) (recs : Option (List Node)) (n : Int) (st : Node → St)
    (hst : initialize_node_status A.toIArgs infs (recs.getD []) = .ok st) (hne : A.nodes ≠ []) :
    Attack_rate_discrete_from_graph_args A p (some infs) recs none n =
      .ok { Pk := PkAL (A.nodes.map A.degree), p := p, rho := none, Sk0 := some (Sk0fin A st),
            phiS0 := some (phiOf A st St.S), phiR0 := some (phiOf A st St.R), number_its := n } := by
  unfold Attack_rate_discrete_from_graph_args
  have hne' : A.nodes.map A.degree ≠ [] := fun e => hne (List.map_eq_nil_iff.mp e)
  simp only [Option.isSome_none, Bool.false_and, Bool.false_eq_true, if_false, GenHelpProofs.get_Pk_eq, ok_bind,
    hst, maxKey_counter, hne', mapM_counter, zeros_eq]
  rw [loop4 A.degree st A.neighbors (wInv (A.nodes.map A.degree)) (Helpers.maxDeg (A.nodes.map A.degree)) A.nodes
    (fun u hu => Helpers.le_maxDeg _ _ (List.mem_map.mpr ⟨u, hu, rfl⟩))]
  swap
  · intro acc u hu hlen
    have hd : A.degree u ∈ A.nodes.map A.degree := List.mem_map.mpr ⟨u, hu, rfl⟩
    have hle := Helpers.le_maxDeg _ _ hd
    obtain ⟨a, b, c, d⟩ := acc
    simp only at hlen
    have e1 := vecGet_nat a (A.degree u) (by omega)
    have e2 := vecGet_nat (NkL (A.nodes.map A.degree)) (A.degree u) (by simp [NkL]; omega)
    have e3 := GenHelpProofs.fdiv_ok 1 _ (NkL_getD _ _ hd).2
    have e4 := vecAdd_nat a (A.degree u) (1 / (NkL (A.nodes.map A.degree)).getD (A.degree u) 0) (by omega)
    cases h : st u
    · simp only [decide_true, if_true, e1, e2, e3, e4, ok_bind, nbFold]
      simp [arStep, h, nbCount, wInv]
    · simp [arStep, h]
    · simp [arStep, h]
  simp only [ok_bind, guard_int, zero_add]
  have hg : ((if ((sumS st A.degree A.nodes : Nat) : Int) = 0 then (1 : Int) else ((sumS st A.degree A.nodes : Nat) : Int))
      : Int) = ((gI (sumS st A.degree A.nodes) : Nat) : Int) := by
    unfold gI; split <;> simp_all
  have hg0 : (((gI (sumS st A.degree A.nodes) : Nat) : Int) : Rat) ≠ 0 := by
    exact_mod_cast gI_ne_zero _
  rw [hg, GenHelpProofs.fdiv_ok _ _ hg0, GenHelpProofs.fdiv_ok _ _ hg0]
  simp [phiOf, Sk0fin]

theorem ARc_sets (A : WArgs) (tau gamma : Rat) (infs : List Node) (recs : Option (List Node)) (n : Int) (st : Node → St)
    (hst : initialize_node_status A.toIArgs infs (recs.getD []) = .ok st) (hne : A.nodes ≠ []) :
    Attack_rate_cts_time_from_graph_args A tau gamma (some infs) recs none n =
      .ok { Pk := PkAL (A.nodes.map A.degree), tau := tau, gamma := gamma, number_its := n, rho := none,
            Sk0 := some (Sk0fin A st), phiS0 := some (phiOf A st St.S), phiR0 := some (phiOf A st St.R) } := by
  unfold Attack_rate_cts_time_from_graph_args
  have hne' : A.nodes.map A.degree ≠ [] := fun e => hne (List.map_eq_nil_iff.mp e)
  simp only [Option.isSome_none, Bool.false_and, Bool.false_eq_true, if_false, GenHelpProofs.get_Pk_eq, ok_bind,
    hst, maxKey_counter, hne', mapM_counter, zeros_eq]
  rw [loop4 A.degree st A.neighbors (wInv (A.nodes.map A.degree)) (Helpers.maxDeg (A.nodes.map A.degree)) A.nodes
    (fun u hu => Helpers.le_maxDeg _ _ (List.mem_map.mpr ⟨u, hu, rfl⟩))]
  swap
  · intro acc u hu hlen
    have hd : A.degree u ∈ A.nodes.map A.degree := List.mem_map.mpr ⟨u, hu, rfl⟩
    have hle := Helpers.le_maxDeg _ _ hd
    obtain ⟨a, b, c, d⟩ := acc
    simp only at hlen
    have e1 := vecGet_nat a (A.degree u) (by omega)
    have e2 := vecGet_nat (NkL (A.nodes.map A.degree)) (A.degree u) (by simp [NkL]; omega)
    have e3 := GenHelpProofs.fdiv_ok 1 _ (NkL_getD _ _ hd).2
    have e4 := vecAdd_nat a (A.degree u) (1 / (NkL (A.nodes.map A.degree)).getD (A.degree u) 0) (by omega)
    cases h : st u
    · simp only [decide_true, if_true, e1, e2, e3, e4, ok_bind, nbFold]
      simp [arStep, h, nbCount, wInv]
    · simp [arStep, h]
    · simp [arStep, h]
  simp only [ok_bind, guard_int, zero_add]
  have hg : ((if ((sumS st A.degree A.nodes : Nat) : Int) = 0 then (1 : Int) else ((sumS st A.degree A.nodes : Nat) : Int))
      : Int) = ((gI (sumS st A.degree A.nodes) : Nat) : Int) := by
    unfold gI; split <;> simp_all
  have hg0 : (((gI (sumS st A.degree A.nodes) : Nat) : Int) : Rat) ≠ 0 := by
    exact_mod_cast gI_ne_zero _
  rw [hg, GenHelpProofs.fdiv_ok _ _ hg0, GenHelpProofs.fdiv_ok _ _ hg0]
  simp [phiOf, Sk0fin]

theorem AR_sets_error (A : WArgs) (p tau gamma : Rat) (infs : List Node) (recs : Option (List Node)) (n : Int) :
    (∀ e, initialize_node_status A.toIArgs infs (recs.getD []) = .error e →
      Attack_rate_discrete_from_graph_args A p (some infs) recs none n = .error e ∧
      Attack_rate_cts_time_from_graph_args A tau gamma (some infs) recs none n = .error e) ∧
    (∀ st, initialize_node_status A.toIArgs infs (recs.getD []) = .ok st → A.nodes = [] →
      Attack_rate_discrete_from_graph_args A p (some infs) recs none n = .error "ValueError" ∧
      Attack_rate_cts_time_from_graph_args A tau gamma (some infs) recs none n = .error "ValueError") := by
  constructor
  · intro e he
    unfold Attack_rate_discrete_from_graph_args Attack_rate_cts_time_from_graph_args
    simp only [Option.isSome_none, Bool.false_and, Bool.false_eq_true, if_false, GenHelpProofs.get_Pk_eq, ok_bind,
      he, err_bind, and_self]
  · intro st hst hN
    unfold Attack_rate_discrete_from_graph_args Attack_rate_cts_time_from_graph_args
    simp only [Option.isSome_none, Bool.false_and, Bool.false_eq_true, if_false, GenHelpProofs.get_Pk_eq, ok_bind,
      hst, maxKey_counter, hN, List.map_nil, if_true, err_bind, and_self]

theorem AR_both (A : WArgs) (p tau gamma : Rat) (infs recs : Option (List Node)) (r : Rat) (n : Int)
    (h : infs.isSome ∨ recs.isSome) :
    Attack_rate_discrete_from_graph_args A p infs recs (some r) n = .error "EoNError" ∧
    Attack_rate_cts_time_from_graph_args A tau gamma infs recs (some r) n = .error "EoNError" := by
  unfold Attack_rate_discrete_from_graph_args Attack_rate_cts_time_from_graph_args
  cases infs <;> cases recs <;> simp at h ⊢

/-- without `initial_infecteds`: NOTHING is computed from the graph but `Pk`; `rho` is passed on as given (`None`
included — no default `1/N`), `Sk0 = phiS0 = None`, `phiR0 = 0`; never an exception, the empty graph included -/
theorem AR_none (A : WArgs) (p tau gamma : Rat) (recs : Option (List Node)) (rho : Option Rat)
    (hrr : ¬ (rho.isSome ∧ recs.isSome)) (n : Int) :
    Attack_rate_discrete_from_graph_args A p none recs rho n =
      .ok { Pk := PkAL (A.nodes.map A.degree), p := p, rho := rho, Sk0 := none, phiS0 := none, phiR0 := some 0,
            number_its := n } ∧
    Attack_rate_cts_time_from_graph_args A tau gamma none recs rho n =
      .ok { Pk := PkAL (A.nodes.map A.degree), tau := tau, gamma := gamma, number_its := n, rho := rho, Sk0 := none,
            phiS0 := none, phiR0 := some 0 } := by
  have h2 : (rho.isSome && recs.isSome) = false := by
    cases rho <;> cases recs <;> simp at hrr ⊢
  unfold Attack_rate_discrete_from_graph_args Attack_rate_cts_time_from_graph_args
  simp only [Option.isSome_none, Bool.and_false, Bool.false_eq_true, if_false, h2, GenHelpProofs.get_Pk_eq, ok_bind]
  constructor <;> simp

/-! ## `EBCM_discrete_from_graph`: the argument record -/

/-- `v[k]/Nk[k]`, `k = 0..maxdeg` -/
def divNk (degs : List Nat) (v : List Rat) : List Rat :=
  vec (Helpers.maxDeg degs) (fun k => v.getD k 0 * wInv degs k)

/-- the generated `psihat` closure of `EBCM_discrete_from_graph` (explicit sets): each term is divided by `Nk[k]` -/
theorem psihatN_closure (degs : List Nat) (v : List Rat) (hv : v.length = Helpers.maxDeg degs + 1) (x : Rat) :
    ((PkAL degs).map (·.1)).foldlM (fun (acc_ : Rat) (k_ : Nat) => do
        let d_7 ← PyWrap.dictGet (PkAL degs) ((k_ : Nat) : Int)
        let d_8 ← PyWrap.vecGet v ((k_ : Nat) : Int)
        let p_9 ← PyWrap.powI x ((k_ : Nat) : Int)
        let d_10 ← PyWrap.vecGet (NkL degs) ((k_ : Nat) : Int)
        let q_11 ← PyTM.fdiv ((d_7 * d_8) * p_9) d_10
        (pure (acc_ + q_11) : Except String Rat)) 0 = .ok (psiHatV (PkAL degs) (divNk degs v) x) := by
  rw [fold_keys_ok _ (fun k => (alGet (PkAL degs) 0 k * (divNk degs v).getD k 0) * x ^ k)]
  · simp [psiHatV]
  · intro k hk acc
    have hkd := keys_PkAL_mem degs k hk
    have hk' := Helpers.le_maxDeg degs k hkd
    rw [wdictGet_key _ k hk, vecGet_nat v k (by omega), powI_nat, vecGet_nat (NkL degs) k (by simp [NkL]; omega)]
    simp only [ok_bind, GenHelpProofs.fdiv_ok _ _ (NkL_getD _ _ hkd).2, divNk, vec_getD _ _ k hk', wInv]
    show Except.ok _ = Except.ok _
    congr 1; ring

/-- the generated `psihatPrime` closure of `EBCM_discrete_from_graph` (explicit sets) — the `k = 0` term is SKIPPED
(`… for k in Pk if k>0`), so the closure is TOTAL: no hypothesis on `x` or on the degrees -/
theorem psihatPrimeN_closure (degs : List Nat) (v : List Rat) (hv : v.length = Helpers.maxDeg degs + 1) (x : Rat) :
    ((PkAL degs).map (·.1)).foldlM (fun (acc_ : Rat) (k_ : Nat) =>
        if decide (((k_ : Nat) : Int) > (0 : Int)) then do
          let d_13 ← PyWrap.dictGet (PkAL degs) ((k_ : Nat) : Int)
          let d_14 ← PyWrap.vecGet v ((k_ : Nat) : Int)
          let p_15 ← PyWrap.powI x (((k_ : Nat) : Int) - (1 : Int))
          let d_16 ← PyWrap.vecGet (NkL degs) ((k_ : Nat) : Int)
          let q_17 ← PyTM.fdiv ((((((k_ : Nat) : Int) : Rat) * d_13) * d_14) * p_15) d_16
          (pure (acc_ + q_17) : Except String Rat)
        else (pure acc_ : Except String Rat)) 0 = .ok (psiHatPV (PkAL degs) (divNk degs v) x) := by
  rw [fold_keys_ok _ (fun k => if 0 < k then
      ((((k : Nat) : Rat) * alGet (PkAL degs) 0 k) * (divNk degs v).getD k 0) * x ^ (k - 1) else 0)]
  · simp [psiHatPV]
  · intro k hk acc
    have hkd := keys_PkAL_mem degs k hk
    have hk' := Helpers.le_maxDeg degs k hkd
    by_cases hk0 : 0 < k
    · have hki : ((k : Nat) : Int) > (0 : Int) := by omega
      rw [if_pos (decide_eq_true hki), wdictGet_key _ k hk, vecGet_nat v k (by omega), powI_pred x k hk0,
        vecGet_nat (NkL degs) k (by simp [NkL]; omega)]
      simp only [ok_bind, GenHelpProofs.fdiv_ok _ _ (NkL_getD _ _ hkd).2, divNk, vec_getD _ _ k hk', wInv, hk0, if_true]
      show Except.ok _ = Except.ok _
      congr 1; simp; ring
    · have : k = 0 := by omega
      subst this
      simp

/-- … in particular at `x = 0`, isolated nodes or not: the closure does NOT raise (before the correction of the source it
evaluated `0.0 ** (-1)` for the degree-0 class) -/
theorem psihatPrimeN_closure_zero (degs : List Nat) (v : List Rat) (hv : v.length = Helpers.maxDeg degs + 1) :
    ((PkAL degs).map (·.1)).foldlM (fun (acc_ : Rat) (k_ : Nat) =>
        if decide (((k_ : Nat) : Int) > (0 : Int)) then do
          let d_13 ← PyWrap.dictGet (PkAL degs) ((k_ : Nat) : Int)
          let d_14 ← PyWrap.vecGet v ((k_ : Nat) : Int)
          let p_15 ← PyWrap.powI (0 : Rat) (((k_ : Nat) : Int) - (1 : Int))
          let d_16 ← PyWrap.vecGet (NkL degs) ((k_ : Nat) : Int)
          let q_17 ← PyTM.fdiv ((((((k_ : Nat) : Int) : Rat) * d_13) * d_14) * p_15) d_16
          (pure (acc_ + q_17) : Except String Rat)
        else (pure acc_ : Except String Rat)) 0 = .ok (psiHatPV (PkAL degs) (divNk degs v) 0) :=
  psihatPrimeN_closure degs v hv 0

/-- `Σ_{k ∈ Pk} k·Pk[k]·x^(k-1)` -/
def psiKP (Pk : List (Nat × Rat)) (x : Rat) : Rat :=
  sumRat ((Pk.map (·.1)).map fun k => if 0 < k then (((k : Nat) : Rat) * alGet Pk 0 k) * x ^ (k - 1) else 0)

/-- the `psihatPrime` closure of the `rho` branches (before the factor `1 - rho`) -/
theorem psiKP_closure (Pk : List (Nat × Rat)) (x : Rat) (hx : x ≠ 0 ∨ 0 ∉ Pk.map (·.1)) :
    (Pk.map (·.1)).foldlM (fun (acc_ : Rat) (k_ : Nat) => do
        let d_25 ← PyWrap.dictGet Pk ((k_ : Nat) : Int)
        let p_26 ← PyWrap.powI x (((k_ : Nat) : Int) - (1 : Int))
        (pure (acc_ + (((((k_ : Nat) : Int) : Rat) * d_25) * p_26)) : Except String Rat)) 0 = .ok (psiKP Pk x) := by
  rw [fold_keys_ok _ (fun k => if 0 < k then (((k : Nat) : Rat) * alGet Pk 0 k) * x ^ (k - 1) else 0)]
  · simp [psiKP]
  · intro k hk acc
    rw [wdictGet_key _ k hk]
    by_cases hk0 : 0 < k
    · rw [powI_pred x k hk0]; simp [hk0]
    · have : k = 0 := by omega
      subst this
      have hx' : x ≠ 0 := by
        rcases hx with h | h
        · exact h
        · exact absurd hk h
      obtain ⟨y, hy⟩ := powI_neg x hx'
      rw [hy]; simp

theorem psiKP_closure_zero (Pk : List (Nat × Rat)) (h0 : 0 ∈ Pk.map (·.1)) :
    (Pk.map (·.1)).foldlM (fun (acc_ : Rat) (k_ : Nat) => do
        let d_25 ← PyWrap.dictGet Pk ((k_ : Nat) : Int)
        let p_26 ← PyWrap.powI (0 : Rat) (((k_ : Nat) : Int) - (1 : Int))
        (pure (acc_ + (((((k_ : Nat) : Int) : Rat) * d_25) * p_26)) : Except String Rat)) 0
      = .error "ZeroDivisionError" := by
  apply GenHelpProofs.fold_keys_err _ (fun k => if 0 < k then (((k : Nat) : Rat) * alGet Pk 0 k) * (0 : Rat) ^ (k - 1) else 0)
  · intro k hk
    by_cases hk0 : 0 < k
    · left; intro acc
      rw [wdictGet_key _ k hk, powI_pred 0 k hk0]; simp [hk0]
    · right; intro acc
      have : k = 0 := by omega
      subst this
      rw [wdictGet_key _ 0 hk, powI_neg_zero]; rfl
  · refine ⟨0, h0, fun acc => ?_⟩
    rw [wdictGet_key _ 0 h0, powI_neg_zero]; rfl

/-- the `psihatPrime` closure of the `rho` branch of `EBCM_discrete_from_graph` (before the factor `1 - rho`): the `k = 0`
term is SKIPPED (`… for k in Pk if k>0`), so it is TOTAL — the same polynomial `psiKP` for every `x`, `x = 0` included -/
theorem psiKP_closure_pos (Pk : List (Nat × Rat)) (x : Rat) :
    (Pk.map (·.1)).foldlM (fun (acc_ : Rat) (k_ : Nat) =>
        if decide (((k_ : Nat) : Int) > (0 : Int)) then do
          let d_25 ← PyWrap.dictGet Pk ((k_ : Nat) : Int)
          let p_26 ← PyWrap.powI x (((k_ : Nat) : Int) - (1 : Int))
          (pure (acc_ + (((((k_ : Nat) : Int) : Rat) * d_25) * p_26)) : Except String Rat)
        else (pure acc_ : Except String Rat)) 0 = .ok (psiKP Pk x) := by
  rw [fold_keys_ok _ (fun k => if 0 < k then (((k : Nat) : Rat) * alGet Pk 0 k) * x ^ (k - 1) else 0)]
  · simp [psiKP]
  · intro k hk acc
    by_cases hk0 : 0 < k
    · have hki : ((k : Nat) : Int) > (0 : Int) := by omega
      rw [if_pos (decide_eq_true hki), wdictGet_key _ k hk, powI_pred x k hk0]; simp [hk0]
    · have : k = 0 := by omega
      subst this
      simp

theorem smul_NkL (c : Rat) (degs : List Nat) :
    PyWrap.smul c (NkL degs) = vec (Helpers.maxDeg degs) (fun k => c * ((Helpers.countEq degs k : Nat) : Rat)) := by
  unfold PyWrap.smul NkL
  rw [vec_map]

theorem divNk_cnt (A : WArgs) (st : Node → St) :
    divNk (A.nodes.map A.degree) (vec (Helpers.maxDeg (A.nodes.map A.degree))
      (fun k => (0 : Rat) * ((Helpers.countEq (A.nodes.map A.degree) k : Nat) : Rat)
        + (cnt A.degree st A.nodes St.S k : Rat) * 1)) = Sk0fin A st := by
  unfold divNk Sk0fin vec
  apply List.map_congr_left
  intro k hk
  have hk' : k ≤ Helpers.maxDeg (A.nodes.map A.degree) := by have := List.mem_range.mp hk; omega
  rw [show (List.map _ (List.range (Helpers.maxDeg (A.nodes.map A.degree) + 1))) = vec (Helpers.maxDeg (A.nodes.map A.degree))
      (fun k => (0 : Rat) * ((Helpers.countEq (A.nodes.map A.degree) k : Nat) : Rat)
        + (cnt A.degree st A.nodes St.S k : Rat) * 1) from rfl, vec_getD _ _ k hk']
  ring

theorem EBCMd_sets (A : WArgs) (p : Rat) (infs : List Node) (recs : Option (List Node)) (tmin tmax : Int)
    (full : Bool) (st : Node → St)
    (hst : initialize_node_status A.toIArgs infs (recs.getD []) = .ok st) (hne : A.nodes ≠ []) :
    ∃ a, EBCM_discrete_from_graph_args A p (some infs) recs none tmin tmax full = .ok a ∧
      a.N = (A.nodes.length : Rat) ∧
      a.R0 = (((A.nodes.filter fun u => st u = St.R).length : Nat) : Rat) ∧
      a.phiS0 = phiOf A st St.S ∧ a.phiR0 = phiOf A st St.R ∧
      (∀ x, a.psihat x = .ok (psiHatV (PkAL (A.nodes.map A.degree)) (Sk0fin A st) x)) ∧
      (∀ x, a.psihatPrime x = .ok (psiHatPV (PkAL (A.nodes.map A.degree)) (Sk0fin A st) x)) ∧
      a.p = p ∧ a.tmin = tmin ∧ a.tmax = tmax ∧ a.return_full_data = full := by
  unfold EBCM_discrete_from_graph_args
  have hne' : A.nodes.map A.degree ≠ [] := fun e => hne (List.map_eq_nil_iff.mp e)
  simp only [Option.isSome_none, Bool.false_and, Bool.false_eq_true, if_false, GenHelpProofs.get_Pk_eq, ok_bind,
    hst, maxKey_counter, hne', mapM_counter, Int.cast_zero, smul_NkL]
  rw [loop5 A.degree st A.neighbors (fun _ => 1) (Helpers.maxDeg (A.nodes.map A.degree)) A.nodes
    (fun u hu => Helpers.le_maxDeg _ _ (List.mem_map.mpr ⟨u, hu, rfl⟩))]
  swap
  · intro acc u hu hlen
    have hd : A.degree u ∈ A.nodes.map A.degree := List.mem_map.mpr ⟨u, hu, rfl⟩
    have hle := Helpers.le_maxDeg _ _ hd
    obtain ⟨a, b, c, d, e⟩ := acc
    simp only at hlen
    have e4 := vecAdd_nat a (A.degree u) 1 (by omega)
    cases h : st u
    · simp only [decide_true, if_true, e4, ok_bind, nbFold, Int.cast_one]
      simp [ebStep, h, nbCount]
    · simp [ebStep, h]
    · simp [ebStep, h]
  simp only [ok_bind, guard_int, zero_add]
  have hg : ((if ((sumS st A.degree A.nodes : Nat) : Int) = 0 then (1 : Int) else ((sumS st A.degree A.nodes : Nat) : Int))
      : Int) = ((gI (sumS st A.degree A.nodes) : Nat) : Int) := by
    unfold gI; split <;> simp_all
  have hg0 : (((gI (sumS st A.degree A.nodes) : Nat) : Int) : Rat) ≠ 0 := by
    exact_mod_cast gI_ne_zero _
  rw [hg, GenHelpProofs.fdiv_ok _ _ hg0, GenHelpProofs.fdiv_ok _ _ hg0]
  refine ⟨_, rfl, ?_, ?_, ?_, ?_, ?_, ?_, rfl, rfl, rfl, rfl⟩
  · simp
  · simp
  · simp [phiOf]
  · simp [phiOf]
  · intro x
    rw [← divNk_cnt A st]
    exact psihatN_closure _ _ (vec_length _ _) x
  · intro x
    rw [← divNk_cnt A st]
    exact psihatPrimeN_closure _ _ (vec_length _ _) x

theorem EBCMd_sets_error (A : WArgs) (p : Rat) (infs : List Node) (recs : Option (List Node)) (tmin tmax : Int)
    (full : Bool) :
    (∀ e, initialize_node_status A.toIArgs infs (recs.getD []) = .error e →
      EBCM_discrete_from_graph_args A p (some infs) recs none tmin tmax full = .error e) ∧
    (∀ st, initialize_node_status A.toIArgs infs (recs.getD []) = .ok st → A.nodes = [] →
      EBCM_discrete_from_graph_args A p (some infs) recs none tmin tmax full = .error "ValueError") := by
  constructor
  · intro e he
    unfold EBCM_discrete_from_graph_args
    simp only [Option.isSome_none, Bool.false_and, Bool.false_eq_true, if_false, GenHelpProofs.get_Pk_eq, ok_bind,
      he, err_bind]
  · intro st hst hN
    unfold EBCM_discrete_from_graph_args
    simp only [Option.isSome_none, Bool.false_and, Bool.false_eq_true, if_false, GenHelpProofs.get_Pk_eq, ok_bind,
      hst, maxKey_counter, hN, List.map_nil, if_true, err_bind]

theorem EBCMd_both (A : WArgs) (p : Rat) (infs recs : Option (List Node)) (r : Rat) (tmin tmax : Int) (full : Bool)
    (h : infs.isSome ∨ recs.isSome) :
    EBCM_discrete_from_graph_args A p infs recs (some r) tmin tmax full = .error "EoNError" := by
  unfold EBCM_discrete_from_graph_args
  cases infs <;> cases recs <;> simp at h ⊢

/-- `EBCM_discrete_from_graph` without `initial_infecteds` (an `initial_recovereds` given without `rho` is ignored) -/
theorem EBCMd_rho (A : WArgs) (p : Rat) (recs : Option (List Node)) (rho : Option Rat)
    (hrr : ¬ (rho.isSome ∧ recs.isSome)) (tmin tmax : Int) (full : Bool) :
    (∀ e, rhoOr A rho = .error e →
      EBCM_discrete_from_graph_args A p none recs rho tmin tmax full = .error e) ∧
    (∀ r, rhoOr A rho = .ok r →
      ∃ a, EBCM_discrete_from_graph_args A p none recs rho tmin tmax full = .ok a ∧
        a.N = (A.nodes.length : Rat) ∧ a.R0 = 0 ∧ a.phiS0 = 1 - r ∧ a.phiR0 = 0 ∧
        (∀ x, a.psihat x = .ok ((1 - r) * psiK (PkAL (A.nodes.map A.degree)) x)) ∧
        (∀ x, a.psihatPrime x = .ok ((1 - r) * psiKP (PkAL (A.nodes.map A.degree)) x)) ∧
        a.p = p ∧ a.tmin = tmin ∧ a.tmax = tmax ∧ a.return_full_data = full) := by
  have h2 : (rho.isSome && recs.isSome) = false := by
    cases rho <;> cases recs <;> simp at hrr ⊢
  unfold EBCM_discrete_from_graph_args
  simp only [Option.isSome_none, Bool.and_false, Bool.false_eq_true, if_false, h2, GenHelpProofs.get_Pk_eq, ok_bind]
  cases rho with
  | some r0 =>
    refine ⟨fun e he => by simp [rhoOr] at he, fun r hr => ?_⟩
    have : r0 = r := by simpa [rhoOr] using hr
    subst this
    refine ⟨_, rfl, by simp, by simp, by simp, by simp, ?_, ?_, rfl, rfl, rfl, rfl⟩
    · intro x
      show (List.foldlM _ _ _ >>= _) = _
      rw [psiK_closure]; simp
    · intro x
      show (List.foldlM _ _ _ >>= _) = _
      rw [psiKP_closure_pos _ x]; simp
  | none =>
    by_cases hN : A.nodes.length = 0
    · refine ⟨fun e he => ?_, fun r hr => by simp [rhoOr, hN] at hr⟩
      have : e = "ZeroDivisionError" := by simpa [rhoOr, hN] using he.symm
      subst this
      simp [hN]
    · refine ⟨fun e he => by simp [rhoOr, hN] at he, fun r hr => ?_⟩
      have : 1 / (A.nodes.length : Rat) = r := by simpa [rhoOr, hN] using hr
      subst this
      rw [Int.cast_natCast (R := Rat) A.nodes.length]
      simp only [fdiv_N, hN, if_false, ok_bind]
      refine ⟨_, rfl, by simp, by simp, by simp, by simp, ?_, ?_, rfl, rfl, rfl, rfl⟩
      · intro x
        show (List.foldlM _ _ _ >>= _) = _
        rw [psiK_closure]; simp
      · intro x
        show (List.foldlM _ _ _ >>= _) = _
        rw [psiKP_closure_pos _ x]; simp

/-- the `psihatPrime` of the `rho` / default branch of `EBCM_from_graph` (the record is the one of C06g's `EBCM_rho`) -/
theorem EBCM_rho_prime (A : WArgs) (tau gamma : Rat) (recs : Option (List Node)) (rho : Option Rat)
    (hrr : ¬ (rho.isSome ∧ recs.isSome)) (tmin tmax : Rat) (tcount : Int) (full : Bool) (r : Rat)
    (hr : rhoOr A rho = .ok r) (a : EBCM_Args)
    (ha : EBCM_from_graph_args A tau gamma none recs rho tmin tmax tcount full = .ok a) :
    (∀ x, x ≠ 0 ∨ 0 ∉ A.nodes.map A.degree →
      a.psihatPrime x = .ok ((1 - r) * psiKP (PkAL (A.nodes.map A.degree)) x)) ∧
    (0 ∈ A.nodes.map A.degree → a.psihatPrime 0 = .error "ZeroDivisionError") := by
  have h2 : (rho.isSome && recs.isSome) = false := by
    cases rho <;> cases recs <;> simp at hrr ⊢
  have hx : ∀ x : Rat, x ≠ 0 ∨ 0 ∉ A.nodes.map A.degree → x ≠ 0 ∨ 0 ∉ (PkAL (A.nodes.map A.degree)).map (·.1) := by
    intro x h
    rcases h with h | h
    · exact Or.inl h
    · right; rw [GenHelpProofs.PkAL_keys]; exact fun h' => h (List.mem_eraseDups.mp h')
  have h0 : 0 ∈ A.nodes.map A.degree → 0 ∈ (PkAL (A.nodes.map A.degree)).map (·.1) := by
    intro h; rw [GenHelpProofs.PkAL_keys]; exact List.mem_eraseDups.mpr h
  unfold EBCM_from_graph_args at ha
  simp only [Option.isSome_none, Bool.and_false, Bool.false_eq_true, if_false, h2, GenHelpProofs.get_Pk_eq, ok_bind]
    at ha
  cases rho with
  | some r0 =>
    have : r0 = r := by simpa [rhoOr] using hr
    subst this
    injection ha with ha; subst ha
    refine ⟨fun x hx' => ?_, fun h => ?_⟩
    · show (List.foldlM _ _ _ >>= _) = _
      rw [psiKP_closure _ x (hx x hx')]; simp
    · show (List.foldlM _ _ _ >>= _) = _
      rw [psiKP_closure_zero _ (h0 h)]; rfl
  | none =>
    by_cases hN : A.nodes.length = 0
    · simp [rhoOr, hN] at hr
    · have : 1 / (A.nodes.length : Rat) = r := by simpa [rhoOr, hN] using hr
      subst this
      rw [Int.cast_natCast (R := Rat) A.nodes.length] at ha
      simp only [fdiv_N, hN, if_false, ok_bind] at ha
      injection ha with ha; subst ha
      refine ⟨fun x hx' => ?_, fun h => ?_⟩
      · show (List.foldlM _ _ _ >>= _) = _
        rw [psiKP_closure _ x (hx x hx')]; simp
      · show (List.foldlM _ _ _ >>= _) = _
        rw [psiKP_closure_zero _ (h0 h)]; rfl

/-! ## the `rho` branch of the attack-rate base functions on the graph's `Pk` -/

theorem alGet_map_const (l : List (Nat × Rat)) (c : Rat) (k : Nat) :
    alGet (l.map fun kv => (kv.1, c)) 0 k = if alHas l k then c else 0 := by
  induction l with
  | nil => rfl
  | cons q t ih =>
    obtain ⟨k', v⟩ := q
    by_cases hk : k' = k
    · simp [alGet, alHas, hk]
    · simp [alGet, alHas, hk, ih]

/-- `Sk0 = {k: 1-rho}`: `ψ̂ = (1-rho)ψ`, `ψ̂' = (1-rho)ψ'` -/
theorem psiHatAL_const (Pk : List (Nat × Rat)) (c : Rat) :
    psiHatAL Pk (Pk.map fun kv => (kv.1, c)) = (fun x => c * psiK Pk x) ∧
    psiHatPAL Pk (Pk.map fun kv => (kv.1, c)) = (fun x => c * psiKP Pk x) := by
  constructor
  · funext x
    unfold psiHatAL psiK
    rw [← sumRat_mul_left]
    apply sumRat_map_congr
    intro k hk
    rw [alGet_map_const, GenHelpProofs.alHas_of_mem_keys Pk k hk]
    simp; ring
  · funext x
    unfold psiHatPAL psiKP
    rw [← sumRat_mul_left]
    apply sumRat_map_congr
    intro k hk
    rw [alGet_map_const, GenHelpProofs.alHas_of_mem_keys Pk k hk]
    by_cases h0 : 0 < k
    · simp [h0]; ring
    · simp [h0]

/-- `ψ'(1) = Σ_k k·Pk[k]` -/
theorem psiKP_one (Pk : List (Nat × Rat)) : psiKP Pk 1 = kAveAL Pk := by
  unfold psiKP kAveAL
  apply sumRat_map_congr
  intro k _
  by_cases h0 : 0 < k
  · simp [h0]
  · have : k = 0 := by omega
    subst this; simp

/-! ## `EBCM_discrete` with a partial `psihatPrime`: a successful run is the run with the totalised callback

(Since the `psihatPrime` closures of `EBCM_discrete_from_graph` skip `k = 0` they are total, `EBCMd_sets` / `EBCMd_rho`, and
`EBCM_discrete_of_total` applies directly; `EBCM_discrete_agree` is kept for the statements about "every successful run".) -/

theorem bind_ok_inv {α β : Type} (m : Except String α) (k : α → Except String β) (l : β) (h : (m >>= k) = .ok l) :
    ∃ r, m = .ok r ∧ k r = .ok l := by
  cases m with
  | error e => cases h
  | ok r => exact ⟨r, rfl, h⟩

theorem foldlM_mono {σ ι : Type} (body body' : σ → ι → Except String σ)
    (h : ∀ s t r, body s t = .ok r → body' s t = .ok r) (l : List ι) : ∀ init r,
    l.foldlM body init = .ok r → l.foldlM body' init = .ok r := by
  induction l with
  | nil => intro init r hr; exact hr
  | cons x t ih =>
    intro init r hr
    rw [List.foldlM_cons] at hr ⊢
    obtain ⟨s, hs, hk⟩ := bind_ok_inv _ _ _ hr
    rw [h _ _ _ hs]
    exact ih _ _ hk

theorem total_of_ok (g : Rat → Except String Rat) (x y : Rat) (h : g x = .ok y) : PyWrap.total g x = y := by
  simp [PyWrap.total, h]

/-- whenever `EBCM_discrete` succeeds with a total `psihat` and ANY `psihatPrime`, its result is the one computed with
the total callbacks `f` and any `f'` that agrees with `psihatPrime` wherever that does not raise (so C08c's
`gen_EBCM_discrete_spec` applies to it) -/
theorem EBCM_discrete_agree (N : Rat) (g g' : Rat → Except String Rat) (f f' : Rat → Rat) (hg : ∀ x, g x = .ok (f x))
    (hg' : ∀ x y, g' x = .ok y → f' x = y)
    (p phiS0 phiR0 R0 : Rat) (tmin tmax : Int) (full : Bool) (l : List (List Rat))
    (h : GenHelp.EBCM_discrete N g g' p phiS0 phiR0 R0 tmin tmax full = .ok l) :
    GenHelp.EBCM_discrete N (fun x => pure (f x)) (fun x => pure (f' x)) p phiS0 phiR0 R0 tmin tmax full
      = .ok l := by
  unfold GenHelp.EBCM_discrete at h ⊢
  simp only [hg, pure_eq_ok, ok_bind] at h ⊢
  cases h1 : g' 1 with
  | error e => rw [h1] at h; cases h
  | ok v =>
    rw [h1] at h
    simp only [ok_bind] at h
    rw [hg' 1 v h1]
    obtain ⟨r, hr, hk⟩ := bind_ok_inv _ _ _ h
    rw [foldlM_mono _ _ ?_ _ _ _ hr]
    · exact hk
    · rintro ⟨times, theta, R, S, I⟩ t r' hb
      cases hl : PyTM.listLast theta with
      | error e => simp only [hl] at hb; cases hb
      | ok th =>
        cases hy : g' th with
        | error e =>
          simp only [hl, hy, ok_bind] at hb
          cases hR : PyTM.listLast R <;> cases hS' : PyTM.listLast S <;> cases hI : PyTM.listLast I <;>
            simp only [hR, hS', hI, ok_bind, err_bind] at hb <;> cases hb
        | ok y =>
          simp only [hl, hy, ok_bind, hg' th y hy] at hb ⊢
          exact hb

/-- total `psihat`, total `psihatPrime`: the run with the plain functions -/
theorem EBCM_discrete_of_total (N : Rat) (g g' : Rat → Except String Rat) (f f' : Rat → Rat) (hg : ∀ x, g x = .ok (f x))
    (hg' : ∀ x, g' x = .ok (f' x)) (p phiS0 phiR0 R0 : Rat) (tmin tmax : Int) (full : Bool) :
    GenHelp.EBCM_discrete N g g' p phiS0 phiR0 R0 tmin tmax full =
      GenHelp.EBCM_discrete N (fun x => pure (f x)) (fun x => pure (f' x)) p phiS0 phiR0 R0 tmin tmax full := by
  have e1 : g = fun x => pure (f x) := funext hg
  have e2 : g' = fun x => pure (f' x) := funext hg'
  rw [e1, e2]

/-! ## `SIR_compact_effective_degree_from_graph` -/

theorem weighted_countEq (degs : List Nat) :
    sumRat ((List.range (Helpers.maxDeg degs + 1)).map fun k =>
      ((k : Nat) : Rat) * ((Helpers.countEq degs k : Nat) : Rat)) = ((degs.sum : Nat) : Rat) := by
  have h2 := sum_classes_weighted id (Helpers.maxDeg degs) degs (fun u hu => Helpers.le_maxDeg degs u hu)
  simp only [id] at h2
  rw [List.map_id] at h2
  rw [← h2, ← sumRat_cast_nat, List.map_map]
  apply sumRat_map_congr
  intro k _
  simp only [Function.comp, Helpers.countEq]
  push_cast; ring

/-- `SIR_compact_effective_degree_from_graph` without `initial_infecteds` (all inputs; an `initial_recovereds` given
without `rho` is ignored): the default `rho = 1/N` first (ZeroDivisionError), then ValueError on a graph without nodes -/
theorem SIRced_rho (A : WArgs) (tau gamma : Rat) (recs : Option (List Node)) (rho : Option Rat)
    (hrr : ¬ (rho.isSome ∧ recs.isSome)) (tmin tmax : Rat) (tcount : Int) (full : Bool) :
    SIR_compact_effective_degree_from_graph_args A tau gamma none recs rho tmin tmax tcount full =
      (rhoOr A rho >>= fun r => if A.nodes = [] then .error "ValueError" else
        .ok { Skappa0 := vec (Helpers.maxDeg (A.nodes.map A.degree))
                (fun k => (1 - r) * ((Helpers.countEq (A.nodes.map A.degree) k : Nat) : Rat)),
              I0 := r * sumRat (NkL (A.nodes.map A.degree)), R0 := 0,
              SI0 := (1 - r) * r * (((A.nodes.map A.degree).sum : Nat) : Rat),
              tau := tau, gamma := gamma, tmin := tmin, tmax := tmax, tcount := tcount,
              return_full_data := full }) := by
  have h2 : (rho.isSome && recs.isSome) = false := by
    cases rho <;> cases recs <;> simp at hrr ⊢
  have key : ∀ r : Rat, A.nodes ≠ [] →
      (PyWrap.range (((Helpers.maxDeg (A.nodes.map A.degree) : Nat) : Int) + 1)).foldlM (fun (acc_ : Rat) (k : Int) => do
        let d_9 ← PyWrap.vecGet (PyWrap.smul (((1 : Int) : Rat) - r) (NkL (A.nodes.map A.degree))) k
        (pure (acc_ + ((((k : Int) : Rat) * d_9) * r)) : Except String Rat)) 0
      = .ok ((1 - r) * r * (((A.nodes.map A.degree).sum : Nat) : Rat)) := by
    intro r _
    rw [range_succ_nat, List.foldlM_map, fold_keys_ok _ (fun k => ((1 - r) * r) *
      (((k : Nat) : Rat) * ((Helpers.countEq (A.nodes.map A.degree) k : Nat) : Rat)))]
    · rw [sumRat_mul_left, weighted_countEq]; simp
    · intro k hk acc
      have hk' : k ≤ Helpers.maxDeg (A.nodes.map A.degree) := by have := List.mem_range.mp hk; omega
      rw [smul_NkL, vecGet_nat _ k (by rw [vec_length]; omega), vec_getD _ _ k hk']
      simp only [ok_bind, Int.cast_one, Int.cast_natCast, pure_eq_ok]
      congr 1; ring
  unfold SIR_compact_effective_degree_from_graph_args
  simp only [Option.isSome_none, Bool.and_false, Bool.false_eq_true, if_false, h2]
  have hm : (A.nodes.map A.degree = []) ↔ A.nodes = [] := List.map_eq_nil_iff
  cases rho with
  | some r =>
    by_cases hne : A.nodes = []
    · simp [rhoOr, hne, maxKey_counter]
    · simp only [rhoOr, ok_bind, maxKey_counter, hm, hne, if_false, mapM_counter, pure_bind]
      rw [key r hne]
      simp [smul_NkL]
  | none =>
    by_cases hN : A.nodes.length = 0
    · simp [rhoOr, hN]
    · have hne : A.nodes ≠ [] := fun e => hN (by rw [e]; rfl)
      rw [Int.cast_natCast (R := Rat) A.nodes.length]
      simp only [rhoOr, fdiv_N, hN, ok_bind, maxKey_counter, hm, hne, if_false, mapM_counter, pure_bind]
      rw [key _ hne]
      simp [smul_NkL]

theorem SIRced_both (A : WArgs) (tau gamma : Rat) (infs recs : Option (List Node)) (r : Rat) (tmin tmax : Rat)
    (tcount : Int) (full : Bool) (h : infs.isSome ∨ recs.isSome) :
    SIR_compact_effective_degree_from_graph_args A tau gamma infs recs (some r) tmin tmax tcount full
      = .error "EoNError" := by
  unfold SIR_compact_effective_degree_from_graph_args
  cases infs <;> cases recs <;> simp at h ⊢

end GenWrapProofs3
