import EoNVerif.Gen.Analytic
import EoNVerif.Proofs.ODESemi
import Mathlib.Tactic.Ring
import Mathlib.Tactic.FieldSimp
/-!
The functions generated from `EoN/analytic.py` by `harness/py2lean.py` (`Gen/Analytic.lean`) compute exactly the
hand-written right-hand sides of `Model/ODE.lean`, for every state and parameter.
State vectors are packed the way the solvers pack them (`np.concatenate` / `np.array`).
-/
namespace GenEq
open Gen ODE

/-- two-entry / n-entry vectors as lists -/
theorem toList_ofList (l : List Rat) : (V.ofList l).toList = l := by
  unfold V.toList V.ofList
  apply List.ext_getElem
  · simp
  · intro i h1 h2
    simp at h1
    simp [List.getD_eq_getElem?_getD, h1]

theorem gen_sisHomMF (nN tau gamma S I : Rat) :
    (dSIS_homogeneous_meanfield (V.ofList [S, I]) nN tau gamma).toList
      = [(sisHomMF nN tau gamma S I).1, (sisHomMF nN tau gamma S I).2] := by
  simp only [dSIS_homogeneous_meanfield, toList_ofList, sisHomMF]
  simp [V.ofList]

theorem gen_sirHomMF (nN tau gamma S I : Rat) :
    (dSIR_homogeneous_meanfield (V.ofList [S, I]) nN tau gamma).toList
      = [(sirHomMF nN tau gamma S I).1, (sirHomMF nN tau gamma S I).2] := by
  simp only [dSIR_homogeneous_meanfield, toList_ofList, sirHomMF]
  simp [V.ofList]

theorem gen_sisHomPW (N n tau gamma S SI SS : Rat) :
    (dSIS_homogeneous_pairwise (V.ofList [S, SI, SS]) N n tau gamma).toList
      = [(sisHomPW N n tau gamma S SI SS).1, (sisHomPW N n tau gamma S SI SS).2.1, (sisHomPW N n tau gamma S SI SS).2.2] := by
  simp only [dSIS_homogeneous_pairwise, toList_ofList, sisHomPW]
  simp [V.ofList]

theorem gen_sirHomPW (n tau gamma S I SI SS : Rat) :
    (dSIR_homogeneous_pairwise (V.ofList [S, I, SI, SS]) n tau gamma).toList
      = [(sirHomPW n tau gamma S I SI SS).1, (sirHomPW n tau gamma S I SI SS).2.1,
         (sirHomPW n tau gamma S I SI SS).2.2.1, (sirHomPW n tau gamma S I SI SS).2.2.2] := by
  simp only [dSIR_homogeneous_pairwise, toList_ofList, sirHomPW]
  simp [V.ofList]

theorem gen_sisSuperCompactPW (tau gamma N k1 k2 k3 I SS SI II : Rat) :
    (dSIS_super_compact_pairwise (V.ofList [I, SS, SI, II]) tau gamma N k1 k2 k3).toList
      = [(sisSuperCompactPW tau gamma N k1 k2 k3 I SS SI II).1, (sisSuperCompactPW tau gamma N k1 k2 k3 I SS SI II).2.1,
         (sisSuperCompactPW tau gamma N k1 k2 k3 I SS SI II).2.2.1, (sisSuperCompactPW tau gamma N k1 k2 k3 I SS SI II).2.2.2] := by
  simp only [dSIS_super_compact_pairwise, toList_ofList, sisSuperCompactPW]
  simp [V.ofList]


theorem gen_sirSuperCompactPW (K : Nat) (c : Nat → Rat) (tau gamma N theta SS SI R : Rat) :
    (dSIR_super_compact_pairwise (V.ofList [theta, SS, SI, R]) tau gamma (psiH K c) (psiHP K c) (psiHDP K c) N).toList
      = [(sirSuperCompactPW K c tau gamma N theta SS SI R).1, (sirSuperCompactPW K c tau gamma N theta SS SI R).2.1,
         (sirSuperCompactPW K c tau gamma N theta SS SI R).2.2.1, (sirSuperCompactPW K c tau gamma N theta SS SI R).2.2.2] := by
  simp only [dSIR_super_compact_pairwise, toList_ofList, sirSuperCompactPW]
  simp [V.ofList]

/-- `_dEBCM_` guards the normalising constant ψ̂'(1) against 0 (no node with a neighbour); away from that case it is
the model's right-hand side. -/
theorem gen_ebcm (K : Nat) (c : Nat → Rat) (N tau gamma phiS0 phiR0 theta R : Rat) (h : psiHP K c 1 ≠ 0) :
    (dEBCM (V.ofList [theta, R]) N tau gamma (psiH K c) (psiHP K c) phiS0 phiR0).toList
      = [(ebcm K c N tau gamma phiS0 phiR0 theta R).1, (ebcm K c N tau gamma phiS0 phiR0 theta R).2] := by
  simp only [dEBCM, toList_ofList, ebcm]
  simp [V.ofList, h]

/-- in the guarded case the transmission term is computed with denominator 1 -/
theorem gen_ebcm_guard (K : Nat) (c : Nat → Rat) (N tau gamma phiS0 phiR0 theta R : Rat) (h : psiHP K c 1 = 0) :
    (dEBCM (V.ofList [theta, R]) N tau gamma (psiH K c) (psiHP K c) phiS0 phiR0).f 0
      = -tau * theta + tau * phiS0 * psiHP K c theta + gamma * (1 - theta) + tau * phiR0 := by
  simp [dEBCM, V.ofList, h]

/-! ### vector-valued right-hand sides -/

theorem append_f_ge' (a b : V) (m i : Nat) (h : a.n = m) : (V.append a b).f (m + i) = b.f i := by
  subst h; exact V.append_f_ge a b i

theorem gen_sisHetMF (K : Nat) (tau gamma : Rat) (S I : Nat → Rat) :
    let r := dSIS_heterogeneous_meanfield (V.append ⟨K, S⟩ ⟨K, I⟩) K tau gamma
    r.n = K + K ∧ ∀ k, k < K → r.f k = (sisHetMF K tau gamma S I).1 k ∧ r.f (K + k) = (sisHetMF K tau gamma S I).2 k := by
  intro r
  have hS : ∀ j, j < K → (V.append ⟨K, S⟩ ⟨K, I⟩).f j = S j := fun j hj => V.append_f_lt _ _ j hj
  have hI : ∀ j, (V.append ⟨K, S⟩ ⟨K, I⟩).f (K + j) = I j := fun j => V.append_f_ge ⟨K, S⟩ ⟨K, I⟩ j
  have hn : (V.append ⟨K, S⟩ ⟨K, I⟩).n - K = K := by simp
  have e1 : sumTo K (fun j => (j : Rat) * (V.append ⟨K, S⟩ ⟨K, I⟩).f (K + j)) = sumTo K (fun k => kf k * I k) :=
    sumTo_congr _ _ _ (fun j _ => by rw [hI]; rfl)
  have e2 : sumTo K (fun j => (j : Rat) * ((V.append ⟨K, S⟩ ⟨K, I⟩).f (K + j) + (V.append ⟨K, S⟩ ⟨K, I⟩).f j))
      = sumTo K (fun k => kf k * (I k + S k)) :=
    sumTo_congr _ _ _ (fun j hj => by rw [hI, hS j hj]; rfl)
  refine ⟨by simp [r, dSIS_heterogeneous_meanfield], ?_⟩
  intro k hk
  constructor
  · simp only [r, dSIS_heterogeneous_meanfield, V.arange_n]
    rw [V.append_f_lt _ _ k (by simpa [hn] using hk), e1, e2]
    dsimp only
    rw [hI, hS k hk]
    simp only [sisHetMF, piI, kf]
  · simp only [r, dSIS_heterogeneous_meanfield, V.arange_n]
    rw [append_f_ge' _ _ K k hn, e1, e2]
    dsimp only
    rw [hI, hS k hk]
    simp only [sisHetMF, piI, kf]

end GenEq
