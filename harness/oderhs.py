"""Captured-integrator correspondence: EoN.analytic's calls to scipy's odeint / its own _my_odeint_ are intercepted;
the recorded right-hand-side function is evaluated at the initial state and at perturbed states and compared with the
Lean model of that right-hand side (driver op `rhs`)."""
from fractions import Fraction as F
import numpy as np
import common
from common import rs


class Capture:
    def __init__(self):
        self.calls = []

    def install(self):
        import EoN.analytic as an
        self.an = an
        self.old_odeint, self.old_my = an.integrate.odeint, an._my_odeint_
        cap = self

        class IntegrateProxy:
            def __getattr__(self_, name):
                return getattr(cap.real_integrate, name)

            def odeint(self_, func, y0, t, args=(), **kw):
                cap.calls.append((func, np.array(y0, dtype=float), args))
                return cap.old_odeint(func, y0, t, args=args, **kw)
        self.real_integrate = an.integrate
        an.integrate = IntegrateProxy()

        def my(dfunc, V0, times, args=()):
            cap.calls.append((dfunc, np.array(V0, dtype=float), args))
            return cap.old_my(dfunc, V0, times, args=args)
        an._my_odeint_ = my

    def remove(self):
        self.an.integrate = self.real_integrate
        self.an._my_odeint_ = self.old_my


def fr_list(x):
    return [rs(F(float(v))) for v in np.asarray(x, dtype=float).ravel()]


def poly_coeffs(f, K):
    """coefficients c_0..c_{K-1} of the polynomial callable f (degree < K), by interpolation at Chebyshev nodes"""
    xs = 0.5 + 0.5 * np.cos(np.pi * (2 * np.arange(K) + 1) / (2 * K))
    ys = np.array([float(f(float(x))) for x in xs])
    V = np.vander(xs, K, increasing=True)
    return np.linalg.solve(V, ys)


def request(func, y, args, G=None):
    """Lean request for one evaluation, or None if the right-hand side is not modelled"""
    n = func.__name__
    y = np.asarray(y, dtype=float)
    P = lambda *xs: [rs(F(float(x))) for x in xs]
    if n == "_dSIS_homogeneous_meanfield_":
        return dict(op="rhs", model="sisHomMF", p=P(*args, *y), v=[])
    if n == "_dSIR_homogeneous_meanfield_":
        return dict(op="rhs", model="sirHomMF", p=P(*args, *y), v=[])
    if n == "_dSIS_homogeneous_pairwise_":
        return dict(op="rhs", model="sisHomPW", p=P(*args, *y), v=[])
    if n == "_dSIR_homogeneous_pairwise_":
        return dict(op="rhs", model="sirHomPW", p=P(*args, *y), v=[])
    if n == "_dSIS_heterogeneous_meanfield_":
        k, tau, gamma = args
        return dict(op="rhs", model="sisHetMF", p=P(tau, gamma), v=[fr_list(y[:k]), fr_list(y[k:])])
    if n == "_dSIR_heterogeneous_meanfield_":
        S0, Nk, tau, gamma = args
        return dict(op="rhs", model="sirHetMF", p=P(tau, gamma, y[0]), v=[fr_list(S0), fr_list(Nk), fr_list(y[1:])])
    if n == "_dSIS_compact_pairwise_":
        Nk, twoM, tau, gamma = args
        return dict(op="rhs", model="sisCompactPW", p=P(tau, gamma, twoM, y[-2], y[-1]), v=[fr_list(Nk), fr_list(y[:-2])])
    if n == "_dSIR_compact_pairwise_":
        N, tau, gamma = args
        return dict(op="rhs", model="sirCompactPW", p=P(tau, gamma, N, y[-3], y[-2], y[-1]), v=[fr_list(y[:-3])])
    if n == "_dSIR_super_compact_pairwise_":
        tau, gamma, psihat, psihatPrime, psihatDPrime, N = args
        K = (max(dict(G.degree()).values()) + 1) if G is not None else 12
        c = poly_coeffs(psihat, K)
        return dict(op="rhs", model="sirSuperCompactPW", p=P(tau, gamma, N, *y), v=[fr_list(c)], tol=1e-6)
    if n == "_dSIS_super_compact_pairwise_":
        return dict(op="rhs", model="sisSuperCompactPW", p=P(*args, *y), v=[])
    if n == "_dEBCM_":
        N, tau, gamma, psihat, psihatPrime, phiS0, phiR0 = args
        K = (max(dict(G.degree()).values()) + 1) if G is not None else 12
        c = poly_coeffs(psihat, K)
        return dict(op="rhs", model="ebcm", p=P(N, tau, gamma, phiS0, phiR0, *y), v=[fr_list(c)], tol=1e-6)
    if n == "_dSIR_compact_effective_degree_":
        N, tau, gamma = args
        return dict(op="rhs", model="sirCompactED", p=P(tau, gamma, N, y[-2], y[-1]), v=[fr_list(y[:-2])])
    if n == "_dSIS_heterogeneous_pairwise_":
        Nk, NkNl, tau, gamma, Ks = args
        K = len(Ks)
        return dict(op="rhs", model="sisHetPW", p=P(tau, gamma),
                    v=[fr_list(Ks), fr_list(Nk), fr_list(NkNl), fr_list(y[:K]), fr_list(y[K:K + K * K]), fr_list(y[K + K * K:])])
    if n == "_dSIR_heterogeneous_pairwise_":
        tau, gamma, Nk, Ks = args
        K = len(Ks)
        return dict(op="rhs", model="sirHetPW", p=P(tau, gamma),
                    v=[fr_list(Ks), fr_list(y[:K]), fr_list(y[K:2 * K]), fr_list(y[2 * K:2 * K + K * K]), fr_list(y[2 * K + K * K:])])
    if n == "_dSIS_effective_degree_":
        shape, tau, gamma = args
        A, B = shape
        return dict(op="rhs", model="sisEffDeg", p=P(tau, gamma), v=[fr_list(y[:A * B]), fr_list(y[A * B:])], A=A, B=B)
    if n == "_dSIR_effective_degree_":
        N, shape, tau, gamma = args
        A, B = shape
        return dict(op="rhs", model="sirEffDeg", p=P(tau, gamma, N, y[-1]), v=[fr_list(y[:-1])], A=A, B=B)
    if n in ("_dSIS_pair_based_", "_dSIR_pair_based_"):
        G_, nodelist, index_of_node, trf, rrf = args
        nl = list(nodelist)
        N = len(nl)
        adj = [[index_of_node[v] for v in G_.neighbors(u)] for u in nl]
        tr = [[rs(F(float(trf(u, v)))) for v in G_.neighbors(u)] for u in nl]
        rr = [rs(F(float(rrf(u)))) for u in nl]
        if n == "_dSIS_pair_based_":
            return dict(op="rhs", model="sisPairBased", p=[], v=[rr, fr_list(y[:N]), fr_list(y[N:N + N * N]), fr_list(y[N + N * N:])],
                        adj=adj, tr=tr)
        return dict(op="rhs", model="sirPairBased", p=[], v=[rr, fr_list(y[:N]), fr_list(y[N:2 * N]), fr_list(y[2 * N:2 * N + N * N]),
                                                                 fr_list(y[2 * N + N * N:])], adj=adj, tr=tr)
    if n == "_dEBCM_pref_mix_":
        rho, tau, gamma, Pk, Pnk = args
        ks = sorted(Pk.keys())
        return dict(op="rhs", model="ebcmPrefMix", p=P(rho, tau, gamma, y[0]), ks=ks,
                    v=[fr_list([Pk[k] for k in ks]), fr_list([Pnk[a].get(b, 0) if a in Pnk else 0 for a in ks for b in ks]),
                       fr_list([y[1 + 2 * i] for i in range(len(ks))]), fr_list([y[2 + 2 * i] for i in range(len(ks))])])
    if n in ("_dSIS_individual_based_", "_dSIR_individual_based_"):
        G_, nodelist, index_of_node, trf, rrf = args
        nl = list(nodelist)
        adj = [[index_of_node[v] for v in G_.neighbors(u)] for u in nl]
        tr = [[rs(F(float(trf(u, v)))) for v in G_.neighbors(u)] for u in nl]
        rr = [rs(F(float(rrf(u)))) for u in nl]
        N = len(nl)
        if n == "_dSIS_individual_based_":
            return dict(op="rhs", model="sisIndividual", p=[], v=[rr, fr_list(y)], adj=adj, tr=tr)
        return dict(op="rhs", model="sirIndividual", p=[], v=[rr, fr_list(y[:N]), fr_list(y[N:])], adj=adj, tr=tr)
    return None


def perturb(y, rng, k):
    """a nearby state with all components moved by a few percent (dyadic factors), keeping signs"""
    y = np.asarray(y, dtype=float).copy()
    if k == 0:
        return y
    f = np.array([1 + rng.choice([-3, -2, -1, 1, 2, 3]) / 64.0 for _ in y])
    return y * f
