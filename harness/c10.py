"""C10 — the full-data object and the plain arrays describe the same epidemic.
Both return modes are run on the same tape; Lean's `summarySpec`/`statusAt`/`histWFg`/`collapse` are evaluated on the
implementation's own node histories and compared with summary(), t/S/I/R(), the arrays, node_status/get_statuses."""
from fractions import Fraction as F
import common, allsims, predchecks, inithist
from predchecks import strip
from allsims import SIR, KIND, fl
from sims import arr, iarr

SIMS = ["Gillespie_SIR", "Gillespie_SIS", "fast_SIR", "fast_SIS", "fast_nonMarkov_SIR", "fast_nonMarkov_SIS",
        "discrete_SIR", "Gillespie_simple_contagion", "Gillespie_complex_contagion",
        "basic_discrete_SIS"]          # (basic_discrete_SIR / percolation_based_discrete_SIR make extra draws with full data: C12's business)


def generated_model(ctx, reqs, metas):
    """the Lean code GENERATED from Simulation_Investigation.node_status / get_statuses / summary
    (harness/pyinvest2lean.py -> Gen/InvestGen.lean), run by its own driver on the implementation's own node histories:
    summary() of all nodes and of a node subset, and every node_status / get_statuses answer must coincide."""
    import fcntl, subprocess, os, json, pyinvest2lean
    lean = common.LEAN
    os.makedirs(os.path.join(lean, ".audit"), exist_ok=True)
    with open(os.path.join(lean, ".audit", "geninv.lock"), "w") as lock:
        fcntl.flock(lock, fcntl.LOCK_EX)
        try:
            _, errors = pyinvest2lean.regenerate()
        except Exception as e:
            errors = {"translator": "crashed: %r" % e}
        if errors:
            ctx.disagreement("generated-invest:translation", dict(entry="Simulation_Investigation", errors=errors))
            return
        p = common.lake(["build", "driverinv"])
    if p.returncode != 0:
        ctx.disagreement("generated-invest:build", dict(entry="Simulation_Investigation", log="\n".join(
            l for l in (p.stdout + p.stderr).splitlines() if "error" in l)[:1500]))
        return
    exe = os.path.join(lean, ".lake", "build", "bin", "driverinv")
    data = "\n".join(json.dumps(dict(op="c10", hists=r["hists"], statuses=r["statuses"], queries=r["queries"]), separators=(",", ":")) for r in reqs) + "\n"
    q = subprocess.run([exe], input=data, capture_output=True, text=True)
    lines = q.stdout.splitlines()
    if q.returncode != 0 or len(lines) != len(reqs):
        raise RuntimeError("driverinv crashed: " + q.stderr[-1000:])
    for i, (rep, full, plain, impl_ans, sub, sub_impl) in enumerate(metas):
        g, gsub = json.loads(lines[2 * i]), json.loads(lines[2 * i + 1])
        ctx.count("generated-model-runs")
        d = []
        if g.get("summary") != full["summary"]:
            d.append("summary()")
        if g.get("answers") != impl_ans:
            d.append("node_status/get_statuses")
        if gsub.get("summary") != sub_impl:
            d.append("summary(nodelist)")
        if d:
            ctx.disagreement("generated-invest:" + ",".join(d), dict(rep, diffs=d, generated=dict(summary=g.get("summary"), answers=g.get("answers"))))


def legal_moves(c):
    sim = c["sim"]
    if sim == "Gillespie_simple_contagion":
        return [[a, b] for a, b, r, m in c["spont"]] + [[b, d] for (a, b), (c_, d), r, m in c["induced"]]
    if sim == "Gillespie_complex_contagion":
        return [["S", "I"], ["I", "S" if c["family"] == "sis" else "R"]]
    return [["S", "I"], ["I", "R"]] if sim in SIR else [["S", "I"], ["I", "S"]]


def run(ctx):
    si_objects = []
    drv = common.LeanDriver()
    inithist.hist_stream(ctx, drv, ctx.scale(150, 1500))
    per = ctx.scale(100, 500)
    reqs, metas = [], []
    for sim in SIMS:
        for k in range(per):
            c = allsims.gen_case(ctx.rng, sim)
            if KIND[sim].endswith("Disc") and c["tmax"] != "inf" and (F(c["tmax"]) - F(c["tmin"])).denominator != 1:
                c["tmax"] = str(F(c["tmin"]) + ctx.rng.choice([1, 2, 3, 6]))   # whole number of steps (cf. C04)
            if KIND[sim].endswith("Disc") and c["init"]["kind"] not in ("list", "single"):
                c["init"] = dict(kind="list", nodes=[0])
            if sim == "fast_nonMarkov_SIR":
                c["dur"] = [d if d != "0" else "1/4" for d in c["dur"]]
                c["delay"] = [[u, v, d if d != "0" else "1/4"] for u, v, d in c["delay"]]
            full, G, idx = allsims.run_impl(c, rng=ctx.rng, full=True, keep_obj=True)
            rep = dict(entry=sim, case=strip(c), tape=full["tape"])
            ctx.count("%s:%s" % (sim, "ok" if full["ok"] else "err=" + full["err"]))
            if not full["ok"]:
                ctx.case(rep, nontrivial=False)
                ctx.violation("%s(return_full_data=True) raised %s" % (sim, full["err"]), dict(rep, error=full["err"], tb=full.get("tb")))
                continue
            tape = full["tape"]
            if sim in ("discrete_SIR", "basic_discrete_SIS"):
                tape = [d for d in tape if d[0] != "c"]      # full-data mode alone draws the recorded infector
            plain, _, _ = allsims.run_impl(c, tape=tape, full=False)
            if not plain["ok"]:
                ctx.case(rep, nontrivial=False)
                ctx.violation("%s: array mode raised %s on the draws the full-data mode consumed" % (sim, plain["err"]),
                              dict(rep, error=plain["err"], tb=plain.get("tb")))
                continue
            obj = full.pop("obj")
            nodes = list(G)
            # queries: event times, tmin, midpoints, beyond the end
            times = sorted({F(t) for h in full["history"] for t, _ in h})
            qt = [times[0], times[-1] + 1] + times[1:4] + [(a + b) / 2 for a, b in zip(times, times[1:])][:4]
            queries, impl_ans = [], []
            for t in qt:
                v = ctx.rng.randrange(len(nodes))
                queries.append([v, str(t)])
                impl_ans.append(obj.node_status(nodes[v], float(t)))
            gs_t = ctx.rng.choice(qt)
            gs = obj.get_statuses(time=float(gs_t))
            for v in range(len(nodes)):
                queries.append([v, str(gs_t)])
                impl_ans.append(gs[nodes[v]])
            # subset summary
            sub = ctx.rng.sample(range(len(nodes)), ctx.rng.randint(1, len(nodes)))
            ssum = obj.summary([nodes[v] for v in sub])
            sts = allsims.statuses_of(c)
            sub_impl = dict(times=arr(ssum[0]), cols=[iarr(ssum[1][s]) for s in sts])
            # the object is queried in another order too: whole-population accessors right AFTER a sub-population summary
            # (and the whole-population summary after that) must still describe the whole population
            acc2 = dict(t=arr(obj.t()))
            for s_ in ("S", "I", "R"):
                if s_ in sts:
                    try:
                        acc2[s_] = iarr(getattr(obj, s_)())
                    except Exception as e_:
                        acc2[s_] = "err:" + type(e_).__name__
            again = obj.summary()
            again = dict(times=arr(again[0]), cols=[iarr(again[1][s_]) for s_ in sts])
            if acc2 != full["accessors"] or again != full["summary"]:
                ctx.violation("%s: t()/S()/I()/R() / summary() of the whole population change after summary(nodelist=<sub-population>) was asked"
                              % sim, dict(rep, sub=sub, before=full["accessors"], after=acc2, summary_before=full["summary"], summary_after=again))
            reqs.append(dict(op="c10", legal=legal_moves(c), tmin=c["tmin"], hists=full["history"], statuses=sts,
                             arrays=dict(times=plain["times"], cols=plain["cols"]), strict=not KIND[sim].endswith("Disc"), queries=queries))
            reqs.append(dict(op="c10", legal=legal_moves(c), tmin=c["tmin"], hists=[full["history"][v] for v in sub], statuses=sts,
                             queries=[]))
            metas.append((rep, full, plain, impl_ans, sub, sub_impl))
            si_objects.append((rep, obj, nodes, sts, full["history"]))
    generated_model(ctx, reqs, metas)
    import gensi
    gensi.run_stream(ctx, si_objects)     # call SEQUENCES on the object vs the generated cache state machine (Gen/InvestState.lean)
    resps = drv.batch(reqs)
    for i, (rep, full, plain, impl_ans, sub, sub_impl) in enumerate(metas):
        r, rsub = resps[2 * i], resps[2 * i + 1]
        nontriv = len(plain["times"]) > 1
        ctx.case(rep, nontrivial=nontriv, sample=dict(rep, arrays=dict(times=plain["times"][:6])))
        if not r.get("ok") or not rsub.get("ok"):
            ctx.disagreement("c10-driver", dict(rep, resp=[r, rsub]))
            continue
        ent = rep["entry"]
        if not r["hist_wf"]:
            ctx.violation("%s: a node history does not start at tmin / is not time-ordered / makes an illegal move" % ent,
                          dict(rep, history=full["history"]))
        if r["summary"] != full["summary"]:
            ctx.violation("%s: summary() differs from the counts implied by the node histories" % ent,
                          dict(rep, summary=full["summary"], from_histories=r["summary"]))
        if not r["arrays_eq"]:
            ctx.violation("%s: arrays returned without return_full_data differ from the summary of the full-data run on the same draws" % ent,
                          dict(rep, arrays=dict(times=plain["times"][:40], cols=[x[:40] for x in plain["cols"]]), from_histories=r["summary"]))
        acc = full["accessors"]
        sts = r["summary"]
        want = dict(t=full["summary"]["times"])
        for j, s in enumerate(allsims.statuses_of(rep["case"])):
            if s in ("S", "I", "R"):
                want[s] = full["summary"]["cols"][j]
        if acc != want:
            ctx.violation("%s: t()/S()/I()/R() disagree with summary()" % ent, dict(rep, accessors=acc, summary=full["summary"]))
        if r["answers"] != impl_ans:
            ctx.violation("%s: node_status/get_statuses differ from the status of the latest change at or before the query time" % ent,
                          dict(rep, queries=reqs[2 * i]["queries"], impl=impl_ans, spec=r["answers"], history=full["history"]))
        if rsub["summary"] != sub_impl:
            ctx.violation("%s: summary(nodelist) differs from the counts over that subset" % ent,
                          dict(rep, subset=sub, impl=sub_impl, spec=rsub["summary"]))
