"""C09 — recorded transmissions are causally valid and complete.  `Pred.transmissionsValid` (Lean) evaluated on the
full-data object of every simulator that records transmissions."""
from fractions import Fraction as F
import common, allsims, predchecks
from predchecks import strip
from allsims import SIR, KIND

SIMS = [s for s in allsims.SIMS if s != "Gillespie_complex_contagion"]


def integral_span(c):
    return c["tmax"] == "inf" or (F(c["tmax"]) - F(c["tmin"])).denominator == 1


def run(ctx):
    drv = common.LeanDriver()
    per = ctx.scale(120, 600)
    reqs, metas = [], []
    for sim in SIMS:
        for k in range(per):
            c = allsims.gen_case(ctx.rng, sim)
            if KIND[sim].endswith("Disc") and not integral_span(c):
                c["tmax"] = str(F(c["tmin"]) + ctx.rng.choice([1, 2, 3, 6]))
            if sim == "fast_nonMarkov_SIR":
                # a zero-length infectious period at tmin loses its 'I' entry in the node history (DESIGN §8); keep
                # durations positive here, zero/infinite delays stay in
                c["dur"] = [d if d != "0" else "1/4" for d in c["dur"]]
                # likewise an infection at exactly tmin through a zero delay is recorded as an initial 'I' entry
                c["delay"] = [[u, v, d if d != "0" else "1/4"] for u, v, d in c["delay"]]
            if k % 6 == 5 and sim in ("fast_SIR", "fast_SIS", "basic_discrete_SIR", "basic_discrete_SIS", "percolation_based_discrete_SIR") and c["n"] >= 2:
                # SELF-LOOPS (configuration-model networks have them): a node is its own neighbour; no transmission may ever
                # be recorded from a node to itself, everything else as usual
                for u in ctx.rng.sample(range(c["n"]), ctx.rng.randint(1, 2)):
                    if [u, u] not in c["edges"]:
                        c["edges"].append([u, u])
                        if c.get("ew") is not None:
                            c["ew"].append(c["ew"][0] if c["ew"] else "1")
                ctx.count("self-loops:" + sim)
            out, G, idx = allsims.run_impl(c, rng=ctx.rng, full=True)
            rep = dict(entry=sim, case=strip(c), tape=out["tape"])
            ctx.count("%s:%s" % (sim, "ok" if out["ok"] else "err=" + out["err"]))
            if not out["ok"]:
                ctx.case(rep, nontrivial=False)
                ctx.violation("%s(return_full_data=True) raised %s" % (sim, out["err"]), dict(rep, error=out["err"], tb=out.get("tb")))
                continue
            if "transmissions" not in out:
                ctx.case(rep, nontrivial=False)
                ctx.violation("%s: transmissions() raised %s" % (sim, out.get("transmissions_err")), dict(rep, error=out.get("transmissions_err")))
                continue
            if sim in ("fast_SIR", "fast_nonMarkov_SIR") and allsims.zero_delay_at_tmin(c, out):
                ctx.count("skipped:zero-delay-at-tmin")
                ctx.case(rep, nontrivial=False)
                continue
            if sim == "Gillespie_simple_contagion":
                induced = [[a, b, d] for (a, b), (c_, d), r, m in c["induced"]]
                spont = [[a, b] for a, b, r, m in c["spont"]]
                infs, forest = [], False
            else:
                induced = [["I", "S", "I"]]
                spont = [["I", "R"]] if sim in SIR else [["I", "S"]]
                infs, _ = allsims.requested_init(c, out)
                forest = sim in SIR
            shift = "1" if KIND[sim].endswith("Disc") else "0"
            reqs.append(dict(op="tv", forest=forest, shift=shift, N=G.order(), succ=allsims.succ_lists(G, idx), tmin=c["tmin"],
                             init=infs, hists=out["history"], trans=out["transmissions"], induced=induced, spont=spont))
            metas.append((rep, out))
    for (rep, out), rq, r in zip(metas, reqs, drv.batch(reqs)):
        nontriv = any(t[1] is not None for t in out["transmissions"])
        ctx.case(rep, nontrivial=nontriv, sample=dict(rep, transmissions=out["transmissions"][:6]))
        ctx.count("transmissions", len(out["transmissions"]))
        # transmission_tree() carries exactly the sourced transmissions; for SIR every node has at most one infector
        want = sorted([t, u, v] for t, u, v in out["transmissions"] if u is not None)
        if out.get("tree") != want:
            ctx.violation("%s: transmission_tree() differs from transmissions()" % rep["entry"], dict(rep, tree=out.get("tree"), transmissions=out["transmissions"]))
            continue
        if rq["forest"] and out.get("tree_indeg_max", 0) > 1:
            ctx.violation("%s: SIR transmission tree is not a forest (a node has two infectors)" % rep["entry"], dict(rep, tree=out.get("tree")))
            continue
        if not r.get("ok"):
            ctx.disagreement("tv-driver", dict(rep, resp=r))
        elif not r["holds"]:
            ctx.violation("%s: transmission list is not causally valid/complete" % rep["entry"],
                          dict(rep, transmissions=out["transmissions"], history=out["history"]))
