import EoNVerif.Gen.ArgsGen
import EoNVerif.Model.InitArgs
import EoNVerif.Proofs.InitHist
import Mathlib.Data.List.Nodup
/-!
Helper lemmas for C05c: the generated argument normalisations (`Gen/ArgsGen.lean`, namespace `GenArgs`) against the hand
model `InitArgs.normInit`.

Six of the seven generated bodies are textually the same: `normCommon` below is that body, every `norm_X` is `rfl`-equal to
it; `norm_fast_nonMarkov_SIR` has one more guard.
-/
open PyPM PyArgs

namespace GenArgsProofs

/-- the body shared by six of the seven generated functions (a copy of the generated text) -/
def normCommon (A : NArgs) (rho : Option Rat) (initial_infecteds : Option Src) : TM (List Node) := do
  if (rho.isSome && initial_infecteds.isSome) then TM.fail "EoNError" else
  let initial_infecteds ← (match initial_infecteds with
    | none => do
      let initial_number : Int := (match rho with | none => (1 : Int) | some rho => (PyArgs.intRound (((A.order : Int) : Rat) * rho)))
      let s_ ← PyArgs.sample A.nodes initial_number
      pure s_
    | some initial_infecteds => do
      if A.hasNodeS initial_infecteds then do
        let l_ ← PyTM.liftE (PyArgs.listOf initial_infecteds)
        pure l_
      else PyTM.liftE (PyArgs.asIterable initial_infecteds))
  pure initial_infecteds

/-! ### every generated function is the common body -/

theorem discrete_SIR_eq (A : NArgs) (rho : Option Rat) (ii recs : Option Src) :
    GenArgs.norm_discrete_SIR A rho ii recs = normCommon A rho ii := rfl
theorem basic_discrete_SIS_eq (A : NArgs) (rho : Option Rat) (ii recs : Option Src) :
    GenArgs.norm_basic_discrete_SIS A rho ii recs = normCommon A rho ii := rfl
theorem fast_SIS_eq (A : NArgs) (rho : Option Rat) (ii recs : Option Src) :
    GenArgs.norm_fast_SIS A rho ii recs = normCommon A rho ii := rfl
theorem fast_nonMarkov_SIS_eq (A : NArgs) (rho : Option Rat) (ii recs : Option Src) :
    GenArgs.norm_fast_nonMarkov_SIS A rho ii recs = normCommon A rho ii := rfl
theorem Gillespie_SIR_eq (A : NArgs) (rho : Option Rat) (ii recs : Option Src) :
    GenArgs.norm_Gillespie_SIR A rho ii recs = normCommon A rho ii := rfl
theorem Gillespie_SIS_eq (A : NArgs) (rho : Option Rat) (ii recs : Option Src) :
    GenArgs.norm_Gillespie_SIS A rho ii recs = normCommon A rho ii := rfl

/-- `fast_nonMarkov_SIR`: the common body behind one more guard -/
theorem fast_nonMarkov_SIR_eq (A : NArgs) (rho : Option Rat) (ii recs : Option Src) :
    GenArgs.norm_fast_nonMarkov_SIR A rho ii recs =
      if (rho.isSome && recs.isSome) = true ∧ ii = none then TM.fail "EoNError" else normCommon A rho ii := by
  cases rho <;> cases ii <;> cases recs <;> rfl

theorem fast_nonMarkov_SIR_recs_none (A : NArgs) (rho : Option Rat) (ii : Option Src) :
    GenArgs.norm_fast_nonMarkov_SIR A rho ii none = normCommon A rho ii := by
  cases rho <;> cases ii <;> rfl

theorem fast_nonMarkov_SIR_rho_none (A : NArgs) (ii recs : Option Src) :
    GenArgs.norm_fast_nonMarkov_SIR A none ii recs = normCommon A none ii := rfl

theorem fast_nonMarkov_SIR_rho_recs (A : NArgs) (r : Rat) (ii : Option Src) (x : Src) (ts : TapeSt) :
    GenArgs.norm_fast_nonMarkov_SIR A (some r) ii (some x) ts = .error "EoNError" := by
  cases ii <;> rfl

/-! ### `random.sample` on a list -/

theorem mapM_listChoice (pop : List Node) (idx : List Nat) (h : ∀ i ∈ idx, i < pop.length) :
    idx.mapM (fun i => PyRT.listChoice pop i) = .ok (idx.map fun i => pop.getD i 0) := by
  induction idx with
  | nil => rfl
  | cons a t ih =>
    have ha : a < pop.length := h a (List.mem_cons_self)
    have ht := ih (fun i hi => h i (List.mem_cons_of_mem _ hi))
    rw [List.mapM_cons, ht]
    simp only [PyRT.listChoice, List.getElem?_eq_getElem ha, List.map_cons, List.getD_eq_getElem?_getD,
      Option.getD_some]
    rfl

theorem map_getD_range (n : Nat) (idx : List Nat) (h : ∀ i ∈ idx, i < n) :
    (idx.map fun i => (List.range n).getD i 0) = idx := by
  induction idx with
  | nil => rfl
  | cons a t ih =>
    have ha : a < n := h a (List.mem_cons_self)
    rw [List.map_cons, ih (fun i hi => h i (List.mem_cons_of_mem _ hi))]
    simp [List.getD_eq_getElem?_getD, ha]

/-- `random.sample(population, k)`: the scripted indices, then the items at them -/
theorem sample_eq (pop : List Node) (k : Int) (ts : TapeSt) :
    PyArgs.sample pop k ts =
      if k < 0 then .error "ValueError" else
      match TM.popSample pop.length k.toNat ts with
      | .ok (idx, ts') => .ok (idx.map (fun i => pop.getD i 0), ts')
      | .error e => .error e := by
  unfold PyArgs.sample
  by_cases hk : k < 0
  · simp only [hk, if_true]; rfl
  · simp only [hk, if_false]
    show (TM.popSample pop.length k.toNat >>= fun idx =>
      PyTM.liftE (idx.mapM fun i => PyRT.listChoice pop i)) ts = _
    simp only [bind, StateT.bind, Except.bind]
    cases hp : TM.popSample pop.length k.toNat ts with
    | error e => rfl
    | ok p =>
      obtain ⟨idx, ts'⟩ := p
      have h3 := (InitArgs.popSample_ok _ _ _ _ _ hp).2.2
      simp only [PyTM.liftE, mapM_listChoice pop idx h3]

theorem sample_range (n : Nat) (k : Int) (ts : TapeSt) :
    PyArgs.sample (List.range n) k ts =
      if k < 0 then .error "ValueError" else TM.popSample n k.toNat ts := by
  rw [sample_eq]
  by_cases hk : k < 0
  · simp only [hk, if_true]
  · simp only [hk, if_false, List.length_range]
    cases hp : TM.popSample n k.toNat ts with
    | error e => rfl
    | ok p =>
      obtain ⟨idx, ts'⟩ := p
      have h3 := (InitArgs.popSample_ok _ _ _ _ _ hp).2.2
      simp only [map_getD_range n idx h3]

/-- the tape primitive never raises EoNError -/
theorem popSample_ne_EoNError (n k : Nat) (ts : TapeSt) : TM.popSample n k ts ≠ .error "EoNError" := by
  unfold TM.popSample
  intro h
  repeat' split at h
  all_goals first | cases h | (injection h with h; revert h; decide)

theorem sample_ne_EoNError (pop : List Node) (k : Int) (ts : TapeSt) :
    PyArgs.sample pop k ts ≠ .error "EoNError" := by
  rw [sample_eq]
  intro h
  split at h
  · injection h with h; revert h; decide
  · split at h
    · cases h
    · rename_i e he
      injection h with h
      subst h
      exact popSample_ne_EoNError _ _ _ he

/-! ### the common body, case by case -/

/-- neither given: `random.sample(list(G), 1)` -/
theorem normCommon_default (A : NArgs) (ts : TapeSt) :
    normCommon A none none ts = PyArgs.sample A.nodes 1 ts := by
  unfold normCommon
  simp only [Option.isSome_none, Bool.false_and]
  rfl

/-- `rho` given: `random.sample(list(G), int(round(G.order()*rho)))` -/
theorem normCommon_rho (A : NArgs) (r : Rat) (ts : TapeSt) :
    normCommon A (some r) none ts =
      PyArgs.sample A.nodes (PyArgs.intRound (((A.nodes.length : Int) : Rat) * r)) ts := by
  unfold normCommon
  simp only [Option.isSome_none, Bool.and_false]
  rfl

/-- both given -/
theorem normCommon_both (A : NArgs) (r : Rat) (x : Src) (ts : TapeSt) :
    normCommon A (some r) (some x) ts = .error "EoNError" := rfl

/-- a node of the graph -/
theorem normCommon_single (A : NArgs) (u : Node) (h : A.nodes.contains u = true) (ts : TapeSt) :
    normCommon A none (some (.inl u)) ts = .ok ([u], ts) := by
  unfold normCommon
  simp only [Option.isSome_none, Bool.false_and, NArgs.hasNodeS, h]
  rfl

/-- a scalar that is not a node -/
theorem normCommon_not_node (A : NArgs) (u : Node) (h : A.nodes.contains u = false) (ts : TapeSt) :
    normCommon A none (some (.inl u)) ts = .error "TypeError" := by
  unfold normCommon
  simp only [Option.isSome_none, Bool.false_and, NArgs.hasNodeS, h]
  rfl

/-- a collection -/
theorem normCommon_nodes (A : NArgs) (l : List Node) (ts : TapeSt) :
    normCommon A none (some (.inr l)) ts = .ok (l, ts) := rfl

theorem cast_order_range (n : Nat) : (((List.range n).length : Int) : Rat) = (n : Rat) := by
  simp

/-! ### the common body against the hand model on the index graph -/

theorem intRound_eq : PyArgs.intRound = InitArgs.roundHalfEven := rfl

theorem normCommon_default_range (n : Nat) (ts : TapeSt) :
    normCommon ⟨List.range n⟩ none none ts = InitArgs.normInit n .default ts := by
  rw [normCommon_default, sample_range]
  rfl

theorem normCommon_rho_range (n : Nat) (r : Rat) (ts : TapeSt) :
    normCommon ⟨List.range n⟩ (some r) none ts = InitArgs.normInit n (.rho r) ts := by
  rw [normCommon_rho, sample_range]
  show _ = (if InitArgs.roundHalfEven ((n : Rat) * r) < 0 then TM.fail "ValueError"
    else TM.popSample n (InitArgs.roundHalfEven ((n : Rat) * r)).toNat) ts
  rw [cast_order_range, intRound_eq]
  split <;> rfl

theorem normCommon_single_range (n : Nat) (u : Node) (h : u < n) (ts : TapeSt) :
    normCommon ⟨List.range n⟩ none (some (.inl u)) ts = InitArgs.normInit n (.single u) ts := by
  rw [normCommon_single _ _ (by simpa using h)]
  rfl

theorem normCommon_not_node_range (n : Nat) (u : Node) (h : n ≤ u) (ts : TapeSt) :
    normCommon ⟨List.range n⟩ none (some (.inl u)) ts = .error "TypeError" := by
  apply normCommon_not_node
  simp only [List.contains_eq_mem, List.mem_range, decide_eq_false_iff_not]
  omega

/-! ### any graph -/

/-- what `random.sample(list(G), k)` returns on any node list -/
theorem sample_ok (pop : List Node) (k : Int) (ts ts' : TapeSt) (l : List Node)
    (h : PyArgs.sample pop k ts = .ok (l, ts')) :
    0 ≤ k ∧ k ≤ pop.length ∧
    ∃ idx, TM.popSample pop.length k.toNat ts = .ok (idx, ts') ∧ l = idx.map (fun i => pop.getD i 0) ∧
      idx.length = k.toNat ∧ idx.Nodup ∧ (∀ i ∈ idx, i < pop.length) ∧
      (l.length : Int) = k ∧ (∀ u ∈ l, u ∈ pop) ∧ (pop.Nodup → l.Nodup) := by
  rw [sample_eq] at h
  split at h
  · cases h
  · rename_i hk
    have hk0 : 0 ≤ k := by omega
    split at h
    · rename_i idx ts1 hp
      cases h
      obtain ⟨h1, h2, h3⟩ := InitArgs.popSample_ok _ _ _ _ _ hp
      have hle : k ≤ pop.length := by
        unfold TM.popSample at hp
        split at hp
        · cases hp
        · omega
      refine ⟨hk0, hle, idx, hp, rfl, h1, h2, h3, ?_, ?_, ?_⟩
      · rw [List.length_map, h1]; omega
      · intro u hu
        obtain ⟨i, hi, rfl⟩ := List.mem_map.mp hu
        have := h3 i hi
        simp [List.getD_eq_getElem?_getD, this]
      · intro hnd
        refine List.Nodup.map_on ?_ h2
        intro i hi j hj hij
        have hi' := h3 i hi
        have hj' := h3 j hj
        simp only [List.getD_eq_getElem?_getD, List.getElem?_eq_getElem hi', List.getElem?_eq_getElem hj',
          Option.getD_some] at hij
        exact (List.Nodup.getElem_inj_iff hnd).mp hij
    · cases h

theorem sample_neg (pop : List Node) (k : Int) (ts : TapeSt) (h : k < 0) :
    PyArgs.sample pop k ts = .error "ValueError" := by
  rw [sample_eq, if_pos h]

theorem sample_big (pop : List Node) (k : Int) (ts : TapeSt) (h : (pop.length : Int) < k) :
    PyArgs.sample pop k ts = .error "ValueError" := by
  rw [sample_eq, if_neg (by omega)]
  have : k.toNat > pop.length := by omega
  simp only [TM.popSample, this, if_true]

/-! ### the ten simulators -/

/-- the simulators whose argument normalisation was translated (seven bodies, three forwarding wrappers) -/
inductive Sim
  | discrete_SIR | basic_discrete_SIS | fast_nonMarkov_SIR | fast_SIS | fast_nonMarkov_SIS | Gillespie_SIR | Gillespie_SIS
  | fast_SIR | basic_discrete_SIR | percolation_based_discrete_SIR
deriving DecidableEq, Repr

/-- the generated function of a simulator -/
def Sim.norm : Sim → NArgs → Option Rat → Option Src → Option Src → TM (List Node)
  | .discrete_SIR => GenArgs.norm_discrete_SIR
  | .basic_discrete_SIS => GenArgs.norm_basic_discrete_SIS
  | .fast_nonMarkov_SIR => GenArgs.norm_fast_nonMarkov_SIR
  | .fast_SIS => GenArgs.norm_fast_SIS
  | .fast_nonMarkov_SIS => GenArgs.norm_fast_nonMarkov_SIS
  | .Gillespie_SIR => GenArgs.norm_Gillespie_SIR
  | .Gillespie_SIS => GenArgs.norm_Gillespie_SIS
  | .fast_SIR => GenArgs.norm_fast_SIR
  | .basic_discrete_SIR => GenArgs.norm_basic_discrete_SIR
  | .percolation_based_discrete_SIR => GenArgs.norm_percolation_based_discrete_SIR

/-- the simulators that also reject `rho` together with `initial_recovereds` (`fast_nonMarkov_SIR` and its wrapper) -/
def Sim.guardsRecs : Sim → Bool
  | .fast_nonMarkov_SIR => true
  | .fast_SIR => true
  | _ => false

/-- `initial_number`: 1, or `int(round(G.order()*rho))` -/
def initialNumber (N : Nat) : Option Rat → Int
  | none => 1
  | some r => PyArgs.intRound ((N : Rat) * r)

theorem Sim.norm_unguarded (X : Sim) (h : X.guardsRecs = false) (A : NArgs) (rho : Option Rat) (ii recs : Option Src) :
    X.norm A rho ii recs = normCommon A rho ii := by
  cases X <;> first | rfl | cases h

theorem Sim.norm_guarded (X : Sim) (h : X.guardsRecs = true) (A : NArgs) (rho : Option Rat) (ii recs : Option Src) :
    X.norm A rho ii recs =
      if (rho.isSome && recs.isSome) = true ∧ ii = none then TM.fail "EoNError" else normCommon A rho ii := by
  cases X <;> first | exact fast_nonMarkov_SIR_eq A rho ii recs | cases h

/-- every simulator: the common body unless the extra guard fires -/
theorem Sim.norm_eq (X : Sim) (A : NArgs) (rho : Option Rat) (ii recs : Option Src)
    (h : X.guardsRecs = true → rho = none ∨ recs = none ∨ ii.isSome = true) :
    X.norm A rho ii recs = normCommon A rho ii := by
  cases hg : X.guardsRecs with
  | false => exact X.norm_unguarded hg A rho ii recs
  | true =>
    rw [X.norm_guarded hg, if_neg]
    rintro ⟨h1, h2⟩
    rcases h hg with h | h | h
    · subst h; simp at h1
    · subst h; simp at h1
    · subst h2; simp at h

theorem Sim.norm_guard_fires (X : Sim) (h : X.guardsRecs = true) (A : NArgs) (r : Rat) (ii : Option Src) (x : Src)
    (ts : TapeSt) : X.norm A (some r) ii (some x) ts = .error "EoNError" := by
  cases X <;> first | exact fast_nonMarkov_SIR_rho_recs A r ii x ts | cases h

theorem normCommon_sample (A : NArgs) (rho : Option Rat) (ts : TapeSt) :
    normCommon A rho none ts = PyArgs.sample A.nodes (initialNumber A.nodes.length rho) ts := by
  cases rho with
  | none => exact normCommon_default A ts
  | some r =>
    rw [normCommon_rho]
    simp only [initialNumber, Int.cast_natCast]

theorem normCommon_none_ne_EoNError (A : NArgs) (rho : Option Rat) (ts : TapeSt) :
    normCommon A rho none ts ≠ .error "EoNError" := by
  rw [normCommon_sample]
  exact sample_ne_EoNError _ _ _

end GenArgsProofs
