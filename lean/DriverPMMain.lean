import DriverPM
partial def loopPM (h : IO.FS.Stream) (out : IO.FS.Stream) : IO Unit := do
  let line ← h.getLine
  if line.isEmpty then return ()
  out.putStrLn (DrvGenPM.handle line)
  loopPM h out
def main : IO Unit := do loopPM (← IO.getStdin) (← IO.getStdout)
