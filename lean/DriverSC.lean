import Driver
import EoNVerif.Gen.SimpleGen
open Lean Drv

/-! JSON-lines driver for the code GENERATED from `Gillespie_simple_contagion` (Gen/SimpleGen.lean): the same request as
op "simple" of Driver.lean (`DrvSC.run`) plus `full`.  The specification set-up that is not translated (sorting of the
specification edges, `rate`, initial `get_weight` tables, empty `potential_transitions`) is built here from the
request, in the same way `DrvSC.getParams` builds the hand model's parameters. -/
namespace DrvGenSC
open GenSC PyTM

def run (j : Json) : Except String Json := do
  let P ← DrvSC.getParams j
  let icl ← getList getStr (← fld j "IC")
  let tmin ← getRat (← fld j "tmin")
  let tmax ← getERat (← fld j "tmax")
  let tape ← getList getDraw (← fld j "tape")
  let full ← match fldOpt j "full" with | some b => getBool b | none => pure false
  let spont : List (String × String) := P.spont.map fun t => (t.src, t.dst)
  let induced : List ((String × String) × (String × String)) := P.ind.map fun t => ((t.a, t.b), (t.a, t.c))
  let keyS (t : SpontTr String) : Tr String := Sum.inl (t.src, t.dst)
  let keyI (t : IndTr String) : Tr String := Sum.inr ((t.a, t.b), (t.a, t.c))
  let rateTab : List (Tr String × Rat) := P.spont.map (fun t => (keyS t, t.rate)) ++ P.ind.map (fun t => (keyI t, t.rate))
  let pt0 : List (Tr String × GenLD.PyLD PyTM.Actor) :=
    (P.spont.map fun t => (keyS t, (GenLD.init t.w.isSome : GenLD.PyLD PyTM.Actor))) ++
    (P.ind.map fun t => (keyI t, (GenLD.init t.w.isSome : GenLD.PyLD PyTM.Actor)))
  let pairs : List (Node × Node) := P.nodes.flatMap fun u =>
    ((P.succ u).map fun v => (u, v)) ++ (if P.directed then [] else (P.succ u).map fun v => (v, u))
  let gw0 : List (Tr String × List (PyTM.Actor × Option Rat)) :=
    (P.spont.filterMap fun t => t.w.map fun f => (keyS t, P.nodes.map fun u => ([u], some (f u)))) ++
    (P.ind.filterMap fun t => t.w.map fun f => (keyI t, pairs.eraseDups.map fun p => ([p.1, p.2], some (f p.1 p.2))))
  let A : SArgs String :=
    { nodes := P.nodes, nbrs := P.succ, pred := P.pred, directed := P.directed, ic := fun u => icl.getD u "", ret := P.ret,
      spont := spont, induced := induced, rate := fun t => alGet rateTab 0 t,
      spHas := fun s => spont.any fun t => t.1 == s || t.2 == s,
      spOut := fun s => spont.filter fun t => t.1 == s,
      inHas := fun p => induced.any fun t => t.1 == p || t.2 == p,
      inOut := fun p => induced.filter fun t => t.1 == p,
      pt0 := pt0, gw0 := gw0, tmin := tmin, tmax := tmax, full := full, cfuel := 1000 }
  match (GenSC.run A 100000) { tape := tape } with
  | .error e => pure (errObj e)
  | .ok (s, ts) =>
    pure (Json.mkObj [("ok", Json.bool true), ("trace", Json.arr (ts.trace.map jCall)), ("unused", jNat ts.tape.length),
      ("times", jArr jERat s.times),
      ("cols", jArr (fun x => jArr jInt (alGet s.data [] x)) A.ret),
      ("pt", jArr (fun (p : Tr String × GenLD.PyLD PyTM.Actor) => jArr (jArr jNat) p.2.items) s.potential_transitions),
      ("status", jArr (fun u => Json.str (s.status u)) P.nodes),
      ("trans", jArr (fun e => Json.arr #[jERat e.1, (match e.2.1 with | some u => jNat u | none => Json.null), jNat e.2.2]) s.transmissions),
      ("history", jArr (fun p => Json.arr #[jNat p.1, jArr jERat p.2.1, jArr Json.str p.2.2]) s.node_history)])

def handle (line : String) : String :=
  match Json.parse line with
  | .ok j => match run j with
    | .ok r => r.compress
    | .error e => (errObj ("driversc:" ++ e)).compress
  | .error e => (errObj ("parse:" ++ e)).compress
end DrvGenSC
