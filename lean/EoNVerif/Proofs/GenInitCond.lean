import EoNVerif.Gen.InitCondGen
import EoNVerif.Model.InitCond
import Mathlib.Tactic.Ring
import Mathlib.Tactic.Linarith
import Mathlib.Data.List.Basic
import Mathlib.Data.List.Nodup
import Mathlib.Algebra.BigOperators.Group.List.Basic
import Mathlib.Algebra.BigOperators.Ring.List

namespace GenInitProofs
open GenInit InitCond

/-- one iteration of the two status loops of `_initialize_node_status_` -/
def stStep (A : IArgs) (x : St) (acc : Node → St) (node : Node) : Except String (Node → St) :=
  if A.hasNode node then .ok (fset acc node x) else .error "EoNError"

theorem init_unfold (A : IArgs) (infs recs : List Node) :
    initialize_node_status A infs recs =
      if infs.any (fun u => decide (u ∈ recs)) then .error "EoNError" else
        (infs.foldlM (stStep A St.I) (fun _ => St.S)) >>= fun s => recs.foldlM (stStep A St.R) s := by
  unfold initialize_node_status
  have h : ∀ x : St, (fun (acc : Node → St) (x' : Node) => (do
    let status := acc
    let node := x'
    let status ← (if !(A.hasNode node) then do
      let _ ← (throw "EoNError" : Except String Unit)
      pure status
    else do
      pure status)
    let status := fset status node x
    pure status : Except String (Node → St))) = stStep A x := by
    intro x; funext acc node
    unfold stStep
    cases h : A.hasNode node <;> simp [h] <;> rfl
  simp only [h]
  split
  · rfl
  · simp

theorem foldl_fset (x : St) (l : List Node) : ∀ (init : Node → St) (v : Node),
    (l.foldl (fun acc n => fset acc n x) init) v = if v ∈ l then x else init v := by
  induction l with
  | nil => intro init v; simp
  | cons a t ih =>
    intro init v
    rw [List.foldl_cons, ih]
    by_cases hv : v ∈ t
    · simp [hv]
    · by_cases hva : v = a
      · subst hva; simp [fset]
      · simp [hv, hva, fset]

theorem foldlM_stStep (A : IArgs) (x : St) (l : List Node) : ∀ (init : Node → St),
    l.foldlM (stStep A x) init =
      if l.all A.hasNode then .ok (l.foldl (fun acc n => fset acc n x) init) else .error "EoNError" := by
  induction l with
  | nil => intro init; rfl
  | cons a t ih =>
    intro init
    rw [List.foldlM_cons]
    unfold stStep
    cases h : A.hasNode a
    · simp [bind, Except.bind, h]
    · simp only [if_true, List.all_cons, h, Bool.true_and, List.foldl_cons]
      exact ih _

/-- the generated status map, when no error is raised, is the closed form (no disjointness needed: `R` is written last
and `statusOf` tests `recs` first) -/
theorem init_ok (A : IArgs) (infs recs : List Node)
    (hd : ∀ u ∈ infs, u ∉ recs) (hi : ∀ u ∈ infs, A.hasNode u = true) (hr : ∀ u ∈ recs, A.hasNode u = true) :
    initialize_node_status A infs recs = .ok (statusOf infs recs) := by
  rw [init_unfold]
  have h1 : infs.any (fun u => decide (u ∈ recs)) = false := by
    rw [List.any_eq_false]; intro u hu; simpa using hd u hu
  have h2 : infs.all A.hasNode = true := List.all_eq_true.mpr hi
  have h3 : recs.all A.hasNode = true := List.all_eq_true.mpr hr
  rw [h1, foldlM_stStep, h2]
  simp only [Bool.false_eq_true, if_false, if_true, bind, Except.bind]
  rw [foldlM_stStep, h3]
  simp only [if_true]
  congr 1
  funext v
  rw [foldl_fset, foldl_fset]
  rfl

theorem init_error_overlap (A : IArgs) (infs recs : List Node) (u : Node) (hu : u ∈ infs) (hu' : u ∈ recs) :
    initialize_node_status A infs recs = .error "EoNError" := by
  rw [init_unfold]
  have h1 : infs.any (fun u => decide (u ∈ recs)) = true := by
    rw [List.any_eq_true]; exact ⟨u, hu, by simpa using hu'⟩
  rw [h1]; rfl

theorem init_error_foreign (A : IArgs) (infs recs : List Node)
    (hd : ∀ u ∈ infs, u ∉ recs) (u : Node) (hu : u ∈ infs ∨ u ∈ recs) (hn : A.hasNode u = false) :
    initialize_node_status A infs recs = .error "EoNError" := by
  rw [init_unfold]
  have h1 : infs.any (fun u => decide (u ∈ recs)) = false := by
    rw [List.any_eq_false]; intro u hu; simpa using hd u hu
  rw [h1, foldlM_stStep]
  simp only [Bool.false_eq_true, if_false]
  by_cases h2 : infs.all A.hasNode = true
  · rw [h2]
    simp only [if_true, bind, Except.bind]
    rw [foldlM_stStep]
    have h3 : recs.all A.hasNode = false := by
      rcases hu with hu | hu
      · have := List.all_eq_true.mp h2 u hu; rw [hn] at this; cases this
      · rw [List.all_eq_false]; exact ⟨u, hu, by simp [hn]⟩
    rw [h3]; rfl
  · rw [if_neg h2]; rfl

/-! ## the two graph representations -/

/-- `A` (what the generated code reads: node list, edge list with every undirected edge once, degree, membership) and
`adj` (adjacency lists of the closed-form model) describe the same simple undirected graph -/
structure GraphOK (A : IArgs) (adj : List (List Nat)) : Prop where
  nodes : A.nodes = List.range adj.length
  degree : ∀ u, u < adj.length → A.degree u = deg adj u
  hasNode : ∀ u, A.hasNode u = true ↔ u < adj.length
  adjNodup : ∀ u, (adj.getD u []).Nodup
  noLoop : ∀ u, u ∉ adj.getD u []
  symm : ∀ u v, v ∈ adj.getD u [] ↔ u ∈ adj.getD v []
  edgesNodup : A.edges.Nodup
  edgesAsym : ∀ u v, (u, v) ∈ A.edges → (v, u) ∉ A.edges
  edgesAdj : ∀ u v, ((u, v) ∈ A.edges ∨ (v, u) ∈ A.edges) ↔ v ∈ adj.getD u []

/-! ## degree histogram -/

/-- the vector `[f 0, …, f M]` -/
def vec (M : Nat) (f : Nat → Rat) : List Rat := (List.range (M + 1)).map f

@[simp] theorem vec_length (M : Nat) (f : Nat → Rat) : (vec M f).length = M + 1 := by simp [vec]

theorem vec_getElem? (M : Nat) (f : Nat → Rat) (k : Nat) :
    (vec M f)[k]? = if k ≤ M then some (f k) else none := by
  unfold vec
  rw [List.getElem?_map]
  by_cases h : k ≤ M
  · rw [List.getElem?_range (by omega), if_pos h]; rfl
  · rw [List.getElem?_eq_none (by simp; omega), if_neg h]; rfl

theorem le_foldl_max (l : List Nat) : ∀ (m : Nat), m ≤ l.foldl max m ∧ ∀ x ∈ l, x ≤ l.foldl max m := by
  induction l with
  | nil => intro m; simp
  | cons a t ih =>
    intro m
    rw [List.foldl_cons]
    obtain ⟨h1, h2⟩ := ih (max m a)
    refine ⟨le_trans (le_max_left _ _) h1, ?_⟩
    intro x hx
    rcases List.mem_cons.mp hx with rfl | hx
    · exact le_trans (le_max_right _ _) h1
    · exact h2 x hx

theorem map_range_deg (adj : List (List Nat)) :
    (List.range adj.length).map (deg adj) = adj.map (·.length) := by
  apply List.ext_getElem
  · simp
  · intro i h1 h2
    simp at h1
    simp [deg, List.getD_eq_getElem?_getD, h1]

theorem deg_le_maxDeg (adj : List (List Nat)) (u : Nat) (hu : u < adj.length) : deg adj u ≤ maxDeg adj := by
  unfold maxDeg
  apply (le_foldl_max _ 0).2
  rw [← map_range_deg]
  exact List.mem_map.mpr ⟨u, List.mem_range.mpr hu, rfl⟩

theorem gen_maxk (A : IArgs) (adj : List (List Nat)) (hG : GraphOK A adj) :
    (A.nodes.map A.degree).foldl max 0 = maxDeg adj := by
  unfold maxDeg
  rw [hG.nodes, ← map_range_deg]
  congr 1
  apply List.map_congr_left
  intro u hu; exact hG.degree u (List.mem_range.mp hu)

theorem degree_hist_eq (A : IArgs) (adj : List (List Nat)) (hG : GraphOK A adj) :
    degree_hist A = vec (maxDeg adj) (fun k => (Nk adj k : Rat)) := by
  unfold degree_hist vec
  simp only [gen_maxk A adj hG]
  apply List.map_congr_left
  intro k _
  unfold Nk
  rw [hG.nodes]
  congr 2
  apply List.filter_congr
  intro u hu
  rw [hG.degree u (List.mem_range.mp hu)]

/-! ## degree-class counts -/

/-- one iteration of the node loop of `_get_Nk_and_IC_as_arrays_` -/
def nkStep (d : Node → Nat) (st : Node → St) (acc : List Rat × List Rat × List Rat) (node : Node) :
    Except String (List Rat × List Rat × List Rat) :=
  match st node with
  | St.S => (PyRT.vecAdd acc.1 (d node) 1).map fun s => (s, acc.2.1, acc.2.2)
  | St.I => (PyRT.vecAdd acc.2.1 (d node) 1).map fun s => (acc.1, s, acc.2.2)
  | St.R => (PyRT.vecAdd acc.2.2 (d node) 1).map fun s => (acc.1, acc.2.1, s)

theorem sets_unfold (A : IArgs) (infs recs : List Node) :
    get_Nk_and_IC_sets A infs recs =
      (initialize_node_status A infs recs >>= fun st =>
        (A.nodes.foldlM (nkStep A.degree st)
          ((degree_hist A).map (fun x => (0 : Rat) * x), (degree_hist A).map (fun x => (0 : Rat) * x),
            (degree_hist A).map (fun x => (0 : Rat) * x))) >>= fun r =>
        pure (degree_hist A, r.1, r.2.1, r.2.2)) := by
  unfold get_Nk_and_IC_sets
  have h : ∀ st : Node → St, (fun (acc : List Rat × List Rat × List Rat) (x : Node) => (do
    let (Sk0, Ik0, Rk0) := acc
    let node := x
    let (Sk0, Ik0, Rk0) ← (if decide ((st node) = St.S) then do
      let Sk0 ← PyRT.vecAdd Sk0 (A.degree node) 1
      pure (Sk0, Ik0, Rk0)
    else do
      let (Sk0, Ik0, Rk0) ← (if decide ((st node) = St.I) then do
        let Ik0 ← PyRT.vecAdd Ik0 (A.degree node) 1
        pure (Sk0, Ik0, Rk0)
      else do
        let Rk0 ← PyRT.vecAdd Rk0 (A.degree node) 1
        pure (Sk0, Ik0, Rk0))
      pure (Sk0, Ik0, Rk0))
    pure (Sk0, Ik0, Rk0) : Except String (List Rat × List Rat × List Rat))) = nkStep A.degree st := by
    intro st; funext acc node
    obtain ⟨a, b, c⟩ := acc
    unfold nkStep
    cases h : st node <;> simp [h] <;> rfl
  simp only [h]

theorem vec_congr (M : Nat) (f g : Nat → Rat) (h : ∀ k, f k = g k) : vec M f = vec M g := by
  have : f = g := funext h
  rw [this]

theorem vecAdd_vec (M : Nat) (f : Nat → Rat) (d : Nat) (hd : d ≤ M) :
    PyRT.vecAdd (vec M f) d 1 = .ok (vec M (fun k => f k + if d = k then 1 else 0)) := by
  unfold PyRT.vecAdd
  rw [vec_getElem?, if_pos hd]
  show Except.ok _ = Except.ok _
  congr 1
  apply List.ext_getElem?
  intro k
  rw [List.getElem?_set, vec_getElem?, vec_getElem?]
  by_cases hk : d = k
  · subst hk; simp [hd]; omega
  · simp [hk]

/-- indicator added by one node to class `(x, k)` -/
def ind (d : Node → Nat) (st : Node → St) (a : Node) (x : St) (k : Nat) : Rat :=
  if d a = k ∧ st a = x then 1 else 0

def cnt (d : Node → Nat) (st : Node → St) (l : List Node) (x : St) (k : Nat) : Nat :=
  (l.filter (fun u => d u = k ∧ st u = x)).length

theorem cnt_cons (d : Node → Nat) (st : Node → St) (a : Node) (t : List Node) (x : St) (k : Nat) :
    (cnt d st (a :: t) x k : Rat) = ind d st a x k + cnt d st t x k := by
  unfold cnt ind
  rw [List.filter_cons]
  by_cases h : d a = k ∧ st a = x
  · simp only [h, and_self, decide_true, if_true, List.length_cons]; push_cast; ring
  · simp [h]

theorem nkStep_vec (d : Node → Nat) (st : Node → St) (M : Nat) (fS fI fR : Nat → Rat) (a : Node) (ha : d a ≤ M) :
    nkStep d st (vec M fS, vec M fI, vec M fR) a =
      .ok (vec M (fun k => fS k + ind d st a St.S k), vec M (fun k => fI k + ind d st a St.I k),
        vec M (fun k => fR k + ind d st a St.R k)) := by
  unfold nkStep
  cases h : st a <;> simp only [vecAdd_vec _ _ _ ha, Except.map] <;> congr 1 <;>
    (refine Prod.ext ?_ (Prod.ext ?_ ?_)) <;> apply vec_congr <;> intro k <;> simp [ind, h]

theorem foldlM_nkStep (d : Node → Nat) (st : Node → St) (M : Nat) (l : List Node) (hl : ∀ u ∈ l, d u ≤ M) :
    ∀ (fS fI fR : Nat → Rat),
    l.foldlM (nkStep d st) (vec M fS, vec M fI, vec M fR) =
      .ok (vec M (fun k => fS k + cnt d st l St.S k), vec M (fun k => fI k + cnt d st l St.I k),
        vec M (fun k => fR k + cnt d st l St.R k)) := by
  induction l with
  | nil => intro fS fI fR; simp [cnt]; rfl
  | cons a t ih =>
    intro fS fI fR
    rw [List.foldlM_cons, nkStep_vec d st M fS fI fR a (hl a (by simp))]
    show List.foldlM _ _ t = _
    rw [ih (fun u hu => hl u (by simp [hu]))]
    congr 1
    refine Prod.ext ?_ (Prod.ext ?_ ?_) <;> apply vec_congr <;> intro k <;> simp only [cnt_cons] <;> ring

theorem vec_map (M : Nat) (f : Nat → Rat) (g : Rat → Rat) : (vec M f).map g = vec M (fun k => g (f k)) := by
  simp [vec, Function.comp_def]

theorem cnt_range_eq (A : IArgs) (adj : List (List Nat)) (hG : GraphOK A adj) (st : Node → St) (x : St) (k : Nat) :
    cnt A.degree st (List.range adj.length) x k = classCount adj st x k := by
  unfold cnt classCount
  congr 1
  apply List.filter_congr
  intro u hu
  rw [hG.degree u (List.mem_range.mp hu)]

theorem sets_ok (A : IArgs) (adj : List (List Nat)) (hG : GraphOK A adj) (infs recs : List Node) (st : Node → St)
    (hst : initialize_node_status A infs recs = .ok st) :
    get_Nk_and_IC_sets A infs recs =
      .ok (vec (maxDeg adj) (fun k => (Nk adj k : Rat)),
           vec (maxDeg adj) (fun k => (classCount adj st St.S k : Rat)),
           vec (maxDeg adj) (fun k => (classCount adj st St.I k : Rat)),
           vec (maxDeg adj) (fun k => (classCount adj st St.R k : Rat))) := by
  rw [sets_unfold, hst, degree_hist_eq A adj hG]
  simp only [bind, Except.bind, vec_map]
  rw [hG.nodes, foldlM_nkStep]
  · simp only [pure, Except.pure, cnt_range_eq A adj hG, zero_mul, zero_add]
  · intro u hu
    have hu := List.mem_range.mp hu
    rw [hG.degree u hu]
    exact deg_le_maxDeg adj u hu

theorem rho_ok (A : IArgs) (adj : List (List Nat)) (hG : GraphOK A adj) (rho : Rat) :
    get_Nk_and_IC_rho A rho =
      (vec (maxDeg adj) (fun k => (Nk adj k : Rat)), vec (maxDeg adj) (fun k => rhoSk adj rho k),
       vec (maxDeg adj) (fun k => rhoIk adj rho k), vec (maxDeg adj) (fun _ => 0)) := by
  unfold get_Nk_and_IC_rho
  simp only [degree_hist_eq A adj hG, vec_map, rhoSk, rhoIk, zero_mul]

/-! ## pair counts -/

/-- one iteration of the edge loop of `_count_edge_types_` -/
def edgeStep (st : Node → St) (acc : Int × Int × Int) (e : Node × Node) : Int × Int × Int :=
  match st e.1, st e.2 with
  | St.S, St.S => (acc.1 + 2, acc.2.1, acc.2.2)
  | St.S, St.I => (acc.1, acc.2.1 + 1, acc.2.2)
  | St.I, St.S => (acc.1, acc.2.1 + 1, acc.2.2)
  | St.I, St.I => (acc.1, acc.2.1, acc.2.2 + 2)
  | _, _ => acc

theorem count_unfold (A : IArgs) (infs recs : List Node) :
    count_edge_types A infs recs =
      (initialize_node_status A infs recs >>= fun st => pure (A.edges.foldl (edgeStep st) (0, 0, 0))) := by
  unfold count_edge_types
  have h : ∀ status : Node → St, (fun (acc : Int × Int × Int) (x : Node × Node) => (do
    let (SS0, SI0, II0) := acc
    let (u, v) := x
    let (SS0, SI0, II0) ← (if decide ((status u) = St.S) then do
      let (SS0, SI0, II0) ← (if decide ((status v) = St.S) then do
        let SS0 := SS0 + 2
        pure (SS0, SI0, II0)
      else do
        let (SS0, SI0, II0) ← (if decide ((status v) = St.I) then do
          let SI0 := SI0 + 1
          pure (SS0, SI0, II0)
        else do
          pure (SS0, SI0, II0))
        pure (SS0, SI0, II0))
      pure (SS0, SI0, II0)
    else do
      let (SS0, SI0, II0) ← (if decide ((status u) = St.I) then do
        let (SS0, SI0, II0) ← (if decide ((status v) = St.S) then do
          let SI0 := SI0 + 1
          pure (SS0, SI0, II0)
        else do
          let (SS0, SI0, II0) ← (if decide ((status v) = St.I) then do
            let II0 := II0 + 2
            pure (SS0, SI0, II0)
          else do
            pure (SS0, SI0, II0))
          pure (SS0, SI0, II0))
        pure (SS0, SI0, II0)
      else do
        pure (SS0, SI0, II0))
      pure (SS0, SI0, II0))
    pure (SS0, SI0, II0) : Except String (Int × Int × Int))) = fun acc x => pure (edgeStep status acc x) := by
    intro status; funext acc x
    obtain ⟨a, b, c⟩ := acc
    obtain ⟨u, v⟩ := x
    unfold edgeStep
    cases h1 : status u <;> cases h2 : status v <;> simp [h1, h2]
  simp only [h, List.foldlM_pure]
  cases initialize_node_status A infs recs <;> rfl

/-- number of listed (oriented) edges whose endpoints have statuses `(x, y)` -/
def ec (st : Node → St) (l : List (Node × Node)) (x y : St) : Nat :=
  (l.filter (fun e => st e.1 = x ∧ st e.2 = y)).length

theorem ec_cons (st : Node → St) (e : Node × Node) (t : List (Node × Node)) (x y : St) :
    ec st (e :: t) x y = (if st e.1 = x ∧ st e.2 = y then 1 else 0) + ec st t x y := by
  unfold ec
  rw [List.filter_cons]
  by_cases h : st e.1 = x ∧ st e.2 = y
  · simp only [h, and_self, decide_true, if_true, List.length_cons]; omega
  · simp [h]

theorem edgeStep_eq (st : Node → St) (a b c : Int) (e : Node × Node) :
    edgeStep st (a, b, c) e =
      (a + 2 * ((if st e.1 = St.S ∧ st e.2 = St.S then 1 else 0 : Nat) : Int),
       b + (((if st e.1 = St.S ∧ st e.2 = St.I then 1 else 0 : Nat) : Int) +
            ((if st e.1 = St.I ∧ st e.2 = St.S then 1 else 0 : Nat) : Int)),
       c + 2 * ((if st e.1 = St.I ∧ st e.2 = St.I then 1 else 0 : Nat) : Int)) := by
  unfold edgeStep
  cases h1 : st e.1 <;> cases h2 : st e.2 <;> simp

theorem foldl_edgeStep (st : Node → St) (l : List (Node × Node)) : ∀ (a b c : Int),
    l.foldl (edgeStep st) (a, b, c) =
      (a + 2 * ec st l St.S St.S, b + (ec st l St.S St.I + ec st l St.I St.S), c + 2 * ec st l St.I St.I) := by
  induction l with
  | nil => intro a b c; simp [ec]
  | cons e t ih =>
    intro a b c
    rw [List.foldl_cons, edgeStep_eq, ih]
    simp only [ec_cons]
    refine Prod.ext ?_ (Prod.ext ?_ ?_) <;> simp only [] <;> push_cast <;> ring

/-- the list of ordered neighbour pairs -/
def opairs (adj : List (List Nat)) : List (Node × Node) :=
  (List.range adj.length).flatMap (fun u => (adj.getD u []).map (fun v => (u, v)))

theorem pairCount_eq_opairs (adj : List (List Nat)) (st : Nat → St) (x y : St) :
    pairCount adj st x y = ec st (opairs adj) x y := by
  unfold pairCount opairs ec
  generalize List.range adj.length = l
  induction l with
  | nil => rfl
  | cons u t ih =>
    rw [List.map_cons, List.sum_cons, ih, List.flatMap_cons, List.filter_append, List.length_append]
    congr 1
    rw [List.filter_map, List.length_map]
    by_cases h : st u = x
    · simp [h, Function.comp_def]
    · simp [h, Function.comp_def]

theorem mem_opairs (adj : List (List Nat)) (u v : Nat) : (u, v) ∈ opairs adj ↔ v ∈ adj.getD u [] := by
  unfold opairs
  simp only [List.mem_flatMap, List.mem_range, List.mem_map, Prod.mk.injEq]
  constructor
  · rintro ⟨a, _, b, hb, rfl, rfl⟩; exact hb
  · intro h
    refine ⟨u, ?_, v, h, rfl, rfl⟩
    by_contra hu
    rw [List.getD_eq_getElem?_getD, List.getElem?_eq_none (by omega)] at h
    simp at h

theorem nodup_opairs (adj : List (List Nat)) (h : ∀ u, (adj.getD u []).Nodup) : (opairs adj).Nodup := by
  unfold opairs
  rw [List.nodup_flatMap]
  constructor
  · intro u _
    exact (h u).map (fun a b hab => by simpa using hab)
  · refine List.Pairwise.imp ?_ List.nodup_range
    intro a b hab p hp1 hp2
    obtain ⟨v, _, rfl⟩ := List.mem_map.mp hp1
    obtain ⟨w, _, hw⟩ := List.mem_map.mp hp2
    simp at hw
    exact hab hw.1.symm

theorem ec_perm (st : Node → St) (l l' : List (Node × Node)) (h : l.Perm l') (x y : St) :
    ec st l x y = ec st l' x y := by
  unfold ec
  exact (h.filter _).length_eq

theorem ec_append (st : Node → St) (l l' : List (Node × Node)) (x y : St) :
    ec st (l ++ l') x y = ec st l x y + ec st l' x y := by
  unfold ec
  rw [List.filter_append, List.length_append]

theorem ec_swap (st : Node → St) (l : List (Node × Node)) (x y : St) :
    ec st (l.map Prod.swap) x y = ec st l y x := by
  unfold ec
  rw [List.filter_map, List.length_map]
  congr 1
  apply List.filter_congr
  intro e _
  simp [Bool.and_comm]

/-- the ordered neighbour pairs are the listed edges in both orientations -/
theorem opairs_perm (A : IArgs) (adj : List (List Nat)) (hG : GraphOK A adj) :
    (opairs adj).Perm (A.edges ++ A.edges.map Prod.swap) := by
  rw [List.perm_ext_iff_of_nodup (nodup_opairs adj hG.adjNodup)]
  · rintro ⟨u, v⟩
    rw [mem_opairs, ← hG.edgesAdj, List.mem_append]
    simp [Prod.swap]
  · apply List.Nodup.append hG.edgesNodup
    · exact hG.edgesNodup.map Prod.swap_injective
    · intro p hp hp'
      obtain ⟨u, v⟩ := p
      obtain ⟨q, hq, hqe⟩ := List.mem_map.mp hp'
      obtain ⟨a, b⟩ := q
      simp [Prod.swap] at hqe
      obtain ⟨rfl, rfl⟩ := hqe
      exact hG.edgesAsym _ _ hp hq

/-- the combinatorial bridge: ordered-pair counts from the edge list -/
theorem pairCount_eq_edges (A : IArgs) (adj : List (List Nat)) (hG : GraphOK A adj) (st : Nat → St) (x y : St) :
    pairCount adj st x y = ec st A.edges x y + ec st A.edges y x := by
  rw [pairCount_eq_opairs, ec_perm st _ _ (opairs_perm A adj hG), ec_append, ec_swap]

theorem count_ok (A : IArgs) (adj : List (List Nat)) (hG : GraphOK A adj) (infs recs : List Node) (st : Node → St)
    (hst : initialize_node_status A infs recs = .ok st) :
    count_edge_types A infs recs =
      .ok ((pairCount adj st St.S St.S : Int), (pairCount adj st St.S St.I : Int), (pairCount adj st St.I St.I : Int)) := by
  rw [count_unfold, hst]
  simp only [bind, Except.bind, pure, Except.pure, foldl_edgeStep, pairCount_eq_edges A adj hG]
  congr 1
  refine Prod.ext ?_ (Prod.ext ?_ ?_) <;> simp only [] <;> push_cast <;> ring

/-! ## totals -/

theorem sum_ind (N d : Nat) (P : Prop) [Decidable P] :
    ((List.range N).map (fun k => if d = k ∧ P then 1 else 0)).sum = if d < N ∧ P then 1 else 0 := by
  induction N with
  | zero => simp
  | succ N ih =>
    rw [List.range_succ, List.map_append, List.sum_append, ih]
    by_cases hP : P
    · by_cases h1 : d < N
      · have : d ≠ N := by omega
        have h2 : d < N + 1 := by omega
        simp [h1, h2, hP, this]
      · by_cases h3 : d = N
        · subst h3; simp [hP]
        · have h2 : ¬ d < N + 1 := by omega
          simp [h1, h2, h3]
    · simp [hP]

theorem sum_filter_classes (d : Node → Nat) (p : Node → Prop) [DecidablePred p] (M : Nat) (l : List Node)
    (hl : ∀ u ∈ l, d u ≤ M) :
    ((List.range (M + 1)).map (fun k => (l.filter (fun u => d u = k ∧ p u)).length)).sum = (l.filter (fun u => p u)).length := by
  induction l with
  | nil => simp
  | cons a t ih =>
    have h1 : ∀ k, ((a :: t).filter (fun u => d u = k ∧ p u)).length =
        (if d a = k ∧ p a then 1 else 0) + (t.filter (fun u => d u = k ∧ p u)).length := by
      intro k
      rw [List.filter_cons]
      by_cases h : d a = k ∧ p a
      · simp only [h, and_self, decide_true, if_true, List.length_cons]; omega
      · simp [h]
    simp only [h1]
    rw [List.sum_map_add, ih (fun u hu => hl u (by simp [hu])), sum_ind]
    have := hl a (by simp)
    rw [List.filter_cons]
    by_cases h : p a
    · have h2 : d a < M + 1 := by omega
      simp [h, h2]; omega
    · simp [h]

theorem sum_classCount (adj : List (List Nat)) (st : Nat → St) (x : St) :
    ((List.range (maxDeg adj + 1)).map (fun k => classCount adj st x k)).sum = count adj st x := by
  unfold classCount count
  exact sum_filter_classes (deg adj) (fun u => st u = x) (maxDeg adj) (List.range adj.length)
    (fun u hu => deg_le_maxDeg adj u (List.mem_range.mp hu))

theorem sum_Nk (adj : List (List Nat)) :
    ((List.range (maxDeg adj + 1)).map (fun k => Nk adj k)).sum = adj.length := by
  have h := sum_filter_classes (deg adj) (fun _ => True) (maxDeg adj) (List.range adj.length)
    (fun u hu => deg_le_maxDeg adj u (List.mem_range.mp hu))
  simp only [and_true, decide_true, List.filter_true, List.length_range] at h
  exact h

theorem filter_three (st : Nat → St) (l : List Nat) :
    (l.filter (fun u => st u = St.S)).length + (l.filter (fun u => st u = St.I)).length +
      (l.filter (fun u => st u = St.R)).length = l.length := by
  induction l with
  | nil => rfl
  | cons a t ih =>
    simp only [List.filter_cons]
    cases h : st a <;> simp <;> omega

theorem count_total (adj : List (List Nat)) (st : Nat → St) :
    count adj st St.S + count adj st St.I + count adj st St.R = adj.length := by
  unfold count
  rw [filter_three, List.length_range]

theorem vec_sum_cast (M : Nat) (f : Nat → Nat) :
    (vec M (fun k => (f k : Rat))).sum = ((((List.range (M + 1)).map f).sum : Nat) : Rat) := by
  unfold vec
  generalize List.range (M + 1) = l
  induction l with
  | nil => simp
  | cons a t ih => simp [ih]

theorem pairCount_symm (A : IArgs) (adj : List (List Nat)) (hG : GraphOK A adj) (st : Nat → St) (x y : St) :
    pairCount adj st x y = pairCount adj st y x := by
  rw [pairCount_eq_edges A adj hG, pairCount_eq_edges A adj hG, Nat.add_comm]

/-- every ordered neighbour pair has exactly one status pair: the nine pair counts add up to `Σ_k k·N_k` -/
theorem pairCount_total (adj : List (List Nat)) (st : Nat → St) :
    pairCount adj st St.S St.S + pairCount adj st St.S St.I + pairCount adj st St.S St.R +
    pairCount adj st St.I St.S + pairCount adj st St.I St.I + pairCount adj st St.I St.R +
    pairCount adj st St.R St.S + pairCount adj st St.R St.I + pairCount adj st St.R St.R = twoM adj := by
  unfold twoM pairCount
  rw [← map_range_deg]
  generalize List.range adj.length = l
  induction l with
  | nil => rfl
  | cons u t ih =>
    simp only [List.map_cons, List.sum_cons]
    rw [← ih]
    have h3 := filter_three st (adj.getD u [])
    have hd : deg adj u = (adj.getD u []).length := rfl
    rw [hd, ← h3]
    cases h : st u <;> simp <;> omega

theorem pairs_le_twoM (A : IArgs) (adj : List (List Nat)) (hG : GraphOK A adj) (st : Nat → St) :
    pairCount adj st St.S St.S + 2 * pairCount adj st St.S St.I + pairCount adj st St.I St.I ≤ twoM adj := by
  have h := pairCount_total adj st
  have hs := pairCount_symm A adj hG st St.S St.I
  omega

/-! ## a finite check implying `GraphOK` -/

/-- bounded (decidable) form of `GraphOK`, except for `hasNode` outside the node range -/
def GraphCheck (A : IArgs) (adj : List (List Nat)) : Prop :=
  A.nodes = List.range adj.length ∧
  (∀ u, u < adj.length → A.degree u = deg adj u) ∧
  (∀ l ∈ adj, l.Nodup) ∧
  (∀ u, u < adj.length → u ∉ adj.getD u []) ∧
  (∀ u, u < adj.length → ∀ v ∈ adj.getD u [], v < adj.length ∧ u ∈ adj.getD v []) ∧
  A.edges.Nodup ∧
  (∀ e ∈ A.edges, (e.2, e.1) ∉ A.edges) ∧
  (∀ e ∈ A.edges, e.2 ∈ adj.getD e.1 []) ∧
  (∀ u, u < adj.length → ∀ v ∈ adj.getD u [], (u, v) ∈ A.edges ∨ (v, u) ∈ A.edges)

instance (A : IArgs) (adj : List (List Nat)) : Decidable (GraphCheck A adj) := by
  unfold GraphCheck; infer_instance

theorem getD_nil_of_ge (adj : List (List Nat)) (u : Nat) (h : ¬ u < adj.length) : adj.getD u [] = [] := by
  rw [List.getD_eq_getElem?_getD, List.getElem?_eq_none (by omega)]; rfl

theorem lt_of_mem_getD (adj : List (List Nat)) (u v : Nat) (h : v ∈ adj.getD u []) : u < adj.length := by
  by_contra hu
  rw [getD_nil_of_ge adj u hu] at h
  simp at h

theorem GraphOK.of_check (A : IArgs) (adj : List (List Nat))
    (hN : ∀ u, A.hasNode u = true ↔ u < adj.length) (h : GraphCheck A adj) : GraphOK A adj := by
  obtain ⟨h1, h2, h3, h4, h5, h6, h7, h8, h9⟩ := h
  have hsymm : ∀ u v, v ∈ adj.getD u [] → u ∈ adj.getD v [] := fun u v hv =>
    (h5 u (lt_of_mem_getD adj u v hv) v hv).2
  refine ⟨h1, h2, hN, ?_, ?_, ?_, h6, ?_, ?_⟩
  · intro u
    by_cases hu : u < adj.length
    · apply h3
      rw [List.getD_eq_getElem?_getD, List.getElem?_eq_getElem hu]
      simp
    · rw [getD_nil_of_ge adj u hu]; exact List.nodup_nil
  · intro u hu
    exact h4 u (lt_of_mem_getD adj u u hu) hu
  · intro u v; exact ⟨hsymm u v, hsymm v u⟩
  · intro u v huv; exact h7 (u, v) huv
  · intro u v
    constructor
    · rintro (huv | hvu)
      · exact h8 (u, v) huv
      · exact hsymm v u (h8 (v, u) hvu)
    · intro hv
      exact h9 u (lt_of_mem_getD adj u v hv) v hv
