import EoNVerif.Proofs.ODESemi
import EoNVerif.Props.C06b
/-!
C07 — equivalent ODE models are semiconjugate.  For a pair (A, B) we give the map Φ from A's state
to B's, its derivative DΦ (written out explicitly and justified by the polynomial-derivative lemmas at the end), and
prove  DΦ(x)·f_A(x) = f_B(Φ(x))  together with equality of the observed S, I, R.  All statements are algebraic
identities over ℚ with explicit non-vanishing hypotheses for the denominators that the code divides by.
The definitions `phiS`, `phiR`, `phiI`, `SSof`, `SIof`, `dSSof`, `dSIof`, `only`, `psiHPoly` live in
`EoNVerif.Proofs.ODESemi`.
-/
namespace ODE
open Polynomial

/-! ## EBCM → SIR super-compact pairwise and SIR compact pairwise -/
section EBCM
variable (K : Nat) (c : Nat → Rat) (N tau gamma phiS0 phiR0 : Rat)

/-- the EBCM θ-equation is θ' = -τ φ_I -/
theorem ebcm_theta (theta R : Rat) (ht : tau ≠ 0) :
    (ebcm K c N tau gamma phiS0 phiR0 theta R).1 = -tau * phiI K c tau gamma phiS0 phiR0 theta := by
  simp only [ebcm, phiI, phiS, phiR]
  field_simp
  ring

/-- **EBCM → SIR super-compact pairwise**: with Φ(θ,R) = (θ, SS(θ), SI(θ), R) -/
theorem ebcm_to_superCompact (theta R : Rat) (ht : tau ≠ 0) (hN : N ≠ 0) (hp : psiHP K c theta ≠ 0) :
    let th' := (ebcm K c N tau gamma phiS0 phiR0 theta R).1
    let r := sirSuperCompactPW K c tau gamma N theta (SSof K c N phiS0 theta) (SIof K c N tau gamma phiS0 phiR0 theta) R
    r.1 = th' ∧
    r.2.1 = dSSof K c N phiS0 theta * th' ∧
    r.2.2.1 = dSIof K c N tau gamma phiS0 phiR0 theta * th' ∧
    r.2.2.2 = (ebcm K c N tau gamma phiS0 phiR0 theta R).2 := by
  intro th' r
  have hth : th' = -tau * phiI K c tau gamma phiS0 phiR0 theta := ebcm_theta K c N tau gamma phiS0 phiR0 theta R ht
  rw [hth]
  simp only [r, sirSuperCompactPW, SSof, SIof, dSSof, dSIof, phiS, ebcm]
  generalize phiI K c tau gamma phiS0 phiR0 theta = pI
  generalize psiHP K c theta = P at hp ⊢
  generalize psiHDP K c theta = D
  generalize psiHP K c 1 = P1
  refine ⟨?_, ?_, ?_, trivial⟩
  · field_simp
  · field_simp
    ring
  · field_simp
    ring

/-- **EBCM → SIR compact pairwise**: with S_k = N c_k θ^k (so dS_k/dt = N c_k k θ^(k-1) θ') -/
theorem ebcm_to_compact (theta R : Rat) (ht : tau ≠ 0) (hN : N ≠ 0) (hth : theta ≠ 0) (hp : psiHP K c theta ≠ 0) :
    let th' := (ebcm K c N tau gamma phiS0 phiR0 theta R).1
    let r := sirCompactPW K tau gamma N (fun k => N * c k * theta ^ k)
               (SSof K c N phiS0 theta) (SIof K c N tau gamma phiS0 phiR0 theta) R
    (∀ k, k < K → r.1 k = N * c k * (kf k * theta ^ (k - 1)) * th') ∧
    r.2.1 = dSSof K c N phiS0 theta * th' ∧
    r.2.2.1 = dSIof K c N tau gamma phiS0 phiR0 theta * th' ∧
    r.2.2.2 = (ebcm K c N tau gamma phiS0 phiR0 theta R).2 := by
  intro th' r
  have hth' : th' = -tau * phiI K c tau gamma phiS0 phiR0 theta := ebcm_theta K c N tau gamma phiS0 phiR0 theta R ht
  rw [hth']
  simp only [r, sirCompactPW, sumTo_S, sumTo_kS, sumTo_kkS, SSof, SIof, dSSof, dSIof, phiS, ebcm]
  generalize phiI K c tau gamma phiS0 phiR0 theta = pI
  generalize psiHP K c theta = P at hp ⊢
  generalize psiHDP K c theta = D
  generalize psiHP K c 1 = P1
  refine ⟨?_, ?_, ?_, trivial⟩
  · intro k _
    cases k with
    | zero => simp [kf]
    | succ k =>
      simp only [Nat.add_sub_cancel, pow_succ]
      field_simp
  · field_simp
    ring
  · field_simp
    ring

/-- the observed susceptible count agrees: Σ_k N c_k θ^k = N ψ̂(θ) -/
theorem ebcm_compact_S (theta : Rat) : sumTo K (fun k => N * c k * theta ^ k) = N * psiH K c theta :=
  sumTo_S K c N theta

end EBCM

/-! ## the generating-function helpers are a polynomial and its derivatives (justifies dSSof, dSIof, dS_k) -/
theorem psiH_eval (K : Nat) (c : Nat → Rat) (x : Rat) : psiH K c x = (psiHPoly K c).eval x := by
  unfold psiH psiHPoly sumTo
  rw [eval_list_sum_map]
  apply sumRat_map_congr
  intro k _
  simp
theorem psiHP_deriv (K : Nat) (c : Nat → Rat) (x : Rat) : psiHP K c x = (derivative (psiHPoly K c)).eval x := by
  unfold psiHP psiHPoly sumTo
  rw [derivative_list_sum_map, eval_list_sum_map]
  apply sumRat_map_congr
  intro k _
  simp only [derivative_C_mul_X_pow, eval_mul, eval_C, eval_pow, eval_X, kf]
  ring
theorem psiHDP_deriv (K : Nat) (c : Nat → Rat) (x : Rat) :
    psiHDP K c x = (derivative (derivative (psiHPoly K c))).eval x := by
  unfold psiHDP psiHPoly sumTo
  rw [derivative_list_sum_map, derivative_list_sum_map, eval_list_sum_map]
  apply sumRat_map_congr
  intro k _
  simp only [derivative_C_mul_X_pow, eval_mul, eval_C, eval_pow, eval_X, kf]
  cases k with
  | zero => simp
  | succ k =>
    rw [Nat.sub_sub]
    simp only [Nat.add_sub_cancel]
    push_cast
    ring

/-! ## regular-graph reductions: the homogeneous model is the restriction of the richer one to uniform states -/

/-- heterogeneous mean-field SIS on an n-regular network = homogeneous mean-field -/
theorem hetMF_sis_regular (K n : Nat) (hn : n < K) (tau gamma S I : Rat) (hpos : (n : Rat) * (I + S) ≠ 0) :
    let r := sisHetMF K tau gamma (only n S) (only n I)
    let h := sisHomMF ((n : Rat) / (S + I)) tau gamma S I
    r.1 n = h.1 ∧ r.2 n = h.2 ∧ ∀ k, k ≠ n → r.1 k = 0 ∧ r.2 k = 0 := by
  intro r h
  have h1 : sumTo K (fun k => kf k * only n I k) = kf n * I := by
    rw [sumTo_single K n hn _ (fun k hk => by simp [only, hk])]
    simp [only]
  have h2 : sumTo K (fun k => kf k * (only n I k + only n S k)) = kf n * (I + S) := by
    rw [sumTo_single K n hn _ (fun k hk => by simp [only, hk])]
    simp [only]
  have hn0 : (n : Rat) ≠ 0 := left_ne_zero_of_mul hpos
  have hIS : I + S ≠ 0 := right_ne_zero_of_mul hpos
  have hSI : S + I ≠ 0 := by rwa [add_comm]
  simp only [r, h, sisHetMF, sisHomMF, piI, h1, h2]
  refine ⟨?_, ?_, ?_⟩
  · simp only [only, if_true, kf]
    field_simp
    ring
  · simp only [only, if_true, kf]
    field_simp
    ring
  · intro k hk
    simp [only, hk]

/-- heterogeneous mean-field SIR on an n-regular network: S = S0 θ^n obeys the homogeneous mean-field equation -/
theorem hetMF_sir_regular (K n : Nat) (hn : n < K) (tau gamma S0 Ntot theta R : Rat)
    (hN : (n : Rat) * Ntot ≠ 0) :
    let r := sirHetMF K tau gamma (only n S0) (only n Ntot) theta (only n R)
    let S := S0 * theta ^ n
    let I := Ntot - S - R
    S0 * ((n : Rat) * theta ^ (n - 1)) * r.1 = (sirHomMF ((n : Rat) / Ntot) tau gamma S I).1 ∧
    r.2 n = gamma * I := by
  intro r S I
  have h1 : sumTo K (fun k => kf k * (only n Ntot k - only n S0 k * theta ^ k - only n R k))
      = kf n * (Ntot - S0 * theta ^ n - R) := by
    rw [sumTo_single K n hn _ (fun k hk => by simp [only, hk])]
    simp [only]
  have h2 : sumTo K (fun k => kf k * only n Ntot k) = kf n * Ntot := by
    rw [sumTo_single K n hn _ (fun k hk => by simp [only, hk])]
    simp [only]
  have hn0 : (n : Rat) ≠ 0 := left_ne_zero_of_mul hN
  have hNt : Ntot ≠ 0 := right_ne_zero_of_mul hN
  have hnpos : n ≠ 0 := by
    intro h
    apply hn0
    simp [h]
  obtain ⟨m, rfl⟩ := Nat.exists_eq_succ_of_ne_zero hnpos
  simp only [r, S, I, sirHetMF, sirHomMF, h1, h2]
  refine ⟨?_, ?_⟩
  · simp only [kf, Nat.succ_sub_one, pow_succ]
    field_simp
  · simp [only]

/-- individual-based SIS on an n-regular graph with uniform infection probability y = homogeneous mean-field -/
theorem individual_sis_regular (nbrs : Nat → List Nat) (n : Nat) (tau gamma y Ntot : Rat) (i : Nat)
    (hdeg : (nbrs i).length = n) (hN : Ntot ≠ 0) :
    Ntot * sisIndividual nbrs (fun _ _ => tau) (fun _ => gamma) (fun _ => y) i
      = (sisHomMF ((n : Rat) / Ntot) tau gamma (Ntot * (1 - y)) (Ntot * y)).2 := by
  simp only [sisIndividual, sisHomMF, sumRat_map_const, hdeg]
  field_simp
  ring

theorem individual_sir_regular (nbrs : Nat → List Nat) (n : Nat) (tau gamma x y Ntot : Rat) (i : Nat)
    (hdeg : (nbrs i).length = n) (hN : Ntot ≠ 0) :
    let r := sirIndividual nbrs (fun _ _ => tau) (fun _ => gamma) (fun _ => x) (fun _ => y)
    let h := sirHomMF ((n : Rat) / Ntot) tau gamma (Ntot * x) (Ntot * y)
    Ntot * r.1 i = h.1 ∧ Ntot * r.2 i = h.2 := by
  intro r h
  simp only [r, h, sirIndividual, sirHomMF, sumRat_map_const, hdeg]
  refine ⟨?_, ?_⟩
  · field_simp
  · field_simp

/-- compact pairwise SIR on an n-regular network = homogeneous pairwise (the closure Q becomes (n-1)/(n S)) -/
theorem compactPW_sir_regular (K n : Nat) (hn : n < K) (tau gamma Ntot S I SS SI : Rat)
    (hn0 : (n : Rat) ≠ 0) (hS : S ≠ 0) :
    let r := sirCompactPW K tau gamma Ntot (only n S) SS SI (Ntot - S - I)
    let h := sirHomPW (n : Rat) tau gamma S I SI SS
    r.1 n = h.1 ∧ r.2.1 = h.2.2.2 ∧ r.2.2.1 = h.2.2.1 ∧ r.2.2.2 = gamma * I := by
  intro r h
  have h0 : sumTo K (only n S) = S := by
    rw [sumTo_single K n hn _ (fun k hk => by simp [only, hk])]
    simp [only]
  have h1 : sumTo K (fun k => kf k * only n S k) = kf n * S := by
    rw [sumTo_single K n hn _ (fun k hk => by simp [only, hk])]
    simp [only]
  have h2 : sumTo K (fun k => kf k * (kf k - 1) * only n S k) = kf n * (kf n - 1) * S := by
    rw [sumTo_single K n hn _ (fun k hk => by simp [only, hk])]
    simp [only]
  simp only [r, h, sirCompactPW, sirHomPW, h0, h1, h2]
  simp only [kf]
  refine ⟨?_, ?_, ?_, ?_⟩
  · simp only [only, if_true]
    field_simp
  · field_simp
  · field_simp
  · ring

theorem compactPW_sis_regular (K n : Nat) (hn : n < K) (tau gamma Ntot S SS SI : Rat)
    (hn0 : (n : Rat) ≠ 0) (hS : S ≠ 0) :
    let r := sisCompactPW K tau gamma (Ntot * (n : Rat)) (only n Ntot) (only n S) SI SS
    let h := sisHomPW Ntot (n : Rat) tau gamma S SI SS
    r.1 n = h.1 ∧ r.2.1 = h.2.1 ∧ r.2.2 = h.2.2 := by
  intro r h
  have h1 : sumTo K (fun k => kf k * only n S k) = kf n * S := by
    rw [sumTo_single K n hn _ (fun k hk => by simp [only, hk])]
    simp [only]
  have h2 : sumTo K (fun k => kf k * (kf k - 1) * only n S k) = kf n * (kf n - 1) * S := by
    rw [sumTo_single K n hn _ (fun k hk => by simp [only, hk])]
    simp [only]
  simp only [r, h, sisCompactPW, sisHomPW, h1, h2]
  simp only [kf]
  refine ⟨?_, ?_, ?_⟩
  · simp only [only, if_true]
    field_simp
  · field_simp
  · field_simp

end ODE

/-! non-vacuity: a concrete degree distribution (P(1)=1/4, P(2)=1/2, P(3)=1/4), θ = 9/10, τ = 1, γ = 1/2, N = 100;
the hypotheses of `ebcm_to_superCompact` / `ebcm_to_compact` hold, both sides of the θ, [SS] and [SI] equations are the
same non-zero rational, and the regular-graph reduction is evaluated on a 3-regular state -/
section NonVacuity
open ODE
private def cEx : Nat → Rat := fun k => [0, 1/4, 1/2, 1/4].getD k 0

example : (1 : Rat) ≠ 0 ∧ (100 : Rat) ≠ 0 ∧ (9/10 : Rat) ≠ 0 ∧ psiHP 4 cEx (9/10) = 703/400 ∧ psiHP 4 cEx 1 = 2 := by
  decide +kernel

example :
    (ebcm 4 cEx 100 1 (1/2) (9/10) 0 (9/10) 3).1 = -473/8000
    ∧ sirSuperCompactPW 4 cEx 1 (1/2) 100 (9/10) (SSof 4 cEx 100 (9/10) (9/10)) (SIof 4 cEx 100 1 (1/2) (9/10) 0 (9/10)) 3
      = (-473/8000, -140655537/6400000, -34685563/6400000, 631/80)
    ∧ (sirCompactPW 4 1 (1/2) 100 (fun k => 100 * cEx k * (9/10) ^ k)
        (SSof 4 cEx 100 (9/10) (9/10)) (SIof 4 cEx 100 1 (1/2) (9/10) 0 (9/10)) 3).2
      = (-140655537/6400000, -34685563/6400000, 631/80)
    ∧ dSSof 4 cEx 100 (9/10) (9/10) * (ebcm 4 cEx 100 1 (1/2) (9/10) 0 (9/10) 3).1 = -140655537/6400000
    ∧ dSIof 4 cEx 100 1 (1/2) (9/10) 0 (9/10) * (ebcm 4 cEx 100 1 (1/2) (9/10) 0 (9/10) 3).1 = -34685563/6400000 := by
  decide +kernel

example : (sirCompactPW 5 1 (1/2) 100 (only 3 90) 200 30 (100 - 90 - 8)).2 = (-800/9, -65/9, 4)
    ∧ sirHomPW 3 1 (1/2) 90 8 30 200 = (-30, 26, -65/9, -800/9) := by
  decide +kernel
end NonVacuity
