import EoNVerif.Basic
/-!
Model of the percolation-based estimators (simulation.py 1079–1130, 1392–1479, 1550–1628, 1770–1776):
`estimate_SIR_prob_size_from_dir_perc(H)` picks a largest strongly connected component of the directed graph `H`,
takes one of its nodes `u` and returns (|in-component of u|/N, |out-component of u|/N).  networkx's
`strongly_connected_components`, `ancestors`, `descendants` are modelled by reachability (fixed-point iteration).
-/
namespace Perc

def iter {α : Type} (f : α → α) : Nat → α → α
  | 0, x => x
  | n + 1, x => iter f n (f x)

/-- nodes reachable from the set `src` (including `src`) -/
def reachFrom (nodes : List Node) (succ : Node → List Node) (src : List Node) : List Node :=
  iter (fun cur => nodes.filter fun v => cur.contains v || cur.any fun u => (succ u).contains v) nodes.length
    (nodes.filter fun v => src.contains v)

def reach (nodes : List Node) (succ : Node → List Node) (u v : Node) : Bool := (reachFrom nodes succ [u]).contains v

/-- `_out_component_(H, u)` = {u} ∪ descendants(u) -/
def outC (nodes : List Node) (succ : Node → List Node) (u : Node) : List Node := nodes.filter fun v => reach nodes succ u v
/-- `_in_component_(H, u)` = {u} ∪ ancestors(u) -/
def inC (nodes : List Node) (succ : Node → List Node) (u : Node) : List Node := nodes.filter fun v => reach nodes succ v u
/-- the strongly connected component of `u` -/
def scc (nodes : List Node) (succ : Node → List Node) (u : Node) : List Node :=
  nodes.filter fun v => reach nodes succ u v && reach nodes succ v u

def maxSccSize (nodes : List Node) (succ : Node → List Node) : Nat :=
  (nodes.map fun u => (scc nodes succ u).length).foldl max 0

/-- the values the estimator may return: one pair per node lying in a largest strongly connected component
(pairs coincide within a component — `inC_indep`, `outC_indep`) -/
def allowed (nodes : List Node) (succ : Node → List Node) : List (Rat × Rat) :=
  (nodes.filter fun u => (scc nodes succ u).length = maxSccSize nodes succ).map fun u =>
    (((inC nodes succ u).length : Rat) / (nodes.length : Rat), ((outC nodes succ u).length : Rat) / (nodes.length : Rat))

/-- the percolated digraph of a transmission rule on a contact graph: same nodes, `u → v` iff `v` is a neighbour of
`u` and the rule says `u` would transmit to `v` -/
def percolate (nbrs : Node → List Node) (rule : Node → Node → Bool) : Node → List Node :=
  fun u => (nbrs u).filter fun v => rule u v

end Perc
