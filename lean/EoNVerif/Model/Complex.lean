import EoNVerif.Model.ListDict
import EoNVerif.Model.Tape
import EoNVerif.Model.Gillespie
/-!
Model of `Gillespie_complex_contagion` (simulation.py 3666–3740).  The three user callbacks are pure functions of
the current status map: `rate st u`, `choose st u` (the new status of `u`), `infl st u` (the nodes whose rate may
have changed, evaluated on the *new* statuses, in the order the callback yields them).
-/

structure CCParams (σ : Type) where
  nodes : List Node
  rate : (Node → σ) → Node → Rat
  choose : (Node → σ) → Node → σ
  infl : (Node → σ) → Node → List Node
  ret : List σ                       -- return_statuses

structure CCState (σ : Type) where
  status : Node → σ
  ld : LD Node                       -- nodes_by_rate
  times : List Rat                   -- reversed
  data : List (List Int)             -- one reversed column per return status
  log : List (Rat × Node × σ)        -- reversed: (time, node, new status)

namespace Complex
variable {σ : Type} [DecidableEq σ]

/-- `nodes_by_rate.insert(u, weight=rate)` for a list of nodes, rates evaluated in `st` -/
def insertAll (P : CCParams σ) (st : Node → σ) : List Node → LD Node → Option (LD Node)
  | [], ld => some ld
  | u :: rest, ld =>
    match ld.insert u (some (P.rate st u)) with
    | some ld' => insertAll P st rest ld'
    | none => none

/-- initial loop: only nodes with positive rate are inserted -/
def initLD (P : CCParams σ) (st : Node → σ) : List Node → LD Node → Option (LD Node)
  | [], ld => some ld
  | u :: rest, ld =>
    if P.rate st u > 0 then
      match ld.insert u (some (P.rate st u)) with
      | some ld' => initLD P st rest ld'
      | none => none
    else initLD P st rest ld

def countSt (P : CCParams σ) (st : Node → σ) (x : σ) : Int := ((P.nodes.filter fun u => st u = x).length : Int)

def init (P : CCParams σ) (ic : Node → σ) (tmin : Rat) : Option (CCState σ) :=
  match initLD P ic P.nodes (LD.empty true) with
  | none => none
  | some ld => some { status := ic, ld := ld, times := [tmin], data := P.ret.map fun x => [countSt P ic x], log := [] }

/-- the body of the `while` loop after `choose_random()` returned `node` -/
def applyEvent (P : CCParams σ) (s : CCState σ) (node : Node) (t : Rat) : Option (CCState σ) :=
  let old := s.status node
  let new := P.choose s.status node
  let data := (List.zip P.ret s.data).map fun (x, col) =>
    let v := col.headD 0
    let v := if old = x then v - 1 else v
    let v := if new = x then v + 1 else v
    v :: col
  let st := fset s.status node new
  match s.ld.insert node (some (P.rate st node)) with
  | none => none
  | some ld1 =>
    match insertAll P st (P.infl st node) ld1 with
    | none => none
    | some ld2 => some { status := st, ld := ld2, times := t :: s.times, data := data, log := (t, node, new) :: s.log }

def loop (P : CCParams σ) (tmax : ERat) (cfuel : Nat) : Nat → CCState σ → ERat → TM (CCState σ)
  | 0, _, _ => TM.fail "fuel"
  | fuel + 1, s, t =>
    match t with
    | none => pure s
    | some tv =>
      if !(s.ld.totalWeight > 0) ∨ !(ERat.lt (some tv) tmax) then pure s
      else do
        let node ← Gillespie.chooseTM Gillespie.encNode s.ld cfuel
        match applyEvent P s node tv with
        | none => TM.fail "KeyError"
        | some s' =>
          if s'.ld.totalWeight > 0 then do
            let d ← TM.popExpo s'.ld.totalWeight
            loop P tmax cfuel fuel s' (some (tv + d))
          else loop P tmax cfuel fuel s' none

def run (P : CCParams σ) (ic : Node → σ) (tmin : Rat) (tmax : ERat) (fuel cfuel : Nat) : TM (CCState σ) := do
  match init P ic tmin with
  | none => TM.fail "KeyError"
  | some s0 =>
    if s0.ld.totalWeight > 0 then do
      let d ← TM.popExpo s0.ld.totalWeight
      loop P tmax cfuel fuel s0 (some (tmin + d))
    else loop P tmax cfuel fuel s0 none

end Complex

/-! ### the model families driven by the harness -/
namespace ComplexFam

def nInf (nbrs : Node → List Node) (st : Node → St) (u : Node) : Nat := ((nbrs u).filter fun v => st v = St.I).length

/-- neighbours within two hops (excluding `u`), as the harness callback yields them: sorted by node index -/
def twoHop (nodes : List Node) (nbrs : Node → List Node) (u : Node) : List Node :=
  nodes.filter fun v => v ≠ u ∧ ((nbrs u).contains v || (nbrs u).any fun w => (nbrs w).contains v)

def rateOf (fam : String) (nodes : List Node) (nbrs : Node → List Node) (tau gamma : Rat) (k : Nat) (st : Node → St) (u : Node) : Rat :=
  match st u with
  | St.I => gamma
  | St.S =>
    let m := if fam = "twohop" then ((twoHop nodes nbrs u).filter fun v => st v = St.I).length else nInf nbrs st u
    if fam = "threshold" then (if m ≥ k then tau else 0) else tau * (m : Rat)
  | St.R => 0

def chooseOf (fam : String) (st : Node → St) (u : Node) : St :=
  match st u with
  | St.S => St.I
  | St.I => if fam = "sis" then St.S else St.R
  | St.R => St.R

def inflOf (fam : String) (nodes : List Node) (nbrs : Node → List Node) (u : Node) : List Node :=
  if fam = "twohop" then twoHop nodes nbrs u else nodes.filter fun v => (nbrs u).contains v

end ComplexFam

namespace ComplexFam
/-- family "sei": S → I → R where status `I` plays the role of *exposed* (not infectious) and `R` of *infectious*
(absorbing); its influence set depends on the changing node's own **new** status.  Other families as above. -/
def rateOf2 (fam : String) (nodes : List Node) (nbrs : Node → List Node) (tau gamma : Rat) (k : Nat) (st : Node → St) (u : Node) : Rat :=
  if fam = "sei" then
    match st u with
    | St.S => tau * (((nbrs u).filter fun v => st v = St.R).length : Rat)
    | St.I => gamma
    | St.R => 0
  else rateOf fam nodes nbrs tau gamma k st u

/-- `get_influence_set(G, node, status, parameters)` evaluated on the statuses it is given (the new ones) -/
def inflOf2 (fam : String) (nodes : List Node) (nbrs : Node → List Node) (st : Node → St) (u : Node) : List Node :=
  if fam = "sei" then (if st u = St.R then nodes.filter fun v => (nbrs u).contains v else [])
  else inflOf fam nodes nbrs u
end ComplexFam

namespace ComplexFam
/-- family "lazy": S → I → R with the usual rates, but the chooser moves a susceptible node only when at least `k`
neighbours are infectious; otherwise it answers the node's *current* status (a null event: the clock advances, a row
is reported, nothing changes).  Other families as `chooseOf`. -/
def chooseOf2 (fam : String) (nbrs : Node → List Node) (k : Nat) (st : Node → St) (u : Node) : St :=
  if fam = "lazy" then
    match st u with
    | St.S => if nInf nbrs st u ≥ k then St.I else St.S
    | St.I => St.R
    | St.R => St.R
  else chooseOf fam st u
end ComplexFam
