"""Generated-code stream for the degree-distribution helpers and the final-size / discrete-time EBCM functions
(harness/pyhelp2lean.py -> Gen/HelpersGen.lean, driver `driverhelp`): the Lean code regenerated from the source is run on
the same inputs as the Python functions.  The generated code computes in exact rationals, the implementation in floats:
values are compared to 1e-10 relative; iteration counts and degrees are kept small (exact iterates of a degree-d
polynomial map grow d-fold in size per iteration).  Used by C20 (`part="degree"`) and C08 (`part="final"`)."""
import json, os, subprocess, fcntl
from fractions import Fraction as F
import numpy as np, networkx as nx
import common, gen
from common import rs


def q(x):
    return rs(F(float(x)))


def close(a, b):
    a, b = float(a), float(b)
    return abs(a - b) <= 1e-10 * (1 + abs(a) + abs(b))


def nonfinite(v):
    if isinstance(v, dict):
        return any(nonfinite(x) for x in v.values())
    if isinstance(v, (list, tuple, np.ndarray)):
        return any(nonfinite(x) for x in v)
    try:
        return not np.isfinite(float(v))
    except (TypeError, ValueError):
        return False


def attempt(f):
    """a division by zero is one outcome class: Python floats raise ZeroDivisionError, NumPy scalars (what the PGF
    lambdas return) give inf / nan with a RuntimeWarning — the generated code has the checked division throughout"""
    try:
        try:
            with np.errstate(divide="raise", invalid="raise"):
                v = f()
        except FloatingPointError:          # NumPy's division by zero (nan ** 0 == 1 could otherwise absorb it)
            return dict(ok=False, err="ZeroDivisionError", nonfinite=True)
        if nonfinite(v):
            return dict(ok=False, err="ZeroDivisionError", nonfinite=True)
        return dict(ok=True, val=v)
    except Exception as e:
        return dict(ok=False, err=type(e).__name__)


def small_graph(r):
    kind = r.choice(["gnp", "gnp", "matching", "isolated", "star", "path", "empty", "single-edge", "regular"])
    n = r.randint(1, 7)
    if kind == "gnp":
        G = nx.gnp_random_graph(n, r.choice([0.3, 0.5, 0.8]), seed=r.randrange(10 ** 6))
    elif kind == "matching":
        G = nx.Graph(); G.add_nodes_from(range(2 * n)); G.add_edges_from((2 * i, 2 * i + 1) for i in range(n))
    elif kind == "isolated":
        G = nx.gnp_random_graph(n, 0.5, seed=r.randrange(10 ** 6)); G.add_nodes_from(range(n, n + r.randint(1, 3)))
    elif kind == "star":
        G = nx.star_graph(n)
    elif kind == "path":
        G = nx.path_graph(n)
    elif kind == "empty":
        G = nx.empty_graph(r.randint(0, 3))
    elif kind == "single-edge":
        G = nx.path_graph(2)
    else:
        G = nx.cycle_graph(max(3, n))
    return G, kind


def run_stream(ctx, part):
    import pyhelp2lean, EoN, EoN.analytic as an
    lean = common.LEAN
    os.makedirs(os.path.join(lean, ".audit"), exist_ok=True)
    with open(os.path.join(lean, ".audit", "genhelp.lock"), "w") as lock:
        fcntl.flock(lock, fcntl.LOCK_EX)
        try:
            _, errors = pyhelp2lean.regenerate()
        except Exception as e:
            errors = {"translator": "crashed: %r" % e}
        own = {"degree": ["get_Pk", "get_PGF", "get_PGFPrime", "get_PGFDPrime", "get_Pnk", "estimate_R0"],
               "final": ["Epi_Prob_discrete", "Attack_rate_discrete", "Attack_rate_cts_time", "EBCM_discrete", "EBCM_discrete_uniform_introduction",
                         "get_PGF", "get_PGFPrime"]}[part]
        mine = {k: v for k, v in errors.items() if k in own or k == "translator"}
        if mine:
            ctx.disagreement("generated-helpers:translation", dict(entry="helpers", errors=mine))
            return
        if errors:
            return          # a function another property owns left the subset: the file was not regenerated; that property reports it
        p = common.lake(["build", "driverhelp"])
    if p.returncode != 0:
        ctx.disagreement("generated-helpers:build", dict(entry="helpers", log="\n".join(
            l for l in (p.stdout + p.stderr).splitlines() if "error" in l)[:1500]))
        return
    r = ctx.rng
    reqs, metas = [], []
    xs = [F(0), F(1, 4), F(1, 2), F(1), F(3, 2)]
    if part == "degree":
        for _ in range(ctx.scale(150, 1000)):
            G, kind = small_graph(r)
            nodes = list(G)
            nbrdegs = [[G.degree(v) for v in G.neighbors(u)] for u in nodes]
            rep = dict(entry="degree helpers", stream="generated-model", kind=kind, n=G.order(), edges=[list(e) for e in G.edges()])

            def impl():
                Pk = an.get_Pk(G)
                psi, psiP, psiDP = an.get_PGF(Pk), an.get_PGFPrime(Pk), an.get_PGFDPrime(Pk)
                Pnk = an.get_Pnk(G)
                return dict(Pk=dict(Pk), psi=[psi(float(x)) for x in xs], psiP=[psiP(float(x)) for x in xs], psiDP=[psiDP(float(x)) for x in xs],
                            Pnk={k1: dict(row) for k1, row in Pnk.items()})
            reqs.append(dict(op="degree", nbrdegs=nbrdegs, xs=[rs(x) for x in xs]))
            metas.append((rep, "degree", attempt(impl)))
            tau, gamma = r.choice([F(1, 2), F(1), F(2)]), r.choice([F(0), F(1, 2), F(1)])
            mode = r.choice(["rates", "T", "none"])
            kw = dict(tau=float(tau), gamma=float(gamma)) if mode == "rates" else (dict(transmissibility=0.25) if mode == "T" else dict(tau=float(tau)))
            reqs.append(dict(op="R0", degs=[G.degree(u) for u in nodes], tau=rs(tau) if "tau" in kw else None, gamma=rs(gamma) if "gamma" in kw else None,
                             T="1/4" if mode == "T" else None))
            metas.append((dict(rep, entry="estimate_R0", mode=mode), "value", attempt(lambda: EoN.estimate_R0(G, **kw))))
            ctx.count("generated-model:degree:" + kind)
        for Pk in ({0: 1.0}, {1: 1.0}, {0: 0.25, 1: 0.75}, {2: 0.5, 5: 0.5}, {3: 1.0}, {}, {0: 0.5, 4: 0.5}):
            def impl2(Pk=Pk):
                psi, psiP, psiDP = an.get_PGF(Pk), an.get_PGFPrime(Pk), an.get_PGFDPrime(Pk)
                return dict(psi=[psi(float(x)) for x in xs], psiP=[psiP(float(x)) for x in xs], psiDP=[psiDP(float(x)) for x in xs])
            reqs.append(dict(op="pgf", Pk=[[k, q(v)] for k, v in Pk.items()], xs=[rs(x) for x in xs]))
            metas.append((dict(entry="get_PGF family", stream="generated-model", Pk={str(k): v for k, v in Pk.items()}), "pgf", attempt(impl2)))
    else:
        for _ in range(ctx.scale(200, 1200)):
            G, kind = small_graph(r)
            if G.order() == 0 or max(dict(G.degree()).values(), default=0) > 4:
                continue
            Pk = an.get_Pk(G)
            pkw = [[k, q(v)] for k, v in Pk.items()]
            its = r.randint(0, 3)
            which = r.choice(["epi", "disc", "disc", "cts", "cts", "ebcm", "uniform"])
            rep = dict(entry=which, stream="generated-model", kind=kind, Pk={str(k): v for k, v in Pk.items()}, its=its)
            p_ = r.choice([F(1, 4), F(1, 2), F(3, 4), F(1)])
            tau, gamma = r.choice([F(1, 2), F(1), F(2)]), r.choice([F(1, 2), F(1)])
            style = r.choice(["none", "rho0", "rho", "Sk0", "Sk0+phi", "both"])
            rho = None if style in ("none", "Sk0", "Sk0+phi") else (0.0 if style == "rho0" else 0.25)
            Sk0 = ({k: r.choice([0.5, 0.75, 1.0]) for k in Pk} if style in ("Sk0", "Sk0+phi", "both") else None)
            phiS0 = r.choice([0.0, 0.5, 0.75]) if style == "Sk0+phi" else None
            phiR0 = r.choice([0.0, 0.25]) if style == "Sk0+phi" else 0
            common_kw = dict(rho=None if rho is None else q(rho), Sk0=None if Sk0 is None else [[k, q(v)] for k, v in Sk0.items()],
                             phiS0=None if phiS0 is None else q(phiS0), phiR0=q(phiR0), its=its)
            rep.update(style=style)
            if which == "epi":
                reqs.append(dict(op="epi_disc", Pk=pkw, p=rs(p_), its=its))
                metas.append((rep, "value", attempt(lambda: EoN.Epi_Prob_discrete(Pk, float(p_), number_its=its))))
            elif which == "disc":
                reqs.append(dict(common_kw, op="attack_disc", Pk=pkw, p=rs(p_)))
                metas.append((rep, "value", attempt(lambda: EoN.Attack_rate_discrete(Pk, float(p_), rho=rho, Sk0=Sk0, phiS0=phiS0, phiR0=phiR0, number_its=its))))
            elif which == "cts":
                reqs.append(dict(common_kw, op="attack_cts", Pk=pkw, tau=rs(tau), gamma=rs(gamma)))
                metas.append((rep, "value", attempt(lambda: EoN.Attack_rate_cts_time(Pk, float(tau), float(gamma), number_its=its, rho=rho, Sk0=Sk0,
                                                                                       phiS0=phiS0, phiR0=phiR0))))
            else:
                S0 = Sk0 or {k: 0.75 for k in Pk}
                c0 = {k: Pk[k] * S0[k] for k in Pk}
                c1 = {k - 1: k * Pk[k] * S0[k] for k in Pk if k > 0}
                f0 = lambda x: sum(c * x ** k for k, c in c0.items())
                f1 = lambda x: sum(c * x ** k for k, c in c1.items())
                N = float(G.order())
                tmin, tmax = r.choice([0, 0, 2]), None
                tmax = tmin + r.randint(0, 3)
                full = r.random() < 0.5
                if which == "ebcm":
                    ph, pr, R0 = r.choice([0.5, 0.75, 1.0]), r.choice([0.0, 0.25]), r.choice([0.0, 1.0])
                    reqs.append(dict(op="ebcm_disc", N=q(N), psihat=[[k, q(c)] for k, c in c0.items()], psihatPrime=[[k, q(c)] for k, c in c1.items()],
                                     p=rs(p_), phiS0=q(ph), phiR0=q(pr), R0=q(R0), tmin=tmin, tmax=tmax, full=full))
                    metas.append((rep, "series", attempt(lambda: EoN.EBCM_discrete(N, f0, f1, float(p_), ph, phiR0=pr, R0=R0, tmin=tmin, tmax=tmax,
                                                                                   return_full_data=full))))
                else:
                    rho_ = 0.25
                    reqs.append(dict(op="ebcm_uniform", N=q(N), psi=[[k, q(c)] for k, c in c0.items()], psiPrime=[[k, q(c)] for k, c in c1.items()],
                                     p=rs(p_), rho=q(rho_), tmax=tmax - tmin, full=full))
                    metas.append((rep, "series", attempt(lambda: EoN.EBCM_discrete_uniform_introduction(N, f0, f1, float(p_), rho_, tmax=tmax - tmin,
                                                                                                        return_full_data=full))))
            ctx.count("generated-model:final:" + which)
    exe = os.path.join(lean, ".lake", "build", "bin", "driverhelp")
    data = "\n".join(json.dumps(x, separators=(",", ":")) for x in reqs) + "\n"
    pr = subprocess.run([exe], input=data, capture_output=True, text=True)
    lines = pr.stdout.splitlines()
    if pr.returncode != 0 or len(lines) != len(reqs):
        raise RuntimeError("driverhelp crashed: " + pr.stderr[-1000:])
    for (rep, kind, out), line in zip(metas, lines):
        g = json.loads(line)
        ctx.traces += 1
        ctx.case(rep, nontrivial=bool(out["ok"]))
        d = None
        if out["ok"] != bool(g.get("ok")):
            d = "outcome: impl %s generated %s" % (out.get("err", "ok"), g.get("err", "ok"))
        elif not out["ok"]:
            if out["err"] != g.get("err") and not (out["err"] == "EoNError" and g.get("err") == "EoNError"):
                d = "exception: impl %s generated %s" % (out["err"], g.get("err"))
        elif kind == "value":
            v = out["val"]
            if not close(F(g["value"]), v):
                d = "value: impl %r generated %s" % (float(v), float(F(g["value"])))
        elif kind == "series":
            res = out["val"]
            if len(res) != len(g["out"]) or any(len(a) != len(b) or any(not close(F(x), y) for x, y in zip(a, b)) for a, b in zip(g["out"], res)):
                d = "series differ"
        elif kind in ("degree", "pgf"):
            v = out["val"]
            for nm in ("psi", "psiP", "psiDP"):
                if any(not close(F(a), b) for a, b in zip(g[nm], v[nm])):
                    d = nm + " values differ: impl %s generated %s" % (v[nm], [float(F(a)) for a in g[nm]])
            if kind == "degree" and d is None:
                gp = {k: F(x) for k, x in g["Pk"]}
                if list(gp) != list(v["Pk"]) or any(not close(gp[k], v["Pk"][k]) for k in gp):
                    d = "Pk differs"
                gn = {k1: {k2: F(x) for k2, x in row} for k1, row in g["Pnk"]}
                if d is None and (set(gn) != set(v["Pnk"]) or any(set(gn[a]) != set(v["Pnk"][a]) or any(not close(gn[a][b], v["Pnk"][a][b]) for b in gn[a]) for a in gn)):
                    d = "Pnk differs"
        if d:
            ctx.disagreement("generated-helpers:" + d[:200], dict(rep, generated={k: g.get(k) for k in ("value", "err")}))
