import Driver
import EoNVerif.Gen.PrefMixGen
open Lean Drv

/-! JSON-lines driver for the code GENERATED from `_dEBCM_pref_mix_` (Gen/PrefMixGen.lean). -/
namespace DrvGenPM

def getDict (j : Json) : Except String (List (Nat × Rat)) :=
  getList (fun e => do match ← getArr e with
    | [k, v] => pure ((← getNat k), (← getRat v))
    | _ => .error "bad dict entry") j

def getDDict (j : Json) : Except String (List (Nat × List (Nat × Rat))) :=
  getList (fun e => do match ← getArr e with
    | [k, v] => pure ((← getNat k), (← getDict v))
    | _ => .error "bad dict-of-dict entry") j

def run (j : Json) : Except String Json := do
  let X ← getList getRat (← fld j "X")
  let r := GenPM.dEBCM_pref_mix (Gen.V.ofList X) (← getRat (← fld j "rho")) (← getRat (← fld j "tau")) (← getRat (← fld j "gamma"))
    (← getDict (← fld j "Pk")) (← getDDict (← fld j "Pnk"))
  match r with
  | .ok v => pure (Json.mkObj [("ok", Json.bool true), ("out", jArr jRat v.toList)])
  | .error e => pure (errObj e)

def handle (line : String) : String :=
  match Json.parse line with
  | .ok j => match run j with
    | .ok r => r.compress
    | .error e => (errObj ("driverpm:" ++ e)).compress
  | .error e => (errObj ("parse:" ++ e)).compress
end DrvGenPM
