import EoNVerif.Props.C04
import EoNVerif.Props.C11
import EoNVerif.Props.C13
import EoNVerif.Props.C04b
import EoNVerif.Props.C05b
/-!
C05 — requested initial conditions: the theorems `Gillespie.ic_gillespie` and
`Gillespie.recovered_never_infected` are stated and proved in `Props/C04.lean` (one development about the model output).
-/
