import EoNVerif.Proofs.GenPrefMix
import EoNVerif.Props.C06b
/-!
C07d — the Lean code GENERATED from `_dEBCM_pref_mix_` of `EoN/analytic.py` (`GenPM.dEBCM_pref_mix`, Gen/PrefMixGen.lean:
the right-hand side of the preferential-mixing EBCM model) for ALL inputs: exactly when it raises what, its value as the
hand-written model `ODE.ebcmPrefMix`, facts about the model carried over, and the composition with the generated entry
point `GenGlue2.EBCM_pref_mix`.  Lemmas: Proofs/GenPrefMix.lean.

State layout `X = [R, θ_{k_0}, φR_{k_0}, θ_{k_1}, φR_{k_1}, …]`, `k_0 < k_1 < …` = `sorted(Pk.keys())`.

Vocabulary (Proofs/GenPrefMix.lean): `RowsOK Pk Pnk` every key of `Pk` has a row in `Pnk`; `RowKeysOK Pk Pnk` every key of
a row `Pnk[k1]` (`k1` a key of `Pk`) is a key of `Pk`; `theta0 X Pk` = `theta[0]` as the code reads it (`= X[1]` for a
dict with the key 0: `theta0_eq`); `NoZeroPow X Pk Pnk` no row (of a key of `Pk`) has the key 0, or θ_0 ≠ 0;
`pmStatus X Pk Pnk` the first error of the `phiS/phiI` loop in iteration order (`k1` in `Pk.keys()` order: missing row →
KeyError; then `k2` in `Pnk[k1].keys()` order: `k2` not a key of `Pk` → KeyError, `k2 = 0` and θ_0 = 0 →
ZeroDivisionError); `pmResult` the returned array; `thetaF X ks d = X[1 + 2·idx_ks(d)]`, `phiRF X ks d = X[2 + 2·idx_ks(d)]`;
`PkF Pk d = Pk.get(d, 0)`, `PnkF Pnk d d' = Pnk.get(d, {}).get(d', 0)`.

Behaviour found (exact):
* only the indices `0, 1+2i, 2+2i` (`i < len(Pk)`) are read, so Python's negative-index wrap of `PyPM.vidx` never occurs;
  IndexError iff `len(X) < 1 + 2·len(Pk)`, before anything else.
* `S = (1−ρ) Σ Pk[k] θ_k^k` never raises.  The `phiS` loop raises the FIRST failing read; `Pnk[k1][0] * theta[0]**(-1)` is
  a ZeroDivisionError when θ_0 = 0 even if `Pnk[k1][0] = 0`.  Rows of `Pnk` for keys that `Pk` does not have are ignored.
* the code sums over `Pk.keys()` in insertion order and over the keys of a row only; the model sums over the sorted keys
  with `PnkF = 0` for absent entries and the exponent `d' − 1` in ℕ.  They agree for dicts (distinct keys) unless a row has
  a non-zero entry for degree 0 with θ_0 ≠ 1: there the code uses `θ_0^(−1)`, the model `θ_0^0 = 1` (counter-examples
  below).  A degree-0 node has no neighbour, so `Pnk[k][0] = 0` in every `Pnk` computed from a graph.
* the generated entry point stores `X[:, 1+2·index]` under BOTH `theta[k]` and `phiR[k]` (as the Python source does);
  `phiR` is not returned, so nothing observable depends on it.
-/
namespace GenPrefMixProps
open GenPMProofs

section
variable (X : Gen.V) (rho tau gamma : Rat) (Pk : List (Nat × Rat)) (Pnk : List (Nat × List (Nat × Rat)))

/-! ## 1. errors -/

/-- **all inputs, full precedence**: IndexError when the state is too short; otherwise the first failing read of the
`phiS` loop (`pmStatus`); otherwise the array `pmResult` -/
theorem gen_prefmix_closed_form :
    GenPM.dEBCM_pref_mix X rho tau gamma Pk Pnk =
      if X.n < 1 + 2 * Pk.length then .error "IndexError"
      else match pmStatus X Pk Pnk with
        | some e => .error e
        | none => .ok (pmResult X rho tau gamma Pk Pnk) := gen_eq X rho tau gamma Pk Pnk

/-- IndexError iff the state is shorter than `1 + 2·len(Pk)` (whatever `Pk`, `Pnk` are: it is raised first) -/
theorem gen_prefmix_indexError_iff :
    GenPM.dEBCM_pref_mix X rho tau gamma Pk Pnk = .error "IndexError" ↔ X.n < 1 + 2 * Pk.length := by
  rw [gen_eq]
  by_cases h : X.n < 1 + 2 * Pk.length
  · simp [h]
  · rw [if_neg h]
    rcases pmStatus_cases X Pk Pnk with hs | hs | hs <;> rw [hs] <;> simp [h]

/-- long enough state, every `Pk` key has a row, every row key is a key of `Pk`, no `0 ** (−1)`: no exception -/
theorem gen_prefmix_ok (hlen : 1 + 2 * Pk.length ≤ X.n) (hr : RowsOK Pk Pnk) (hk : RowKeysOK Pk Pnk)
    (hz : NoZeroPow X Pk Pnk) :
    GenPM.dEBCM_pref_mix X rho tau gamma Pk Pnk = .ok (pmResult X rho tau gamma Pk Pnk) := by
  rw [gen_eq, if_neg (by omega), (pmStatus_none_iff X Pk Pnk).2 ⟨hr, hk, hz⟩]

/-- **exactly when nothing is raised** -/
theorem gen_prefmix_ok_iff :
    (∃ r, GenPM.dEBCM_pref_mix X rho tau gamma Pk Pnk = .ok r) ↔
      (1 + 2 * Pk.length ≤ X.n ∧ RowsOK Pk Pnk ∧ RowKeysOK Pk Pnk ∧ NoZeroPow X Pk Pnk) := by
  constructor
  · rintro ⟨r, h⟩
    rw [gen_eq] at h
    by_cases hl : X.n < 1 + 2 * Pk.length
    · rw [if_pos hl] at h; cases h
    · rw [if_neg hl] at h
      cases hs : pmStatus X Pk Pnk with
      | some e => rw [hs] at h; cases h
      | none => exact ⟨by omega, (pmStatus_none_iff X Pk Pnk).1 hs⟩
  · rintro ⟨hl, hr, hk, hz⟩
    exact ⟨_, gen_prefmix_ok X rho tau gamma Pk Pnk hl hr hk hz⟩

/-- a missing row or a foreign row key alone (no zero power anywhere): KeyError -/
theorem gen_prefmix_keyError (hlen : 1 + 2 * Pk.length ≤ X.n) (hbad : ¬ (RowsOK Pk Pnk ∧ RowKeysOK Pk Pnk))
    (hz : NoZeroPow X Pk Pnk) :
    GenPM.dEBCM_pref_mix X rho tau gamma Pk Pnk = .error "KeyError" := by
  rw [gen_eq, if_neg (by omega), pmStatus_key X Pk Pnk hbad hz]

/-- a row with the key 0 while θ_0 = 0 alone (all rows present, all row keys known): ZeroDivisionError -/
theorem gen_prefmix_zeroDivisionError (hlen : 1 + 2 * Pk.length ≤ X.n) (hr : RowsOK Pk Pnk) (hk : RowKeysOK Pk Pnk)
    (hz : ¬ NoZeroPow X Pk Pnk) :
    GenPM.dEBCM_pref_mix X rho tau gamma Pk Pnk = .error "ZeroDivisionError" := by
  rw [gen_eq, if_neg (by omega), pmStatus_zero X Pk Pnk hr hk hz]

/-- **what an exception means**: the only exceptions are IndexError (iff too short), KeyError (then a row is missing or a
row key is foreign), ZeroDivisionError (then some row has the key 0 and θ_0 = 0).  When both defects are present the first
failing read in loop order decides (`gen_prefmix_closed_form`; both orders occur, examples below) -/
theorem gen_prefmix_error (e : String) (h : GenPM.dEBCM_pref_mix X rho tau gamma Pk Pnk = .error e) :
    (e = "IndexError" ∧ X.n < 1 + 2 * Pk.length) ∨
    (e = "KeyError" ∧ 1 + 2 * Pk.length ≤ X.n ∧ ¬ (RowsOK Pk Pnk ∧ RowKeysOK Pk Pnk)) ∨
    (e = "ZeroDivisionError" ∧ 1 + 2 * Pk.length ≤ X.n ∧ ¬ NoZeroPow X Pk Pnk) := by
  rw [gen_eq] at h
  by_cases hl : X.n < 1 + 2 * Pk.length
  · rw [if_pos hl] at h
    left; cases h; exact ⟨rfl, hl⟩
  · rw [if_neg hl] at h
    right
    by_cases h1 : RowsOK Pk Pnk ∧ RowKeysOK Pk Pnk
    · by_cases h2 : NoZeroPow X Pk Pnk
      · rw [(pmStatus_none_iff X Pk Pnk).2 ⟨h1.1, h1.2, h2⟩] at h; cases h
      · rw [pmStatus_zero X Pk Pnk h1.1 h1.2 h2] at h
        right; cases h; exact ⟨rfl, by omega, h2⟩
    · by_cases h2 : NoZeroPow X Pk Pnk
      · rw [pmStatus_key X Pk Pnk h1 h2] at h
        left; cases h; exact ⟨rfl, by omega, h1⟩
      · rcases pmStatus_cases X Pk Pnk with hs | hs | hs
        · exact absurd ((pmStatus_none_iff X Pk Pnk).1 hs).2.2 h2
        · rw [hs] at h; left; cases h; exact ⟨rfl, by omega, h1⟩
        · rw [hs] at h; right; cases h; exact ⟨rfl, by omega, h2⟩

/-- for a dict `Pk` with the key 0, the `theta[0]` of `NoZeroPow` is `X[1]` (0 is the first sorted key) -/
theorem gen_prefmix_theta0 (hn : (Pk.map (·.1)).Nodup) (h0 : 0 ∈ Pk.map (·.1)) : theta0 X Pk = X.f 1 :=
  theta0_eq X Pk hn h0

/-- the reads `X[0]`, `X[1+2i]`, `X[2+2i]` of the generated code have non-negative indices: `PyPM.vidx` never takes its
negative-index branch -/
theorem gen_prefmix_reads (i : Nat) :
    PyPM.vidx X (0 : Int) = (if 0 < X.n then .ok (X.f 0) else .error "IndexError") ∧
    PyPM.vidx X ((1 : Int) + (2 : Int) * ((i : Nat) : Int)) = (if 1 + 2 * i < X.n then .ok (X.f (1 + 2 * i)) else .error "IndexError") ∧
    PyPM.vidx X ((2 : Int) + (2 : Int) * ((i : Nat) : Int)) = (if 2 + 2 * i < X.n then .ok (X.f (2 + 2 * i)) else .error "IndexError") :=
  ⟨vidx_zero X, vidx_odd X i, vidx_even X i⟩

/-! ## 2. value -/

/-- **generated = model**: for dicts (`hn`, `hrn`: distinct keys) under the success conditions, and when no row has a
non-zero entry for degree 0 unless θ_0 = 1 (`hz`: there Python's `θ_0 ** (−1)` and the model's `θ_0 ^ (0 − 1) = 1` differ), the
returned array has length `1 + 2·|ks|`, entry 0 is the model's dR, entries `1+2i`, `2+2i` are the model's dθ_d, dφR_d for
the `i`-th sorted key `d` -/
theorem gen_prefmix_eq_model (hlen : 1 + 2 * Pk.length ≤ X.n) (hr : RowsOK Pk Pnk) (hk : RowKeysOK Pk Pnk)
    (hzp : NoZeroPow X Pk Pnk) (hn : (Pk.map (·.1)).Nodup)
    (hrn : ∀ k1 ∈ Pk.map (·.1), ((alGet Pnk [] k1).map (·.1)).Nodup)
    (hz : ∀ k1 ∈ Pk.map (·.1), PnkF Pnk k1 0 = 0 ∨ thetaF X (PyGlue2.sortNat (Pk.map (·.1))) 0 = 1) :
    let ks := PyGlue2.sortNat (Pk.map (·.1))
    let m := ODE.ebcmPrefMix ks rho tau gamma (PkF Pk) (PnkF Pnk) (X.f 0) (thetaF X ks) (phiRF X ks)
    ∃ r, GenPM.dEBCM_pref_mix X rho tau gamma Pk Pnk = .ok r ∧ r.n = 1 + 2 * ks.length ∧ r.f 0 = m.1 ∧
      ∀ i (h : i < ks.length), r.f (1 + 2 * i) = m.2.1 ks[i] ∧ r.f (2 + 2 * i) = m.2.2 ks[i] := by
  intro ks m
  refine ⟨_, gen_prefmix_ok X rho tau gamma Pk Pnk hlen hr hk hzp, pmResult_n X rho tau gamma Pk Pnk, ?_, ?_⟩
  · rw [pmResult_f0, sSum_eq X Pk hn]
    rfl
  · intro i h
    have hmem : ks[i] ∈ Pk.map (·.1) := (mem_sortNat _ _).1 (List.getElem_mem h)
    have := pmResult_f X rho tau gamma Pk Pnk i h
    have e := phiIval_eq X rho Pk Pnk hn ks[i] hmem (hrn _ hmem) (hk _ hmem) (hz _ hmem)
    simp only at this e
    rw [e] at this
    exact this

/-! ## 3. facts about the model carried over to the generated code -/

/-- `tau = 0`: every dθ_k returned by the generated code is 0 (cf. `ODE.tau0_ebcmPrefMix`); no dict hypothesis needed -/
theorem gen_prefmix_tau0 (hlen : 1 + 2 * Pk.length ≤ X.n) (hr : RowsOK Pk Pnk) (hk : RowKeysOK Pk Pnk)
    (hzp : NoZeroPow X Pk Pnk) :
    ∃ r, GenPM.dEBCM_pref_mix X rho 0 gamma Pk Pnk = .ok r ∧ ∀ i, i < Pk.length → r.f (1 + 2 * i) = 0 := by
  refine ⟨_, gen_prefmix_ok X rho 0 gamma Pk Pnk hlen hr hk hzp, ?_⟩
  intro i hi
  have hi' : i < (PyGlue2.sortNat (Pk.map (·.1))).length := by rw [sortNat_length, List.length_map]; exact hi
  have := (pmResult_f X rho 0 gamma Pk Pnk i hi').1
  rw [this]; ring

/-- `dφR_k = −(γ/τ)·dθ_k` for every degree class (τ ≠ 0): φR_k + (γ/τ)θ_k is a first integral of the generated system -/
theorem gen_prefmix_dphiR (htau : tau ≠ 0) (hlen : 1 + 2 * Pk.length ≤ X.n) (hr : RowsOK Pk Pnk)
    (hk : RowKeysOK Pk Pnk) (hzp : NoZeroPow X Pk Pnk) :
    ∃ r, GenPM.dEBCM_pref_mix X rho tau gamma Pk Pnk = .ok r ∧
      ∀ i, i < Pk.length → r.f (2 + 2 * i) = -(gamma / tau) * r.f (1 + 2 * i) := by
  refine ⟨_, gen_prefmix_ok X rho tau gamma Pk Pnk hlen hr hk hzp, ?_⟩
  intro i hi
  have hi' : i < (PyGlue2.sortNat (Pk.map (·.1))).length := by rw [sortNat_length, List.length_map]; exact hi
  have := pmResult_f X rho tau gamma Pk Pnk i hi'
  simp only at this
  rw [this.1, this.2]; field_simp

/-- the model reads `Pnk`, θ, φR at the degrees in `ks` only -/
theorem ebcmPrefMix_congr (ks : List Nat) (rho tau gamma : Rat) (P : Nat → Rat) (Q Q' : Nat → Nat → Rat) (R : Rat)
    (th th' ph ph' : Nat → Rat) (hQ : ∀ d ∈ ks, ∀ d' ∈ ks, Q d d' = Q' d d') (hth : ∀ d ∈ ks, th d = th' d)
    (hph : ∀ d ∈ ks, ph d = ph' d) :
    (ODE.ebcmPrefMix ks rho tau gamma P Q R th ph).1 = (ODE.ebcmPrefMix ks rho tau gamma P Q' R th' ph').1 ∧
    ∀ d ∈ ks, (ODE.ebcmPrefMix ks rho tau gamma P Q R th ph).2.1 d = (ODE.ebcmPrefMix ks rho tau gamma P Q' R th' ph').2.1 d ∧
      (ODE.ebcmPrefMix ks rho tau gamma P Q R th ph).2.2 d = (ODE.ebcmPrefMix ks rho tau gamma P Q' R th' ph').2.2 d := by
  dsimp only [ODE.ebcmPrefMix]
  have h1 : sumRat (ks.map fun d => P d * th d ^ d) = sumRat (ks.map fun d => P d * th' d ^ d) :=
    sumRat_map_congr _ _ _ (fun d hd => by rw [hth d hd])
  have h2 : ∀ d ∈ ks, sumRat (ks.map fun d' => Q d d' * th d' ^ (d' - 1)) = sumRat (ks.map fun d' => Q' d d' * th' d' ^ (d' - 1)) :=
    fun d hd => sumRat_map_congr _ _ _ (fun d' hd' => by rw [hth d' hd', hQ d hd d' hd'])
  refine ⟨by rw [h1], fun d hd => ?_⟩
  rw [h2 d hd, hth d hd, hph d hd]
  exact ⟨rfl, rfl⟩

/-- **uncorrelated mixing = EBCM** (`ODE.prefMix_uncorrelated` carried over): when `Pnk[k1][k2] = k2·Pk[k2]/⟨k⟩` for all
keys and the state is on the invariant subspace θ_k ≡ θ, φR_k ≡ γ(1−θ)/τ, the generated dθ_k is the same for every k and
equals the EBCM expression with ψ̂ = (1−ρ)ψ, φ_S(0) = 1−ρ, φ_R(0) = 0; dφR_k = −(γ/τ)dθ; N·dR is the EBCM dR -/
theorem gen_prefmix_uncorrelated (hlen : 1 + 2 * Pk.length ≤ X.n) (hr : RowsOK Pk Pnk) (hk : RowKeysOK Pk Pnk)
    (hzp : NoZeroPow X Pk Pnk) (hn : (Pk.map (·.1)).Nodup)
    (hrn : ∀ k1 ∈ Pk.map (·.1), ((alGet Pnk [] k1).map (·.1)).Nodup)
    (K : Nat) (hK : ∀ d ∈ Pk.map (·.1), d < K) (N theta : Rat)
    (ht : tau ≠ 0) (hN : N ≠ 0) (hrho : 1 - rho ≠ 0) (hmean : ODE.psiHP K (PkF Pk) 1 ≠ 0)
    (hunc : ∀ k1 ∈ Pk.map (·.1), ∀ k2 ∈ Pk.map (·.1), PnkF Pnk k1 k2 = (k2 : Rat) * PkF Pk k2 / ODE.psiHP K (PkF Pk) 1)
    (hstate : ∀ i, i < Pk.length → X.f (1 + 2 * i) = theta ∧ X.f (2 + 2 * i) = gamma * (1 - theta) / tau) :
    let e := ODE.ebcm K (fun k => (1 - rho) * PkF Pk k) N tau gamma (1 - rho) 0 theta (N * X.f 0)
    ∃ r, GenPM.dEBCM_pref_mix X rho tau gamma Pk Pnk = .ok r ∧ N * r.f 0 = e.2 ∧
      ∀ i, i < Pk.length → r.f (1 + 2 * i) = e.1 ∧ r.f (2 + 2 * i) = -(gamma / tau) * e.1 := by
  intro e
  have hksn : (PyGlue2.sortNat (Pk.map (·.1))).Nodup := (sortNat_nodup _).2 hn
  have hkl : (PyGlue2.sortNat (Pk.map (·.1))).length = Pk.length := by rw [sortNat_length, List.length_map]
  have hz : ∀ k1 ∈ Pk.map (·.1), PnkF Pnk k1 0 = 0 ∨ thetaF X (PyGlue2.sortNat (Pk.map (·.1))) 0 = 1 := by
    intro k1 hk1
    left
    by_cases h0 : 0 ∈ Pk.map (·.1)
    · rw [hunc k1 hk1 0 h0]; simp
    · exact GenHelpProofs.alGet_of_not_key _ 0 0 (fun h => h0 (hk k1 hk1 0 h))
  obtain ⟨r, hr1, _, hr0, hri⟩ := gen_prefmix_eq_model X rho tau gamma Pk Pnk hlen hr hk hzp hn hrn hz
  have hidx : ∀ d ∈ PyGlue2.sortNat (Pk.map (·.1)), (PyGlue2.sortNat (Pk.map (·.1))).idxOf d < Pk.length :=
    fun d hd => by rw [← hkl]; exact List.idxOf_lt_length_iff.2 hd
  have hc := ebcmPrefMix_congr (PyGlue2.sortNat (Pk.map (·.1))) rho tau gamma (PkF Pk) (PnkF Pnk)
    (fun _ d' => (d' : Rat) * PkF Pk d' / ODE.psiHP K (PkF Pk) 1) (X.f 0)
    (thetaF X (PyGlue2.sortNat (Pk.map (·.1)))) (fun _ => theta)
    (phiRF X (PyGlue2.sortNat (Pk.map (·.1)))) (fun _ => gamma * (1 - theta) / tau)
    (fun d hd d' hd' => hunc d ((mem_sortNat _ _).1 hd) d' ((mem_sortNat _ _).1 hd'))
    (fun d hd => (hstate _ (hidx d hd)).1) (fun d hd => (hstate _ (hidx d hd)).2)
  have hu := fun d hd => ODE.prefMix_uncorrelated (PyGlue2.sortNat (Pk.map (·.1))) hksn K
    (fun d hd => hK d ((mem_sortNat _ _).1 hd)) rho tau gamma N (PkF Pk)
    (fun d hd => GenHelpProofs.alGet_of_not_key _ 0 d (fun h => hd ((mem_sortNat _ _).2 h))) ht hN hrho hmean theta (X.f 0) d hd
  simp only at hu hr0 hri
  refine ⟨r, hr1, ?_, ?_⟩
  · cases hks : PyGlue2.sortNat (Pk.map (·.1)) with
    | nil =>
      rw [hr0, hks]
      simp only [e, ODE.ebcmPrefMix, ODE.ebcm, List.map_nil, sumRat_nil]
      have hP : ∀ k, PkF Pk k = 0 := fun k => GenHelpProofs.alGet_of_not_key _ 0 k (fun h => by
        have := (mem_sortNat _ _).2 h
        rw [hks] at this; simp at this)
      have : ODE.psiH K (fun k => (1 - rho) * PkF Pk k) theta = 0 := by
        unfold ODE.psiH
        rw [ODE.sumTo_congr K _ (fun _ => 0) (fun k _ => by simp [hP k])]
        exact ODE.sumTo_const_zero K
      rw [this]; ring
    | cons d t =>
      have hd : d ∈ PyGlue2.sortNat (Pk.map (·.1)) := by rw [hks]; simp
      rw [hr0, hc.1]
      exact (hu d hd).2.2
  · intro i hi
    have hi' : i < (PyGlue2.sortNat (Pk.map (·.1))).length := by rw [hkl]; exact hi
    have hd := List.getElem_mem hi'
    rw [(hri i hi').1, (hri i hi').2, (hc.2 _ hd).1, (hc.2 _ hd).2]
    exact ⟨(hu _ hd).1, (hu _ hd).2.1⟩
end

/-! ## 4. composed with the generated entry point -/
open Gen PyGlue PyGlue2 GenGlue2Proofs GenPMGlue
open GenGlueProofs (Solver RowZero linspace_zero)

/-- **`EBCM_pref_mix`, any right-hand side, `rho` given**: never raises; `X0 = [0, 1, 0, 1, 0, …]` of length
`1 + 2·len(Pk)`; `S + I + R = N` at every time index for every solver; with `RowZero odeint`,
`S(0) = N(1−ρ)·Σ_k Pk[k]`, `R(0) = 0`, `I(0) = N − S(0)` -/
theorem EBCM_pref_mix_spec (odeint myodeint : Solver)
    (rhs : Rat → Rat → Rat → List (Nat × Rat) → List (Nat × List (Nat × Rat)) → V → V) (N : Rat)
    (Pk : List (Nat × Rat)) (Pnk : List (Nat × List (Nat × Rat))) (tau gamma r tmin tmax : Rat) (tcount : Nat) (full : Bool) :
    ∃ x0 l, GenGlue2.EBCM_pref_mix odeint myodeint rhs N Pk Pnk tau gamma (some r) tmin tmax tcount full = .ok (x0, l) ∧
      x0.n = 1 + 2 * Pk.length ∧ l.length = (if full then 5 else 4) ∧
      (∀ i, get l 1 i + get l 2 i + get l 3 i = N) ∧
      (RowZero odeint →
        get l 1 0 = N * ((1 - r) * sumRat ((Pk.map (·.1)).map fun k => alGet Pk 0 k)) ∧ get l 3 0 = 0 ∧
        get l 2 0 = N - N * ((1 - r) * sumRat ((Pk.map (·.1)).map fun k => alGet Pk 0 k))) := by
  refine ⟨_, _, EBCM_pref_mix_call odeint myodeint rhs N Pk Pnk tau gamma r tmin tmax tcount full, ?_, ?_, ?_, ?_⟩
  · show (pmIC _).length = _
    rw [pmIC_length, GenPMProofs.sortNat_length, List.length_map]
  · cases full <;> rfl
  · intro i
    cases full <;> simp [outPM, GenGlue2Proofs.get] <;> ring
  · intro h0
    have hs : sumRat (((Pk.map (·.1)).map (fun k => fun i =>
        dGetD Pk 0 k * dGetD (pmTheta (odeint (fun st => rhs r tau gamma Pk Pnk st) (V.ofList (pmIC (sortNat (Pk.map (·.1))))))
          (sortNat (Pk.map (·.1)))).1 (fun _ => 1) k i ^ k)).map fun f => f 0)
        = sumRat ((Pk.map (·.1)).map fun k => alGet Pk 0 k) := by
      rw [List.map_map]
      apply sumRat_map_congr
      intro k _
      simp only [Function.comp]
      rw [pmTheta_one, dGetD_eq_alGet]
      · simp
      · intro j hj
        rw [h0]; exact pmIC_odd _ j hj
    cases full <;> simp only [outPM, GenGlue2Proofs.get, Bool.false_eq_true, if_false, if_true] <;>
      simp only [List.getElem?_cons_succ, List.getElem?_cons_zero, hs, h0 _ _, pmIC_zero] <;>
      refine ⟨trivial, by ring, by ring⟩

/-- the generated right-hand side made total (an exception becomes the empty array) -/
def genRhs (rho tau gamma : Rat) (Pk : List (Nat × Rat)) (Pnk : List (Nat × List (Nat × Rat))) (X : Gen.V) : Gen.V :=
  (GenPM.dEBCM_pref_mix X rho tau gamma Pk Pnk).toOption.getD PyGlue2.V0

/-- **composed**: the generated entry point run on the generated right-hand side conserves `S + I + R = N` at every time
index for every solver and starts (RowZero) from `S(0) = N(1−ρ)·Σ_k Pk[k]`, `R(0) = 0` -/
theorem gen_EBCM_pref_mix_composed (odeint myodeint : Solver) (N : Rat) (Pk : List (Nat × Rat))
    (Pnk : List (Nat × List (Nat × Rat))) (tau gamma r tmin tmax : Rat) (tcount : Nat) (full : Bool) :
    ∃ x0 l, GenGlue2.EBCM_pref_mix odeint myodeint genRhs N Pk Pnk tau gamma (some r) tmin tmax tcount full = .ok (x0, l) ∧
      x0.n = 1 + 2 * Pk.length ∧ l.length = (if full then 5 else 4) ∧
      (∀ i, get l 1 i + get l 2 i + get l 3 i = N) ∧
      (RowZero odeint →
        get l 1 0 = N * ((1 - r) * sumRat ((Pk.map (·.1)).map fun k => alGet Pk 0 k)) ∧ get l 3 0 = 0 ∧
        get l 2 0 = N - N * ((1 - r) * sumRat ((Pk.map (·.1)).map fun k => alGet Pk 0 k))) :=
  EBCM_pref_mix_spec odeint myodeint genRhs N Pk Pnk tau gamma r tmin tmax tcount full

/-- the state handed to the solver has exactly the length the generated right-hand side needs: no IndexError at `X0` -/
theorem gen_EBCM_pref_mix_X0_long (Pk : List (Nat × Rat)) :
    ¬ (V.ofList (pmIC (sortNat (Pk.map (·.1))))).n < 1 + 2 * Pk.length := by
  show ¬ (pmIC _).length < _
  rw [pmIC_length, GenPMProofs.sortNat_length, List.length_map]; omega

/-! ## 5. closed examples (kernel-checked) -/
section Examples
/-- run the generated function on lists -/
def runGen (X : List Rat) (rho tau gamma : Rat) (Pk : List (Nat × Rat)) (Pnk : List (Nat × List (Nat × Rat))) :
    Except String (List Rat) :=
  (GenPM.dEBCM_pref_mix (Gen.V.ofList X) rho tau gamma Pk Pnk).map Gen.V.toList
/-- the model on the same data: (dR, [dθ_d], [dφR_d]) over the sorted keys -/
def runModel (X : List Rat) (rho tau gamma : Rat) (Pk : List (Nat × Rat)) (Pnk : List (Nat × List (Nat × Rat))) :
    Rat × List Rat × List Rat :=
  let ks := PyGlue2.sortNat (Pk.map (·.1))
  let m := ODE.ebcmPrefMix ks rho tau gamma (PkF Pk) (PnkF Pnk) ((Gen.V.ofList X).f 0)
    (thetaF (Gen.V.ofList X) ks) (phiRF (Gen.V.ofList X) ks)
  (m.1, ks.map m.2.1, ks.map m.2.2)

def exPk : List (Nat × Rat) := [(3, 1/2), (1, 1/2)]
def exPnk : List (Nat × List (Nat × Rat)) := [(1, [(1, 1/4), (3, 3/4)]), (3, [(3, 1/2), (1, 1/2)])]

/-- two degree classes (keys inserted as 3, 1; state ordered by 1, 3): generated = model -/
example : runGen [1/10, 1/2, 1/5, 4/5, 1/10] (1/10) 2 1 exPk exPnk
    = .ok [2223/5000, 357/500, -357/1000, 19/250, -19/500] := by decide +kernel
example : runModel [1/10, 1/2, 1/5, 4/5, 1/10] (1/10) 2 1 exPk exPnk
    = (2223/5000, [357/500, 19/250], [-357/1000, -19/500]) := by decide +kernel
/-- a longer state is accepted (the tail is ignored); rows of `Pnk` for unknown degrees are ignored -/
example : runGen [0, 1/2, 0, 7, 7] (1/10) 2 1 [(1, 1)] [(1, [(1, 1)]), (7, [(9, 1)])] = .ok [11/20, 4/5, -2/5] := by
  decide +kernel
/-- `Pk = {}`: `[γ(1 − R)]` -/
example : runGen [5] (1/10) 2 1 [] [] = .ok [-4] := by decide +kernel

/-- IndexError: one entry short; empty state -/
example : runGen [0, 1/2, 0, 1/2] (1/10) 2 1 [(0, 1/2), (1, 1/2)] [(0, [(0, 1/2), (1, 1/2)]), (1, [(1, 1)])]
    = .error "IndexError" := by decide +kernel
example : runGen [] (1/10) 2 1 [] [] = .error "IndexError" := by decide +kernel
/-- IndexError comes first: the same short state with a missing row -/
example : runGen [0, 1/2, 0, 1/2] (1/10) 2 1 [(0, 1/2), (1, 1/2)] [] = .error "IndexError" := by decide +kernel
/-- KeyError: the row of degree 1 is missing; a row has the foreign key 2 -/
example : runGen [0, 1/2, 0, 1/2, 0] (1/10) 2 1 [(0, 1/2), (1, 1/2)] [(0, [(0, 1/2), (1, 1/2)])]
    = .error "KeyError" := by decide +kernel
example : runGen [0, 1/2, 0, 1/2, 0] (1/10) 2 1 [(0, 1/2), (1, 1/2)] [(0, [(0, 1/2), (1, 1/2)]), (1, [(2, 1)])]
    = .error "KeyError" := by decide +kernel
/-- ZeroDivisionError: a row has the key 0 and θ_0 = X[1] = 0 — even when that entry of `Pnk` is 0 -/
example : runGen [0, 0, 0, 1/2, 0] (1/10) 2 1 [(0, 1/2), (1, 1/2)] [(0, [(0, 1/2), (1, 1/2)]), (1, [(1, 1)])]
    = .error "ZeroDivisionError" := by decide +kernel
example : runGen [0, 0, 0, 1/2, 0] (1/10) 2 1 [(0, 1/2), (1, 1/2)] [(0, [(0, 0), (1, 1)]), (1, [(1, 1)])]
    = .error "ZeroDivisionError" := by decide +kernel
/-- both defects, precedence = order of the reads: key 0 before the foreign key 2 in the row, and after it; a missing row
of the first `Pk` key before the zero power in the row of the second -/
example : runGen [0, 0, 0, 1/2, 0] (1/10) 2 1 [(0, 1/2), (1, 1/2)] [(0, [(0, 1/2), (2, 1/2)]), (1, [(1, 1)])]
    = .error "ZeroDivisionError" := by decide +kernel
example : runGen [0, 0, 0, 1/2, 0] (1/10) 2 1 [(0, 1/2), (1, 1/2)] [(0, [(2, 1/2), (0, 1/2)]), (1, [(1, 1)])]
    = .error "KeyError" := by decide +kernel
example : runGen [0, 0, 0, 1/2, 0] (1/10) 2 1 [(1, 1/2), (0, 1/2)] [(0, [(0, 1/2)])] = .error "KeyError" := by
  decide +kernel

/-- **counter-example to `gen_prefmix_eq_model` without `hz`**: a row with a non-zero entry for degree 0 and θ_0 = 1/2:
the code computes `Pnk[0][0]·θ_0^(−1)`, the model `Pnk[0][0]·θ_0^0`; dθ_0 is 17/10 in the code and 4/5 in the model -/
example : runGen [0, 1/2, 0, 1/2, 0] (1/10) 2 1 [(0, 1/2), (1, 1/2)] [(0, [(0, 1/2), (1, 1/2)]), (1, [(1, 1)])]
      = .ok [13/40, 17/10, -17/20, 4/5, -2/5] ∧
    runModel [0, 1/2, 0, 1/2, 0] (1/10) 2 1 [(0, 1/2), (1, 1/2)] [(0, [(0, 1/2), (1, 1/2)]), (1, [(1, 1)])]
      = (13/40, [4/5, 4/5], [-2/5, -2/5]) := by decide +kernel
/-- **counter-example without `hrn`** (a row that lists a key twice — not a Python dict): the code adds the first value once
per occurrence, the model once -/
example : runGen [0, 1/2, 0] (1/10) 2 1 [(1, 1)] [(1, [(1, 1/2), (1, 1/2)])] = .ok [11/20, 4/5, -2/5] ∧
    runModel [0, 1/2, 0] (1/10) 2 1 [(1, 1)] [(1, [(1, 1/2), (1, 1/2)])] = (11/20, [-1/10], [1/20]) := by decide +kernel
/-- **counter-example without `hn`** (`Pk` lists a key twice): `theta[1]` is the LAST column written, `X[3]`, not `X[1]` -/
example : runGen [0, 1/2, 0, 1/4, 0] (1/10) 2 1 [(1, 1/2), (1, 1/2)] [(1, [(1, 1)])]
      = .ok [31/40, 13/10, -13/20, 13/10, -13/20] ∧
    runModel [0, 1/2, 0, 1/4, 0] (1/10) 2 1 [(1, 1/2), (1, 1/2)] [(1, [(1, 1)])]
      = (11/20, [13/5, 13/5], [-13/10, -13/10]) := by decide +kernel
/-- the hypotheses of `gen_prefmix_eq_model` hold for the first example (non-vacuity) -/
example : (1 + 2 * exPk.length ≤ (Gen.V.ofList [1/10, 1/2, 1/5, 4/5, 1/10]).n) ∧ RowsOK exPk exPnk ∧ RowKeysOK exPk exPnk ∧
    NoZeroPow (Gen.V.ofList [1/10, 1/2, 1/5, 4/5, 1/10]) exPk exPnk ∧ (exPk.map (·.1)).Nodup := by
  refine ⟨by decide, ?_, ?_, ?_, by decide⟩
  · intro k hk; simp [exPk] at hk; rcases hk with rfl | rfl <;> decide
  · intro k hk; simp [exPk] at hk; rcases hk with rfl | rfl <;> decide
  · intro k hk h0; simp [exPk] at hk; rcases hk with rfl | rfl <;> exact absurd h0 (by decide)

/-- one explicit Euler step of size 1 per time index (`RowZero`) -/
def eulerOdeint : Solver := fun rhs X0 i => (fun X => (⟨X.n, fun k => X.f k + (rhs X).f k⟩ : Gen.V))^[i] X0
example : RowZero eulerOdeint := fun _ _ => rfl
/-- the composition run: `X0 = [0,1,0,1,0]`; `(t, S, I, R)` at time indices 0 and 1; `S + I + R = 100` -/
example : rowAt (GenGlue2.EBCM_pref_mix eulerOdeint eulerOdeint genRhs 100 exPk exPnk (1/2) 1 (some (1/10)) 0 2 3 false) 0
    = .inr ([0, 1, 0, 1, 0], [[0], [90], [10], [0]]) := by decide +kernel
example : rowAt (GenGlue2.EBCM_pref_mix eulerOdeint eulerOdeint genRhs 100 exPk exPnk (1/2) 1 (some (1/10)) 0 2 3 false) 1
    = .inr ([0, 1, 0, 1, 0], [[1], [130131/1600], [13869/1600], [10]]) := by decide +kernel
end Examples
end GenPrefMixProps
