"""Exact enumeration of the implementation's law on small inputs.

`random.random()` returns a *symbolic uniform* (a float subclass carrying a*u+b and the interval u is known to lie
in); every comparison forks the run into its two outcomes with rational probabilities, `choice` forks n ways, and a
DFS over decision prefixes re-runs the real function once per leaf.  Rejection loops make the tree infinite, so runs
are cut at decision depth `maxdepth`; the cut mass is reported under the key ABORT and comparisons against a spec
use the sound interval  P_d(o) <= P_spec(o) <= P_d(o) + cut.   Bounded exploration: supports the model/code tie
and the failing-input search, never counted as a theorem.
"""
from fractions import Fraction as F

ABORT = "ABORT"


class Abort(Exception):
    pass


def snap(x):
    """float computed from small rationals -> that rational"""
    if isinstance(x, F):
        return x
    if isinstance(x, int):
        return F(x)
    f = F(float(x))
    g = f.limit_denominator(10 ** 6)
    return g if abs(f - g) < F(1, 10 ** 12) else f


class Budget(Exception):
    """the enumeration exceeded the harness's own leaf budget — says nothing about the code under test"""


class Foreign(BaseException):
    """the code under enumeration asked numpy.random for a draw: the symbolic engine only controls the module-level
    `random`, so the law cannot be enumerated (no verdict; reported as a broken correspondence, never as a violation)"""


FOREIGN = "__foreign_randomness__"
foreign_events = []          # (attribute name) of every np.random access seen during an enumeration


class _GuardNpRandom:
    def __getattr__(self, name):
        foreign_events.append(name)
        raise Foreign(name)


class _GuardNp:
    def __init__(self, real):
        self._real = real
        self.random = _GuardNpRandom()

    def __getattr__(self, name):
        return getattr(self._real, name)


class Explorer:
    def __init__(self, maxdepth, maxleaves=200000):
        self.maxdepth, self.maxleaves = maxdepth, maxleaves

    def run(self, fn):
        """enumerate `fn` with numpy.random shielded (see `Foreign`)"""
        import sys
        sim = sys.modules.get("EoN.simulation")
        old = getattr(sim, "np", None) if sim is not None else None
        if old is not None:
            sim.np = _GuardNp(old)
        try:
            return self._run(fn)
        except Foreign:
            return {FOREIGN: F(1)}
        finally:
            if old is not None:
                sim.np = old

    def decide(self, probs):
        if len(self.trail) >= self.maxdepth:
            raise Abort()
        i = len(self.trail)
        if i < len(self.prefix):
            b = self.prefix[i]
        else:
            b = next(j for j, p in enumerate(probs) if p > 0)
        self.prob *= probs[b]
        self.trail.append((b, probs))
        return b

    def _run(self, fn):
        """fn(explorer) -> hashable outcome.  returns dict outcome -> probability (ABORT = cut mass)"""
        agg = {}
        self.prefix = []
        leaves = 0
        while True:
            self.prob = F(1)
            self.trail = []
            try:
                out = fn(self)
            except Abort:
                out = ABORT
            agg[out] = agg.get(out, F(0)) + self.prob
            leaves += 1
            if leaves > self.maxleaves:
                raise Budget("too many leaves")
            tr = self.trail
            nxt = None
            while tr:
                b, probs = tr[-1]
                nb = next((j for j in range(b + 1, len(probs)) if probs[j] > 0), None)
                if nb is not None:
                    nxt = [x for x, _ in tr[:-1]] + [nb]
                    break
                tr = tr[:-1]
            if nxt is None:
                return agg
            self.prefix = nxt


class SymU(float):
    """a*u + b with u uniform on box=[lo,hi) (conditioned so far)"""

    def __new__(cls, ex, a=F(1), b=F(0), box=None):
        o = float.__new__(cls, 0.5)
        o.ex, o.a, o.b = ex, a, b
        o.box = box if box is not None else [F(0), F(1)]
        return o

    def __mul__(self, c):
        c = snap(c)
        return SymU(self.ex, self.a * c, self.b * c, self.box)

    __rmul__ = __mul__

    def __sub__(self, c):
        return SymU(self.ex, self.a, self.b - snap(c), self.box)

    def __add__(self, c):
        return SymU(self.ex, self.a, self.b + snap(c), self.box)

    __radd__ = __add__

    def __truediv__(self, c):
        c = snap(c)
        return SymU(self.ex, self.a / c, self.b / c, self.box)

    def _lt(self, c, strict=True):
        # P(a*u+b < c)
        c = snap(c)
        if self.a == 0:
            return self.b < c if strict else self.b <= c
        thr = (c - self.b) / self.a
        lo, hi = self.box
        if self.a > 0:
            if thr <= lo:
                return False
            if thr >= hi:
                return True
            p = (thr - lo) / (hi - lo)
            if self.ex.decide([p, 1 - p]) == 0:
                self.box[1] = thr
                return True
            self.box[0] = thr
            return False
        else:
            # a<0: a*u+b<c  <=> u > thr
            if thr >= hi:
                return False
            if thr <= lo:
                return True
            p = (hi - thr) / (hi - lo)
            if self.ex.decide([p, 1 - p]) == 0:
                self.box[0] = thr
                return True
            self.box[1] = thr
            return False

    def __lt__(self, c):
        return self._lt(c)

    def __le__(self, c):
        return self._lt(c, False)

    def __gt__(self, c):
        return not self._lt(c, False)

    def __ge__(self, c):
        return not self._lt(c)


class SymRandom:
    """module-level `random` stand-in for enumeration; expovariate returns `dt` and logs the rate"""

    def __init__(self, ex, dt=1.0):
        self.ex, self.dt = ex, dt
        self.rates = []

    def random(self):
        return SymU(self.ex)

    def expovariate(self, rate):
        if rate == 0:
            raise ZeroDivisionError
        self.rates.append(snap(rate))
        return self.dt

    def choice(self, seq):
        n = len(seq)
        if n == 0:
            raise IndexError("Cannot choose from an empty sequence")
        return seq[self.ex.decide([F(1, n)] * n)]

    def sample(self, population, k):
        pop = list(population)
        out = []
        for _ in range(k):
            n = len(pop)
            out.append(pop.pop(self.ex.decide([F(1, n)] * n)))
        return out


def interval_ok(agg, spec, tol=F(0)):
    """sound comparison: for every outcome o, agg[o] <= spec[o] <= agg[o] + cut.  returns list of offending outcomes"""
    if FOREIGN in agg:
        return []            # not enumerable: no verdict (Ctx.finish reports the broken correspondence)
    cut = agg.get(ABORT, F(0))
    bad = []
    keys = set(k for k in agg if k != ABORT) | set(spec)
    for k in keys:
        p = agg.get(k, F(0))
        s = spec.get(k, F(0))
        if not (p - tol <= s <= p + cut + tol):
            bad.append((k, p, s, cut))
    return bad
