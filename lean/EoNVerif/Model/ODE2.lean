import EoNVerif.Model.ODE
/-!
Right-hand sides of the array-valued ODE models of `EoN.analytic`, as coded: heterogeneous pairwise (2673–2795),
effective degree (3883–3994), pair-based (938–1113) and preferential-mixing EBCM (5344–5365).
Matrices are functions `Nat → Nat → Rat` used on `0..K-1` (degree classes; `Ks k` is the degree of class `k`) or on
node indices.  The code's "replace a zero denominator by 1" tricks are modelled literally (`nz`).
-/
namespace ODE

/-- `x[x==0] = 1` -/
def nz (x : Rat) : Rat := if x = 0 then 1 else x

/-! ### heterogeneous pairwise -/
/-- `_dSIS_heterogeneous_pairwise_`: state (S_k, [S_kS_l], [S_kI_l]); returns (dS_k, d[S_kS_l], d[S_kI_l]) -/
def sisHetPW (K : Nat) (tau gamma : Rat) (Ks Nk : Nat → Rat) (NkNl : Nat → Nat → Rat)
    (S : Nat → Rat) (SS SI : Nat → Nat → Rat) : (Nat → Rat) × (Nat → Nat → Rat) × (Nat → Nat → Rat) :=
  let I := fun k => Nk k - S k
  let SkI := fun k => sumTo K (fun l => SI k l)
  let II := fun k l => NkNl k l - SS k l - SI k l - SI l k
  let SSI := fun k l => SS k l * (Ks l - 1) * SkI l / nz (Ks l * S l)
  let ISI := fun k l => SkI k * (Ks k - 1) * SI k l / nz (Ks k * S k)
  (fun k => gamma * I k - tau * SkI k,
   fun k l => gamma * (SI k l + SI l k) - tau * (SSI k l + SSI l k),
   fun k l => gamma * (II k l - SI k l) + tau * (SSI k l - ISI k l - SI k l))

/-- `_dSIR_heterogeneous_pairwise_`: state (S_k, I_k, [S_kS_l], [S_kI_l]) -/
def sirHetPW (K : Nat) (tau gamma : Rat) (Ks : Nat → Rat)
    (S I : Nat → Rat) (SS SI : Nat → Nat → Rat) : (Nat → Rat) × (Nat → Rat) × (Nat → Nat → Rat) × (Nat → Nat → Rat) :=
  let SkI := fun k => sumTo K (fun l => SI k l)
  let SSI := fun k l => SS k l * (Ks l - 1) * SkI l / (nz (Ks l) * nz (S l))
  let ISI := fun k l => SkI k * (Ks k - 1) * SI k l / (nz (Ks k) * nz (S k))
  (fun k => -tau * SkI k,
   fun k => tau * SkI k - gamma * I k,
   fun k l => -tau * (SSI k l + SSI l k),
   fun k l => -gamma * SI k l + tau * (SSI k l - ISI k l - SI k l))

/-! ### effective degree: arrays indexed by (s, i) with 0 ≤ s < A, 0 ≤ i < B -/
def sum2 (A B : Nat) (f : Nat → Nat → Rat) : Rat := sumTo A (fun s => sumTo B (fun i => f s i))

/-- `_dSIS_effective_degree_` (after the 0/0 repair): state (S_{s,i}, I_{s,i}) -/
def sisEffDeg (A B : Nat) (tau gamma : Rat) (Ssi Isi : Nat → Nat → Rat) : (Nat → Nat → Rat) × (Nat → Nat → Rat) :=
  let ISS := sum2 A B (fun s i => kf i * kf s * Ssi s i)
  let SS := sum2 A B (fun s i => kf s * Ssi s i)
  let ISI := sum2 A B (fun s i => kf i * (kf i - 1) * Ssi s i)
  let SIp := sum2 A B (fun s i => kf i * Ssi s i)
  let r1 := if SS = 0 then 0 else ISS / SS
  let r2 := if SIp = 0 then 0 else ISI / SIp
  let up := fun (X : Nat → Nat → Rat) s i => if s = 0 ∨ i + 1 = B then 0 else X (s - 1) (i + 1)      -- X[s-1,i+1]
  let dn := fun (X : Nat → Nat → Rat) s i => if i = 0 ∨ s + 1 = A then 0 else X (s + 1) (i - 1)      -- X[s+1,i-1]
  (fun s i => -tau * kf i * Ssi s i + gamma * Isi s i + gamma * ((kf i + 1) * up Ssi s i - kf i * Ssi s i)
              + tau * r1 * ((kf s + 1) * dn Ssi s i - kf s * Ssi s i),
   fun s i => tau * kf i * Ssi s i - gamma * Isi s i + gamma * ((kf i + 1) * up Isi s i - kf i * Isi s i)
              + tau * (r2 + 1) * ((kf s + 1) * dn Isi s i - kf s * Isi s i))

/-- `_dSIR_effective_degree_` (after the 0/0 repair): state (S_{s,i}, R) with parameter N -/
def sirEffDeg (A B : Nat) (tau gamma N : Rat) (Ssi : Nat → Nat → Rat) (R : Rat) : (Nat → Nat → Rat) × Rat :=
  let ISS := sum2 A B (fun s i => kf i * kf s * Ssi s i)
  let SS := sum2 A B (fun s i => kf s * Ssi s i)
  let r1 := if SS = 0 then 0 else ISS / SS
  let ip1 := fun s i => if i + 1 = B then 0 else Ssi s (i + 1)                                    -- S[s,i+1]
  let dn := fun s i => if s + 1 = A ∨ i = 0 then 0 else Ssi (s + 1) (i - 1)                       -- S[s+1,i-1]
  (fun s i => -tau * kf i * Ssi s i + gamma * ((kf i + 1) * ip1 s i - kf i * Ssi s i)
              + tau * r1 * ((kf s + 1) * dn s i - kf s * Ssi s i),
   gamma * (N - sum2 A B Ssi - R))

/-! ### pair-based (node level): `nbrs i` = neighbour indices, `tr i j` / `rr i` the rate functions -/
def xinv (x : Rat) : Rat := if x = 0 then 0 else 1 / x

/-- `_dSIR_pair_based_`: state (X_i, Y_i, XY_ij, XX_ij); entries of the pair arrays outside edges have derivative 0 -/
def sirPairBased (nbrs : Nat → List Nat) (tr : Nat → Nat → Rat) (rr : Nat → Rat)
    (X Y : Nat → Rat) (XY XX : Nat → Nat → Rat) : (Nat → Rat) × (Nat → Rat) × (Nat → Nat → Rat) × (Nat → Nat → Rat) :=
  let t1 := fun i j => sumRat (((nbrs j).filter fun w => w ≠ i).map fun k => tr j k * XX i j * XY j k * xinv (X j))
  let t2 := fun (Z : Nat → Nat → Rat) i j => sumRat (((nbrs i).filter fun w => w ≠ j).map fun k => tr i k * XY i k * Z i j * xinv (X i))
  (fun i => -sumRat ((nbrs i).map fun j => tr i j * XY i j),
   fun i => -rr i * Y i + sumRat ((nbrs i).map fun j => tr i j * XY i j),
   fun i j => if (nbrs i).contains j then -(tr i j + rr j) * XY i j + t1 i j - t2 XY i j else 0,
   fun i j => if (nbrs i).contains j then -t1 i j - t2 XX i j else 0)

/-- `_dSIS_pair_based_`: state (Y_i, XY_ij, XX_ij) with X = 1 - Y, YX = XYᵀ, YY = 1 - XY - XX - YX -/
def sisPairBased (nbrs : Nat → List Nat) (tr : Nat → Nat → Rat) (rr : Nat → Rat)
    (Y : Nat → Rat) (XY XX : Nat → Nat → Rat) : (Nat → Rat) × (Nat → Nat → Rat) × (Nat → Nat → Rat) :=
  let X := fun i => 1 - Y i
  let YY := fun i j => 1 - XY i j - XX i j - XY j i
  let t1 := fun i j => sumRat (((nbrs j).filter fun w => w ≠ i).map fun k => tr j k * XX i j * XY j k * xinv (X j))
  let t2 := fun (Z : Nat → Nat → Rat) i j => sumRat (((nbrs i).filter fun w => w ≠ j).map fun k => tr i k * XY i k * Z i j * xinv (X i))
  (fun i => -rr i * Y i + sumRat ((nbrs i).map fun j => tr i j * XY i j),
   fun i j => if (nbrs i).contains j then -(tr i j + rr j) * XY i j + rr i * YY i j + t1 i j - t2 XY i j else 0,
   fun i j => if (nbrs i).contains j then rr i * XY j i + rr j * XY i j - t1 i j - t2 XX i j else 0)

/-! ### preferential-mixing EBCM: `ks` = sorted degrees present; `Pk d`, `Pnk d d'` by degree value -/
/-- `_dEBCM_pref_mix_`: state (R, θ_d, φR_d for d ∈ ks); returns (dR, dθ_d, dφR_d) -/
def ebcmPrefMix (ks : List Nat) (rho tau gamma : Rat) (Pk : Nat → Rat) (Pnk : Nat → Nat → Rat)
    (R : Rat) (theta phiR : Nat → Rat) : Rat × (Nat → Rat) × (Nat → Rat) :=
  let S := (1 - rho) * sumRat (ks.map fun d => Pk d * theta d ^ d)
  let phiS := fun d => (1 - rho) * sumRat (ks.map fun d' => Pnk d d' * theta d' ^ (d' - 1))
  let phiI := fun d => theta d - phiS d - phiR d
  (gamma * (1 - S - R), fun d => -tau * phiI d, fun d => gamma * phiI d)

end ODE
