import Driver
import EoNVerif.Gen.FastSISGen
open Lean Drv

/-! JSON-lines driver for the code GENERATED from `fast_SIS`, its event handlers and `myQueue` (Gen/FastSISGen.lean): the
same request as op "fastsis" of Driver.lean (`DrvFS.run`), run on the generated functions. -/
namespace DrvGenFS
open GenFSIS

def run (j : Json) : Except String Json := do
  let n ← getNat (← fld j "n")
  let adj ← getList (getList getNat) (← fld j "adj")
  let tau ← getRat (← fld j "tau")
  let gamma ← getRat (← fld j "gamma")
  let tmin ← getRat (← fld j "tmin")
  let tmax ← getERat (← fld j "tmax")
  let infs ← getList getNat (← fld j "infs")
  let tape ← getList getDraw (← fld j "tape")
  let ew ← match fldOpt j "ew" with
    | none => pure (fun (_ _ : Node) => (1 : Rat))
    | some e => do
      let l ← getList (fun t => do
        match ← getArr t with
        | [u, v, w] => pure ((← getNat u), (← getNat v), (← getRat w))
        | _ => .error "bad ew") e
      pure (DrvG.pairTable l)
  let nw ← match fldOpt j "nw" with
    | none => pure (fun (_ : Node) => (1 : Rat))
    | some e => do
      let l ← getList getRat e
      pure (listFn l 0)
  let A : FArgs := { nbrs := listFn adj [], order := n, tmin := tmin, tmax := tmax,
                     transRate := fun u v => tau * ew u v, recRate := fun u => gamma * nw u }
  match (GenFSIS.run A infs 200000) { tape := tape } with
  | .error e => pure (errObj e)
  | .ok (s, ts) =>
    pure (Json.mkObj [("ok", Json.bool true), ("trace", Json.arr (ts.trace.map jCall)), ("unused", jNat ts.tape.length),
      ("times", jArr jERat s.times), ("S", jArr jInt s.S), ("I", jArr jInt s.I),
      ("trans", jArr (fun e => Json.arr #[jERat e.1, (match e.2.1 with | some u => jNat u | none => Json.null), jNat e.2.2]) s.transmissions),
      ("infection_times", jArr (fun p => Json.arr #[jNat p.1, jArr jERat p.2]) s.infection_times),
      ("recovery_times", jArr (fun p => Json.arr #[jNat p.1, jArr jERat p.2]) s.recovery_times),
      ("queue_left", jNat s.Q.q.length)])

def handle (line : String) : String :=
  match Json.parse line with
  | .ok j => match run j with
    | .ok r => r.compress
    | .error e => (errObj ("driverfs:" ++ e)).compress
  | .error e => (errObj ("parse:" ++ e)).compress
end DrvGenFS
