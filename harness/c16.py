"""C16 — `_ListDict_`: weighted selection proportional to weight after any history.

Correspondence: random op histories on the real class vs the Lean model (full internal state after every op and
the item chosen for scripted draws).  Predicates on the implementation state after every op (independent of the
model): total == Σ weights, max_weight ≥ every weight, items duplicate-free and position map consistent, weight
keys == items.  Law: exact enumeration (symbolic uniform) of choose_random on the real object vs w/Σw (interval).
Also: op logs captured from weighted simulator runs are replayed through the model.
"""
from fractions import Fraction as F
import common, rng as rngmod, symu
from common import fr, rs


def canon_item(x):
    return list(x) if isinstance(x, tuple) else [x]


def impl_state(ld):
    return dict(items=[canon_item(x) for x in ld.items],
                weights=[rs(ld.weight[x]) if x in ld.weight else "missing" for x in ld.items] if ld.weighted else [rs(0) for _ in ld.items],
                maxW=rs(ld.max_weight) if ld.weighted else "0",
                total=rs(ld.total_weight()),
                maxCnt=int(ld.max_weight_count) if ld.weighted else 0,
                nweight=len(ld.weight) if ld.weighted else 0,
                pos=[ld.item_to_position.get(x) for x in ld.items], npos=len(ld.item_to_position))


def predicates(ld):
    """property-level facts on the real object; returns list of failures"""
    bad = []
    if len(set(ld.items)) != len(ld.items):
        bad.append("duplicate items")
    if any(ld.item_to_position.get(x) != i for i, x in enumerate(ld.items)) or len(ld.item_to_position) != len(ld.items):
        bad.append("position map inconsistent")
    if ld.weighted:
        if set(ld.weight.keys()) != set(ld.items):
            bad.append("weight keys != items")
        ws = [fr(ld.weight[x]) for x in ld.items if x in ld.weight]
        if fr(ld.total_weight()) != sum(ws, F(0)):
            bad.append("total_weight %s != sum of weights %s" % (ld.total_weight(), float(sum(ws, F(0)))))
        if ws and max(ws) > fr(ld.max_weight):
            bad.append("max_weight %s below a weight %s" % (ld.max_weight, float(max(ws))))
        if any(w < 0 for w in ws):
            bad.append("negative weight")
    else:
        if ld.total_weight() != len(ld.items):
            bad.append("unweighted total != len")
    return bad


def selection_law(ld, depth):
    """exact law of choose_random on the real object (cut at `depth` decisions) vs weight/Σ weights"""
    import EoN.simulation as sim
    ex = symu.Explorer(depth)

    def fn(ex):
        old = sim.random
        sim.random = symu.SymRandom(ex)
        try:
            return tuple(canon_item(ld.choose_random()))
        finally:
            sim.random = old
    agg = ex.run(fn)
    if ld.weighted:
        tot = sum(fr(ld.weight[x]) for x in ld.items)
        spec = {tuple(canon_item(x)): fr(ld.weight[x]) / tot for x in ld.items if fr(ld.weight[x]) > 0}
    else:
        spec = {tuple(canon_item(x)): F(1, len(ld.items)) for x in ld.items}
    return symu.interval_ok(agg, spec), agg


def gen_history(ctx, weighted):
    r = ctx.rng
    pool = [(a, b) for a in range(3) for b in range(3)][: r.randint(2, 7)] if r.random() < 0.5 else list(range(r.randint(2, 7)))
    wts = [F(1, 4), F(1, 2), F(1), F(3, 2), F(2), F(3)]
    wide = r.random() < 0.25
    if wide:
        # (no choose_random on these histories: rejection sampling needs ~2^47 rounds)
        # weights spanning ~14 orders of magnitude (exact powers of two: the float totals stay exact): thresholds
        # relative to max_weight or absolute epsilons on the total become visible
        wts = [F(1), F(2), F(3), F(1, 2 ** 47), F(3, 2 ** 47), F(1, 2 ** 45)]
    n = r.randint(3, ctx.scale(25, 40))
    ops, present = [], []
    weights = {}
    for _ in range(n):
        k = r.random()
        heavy = max(present, key=lambda x: weights[x]) if (present and weighted) else None
        if k < 0.35 or not present:
            it = r.choice(pool)
            if heavy is not None and r.random() < 0.2:
                it = heavy                       # replace the heaviest
            w = r.choice(wts) if weighted else None
            if weighted and r.random() < 0.07:
                w = F(0)                         # insert with weight 0 == delete
            ops.append(["ins", it, w])
            if it in present:
                present.remove(it)
            if w is None or w != 0:
                present.append(it); weights[it] = w or 0
        elif k < 0.55 and weighted:
            it = r.choice(pool) if r.random() < 0.5 else r.choice(present)
            w = r.choice(wts)
            if r.random() < 0.05:
                w = F(0)
            ops.append(["upd", it, w])
            if it not in present:
                present.append(it); weights[it] = F(0)
            weights[it] += w
        elif k < 0.55:
            it = r.choice(pool)
            ops.append(["upd", it, None])
            if it not in present:
                present.append(it)
        elif k < 0.8:
            it = heavy if (heavy is not None and r.random() < 0.4) else r.choice(present)
            ops.append(["rem", it])
            present.remove(it)
        elif not wide:
            ops.append(["cho"])
    return ops, wide


def run_impl(ctx, weighted, ops, law_depth=None, final_law=None):
    """returns (wire ops with draws filled in, outputs, predicate failures, law failures)"""
    import EoN.simulation as sim
    ld = sim._ListDict_(weighted=weighted)
    wire, outs, pred_fail, law_fail = [], [], [], []
    for op in ops:
        try:
            if op[0] == "ins":
                ld.insert(op[1], float(op[2]) if op[2] is not None else None)
                wire.append(["ins", canon_item(op[1]), rs(op[2]) if op[2] is not None else None])
                outs.append(impl_state(ld))
            elif op[0] == "upd":
                ld.update(op[1], float(op[2]) if op[2] is not None else None)
                wire.append(["upd", canon_item(op[1]), rs(op[2]) if op[2] is not None else None])
                outs.append(impl_state(ld))
            elif op[0] == "rem":
                ld.remove(op[1])
                wire.append(["rem", canon_item(op[1])])
                outs.append(impl_state(ld))
            else:
                if len(ld) == 0 or (weighted and all(ld.weight[x] == 0 for x in ld.items)):
                    continue
                # the law first: it must not depend on how many draws one selection consumes
                if law_depth and len(ld) <= 4:
                    bad, agg = selection_law(ld, law_depth)
                    if bad:
                        law_fail.append([[list(k), float(p), float(s), float(cut)] for k, p, s, cut in bad])
                tr = rngmod.TapeRandom(rng=ctx.rng)
                try:
                    with rngmod.scripted(tr), time_limit(20):
                        c = ld.choose_random()
                except _Stuck:
                    # ~millions of rejected rounds for weights of ordinary size: the selection does not return in practice
                    pred_fail.append("choose_random did not return within 20 s (%d rounds rejected so far) on candidates with weights %s"
                                     % (sum(1 for kind, _ in tr.log if kind == "c"), sorted(str(fr(ld.weight[x])) for x in ld.items)[:6]))
                    break
                # one round = a `choice` call and, when weighted, the `random()` call that follows it (parsed by kind:
                # an implementation that consumes draws differently shows up as a disagreement, not as a harness crash)
                draws = []
                for kind, val in tr.log:
                    if kind == "c":
                        draws.append([val, "0"])
                    elif kind == "u" and draws:
                        draws[-1][1] = val
                wire.append(["cho", draws])
                outs.append(dict(chosen=canon_item(c), rounds=len(draws)))
                if weighted and fr(ld.weight[c]) == 0:
                    pred_fail.append("zero-weight candidate selected")
        except Exception as e:  # implementation raised
            outs.append(dict(err=type(e).__name__))
            break
        pf = predicates(ld)
        if pf:
            pred_fail.extend(pf)
            break
    # selection law in the state the history ends in (every history: stale bookkeeping left behind by an earlier
    # removal / replacement only matters at the next selection)
    if final_law and not pred_fail and 0 < len(ld) <= 5 and not (outs and "err" in outs[-1]):
        try:
            # (wide-range histories are excluded by the caller: their acceptance thresholds w/max are not exact floats)
            if not weighted or (all(fr(ld.weight[x]) >= 0 for x in ld.items) and any(fr(ld.weight[x]) > 0 for x in ld.items)):
                bad, agg = selection_law(ld, final_law)
                if bad:
                    law_fail.append([[list(k), float(p), float(s), float(cut)] for k, p, s, cut in bad])
        except symu.Budget:
            pass
    return wire, outs, pred_fail, law_fail


def captured_logs(ctx, n_runs):
    """op logs of the real `_ListDict_` instances inside weighted Gillespie runs"""
    import EoN, EoN.simulation as sim, networkx as nx, gen
    logs = []

    class Logging(sim._ListDict_):
        def __init__(self, weighted=False):
            super().__init__(weighted)
            self._log = []
            self._depth = 0
            if weighted:
                logs.append(self._log)

        def insert(self, item, weight=None):
            top = self._depth == 0
            self._depth += 1
            try:
                return super().insert(item, weight)
            finally:
                self._depth -= 1
                if top and self.weighted:
                    self._log.append((["ins", canon_item(item), rs(weight)], impl_state(self)))

        def update(self, item, weight_increment=None):
            top = self._depth == 0
            self._depth += 1
            try:
                return super().update(item, weight_increment)
            finally:
                self._depth -= 1
                if top and self.weighted:
                    self._log.append((["upd", canon_item(item), rs(weight_increment)], impl_state(self)))

        def remove(self, choice):
            top = self._depth == 0
            self._depth += 1
            try:
                return super().remove(choice)
            finally:
                self._depth -= 1
                if top and self.weighted:
                    self._log.append((["rem", canon_item(choice)], impl_state(self)))

    old = sim._ListDict_
    sim._ListDict_ = Logging
    try:
        for _ in range(n_runs):
            G = gen.random_graph(ctx.rng, 2, 8)
            gen.add_weights(ctx.rng, G)
            infs, recs = gen.initial_sets(ctx.rng, G)
            tr = rngmod.TapeRandom(rng=ctx.rng)
            fn = ctx.rng.choice([EoN.Gillespie_SIR, EoN.Gillespie_SIS])
            kw = dict(initial_recovereds=recs) if fn is EoN.Gillespie_SIR else {}
            try:
                with rngmod.scripted(tr):
                    fn(G, 1.0, 0.5, initial_infecteds=infs, transmission_weight="w", recovery_weight="r", tmax=6, **kw)
            except ZeroDivisionError:
                pass
            except rngmod.TapeError as e:
                ctx.disagreement("rng-proxy", dict(entry=fn.__name__, error=str(e)))
                break
    finally:
        sim._ListDict_ = old
    return [l for l in logs if l]


def needle(ctx):
    """extreme skew: thousands of candidates of weight 0 (or of weight that left the set again) around a few live ones, so
    that a rejection round succeeds with probability ~1e-3 or less.  Under weight-proportional selection a candidate of
    weight 0 has probability exactly 0, so any such pick is a certain violation (no statistics involved); the live
    ones must all be reachable.  Real pseudo-random draws from a seeded generator (the law enumeration cannot reach
    thousands of rejection rounds)."""
    import random as _r, EoN.simulation as sim
    for k in range(ctx.scale(6, 24)):
        K = ctx.rng.choice([2500, 6000])
        m = ctx.rng.randint(1, 4)
        live = {("live", i): float(ctx.rng.choice([F(1, 4), F(1, 2), F(1), F(3, 2), F(2)])) for i in range(m)}
        seed = ctx.rng.randrange(10 ** 9)
        rep = dict(entry="_ListDict_", stream="needle", zero_weight_items=K, live=[[list(k_), w] for k_, w in live.items()], seed=seed)
        ld = sim._ListDict_(weighted=True)
        order = [("dead", i) for i in range(K)] + list(live)
        ctx.rng.shuffle(order)
        for it in order:
            if it in live:
                ld.insert(it, weight=live[it])
            else:
                ld.update(it, weight_increment=0)           # present with weight 0 (what a zero rate / weight label gives)
        # half of the cases: candidates leave again before the draws (removal swaps the last item into the hole, so the order
        # of the item list and the insertion order of the weight table drift apart — any code path that pairs them by position
        # is then wrong)
        if k % 2 == 1:
            gone = ctx.rng.sample([it for it in order if it not in live], min(len(order) - len(live), 40 + ctx.rng.randint(0, 60)))
            for it in gone:
                ld.remove(it)
            if len(live) > 1 and ctx.rng.random() < 0.5:
                it = ctx.rng.choice(list(live))
                ld.remove(it); del live[it]
            rep["removed_before_draws"] = len(gone)
            ctx.count("needle:with removals")
        old = sim.random
        sim.random = _r.Random(seed)
        picks = {}
        try:
            with time_limit(60):
                for _ in range(150):
                    c = ld.choose_random()
                    picks[c] = picks.get(c, 0) + 1
        except _Stuck:
            ctx.violation("choose_random did not return within 60 s for 150 selections on a set with %d zero-weight candidates" % K, rep)
            continue
        except Exception as e:
            ctx.violation("choose_random raised %s on a set with %d zero-weight candidates" % (type(e).__name__, K), rep)
            continue
        finally:
            sim.random = old
        ctx.count("needle")
        ctx.case(rep, nontrivial=True)
        dead = sum(n for c, n in picks.items() if c not in live)
        if dead:
            ctx.violation("choose_random returned a candidate of weight 0 (%d of 150 picks; live candidates %s)" % (dead, sorted(live.values())),
                          dict(rep, dead_picks=dead))
        elif abs(ld.total_weight() - sum(live.values())) > 1e-9:
            ctx.violation("total_weight() differs from the sum of the weights", dict(rep, total=ld.total_weight()))


def run(ctx):
    drv = common.LeanDriver()
    reqs, impl_outs, metas = [], [], []
    n = ctx.scale(2000, 20000)
    for k in range(n):
        weighted = ctx.rng.random() < 0.8
        ops, wide = gen_history(ctx, weighted)
        law_depth = 12 if (k % ctx.scale(10, 4) == 0) else None
        wire, outs, pred_fail, law_fail = run_impl(ctx, weighted, ops, law_depth, final_law=None if wide else 10)
        ctx.count("weighted" if weighted else "unweighted")
        for o in wire:
            ctx.count("op:" + o[0])
        for o in outs:
            if "err" in o:
                ctx.count("err:" + o["err"])
        rep = dict(entry="_ListDict_", weighted=weighted, ops=wire)
        if pred_fail:
            ctx.violation("implementation state breaks the C16 invariant: %s" % pred_fail, dict(rep, failures=pred_fail))
        if law_fail:
            ctx.violation("selection law of choose_random differs from weight/sum", dict(rep, law=law_fail))
        if law_depth:
            ctx.count("law_enumerations")
        reqs.append(dict(op="ld", weighted=weighted, ops=wire))
        impl_outs.append(outs)
        metas.append(rep)
        ctx.case(rep, nontrivial=len(wire) >= 3, sample=rep)
    # captured simulator logs
    for log in captured_logs(ctx, ctx.scale(20, 200)):
        wire = [o for o, _ in log]
        reqs.append(dict(op="ld", weighted=True, ops=wire))
        impl_outs.append([s for _, s in log])
        rep = dict(entry="_ListDict_(captured from Gillespie run)", weighted=True, ops=wire)
        metas.append(rep)
        ctx.count("captured_logs")
        ctx.case(rep, nontrivial=len(wire) >= 3)
    resps = drv.batch(reqs)
    for rep, outs, resp in zip(metas, impl_outs, resps):
        mouts = resp.get("outs")
        if mouts is None:
            ctx.disagreement("listdict-driver-error", dict(rep, model=resp))
            continue
        ctx.traces += 1
        outs = [{k: v for k, v in o.items() if k not in ("pos", "npos")} for o in outs]      # the hand model has no position map
        if mouts != outs:
            i = next((i for i in range(min(len(outs), len(mouts))) if outs[i] != mouts[i]), min(len(outs), len(mouts)))
            ctx.disagreement("listdict-state", dict(rep, first_diff_op=i,
                                                     impl=outs[i] if i < len(outs) else None,
                                                     model=mouts[i] if i < len(mouts) else None))
    generated_model(ctx, reqs, impl_outs, metas)
    needle(ctx)
    marathon(ctx)
    absorbed(ctx)


def generated_model(ctx, reqs, impl_outs, metas):
    """the Lean code GENERATED from the class source (harness/pyclass2lean.py -> Gen/ListDictGen.lean), run by its own
    driver on the same operation histories: validates the translator and ties the refinement theorems
    (Props/C16b.lean) to the code.  Compared: items, weights, max_weight, total, max_weight_count, len(weight),
    item_to_position of every listed item, len(item_to_position), chosen element, exception names."""
    import fcntl, subprocess, os, json, pyclass2lean
    lean = common.LEAN
    os.makedirs(os.path.join(lean, ".audit"), exist_ok=True)
    with open(os.path.join(lean, ".audit", "genld.lock"), "w") as lock:
        fcntl.flock(lock, fcntl.LOCK_EX)
        try:
            changed, errors = pyclass2lean.regenerate()
        except Exception as e:
            errors = {"pyclass2lean": "crashed: %r" % e}
        if errors:
            ctx.disagreement("generated-listdict:translation", dict(entry="_ListDict_", errors=errors))
            return
        p = common.lake(["build", "drivergen"])
    if p.returncode != 0:
        ctx.disagreement("generated-listdict:build", dict(entry="_ListDict_", log="\n".join(
            l for l in (p.stdout + p.stderr).splitlines() if "error" in l)[:1500]))
        return
    exe = os.path.join(lean, ".lake", "build", "bin", "drivergen")
    data = "\n".join(json.dumps(r, separators=(",", ":")) for r in reqs) + "\n"
    q = subprocess.run([exe], input=data, capture_output=True, text=True)
    lines = q.stdout.splitlines()
    if q.returncode != 0 or len(lines) != len(reqs):
        raise RuntimeError("drivergen crashed: " + q.stderr[-1000:])
    for rep, outs, line in zip(metas, impl_outs, lines):
        gouts = json.loads(line).get("outs")
        if gouts is None:
            ctx.disagreement("generated-listdict:driver-error", dict(rep, model=line[:300]))
            continue
        ctx.count("generated-model-histories")
        want = [({"chosen": o["chosen"]} if "chosen" in o else o) for o in outs]
        if gouts != want:
            i = next((i for i in range(min(len(want), len(gouts))) if want[i] != gouts[i]), min(len(want), len(gouts)))
            ctx.disagreement("generated-listdict-state", dict(rep, first_diff_op=i, impl=want[i] if i < len(want) else None,
                                                               generated=gouts[i] if i < len(gouts) else None))


def marathon(ctx):
    """ONE structure through tens of thousands of operations (what a long weighted simulation does to its candidate sets):
    anything that only happens every so many changes (periodic recomputation, amortised clean-up, counters that wrap) is
    invisible to short histories.  Weights are multiples of 1/8 below 2**10, so every total is exact in binary floating point
    and the property-level predicates (total = sum of the current weights, maximum bounds every weight, position map, weight
    table = items) are checked exactly after EVERY operation against an independent dict."""
    import EoN.simulation as sim
    for run_ in range(ctx.scale(5, 16)):
        r = ctx.rng
        nops = ctx.scale(45000, 90000)
        universe = [("m", i) for i in range(r.choice([4, 8, 16]))]
        ld = sim._ListDict_(weighted=True)
        oracle = {}
        rep = dict(entry="_ListDict_", stream="marathon", ops=nops, universe=len(universe), seed_run=run_)
        ctx.count("marathon")
        ctx.case(rep, nontrivial=True)
        bad = None
        for step in range(nops):
            it = r.choice(universe)
            w = r.randint(1, 32) / 8.0
            kind = r.random()
            try:
                if it not in oracle:
                    if kind < 0.5:
                        ld.insert(it, weight=w); oracle[it] = w; what = "insert"
                    else:
                        ld.update(it, weight_increment=w); oracle[it] = w; what = "update-new"
                elif kind < 0.35:
                    ld.remove(it); del oracle[it]; what = "remove"
                elif kind < 0.6:
                    ld.update(it, weight_increment=w); oracle[it] += w; what = "increment"
                elif kind < 0.8:
                    ld.insert(it, weight=w); oracle[it] = w; what = "replace"
                else:
                    ld.insert(it, weight=0)                # documented: weight 0 removes the item
                    del oracle[it]; what = "insert0"
            except Exception as e:
                bad = "step %d (%s %s) raised %s" % (step, what if 'what' in dir() else '?', it, type(e).__name__)
                break
            if ld.total_weight() != sum(oracle.values()) or set(ld.items) != set(oracle) or \
                    any(ld.weight[x] != oracle[x] for x in oracle) or (oracle and ld.max_weight < max(oracle.values())):
                fails = predicates(ld)
                bad = "after step %d (%s %s): total_weight()=%r, the current weights sum to %r; %s" % (
                    step, what, list(it), ld.total_weight(), sum(oracle.values()), fails)
                break
        if bad:
            ctx.violation("_ListDict_ long history: " + bad, dict(rep, failure=bad))


class _Stuck(Exception):
    pass


_STUCK = [0]


class time_limit:
    """raise _Stuck in the main thread when the block runs longer than `seconds` (a sampler that needs ~1e15 rejection rounds
    never returns: that is reported as a violation instead of hanging the check)"""
    def __init__(self, seconds):
        self.seconds = seconds

    def __enter__(self):
        import signal

        def handler(signum, frame):
            _STUCK[0] += 1
            raise _Stuck()
        self.old = signal.signal(signal.SIGALRM, handler)
        # after two reports the budget per block drops to 2 s: a sampler that is stuck is stuck in hundreds of cases, and
        # the check must still end in minutes
        signal.setitimer(signal.ITIMER_REAL, self.seconds if _STUCK[0] < 2 else 2)

    def __exit__(self, *a):
        import signal
        signal.setitimer(signal.ITIMER_REAL, 0)
        signal.signal(signal.SIGALRM, self.old)
        return False


def absorbed(ctx):
    """weights spanning 15+ orders of magnitude that are NOT powers of two: the running total absorbs the light weights
    while a heavy candidate is present and carries a rounding residue after it has gone (the sampler must not rely on the
    running total being the exact sum).  Nothing about totals is checked here; what is checked has probability 0 under
    weight-proportional selection whatever the rounding: a candidate of weight 0 is never returned, and the only candidate
    of positive weight is always returned.  Real seeded draws."""
    import random as _r, EoN.simulation as sim
    for k in range(ctx.scale(250, 1000)):
        r = ctx.rng
        heavy_w = r.choice([1e16, 1e17, 3e18])
        lights = [float(r.choice([1, 2, 3, 5, 10, 0.5])) for _ in range(r.randint(1, 4))]
        nzero = r.randint(1, 4)
        seed = r.randrange(10 ** 9)
        ld = sim._ListDict_(weighted=True)
        order = [("heavy", 0)] + [("light", i) for i in range(len(lights))] + [("zero", i) for i in range(nzero)]
        r.shuffle(order)
        if order.index(("heavy", 0)) > 1:
            order.remove(("heavy", 0)); order.insert(r.randint(0, 1), ("heavy", 0))      # the heavy one is present while lights arrive
        oracle = {}
        for it in order:
            if it[0] == "heavy":
                ld.insert(it, weight=heavy_w); oracle[it] = heavy_w
            elif it[0] == "light":
                if r.random() < 0.5:
                    ld.insert(it, weight=lights[it[1]])
                else:
                    ld.update(it, weight_increment=lights[it[1]] / 2); ld.update(it, weight_increment=lights[it[1]] / 2)
                oracle[it] = lights[it[1]]
            else:
                ld.update(it, weight_increment=0); oracle[it] = 0.0
        how = r.choice(["remove", "replace"])
        if how == "remove":
            ld.remove(("heavy", 0)); del oracle[("heavy", 0)]
        else:
            w = float(r.choice([1, 2]))
            ld.insert(("heavy", 0), weight=w); oracle[("heavy", 0)] = w
        rep = dict(entry="_ListDict_", stream="absorbed", heavy=heavy_w, lights=lights, zero_weight_items=nzero, how=how, order=[list(x) for x in order], seed=seed)
        ctx.case(rep, nontrivial=True)
        ctx.count("absorbed:" + how)
        old = sim.random
        sim.random = _r.Random(seed)
        picks = {}
        try:
            with time_limit(20):
                for _ in range(120):
                    c = ld.choose_random()
                    picks[c] = picks.get(c, 0) + 1
        except _Stuck:
            ctx.violation("choose_random did not return within 20 s for 120 selections among %d candidates after a heavy candidate (%g) was %sd "
                          "(the acceptance probability of a round must be total/(n*max) of the CURRENT weights)" % (len(ld), heavy_w, how), rep)
            continue
        except Exception as e:
            ctx.violation("choose_random raised %s after a heavy candidate (%g) was %sd" % (type(e).__name__, heavy_w, how), rep)
            continue
        finally:
            sim.random = old
        dead = {repr(c): n for c, n in picks.items() if oracle.get(c, 0.0) == 0.0}
        if dead:
            ctx.violation("choose_random returned candidates of weight 0 (%s of 120 picks) after a heavy candidate (%g) had been present"
                          % (sum(dead.values()), heavy_w), dict(rep, zero_weight_picks=dead, weights={repr(k_): v for k_, v in oracle.items()}))
