import EoNVerif.Basic
/-!
Executable property predicates (DESIGN §2.5).  They are *proved* of the models (Props/C04, C05, C09, C10) and
*evaluated on the implementation's own output* by the driver, so a `false` on real output is a violation whatever
the model says.
-/

/-- population trajectory as returned by the simulators: times and one count column per status -/
structure Traj where
  times : List Rat
  cols : List (List Int)     -- SIR: [S, I, R]; SIS: [S, I]; generic: one per return status

inductive TrajKind
  | sirCont | sisCont | sirDisc | sisDisc | generic
deriving DecidableEq, Repr

namespace Pred

def nondecreasing : List Rat → Bool
  | a :: b :: t => a ≤ b && nondecreasing (b :: t)
  | _ => true

def nonincrInt : List Int → Bool
  | a :: b :: t => b ≤ a && nonincrInt (b :: t)
  | _ => true

def nondecrInt : List Int → Bool
  | a :: b :: t => a ≤ b && nondecrInt (b :: t)
  | _ => true

/-- row `i` of the count columns -/
def row (cols : List (List Int)) (i : Nat) : List Int := cols.map fun c => c.getD i 0

def sumInt (l : List Int) : Int := l.foldr (· + ·) 0

/-- one legal SIR move between consecutive rows -/
def sirMove (a b : List Int) : Bool :=
  match a, b with
  | [s, i, r], [s', i', r'] => (s' == s - 1 && i' == i + 1 && r' == r) || (s' == s && i' == i - 1 && r' == r + 1)
  | _, _ => false

def sisMove (a b : List Int) : Bool :=
  match a, b with
  | [s, i], [s', i'] => (s' == s - 1 && i' == i + 1) || (s' == s + 1 && i' == i - 1)
  | _, _ => false

/-- generic simulators: exactly one node moves from one return status to another, or one node moves between a
listed and an unlisted status (one column changes by ±1), or between two unlisted statuses (no change). -/
def genericMove (a b : List Int) : Bool :=
  let d := (List.zipWith (fun x y => y - x) a b).filter (· != 0)
  d == [] || d == [1] || d == [-1] || d == [1, -1] || d == [-1, 1]

def allIdx (n : Nat) (p : Nat → Bool) : Bool := (List.range n).all p

/-- the horizon test.  Continuous time: `t < tmax`.  Discrete time: `t ≤ tmax` when `tmax - tmin` is a whole number
of steps; otherwise the last step may overshoot by less than one step (`t < tmax + 1`). -/
def beforeHorizon (kind : TrajKind) (tmin : Rat) (tmax : ERat) (t : Rat) : Bool :=
  match kind with
  | .sirDisc | .sisDisc =>
    (match tmax with
     | none => true
     | some tm => if (tm - tmin).den = 1 then t ≤ tm else t < tm + 1)
  | _ => ERat.lt (some t) tmax

/-- C04.  `collapsed`: the trajectory is a `summary()` in which rows with equal times have been merged, so the
one-move-per-row test does not apply.  `expectExtinct`: unbounded horizon and positive
recovery rates (SIR) – the run must end with no infected node. -/
def wellFormed (kind : TrajKind) (N : Nat) (tmin : Rat) (tmax : ERat) (expectExtinct collapsed : Bool) (tr : Traj) : Bool :=
  let n := tr.times.length
  let ncol := match kind with | .sirCont | .sirDisc => 3 | .sisCont | .sisDisc => 2 | .generic => tr.cols.length
  n > 0
  && tr.cols.length == ncol
  && tr.cols.all (fun c => c.length == n)
  && tr.times.head? == some tmin
  && nondecreasing tr.times
  && tr.times.all (beforeHorizon kind tmin tmax)
  && allIdx n (fun i => (row tr.cols i).all (fun c => 0 ≤ c))
  && (match kind with
      | .generic => allIdx n (fun i => sumInt (row tr.cols i) ≤ (N : Int))
      | _ => allIdx n (fun i => sumInt (row tr.cols i) == (N : Int)))
  && (collapsed || match kind with
      | .sirCont => allIdx (n - 1) (fun i => sirMove (row tr.cols i) (row tr.cols (i + 1)))
      | .sisCont => allIdx (n - 1) (fun i => sisMove (row tr.cols i) (row tr.cols (i + 1)))
      | .generic => allIdx (n - 1) (fun i => genericMove (row tr.cols i) (row tr.cols (i + 1)))
      | _ => true)
  && (match kind with
      | .sirCont | .sirDisc => nonincrInt (tr.cols.getD 0 []) && nondecrInt (tr.cols.getD 2 [])
      | _ => true)
  && (!expectExtinct || ((tr.cols.getD 1 []).getLast? == some 0))

/-! ### node histories -/

abbrev Hist := List (Rat × String)

/-- status of the latest change at or before `t` -/
def statusAt (h : Hist) (t : Rat) : Option String :=
  ((h.filter fun e => e.1 ≤ t).getLast?).map (·.2)

/-- what `Simulation_Investigation.node_status` computes: count entries with time ≤ t, index (count-1)
(Python's index −1 wraps to the last entry when the count is 0). -/
def nodeStatusImpl (h : Hist) (t : Rat) : Option String :=
  let k := (h.filter fun e => e.1 ≤ t).length
  if k = 0 then h.getLast?.map (·.2) else (h[k - 1]?).map (·.2)

def histTimesOrdered (h : Hist) : Bool := nondecreasing (h.map (·.1))

def legalSIR (a b : String) : Bool := (a == "S" && b == "I") || (a == "I" && b == "R")
def legalSIS (a b : String) : Bool := (a == "S" && b == "I") || (a == "I" && b == "S")

def pairwise (legal : String → String → Bool) : List String → Bool
  | a :: b :: t => legal a b && pairwise legal (b :: t)
  | _ => true

/-- C10: each node history starts at tmin, is time-ordered, only makes legal moves (`legal` = the allowed
(from,to) pairs: S→I, I→R for SIR; S→I, I→S for SIS; the spec edges for the generic simulators) -/
def histWFg (legal : List (String × String)) (tmin : Rat) (h : Hist) : Bool :=
  (h.head?.map (·.1)) == some tmin && histTimesOrdered h
  && pairwise (fun a b => legal.contains (a, b)) (h.map (·.2))

def histWF (sir : Bool) (tmin : Rat) (h : Hist) : Bool :=
  histWFg (if sir then [("S", "I"), ("I", "R")] else [("S", "I"), ("I", "S")]) tmin h

/-- sorted distinct times of all histories -/
def insertSorted (x : Rat) : List Rat → List Rat
  | [] => [x]
  | y :: t => if x < y then x :: y :: t else if x = y then y :: t else y :: insertSorted x t

def allTimes (hs : List Hist) : List Rat :=
  (hs.flatMap fun h => h.map (·.1)).foldl (fun acc x => insertSorted x acc) []

def countAt (hs : List Hist) (t : Rat) (s : String) : Int :=
  ((hs.filter fun h => statusAt h t == some s).length : Int)

/-- specification of `summary()` : at each distinct change time, the number of nodes whose latest change at or
before that time gave status `s` -/
def summarySpec (hs : List Hist) (statuses : List String) : Traj :=
  let ts := allTimes hs
  { times := ts, cols := statuses.map fun s => ts.map fun t => countAt hs t s }

/-- arrays with equal-time rows collapsed to the last one -/
def collapse (tr : Traj) : Traj :=
  let n := tr.times.length
  let keep := (List.range n).filter fun i => tr.times[i + 1]? != tr.times[i]?
  { times := keep.map fun i => tr.times.getD i 0, cols := tr.cols.map fun c => keep.map fun i => c.getD i 0 }

def trajEq (a b : Traj) : Bool := a.times == b.times && a.cols == b.cols

/-- the arrays (equal-time rows collapsed to the last) describe the same step function as the node histories:
every change time of the histories is an array time, and each array row equals the status counts at its time.
`strict`: additionally every array time is a change time (continuous-time simulators: one event per row). -/
def arraysMatch (strict : Bool) (tr : Traj) (hs : List Hist) (statuses : List String) : Bool :=
  let c := collapse tr
  let ts := allTimes hs
  ts.all (fun t => c.times.contains t)
  && (!strict || c.times == ts)
  && c.cols.length == statuses.length
  && allIdx c.times.length (fun i =>
      row c.cols i == statuses.map (fun s => countAt hs (c.times.getD i 0) s))

/-! ### transmissions (C09) -/

structure Trans where
  t : Rat
  src : Option Node
  tgt : Node
deriving Repr, DecidableEq

/-- `u` has status `st` at time `t` in the closed-interval sense: some entry `(ti, st)` with `ti ≤ t` whose
successor entry (if any) is at a time `≥ t`. -/
def hasStatusClosed (h : Hist) (st : String) (t : Rat) : Bool :=
  let n := h.length
  (List.range n).any fun i =>
    match h[i]? with
    | some (ti, s) => s == st && ti ≤ t && (match h[i + 1]? with | some (tj, _) => t ≤ tj | none => true)
    | none => false

/-- target had status `from_` immediately before `t` and takes status `to` at time `t'`:
an entry `(t', to)` directly preceded by an entry with status `from_` -/
def changesAt (h : Hist) (from_ to : String) (t' : Rat) : Bool :=
  (List.range h.length).any fun i =>
    match h[i]?, h[i + 1]? with
    | some (_, a), some (tj, b) => a == from_ && b == to && tj == t'
    | _, _ => false

/-- number of induced `from_→to` changes in a history (entries with status `to` preceded by `from_`) -/
def inducedCount (h : Hist) (from_ to : String) : Nat :=
  ((List.range h.length).filter fun i =>
    match h[i]?, h[i + 1]? with
    | some (_, a), some (_, b) => a == from_ && b == to
    | _, _ => false).length

/-- follow infectors upwards; true when a source-less entry is reached within `fuel` steps -/
def reachesRoot (trs : List Trans) (fuel : Nat) (v : Node) : Bool :=
  match fuel with
  | 0 => false
  | f + 1 =>
    match trs.find? (fun e => e.tgt == v) with
    | none => false
    | some e => match e.src with
      | none => true
      | some u => reachesRoot trs f u

/-- model specification relevant for C09: `induced` lists triples `(a, b, c)` — a neighbour of status `a` turns a
node of status `b` into `c`; `spont` lists the spontaneous moves `(b, c)`. -/
structure TVSpec where
  induced : List (String × String × String)
  spont : List (String × String)

def sirSpec : TVSpec := { induced := [("I", "S", "I")], spont := [("I", "R")] }
def sisSpec : TVSpec := { induced := [("I", "S", "I")], spont := [("I", "S")] }

/-- number of changes `b → c` in a history for which `ok b c` -/
def changeCount (h : Hist) (ok : String → String → Bool) : Nat :=
  ((List.range h.length).filter fun i =>
    match h[i]?, h[i + 1]? with
    | some (_, a), some (_, b) => ok a b
    | _, _ => false).length

/-- C09.  `shift` = 1 for the discrete-time simulators (the change happens at the step after the contact step),
0 otherwise.  `succ u` = out-neighbours of `u`.  `initInf` = the initially infected nodes (source-less entries are
allowed exactly for them, once each, at `tmin`); `forest` = SIR (each node infected at most once; following the
infectors reaches an initial node). -/
def transmissionsValid (spec : TVSpec) (forest : Bool) (shift : Rat) (N : Nat) (succ : Node → List Node) (tmin : Rat)
    (initInf : List Node) (hs : List Hist) (trs : List Trans) : Bool :=
  let h := fun (v : Node) => hs.getD v []
  nondecreasing (trs.map (·.t))
  && trs.all (fun e =>
      match e.src with
      | some u =>
          (succ u).contains e.tgt
          && spec.induced.any (fun (a, b, c) =>
              hasStatusClosed (h u) a e.t && changesAt (h e.tgt) b c (e.t + shift))
      | none => initInf.contains e.tgt && e.t + shift == tmin)
  -- completeness: every change that only a neighbour can induce has an entry, and there are never more entries
  -- than induced-type changes; one source-less entry per initial node
  && allIdx N (fun v =>
      let k := (trs.filter fun e => e.tgt == v && e.src.isSome).length
      let must := changeCount (h v) (fun b c => spec.induced.any (fun (_, b', c') => b == b' && c == c')
                                               && !spec.spont.contains (b, c))
      let may := changeCount (h v) (fun b c => spec.induced.any (fun (_, b', c') => b == b' && c == c'))
      must ≤ k && k ≤ may
      && ((trs.filter fun e => e.tgt == v && e.src.isNone).length == (if initInf.contains v then 1 else 0)))
  && (!forest || (allIdx N (fun v => (trs.filter fun e => e.tgt == v).length ≤ 1)
               && trs.all (fun e => reachesRoot trs (N + 1) e.tgt)))

/-! ### initial conditions (C05) -/

/-- row 0 and per-node statuses at tmin equal the request -/
def initialOK (N : Nat) (infs recs : List Node) (row0 : List Int) (statusAtTmin : Option (List String)) (sir : Bool) : Bool :=
  let i0 : Int := infs.length
  let r0 : Int := recs.length
  (if sir then row0 == [(N : Int) - i0 - r0, i0, r0] else row0 == [(N : Int) - i0, i0])
  && (match statusAtTmin with
      | none => true
      | some st => st.length == N
          && allIdx N (fun v => st.getD v "" ==
              (if recs.contains v then "R" else if infs.contains v then "I" else "S")))

end Pred
