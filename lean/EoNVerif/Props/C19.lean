import EoNVerif.Model.Args
/-!
C19 — calls do not modify their arguments and can be repeated: theorems about the heap model of the argument
prologues (Model/Args.lean).  The model is tied to the code by the C19 check, which snapshots the real argument
objects (shape, dtype, values; graphs; containers) around two consecutive calls of every entry point.
-/
namespace Args

theorem lookup_append_of_some (h : Heap) (id : Nat) (x : Arr) (e : Nat × Arr) (hx : lookup h id = some x) :
    lookup (h ++ [e]) id = some x := by
  induction h with
  | nil => simp [lookup] at hx
  | cons p t ih =>
    simp only [List.cons_append, lookup] at hx ⊢
    by_cases hp : p.1 = id
    · simpa [hp] using hx
    · simp only [hp, ↓reduceIte] at hx ⊢; exact ih hx

theorem le_foldl_max (l : List Nat) (init : Nat) : init ≤ l.foldl max init ∧ ∀ x ∈ l, x ≤ l.foldl max init := by
  induction l generalizing init with
  | nil => simp
  | cons y t ih =>
    simp only [List.foldl_cons, List.mem_cons]
    obtain ⟨h1, h2⟩ := ih (max init y)
    refine ⟨by omega, ?_⟩
    intro x hx
    rcases hx with rfl | hx
    · omega
    · exact h2 x hx

theorem fresh_not_mem (h : Heap) : ∀ p ∈ h, p.1 ≠ fresh h := by
  intro p hp
  have := (le_foldl_max (h.map (·.1)) 0).2 p.1 (List.mem_map.mpr ⟨p, hp, rfl⟩)
  unfold fresh; omega

theorem lookup_some_mem (h : Heap) (id : Nat) (x : Arr) (hx : lookup h id = some x) : ∃ p ∈ h, p.1 = id := by
  induction h with
  | nil => simp [lookup] at hx
  | cons p t ih =>
    simp only [lookup] at hx
    by_cases hp : p.1 = id
    · exact ⟨p, List.mem_cons_self, hp⟩
    · simp only [hp, ↓reduceIte] at hx
      obtain ⟨q, hq, hq'⟩ := ih hx
      exact ⟨q, List.mem_cons_of_mem _ hq, hq'⟩

/-- reshaping object `id'` leaves every other object untouched -/
theorem lookup_reshape_ne (h : Heap) (id id' : Nat) (sh : List Nat) (hne : id ≠ id') :
    lookup (reshape h id' sh) id = lookup h id := by
  induction h with
  | nil => rfl
  | cons p t ih =>
    have ih' : lookup (List.map (fun p => if p.1 = id' then (p.1, { p.2 with shape := sh }) else p) t) id = lookup t id := ih
    simp only [reshape, List.map_cons, lookup]
    by_cases hp : p.1 = id'
    · have h1 : ¬ p.1 = id := by omega
      simp only [hp, ↓reduceIte]
      have h2 : ¬ id' = id := by omega
      simp only [h2, ↓reduceIte]
      rw [hp] at h1
      simpa using ih'
    · simp only [hp, ↓reduceIte]
      by_cases hq : p.1 = id
      · simp [hq]
      · simp only [hq, ↓reduceIte]; exact ih'

/-- copying allocates a fresh object and leaves every existing object untouched -/
theorem copyObj_preserves (h : Heap) (id : Nat) (j : Nat) (x : Arr) (hx : lookup h j = some x) :
    lookup (copyObj h id).1 j = some x ∧ (copyObj h id).2 ≠ j ∨ (copyObj h id) = (h, id) := by
  unfold copyObj
  cases hl : lookup h id with
  | none => right; rfl
  | some a =>
    left
    refine ⟨lookup_append_of_some h j x _ hx, ?_⟩
    obtain ⟨p, hp, hpj⟩ := lookup_some_mem h j x hx
    have := fresh_not_mem h p hp
    simp only; omega

/-- **the repaired prologue does not modify any of the caller's objects**: every object that existed before the call
has the same shape and data afterwards (the caller's `a` and `b` included) -/
theorem prologueFixed_preserves (h : Heap) (a b k : Nat) (xa xb : Arr)
    (ha : lookup h a = some xa) (hb : lookup h b = some xb) (j : Nat) (x : Arr) (hx : lookup h j = some x) :
    lookup (prologueFixed h a b k).1 j = some x := by
  unfold prologueFixed
  have h1 : copyObj h a = (h ++ [(fresh h, xa)], fresh h) := by simp [copyObj, ha]
  have hb1 : lookup (h ++ [(fresh h, xa)]) b = some xb := lookup_append_of_some h b xb _ hb
  have h2 : copyObj (h ++ [(fresh h, xa)]) b =
      ((h ++ [(fresh h, xa)]) ++ [(fresh (h ++ [(fresh h, xa)]), xb)], fresh (h ++ [(fresh h, xa)])) := by
    simp [copyObj, hb1]
  simp only [h1, h2]
  obtain ⟨p, hp, hpj⟩ := lookup_some_mem h j x hx
  have hj1 : j ≠ fresh h := by have := fresh_not_mem h p hp; omega
  have hx1 : lookup (h ++ [(fresh h, xa)]) j = some x := lookup_append_of_some h j x _ hx
  obtain ⟨q, hq, hqj⟩ := lookup_some_mem _ j x hx1
  have hj2 : j ≠ fresh (h ++ [(fresh h, xa)]) := by have := fresh_not_mem _ q hq; omega
  rw [lookup_reshape_ne _ _ _ _ hj2, lookup_reshape_ne _ _ _ _ hj1]
  exact lookup_append_of_some _ j x _ hx1

/-- **a second call sees the same arguments**: the integrator input built from the heap after a first call equals
the input built from the original heap -/
theorem second_call_same (h : Heap) (a b k : Nat) (xa xb : Arr)
    (ha : lookup h a = some xa) (hb : lookup h b = some xb) :
    lookup (prologueFixed h a b k).1 a = some xa ∧ lookup (prologueFixed h a b k).1 b = some xb :=
  ⟨prologueFixed_preserves h a b k xa xb ha hb a xa ha, prologueFixed_preserves h a b k xa xb ha hb b xb hb⟩

/-- the code before the repair does change the caller's object (the defect the C19 check found): a 2×2 argument
comes back with shape [4,1] -/
theorem prologueOld_modifies :
    lookup (prologueOld [(0, ⟨[2, 2], [1, 2, 3, 4]⟩), (1, ⟨[2, 2], [5, 6, 7, 8]⟩)] 0 1 2).1 0
      = some ⟨[4, 1], [1, 2, 3, 4]⟩ := by decide +kernel

/-- non-vacuity of `prologueFixed_preserves` on the same heap -/
example : lookup (prologueFixed [(0, ⟨[2, 2], [1, 2, 3, 4]⟩), (1, ⟨[2, 2], [5, 6, 7, 8]⟩)] 0 1 2).1 0
      = some ⟨[2, 2], [1, 2, 3, 4]⟩ ∧
    solverInput (prologueFixed [(0, ⟨[2, 2], [1, 2, 3, 4]⟩), (1, ⟨[2, 2], [5, 6, 7, 8]⟩)] 0 1 2)
      = some ([1, 2, 3, 4], [5, 6, 7, 8]) := by decide +kernel

end Args
