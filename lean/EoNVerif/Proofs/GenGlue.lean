import EoNVerif.Gen.OdeGlue
import EoNVerif.Proofs.ODE
import Mathlib.Tactic.Ring
import Mathlib.Tactic.FieldSimp
/-!
Helper definitions and lemmas for C06d (`Props/C06d.lean`): the twelve ODE entry points GENERATED into
`Gen/OdeGlue.lean` (namespace `GenGlue`), for an arbitrary solver `odeint : (V → V) → V → Nat → V`.

* accessors `get` / `getV` / `getM` / `getN` into the returned list of arrays;
* the closed forms `out…` of the returned list as a function of the solution `X : Nat → V` (row `i` = time index `i`);
* `linspace`, `sumTo` and `V` index lemmas.
-/
namespace GenGlueProofs
open Gen PyGlue
open ODE (sumTo)

/-- a solver: right-hand side, initial vector ↦ row `i` of the solution at time index `i` -/
abbrev Solver : Type := (V → V) → V → Nat → V

/-- the documented contract of `scipy.integrate.odeint`: row 0 of the solution is the initial state -/
def RowZero (odeint : Solver) : Prop := ∀ (rhs : V → V) (X0 : V), odeint rhs X0 0 = X0

/-! ## accessors -/

/-- value at time index `i` of the `j`-th returned array when it is a time series (`0` otherwise) -/
def get (l : List Ser) (j i : Nat) : Rat :=
  match l[j]? with
  | some (Ser.s f) => f i
  | _ => 0

/-- class vector at time index `i` of the `j`-th returned array when it is a (class × time) array -/
def getV (l : List Ser) (j i : Nat) : V :=
  match l[j]? with
  | some (Ser.m f) => f i
  | _ => ⟨0, fun _ => 0⟩

/-- entry (class `k`, time index `i`) of the `j`-th returned array -/
def getM (l : List Ser) (j i k : Nat) : Rat := (getV l j i).f k
/-- number of classes of the `j`-th returned array at time index `i` -/
def getN (l : List Ser) (j i : Nat) : Nat := (getV l j i).n

@[simp] theorem get_zero_s (f : Nat → Rat) (l : List Ser) (i : Nat) : get (Ser.s f :: l) 0 i = f i := rfl
@[simp] theorem get_succ (a : Ser) (l : List Ser) (j i : Nat) : get (a :: l) (j + 1) i = get l j i := by
  simp [get]
@[simp] theorem getV_zero_m (f : Nat → V) (l : List Ser) (i : Nat) : getV (Ser.m f :: l) 0 i = f i := rfl
@[simp] theorem getV_succ (a : Ser) (l : List Ser) (j i : Nat) : getV (a :: l) (j + 1) i = getV l j i := by
  simp [getV]

/-- `(if g then error else ok a) = ok l` means the guard did not fire and `l = a` -/
theorem ok_of_ite {g : Prop} [Decidable g] {e : String} {a l : List Ser}
    (h : (if g then (Except.error e : Except String (List Ser)) else Except.ok a) = Except.ok l) : ¬ g ∧ a = l := by
  by_cases hg : g
  · rw [if_pos hg] at h; cases h
  · rw [if_neg hg] at h; injection h with h; exact ⟨hg, h⟩

/-- neither branch of a guarded closed form is a `ValueError` -/
theorem ite_ne_valueError {g : Prop} [Decidable g] {a : List Ser} :
    (if g then (Except.error "EoNError" : Except String (List Ser)) else Except.ok a) ≠ Except.error "ValueError" := by
  split
  · intro h; injection h with h; exact absurd h (by decide)
  · intro h; cases h

theorem ok_inj {a l : List Ser} (h : (Except.ok a : Except String (List Ser)) = Except.ok l) : a = l := by
  injection h

/-! ## `linspace` -/

theorem linspace_zero (tmin tmax : Rat) (tcount : Nat) : linspace tmin tmax tcount 0 = tmin := by
  unfold linspace
  split
  · rfl
  · simp

theorem linspace_last (tmin tmax : Rat) (tcount : Nat) (h : 2 ≤ tcount) :
    linspace tmin tmax tcount (tcount - 1) = tmax := by
  unfold linspace
  have h1 : ¬ tcount ≤ 1 := by omega
  rw [if_neg h1]
  have hc : ((tcount - 1 : Nat) : Rat) = (tcount : Rat) - 1 := by
    rw [Nat.cast_sub (by omega)]; simp
  rw [hc]
  have hne : (tcount : Rat) - 1 ≠ 0 := by
    have : (2 : Rat) ≤ (tcount : Rat) := by exact_mod_cast h
    intro h0
    have : (tcount : Rat) = 1 := by linarith
    linarith
  field_simp
  ring

/-- the step of the grid is constant -/
theorem linspace_step (tmin tmax : Rat) (tcount : Nat) (h : 2 ≤ tcount) (i : Nat) :
    linspace tmin tmax tcount (i + 1) - linspace tmin tmax tcount i = (tmax - tmin) / ((tcount : Rat) - 1) := by
  unfold linspace
  have h1 : ¬ tcount ≤ 1 := by omega
  rw [if_neg h1, if_neg h1]
  push_cast
  ring

/-! ## `sumTo` -/

theorem sumTo_sub (K : Nat) (f g : Nat → Rat) : sumTo K (fun k => f k - g k) = sumTo K f - sumTo K g := by
  induction K with
  | zero => simp [ODE.sumTo_zero_left]
  | succ K ih => rw [ODE.sumTo_succ, ODE.sumTo_succ, ODE.sumTo_succ, ih]; ring

theorem sumTo_sub3 (K : Nat) (f g h : Nat → Rat) :
    sumTo K (fun k => f k - g k - h k) = sumTo K f - sumTo K g - sumTo K h := by
  rw [sumTo_sub K (fun k => f k - g k) h, sumTo_sub]

theorem sumTo_add3 (K : Nat) (f g h : Nat → Rat) :
    sumTo K (fun k => f k + g k + h k) = sumTo K f + sumTo K g + sumTo K h := by
  rw [ODE.sumTo_add K (fun k => f k + g k) h, ODE.sumTo_add]

/-- a sum over a concatenation splits -/
theorem sumTo_split (a b : Nat) (f : Nat → Rat) : sumTo (a + b) f = sumTo a f + sumTo b (fun k => f (a + k)) := by
  induction b with
  | zero => simp [ODE.sumTo_zero_left]
  | succ b ih => rw [← Nat.add_assoc, ODE.sumTo_succ, ODE.sumTo_succ, ih]; ring

theorem sumTo_append_left (a b : V) : sumTo a.n (V.append a b).f = sumTo a.n a.f :=
  ODE.sumTo_congr _ _ _ (fun k hk => V.append_f_lt a b k hk)

theorem sumTo_append_right (a b : V) : sumTo b.n (fun k => (V.append a b).f (a.n + k)) = sumTo b.n b.f :=
  ODE.sumTo_congr _ _ _ (fun k _ => V.append_f_ge a b k)

theorem sumTo_append (a b : V) : sumTo (a.n + b.n) (V.append a b).f = sumTo a.n a.f + sumTo b.n b.f := by
  rw [sumTo_split, sumTo_append_left, sumTo_append_right]

theorem sumTo_two (f : Nat → Rat) : sumTo 2 f = f 0 + f 1 := by
  rw [show (2 : Nat) = 0 + 1 + 1 from rfl, ODE.sumTo_succ, ODE.sumTo_succ, ODE.sumTo_zero_left]; ring

/-! ## `V` index lemmas -/

@[simp] theorem ofList_f_zero (a : Rat) (l : List Rat) : (V.ofList (a :: l)).f 0 = a := rfl
@[simp] theorem ofList_f_succ (a : Rat) (l : List Rat) (j : Nat) : (V.ofList (a :: l)).f (j + 1) = (V.ofList l).f j := rfl
theorem append_f_n (a b : V) : (V.append a b).f a.n = b.f 0 := V.append_f_ge a b 0
theorem append_f_one (a : Rat) (b : V) (k : Nat) : (V.append (V.ofList [a]) b).f (1 + k) = b.f k :=
  V.append_f_ge (V.ofList [a]) b k
theorem append_f_one_zero (a : Rat) (b : V) : (V.append (V.ofList [a]) b).f 0 = a :=
  V.append_f_lt (V.ofList [a]) b 0 (by simp)

/-- `a + b` for class vectors as NumPy computes it on arrays of equal length (the length of `a`) -/
def vadd (a b : V) : V := ⟨a.n, fun k => a.f k + b.f k⟩
@[simp] theorem vadd_n (a b : V) : (vadd a b).n = a.n := rfl
@[simp] theorem vadd_f (a b : V) (k : Nat) : (vadd a b).f k = a.f k + b.f k := rfl

/-! ## closed forms of the returned lists; `T` is the time grid, `X` the solution (row `i` at time index `i`) -/

/-- `SIS_homogeneous_meanfield`: `S, I = X.T` -/
def outSISHomMF (T : Nat → Rat) (X : Nat → V) : List Ser :=
  [Ser.s T, Ser.s (fun i => (X i).f 0), Ser.s (fun i => (X i).f 1)]

/-- `SIR_homogeneous_meanfield`: `S, I = X.T; R = N - S - I` -/
def outSIRHomMF (T : Nat → Rat) (N : Rat) (X : Nat → V) : List Ser :=
  [Ser.s T, Ser.s (fun i => (X i).f 0), Ser.s (fun i => (X i).f 1), Ser.s (fun i => N - (X i).f 0 - (X i).f 1)]

/-- `SIS_homogeneous_pairwise`: `S, SI, SS = X.T; I = N - S; II = N*n - SS - 2*SI` -/
def outSISHomPW (T : Nat → Rat) (N n : Rat) (full : Bool) (X : Nat → V) : List Ser :=
  if full then
    [Ser.s T, Ser.s (fun i => (X i).f 0), Ser.s (fun i => N - (X i).f 0), Ser.s (fun i => (X i).f 1),
     Ser.s (fun i => (X i).f 2), Ser.s (fun i => N * n - (X i).f 2 - 2 * (X i).f 1)]
  else [Ser.s T, Ser.s (fun i => (X i).f 0), Ser.s (fun i => N - (X i).f 0)]

/-- `SIR_homogeneous_pairwise`: `S, I, SI, SS = X.T; R = N - S - I` -/
def outSIRHomPW (T : Nat → Rat) (N : Rat) (full : Bool) (X : Nat → V) : List Ser :=
  if full then
    [Ser.s T, Ser.s (fun i => (X i).f 0), Ser.s (fun i => (X i).f 1), Ser.s (fun i => N - (X i).f 0 - (X i).f 1),
     Ser.s (fun i => (X i).f 2), Ser.s (fun i => (X i).f 3)]
  else [Ser.s T, Ser.s (fun i => (X i).f 0), Ser.s (fun i => (X i).f 1), Ser.s (fun i => N - (X i).f 0 - (X i).f 1)]

/-- `SIS_heterogeneous_meanfield`: `Sk = X.T[:K]`, `Ik = X.T[K:]` (`M` further rows), `S`, `I` their sums -/
def outSISHetMF (T : Nat → Rat) (K M : Nat) (full : Bool) (X : Nat → V) : List Ser :=
  if full then
    [Ser.s T, Ser.s (fun i => sumTo K (fun k => (X i).f k)), Ser.s (fun i => sumTo M (fun k => (X i).f (K + k))),
     Ser.m (fun i => ⟨K, fun k => (X i).f k⟩), Ser.m (fun i => ⟨M, fun k => (X i).f (K + k)⟩)]
  else [Ser.s T, Ser.s (fun i => sumTo K (fun k => (X i).f k)), Ser.s (fun i => sumTo M (fun k => (X i).f (K + k)))]

/-- `SIR_heterogeneous_meanfield`: `theta = X[:,0]`, `Rk = X.T[1:]` (`M` rows), `Sk = Sk0 * theta**k`,
`Ik = Nk - Sk - Rk`; without full data the three sums -/
def outSIRHetMF (T : Nat → Rat) (Sk0 Nk : V) (M : Nat) (full : Bool) (X : Nat → V) : List Ser :=
  if full then
    [Ser.s T, Ser.m (fun i => ⟨Sk0.n, fun k => Sk0.f k * (X i).f 0 ^ k⟩),
     Ser.m (fun i => ⟨Nk.n, fun k => Nk.f k - Sk0.f k * (X i).f 0 ^ k - (X i).f (1 + k)⟩),
     Ser.m (fun i => ⟨M, fun k => (X i).f (1 + k)⟩)]
  else
    [Ser.s T, Ser.s (fun i => sumTo Sk0.n (fun k => Sk0.f k * (X i).f 0 ^ k)),
     Ser.s (fun i => sumTo Nk.n (fun k => Nk.f k - Sk0.f k * (X i).f 0 ^ k - (X i).f (1 + k))),
     Ser.s (fun i => sumTo M (fun k => (X i).f (1 + k)))]

/-- `SIS_compact_pairwise`: `Sk = X.T[:K]`, `SI, SS = X.T[K:]`, `Ik = Nk - Sk`, `II = twoM - SS - 2*SI` -/
def outSISCompactPW (T : Nat → Rat) (Nk : V) (twoM : Rat) (K : Nat) (full : Bool) (X : Nat → V) : List Ser :=
  if full then
    [Ser.s T, Ser.s (fun i => sumTo K (fun k => (X i).f k)), Ser.s (fun i => sumTo Nk.n (fun k => Nk.f k - (X i).f k)),
     Ser.m (fun i => ⟨K, fun k => (X i).f k⟩), Ser.m (fun i => ⟨Nk.n, fun k => Nk.f k - (X i).f k⟩),
     Ser.s (fun i => (X i).f K), Ser.s (fun i => (X i).f (K + 1)),
     Ser.s (fun i => twoM - (X i).f (K + 1) - 2 * (X i).f K)]
  else [Ser.s T, Ser.s (fun i => sumTo K (fun k => (X i).f k)), Ser.s (fun i => sumTo Nk.n (fun k => Nk.f k - (X i).f k))]

/-- `SIR_compact_pairwise`: `Sk = X.T[:K]`, `SS, SI, R = X.T[K:]`, `S = Sk.sum`, `I = N - R - S` -/
def outSIRCompactPW (T : Nat → Rat) (N : Rat) (K : Nat) (full : Bool) (X : Nat → V) : List Ser :=
  if full then
    [Ser.s T, Ser.m (fun i => ⟨K, fun k => (X i).f k⟩),
     Ser.s (fun i => N - (X i).f (K + 2) - sumTo K (fun k => (X i).f k)), Ser.s (fun i => (X i).f (K + 2)),
     Ser.s (fun i => (X i).f K), Ser.s (fun i => (X i).f (K + 1))]
  else
    [Ser.s T, Ser.s (fun i => sumTo K (fun k => (X i).f k)),
     Ser.s (fun i => N - (X i).f (K + 2) - sumTo K (fun k => (X i).f k)), Ser.s (fun i => (X i).f (K + 2))]

/-- `SIS_super_compact_pairwise`: `I, SS, SI, II = X.T; S = N - I` -/
def outSISSuperCompactPW (T : Nat → Rat) (N : Rat) (full : Bool) (X : Nat → V) : List Ser :=
  if full then
    [Ser.s T, Ser.s (fun i => N - (X i).f 0), Ser.s (fun i => (X i).f 0), Ser.s (fun i => (X i).f 1),
     Ser.s (fun i => (X i).f 2), Ser.s (fun i => (X i).f 3)]
  else [Ser.s T, Ser.s (fun i => N - (X i).f 0), Ser.s (fun i => (X i).f 0)]

/-- `SIR_super_compact_pairwise`: `theta, SS, SI, R = X.T; S = N*psihat(theta); I = N - S - R` -/
def outSIRSuperCompactPW (T : Nat → Rat) (N : Rat) (psihat : Rat → Rat) (full : Bool) (X : Nat → V) : List Ser :=
  if full then
    [Ser.s T, Ser.s (fun i => N * psihat ((X i).f 0)), Ser.s (fun i => N - N * psihat ((X i).f 0) - (X i).f 3),
     Ser.s (fun i => (X i).f 3), Ser.s (fun i => (X i).f 1), Ser.s (fun i => (X i).f 2)]
  else
    [Ser.s T, Ser.s (fun i => N * psihat ((X i).f 0)), Ser.s (fun i => N - N * psihat ((X i).f 0) - (X i).f 3),
     Ser.s (fun i => (X i).f 3)]

/-- `SIR_compact_effective_degree`: `Skappa = X.T[:K]`, `R, SI = X.T[K:]`, `S = Skappa.sum`, `I = N - S - R` -/
def outSIRCompactED (T : Nat → Rat) (N : Rat) (K : Nat) (full : Bool) (X : Nat → V) : List Ser :=
  if full then
    [Ser.s T, Ser.s (fun i => sumTo K (fun k => (X i).f k)),
     Ser.s (fun i => N - sumTo K (fun k => (X i).f k) - (X i).f K), Ser.s (fun i => (X i).f K),
     Ser.m (fun i => ⟨K, fun k => (X i).f k⟩), Ser.s (fun i => (X i).f (K + 1))]
  else
    [Ser.s T, Ser.s (fun i => sumTo K (fun k => (X i).f k)),
     Ser.s (fun i => N - sumTo K (fun k => (X i).f k) - (X i).f K), Ser.s (fun i => (X i).f K)]

/-- `EBCM`: `theta = X[:,0]; R = X[:,1]; S = N*psihat(theta); I = N - S - R` -/
def outEBCM (T : Nat → Rat) (N : Rat) (psihat : Rat → Rat) (full : Bool) (X : Nat → V) : List Ser :=
  if full then
    [Ser.s T, Ser.s (fun i => N * psihat ((X i).f 0)), Ser.s (fun i => N - N * psihat ((X i).f 0) - (X i).f 1),
     Ser.s (fun i => (X i).f 1), Ser.s (fun i => (X i).f 0)]
  else
    [Ser.s T, Ser.s (fun i => N * psihat ((X i).f 0)), Ser.s (fun i => N - N * psihat ((X i).f 0) - (X i).f 1),
     Ser.s (fun i => (X i).f 1)]


/-! ## lemmas about the closed forms of the class-structured models (abstract solution `X`) -/
section out
variable (T : Nat → Rat) (X : Nat → V)

/-! ### `outSISHetMF` -/
theorem outSISHetMF_sum (K M : Nat) (full : Bool) (i : Nat) :
    get (outSISHetMF T K M full X) 1 i + get (outSISHetMF T K M full X) 2 i = sumTo (K + M) (X i).f := by
  cases full <;> simp [outSISHetMF, sumTo_split]

theorem outSISHetMF_init (Sk0 Ik0 : V) (full : Bool) (hX : X 0 = V.append Sk0 Ik0) :
    get (outSISHetMF T Sk0.n Ik0.n full X) 1 0 = sumTo Sk0.n Sk0.f ∧
    get (outSISHetMF T Sk0.n Ik0.n full X) 2 0 = sumTo Ik0.n Ik0.f := by
  cases full <;> simp [outSISHetMF, hX, sumTo_append_left, sumTo_append_right]

theorem outSISHetMF_full (K M : Nat) (i : Nat) :
    getN (outSISHetMF T K M true X) 3 i = K ∧ getN (outSISHetMF T K M true X) 4 i = M ∧
    get (outSISHetMF T K M true X) 1 i = sumTo K (getM (outSISHetMF T K M true X) 3 i) ∧
    get (outSISHetMF T K M true X) 2 i = sumTo M (getM (outSISHetMF T K M true X) 4 i) ∧
    (∀ k, getM (outSISHetMF T K M true X) 3 i k = (X i).f k) ∧
    (∀ k, getM (outSISHetMF T K M true X) 4 i k = (X i).f (K + k)) := by
  refine ⟨rfl, rfl, rfl, rfl, fun _ => rfl, fun _ => rfl⟩

/-! ### `outSIRHetMF` -/
theorem outSIRHetMF_conserve (Sk0 Nk : V) (i : Nat) (hN : Nk.n = Sk0.n) :
    get (outSIRHetMF T Sk0 Nk Sk0.n false X) 1 i + get (outSIRHetMF T Sk0 Nk Sk0.n false X) 2 i
      + get (outSIRHetMF T Sk0 Nk Sk0.n false X) 3 i = sumTo Sk0.n Nk.f := by
  simp only [outSIRHetMF, Bool.false_eq_true, if_false, get_succ, get_zero_s, hN]
  rw [sumTo_sub3]
  ring

theorem outSIRHetMF_conserve_full (Sk0 Nk : V) (M : Nat) (i k : Nat) :
    getM (outSIRHetMF T Sk0 Nk M true X) 1 i k + getM (outSIRHetMF T Sk0 Nk M true X) 2 i k
      + getM (outSIRHetMF T Sk0 Nk M true X) 3 i k = Nk.f k := by
  simp only [outSIRHetMF, if_true, getM, getV_succ, getV_zero_m]
  ring

theorem outSIRHetMF_classes (Sk0 Nk : V) (M : Nat) (i : Nat) :
    getN (outSIRHetMF T Sk0 Nk M true X) 1 i = Sk0.n ∧ getN (outSIRHetMF T Sk0 Nk M true X) 2 i = Nk.n ∧
    getN (outSIRHetMF T Sk0 Nk M true X) 3 i = M := ⟨rfl, rfl, rfl⟩

/-- the returned sums are the sums of the classes of the full-data variant -/
theorem outSIRHetMF_sums (Sk0 Nk : V) (M : Nat) (i : Nat) :
    get (outSIRHetMF T Sk0 Nk M false X) 1 i = sumTo Sk0.n (getM (outSIRHetMF T Sk0 Nk M true X) 1 i) ∧
    get (outSIRHetMF T Sk0 Nk M false X) 2 i = sumTo Nk.n (getM (outSIRHetMF T Sk0 Nk M true X) 2 i) ∧
    get (outSIRHetMF T Sk0 Nk M false X) 3 i = sumTo M (getM (outSIRHetMF T Sk0 Nk M true X) 3 i) := ⟨rfl, rfl, rfl⟩

theorem outSIRHetMF_init_full (Sk0 Ik0 Rk0 : V) (hX : X 0 = V.append (V.ofList [1]) Rk0) (k : Nat) :
    getM (outSIRHetMF T Sk0 (vadd (vadd Sk0 Ik0) Rk0) Rk0.n true X) 1 0 k = Sk0.f k ∧
    getM (outSIRHetMF T Sk0 (vadd (vadd Sk0 Ik0) Rk0) Rk0.n true X) 2 0 k = Ik0.f k ∧
    getM (outSIRHetMF T Sk0 (vadd (vadd Sk0 Ik0) Rk0) Rk0.n true X) 3 0 k = Rk0.f k := by
  simp only [outSIRHetMF, if_true, getM, getV_succ, getV_zero_m, hX, append_f_one, append_f_one_zero, one_pow,
    mul_one, vadd_f]
  refine ⟨trivial, ?_, trivial⟩
  ring

theorem outSIRHetMF_init (Sk0 Ik0 Rk0 : V) (hX : X 0 = V.append (V.ofList [1]) Rk0) :
    get (outSIRHetMF T Sk0 (vadd (vadd Sk0 Ik0) Rk0) Rk0.n false X) 1 0 = sumTo Sk0.n Sk0.f ∧
    get (outSIRHetMF T Sk0 (vadd (vadd Sk0 Ik0) Rk0) Rk0.n false X) 2 0 = sumTo Sk0.n Ik0.f ∧
    get (outSIRHetMF T Sk0 (vadd (vadd Sk0 Ik0) Rk0) Rk0.n false X) 3 0 = sumTo Rk0.n Rk0.f := by
  simp only [outSIRHetMF, Bool.false_eq_true, if_false, get_succ, get_zero_s, hX, append_f_one, append_f_one_zero,
    one_pow, mul_one, vadd_f, vadd_n]
  refine ⟨trivial, ?_, trivial⟩
  apply ODE.sumTo_congr
  intro k _
  ring

/-! ### `outSISCompactPW` -/
theorem outSISCompactPW_conserve (Nk : V) (twoM : Rat) (full : Bool) (i : Nat) :
    get (outSISCompactPW T Nk twoM Nk.n full X) 1 i + get (outSISCompactPW T Nk twoM Nk.n full X) 2 i
      = sumTo Nk.n Nk.f := by
  cases full <;>
    simp only [outSISCompactPW, Bool.false_eq_true, if_false, if_true, get_succ, get_zero_s] <;>
    rw [sumTo_sub] <;> ring

theorem outSISCompactPW_full (Nk : V) (twoM : Rat) (K : Nat) (i : Nat) :
    getN (outSISCompactPW T Nk twoM K true X) 3 i = K ∧ getN (outSISCompactPW T Nk twoM K true X) 4 i = Nk.n ∧
    get (outSISCompactPW T Nk twoM K true X) 1 i = sumTo K (getM (outSISCompactPW T Nk twoM K true X) 3 i) ∧
    get (outSISCompactPW T Nk twoM K true X) 2 i = sumTo Nk.n (getM (outSISCompactPW T Nk twoM K true X) 4 i) ∧
    (∀ k, getM (outSISCompactPW T Nk twoM K true X) 3 i k + getM (outSISCompactPW T Nk twoM K true X) 4 i k = Nk.f k) ∧
    get (outSISCompactPW T Nk twoM K true X) 6 i + 2 * get (outSISCompactPW T Nk twoM K true X) 5 i
      + get (outSISCompactPW T Nk twoM K true X) 7 i = twoM := by
  refine ⟨rfl, rfl, rfl, rfl, fun k => ?_, ?_⟩
  · simp only [outSISCompactPW, if_true, getM, getV_succ, getV_zero_m]; ring
  · simp only [outSISCompactPW, if_true, get_succ, get_zero_s]; ring

theorem outSISCompactPW_init (Sk0 Ik0 : V) (twoM SI0 SS0 : Rat) (full : Bool)
    (hX : X 0 = V.append Sk0 (V.ofList [SI0, SS0])) :
    get (outSISCompactPW T (vadd Sk0 Ik0) twoM Sk0.n full X) 1 0 = sumTo Sk0.n Sk0.f ∧
    get (outSISCompactPW T (vadd Sk0 Ik0) twoM Sk0.n full X) 2 0 = sumTo Sk0.n Ik0.f := by
  have e : sumTo Sk0.n (fun k => Sk0.f k + Ik0.f k - (V.append Sk0 (V.ofList [SI0, SS0])).f k) = sumTo Sk0.n Ik0.f := by
    apply ODE.sumTo_congr
    intro k hk
    rw [V.append_f_lt _ _ k hk]; ring
  cases full <;>
    simp only [outSISCompactPW, Bool.false_eq_true, if_false, if_true, get_succ, get_zero_s, hX, vadd_n, vadd_f] <;>
    exact ⟨sumTo_append_left _ _, e⟩

theorem outSISCompactPW_init_full (Sk0 Ik0 : V) (twoM SI0 SS0 : Rat)
    (hX : X 0 = V.append Sk0 (V.ofList [SI0, SS0])) :
    (∀ k, k < Sk0.n → getM (outSISCompactPW T (vadd Sk0 Ik0) twoM Sk0.n true X) 3 0 k = Sk0.f k) ∧
    (∀ k, k < Sk0.n → getM (outSISCompactPW T (vadd Sk0 Ik0) twoM Sk0.n true X) 4 0 k = Ik0.f k) ∧
    get (outSISCompactPW T (vadd Sk0 Ik0) twoM Sk0.n true X) 5 0 = SI0 ∧
    get (outSISCompactPW T (vadd Sk0 Ik0) twoM Sk0.n true X) 6 0 = SS0 ∧
    get (outSISCompactPW T (vadd Sk0 Ik0) twoM Sk0.n true X) 7 0 = twoM - SS0 - 2 * SI0 := by
  simp only [outSISCompactPW, if_true, getM, get_succ, get_zero_s, getV_succ, getV_zero_m, hX, vadd_f, append_f_n,
    V.append_f_ge, ofList_f_zero, ofList_f_succ]
  refine ⟨fun k hk => V.append_f_lt _ _ k hk, fun k hk => ?_, trivial, trivial, trivial⟩
  rw [V.append_f_lt _ _ k hk]; ring

/-! ### `outSIRCompactPW` -/
theorem outSIRCompactPW_conserve (N : Rat) (K : Nat) (i : Nat) :
    get (outSIRCompactPW T N K false X) 1 i + get (outSIRCompactPW T N K false X) 2 i
      + get (outSIRCompactPW T N K false X) 3 i = N := by
  simp only [outSIRCompactPW, Bool.false_eq_true, if_false, get_succ, get_zero_s]; ring

theorem outSIRCompactPW_conserve_full (N : Rat) (K : Nat) (i : Nat) :
    getN (outSIRCompactPW T N K true X) 1 i = K ∧
    sumTo K (getM (outSIRCompactPW T N K true X) 1 i) + get (outSIRCompactPW T N K true X) 2 i
      + get (outSIRCompactPW T N K true X) 3 i = N := by
  refine ⟨rfl, ?_⟩
  simp only [outSIRCompactPW, if_true, get_succ, get_zero_s]
  show sumTo K (fun k => (X i).f k) + _ + _ = N
  ring

theorem outSIRCompactPW_init (Sk0 : V) (I0 R0 SS0 SI0 : Rat) (hX : X 0 = V.append Sk0 (V.ofList [SS0, SI0, R0])) :
    get (outSIRCompactPW T (I0 + R0 + sumTo Sk0.n Sk0.f) Sk0.n false X) 1 0 = sumTo Sk0.n Sk0.f ∧
    get (outSIRCompactPW T (I0 + R0 + sumTo Sk0.n Sk0.f) Sk0.n false X) 2 0 = I0 ∧
    get (outSIRCompactPW T (I0 + R0 + sumTo Sk0.n Sk0.f) Sk0.n false X) 3 0 = R0 := by
  simp only [outSIRCompactPW, Bool.false_eq_true, if_false, get_succ, get_zero_s, hX, V.append_f_ge,
    ofList_f_zero, ofList_f_succ]
  have e : sumTo Sk0.n (fun k => (V.append Sk0 (V.ofList [SS0, SI0, R0])).f k) = sumTo Sk0.n Sk0.f :=
    sumTo_append_left _ _
  rw [e]
  refine ⟨rfl, ?_, trivial⟩
  ring

theorem outSIRCompactPW_init_full (Sk0 : V) (I0 R0 SS0 SI0 : Rat)
    (hX : X 0 = V.append Sk0 (V.ofList [SS0, SI0, R0])) :
    (∀ k, k < Sk0.n → getM (outSIRCompactPW T (I0 + R0 + sumTo Sk0.n Sk0.f) Sk0.n true X) 1 0 k = Sk0.f k) ∧
    get (outSIRCompactPW T (I0 + R0 + sumTo Sk0.n Sk0.f) Sk0.n true X) 2 0 = I0 ∧
    get (outSIRCompactPW T (I0 + R0 + sumTo Sk0.n Sk0.f) Sk0.n true X) 3 0 = R0 ∧
    get (outSIRCompactPW T (I0 + R0 + sumTo Sk0.n Sk0.f) Sk0.n true X) 4 0 = SS0 ∧
    get (outSIRCompactPW T (I0 + R0 + sumTo Sk0.n Sk0.f) Sk0.n true X) 5 0 = SI0 := by
  simp only [outSIRCompactPW, if_true, getM, get_succ, get_zero_s, getV_succ, getV_zero_m, hX, append_f_n,
    V.append_f_ge, ofList_f_zero, ofList_f_succ]
  have e : sumTo Sk0.n (fun k => (V.append Sk0 (V.ofList [SS0, SI0, R0])).f k) = sumTo Sk0.n Sk0.f :=
    sumTo_append_left _ _
  rw [e]
  refine ⟨fun k hk => V.append_f_lt _ _ k hk, ?_, trivial, trivial, trivial⟩
  ring

/-! ### `outSIRCompactED` -/
theorem outSIRCompactED_conserve (N : Rat) (K : Nat) (full : Bool) (i : Nat) :
    get (outSIRCompactED T N K full X) 1 i + get (outSIRCompactED T N K full X) 2 i
      + get (outSIRCompactED T N K full X) 3 i = N := by
  cases full <;> simp only [outSIRCompactED, Bool.false_eq_true, if_false, if_true, get_succ, get_zero_s] <;> ring

theorem outSIRCompactED_full (N : Rat) (K : Nat) (i : Nat) :
    getN (outSIRCompactED T N K true X) 4 i = K ∧
    get (outSIRCompactED T N K true X) 1 i = sumTo K (getM (outSIRCompactED T N K true X) 4 i) := ⟨rfl, rfl⟩

theorem outSIRCompactED_init (Sk0 : V) (I0 R0 SI0 : Rat) (full : Bool)
    (hX : X 0 = V.append Sk0 (V.ofList [R0, SI0])) :
    get (outSIRCompactED T (sumTo Sk0.n Sk0.f + I0 + R0) Sk0.n full X) 1 0 = sumTo Sk0.n Sk0.f ∧
    get (outSIRCompactED T (sumTo Sk0.n Sk0.f + I0 + R0) Sk0.n full X) 2 0 = I0 ∧
    get (outSIRCompactED T (sumTo Sk0.n Sk0.f + I0 + R0) Sk0.n full X) 3 0 = R0 := by
  have e : sumTo Sk0.n (fun k => (V.append Sk0 (V.ofList [R0, SI0])).f k) = sumTo Sk0.n Sk0.f :=
    sumTo_append_left _ _
  cases full <;>
    simp only [outSIRCompactED, Bool.false_eq_true, if_false, if_true, get_succ, get_zero_s, hX, append_f_n,
      ofList_f_zero] <;>
    rw [e] <;> refine ⟨rfl, ?_, trivial⟩ <;> ring

theorem outSIRCompactED_init_full (Sk0 : V) (N R0 SI0 : Rat) (hX : X 0 = V.append Sk0 (V.ofList [R0, SI0])) :
    (∀ k, k < Sk0.n → getM (outSIRCompactED T N Sk0.n true X) 4 0 k = Sk0.f k) ∧
    get (outSIRCompactED T N Sk0.n true X) 5 0 = SI0 := by
  simp only [outSIRCompactED, if_true, getM, get_succ, get_zero_s, getV_succ, getV_zero_m, hX,
    V.append_f_ge, ofList_f_zero, ofList_f_succ]
  exact ⟨fun k hk => V.append_f_lt _ _ k hk, trivial⟩

end out

/-- the toy solver of the closed examples: row `i` moves `i` units from component 0 to component 1 -/
def toyOdeint : Solver :=
  fun _ X0 i => ⟨X0.n, fun k => X0.f k + (i : Rat) * (if k = 0 then -1 else if k = 1 then 1 else 0)⟩

/-- the toy solver returns the initial state in row 0 -/
theorem toyOdeint_zero (rhs : V → V) (X0 : V) : toyOdeint rhs X0 0 = X0 := by
  cases X0
  simp [toyOdeint]


/-- the values at time index `i` of a returned array: `[value]` for a series, the class vector for a class array -/
def serAt (s : Ser) (i : Nat) : List Rat :=
  match s with
  | Ser.s f => [f i]
  | Ser.m f => (f i).toList

/-- the result of an entry point read at time index `i` (decidable equality: used by the closed examples) -/
def rowAt (r : Except String (List Ser)) (i : Nat) : String ⊕ List (List Rat) :=
  match r with
  | .error e => .inl e
  | .ok l => .inr (l.map (fun s => serAt s i))

/-- a solver that does not preserve the sum of the state (adds `i` to every component in row `i`) -/
def badOdeint : Solver := fun _ X0 i => ⟨X0.n, fun k => X0.f k + (i : Rat)⟩

end GenGlueProofs
