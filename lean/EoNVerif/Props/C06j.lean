import EoNVerif.Proofs.GenWrap4
import EoNVerif.Props.C06h
import EoNVerif.Props.C20c
import EoNVerif.Props.C06i
/-!
C06j — continuation of C06e / C06g / C06h for the `*_from_graph` wrappers of `EoN/analytic.py` GENERATED into
`Gen/WrapGen.lean` that those files do not cover.  Lemmas: `Proofs/GenWrap4.lean`.  Hypotheses and vocabulary as before:
`GraphOK A.toIArgs adj`, `GraphOKW A adj` (= `GraphOK` + "`G.neighbors(u)` is the adjacency list of `u`"),
`SetsOK adj infs recs` (disjoint lists of graph nodes), `N = adj.length`, `count`, `classCount`, `pairCount`, `twoM` of
`Model/InitCond.lean`, `psiHatG`, `psiHatPG` (the graph's own `ψ̂`, `ψ̂'`) of C06h, `psiK`, `psiKP` of GenWrap2/3.

Covered: (1) the explicit-sets branch of `SIR_compact_effective_degree_from_graph`; (2) `SIS_super_compact_pairwise_from_graph`
and `SIR_super_compact_pairwise_from_graph` (records for explicit sets and `rho` / default, exceptions with precedence,
totals, end to end with C06d); (4) the argument records of `EBCM_pref_mix_from_graph` / `EBCM_pref_mix_discrete_from_graph`.
NOT covered (no statement here): `SIS/SIR_effective_degree_from_graph` (the `(s,i)` tables); the general proof that
`KeysOK` holds for `get_Pk(G)` / `get_Pnk(G)` (only kernel-checked on `exW`); the `rho` variant of the
attack-rate ↔ `EBCM_discrete` link.
-/
set_option linter.unusedSimpArgs false
namespace GenWrapProps4
open GenInit InitCond GenInitProofs GenWrap GenWrapProofs GenWrapProofs2 GenWrapProofs3 GenWrapProofs4 GenGlueProofs
open GenWrapProps GenWrapProps2 GenWrapProps3
open GenHelpProofs (PkAL kAveAL)
open Gen PyGlue

/-! ## 1. `SIR_compact_effective_degree_from_graph`, explicit sets -/

/-- number of NON-RECOVERED neighbours of `u` (the `kappa` of the wrapper) -/
def nrDeg (adj : List (List Nat)) (st : Nat → St) (u : Nat) : Nat := ((adj.getD u []).filter fun v => st v ≠ St.R).length

/-- number of SUSCEPTIBLE nodes having exactly `k` non-recovered neighbours -/
def kappaCount (adj : List (List Nat)) (st : Nat → St) (k : Nat) : Nat :=
  ((List.range adj.length).filter fun u => nrDeg adj st u = k ∧ st u = St.S).length

theorem nrDeg_le (adj : List (List Nat)) (st : Nat → St) (u : Nat) (hu : u < adj.length) :
    nrDeg adj st u ≤ maxDeg adj :=
  le_trans (List.length_filter_le _ _) (deg_le_maxDeg adj u hu)

/-- every susceptible node is in exactly one class: `Σ_{κ=0}^{maxdeg} kappaCount κ` = number of susceptible nodes -/
theorem sum_kappaCount (adj : List (List Nat)) (st : Nat → St) :
    ((List.range (maxDeg adj + 1)).map (fun k => kappaCount adj st k)).sum = count adj st St.S := by
  unfold kappaCount count
  exact sum_filter_classes (nrDeg adj st) (fun u => st u = St.S) (maxDeg adj) (List.range adj.length)
    (fun u hu => nrDeg_le adj st u (List.mem_range.mp hu))

theorem cnt_kappa (A : WArgs) (adj : List (List Nat)) (hW : GraphOKW A adj) (st : Node → St) (k : Nat) :
    cnt (nrCount st A.neighbors) st A.nodes St.S k = kappaCount adj st k := by
  unfold cnt kappaCount
  rw [hW.nodes]
  congr 1
  apply List.filter_congr
  intro u hu
  unfold nrCount nrDeg
  rw [hW.nbrs u (List.mem_range.mp hu)]

/-- (A) explicit disjoint sets of graph nodes: `Skappa0[κ]` = number of susceptible nodes with exactly `κ` non-recovered
neighbours (`κ = 0..maxdeg`), `I0`, `R0` = numbers of infected / recovered nodes, `SI0` = number of (susceptible node,
infected neighbour) ordered pairs -/
theorem SIR_compact_effective_degree_args_spec (A : WArgs) (adj : List (List Nat)) (hW : GraphOKW A adj)
    (tau gamma : Rat) (infs : List Node) (recs : Option (List Node)) (hS : SetsOK adj infs (recs.getD []))
    (hN : adj.length ≠ 0) (tmin tmax : Rat) (tcount : Int) (full : Bool) :
    SIR_compact_effective_degree_from_graph_args A tau gamma (some infs) recs none tmin tmax tcount full =
      .ok { Skappa0 := vec (maxDeg adj) (fun k => (kappaCount adj (statusOf infs (recs.getD [])) k : Rat)),
            I0 := (count adj (statusOf infs (recs.getD [])) St.I : Rat),
            R0 := (count adj (statusOf infs (recs.getD [])) St.R : Rat),
            SI0 := (pairCount adj (statusOf infs (recs.getD [])) St.S St.I : Rat),
            tau := tau, gamma := gamma, tmin := tmin, tmax := tmax, tcount := tcount, return_full_data := full } := by
  have hG := hW.toGraphOK
  have hst := C06c.gen_status_eq A.toIArgs adj hG.hasNode infs (recs.getD []) hS.disj hS.infIn hS.recIn
  rw [SIRced_sets A tau gamma infs recs tmin tmax tcount full _ hst (nodes_ne_nil A adj hG hN)]
  · rw [degs_eq A.toIArgs adj hG, sumS_nb A adj hW, filterR_graph A adj hG]
    congr 2
    · apply vec_congr; intro k; rw [cnt_kappa A adj hW]
    · rw [hG.nodes]; rfl
  · intro u hu _
    rw [hG.nodes] at hu
    have hu' := List.mem_range.mp hu
    rw [degs_eq A.toIArgs adj hG]
    have : nrCount (statusOf infs (recs.getD [])) A.neighbors u = nrDeg adj (statusOf infs (recs.getD [])) u := by
      unfold nrCount nrDeg; rw [hW.nbrs u hu']
    rw [this]
    exact nrDeg_le adj _ u hu'

/-- (B) the exceptions of the explicit-sets request with the precedence of the generated code: `EoNError` for `rho` with a
set; THEN ValueError on a graph without nodes (`max` of no degrees — BEFORE the sets are looked at, unlike
`EBCM_from_graph`); then the `EoNError` of the status builder (overlap / node outside the graph).  (The `rho` / default
request: C06h `SIR_compact_effective_degree_args_error`.) -/
theorem SIR_compact_effective_degree_args_error_sets (A : WArgs) (tau gamma : Rat) (tmin tmax : Rat) (tcount : Int)
    (full : Bool) :
    (∀ infs recs r, infs.isSome ∨ recs.isSome →
      SIR_compact_effective_degree_from_graph_args A tau gamma infs recs (some r) tmin tmax tcount full
        = .error "EoNError") ∧
    (∀ infs recs, A.nodes = [] →
      SIR_compact_effective_degree_from_graph_args A tau gamma (some infs) recs none tmin tmax tcount full
        = .error "ValueError") ∧
    (∀ infs recs e, A.nodes ≠ [] → initialize_node_status A.toIArgs infs (recs.getD []) = .error e →
      SIR_compact_effective_degree_from_graph_args A tau gamma (some infs) recs none tmin tmax tcount full
        = .error e) :=
  ⟨fun infs recs r h => SIRced_both A tau gamma infs recs r tmin tmax tcount full h,
   fun infs recs hN => (SIRced_sets_error A tau gamma infs recs tmin tmax tcount full).1 hN,
   fun infs recs e hne he => (SIRced_sets_error A tau gamma infs recs tmin tmax tcount full).2 e hne he⟩

/-- (C) EVERY non-error case of the explicit-sets request: the sets are disjoint lists of graph nodes, the graph has nodes,
`Skappa0` has `maxdeg + 1` entries, `Σ_κ Skappa0[κ]` = number of susceptible nodes and
**`Σ_κ Skappa0[κ] + I0 + R0 = N`**; for duplicate-free lists `I0 = len(initial_infecteds)`, `R0 = len(initial_recovereds)` -/
theorem SIR_compact_effective_degree_args_total (A : WArgs) (adj : List (List Nat)) (hW : GraphOKW A adj)
    (tau gamma : Rat) (infs : List Node) (recs : Option (List Node)) (tmin tmax : Rat) (tcount : Int) (full : Bool)
    (a : SIR_compact_effective_degree_Args)
    (h : SIR_compact_effective_degree_from_graph_args A tau gamma (some infs) recs none tmin tmax tcount full = .ok a) :
    SetsOK adj infs (recs.getD []) ∧ adj.length ≠ 0 ∧ a.Skappa0.length = maxDeg adj + 1 ∧
    a.Skappa0.sum = (count adj (statusOf infs (recs.getD [])) St.S : Rat) ∧
    a.Skappa0.sum + a.I0 + a.R0 = (adj.length : Rat) ∧
    (infs.Nodup → (recs.getD []).Nodup → a.I0 = (infs.length : Rat) ∧ a.R0 = ((recs.getD []).length : Rat)) := by
  have hG := hW.toGraphOK
  have hN : adj.length ≠ 0 := by
    intro e
    rw [(SIRced_sets_error A tau gamma infs recs tmin tmax tcount full).1 (nodes_eq_nil A adj hG e)] at h; cases h
  have hne := nodes_ne_nil A adj hG hN
  cases hst : initialize_node_status A.toIArgs infs (recs.getD []) with
  | error e => rw [(SIRced_sets_error A tau gamma infs recs tmin tmax tcount full).2 e hne hst] at h; cases h
  | ok st =>
    obtain ⟨d, i, r⟩ := (C06c.gen_status_ok_iff A.toIArgs adj hG.hasNode infs (recs.getD [])).mp ⟨st, hst⟩
    have hS : SetsOK adj infs (recs.getD []) := ⟨d, i, r⟩
    rw [SIR_compact_effective_degree_args_spec A adj hW tau gamma infs recs hS hN] at h
    injection h with h; subst h
    have hsum : (vec (maxDeg adj) (fun k => (kappaCount adj (statusOf infs (recs.getD [])) k : Rat))).sum
        = (count adj (statusOf infs (recs.getD [])) St.S : Rat) := by
      rw [vec_sum_cast, sum_kappaCount]
    refine ⟨hS, hN, vec_length _ _, hsum, ?_, fun hi hr => ?_⟩
    · simp only [hsum]
      have := count_total adj (statusOf infs (recs.getD []))
      have h2 : ((count adj (statusOf infs (recs.getD [])) St.S + count adj (statusOf infs (recs.getD [])) St.I
        + count adj (statusOf infs (recs.getD [])) St.R : Nat) : Rat) = (adj.length : Rat) := by rw [this]
      push_cast at h2
      exact h2
    · obtain ⟨cI, cR, -⟩ := request_counts adj infs (recs.getD []) hS hi hr
      exact ⟨cI, cR⟩

/-- (D) end to end, explicit sets, with or without full data, EVERY solver: **`S + I + R = N` at every time index**; with
`odeint rhs X0 0 = X0` the series start from the numbers of susceptible / infected / recovered nodes -/
theorem SIR_compact_effective_degree_from_graph_init_conserve (odeint : Solver) (A : WArgs) (adj : List (List Nat))
    (hW : GraphOKW A adj) (tau gamma : Rat) (infs : List Node) (recs : Option (List Node)) (tmin tmax : Rat)
    (tcount : Int) (full : Bool) (l : List Ser)
    (h : SIR_compact_effective_degree_from_graph odeint A tau gamma (some infs) recs none tmin tmax tcount full = .ok l) :
    (∀ i, get l 1 i + get l 2 i + get l 3 i = (adj.length : Rat)) ∧
    (RowZero odeint →
      get l 1 0 = (count adj (statusOf infs (recs.getD [])) St.S : Rat) ∧
      get l 2 0 = (count adj (statusOf infs (recs.getD [])) St.I : Rat) ∧
      get l 3 0 = (count adj (statusOf infs (recs.getD [])) St.R : Rat) ∧
      (infs.Nodup → (recs.getD []).Nodup →
        get l 2 0 = (infs.length : Rat) ∧ get l 3 0 = ((recs.getD []).length : Rat))) := by
  obtain ⟨a, ha, hl⟩ := SIR_compact_effective_degree_from_graph_inv odeint A tau gamma _ _ _ tmin tmax tcount full l h
  obtain ⟨hS, hN, -, t1, t2, t3⟩ := SIR_compact_effective_degree_args_total A adj hW tau gamma infs recs tmin tmax tcount
    full a ha
  refine ⟨fun i => ?_, fun h0 => ?_⟩
  · rw [C06d.SIR_compact_effective_degree_conserve odeint _ _ _ _ _ _ _ _ _ _ l hl i, sumTo_ofList]
    exact t2
  · obtain ⟨i1, i2, i3⟩ := C06d.SIR_compact_effective_degree_init odeint h0 _ _ _ _ _ _ _ _ _ _ l hl
    rw [sumTo_ofList] at i1
    rw [SIR_compact_effective_degree_args_spec A adj hW tau gamma infs recs hS hN] at ha
    injection ha with ha; subst ha
    refine ⟨i1.trans t1, i2, i3, fun hi hr => ?_⟩
    exact ⟨i2.trans (t3 hi hr).1, i3.trans (t3 hi hr).2⟩

/-! ## 2. `SIS_super_compact_pairwise_from_graph` -/

/-- the `j`-th moment of the degree sequence is `Σ_u deg(u)^j / N` (definition of `kMoment`), and the first one is the
mean degree `2|E|/N` -/
theorem kMoment_graph (adj : List (List Nat)) :
    (∀ j, kMoment (adj.map (·.length)) j
      = sumRat ((adj.map (·.length)).map fun k => ((k : Nat) : Rat) ^ j) / (adj.length : Rat)) ∧
    kMoment (adj.map (·.length)) 1 = (twoM adj : Rat) / (adj.length : Rat) := by
  refine ⟨fun j => by simp [kMoment, Helpers.meanDeg], ?_⟩
  unfold kMoment Helpers.meanDeg twoM
  simp only [pow_one, List.length_map]
  rw [sumRat_cast_nat]

theorem sum_class (adj : List (List Nat)) (st : Nat → St) (x : St) :
    sumRat (vec (maxDeg adj) fun k => (classCount adj st x k : Rat)) = (count adj st x : Rat) := by
  rw [sumRat_eq_sum, vec_sum_cast, sum_classCount]

/-- (A) explicit set of graph nodes: `S0`, `I0` = numbers of susceptible / infected nodes (sums of the class arrays),
`SS0`, `SI0`, `II0` = ordered-pair counts of `_count_edge_types_` (`SS0`, `II0` count every edge twice, `SI0` once), and
through `Pk.get(k, 0)` / `np.dot` over `k = 0..maxdeg`: `k_ave = Σ_u deg u / N = 2|E|/N`, `ksquare_ave = Σ_u deg² / N`,
`kcube_ave = Σ_u deg³ / N` -/
theorem SIS_super_compact_pairwise_args_spec (A : WArgs) (adj : List (List Nat)) (hG : GraphOK A.toIArgs adj)
    (tau gamma : Rat) (infs : List Node) (hin : ∀ u ∈ infs, u < adj.length) (hN : adj.length ≠ 0)
    (tmin tmax : Rat) (tcount : Int) (full : Bool) :
    SIS_super_compact_pairwise_from_graph_args A tau gamma (some infs) none tmin tmax tcount full =
      .ok { S0 := (count adj (statusOf infs []) St.S : Rat), I0 := (count adj (statusOf infs []) St.I : Rat),
            SS0 := (pairCount adj (statusOf infs []) St.S St.S : Rat),
            SI0 := (pairCount adj (statusOf infs []) St.S St.I : Rat),
            II0 := (pairCount adj (statusOf infs []) St.I St.I : Rat), tau := tau, gamma := gamma,
            k_ave := (twoM adj : Rat) / (adj.length : Rat), ksquare_ave := kMoment (adj.map (·.length)) 2,
            kcube_ave := kMoment (adj.map (·.length)) 3,
            tmin := tmin, tmax := tmax, tcount := tcount, return_full_data := full } := by
  have hS := SetsOK.nil_recs (adj := adj) hin
  have hst := C06c.gen_status_eq A.toIArgs adj hG.hasNode infs [] hS.disj hS.infIn hS.recIn
  rw [SISscp_sets A adj hG tau gamma infs tmin tmax tcount full _ hst hN, sum_class, sum_class, (kMoment_graph adj).2]

/-- (A) without `initial_infecteds`: `rho` (default `1/N`): `S0 = (1-rho)N`, `I0 = rho·N`, and through `np.dot` with
`arange(len(Nk))`: `SS0 = (1-rho)·(1-rho)·2|E|`, `SI0 = rho·(1-rho)·2|E|`, `II0 = rho²·2|E|`; the moments as above -/
theorem SIS_super_compact_pairwise_args_rho (A : WArgs) (adj : List (List Nat)) (hG : GraphOK A.toIArgs adj)
    (tau gamma : Rat) (rho : Option Rat) (hN : adj.length ≠ 0) (tmin tmax : Rat) (tcount : Int) (full : Bool) :
    SIS_super_compact_pairwise_from_graph_args A tau gamma none rho tmin tmax tcount full =
      .ok { S0 := rhoS adj (rho.getD (1 / (adj.length : Rat))), I0 := rhoI adj (rho.getD (1 / (adj.length : Rat))),
            SS0 := rhoSS adj (rho.getD (1 / (adj.length : Rat))), SI0 := rhoSI adj (rho.getD (1 / (adj.length : Rat))),
            II0 := rhoII adj (rho.getD (1 / (adj.length : Rat))), tau := tau, gamma := gamma,
            k_ave := (twoM adj : Rat) / (adj.length : Rat), ksquare_ave := kMoment (adj.map (·.length)) 2,
            kcube_ave := kMoment (adj.map (·.length)) 3,
            tmin := tmin, tmax := tmax, tcount := tcount, return_full_data := full } := by
  have ht := C06c.gen_rho_total A.toIArgs adj hG (rho.getD (1 / (adj.length : Rat)))
  rw [C06c.gen_rho_eq_vec A.toIArgs adj hG] at ht
  rw [SISscp_rho A adj hG tau gamma rho tmin tmax tcount full hN, (kMoment_graph adj).2, sumRat_eq_sum, sumRat_eq_sum,
    ht.2.1, ht.2.2.1]
  congr 1
  simp only [rhoSS, rhoSI, rhoII]
  congr 1 <;> ring

/-- (B) the exceptions, ALL inputs, with the precedence of the generated code: `EoNError` for `rho` with
`initial_infecteds`; then ValueError on a graph without nodes (`max` of no degrees inside `_get_Nk_and_IC_as_arrays_` —
ALSO for the default request: no ZeroDivisionError from `1/N` here, unlike `SIS_compact_pairwise_from_graph`); then the
`EoNError` of the status builder (node outside the graph) -/
theorem SIS_super_compact_pairwise_args_error (A : WArgs) (tau gamma : Rat) (tmin tmax : Rat) (tcount : Int)
    (full : Bool) :
    (∀ infs r, SIS_super_compact_pairwise_from_graph_args A tau gamma (some infs) (some r) tmin tmax tcount full
      = .error "EoNError") ∧
    (∀ infs rho, ¬ (rho.isSome ∧ infs.isSome) → A.nodes = [] →
      SIS_super_compact_pairwise_from_graph_args A tau gamma infs rho tmin tmax tcount full = .error "ValueError") ∧
    (∀ infs e, A.nodes ≠ [] → initialize_node_status A.toIArgs infs [] = .error e →
      SIS_super_compact_pairwise_from_graph_args A tau gamma (some infs) none tmin tmax tcount full = .error e) :=
  SISscp_error A tau gamma tmin tmax tcount full

/-- (C) EVERY non-error case, any request: the graph has nodes, a given initial set consists of graph nodes, and
**`S0 + I0 = N`**; `0 ≤ SS0 + 2·SI0 + II0 = 2|E|` for explicit sets is C06c `pairCount_total`; here: the three pair
numbers add up to `2|E|` in the `rho` request -/
theorem SIS_super_compact_pairwise_args_total (A : WArgs) (adj : List (List Nat)) (hG : GraphOK A.toIArgs adj)
    (tau gamma : Rat) (infs : Option (List Node)) (rho : Option Rat) (tmin tmax : Rat) (tcount : Int) (full : Bool)
    (a : SIS_super_compact_pairwise_Args)
    (h : SIS_super_compact_pairwise_from_graph_args A tau gamma infs rho tmin tmax tcount full = .ok a) :
    adj.length ≠ 0 ∧ (∀ l, infs = some l → ∀ u ∈ l, u < adj.length) ∧ a.S0 + a.I0 = (adj.length : Rat) ∧
    a.k_ave = (twoM adj : Rat) / (adj.length : Rat) ∧ a.tau = tau ∧ a.gamma = gamma ∧ a.tmin = tmin ∧ a.tmax = tmax ∧
    a.tcount = tcount ∧ a.return_full_data = full ∧
    (infs = none → a.SS0 + 2 * a.SI0 + a.II0 = (twoM adj : Rat)) := by
  obtain ⟨e1, e2, e3⟩ := SIS_super_compact_pairwise_args_error A tau gamma tmin tmax tcount full
  by_cases hb : rho.isSome ∧ infs.isSome
  · obtain ⟨r, rfl⟩ := Option.isSome_iff_exists.mp hb.1
    obtain ⟨l, rfl⟩ := Option.isSome_iff_exists.mp hb.2
    rw [e1] at h; cases h
  · have hN : adj.length ≠ 0 := by
      intro e
      rw [e2 infs rho hb (nodes_eq_nil A adj hG e)] at h; cases h
    cases infs with
    | none =>
      rw [SIS_super_compact_pairwise_args_rho A adj hG tau gamma rho hN] at h
      injection h with h; subst h
      refine ⟨hN, (fun l hl => by cases hl), ?_, rfl, rfl, rfl, rfl, rfl, rfl, rfl, fun _ => ?_⟩
      · simp only [rhoS, rhoI]; ring
      · simp only [rhoSS, rhoSI, rhoII]; ring
    | some l =>
      have : rho = none := by
        cases rho with
        | none => rfl
        | some r => exact absurd ⟨rfl, rfl⟩ hb
      subst this
      cases hst : initialize_node_status A.toIArgs l [] with
      | error e => rw [e3 l e (nodes_ne_nil A adj hG hN) hst] at h; cases h
      | ok st =>
        obtain ⟨-, i, -⟩ := (C06c.gen_status_ok_iff A.toIArgs adj hG.hasNode l []).mp ⟨st, hst⟩
        rw [SIS_super_compact_pairwise_args_spec A adj hG tau gamma l i hN] at h
        injection h with h; subst h
        refine ⟨hN, (fun l' hl' => by injection hl' with hl'; subst hl'; exact i), ?_, rfl, rfl, rfl, rfl, rfl, rfl, rfl,
          (fun hn => by cases hn)⟩
        have := count_total adj (statusOf l [])
        have hR : count adj (statusOf l []) St.R = 0 := by
          unfold count
          rw [List.length_eq_zero_iff, List.filter_eq_nil_iff]
          intro u _
          simpa using statusOf_nil_ne_R l u
        have h2 : ((count adj (statusOf l []) St.S + count adj (statusOf l []) St.I
          + count adj (statusOf l []) St.R : Nat) : Rat) = (adj.length : Rat) := by rw [this]
        rw [hR] at h2
        push_cast at h2
        simpa using h2

theorem SIS_super_compact_pairwise_from_graph_inv (odeint : Solver) (A : WArgs) (tau gamma : Rat)
    (infs : Option (List Node)) (rho : Option Rat) (tmin tmax : Rat) (tcount : Int) (full : Bool) (l : List Ser)
    (h : SIS_super_compact_pairwise_from_graph odeint A tau gamma infs rho tmin tmax tcount full = .ok l) :
    ∃ a, SIS_super_compact_pairwise_from_graph_args A tau gamma infs rho tmin tmax tcount full = .ok a ∧
      GenGlue.SIS_super_compact_pairwise odeint a.S0 a.I0 a.SS0 a.SI0 a.II0 a.tau a.gamma a.k_ave a.ksquare_ave
        a.kcube_ave a.tmin a.tmax a.tcount.toNat a.return_full_data = .ok l := by
  unfold SIS_super_compact_pairwise_from_graph at h
  cases ha : SIS_super_compact_pairwise_from_graph_args A tau gamma infs rho tmin tmax tcount full with
  | error e => rw [ha] at h; cases h
  | ok a => rw [ha] at h; exact ⟨a, rfl, h⟩

/-- (D) end to end, ANY request (set, `rho`, default), with or without full data, EVERY solver: **`S + I = N` at every
time index** -/
theorem SIS_super_compact_pairwise_from_graph_conserve (odeint : Solver) (A : WArgs) (adj : List (List Nat))
    (hG : GraphOK A.toIArgs adj) (tau gamma : Rat) (infs : Option (List Node)) (rho : Option Rat) (tmin tmax : Rat)
    (tcount : Int) (full : Bool) (l : List Ser)
    (h : SIS_super_compact_pairwise_from_graph odeint A tau gamma infs rho tmin tmax tcount full = .ok l) (i : Nat) :
    get l 1 i + get l 2 i = (adj.length : Rat) := by
  obtain ⟨a, ha, hl⟩ := SIS_super_compact_pairwise_from_graph_inv odeint A tau gamma _ _ tmin tmax tcount full l h
  obtain ⟨-, -, t, -⟩ := SIS_super_compact_pairwise_args_total A adj hG tau gamma infs rho tmin tmax tcount full a ha
  rw [C06d.SIS_super_compact_pairwise_conserve odeint _ _ _ _ _ _ _ _ _ _ _ _ _ _ l hl i]
  exact t

/-- (D) with `odeint rhs X0 0 = X0`: explicit set — the series start from the numbers of susceptible / infected nodes
(`len(initial_infecteds)` for a duplicate-free list); `rho` / default — from `(1-rho)N`, `rho·N`; with full data the pair
series start from `SS0`, `SI0`, `II0` of the record -/
theorem SIS_super_compact_pairwise_from_graph_init (odeint : Solver) (h0 : RowZero odeint) (A : WArgs)
    (adj : List (List Nat)) (hG : GraphOK A.toIArgs adj) (tau gamma : Rat) (tmin tmax : Rat) (tcount : Int)
    (full : Bool) (l : List Ser) :
    (∀ infs, SIS_super_compact_pairwise_from_graph odeint A tau gamma (some infs) none tmin tmax tcount full = .ok l →
      get l 1 0 = (count adj (statusOf infs []) St.S : Rat) ∧ get l 2 0 = (count adj (statusOf infs []) St.I : Rat) ∧
      (infs.Nodup → get l 2 0 = (infs.length : Rat)) ∧
      (full = true → get l 3 0 = (pairCount adj (statusOf infs []) St.S St.S : Rat) ∧
        get l 4 0 = (pairCount adj (statusOf infs []) St.S St.I : Rat) ∧
        get l 5 0 = (pairCount adj (statusOf infs []) St.I St.I : Rat))) ∧
    (∀ rho, SIS_super_compact_pairwise_from_graph odeint A tau gamma none rho tmin tmax tcount full = .ok l →
      get l 1 0 = rhoS adj (rho.getD (1 / (adj.length : Rat))) ∧
      get l 2 0 = rhoI adj (rho.getD (1 / (adj.length : Rat))) ∧
      (full = true → get l 3 0 = rhoSS adj (rho.getD (1 / (adj.length : Rat))) ∧
        get l 4 0 = rhoSI adj (rho.getD (1 / (adj.length : Rat))) ∧
        get l 5 0 = rhoII adj (rho.getD (1 / (adj.length : Rat))))) := by
  constructor
  · intro infs h
    obtain ⟨a, ha, hl⟩ := SIS_super_compact_pairwise_from_graph_inv odeint A tau gamma _ _ tmin tmax tcount full l h
    obtain ⟨hN, hin, -⟩ := SIS_super_compact_pairwise_args_total A adj hG tau gamma _ _ tmin tmax tcount full a ha
    rw [SIS_super_compact_pairwise_args_spec A adj hG tau gamma infs (hin infs rfl) hN] at ha
    injection ha with ha; subst ha
    obtain ⟨i1, i2⟩ := C06d.SIS_super_compact_pairwise_init odeint h0 _ _ _ _ _ _ _ _ _ _ _ _ _ _ l hl
    refine ⟨i1, i2, fun hi => ?_, fun hf => ?_⟩
    · rw [i2, count_I adj infs [] hi (SetsOK.nil_recs (hin infs rfl))]
    · subst hf
      exact C06d.SIS_super_compact_pairwise_init_full odeint h0 _ _ _ _ _ _ _ _ _ _ _ _ _ l hl
  · intro rho h
    obtain ⟨a, ha, hl⟩ := SIS_super_compact_pairwise_from_graph_inv odeint A tau gamma _ _ tmin tmax tcount full l h
    obtain ⟨hN, -⟩ := SIS_super_compact_pairwise_args_total A adj hG tau gamma _ _ tmin tmax tcount full a ha
    rw [SIS_super_compact_pairwise_args_rho A adj hG tau gamma rho hN] at ha
    injection ha with ha; subst ha
    obtain ⟨i1, i2⟩ := C06d.SIS_super_compact_pairwise_init odeint h0 _ _ _ _ _ _ _ _ _ _ _ _ _ _ l hl
    refine ⟨i1, i2, fun hf => ?_⟩
    subst hf
    exact C06d.SIS_super_compact_pairwise_init_full odeint h0 _ _ _ _ _ _ _ _ _ _ _ _ _ l hl

/-! ## 3. `SIR_super_compact_pairwise_from_graph` -/

/-- the second derivative of the graph's `ψ̂`: `Σ_{k≥2} k(k-1)·Pk[k]·Sk0[k]·x^(k-2)` (`Pk[k] = N_k/N`,
`Sk0[k]` = susceptible fraction of degree class `k`), i.e. `Σ_{k≥2} k(k-1)·cS(k)·x^(k-2) / N` -/
def psiHatDPG (adj : List (List Nat)) (st : Nat → St) (x : Rat) : Rat :=
  sum2 ((PkAL (adj.map (·.length))).map (·.1))
    (fun k => alGet (PkAL (adj.map (·.length))) 0 k * (Sk0G adj st).getD k 0) x

/-- `ψ''(x) = Σ_{k≥2} k(k-1)·Pk[k]·x^(k-2)` -/
def psiKDP (Pk : List (Nat × Rat)) (x : Rat) : Rat := sum2 (Pk.map (·.1)) (fun k => alGet Pk 0 k) x

theorem div_terms (keys : List Nat) (f g : Nat → Rat) (N : Rat) (hN : N ≠ 0) (h : ∀ k ∈ keys, f k = N * g k) :
    sumRat (keys.map f) / N = sumRat (keys.map g) := by
  rw [sumRat_map_congr keys f (fun k => N * g k) h, sumRat_mul_left, mul_div_cancel_left₀ _ hN]

/-- the class count is `N·Pk[k]·Sk0[k]` for every degree present -/
theorem class_term (adj : List (List Nat)) (st : Nat → St) (hN : adj.length ≠ 0) (k : Nat)
    (hk : k ∈ (PkAL (adj.map (·.length))).map (·.1)) :
    (vec (maxDeg adj) fun k => (classCount adj st St.S k : Rat)).getD k 0 =
      (adj.length : Rat) * (alGet (PkAL (adj.map (·.length))) 0 k * (Sk0G adj st).getD k 0) := by
  have hkd : k ∈ adj.map (·.length) := keys_PkAL_mem _ k hk
  have hle : k ≤ maxDeg adj := Helpers.le_maxDeg _ k hkd
  have hNr : (adj.length : Rat) ≠ 0 := by exact_mod_cast hN
  have hnk : ((Nk adj k : Nat) : Rat) ≠ 0 := by
    have := (NkL_getD _ k hkd).2
    rw [(NkL_getD _ k hkd).1, countEq_degs] at this
    exact this
  rw [vec_getD _ _ k hle, GenHelpProofs.PkAL_get, Sk0G, vec_getD _ _ k hle]
  unfold Helpers.Pk
  rw [countEq_degs, List.length_map]
  field_simp

/-- (A) explicit disjoint sets of graph nodes: `R0` = number of recovered nodes, `SS0`, `SI0` = ordered-pair counts,
`N`, and the three closures: `psihat(x) = Σ_{k∈Pk} Sk0[k]·x^k / N` (here `Sk0[k]` COUNTS the susceptible nodes of degree
`k`) = the graph's own `ψ̂(x)` for ALL `x`; `psihatPrime = ψ̂'` for `x ≠ 0` or a graph without isolated nodes — it RAISES
ZeroDivisionError at 0 otherwise (`0.0 ** (-1)`); `psihatDPrime = ψ̂''` for `x ≠ 0` or a graph without nodes of degree
0 or 1 — it RAISES at 0 as soon as the graph has a LEAF (`0.0 ** (-1)` for `k = 1`, although its coefficient
`k(k-1)` is 0); `N·psihat(1)` = number of susceptible nodes -/
theorem SIR_super_compact_pairwise_args_spec (A : WArgs) (adj : List (List Nat)) (hG : GraphOK A.toIArgs adj)
    (tau gamma : Rat) (infs : List Node) (recs : Option (List Node)) (hS : SetsOK adj infs (recs.getD []))
    (hN : adj.length ≠ 0) (tmin tmax : Rat) (tcount : Int) (full : Bool) :
    ∃ a, SIR_super_compact_pairwise_from_graph_args A tau gamma (some infs) recs none tmin tmax tcount full = .ok a ∧
      a.R0 = (count adj (statusOf infs (recs.getD [])) St.R : Rat) ∧
      (infs.Nodup → (recs.getD []).Nodup → a.R0 = ((recs.getD []).length : Rat)) ∧
      a.SS0 = (pairCount adj (statusOf infs (recs.getD [])) St.S St.S : Rat) ∧
      a.SI0 = (pairCount adj (statusOf infs (recs.getD [])) St.S St.I : Rat) ∧
      a.N = (adj.length : Rat) ∧
      (∀ x, a.psihat x = .ok (psiHatG adj (statusOf infs (recs.getD [])) x)) ∧
      (∀ x, x ≠ 0 ∨ 0 ∉ adj.map (·.length) → a.psihatPrime x = .ok (psiHatPG adj (statusOf infs (recs.getD [])) x)) ∧
      (0 ∈ adj.map (·.length) → a.psihatPrime 0 = .error "ZeroDivisionError") ∧
      (∀ x, x ≠ 0 ∨ (0 ∉ adj.map (·.length) ∧ 1 ∉ adj.map (·.length)) →
        a.psihatDPrime x = .ok (psiHatDPG adj (statusOf infs (recs.getD [])) x)) ∧
      (0 ∈ adj.map (·.length) ∨ 1 ∈ adj.map (·.length) → a.psihatDPrime 0 = .error "ZeroDivisionError") ∧
      a.N * psiHatG adj (statusOf infs (recs.getD [])) 1 = (count adj (statusOf infs (recs.getD [])) St.S : Rat) ∧
      a.tau = tau ∧ a.gamma = gamma ∧ a.tmin = tmin ∧ a.tmax = tmax ∧ a.tcount = tcount ∧
      a.return_full_data = full := by
  have hst := C06c.gen_status_eq A.toIArgs adj hG.hasNode infs (recs.getD []) hS.disj hS.infIn hS.recIn
  have hNr : (adj.length : Rat) ≠ 0 := by exact_mod_cast hN
  obtain ⟨a, ha, h1, h2, h3, h4, h5, h6, h7, h8, h9, h10⟩ :=
    SIRscp_sets A adj hG tau gamma infs recs tmin tmax tcount full _ hst hN
  have hct := class_term adj (statusOf infs (recs.getD [])) hN
  rw [sum_class] at h1
  refine ⟨a, ha, h1, fun hi hr => ?_, h2, h3, h4, fun x => ?_, fun x hx => ?_, h7, fun x hx => ?_, h9, ?_, h10⟩
  · rw [h1]; exact (request_counts adj infs (recs.getD []) hS hi hr).2.1
  · rw [h5 x]; congr 1
    unfold psiHatG psiHatV
    apply div_terms _ _ _ _ hNr
    intro k hk; rw [hct k hk]; ring
  · rw [h6 x hx]; congr 1
    unfold psiHatPG psiHatPV sum1
    apply div_terms _ _ _ _ hNr
    intro k hk
    by_cases h0 : 0 < k
    · simp only [h0, if_true]; rw [hct k hk]; ring
    · simp [h0]
  · rw [h8 x hx]; congr 1
    unfold psiHatDPG sum2
    apply div_terms _ _ _ _ hNr
    intro k hk
    by_cases h0 : 2 ≤ k
    · simp only [h0, if_true]; rw [hct k hk]; ring
    · simp [h0]
  · rw [h4]; exact psiHat_one adj _ hN

/-- (A) without `initial_infecteds` and `initial_recovereds`: `rho` (default `1/N`): `R0 = 0`,
`SS0 = (1-rho)·(1-rho)·2|E|`, `SI0 = rho·(1-rho)·2|E|`, `psihat = (1-rho)ψ`, `psihatPrime = (1-rho)ψ'`,
`psihatDPrime = (1-rho)ψ''` (same exceptions at 0), `N·psihat(1) = (1-rho)N` -/
theorem SIR_super_compact_pairwise_args_rho (A : WArgs) (adj : List (List Nat)) (hG : GraphOK A.toIArgs adj)
    (tau gamma : Rat) (rho : Option Rat) (hN : adj.length ≠ 0) (tmin tmax : Rat) (tcount : Int) (full : Bool) :
    ∃ a, SIR_super_compact_pairwise_from_graph_args A tau gamma none none rho tmin tmax tcount full = .ok a ∧
      a.R0 = 0 ∧ a.SS0 = rhoSS adj (rho.getD (1 / (adj.length : Rat))) ∧
      a.SI0 = rhoSI adj (rho.getD (1 / (adj.length : Rat))) ∧ a.N = (adj.length : Rat) ∧
      (∀ x, a.psihat x = .ok ((1 - rho.getD (1 / (adj.length : Rat))) * psiK (PkAL (adj.map (·.length))) x)) ∧
      (∀ x, x ≠ 0 ∨ 0 ∉ adj.map (·.length) →
        a.psihatPrime x = .ok ((1 - rho.getD (1 / (adj.length : Rat))) * psiKP (PkAL (adj.map (·.length))) x)) ∧
      (0 ∈ adj.map (·.length) → a.psihatPrime 0 = .error "ZeroDivisionError") ∧
      (∀ x, x ≠ 0 ∨ (0 ∉ adj.map (·.length) ∧ 1 ∉ adj.map (·.length)) →
        a.psihatDPrime x = .ok ((1 - rho.getD (1 / (adj.length : Rat))) * psiKDP (PkAL (adj.map (·.length))) x)) ∧
      (0 ∈ adj.map (·.length) ∨ 1 ∈ adj.map (·.length) → a.psihatDPrime 0 = .error "ZeroDivisionError") ∧
      a.N * ((1 - rho.getD (1 / (adj.length : Rat))) * psiK (PkAL (adj.map (·.length))) 1)
        = rhoS adj (rho.getD (1 / (adj.length : Rat))) ∧
      a.tau = tau ∧ a.gamma = gamma ∧ a.tmin = tmin ∧ a.tmax = tmax ∧ a.tcount = tcount ∧
      a.return_full_data = full := by
  obtain ⟨a, ha, h1, h2, h3, h4, h5, h6, h7, h8, h9, h10⟩ := SIRscp_rho A adj hG tau gamma rho tmin tmax tcount full hN
  have hd : adj.map (·.length) ≠ [] := by
    intro e; exact hN (by simpa using congrArg List.length e)
  refine ⟨a, ha, ?_, ?_, ?_, h4, h5, h6, h7, h8, h9, ?_, h10⟩
  · rw [h1]; simp [vec, sumRat_eq_sum]
  · rw [h2, rhoSS]; ring
  · rw [h3, rhoSI]; ring
  · rw [h4, psiK_one _ hd, rhoS]; ring

/-- (B) the exceptions, ALL inputs, with the precedence of the generated code: `EoNError` for `rho` with
`initial_infecteds`; with neither: ZeroDivisionError on a graph without nodes (the default `rho = 1/N` first); then —
SURPRISE — `EoNError` for `initial_recovereds` WITHOUT `initial_infecteds`, also when NO `rho` was given (the default
`rho` has just been filled in, and `_get_Nk_and_IC_as_arrays_` rejects `rho` together with `initial_recovereds`); then
ValueError on a graph without nodes; then the `EoNError` of the status builder -/
theorem SIR_super_compact_pairwise_args_error (A : WArgs) (tau gamma : Rat) (tmin tmax : Rat) (tcount : Int)
    (full : Bool) :
    (∀ infs recs r, SIR_super_compact_pairwise_from_graph_args A tau gamma (some infs) recs (some r) tmin tmax tcount full
      = .error "EoNError") ∧
    (∀ recs, A.nodes.length = 0 →
      SIR_super_compact_pairwise_from_graph_args A tau gamma none recs none tmin tmax tcount full
        = .error "ZeroDivisionError") ∧
    (∀ l rho, rho.isSome ∨ A.nodes.length ≠ 0 →
      SIR_super_compact_pairwise_from_graph_args A tau gamma none (some l) rho tmin tmax tcount full
        = .error "EoNError") ∧
    (∀ infs recs, A.nodes = [] →
      SIR_super_compact_pairwise_from_graph_args A tau gamma (some infs) recs none tmin tmax tcount full
        = .error "ValueError") ∧
    (∀ r, A.nodes = [] →
      SIR_super_compact_pairwise_from_graph_args A tau gamma none none (some r) tmin tmax tcount full
        = .error "ValueError") ∧
    (∀ infs recs e, A.nodes ≠ [] → initialize_node_status A.toIArgs infs (recs.getD []) = .error e →
      SIR_super_compact_pairwise_from_graph_args A tau gamma (some infs) recs none tmin tmax tcount full = .error e) :=
  SIRscp_error A tau gamma tmin tmax tcount full

/-- (C) EVERY non-error case, any request: the graph has nodes, `N = G.order()`, `psihat` is total, and
`N·psihat(1) + (N − N·psihat(1) − R0) + R0 = N` with `N·psihat(1)` the number of susceptible nodes resp. `(1-rho)N`:
the initial state handed to `SIR_super_compact_pairwise` is `(S, I, R)(0) = (N·psihat(1), N − N·psihat(1) − R0, R0)` -/
theorem SIR_super_compact_pairwise_args_total (A : WArgs) (adj : List (List Nat)) (hG : GraphOK A.toIArgs adj)
    (tau gamma : Rat) (infs recs : Option (List Node)) (rho : Option Rat) (tmin tmax : Rat) (tcount : Int)
    (full : Bool) (a : SIR_super_compact_pairwise_Args)
    (h : SIR_super_compact_pairwise_from_graph_args A tau gamma infs recs rho tmin tmax tcount full = .ok a) :
    adj.length ≠ 0 ∧ a.N = (adj.length : Rat) ∧ (∃ f : Rat → Rat, ∀ x, a.psihat x = .ok (f x)) ∧
    (infs = none → recs = none) ∧
    (∀ l, infs = some l → rho = none ∧ SetsOK adj l (recs.getD [])) ∧
    a.tau = tau ∧ a.gamma = gamma ∧ a.tmin = tmin ∧ a.tmax = tmax ∧ a.tcount = tcount ∧ a.return_full_data = full := by
  obtain ⟨e1, e2, e3, e4, e5, e6⟩ := SIR_super_compact_pairwise_args_error A tau gamma tmin tmax tcount full
  have hlen := nodes_length A.toIArgs adj hG
  cases infs with
  | some l =>
    cases rho with
    | some r => rw [e1] at h; cases h
    | none =>
      have hN : adj.length ≠ 0 := by
        intro e; rw [e4 l recs (nodes_eq_nil A adj hG e)] at h; cases h
      cases hst : initialize_node_status A.toIArgs l (recs.getD []) with
      | error e => rw [e6 l recs e (nodes_ne_nil A adj hG hN) hst] at h; cases h
      | ok st =>
        obtain ⟨d, i, r⟩ := (C06c.gen_status_ok_iff A.toIArgs adj hG.hasNode l (recs.getD [])).mp ⟨st, hst⟩
        have hS : SetsOK adj l (recs.getD []) := ⟨d, i, r⟩
        obtain ⟨a', ha', -, -, -, -, h5, h6, -, -, -, -, -, h13⟩ :=
          SIR_super_compact_pairwise_args_spec A adj hG tau gamma l recs hS hN tmin tmax tcount full
        rw [h] at ha'; injection ha' with ha'; subst ha'
        exact ⟨hN, h5, ⟨_, h6⟩, (fun hh => by cases hh),
          (fun l' hl' => by injection hl' with hl'; subst hl'; exact ⟨rfl, hS⟩), h13⟩
  | none =>
    cases recs with
    | some l =>
      by_cases hc : rho.isSome ∨ A.nodes.length ≠ 0
      · rw [e3 l rho hc] at h; cases h
      · have hr : rho = none := by
          cases rho with
          | none => rfl
          | some r => exact absurd (Or.inl rfl) hc
        subst hr
        rw [e2 (some l) (by by_contra hh; exact hc (Or.inr hh))] at h; cases h
    | none =>
      have hN : adj.length ≠ 0 := by
        intro e
        cases rho with
        | none => rw [e2 none (by rw [hlen]; exact e)] at h; cases h
        | some r => rw [e5 r (nodes_eq_nil A adj hG e)] at h; cases h
      obtain ⟨a', ha', -, -, -, h5, h6, -, -, -, -, -, h13⟩ :=
        SIR_super_compact_pairwise_args_rho A adj hG tau gamma rho hN tmin tmax tcount full
      rw [h] at ha'; injection ha' with ha'; subst ha'
      exact ⟨hN, h5, ⟨_, h6⟩, (fun _ => rfl), (fun l' hl' => by cases hl'), h13⟩

theorem SIR_super_compact_pairwise_from_graph_inv (odeint : Solver) (A : WArgs) (tau gamma : Rat)
    (infs recs : Option (List Node)) (rho : Option Rat) (tmin tmax : Rat) (tcount : Int) (full : Bool) (l : List Ser)
    (h : SIR_super_compact_pairwise_from_graph odeint A tau gamma infs recs rho tmin tmax tcount full = .ok l) :
    ∃ a, SIR_super_compact_pairwise_from_graph_args A tau gamma infs recs rho tmin tmax tcount full = .ok a ∧
      GenGlue.SIR_super_compact_pairwise odeint a.R0 a.SS0 a.SI0 a.N a.tau a.gamma (PyWrap.total a.psihat)
        (PyWrap.total a.psihatPrime) (PyWrap.total a.psihatDPrime) a.tmin a.tmax a.tcount.toNat a.return_full_data
        = .ok l := by
  unfold SIR_super_compact_pairwise_from_graph at h
  cases ha : SIR_super_compact_pairwise_from_graph_args A tau gamma infs recs rho tmin tmax tcount full with
  | error e => rw [ha] at h; cases h
  | ok a => rw [ha] at h; exact ⟨a, rfl, h⟩

/-- (D) end to end, ANY request, with or without full data, EVERY solver: **`S + I + R = N` at every time index** -/
theorem SIR_super_compact_pairwise_from_graph_conserve (odeint : Solver) (A : WArgs) (adj : List (List Nat))
    (hG : GraphOK A.toIArgs adj) (tau gamma : Rat) (infs recs : Option (List Node)) (rho : Option Rat)
    (tmin tmax : Rat) (tcount : Int) (full : Bool) (l : List Ser)
    (h : SIR_super_compact_pairwise_from_graph odeint A tau gamma infs recs rho tmin tmax tcount full = .ok l) (i : Nat) :
    get l 1 i + get l 2 i + get l 3 i = (adj.length : Rat) := by
  obtain ⟨a, ha, hl⟩ := SIR_super_compact_pairwise_from_graph_inv odeint A tau gamma _ _ _ tmin tmax tcount full l h
  obtain ⟨-, t, -⟩ := SIR_super_compact_pairwise_args_total A adj hG tau gamma infs recs rho tmin tmax tcount full a ha
  rw [C06d.SIR_super_compact_pairwise_conserve odeint _ _ _ _ _ _ _ _ _ _ _ _ _ l hl i]
  exact t

/-- (D) with `odeint rhs X0 0 = X0`, explicit sets: the series start from the numbers of susceptible / infected /
recovered nodes (`len(…)` for duplicate-free lists); `rho` / default: from `(1-rho)N`, `rho·N`, `0` -/
theorem SIR_super_compact_pairwise_from_graph_init (odeint : Solver) (h0 : RowZero odeint) (A : WArgs)
    (adj : List (List Nat)) (hG : GraphOK A.toIArgs adj) (tau gamma : Rat) (tmin tmax : Rat) (tcount : Int)
    (full : Bool) (l : List Ser) :
    (∀ infs recs,
      SIR_super_compact_pairwise_from_graph odeint A tau gamma (some infs) recs none tmin tmax tcount full = .ok l →
      get l 1 0 = (count adj (statusOf infs (recs.getD [])) St.S : Rat) ∧
      get l 2 0 = (count adj (statusOf infs (recs.getD [])) St.I : Rat) ∧
      get l 3 0 = (count adj (statusOf infs (recs.getD [])) St.R : Rat) ∧
      (infs.Nodup → (recs.getD []).Nodup →
        get l 2 0 = (infs.length : Rat) ∧ get l 3 0 = ((recs.getD []).length : Rat))) ∧
    (∀ rho, SIR_super_compact_pairwise_from_graph odeint A tau gamma none none rho tmin tmax tcount full = .ok l →
      get l 1 0 = rhoS adj (rho.getD (1 / (adj.length : Rat))) ∧
      get l 2 0 = rhoI adj (rho.getD (1 / (adj.length : Rat))) ∧ get l 3 0 = 0) := by
  constructor
  · intro infs recs h
    obtain ⟨a, ha, hl⟩ := SIR_super_compact_pairwise_from_graph_inv odeint A tau gamma _ _ _ tmin tmax tcount full l h
    obtain ⟨hN, -, -, -, hs, -⟩ := SIR_super_compact_pairwise_args_total A adj hG tau gamma _ _ _ tmin tmax tcount full a ha
    obtain ⟨-, hS⟩ := hs infs rfl
    obtain ⟨a', ha', r0, -, -, -, hNN, hp, -, -, -, -, hone, -⟩ :=
      SIR_super_compact_pairwise_args_spec A adj hG tau gamma infs recs hS hN tmin tmax tcount full
    rw [ha] at ha'; injection ha' with ha'; subst ha'
    obtain ⟨i1, i2, i3⟩ := C06d.SIR_super_compact_pairwise_init odeint h0 _ _ _ _ _ _ _ _ _ _ _ _ _ l hl
    rw [total_of_ok _ 1 _ (hp 1), hone] at i1 i2
    have ht := count_total adj (statusOf infs (recs.getD []))
    have h2 : ((count adj (statusOf infs (recs.getD [])) St.S + count adj (statusOf infs (recs.getD [])) St.I
        + count adj (statusOf infs (recs.getD [])) St.R : Nat) : Rat) = (adj.length : Rat) := by rw [ht]
    push_cast at h2
    have hI : get l 2 0 = (count adj (statusOf infs (recs.getD [])) St.I : Rat) := by
      rw [i2, r0, hNN]; linarith
    refine ⟨i1, hI, i3.trans r0, fun hi hr => ?_⟩
    obtain ⟨cI, cR, -⟩ := request_counts adj infs (recs.getD []) hS hi hr
    exact ⟨hI.trans cI, (i3.trans r0).trans cR⟩
  · intro rho h
    obtain ⟨a, ha, hl⟩ := SIR_super_compact_pairwise_from_graph_inv odeint A tau gamma _ _ _ tmin tmax tcount full l h
    obtain ⟨hN, -⟩ := SIR_super_compact_pairwise_args_total A adj hG tau gamma _ _ _ tmin tmax tcount full a ha
    obtain ⟨a', ha', r0, -, -, hNN, hp, -, -, -, -, hone, -⟩ :=
      SIR_super_compact_pairwise_args_rho A adj hG tau gamma rho hN tmin tmax tcount full
    rw [ha] at ha'; injection ha' with ha'; subst ha'
    obtain ⟨i1, i2, i3⟩ := C06d.SIR_super_compact_pairwise_init odeint h0 _ _ _ _ _ _ _ _ _ _ _ _ _ l hl
    rw [total_of_ok _ 1 _ (hp 1), hone] at i1 i2
    refine ⟨i1, ?_, i3.trans r0⟩
    rw [i2, r0, hNN]; simp only [rhoS, rhoI]; ring

/-! ## 4. `EBCM_pref_mix_from_graph`, `EBCM_pref_mix_discrete_from_graph`: the argument records -/

/-- the neighbour-degree lists the wrappers hand to `get_Pnk` are those of the adjacency lists -/
theorem nbrDegs_graph (A : WArgs) (adj : List (List Nat)) (hW : GraphOKW A adj) :
    A.nodes.map (fun u_ => (A.neighbors u_).map A.degree) = GenHelpProofs.nbrDegs adj := by
  have hG := hW.toGraphOK
  have h := congrArg (List.map (fun nb : List Nat => nb.map (fun v => (adj.getD v []).length)))
    (GenHelpProofs.map_getD_range adj []).symm
  rw [hG.nodes, GenHelpProofs.nbrDegs, h, List.map_map]
  apply List.map_congr_left
  intro u hu
  have hu' := List.mem_range.mp hu
  simp only [Function.comp]
  rw [hW.nbrs u hu']
  apply List.map_congr_left
  intro v hv
  have hv' : v < adj.length := lt_of_mem_getD adj v u ((hG.symm u v).mp hv)
  rw [hG.degree v hv']; rfl

/-- (A)(B) ALL inputs, no hypothesis: the two wrappers NEVER raise — not on the empty graph either (`get_Pk`, `get_Pnk`
return empty dicts, `N = 0`; it is the BASE function that then fails) — and pass `N = G.order()`, `Pk = get_Pk(G)`, `rho`
AS GIVEN (`None` stays `None`: the default `1/N` is the base function's), and the other parameters on -/
theorem EBCM_pref_mix_args_total (A : WArgs) (tau gamma p : Rat) (rho : Option Rat) (tmin tmax : Rat) (tcount : Int)
    (dmin dmax : Int) (full : Bool) :
    (∃ a, EBCM_pref_mix_from_graph_args A tau gamma rho tmin tmax tcount full = .ok a ∧
      a.N = (A.nodes.length : Rat) ∧ a.Pk = PkAL (A.nodes.map A.degree) ∧
      GenHelp.get_Pnk (A.nodes.map (fun u_ => (A.neighbors u_).map A.degree)) = .ok a.Pnk ∧ a.rho = rho ∧
      a.tau = tau ∧ a.gamma = gamma ∧ a.tmin = tmin ∧ a.tmax = tmax ∧ a.tcount = tcount ∧ a.return_full_data = full) ∧
    (∃ a, EBCM_pref_mix_discrete_from_graph_args A p rho dmin dmax full = .ok a ∧
      a.N = (A.nodes.length : Rat) ∧ a.Pk = PkAL (A.nodes.map A.degree) ∧
      GenHelp.get_Pnk (A.nodes.map (fun u_ => (A.neighbors u_).map A.degree)) = .ok a.Pnk ∧ a.rho = rho ∧
      a.p = p ∧ a.tmin = dmin ∧ a.tmax = dmax ∧ a.return_full_data = full) := by
  obtain ⟨P, hP, -⟩ := GenHelpProofs.get_Pnk_eq (A.nodes.map (fun u_ => (A.neighbors u_).map A.degree))
  constructor
  · unfold EBCM_pref_mix_from_graph_args
    rw [GenHelpProofs.get_Pk_eq, hP]
    exact ⟨_, rfl, by simp, rfl, rfl, rfl, rfl, rfl, rfl, rfl, rfl, rfl⟩
  · unfold EBCM_pref_mix_discrete_from_graph_args
    rw [GenHelpProofs.get_Pk_eq, hP]
    exact ⟨_, rfl, by simp, rfl, rfl, rfl, rfl, rfl, rfl, rfl⟩

/-- (A) on a graph: `N`, `Pk[k] = N_k/N` with the degrees present as keys (first-seen order), and
`Pnk[k1][k2]` = the model `Helpers.Pnk adj k1 k2` of C20 / C20c (fraction of the neighbours of degree-`k1` nodes that have
degree `k2`) — both wrappers build the SAME `N`, `Pk`, `Pnk` -/
theorem EBCM_pref_mix_args_spec (A : WArgs) (adj : List (List Nat)) (hW : GraphOKW A adj) (tau gamma p : Rat)
    (rho : Option Rat) (tmin tmax : Rat) (tcount : Int) (dmin dmax : Int) (full : Bool) :
    ∃ P, GenHelp.get_Pnk (GenHelpProofs.nbrDegs adj) = .ok P ∧
      (∀ k1 k2, alGet (alGet P [] k1) 0 k2 = Helpers.Pnk adj k1 k2) ∧
      (∀ k, alGet (PkAL (adj.map (·.length))) 0 k = (Nk adj k : Rat) / (adj.length : Rat)) ∧
      (PkAL (adj.map (·.length))).map (·.1) = (adj.map (·.length)).eraseDups ∧
      EBCM_pref_mix_from_graph_args A tau gamma rho tmin tmax tcount full =
        .ok { N := (adj.length : Rat), Pk := PkAL (adj.map (·.length)), Pnk := P, tau := tau, gamma := gamma, rho := rho,
              tmin := tmin, tmax := tmax, tcount := tcount, return_full_data := full } ∧
      EBCM_pref_mix_discrete_from_graph_args A p rho dmin dmax full =
        .ok { N := (adj.length : Rat), Pk := PkAL (adj.map (·.length)), Pnk := P, p := p, rho := rho,
              tmin := dmin, tmax := dmax, return_full_data := full } := by
  have hG := hW.toGraphOK
  obtain ⟨P, hP, hv⟩ := GenHelpDeg.gen_get_Pnk_eq adj
  refine ⟨P, hP, hv, (Pk_Sk0_graph adj (fun _ => St.S)).2.1, (Pk_Sk0_graph adj (fun _ => St.S)).1, ?_, ?_⟩
  · unfold EBCM_pref_mix_from_graph_args
    rw [GenHelpProofs.get_Pk_eq, nbrDegs_graph A adj hW, hP, degs_eq A.toIArgs adj hG, nodes_length A.toIArgs adj hG]
    simp [GenHelpProofs.ok_bind]
  · unfold EBCM_pref_mix_discrete_from_graph_args
    rw [GenHelpProofs.get_Pk_eq, nbrDegs_graph A adj hW, hP, degs_eq A.toIArgs adj hG, nodes_length A.toIArgs adj hG]
    simp [GenHelpProofs.ok_bind]

/-! ## 5. non-vacuity on the triangle 0–1–2 with the pendant node 3 (`exW` of C06e), kernel-checked -/

/-- `SIR_compact_effective_degree_from_graph`, node 0 infected, node 3 recovered: the theorem instantiated, and the class
counts evaluated — nodes 1 and 2 are susceptible with 2 non-recovered neighbours each (node 2's neighbour 3 is recovered) -/
example : SIR_compact_effective_degree_from_graph_args exW 1 1 (some [0]) (some [3]) none 0 10 11 false =
    .ok { Skappa0 := vec (maxDeg C06c.exAdj) (fun k => (kappaCount C06c.exAdj (statusOf [0] [3]) k : Rat)),
          I0 := (count C06c.exAdj (statusOf [0] [3]) St.I : Rat), R0 := (count C06c.exAdj (statusOf [0] [3]) St.R : Rat),
          SI0 := (pairCount C06c.exAdj (statusOf [0] [3]) St.S St.I : Rat),
          tau := 1, gamma := 1, tmin := 0, tmax := 10, tcount := 11, return_full_data := false } :=
  SIR_compact_effective_degree_args_spec exW C06c.exAdj exW_okW 1 1 [0] (some [3]) ⟨by decide, by decide, by decide⟩
    (by decide) 0 10 11 false
example : (List.range 4).map (kappaCount C06c.exAdj (statusOf [0] [3])) = [0, 0, 2, 0] ∧
    pairCount C06c.exAdj (statusOf [0] [3]) St.S St.I = 2 ∧ maxDeg C06c.exAdj = 3 := by
  refine ⟨by decide +kernel, by decide +kernel, by decide +kernel⟩
/-- error cases with their precedence: on the empty graph ValueError comes BEFORE the check of the sets (node 7 is
foreign); `rho` with a set; a foreign node; an overlap -/
example : (match SIR_compact_effective_degree_from_graph_args emptyW 1 1 (some [7]) none none 0 10 11 false with
    | .error e => e == "ValueError" | .ok _ => false) = true := by decide +kernel
example : (match SIR_compact_effective_degree_from_graph_args exW 1 1 (some [7]) none none 0 10 11 false with
    | .error e => e == "EoNError" | .ok _ => false) = true := by decide +kernel
example : (match SIR_compact_effective_degree_from_graph_args exW 1 1 (some [0]) (some [0]) none 0 10 11 false with
    | .error e => e == "EoNError" | .ok _ => false) = true := by decide +kernel
/-- COUNTER-EXAMPLE (the hypothesis `G.neighbors(u)` = adjacency list of `GraphOKW` is needed): with a neighbour function
listing five neighbours while `maxdeg = 3`, `Skappa0[kappa] += 1` is out of range: IndexError -/
example : (match SIR_compact_effective_degree_from_graph_args { exW with neighbors := fun _ => [1, 1, 1, 1, 2] } 1 1
    (some [0]) (some [3]) none 0 10 11 false with | .error e => e == "IndexError" | .ok _ => false) = true := by
  decide +kernel
/-- end to end with the toy solver of C06d -/
example : ∃ l, SIR_compact_effective_degree_from_graph toyOdeint exW 1 1 (some [0]) (some [3]) none 0 10 11 true = .ok l ∧
    (∀ i, get l 1 i + get l 2 i + get l 3 i = 4) ∧ get l 1 0 = 2 ∧ get l 2 0 = 1 ∧ get l 3 0 = 1 := by
  have hex : ∃ l, SIR_compact_effective_degree_from_graph toyOdeint exW 1 1 (some [0]) (some [3]) none 0 10 11 true
      = .ok l := by
    unfold SIR_compact_effective_degree_from_graph
    rw [SIR_compact_effective_degree_args_spec exW C06c.exAdj exW_okW 1 1 [0] (some [3])
      ⟨by decide, by decide, by decide⟩ (by decide) 0 10 11 true]
    simp only [GenHelpProofs.ok_bind]
    obtain ⟨l, hl, -⟩ := C06d.SIR_compact_effective_degree_shape toyOdeint
      (V.ofList (vec (maxDeg C06c.exAdj) fun k => (kappaCount C06c.exAdj (statusOf [0] ((some [3] : Option (List Node)).getD [])) k : Rat)))
      (count C06c.exAdj (statusOf [0] ((some [3] : Option (List Node)).getD [])) St.I : Rat)
      (count C06c.exAdj (statusOf [0] ((some [3] : Option (List Node)).getD [])) St.R : Rat)
      (pairCount C06c.exAdj (statusOf [0] ((some [3] : Option (List Node)).getD [])) St.S St.I : Rat) 1 1 0 10
      (11 : Int).toNat true
    exact ⟨l, hl⟩
  obtain ⟨l, h⟩ := hex
  obtain ⟨hc, hi⟩ := SIR_compact_effective_degree_from_graph_init_conserve toyOdeint exW C06c.exAdj exW_okW 1 1 [0]
    (some [3]) 0 10 11 true l h
  obtain ⟨i1, i2, i3, -⟩ := hi toyOdeint_zero
  have c1 : count C06c.exAdj (statusOf [0] [3]) St.S = 2 := by decide +kernel
  have c2 : count C06c.exAdj (statusOf [0] [3]) St.I = 1 := by decide +kernel
  have c3 : count C06c.exAdj (statusOf [0] [3]) St.R = 1 := by decide +kernel
  have h4 : ((C06c.exAdj.length : Nat) : Rat) = 4 := by decide +kernel
  simp only [Option.getD_some] at i1 i2 i3
  rw [c1] at i1; rw [c2] at i2; rw [c3] at i3
  rw [h4] at hc
  exact ⟨l, h, hc, by simpa using i1, by simpa using i2, by simpa using i3⟩

/-- `SIS_super_compact_pairwise_from_graph`: node 0 infected: `S0 I0 SS0 SI0 II0 = 3 1 4 2 0`, moments
`2, 18/4, 44/4`; default `rho = 1/4`: `3 1 (3/4)²·8 (1/4)(3/4)·8 (1/4)²·8` -/
example : ((SIS_super_compact_pairwise_from_graph_args exW 1 1 (some [0]) none 0 10 11 false).toOption.map
    fun a => (a.S0, a.I0, a.SS0, a.SI0)) = some (3, 1, 4, 2) ∧
    ((SIS_super_compact_pairwise_from_graph_args exW 1 1 (some [0]) none 0 10 11 false).toOption.map
    fun a => (a.II0, a.k_ave, a.ksquare_ave, a.kcube_ave)) = some (0, 2, 9 / 2, 11) := by
  constructor <;> decide +kernel
example : ((SIS_super_compact_pairwise_from_graph_args exW 1 1 none none 0 10 11 false).toOption.map
    fun a => (a.S0, a.I0, a.SS0, a.SI0)) = some (3, 1, 9 / 2, 3 / 2) ∧
    ((SIS_super_compact_pairwise_from_graph_args exW 1 1 none none 0 10 11 false).toOption.map
    fun a => (a.II0, a.k_ave, a.ksquare_ave, a.kcube_ave)) = some (1 / 2, 2, 9 / 2, 11) := by
  constructor <;> decide +kernel
/-- errors: `rho` with a set; a foreign node; the empty graph with NOTHING given is a ValueError here (ZeroDivisionError
for `SIS_compact_pairwise_from_graph`, C06e) -/
example : (match SIS_super_compact_pairwise_from_graph_args exW 1 1 (some [0]) (some (1 / 4)) 0 10 11 false with
    | .error e => e == "EoNError" | .ok _ => false) = true := by decide +kernel
example : (match SIS_super_compact_pairwise_from_graph_args exW 1 1 (some [7]) none 0 10 11 false with
    | .error e => e == "EoNError" | .ok _ => false) = true := by decide +kernel
example : (match SIS_super_compact_pairwise_from_graph_args emptyW 1 1 none none 0 10 11 false with
    | .error e => e == "ValueError" | .ok _ => false) = true := by decide +kernel
/-- `Nodup` is necessary for `I0 = len(initial_infecteds)`: here `I0` is the class-array sum (ONE infected node) -/
example : ((SIS_super_compact_pairwise_from_graph_args exW 1 1 (some [0, 0]) none 0 10 11 false).toOption.map
    fun a => (a.S0, a.I0)) = some (3, 1) := by decide +kernel
/-- end to end with the toy solver -/
example : ∃ l, SIS_super_compact_pairwise_from_graph toyOdeint exW 1 1 (some [0]) none 0 10 11 true = .ok l ∧
    (∀ i, get l 1 i + get l 2 i = 4) ∧ get l 1 0 = 3 ∧ get l 2 0 = 1 ∧ get l 3 0 = 4 ∧ get l 4 0 = 2 := by
  have hex : ∃ l, SIS_super_compact_pairwise_from_graph toyOdeint exW 1 1 (some [0]) none 0 10 11 true = .ok l := by
    unfold SIS_super_compact_pairwise_from_graph
    rw [SIS_super_compact_pairwise_args_spec exW C06c.exAdj exW_ok 1 1 [0] (by decide) (by decide) 0 10 11 true]
    simp only [GenHelpProofs.ok_bind]
    obtain ⟨l, hl, -⟩ := C06d.SIS_super_compact_pairwise_shape toyOdeint
      (count C06c.exAdj (statusOf [0] []) St.S : Rat) (count C06c.exAdj (statusOf [0] []) St.I : Rat)
      (pairCount C06c.exAdj (statusOf [0] []) St.S St.S : Rat) (pairCount C06c.exAdj (statusOf [0] []) St.S St.I : Rat)
      (pairCount C06c.exAdj (statusOf [0] []) St.I St.I : Rat) 1 1 ((twoM C06c.exAdj : Rat) / (C06c.exAdj.length : Rat))
      (kMoment (C06c.exAdj.map (·.length)) 2) (kMoment (C06c.exAdj.map (·.length)) 3) 0 10 (11 : Int).toNat true
    exact ⟨l, hl⟩
  obtain ⟨l, h⟩ := hex
  have hc := SIS_super_compact_pairwise_from_graph_conserve toyOdeint exW C06c.exAdj exW_ok 1 1 _ _ 0 10 11 true l h
  obtain ⟨i1, i2, -, i4⟩ := (SIS_super_compact_pairwise_from_graph_init toyOdeint toyOdeint_zero exW C06c.exAdj exW_ok
    1 1 0 10 11 true l).1 [0] h
  obtain ⟨i5, i6, -⟩ := i4 rfl
  have c1 : count C06c.exAdj (statusOf [0] []) St.S = 3 := by decide +kernel
  have c2 : count C06c.exAdj (statusOf [0] []) St.I = 1 := by decide +kernel
  have c3 : pairCount C06c.exAdj (statusOf [0] []) St.S St.S = 4 := by decide +kernel
  have c4 : pairCount C06c.exAdj (statusOf [0] []) St.S St.I = 2 := by decide +kernel
  have h4 : ((C06c.exAdj.length : Nat) : Rat) = 4 := by decide +kernel
  rw [c1] at i1; rw [c2] at i2; rw [c3] at i5; rw [c4] at i6
  rw [h4] at hc
  exact ⟨l, h, hc, by simpa using i1, by simpa using i2, by simpa using i5, by simpa using i6⟩

/-- `SIR_super_compact_pairwise_from_graph`: node 0 infected, node 3 recovered: `R0 SS0 SI0 N = 1 2 2 4`,
`psihat(1) = 2/4`, `psihatPrime(1) = (2+3)/4`, `psihatDPrime(1) = (2+6)/4`; the graph has a LEAF (node 3), so
`psihatDPrime(0)` RAISES (while `psihatPrime(0) = 0`: no isolated node) -/
example : ((SIR_super_compact_pairwise_from_graph_args exW 1 1 (some [0]) (some [3]) none 0 10 11 false).toOption.map
    fun a => (a.R0, a.SS0, a.SI0, a.N)) = some (1, 2, 2, 4) ∧
    ((SIR_super_compact_pairwise_from_graph_args exW 1 1 (some [0]) (some [3]) none 0 10 11 false).toOption.map
    fun a => ((a.psihat 1).toOption, (a.psihatPrime 1).toOption, (a.psihatDPrime 1).toOption))
      = some (some (1 / 2), some (5 / 4), some 2) ∧
    ((SIR_super_compact_pairwise_from_graph_args exW 1 1 (some [0]) (some [3]) none 0 10 11 false).toOption.map
    fun a => ((a.psihatPrime 0).toOption,
      (match a.psihatDPrime 0 with | .error e => e == "ZeroDivisionError" | .ok _ => false))) = some (some 0, true) := by
  refine ⟨by decide +kernel, by decide +kernel, by decide +kernel⟩
/-- default `rho = 1/4` -/
example : ((SIR_super_compact_pairwise_from_graph_args exW 1 1 none none none 0 10 11 false).toOption.map
    fun a => (a.R0, a.SS0, a.SI0, a.N)) = some (0, 9 / 2, 3 / 2, 4) ∧
    ((SIR_super_compact_pairwise_from_graph_args exW 1 1 none none none 0 10 11 false).toOption.map
    fun a => ((a.psihat 1).toOption, (a.psihatPrime 1).toOption, (a.psihatDPrime 1).toOption))
      = some (some (3 / 4), some (3 / 2), some (15 / 8)) := by
  constructor <;> decide +kernel
/-- SURPRISE: `initial_recovereds` alone (no `rho`, no `initial_infecteds`) is an `EoNError`; the empty graph: default
request ZeroDivisionError, with `rho` ValueError -/
example : (match SIR_super_compact_pairwise_from_graph_args exW 1 1 none (some [3]) none 0 10 11 false with
    | .error e => e == "EoNError" | .ok _ => false) = true := by decide +kernel
example : (match SIR_super_compact_pairwise_from_graph_args emptyW 1 1 none none none 0 10 11 false with
    | .error e => e == "ZeroDivisionError" | .ok _ => false) = true := by decide +kernel
example : (match SIR_super_compact_pairwise_from_graph_args emptyW 1 1 none none (some (1 / 2)) 0 10 11 false with
    | .error e => e == "ValueError" | .ok _ => false) = true := by decide +kernel
/-- end to end with the toy solver -/
example : ∃ l, SIR_super_compact_pairwise_from_graph toyOdeint exW 1 1 (some [0]) (some [3]) none 0 10 11 false = .ok l ∧
    (∀ i, get l 1 i + get l 2 i + get l 3 i = 4) ∧ get l 1 0 = 2 ∧ get l 2 0 = 1 ∧ get l 3 0 = 1 := by
  have hS : SetsOK C06c.exAdj [0] ((some [3] : Option (List Node)).getD []) := ⟨by decide, by decide, by decide⟩
  have hex : ∃ l, SIR_super_compact_pairwise_from_graph toyOdeint exW 1 1 (some [0]) (some [3]) none 0 10 11 false
      = .ok l := by
    obtain ⟨a, ha, -⟩ := SIR_super_compact_pairwise_args_spec exW C06c.exAdj exW_ok 1 1 [0] (some [3]) hS (by decide)
      0 10 11 false
    unfold SIR_super_compact_pairwise_from_graph
    rw [ha]
    simp only [GenHelpProofs.ok_bind]
    obtain ⟨l, hl, -⟩ := C06d.SIR_super_compact_pairwise_shape toyOdeint a.R0 a.SS0 a.SI0 a.N a.tau a.gamma
      (PyWrap.total a.psihat) (PyWrap.total a.psihatPrime) (PyWrap.total a.psihatDPrime) a.tmin a.tmax a.tcount.toNat
      a.return_full_data
    exact ⟨l, hl⟩
  obtain ⟨l, h⟩ := hex
  have hc := SIR_super_compact_pairwise_from_graph_conserve toyOdeint exW C06c.exAdj exW_ok 1 1 _ _ _ 0 10 11 false l h
  obtain ⟨i1, i2, i3, -⟩ := (SIR_super_compact_pairwise_from_graph_init toyOdeint toyOdeint_zero exW C06c.exAdj exW_ok
    1 1 0 10 11 false l).1 [0] (some [3]) h
  have c1 : count C06c.exAdj (statusOf [0] [3]) St.S = 2 := by decide +kernel
  have c2 : count C06c.exAdj (statusOf [0] [3]) St.I = 1 := by decide +kernel
  have c3 : count C06c.exAdj (statusOf [0] [3]) St.R = 1 := by decide +kernel
  have h4 : ((C06c.exAdj.length : Nat) : Rat) = 4 := by decide +kernel
  simp only [Option.getD_some] at i1 i2 i3
  rw [c1] at i1; rw [c2] at i2; rw [c3] at i3
  rw [h4] at hc
  exact ⟨l, h, hc, by simpa using i1, by simpa using i2, by simpa using i3⟩

/-- `EBCM_pref_mix(_discrete)_from_graph` on `exW`: `N = 4`, `Pk = {2: 1/2, 3: 1/4, 1: 1/4}`,
`Pnk = {2: {2: 1/2, 3: 1/2}, 3: {2: 2/3, 1: 1/3}, 1: {3: 1}}`, `rho` passed on as `None`; the key condition `KeysOK` of
C06i holds for these dicts (every neighbour degree is a degree present) — kernel-checked HERE, not proved in general;
and on the empty graph the record is built without exception (`N = 0`, empty dicts) -/
example : ((EBCM_pref_mix_discrete_from_graph_args exW (1 / 2) none 0 2 false).toOption.map
    fun a => (a.N, a.Pk, a.rho)) = some (4, [(2, 1 / 2), (3, 1 / 4), (1, 1 / 4)], none) ∧
    ((EBCM_pref_mix_discrete_from_graph_args exW (1 / 2) none 0 2 false).toOption.map fun a => a.Pnk) =
    some [(2, [(2, 1 / 2), (3, 1 / 2)]), (3, [(2, 2 / 3), (1, 1 / 3)]), (1, [(3, 1)])] := by
  constructor <;> decide +kernel
example : ((EBCM_pref_mix_from_graph_args exW 1 1 (some (1 / 10)) 0 10 11 false).toOption.map
    fun a => (a.N, a.Pk, a.rho)) = some (4, [(2, 1 / 2), (3, 1 / 4), (1, 1 / 4)], some (1 / 10)) ∧
    ((EBCM_pref_mix_from_graph_args exW 1 1 (some (1 / 10)) 0 10 11 false).toOption.map fun a => a.Pnk) =
    some [(2, [(2, 1 / 2), (3, 1 / 2)]), (3, [(2, 2 / 3), (1, 1 / 3)]), (1, [(3, 1)])] := by
  constructor <;> decide +kernel
example : GenGlue3Proofs.KeysOK [(2, 1 / 2), (3, 1 / 4), (1, 1 / 4)]
    [(2, [(2, 1 / 2), (3, 1 / 2)]), (3, [(2, 2 / 3), (1, 1 / 3)]), (1, [(3, 1)])] := by
  unfold GenGlue3Proofs.KeysOK; decide +kernel
example : ((EBCM_pref_mix_discrete_from_graph_args emptyW (1 / 2) none 0 2 false).toOption.map
    fun a => (a.N, a.Pk, a.rho)) = some (0, [], none) ∧
    ((EBCM_pref_mix_discrete_from_graph_args emptyW (1 / 2) none 0 2 false).toOption.map fun a => a.Pnk) = some [] := by
  constructor <;> decide +kernel

end GenWrapProps4
