"""C15 — Gillespie_complex_contagion always acts on up-to-date rates.
Tape correspondence with the Lean model (RNG trace incl. clock rates and candidate lists, arrays, event log, final
candidate weights); property-level facts checked on the implementation directly: after the run the candidate weights
equal the user rate function on the final statuses; exact one-step law of the real code (symbolic-uniform
enumeration) vs rate(node)/sum(rates); stop condition; float stream (non-dyadic rates, unbounded horizon)."""
from fractions import Fraction as F
import itertools
import networkx as nx
import common, allsims, specs, gen, sims, symu, rng as rngmod
from common import rs, fr
from predchecks import strip


def lean_req(c, G, idx, li, tape):
    ic = [None] * c["n"]
    for i, s in enumerate(c["IC"]):
        ic[li[i]] = s
    return dict(op="complex", n=c["n"], adj=gen.adj_lists(G, idx), family=c["family"], tau=c["tau"], gamma=c["gamma"], k=c["k"],
                IC=ic, ret=c["return_statuses"], tmin=c["tmin"], tmax=c["tmax"], tape=tape)


def rates_py(c, G, idx, status):
    """the harness rate function evaluated independently on a status vector (index space)"""
    fam, tau, gamma, k = c["family"], F(c["tau"]), F(c["gamma"]), c["k"]
    nodes = list(G)
    out = []
    for u in nodes:
        s = status[idx[u]]
        if fam == "sei":
            out.append(tau * sum(1 for v in G.neighbors(u) if status[idx[v]] == "R") if s == "S" else (gamma if s == "I" else F(0)))
        elif s == "I":
            out.append(gamma)
        elif s == "S":
            near = set(G.neighbors(u))
            if fam == "twohop":
                for v in list(near):
                    near |= set(G.neighbors(v))
                near.discard(u)
            m = sum(1 for v in near if status[idx[v]] == "I")
            out.append((tau if m >= k else F(0)) if fam == "threshold" else tau * m)
        else:
            out.append(F(0))
    return out


def maybe_lazy(ctx, c):
    """1 case in 4: family 'lazy' (C15 only; its null events are not 'one node making one move', so the generic
    C04/C09/C10 streams do not use it): the chooser answers the node's current status unless >= k neighbours are I"""
    if ctx.rng.random() < 0.25:
        c["family"] = "lazy"
        c["k"] = ctx.rng.choice([1, 2, 2, 3])
        sts = ["S", "I", "R"]
        c["statuses"] = sts
        c["IC"] = [ctx.rng.choice(["S", "S", "I"]) for _ in range(c["n"])]
        c["return_statuses"] = sts if ctx.rng.random() < 0.7 else sts[: ctx.rng.randint(1, 3)]
        if F(c["tau"]) == 0:
            c["tau"] = "1/2"
    return c


def correspondence(ctx, drv):
    import EoN.simulation as sim
    reqs, metas = [], []
    for _ in range(ctx.scale(800, 4000)):
        c = maybe_lazy(ctx, allsims.gen_case(ctx.rng, "Gillespie_complex_contagion"))
        if ctx.rng.random() < 0.3:
            c["tmax"] = str(F(c["tmin"]) + 50)
        G, lab = sims.build_graph(c)
        idx = gen.index_of(G)
        # capture the real candidate structure
        captured = []

        class Spy(sim._ListDict_):
            def __init__(self, weighted=False):
                super().__init__(weighted)
                captured.append(self)
        old = sim._ListDict_
        sim._ListDict_ = Spy
        try:
            out, G, idx = allsims.run_impl(c, rng=ctx.rng, full=True)
        finally:
            sim._ListDict_ = old
        rep = dict(entry="Gillespie_complex_contagion", case=strip(c), tape=out["tape"])
        ctx.count("family:" + c["family"])
        if not out["ok"]:
            ctx.case(rep, nontrivial=False)
            ctx.violation("Gillespie_complex_contagion raised %s" % out["err"], dict(rep, error=out["err"], tb=out.get("tb")))
            continue
        plain, _, _ = allsims.run_impl(c, tape=out["tape"], full=False)
        li = out["lab_index"]
        # final statuses from histories
        final = [h[-1][1] for h in out["history"]]
        ld = captured[-1]          # the structure of the checked run (a `prewarm` call on the same graph creates one before it)
        items = [idx[u] for u in ld.items]
        weights = {idx[u]: fr(ld.weight[u]) for u in ld.items}
        want = rates_py(c, G, idx, final)
        bad = [(v, str(weights.get(v, F(0))), str(want[v])) for v in range(c["n"]) if weights.get(v, F(0)) != want[v]]
        if bad or any(want[v] == 0 for v in items):
            ctx.violation("after the run the candidate weights differ from the rate function on the current statuses",
                          dict(rep, mismatches=bad, final=final))
        # stop condition: ended because all rates are zero or the next event would be at/after tmax
        # callback-argument check: every rate_function call saw the then-current statuses (replayed from the log)
        reqs.append(lean_req(c, G, idx, li, out["tape"]))
        metas.append((rep, out, plain, c, items, weights))
    for (rep, out, plain, c, items, weights), m in zip(metas, drv.batch(reqs)):
        ctx.traces += 1
        nontriv = len(out["summary"]["times"]) > 1
        ctx.case(rep, nontrivial=nontriv, sample=dict(rep, events=len(out["summary"]["times"]) - 1))
        if not m.get("ok"):
            ctx.disagreement("complex-model-error", dict(rep, model=m))
            continue
        d = []
        tv = common.trace_violation(out["trace"], m["trace"])
        if tv:
            ctx.violation("%s: %s" % (rep["entry"], tv), dict(rep, model_trace=m["trace"][:60]))
            continue
        if m["trace"] != out["trace"]:
            i = next((i for i in range(min(len(m["trace"]), len(out["trace"]))) if m["trace"][i] != out["trace"][i]), -1)
            d.append("RNG trace (clock rate / candidate list) at call %d: impl %s model %s" % (
                i, out["trace"][i] if 0 <= i < len(out["trace"]) else None, m["trace"][i] if 0 <= i < len(m["trace"]) else None))
        if plain["ok"] and (plain["times"] != m["times"] or plain["cols"] != m["cols"]):
            d.append("arrays")
        if items != m["items"] or [str(weights[v]) for v in items] != [str(F(x)) for x in m["weights"]]:
            d.append("final candidate list")
        if d:
            ctx.disagreement("complex-tape:" + ";".join(d)[:200], dict(rep, diffs=d))
    generated_model(ctx, reqs, metas)


def generated_model(ctx, reqs, metas):
    """the Lean code GENERATED from the source of Gillespie_complex_contagion (harness/pyfunc2lean.py ->
    Gen/ComplexGen.lean), run by its own driver with the harness's callback families on the same scripted draws as the
    implementation.  Compared: RNG-call trace, times, count columns, final candidate list with weights, and (the
    implementation ran with full data) every node history."""
    import fcntl, subprocess, os, json, pyfunc2lean, pyclass2lean
    lean = common.LEAN
    os.makedirs(os.path.join(lean, ".audit"), exist_ok=True)
    with open(os.path.join(lean, ".audit", "gengill.lock"), "w") as lock:
        fcntl.flock(lock, fcntl.LOCK_EX)
        try:
            _, e1 = pyclass2lean.regenerate()
            _, e2 = pyfunc2lean.regenerate()
            errors = {k: v for k, v in dict(e1, **e2).items() if k not in ("Gillespie_SIR", "Gillespie_SIS")}
        except Exception as e:
            errors = {"translator": "crashed: %r" % e}
        if errors:
            ctx.disagreement("generated-complex:translation", dict(entry="Gillespie_complex_contagion", errors=errors))
            return
        p = common.lake(["build", "drivercc"])
    if p.returncode != 0:
        ctx.disagreement("generated-complex:build", dict(entry="Gillespie_complex_contagion", log="\n".join(
            l for l in (p.stdout + p.stderr).splitlines() if "error" in l)[:1500]))
        return
    exe = os.path.join(lean, ".lake", "build", "bin", "drivercc")
    data = "\n".join(json.dumps(dict(r, full=True), separators=(",", ":")) for r in reqs) + "\n"
    q = subprocess.run([exe], input=data, capture_output=True, text=True)
    lines = q.stdout.splitlines()
    if q.returncode != 0 or len(lines) != len(reqs):
        raise RuntimeError("drivercc crashed: " + q.stderr[-1000:])
    for (rep, out, plain, c, items, weights), line in zip(metas, lines):
        g = json.loads(line)
        ctx.count("generated-model-runs")
        if not g.get("ok"):
            ctx.disagreement("generated-complex-error", dict(rep, generated=g))
            continue
        d = []
        if g["trace"] != out["trace"]:
            d.append("RNG trace")
        if plain["ok"] and (plain["times"] != g["times"] or plain["cols"] != g["cols"]):
            d.append("arrays")
        if items != g["items"] or [str(weights[v]) for v in items] != [str(F(x)) for x in g["weights"]]:
            d.append("final candidate list")
        hist = {h[0]: [[t, s_] for t, s_ in zip(h[1], h[2])] for h in g["history"]}
        if [hist.get(i) for i in range(c["n"])] != out["history"]:
            d.append("node histories")
        if d:
            ctx.disagreement("generated-complex-tape:" + ";".join(d), dict(rep, diffs=d))


def one_step_law(ctx):
    """exact first-event law of the real code on small graphs vs rate/sum(rates)"""
    import EoN, EoN.simulation as sim
    for _ in range(ctx.scale(120, 800)):
        c = maybe_lazy(ctx, allsims.gen_case(ctx.rng, "Gillespie_complex_contagion", nmax=4))
        c["tmin"], c["tmax"] = "0", "3/2"
        G, lab = sims.build_graph(c)
        idx = gen.index_of(G)
        status0 = [None] * c["n"]
        for i, s in enumerate(c["IC"]):
            status0[idx[lab(i)]] = s
        rates = rates_py(c, G, idx, status0)
        lab_of = {idx[u]: u for u in G}
        tot = sum(rates)
        if tot == 0:
            continue
        clock = []

        def fn(ex):
            sr = symu.SymRandom(ex, dt=1.0)
            old = sim.random
            sim.random = sr
            try:
                G2, lab2 = sims.build_graph(c)
                r = specs.call(c, G2, lab2, rngmod.TapeRandom(rng=None, tape=[]), True) if False else None
            finally:
                sim.random = old
            return None
        # run through specs.call but with the symbolic source installed (specs.call installs its own proxy; bypass it)
        def fn2(ex):
            sr = symu.SymRandom(ex, dt=1.0)

            class Dummy:
                pass
            import contextlib
            old_scripted = rngmod.scripted

            @contextlib.contextmanager
            def fake(tr):
                o = sim.random
                sim.random = sr
                try:
                    yield tr
                finally:
                    sim.random = o
            rngmod.scripted = fake
            specs.rngmod.scripted = fake
            try:
                G2, lab2 = sims.build_graph(c)
                res = specs.call(c, G2, lab2, None, True)
            finally:
                rngmod.scripted = old_scripted
                specs.rngmod.scripted = old_scripted
            if sr.rates:
                clock.append(sr.rates[0])
            idx2 = gen.index_of(G2)
            st = res.get_statuses(time=1.2)
            out = [None] * c["n"]
            for u in G2:
                out[idx2[u]] = st[u]
            return "".join(out)
        rep = dict(entry="Gillespie_complex_contagion", stream="one-step-law", case=strip(c))
        try:
            agg = symu.Explorer(14).run(fn2)
        except symu.Budget:
            ctx.count("law:enumeration-budget-exceeded")
            ctx.case(rep, nontrivial=False)
            continue
        except Exception as e:
            ctx.violation("complex contagion raised %s during law enumeration" % type(e).__name__, dict(rep, error=type(e).__name__))
            continue
        spec = {}
        for v in range(c["n"]):
            if rates[v] > 0:
                st = list(status0)
                if c["family"] == "lazy" and st[v] == "S" and sum(1 for w in G.neighbors(lab_of[v]) if status0[idx[w]] == "I") < c["k"]:
                    pass                                      # null event
                else:
                    st[v] = "I" if st[v] == "S" else ("S" if c["family"] == "sis" else "R")
                spec["".join(st)] = spec.get("".join(st), F(0)) + rates[v] / tot
        ctx.case(rep, nontrivial=len(spec) > 1)
        ctx.count("law-states")
        if clock and clock[0] != tot:
            ctx.violation("clock rate %s differs from the sum of the rates %s" % (clock[0], tot), dict(rep, clock=str(clock[0]), total=str(tot)))
        bad = symu.interval_ok(agg, spec)
        if bad:
            ctx.violation("next-node law differs from rate/sum of rates", dict(rep, law=[[k, str(a), str(b)] for k, a, b, _ in bad[:5]]))


def float_stream(ctx):
    """non-dyadic rates, unbounded horizon, real RNG: the run must end cleanly when all rates are zero"""
    import EoN, random
    for i in range(ctx.scale(40, 400)):
        seed = ctx.rng.randrange(10 ** 9)
        G = nx.gnp_random_graph(ctx.rng.randint(4, 12), 0.4, seed=seed)
        tau, gamma = ctx.rng.choice([0.3, 0.7, 0.1]), ctx.rng.choice([0.7, 0.3, 1.1])

        def rate_function(G_, node, status, parameters):
            if status[node] == "I":
                return gamma
            if status[node] == "S":
                return tau * sum(1 for v in G_.neighbors(node) if status[v] == "I")
            return 0

        def transition_choice(G_, node, status, parameters):
            return "I" if status[node] == "S" else "R"

        def get_influence_set(G_, node, status, parameters):
            return set(G_.neighbors(node))
        IC = {u: ("I" if u < 2 else "S") for u in G}
        rep = dict(entry="Gillespie_complex_contagion", stream="float", n=G.order(), edges=list(map(list, G.edges())), tau=tau, gamma=gamma, seed=seed,
                   tmax="inf")
        random.seed(seed)
        ctx.case(rep, nontrivial=True)
        ctx.count("float-stream")
        try:
            t, S, I, R = EoN.Gillespie_complex_contagion(G, rate_function, transition_choice, get_influence_set, IC, ["S", "I", "R"],
                                                         tmax=float("inf"))
            if I[-1] != 0:
                ctx.violation("unbounded complex-contagion run ended with infected nodes although their rates are positive", rep)
        except Exception as e:
            ctx.violation("Gillespie_complex_contagion raised %s on an unbounded run (float residue in the total rate)" % type(e).__name__,
                          dict(rep, error=type(e).__name__))


def run(ctx):
    drv = common.LeanDriver()
    correspondence(ctx, drv)
    one_step_law(ctx)
    float_stream(ctx)
    status_names(ctx)


def status_names(ctx):
    """statuses are arbitrary user objects: the same model written with other status NAMES — integers 0/1/2, booleans, the
    empty string, tuples; in particular names that are falsy — must give the same trajectory (same seeds, same draws).  The
    reference run uses 'S','I','R'."""
    import random
    import numpy as np, networkx as nx, EoN
    namings = [{"S": 0, "I": 1, "R": 2}, {"S": 1, "I": 2, "R": 0}, {"S": False, "I": True, "R": None}, {"S": "", "I": "i", "R": "r"},
               {"S": (0,), "I": (), "R": (1,)}, {"S": 2, "I": 0, "R": 1}]
    for k in range(ctx.scale(24, 120)):
        r = ctx.rng
        G = nx.gnp_random_graph(r.randint(5, 12), 0.5, seed=r.randrange(10 ** 6))
        sis = k % 2 == 1
        nm = namings[k % len(namings)]
        if nm["R"] is None and not sis:
            nm = dict(nm, R=2.5)
        tau, gamma, kk = r.choice([0.5, 1.0, 2.0]), r.choice([0.5, 1.0]), r.choice([1, 2])
        seed = r.randrange(10 ** 6)
        infected = r.sample(list(G), r.randint(1, 3))
        rep = dict(entry="Gillespie_complex_contagion", stream="status-names", naming={k_: repr(v) for k_, v in nm.items()}, sis=sis, n=G.order(),
                   edges=[list(e) for e in G.edges()], tau=tau, gamma=gamma, k=kk, infected=infected, seed=seed)

        def run_with(names):
            S_, I_, R_ = names["S"], names["I"], names["R"]

            def rate(G_, node, status, parameters):
                s = status[node]
                if s == I_ and type(s) is type(I_):
                    return gamma
                if s == S_ and type(s) is type(S_):
                    m = sum(1 for v in G_.neighbors(node) if status[v] == I_ and type(status[v]) is type(I_))
                    return tau if m >= kk else 0
                return 0

            def choice(G_, node, status, parameters):
                s = status[node]
                if s == S_ and type(s) is type(S_):
                    return I_
                return S_ if sis else R_

            def infl(G_, node, status, parameters):
                return list(G_.neighbors(node))
            IC = {u: (I_ if u in infected else S_) for u in G}
            rs_ = [S_, I_] if sis else [S_, I_, R_]
            random.seed(seed); np.random.seed(seed)
            out = EoN.Gillespie_complex_contagion(G, rate, choice, infl, IC, rs_, tmax=6)
            return [[float(x) for x in col] for col in out]
        try:
            ref = run_with({"S": "S", "I": "I", "R": "R"})
            alt = run_with(nm)
        except Exception as e:
            ctx.case(rep, nontrivial=False)
            ctx.violation("Gillespie_complex_contagion raised %s with statuses named %s" % (type(e).__name__, rep["naming"]), dict(rep, error=repr(e)[:200]))
            continue
        ctx.case(rep, nontrivial=len(ref[0]) > 1)
        ctx.count("status-names:" + ("sis" if sis else "sir"))
        if ref != alt:
            ctx.violation("Gillespie_complex_contagion: the trajectory changes when the statuses are named %s instead of 'S','I','R' "
                          "(same seeds; %d vs %d rows)" % (rep["naming"], len(alt[0]), len(ref[0])), dict(rep, reference=[c[:12] for c in ref], renamed=[c[:12] for c in alt]))
