import EoNVerif.Proofs.Simple2
import EoNVerif.Proofs.ComplexTraj
/-!
Induction over events for `Gillespie_simple_contagion`: the one-step laws (`Props/C03`: `clock_eq`,
`pickIdx_interval`, `actor_law`, `applyEvent_inv`) lifted to the law of finite histories.  Definitions
(`Simple.Spec.events`, `Simple.Spec.evRate`, `Simple.Spec.jumpDist`, `Simple.idxDist`, `Simple.pickDist`,
`Simple.trajDist`, `Simple.accProd`, …) and lemmas; property statements in `Props/C03c.lean`.  The generic algebra of
`Dist.mass` is reused from `Proofs/GillespieTraj.lean` and `Proofs/ComplexTraj.lean`.
-/

theorem sumRat_flatMap {γ : Type} (l : List γ) (f : γ → List Rat) :
    sumRat (l.flatMap f) = sumRat (l.map fun x => sumRat (f x)) := by
  induction l with
  | nil => rfl
  | cons a t ih => simp [List.flatMap_cons, sumRat_append, ih]

namespace Simple
variable {σ : Type} [DecidableEq σ]

/-! ### the jump chain of the specification -/
namespace Spec

/-- rate of the event "transition `e.idx` (index into `spont ++ ind`) fires with actor `e.actor`": the transition's
rate × the actor's weight (`1` if the transition is unweighted); `0` for ill-formed events -/
def evRate (P : SCParams σ) (e : SCEvent) : Rat :=
  if e.idx < P.spont.length then
    match P.spont[e.idx]?, e.actor with
    | some tr, [u] => tr.rate * (wS tr u).getD 1
    | _, _ => 0
  else
    match P.ind[e.idx - P.spont.length]?, e.actor with
    | some tr, [u, v] => tr.rate * (wI tr u v).getD 1
    | _, _ => 0

/-- the events of spontaneous transition number `j`: one per node with the source status -/
def eventsS (P : SCParams σ) (st : Node → σ) (j : Nat) (tr : SpontTr σ) : List SCEvent :=
  (P.nodes.filter fun u => st u = tr.src).map fun u => { idx := j, actor := [u] }

/-- the events of induced transition number `j`: one per ordered pair `(u, v)`, `v ∈ succ u`, statuses `(a, b)` -/
def eventsI (P : SCParams σ) (st : Node → σ) (j : Nat) (tr : IndTr σ) : List SCEvent :=
  P.nodes.flatMap fun u =>
    if st u = tr.a then ((P.succ u).filter fun v => st v = tr.b).map fun v => { idx := j, actor := [u, v] }
    else []

def blockS (P : SCParams σ) (st : Node → σ) (j : Nat) : Option (SpontTr σ) → List SCEvent
  | some tr => eventsS P st j tr
  | none => []

def blockI (P : SCParams σ) (st : Node → σ) (j : Nat) : Option (IndTr σ) → List SCEvent
  | some tr => eventsI P st j tr
  | none => []

/-- the enabled (transition, actor) pairs in status `st` — the same enumeration as `Simple.enabledS`/`enabledI` of
the model file (whose rates sum to `Simple.specTotal`), labelled with the index of the transition -/
def events (P : SCParams σ) (st : Node → σ) : List SCEvent :=
  ((List.range P.spont.length).flatMap fun j => blockS P st j P.spont[j]?) ++
  ((List.range P.ind.length).flatMap fun j => blockI P st (P.spont.length + j) P.ind[j]?)

/-- `e` is an enabled transition of the specification in status `st` -/
def Enabled (P : SCParams σ) (st : Node → σ) (e : SCEvent) : Prop :=
  (∃ tr u, P.spont[e.idx]? = some tr ∧ e.actor = [u] ∧ u ∈ P.nodes ∧ st u = tr.src) ∨
  (∃ tr u v, P.spont.length ≤ e.idx ∧ P.ind[e.idx - P.spont.length]? = some tr ∧ e.actor = [u, v] ∧
    u ∈ P.nodes ∧ v ∈ P.succ u ∧ st u = tr.a ∧ st v = tr.b)

/-- the status after event `e`: the modified node (the actor of a spontaneous transition, the second node of an
induced one) takes the transition's to-status -/
def apply (P : SCParams σ) (st : Node → σ) (e : SCEvent) : Node → σ :=
  match decode P e with
  | some (_, m, _, new) => fset st m new
  | none => st

/-- **jump chain of the specified CTMC**, first `n` jumps, as a law on histories of (event, total rate before the
event): if the total rate `specTotal` is `0` the history ends; otherwise the enabled event `e` is next with
probability `evRate e / specTotal`, `(e, specTotal)` is recorded, and the chain continues from `apply st e`. -/
def jumpDist (P : SCParams σ) : Nat → (Node → σ) → Dist (List (SCEvent × Rat))
  | 0, _ => Dist.pure []
  | n + 1, st =>
    if specTotal P st = 0 then Dist.pure []
    else
      Dist.bind ((events P st).map fun e => (e, evRate P e / specTotal P st)) fun e =>
        Dist.push (fun h => (e, specTotal P st) :: h) (jumpDist P n (apply P st e))

/-- status after a history -/
def applyHist (P : SCParams σ) : (Node → σ) → List (SCEvent × Rat) → (Node → σ)
  | st, [] => st
  | st, (e, _) :: h => applyHist P (apply P st e) h

/-- `h` is a legal path of the chain from `st`: every event is an enabled transition of the specification, with a
positive rate, in the status reached by its predecessors; the recorded rate is the total rate of that status -/
def Legal (P : SCParams σ) : (Node → σ) → List (SCEvent × Rat) → Prop
  | _, [] => True
  | st, (e, r) :: h =>
    Enabled P st e ∧ 0 < evRate P e ∧ r = specTotal P st ∧ 0 < specTotal P st ∧ Legal P (apply P st e) h

end Spec

/-! ### the enumeration of the enabled events -/

theorem mem_eventsS (P : SCParams σ) (st : Node → σ) (j : Nat) (tr : SpontTr σ) (e : SCEvent) :
    e ∈ Spec.eventsS P st j tr ↔ ∃ u, u ∈ P.nodes ∧ st u = tr.src ∧ e = { idx := j, actor := [u] } := by
  unfold Spec.eventsS
  simp only [List.mem_map, List.mem_filter, decide_eq_true_eq]
  constructor
  · rintro ⟨u, ⟨h1, h2⟩, rfl⟩; exact ⟨u, h1, h2, rfl⟩
  · rintro ⟨u, h1, h2, rfl⟩; exact ⟨u, ⟨h1, h2⟩, rfl⟩

theorem mem_eventsI (P : SCParams σ) (st : Node → σ) (j : Nat) (tr : IndTr σ) (e : SCEvent) :
    e ∈ Spec.eventsI P st j tr ↔
      ∃ u v, u ∈ P.nodes ∧ v ∈ P.succ u ∧ st u = tr.a ∧ st v = tr.b ∧ e = { idx := j, actor := [u, v] } := by
  unfold Spec.eventsI
  simp only [List.mem_flatMap]
  constructor
  · rintro ⟨u, h1, he⟩
    split at he
    · rename_i h3
      simp only [List.mem_map, List.mem_filter, decide_eq_true_eq] at he
      obtain ⟨v, ⟨h2, h4⟩, rfl⟩ := he
      exact ⟨u, v, h1, h2, h3, h4, rfl⟩
    · cases he
  · rintro ⟨u, v, h1, h2, h3, h4, rfl⟩
    refine ⟨u, h1, ?_⟩
    rw [if_pos h3]
    simp only [List.mem_map, List.mem_filter, decide_eq_true_eq]
    exact ⟨v, ⟨h2, h4⟩, rfl⟩

theorem mem_events (P : SCParams σ) (st : Node → σ) (e : SCEvent) :
    e ∈ Spec.events P st ↔ Spec.Enabled P st e := by
  unfold Spec.events Spec.Enabled
  rw [List.mem_append]
  apply or_congr
  · simp only [List.mem_flatMap, List.mem_range]
    constructor
    · rintro ⟨j, _, he⟩
      cases htr : P.spont[j]? with
      | none => rw [htr] at he; cases he
      | some tr =>
        rw [htr] at he
        obtain ⟨u, h1, h2, rfl⟩ := (mem_eventsS P st j tr e).1 he
        exact ⟨tr, u, htr, rfl, h1, h2⟩
    · rintro ⟨tr, u, htr, hact, h1, h2⟩
      refine ⟨e.idx, (List.getElem?_eq_some_iff.1 htr).1, ?_⟩
      rw [htr]
      refine (mem_eventsS P st e.idx tr e).2 ⟨u, h1, h2, ?_⟩
      cases e; simp only at hact; rw [hact]
  · simp only [List.mem_flatMap, List.mem_range]
    constructor
    · rintro ⟨j, _, he⟩
      cases htr : P.ind[j]? with
      | none => rw [htr] at he; cases he
      | some tr =>
        rw [htr] at he
        obtain ⟨u, v, h1, h2, h3, h4, rfl⟩ := (mem_eventsI P st _ tr e).1 he
        refine ⟨tr, u, v, Nat.le_add_right _ _, ?_, rfl, h1, h2, h3, h4⟩
        simp only [Nat.add_sub_cancel_left]; exact htr
    · rintro ⟨tr, u, v, hle, htr, hact, h1, h2, h3, h4⟩
      refine ⟨e.idx - P.spont.length, (List.getElem?_eq_some_iff.1 htr).1, ?_⟩
      rw [htr]
      refine (mem_eventsI P st _ tr e).2 ⟨u, v, h1, h2, h3, h4, ?_⟩
      cases e; simp only at hact hle ⊢; rw [hact]
      congr 1; omega

theorem idx_of_mem_blockS (P : SCParams σ) (st : Node → σ) (j : Nat) (o : Option (SpontTr σ)) (e : SCEvent)
    (he : e ∈ Spec.blockS P st j o) : e.idx = j := by
  cases o with
  | none => cases he
  | some tr => obtain ⟨u, -, -, rfl⟩ := (mem_eventsS P st j tr e).1 he; rfl

theorem idx_of_mem_blockI (P : SCParams σ) (st : Node → σ) (j : Nat) (o : Option (IndTr σ)) (e : SCEvent)
    (he : e ∈ Spec.blockI P st j o) : e.idx = j := by
  cases o with
  | none => cases he
  | some tr => obtain ⟨u, v, -, -, -, -, rfl⟩ := (mem_eventsI P st j tr e).1 he; rfl

theorem eventsS_nodup (P : SCParams σ) (h : WF P) (st : Node → σ) (j : Nat) (tr : SpontTr σ) :
    (Spec.eventsS P st j tr).Nodup := by
  refine List.Nodup.map ?_ (h.nodup.filter _)
  intro a b hab
  simpa using hab

theorem eventsI_nodup (P : SCParams σ) (h : WF P) (st : Node → σ) (j : Nat) (tr : IndTr σ) :
    (Spec.eventsI P st j tr).Nodup := by
  unfold Spec.eventsI
  rw [List.nodup_flatMap]
  constructor
  · intro x hx
    split
    · refine List.Nodup.map ?_ ((h.succ_nodup x hx).filter _)
      intro a b hab
      simpa using hab
    · exact List.nodup_nil
  · refine h.nodup.pairwise_of_forall_ne ?_
    intro a _ b _ hab
    have key : ∀ (x : Node) (p : SCEvent),
        p ∈ (if st x = tr.a then ((P.succ x).filter fun v => st v = tr.b).map
          fun v => ({ idx := j, actor := [x, v] } : SCEvent) else []) →
        p.actor.head? = some x := by
      intro x p hp
      split at hp
      · simp only [List.mem_map] at hp
        obtain ⟨y, -, rfl⟩ := hp
        rfl
      · cases hp
    intro p hp1 hp2
    have := (key a p hp1).symm.trans (key b p hp2)
    exact hab (Option.some.inj this)

theorem events_nodup (P : SCParams σ) (h : WF P) (st : Node → σ) : (Spec.events P st).Nodup := by
  unfold Spec.events
  apply List.Nodup.append
  · rw [List.nodup_flatMap]
    constructor
    · intro j _
      cases P.spont[j]? with
      | none => exact List.nodup_nil
      | some tr => exact eventsS_nodup P h st j tr
    · refine List.nodup_range.pairwise_of_forall_ne ?_
      intro a _ b _ hab p hp1 hp2
      exact hab ((idx_of_mem_blockS P st a _ p hp1).symm.trans (idx_of_mem_blockS P st b _ p hp2))
  · rw [List.nodup_flatMap]
    constructor
    · intro j _
      cases P.ind[j]? with
      | none => exact List.nodup_nil
      | some tr => exact eventsI_nodup P h st _ tr
    · refine List.nodup_range.pairwise_of_forall_ne ?_
      intro a _ b _ hab p hp1 hp2
      have := (idx_of_mem_blockI P st _ _ p hp1).symm.trans (idx_of_mem_blockI P st _ _ p hp2)
      exact hab (by omega)
  · intro e h1 h2
    simp only [List.mem_flatMap, List.mem_range] at h1 h2
    obtain ⟨j, hj, he⟩ := h1
    obtain ⟨j', _, he'⟩ := h2
    have e1 := idx_of_mem_blockS P st j _ e he
    have e2 := idx_of_mem_blockI P st _ _ e he'
    omega

/-! ### the rates of the enumerated events sum to `specTotal` -/

omit [DecidableEq σ] in
theorem evRate_spont (P : SCParams σ) (j : Nat) (tr : SpontTr σ) (htr : P.spont[j]? = some tr) (u : Node) :
    Spec.evRate P { idx := j, actor := [u] } = tr.rate * (wS tr u).getD 1 := by
  unfold Spec.evRate
  have hj : j < P.spont.length := (List.getElem?_eq_some_iff.1 htr).1
  simp only [hj, if_true, htr]

omit [DecidableEq σ] in
theorem evRate_ind (P : SCParams σ) (j : Nat) (tr : IndTr σ) (htr : P.ind[j]? = some tr) (u v : Node) :
    Spec.evRate P { idx := P.spont.length + j, actor := [u, v] } = tr.rate * (wI tr u v).getD 1 := by
  unfold Spec.evRate
  have hj : ¬ (P.spont.length + j < P.spont.length) := by omega
  simp only [hj, if_false, Nat.add_sub_cancel_left, htr]

theorem sum_blockS (P : SCParams σ) (st : Node → σ) (j : Nat) (tr : SpontTr σ) (htr : P.spont[j]? = some tr) :
    sumRat ((Spec.eventsS P st j tr).map (Spec.evRate P)) = sumRat ((enabledS P st tr).map (·.2)) := by
  unfold Spec.eventsS enabledS
  rw [List.map_map, List.map_map]
  apply sumRat_map_congr
  intro u _
  simp only [Function.comp]
  exact evRate_spont P j tr htr u

theorem sum_blockI (P : SCParams σ) (st : Node → σ) (j : Nat) (tr : IndTr σ) (htr : P.ind[j]? = some tr) :
    sumRat ((Spec.eventsI P st (P.spont.length + j) tr).map (Spec.evRate P)) =
      sumRat ((enabledI P st tr).map (·.2)) := by
  unfold Spec.eventsI enabledI
  rw [List.map_flatMap, List.map_flatMap, sumRat_flatMap, sumRat_flatMap]
  apply sumRat_map_congr
  intro u _
  split
  · rw [List.map_map, List.map_map]
    apply sumRat_map_congr
    intro v _
    simp only [Function.comp]
    exact evRate_ind P j tr htr u v
  · rfl

theorem sum_rates (P : SCParams σ) (st : Node → σ) :
    sumRat ((Spec.events P st).map (Spec.evRate P)) = specTotal P st := by
  unfold Spec.events specTotal
  rw [List.map_append, sumRat_append, List.map_flatMap, List.map_flatMap, sumRat_flatMap, sumRat_flatMap]
  congr 1
  · rw [← sumRat_range_getElem? P.spont (fun o => match o with
      | some tr => sumRat ((enabledS P st tr).map (·.2))
      | none => 0)]
    apply sumRat_map_congr
    intro j _
    cases htr : P.spont[j]? with
    | none => rfl
    | some tr => exact sum_blockS P st j tr htr
  · rw [← sumRat_range_getElem? P.ind (fun o => match o with
      | some tr => sumRat ((enabledI P st tr).map (·.2))
      | none => 0)]
    apply sumRat_map_congr
    intro j _
    cases htr : P.ind[j]? with
    | none => rfl
    | some tr => exact sum_blockI P st j tr htr

end Simple

/-! ### the model's law -/
namespace Simple
variable {σ : Type} [DecidableEq σ]
open Dist

/-- the `while` test of `Simple.loop` with no time horizon (`tmax = ∞`): the loop stops when `total_rate > 0`
fails (the next event time is `inf` exactly in that case, see `loop_halted`) -/
def halted (P : SCParams σ) (s : SCState σ) : Prop := ¬ (totalRate P s > 0)

instance (P : SCParams σ) (s : SCState σ) : Decidable (halted P s) :=
  inferInstanceAs (Decidable (¬ (totalRate P s > 0)))

/-- **law of the transition index** chosen by `r = random(); for tr: r -= share; if r < 0: break`: by
`pickIdx_interval` the index `i` is returned exactly when the uniform draw falls in the `i`-th cumulative-share
interval, whose length is `share_i = rate_i·total_weight_i / total_rate` (the same expressions the tape model
`pick` hands to `pickIdx`) -/
def idxDist (P : SCParams σ) (s : SCState σ) : Dist Nat :=
  (List.range (rateList P s).length).map fun i => (i, (rateList P s).getD i 0 / totalRate P s)

/-- law interpretation of `Simple.pick`: transition index by cumulative share, then the `k`-round sampler of that
transition's candidate list.  `none` = sampler out of rounds; an out-of-range index (IndexError in the tape model)
contributes no outcome (unreachable: `idxDist` only lists indices of `rateList`). -/
def pickDist (P : SCParams σ) (s : SCState σ) (k : Nat) : Dist (Option SCEvent) :=
  Dist.bind (idxDist P s) fun i =>
    match (s.ptS ++ s.ptI)[i]? with
    | none => []
    | some ld => Dist.push (fun o => o.map fun a => ({ idx := i, actor := a } : SCEvent)) (ld.chooseDist k)

/-- **law of the first `n` events of the model's loop** (histories of (event, rate handed to `expovariate` before
the event)).  Mirrors `Simple.loop`: stop test `halted`; selection `pickDist`; `none` (sampler out of fuel: an error
of the tape model, not a stop) and `applyEvent = none` (KeyError, unreachable) contribute no history.  The event
time passed to `applyEvent` is `0`: it is only recorded (`trajDistT_eq'`). -/
def trajDist (P : SCParams σ) (k : Nat) : Nat → SCState σ → Dist (List (SCEvent × Rat))
  | 0, _ => Dist.pure []
  | n + 1, s =>
    if halted P s then Dist.pure []
    else
      Dist.bind (pickDist P s k) fun o =>
        match o with
        | none => []
        | some e =>
          match applyEvent P s e 0 with
          | none => []
          | some s' => Dist.push (fun h => (e, totalRate P s) :: h) (trajDist P k n s')

instance (s : SCState σ) (e : SCEvent) : Decidable (Enabled s e) :=
  match h : (s.ptS ++ s.ptI)[e.idx]? with
  | some ld =>
    if ha : e.actor ∈ ld.items then isTrue ⟨ld, h, ha⟩
    else isFalse (by rintro ⟨ld', h1, h2⟩; rw [h] at h1; cases h1; exact ha h2)
  | none => isFalse (by rintro ⟨ld', h1, _⟩; rw [h] at h1; cases h1)

/-- acceptance factor of the candidate list used by event `e` in state `s`: `1 - ρ^k` if it is weighted (rejection
sampling), `1` otherwise -/
def stepFactor (s : SCState σ) (k : Nat) (e : SCEvent) : Rat :=
  match (s.ptS ++ s.ptI)[e.idx]? with
  | some ld => if ld.weighted then 1 - ld.rejProb ^ k else 1
  | none => 1

/-- rejection defect `ρ^k` of the list used by `e` in `s` (`0` if unweighted) -/
def stepDefect (s : SCState σ) (k : Nat) (e : SCEvent) : Rat :=
  match (s.ptS ++ s.ptI)[e.idx]? with
  | some ld => if ld.weighted then ld.rejProb ^ k else 0
  | none => 0

/-- `Π_i c_i`: product of the acceptance factors of the lists used along the model's path through `h` -/
def accProd (P : SCParams σ) (k : Nat) : SCState σ → List (SCEvent × Rat) → Rat
  | _, [] => 1
  | s, (e, _) :: h =>
    if Enabled s e then
      match applyEvent P s e 0 with
      | some s' => stepFactor s k e * accProd P k s' h
      | none => 1
    else 1

/-- `Σ_i ρ_i^k` along the model's path through `h` -/
def defectSum (P : SCParams σ) (k : Nat) : SCState σ → List (SCEvent × Rat) → Rat
  | _, [] => 0
  | s, (e, _) :: h =>
    if Enabled s e then
      match applyEvent P s e 0 with
      | some s' => stepDefect s k e + defectSum P k s' h
      | none => 0
    else 0

/-- the model's state after a history (event times recorded as 0) -/
def applyHist (P : SCParams σ) : SCState σ → List (SCEvent × Rat) → Option (SCState σ)
  | s, [] => some s
  | s, (e, _) :: h =>
    match applyEvent P s e 0 with
    | some s' => applyHist P s' h
    | none => none

/-! ### the stop test -/

theorem evRate_nonneg (P : SCParams σ) (h : WF P) (e : SCEvent) : 0 ≤ Spec.evRate P e := by
  unfold Spec.evRate
  split
  · split
    · rename_i tr u htr _
      have hm : tr ∈ P.spont := List.mem_of_getElem? htr
      refine mul_nonneg (h.rate_nonneg.1 tr hm) ?_
      cases hw : wS tr u with
      | none => simp
      | some x => exact wS_nonneg P h tr hm u x hw
    · exact le_refl 0
  · split
    · rename_i tr u v htr _
      have hm : tr ∈ P.ind := List.mem_of_getElem? htr
      refine mul_nonneg (h.rate_nonneg.2 tr hm) ?_
      cases hw : wI tr u v with
      | none => simp
      | some x => exact wI_nonneg P h tr hm u v x hw
    · exact le_refl 0

theorem specTotal_nonneg (P : SCParams σ) (h : WF P) (st : Node → σ) : 0 ≤ specTotal P st := by
  rw [← sum_rates]
  exact sumRat_map_nonneg _ _ (fun e _ => evRate_nonneg P h e)

theorem halted_iff (P : SCParams σ) (h : WF P) (s : SCState σ) (hs : Inv P s) :
    halted P s ↔ specTotal P s.status = 0 := by
  unfold halted
  rw [clock_eq' P h s hs]
  have := specTotal_nonneg P h s.status
  constructor
  · intro hn; exact le_antisymm (not_lt.1 hn) this
  · intro h0; rw [h0]; exact lt_irrefl 0

omit [DecidableEq σ] in
theorem pos_of_not_halted (P : SCParams σ) (s : SCState σ) (hh : ¬ halted P s) : 0 < totalRate P s := by
  unfold halted at hh
  exact not_not.1 hh

end Simple

/-! ### one step of the model's law -/
namespace Simple
variable {σ : Type} [DecidableEq σ]
open Dist

/-- share of a candidate list × law of its sampler = (rate × weight of the actor) / total × acceptance factor -/
theorem ld_share_law (ld : LD Actor) (hinv : LD.Inv ld) (a : Actor) (ha : a ∈ ld.items) (k : Nat) (hk : 0 < k)
    (r T : Rat) :
    r * ld.totalWeight / T * mass (ld.chooseDist k) (fun o => o == some a) =
      r * (if ld.weighted then ld.getW a else 1) / T * (if ld.weighted then 1 - ld.rejProb ^ k else 1) := by
  cases hw : ld.weighted with
  | true =>
    have htw : ld.totalWeight = ld.weightSum := by unfold LD.totalWeight; rw [if_pos hw, hinv.total hw]
    have hW := Gillespie.weightSum_nonneg ld hinv hw
    rcases lt_or_eq_of_le hW with hp | h0
    · rw [actor_law' ld hinv a ha k hk (fun _ => hp), hw, htw]
      simp only [if_true]
      have e : ld.weightSum * (ld.getW a / ld.weightSum) = ld.getW a := by
        field_simp
      calc r * ld.weightSum / T * (ld.getW a / ld.weightSum * (1 - ld.rejProb ^ k))
          = r * (ld.weightSum * (ld.getW a / ld.weightSum)) / T * (1 - ld.rejProb ^ k) := by ring
        _ = r * ld.getW a / T * (1 - ld.rejProb ^ k) := by rw [e]
    · have h1 : 0 ≤ ld.getW a := hinv.nonneg hw a ha
      have h2 : ld.getW a ≤ ld.weightSum := Gillespie.sumRat_ge_mem ld.items ld.getW (hinv.nonneg hw) a ha
      have h3 : ld.getW a = 0 := le_antisymm (by rw [h0]; exact h2) h1
      rw [htw, ← h0, h3]
      simp
  | false =>
    have htw : ld.totalWeight = (ld.items.length : Rat) := by
      unfold LD.totalWeight; rw [hw]; simp
    have hlen : (ld.items.length : Rat) ≠ 0 := by
      have : 0 < ld.items.length := List.length_pos_of_mem ha
      exact_mod_cast (Nat.pos_iff_ne_zero.1 this)
    rw [actor_law' ld hinv a ha k hk (fun hc => by rw [hw] at hc; cases hc), hw, htw]
    simp only [Bool.false_eq_true, if_false]
    have e : (ld.items.length : Rat) * (1 / (ld.items.length : Rat)) = 1 := by field_simp
    calc r * (ld.items.length : Rat) / T * (1 / (ld.items.length : Rat))
        = r * ((ld.items.length : Rat) * (1 / (ld.items.length : Rat))) / T := by ring
      _ = r * 1 / T * 1 := by rw [e]; ring

theorem zipWith_getElem? {τ : Type} (trs : List τ) (pts : List (LD Actor)) (g : τ → LD Actor → Rat) (i : Nat)
    (tr : τ) (ld : LD Actor) (h1 : trs[i]? = some tr) (h2 : pts[i]? = some ld) :
    (List.zipWith g trs pts)[i]? = some (g tr ld) := by
  induction trs generalizing pts i with
  | nil => simp at h1
  | cons a t ih =>
    cases pts with
    | nil => simp at h2
    | cons b u =>
      cases i with
      | zero =>
        simp only [List.getElem?_cons_zero, Option.some.injEq] at h1 h2
        subst h1; subst h2; rfl
      | succ i =>
        simp only [List.getElem?_cons_succ] at h1 h2
        simp only [List.zipWith_cons_cons, List.getElem?_cons_succ]
        exact ih u i h1 h2

omit [DecidableEq σ] in
theorem evRate_ind' (P : SCParams σ) (i : Nat) (hi : P.spont.length ≤ i) (tr : IndTr σ)
    (htr : P.ind[i - P.spont.length]? = some tr) (u v : Node) :
    Spec.evRate P { idx := i, actor := [u, v] } = tr.rate * (wI tr u v).getD 1 := by
  unfold Spec.evRate
  have hj : ¬ (i < P.spont.length) := by omega
  simp only [hj, if_false, htr]

/-- what an enabled event looks like under the invariant: its list, transition rate, share and weight -/
theorem enabled_data (P : SCParams σ) (s : SCState σ) (hs : Inv P s) (e : SCEvent) (ld : LD Actor)
    (hld : (s.ptS ++ s.ptI)[e.idx]? = some ld) (ha : e.actor ∈ ld.items) :
    ∃ r, (rateList P s)[e.idx]? = some (r * ld.totalWeight) ∧
      Spec.evRate P e = r * (if ld.weighted then ld.getW e.actor else 1) ∧ Spec.Enabled P s.status e := by
  obtain ⟨i, act⟩ := e
  dsimp only at hld ha ⊢
  by_cases hlt : i < P.spont.length
  · have hlt' : i < s.ptS.length := by rw [hs.lenS]; exact hlt
    rw [List.getElem?_append_left hlt'] at hld
    obtain ⟨tr, htr⟩ : ∃ tr, P.spont[i]? = some tr := ⟨_, List.getElem?_eq_getElem hlt⟩
    obtain ⟨-, hwd, hmem, hgw⟩ := hs.spont i tr ld htr hld
    obtain ⟨u, hu, hun, hsu⟩ := (hmem act).1 ha
    subst hu
    refine ⟨tr.rate, ?_, ?_, Or.inl ⟨tr, u, htr, rfl, hun, hsu⟩⟩
    · unfold rateList
      have hz := zipWith_getElem? P.spont s.ptS (fun (tr : SpontTr σ) ld => tr.rate * ld.totalWeight) i tr ld
        htr hld
      rw [List.getElem?_append_left (List.getElem?_eq_some_iff.1 hz).1]
      exact hz
    · rw [evRate_spont P i tr htr u]
      cases hf : tr.w with
      | none =>
        have : ld.weighted = false := by rw [hwd, hf]; rfl
        rw [this]; simp [wS, hf]
      | some f =>
        have : ld.weighted = true := by rw [hwd, hf]; rfl
        rw [this, wS_some _ f hf]
        simp only [if_true, Option.getD_some]
        rw [hgw f hf u ha]
  · have hge : s.ptS.length ≤ i := by rw [hs.lenS]; exact Nat.le_of_not_lt hlt
    rw [List.getElem?_append_right hge, hs.lenS] at hld
    have hlt2 : i - P.spont.length < P.ind.length := by
      rw [← hs.lenI]
      exact (List.getElem?_eq_some_iff.1 hld).1
    obtain ⟨tr, htr⟩ : ∃ tr, P.ind[i - P.spont.length]? = some tr := ⟨_, List.getElem?_eq_getElem hlt2⟩
    obtain ⟨-, hwd, hmem, hgw⟩ := hs.ind _ tr ld htr hld
    obtain ⟨u, v, huv, hun, hvu, hsu, hsv⟩ := (hmem act).1 ha
    subst huv
    refine ⟨tr.rate, ?_, ?_, Or.inr ⟨tr, u, v, Nat.le_of_not_lt hlt, htr, rfl, hun, hvu, hsu, hsv⟩⟩
    · unfold rateList
      have hz := zipWith_getElem? P.ind s.ptI (fun (tr : IndTr σ) ld => tr.rate * ld.totalWeight) _ tr ld htr hld
      have hl1 : (List.zipWith (fun (tr : SpontTr σ) ld => tr.rate * ld.totalWeight) P.spont s.ptS).length =
          P.spont.length := by rw [List.length_zipWith, hs.lenS]; simp
      rw [List.getElem?_append_right (by rw [hl1]; exact Nat.le_of_not_lt hlt), hl1]
      exact hz
    · rw [evRate_ind' P i (Nat.le_of_not_lt hlt) tr htr u v]
      cases hf : tr.w with
      | none =>
        have : ld.weighted = false := by rw [hwd, hf]; rfl
        rw [this]; simp [wI, hf]
      | some f =>
        have : ld.weighted = true := by rw [hwd, hf]; rfl
        rw [this, wI_some _ f hf]
        simp only [if_true, Option.getD_some]
        rw [hgw f hf u v ha]

/-- the model's and the specification's notions of "enabled" agree under the invariant -/
theorem enabled_iff_spec (P : SCParams σ) (s : SCState σ) (hs : Inv P s) (e : SCEvent) :
    Enabled s e ↔ Spec.Enabled P s.status e := by
  constructor
  · rintro ⟨ld, hld, ha⟩
    exact (enabled_data P s hs e ld hld ha).choose_spec.2.2
  · rintro (⟨tr, u, htr, hact, hun, hsu⟩ | ⟨tr, u, v, hle, htr, hact, hun, hvu, hsu, hsv⟩)
    · have hlt : e.idx < P.spont.length := (List.getElem?_eq_some_iff.1 htr).1
      have hlt' : e.idx < s.ptS.length := by rw [hs.lenS]; exact hlt
      have hld : s.ptS[e.idx]? = some s.ptS[e.idx] := List.getElem?_eq_getElem hlt'
      obtain ⟨-, -, hmem, -⟩ := hs.spont e.idx tr _ htr hld
      refine ⟨s.ptS[e.idx], by rw [List.getElem?_append_left hlt']; exact hld, ?_⟩
      exact (hmem e.actor).2 ⟨u, hact, hun, hsu⟩
    · have hlt2 : e.idx - P.spont.length < P.ind.length := (List.getElem?_eq_some_iff.1 htr).1
      have hlt' : e.idx - P.spont.length < s.ptI.length := by rw [hs.lenI]; exact hlt2
      have hld : s.ptI[e.idx - P.spont.length]? = some s.ptI[e.idx - P.spont.length] :=
        List.getElem?_eq_getElem hlt'
      obtain ⟨-, -, hmem, -⟩ := hs.ind _ tr _ htr hld
      refine ⟨s.ptI[e.idx - P.spont.length], ?_, (hmem e.actor).2 ⟨u, v, hact, hun, hvu, hsu, hsv⟩⟩
      rw [List.getElem?_append_right (by rw [hs.lenS]; exact hle), hs.lenS]; exact hld

theorem enabled_iff_chain (P : SCParams σ) (s : SCState σ) (hs : Inv P s) (e : SCEvent) :
    Enabled s e ↔ e ∈ Spec.events P s.status := by
  rw [mem_events]; exact enabled_iff_spec P s hs e

omit [DecidableEq σ] in
/-- mass of an event under `pickDist`, whatever the state: share of its transition × law of the sampler of that
transition's list -/
theorem pick_mass (P : SCParams σ) (s : SCState σ) (k : Nat) (e : SCEvent) :
    mass (pickDist P s k) (fun o => o == some e) =
      (if e.idx ∈ List.range (rateList P s).length then (rateList P s).getD e.idx 0 / totalRate P s else 0) *
        (match (s.ptS ++ s.ptI)[e.idx]? with
         | some ld => mass (ld.chooseDist k) (fun o => o == some e.actor)
         | none => 0) := by
  unfold pickDist idxDist
  rw [← mass_map_point (List.range (rateList P s).length)
    (fun i => (rateList P s).getD i 0 / totalRate P s) e.idx List.nodup_range]
  apply mass_bind_indicator
  rintro ⟨i, p⟩ _
  dsimp only
  by_cases hi : i = e.idx
  · subst hi
    simp only [decide_true, if_true]
    cases (s.ptS ++ s.ptI)[e.idx]? with
    | none => rfl
    | some ld =>
      dsimp only
      rw [mass_push]
      congr 1
      funext o
      rw [Bool.eq_iff_iff]
      cases o with
      | none => simp
      | some a =>
        obtain ⟨j, b⟩ := e
        simp
  · simp only [hi, decide_false, Bool.false_eq_true, if_false]
    cases (s.ptS ++ s.ptI)[i]? with
    | none => rfl
    | some ld =>
      dsimp only
      rw [mass_push]
      have : (fun o : Option Actor => (o.map fun a => ({ idx := i, actor := a } : SCEvent)) == some e) =
          fun _ => false := by
        funext o
        cases o with
        | none => simp
        | some a =>
          obtain ⟨j, b⟩ := e
          simp only at hi
          simp [hi]
      rw [this, mass_false]

/-- **one-step jump law**: an enabled event is selected with probability `evRate / specTotal`, times the
acceptance factor of its list -/
theorem jump_law_event (P : SCParams σ) (h : WF P) (s : SCState σ) (hs : Inv P s) (e : SCEvent)
    (he : Enabled s e) (k : Nat) (hk : 0 < k) :
    mass (pickDist P s k) (fun o => o == some e) =
      Spec.evRate P e / specTotal P s.status * stepFactor s k e := by
  obtain ⟨ld, hld, ha⟩ := he
  obtain ⟨r, h1, h2, -⟩ := enabled_data P s hs e ld hld ha
  have hlt : e.idx < (rateList P s).length := (List.getElem?_eq_some_iff.1 h1).1
  have hget : (rateList P s).getD e.idx 0 = r * ld.totalWeight := by
    rw [List.getD_eq_getElem?_getD, h1]; rfl
  rw [pick_mass, if_pos (List.mem_range.2 hlt), hld, hget, clock_eq' P h s hs]
  dsimp only
  rw [ld_share_law ld (inv_of_getElem P s hs e.idx ld hld) e.actor ha k hk, h2]
  unfold stepFactor
  rw [hld]

omit [DecidableEq σ] in
/-- an event that is not enabled is never selected -/
theorem jump_law_support (P : SCParams σ) (s : SCState σ) (k : Nat) (e : SCEvent) (he : ¬ Enabled s e) :
    mass (pickDist P s k) (fun o => o == some e) = 0 := by
  rw [pick_mass]
  cases hld : (s.ptS ++ s.ptI)[e.idx]? with
  | none => simp
  | some ld =>
    dsimp only
    have ha : e.actor ∉ ld.items := fun hc => he ⟨ld, hld, hc⟩
    have : mass (ld.chooseDist k) (fun o => o == some e.actor) = 0 := by
      rw [beq_inst_eq]
      exact LD.chooseDist_not_mem ld e.actor ha k
    rw [this]; ring

/-- an enabled event can be applied whatever time is recorded: no KeyError, invariant preserved, status as in the
chain -/
theorem applyEvent_spec (P : SCParams σ) (h : WF P) (s : SCState σ) (hs : Inv P s) (e : SCEvent) (t : Rat)
    (he : Enabled s e) :
    ∃ s', applyEvent P s e t = some s' ∧ Inv P s' ∧ s'.status = Spec.apply P s.status e := by
  obtain ⟨src, m, old, new, s', hdec, -, -, h1, h2, h3⟩ := applyEvent_inv' P h s hs e t he
  refine ⟨s', h1, h2, ?_⟩
  rw [h3]; unfold Spec.apply; rw [hdec]

end Simple

/-! ### one step of the two laws on histories -/
namespace Simple
variable {σ : Type} [DecidableEq σ]
open Dist

/-- mass of the continuation after `e` -/
def contMass (P : SCParams σ) (k n : Nat) (s : SCState σ) (e : SCEvent) (h' : List (SCEvent × Rat)) : Rat :=
  match applyEvent P s e 0 with
  | some s' => mass (trajDist P k n s') (fun y => y == h')
  | none => 0

theorem traj_zero (P : SCParams σ) (k : Nat) (s : SCState σ) : trajDist P k 0 s = Dist.pure [] := rfl

theorem traj_halted (P : SCParams σ) (k n : Nat) (s : SCState σ) (hh : halted P s) :
    trajDist P k n s = Dist.pure [] := by
  cases n with
  | zero => rfl
  | succ n => rw [trajDist, if_pos hh]

theorem traj_nil (P : SCParams σ) (k n : Nat) (s : SCState σ) (hh : ¬ halted P s) :
    mass (trajDist P k (n + 1) s) (fun y => y == []) = 0 := by
  rw [trajDist, if_neg hh]
  apply mass_bind_zero
  rintro ⟨o, p⟩ _
  cases o with
  | none => rfl
  | some e =>
    dsimp only
    cases applyEvent P s e 0 with
    | none => rfl
    | some s' => exact mass_push_cons_nil' _ _

theorem traj_step (P : SCParams σ) (k n : Nat) (s : SCState σ) (hh : ¬ halted P s) (e : SCEvent) (r : Rat)
    (h' : List (SCEvent × Rat)) :
    mass (trajDist P k (n + 1) s) (fun y => y == (e, r) :: h') =
      if r = totalRate P s then
        mass (pickDist P s k) (fun o => o == some e) * contMass P k n s e h'
      else 0 := by
  rw [trajDist, if_neg hh]
  by_cases hr : r = totalRate P s
  · rw [if_pos hr]
    apply mass_bind_indicator
    rintro ⟨o, p⟩ _
    cases o with
    | none => simp [mass_nil]
    | some e2 =>
      dsimp only
      by_cases he : e2 = e
      · subst he
        simp only [beq_self_eq_true, if_true]
        unfold contMass
        cases applyEvent P s e2 0 with
        | none => rfl
        | some s' =>
          dsimp only
          rw [mass_push_cons_eq, if_pos (by rw [hr])]
      · have : (some e2 == some e) = false := by simp [he]
        rw [this]
        simp only [Bool.false_eq_true, if_false]
        cases applyEvent P s e2 0 with
        | none => rfl
        | some s' =>
          dsimp only
          rw [mass_push_cons_eq, if_neg (fun hc => he (Prod.mk.inj hc).1)]
  · rw [if_neg hr]
    apply mass_bind_zero
    rintro ⟨o, p⟩ _
    cases o with
    | none => rfl
    | some e2 =>
      dsimp only
      cases applyEvent P s e2 0 with
      | none => rfl
      | some s' =>
        dsimp only
        rw [mass_push_cons_eq, if_neg (fun hc => hr (Prod.mk.inj hc).2.symm)]

theorem chain_zero (P : SCParams σ) (st : Node → σ) : Spec.jumpDist P 0 st = Dist.pure [] := rfl

theorem chain_halted (P : SCParams σ) (n : Nat) (st : Node → σ) (h0 : specTotal P st = 0) :
    Spec.jumpDist P n st = Dist.pure [] := by
  cases n with
  | zero => rfl
  | succ n => rw [Spec.jumpDist, if_pos h0]

theorem chain_nil (P : SCParams σ) (n : Nat) (st : Node → σ) (h0 : specTotal P st ≠ 0) :
    mass (Spec.jumpDist P (n + 1) st) (fun y => y == []) = 0 := by
  rw [Spec.jumpDist, if_neg h0]
  apply mass_bind_zero
  rintro ⟨e, p⟩ _
  exact mass_push_cons_nil' _ _

theorem chain_step (P : SCParams σ) (h : WF P) (n : Nat) (st : Node → σ) (h0 : specTotal P st ≠ 0)
    (e : SCEvent) (r : Rat) (h' : List (SCEvent × Rat)) :
    mass (Spec.jumpDist P (n + 1) st) (fun y => y == (e, r) :: h') =
      if r = specTotal P st then
        (if e ∈ Spec.events P st then Spec.evRate P e / specTotal P st else 0) *
          mass (Spec.jumpDist P n (Spec.apply P st e)) (fun y => y == h')
      else 0 := by
  rw [Spec.jumpDist, if_neg h0]
  by_cases hr : r = specTotal P st
  · rw [if_pos hr, ← mass_map_point (Spec.events P st) (fun e => Spec.evRate P e / specTotal P st) e
      (events_nodup P h st)]
    apply mass_bind_indicator
    rintro ⟨e2, p⟩ _
    dsimp only
    rw [mass_push_cons_eq]
    by_cases he : e2 = e
    · subst he; simp [hr]
    · have : ¬ ((e2, specTotal P st) = (e, r)) := fun hc => he (Prod.mk.inj hc).1
      simp [he, this]
  · rw [if_neg hr]
    apply mass_bind_zero
    rintro ⟨e2, p⟩ _
    dsimp only
    rw [mass_push_cons_eq, if_neg (fun hc => hr (Prod.mk.inj hc).2.symm)]

/-! ### the induction over events -/

/-- **trajectory law**: mass of a history under the model's `n`-event law = its mass under the jump chain × the
product of the acceptance factors of the lists used along it -/
theorem traj_law (P : SCParams σ) (h : WF P) (k : Nat) (hk : 0 < k) (n : Nat) (s : SCState σ) (hs : Inv P s)
    (hist : List (SCEvent × Rat)) :
    mass (trajDist P k n s) (fun y => y == hist) =
      mass (Spec.jumpDist P n s.status) (fun y => y == hist) * accProd P k s hist := by
  induction n generalizing s hist with
  | zero =>
    rw [traj_zero, chain_zero, mass_pure_nil']
    cases hist with
    | nil => simp [accProd]
    | cons a t => simp
  | succ n ih =>
    by_cases hh : halted P s
    · rw [traj_halted P k _ s hh, chain_halted P _ _ ((halted_iff P h s hs).1 hh), mass_pure_nil']
      cases hist with
      | nil => simp [accProd]
      | cons a t => simp
    · have h0 : specTotal P s.status ≠ 0 := fun hc => hh ((halted_iff P h s hs).2 hc)
      cases hist with
      | nil => rw [traj_nil P k n s hh, chain_nil P n _ h0]; ring
      | cons a h' =>
        obtain ⟨e, r⟩ := a
        rw [traj_step P k n s hh, chain_step P h n _ h0, clock_eq' P h s hs]
        by_cases hr : r = specTotal P s.status
        · rw [if_pos hr, if_pos hr]
          by_cases he : Enabled s e
          · obtain ⟨s', h1, h2, h3⟩ := applyEvent_spec P h s hs e 0 he
            rw [jump_law_event P h s hs e he k hk, if_pos ((enabled_iff_chain P s hs e).1 he)]
            unfold contMass
            rw [accProd, if_pos he, h1]
            dsimp only
            rw [ih s' h2 h', h3]; ring
          · rw [jump_law_support P s k e he, if_neg (fun hc => he ((enabled_iff_chain P s hs e).2 hc))]
            ring
        · rw [if_neg hr, if_neg hr]; ring

/-! ### bounds on the acceptance factors -/

theorem stepDefect_unit (P : SCParams σ) (s : SCState σ) (hs : Inv P s) (k : Nat) (e : SCEvent) :
    0 ≤ stepDefect s k e ∧ stepDefect s k e ≤ 1 := by
  unfold stepDefect
  cases hld : (s.ptS ++ s.ptI)[e.idx]? with
  | none => exact ⟨le_refl 0, zero_le_one⟩
  | some ld =>
    dsimp only
    by_cases hw : ld.weighted = true
    · rw [if_pos hw]
      obtain ⟨h1, h2⟩ := Gillespie.rej_unit ld (inv_of_getElem P s hs e.idx ld hld) hw
      exact ⟨pow_nonneg h1 k, pow_le_one₀ h1 h2⟩
    · rw [if_neg hw]; exact ⟨le_refl 0, zero_le_one⟩

omit [DecidableEq σ] in
theorem stepFactor_eq (s : SCState σ) (k : Nat) (e : SCEvent) : stepFactor s k e = 1 - stepDefect s k e := by
  unfold stepFactor stepDefect
  cases (s.ptS ++ s.ptI)[e.idx]? with
  | none => simp
  | some ld => dsimp only; split <;> ring

/-- `0 ≤ Π c_i ≤ 1` and `Π (1-ρ_i^k) ≥ 1 - Σ ρ_i^k`, `Σ ρ_i^k ≥ 0` -/
theorem accProd_bounds (P : SCParams σ) (h : WF P) (k : Nat) (s : SCState σ) (hs : Inv P s)
    (hist : List (SCEvent × Rat)) :
    0 ≤ accProd P k s hist ∧ accProd P k s hist ≤ 1 ∧ 1 - defectSum P k s hist ≤ accProd P k s hist ∧
      0 ≤ defectSum P k s hist := by
  induction hist generalizing s with
  | nil => simp [accProd, defectSum]
  | cons a t ih =>
    obtain ⟨e, r⟩ := a
    by_cases he : Enabled s e
    · obtain ⟨s', h1, h2, -⟩ := applyEvent_spec P h s hs e 0 he
      rw [accProd, defectSum, if_pos he, if_pos he, h1]
      dsimp only
      obtain ⟨i1, i2, i3, i4⟩ := ih s' h2
      obtain ⟨d1, d2⟩ := stepDefect_unit P s hs k e
      rw [stepFactor_eq]
      refine ⟨mul_nonneg (by linarith) i1, ?_, ?_, by linarith⟩
      · nlinarith
      · nlinarith
    · rw [accProd, defectSum, if_neg he, if_neg he]
      simp

/-- if every transition is unweighted (no `get_weight`), no rejection sampling ever happens -/
theorem accProd_unweighted (P : SCParams σ) (h : WF P) (k : Nat) (s : SCState σ) (hs : Inv P s)
    (hS : ∀ tr ∈ P.spont, tr.w = none) (hI : ∀ tr ∈ P.ind, tr.w = none) (hist : List (SCEvent × Rat)) :
    accProd P k s hist = 1 := by
  induction hist generalizing s with
  | nil => rfl
  | cons a t ih =>
    obtain ⟨e, r⟩ := a
    by_cases he : Enabled s e
    · obtain ⟨s', h1, h2, -⟩ := applyEvent_spec P h s hs e 0 he
      rw [accProd, if_pos he, h1]
      dsimp only
      rw [ih s' h2, mul_one]
      obtain ⟨ld, hld, ha⟩ := he
      unfold stepFactor
      rw [hld]
      dsimp only
      have hw : ld.weighted = false := by
        by_cases hlt : e.idx < P.spont.length
        · have hlt' : e.idx < s.ptS.length := by rw [hs.lenS]; exact hlt
          rw [List.getElem?_append_left hlt'] at hld
          obtain ⟨tr, htr⟩ : ∃ tr, P.spont[e.idx]? = some tr := ⟨_, List.getElem?_eq_getElem hlt⟩
          rw [(hs.spont e.idx tr ld htr hld).2.1, hS tr (List.mem_of_getElem? htr)]; rfl
        · have hge : s.ptS.length ≤ e.idx := by rw [hs.lenS]; exact Nat.le_of_not_lt hlt
          rw [List.getElem?_append_right hge, hs.lenS] at hld
          have hlt2 : e.idx - P.spont.length < P.ind.length := by
            rw [← hs.lenI]
            exact (List.getElem?_eq_some_iff.1 hld).1
          obtain ⟨tr, htr⟩ : ∃ tr, P.ind[e.idx - P.spont.length]? = some tr :=
            ⟨_, List.getElem?_eq_getElem hlt2⟩
          rw [(hs.ind _ tr ld htr hld).2.1, hI tr (List.mem_of_getElem? htr)]; rfl
      rw [hw]; rfl
    · rw [accProd, if_neg he]

/-! ### the chain's law is a non-negative measure of total mass 1 -/

theorem jumpDist_nonneg (P : SCParams σ) (h : WF P) (n : Nat) (st : Node → σ) :
    Dist.NonNeg (Spec.jumpDist P n st) := by
  induction n generalizing st with
  | zero => exact nonneg_pure _
  | succ n ih =>
    rw [Spec.jumpDist]
    split
    · exact nonneg_pure _
    · apply nonneg_bind
      · intro x hx
        simp only [List.mem_map] at hx
        obtain ⟨e, -, rfl⟩ := hx
        exact div_nonneg (evRate_nonneg P h e) (specTotal_nonneg P h st)
      · intro x _
        exact nonneg_push _ _ (ih _)

theorem jumpDist_total (P : SCParams σ) (n : Nat) (st : Node → σ) :
    mass (Spec.jumpDist P n st) (fun _ => true) = 1 := by
  induction n generalizing st with
  | zero => simp [chain_zero, mass_pure]
  | succ n ih =>
    rw [Spec.jumpDist]
    split
    · simp [mass_pure]
    · rename_i h0
      rw [mass_bind, List.map_map,
        sumRat_map_congr _ _ (fun e => Spec.evRate P e * (specTotal P st)⁻¹) (by
          intro e _
          simp only [Function.comp]
          rw [mass_push, ih]; ring),
        sumRat_map_mul_right, sum_rates]
      field_simp

/-! ### support: positive-mass histories are legal paths -/

theorem chain_support (P : SCParams σ) (h : WF P) (n : Nat) (st : Node → σ) (hist : List (SCEvent × Rat))
    (hm : mass (Spec.jumpDist P n st) (fun y => y == hist) ≠ 0) :
    Spec.Legal P st hist ∧ hist.length ≤ n ∧
      (hist.length < n → specTotal P (Spec.applyHist P st hist) = 0) := by
  induction n generalizing st hist with
  | zero =>
    rw [chain_zero, mass_pure_nil'] at hm
    cases hist with
    | nil => simp [Spec.Legal]
    | cons a t => simp at hm
  | succ n ih =>
    by_cases h0 : specTotal P st = 0
    · rw [chain_halted P _ _ h0, mass_pure_nil'] at hm
      cases hist with
      | nil => simp [Spec.Legal, Spec.applyHist, h0]
      | cons a t => simp at hm
    · cases hist with
      | nil => exact absurd (chain_nil P n st h0) hm
      | cons a h' =>
        obtain ⟨e, r⟩ := a
        rw [chain_step P h n st h0] at hm
        by_cases hr : r = specTotal P st
        · rw [if_pos hr] at hm
          by_cases he : e ∈ Spec.events P st
          · rw [if_pos he] at hm
            obtain ⟨i1, i2, i3⟩ := ih (Spec.apply P st e) h' (right_ne_zero_of_mul hm)
            have hpos : 0 < specTotal P st := lt_of_le_of_ne (specTotal_nonneg P h st) (Ne.symm h0)
            have hrx : Spec.evRate P e ≠ 0 := by
              intro hc
              apply left_ne_zero_of_mul hm
              rw [hc]; simp
            have hrp : 0 < Spec.evRate P e := lt_of_le_of_ne (evRate_nonneg P h e) (Ne.symm hrx)
            refine ⟨⟨(mem_events P st e).1 he, hrp, hr, hpos, i1⟩, ?_, ?_⟩
            · simp only [List.length_cons]; omega
            · intro hl
              simp only [List.length_cons] at hl
              exact i3 (by omega)
          · rw [if_neg he] at hm; simp at hm
        · rw [if_neg hr] at hm; exact absurd rfl hm

theorem legal_prefix (P : SCParams σ) (st : Node → σ) (h1 h2 : List (SCEvent × Rat))
    (hl : Spec.Legal P st (h1 ++ h2)) : Spec.Legal P st h1 := by
  induction h1 generalizing st with
  | nil => trivial
  | cons a t ih =>
    obtain ⟨x, r⟩ := a
    obtain ⟨a1, a2, a3, a4, a5⟩ := hl
    exact ⟨a1, a2, a3, a4, ih _ a5⟩

/-- along a legal path of the chain the model never raises KeyError, keeps its invariant, and its status is the
chain's -/
theorem legal_applyHist (P : SCParams σ) (h : WF P) (s : SCState σ) (hs : Inv P s) (hist : List (SCEvent × Rat))
    (hl : Spec.Legal P s.status hist) :
    ∃ s', applyHist P s hist = some s' ∧ Inv P s' ∧ s'.status = Spec.applyHist P s.status hist := by
  induction hist generalizing s with
  | nil => exact ⟨s, rfl, hs, rfl⟩
  | cons a t ih =>
    obtain ⟨e, r⟩ := a
    obtain ⟨a1, -, -, -, a5⟩ := hl
    have he : Enabled s e := (enabled_iff_spec P s hs e).2 a1
    obtain ⟨s', h1, h2, h3⟩ := applyEvent_spec P h s hs e 0 he
    rw [← h3] at a5
    obtain ⟨s'', g1, g2, g3⟩ := ih s' h2 a5
    refine ⟨s'', ?_, g2, ?_⟩
    · rw [applyHist, h1]; exact g1
    · rw [g3, h3]; rfl

/-! ### the defect vanishes as the budget of rejection rounds grows -/

/-- a candidate with a positive rate makes its list's weight sum positive, hence `ρ < 1` (C16) -/
theorem stepDefect_small (P : SCParams σ) (s : SCState σ) (hs : Inv P s) (e : SCEvent) (he : Enabled s e)
    (hr : 0 < Spec.evRate P e) (ε : Rat) (hε : 0 < ε) : ∃ K : Nat, ∀ k, K ≤ k → stepDefect s k e ≤ ε := by
  obtain ⟨ld, hld, ha⟩ := he
  obtain ⟨r, -, h2, -⟩ := enabled_data P s hs e ld hld ha
  have hinv := inv_of_getElem P s hs e.idx ld hld
  by_cases hw : ld.weighted = true
  · rw [h2, if_pos hw] at hr
    have hg0 : 0 ≤ ld.getW e.actor := hinv.nonneg hw _ ha
    have hg : 0 < ld.getW e.actor := by
      rcases lt_or_eq_of_le hg0 with hp | h0
      · exact hp
      · rw [← h0] at hr; simp at hr
    have hW : 0 < ld.weightSum :=
      lt_of_lt_of_le hg (Gillespie.sumRat_ge_mem ld.items ld.getW (hinv.nonneg hw) _ ha)
    obtain ⟨b1, b2⟩ := LD.rej_bounds ld hinv hw hW
    obtain ⟨K, hK⟩ := Gillespie.pow_small _ ε b1 b2 hε
    exact ⟨K, fun k hk => by unfold stepDefect; rw [hld]; dsimp only; rw [if_pos hw]; exact hK k hk⟩
  · exact ⟨0, fun k _ => by unfold stepDefect; rw [hld]; dsimp only; rw [if_neg hw]; exact le_of_lt hε⟩

theorem defect_small (P : SCParams σ) (h : WF P) (s : SCState σ) (hs : Inv P s) (hist : List (SCEvent × Rat))
    (hl : Spec.Legal P s.status hist) (ε : Rat) (hε : 0 < ε) :
    ∃ K : Nat, ∀ k, K ≤ k → defectSum P k s hist ≤ ε := by
  induction hist generalizing s ε with
  | nil => exact ⟨0, fun k _ => by simp only [defectSum]; exact le_of_lt hε⟩
  | cons a t ih =>
    obtain ⟨e, r⟩ := a
    obtain ⟨a1, a2, -, -, a5⟩ := hl
    have he : Enabled s e := (enabled_iff_spec P s hs e).2 a1
    obtain ⟨s', h1, h2, h3⟩ := applyEvent_spec P h s hs e 0 he
    rw [← h3] at a5
    have hε2 : 0 < ε / 2 := by linarith
    obtain ⟨K1, hK1⟩ := ih s' h2 a5 (ε / 2) hε2
    obtain ⟨K2, hK2⟩ := stepDefect_small P s hs e he a2 (ε / 2) hε2
    refine ⟨max K1 K2, fun k hk => ?_⟩
    rw [defectSum, if_pos he, h1]
    dsimp only
    have := hK1 k (le_trans (le_max_left _ _) hk)
    have := hK2 k (le_trans (le_max_right _ _) hk)
    linarith

end Simple

/-! ### recorded times do not influence the law -/
namespace Simple
variable {σ : Type} [DecidableEq σ]
open Dist

/-- the part of the state that selection and bookkeeping read: everything except the recorded times and the log -/
def Core (a b : SCState σ) : Prop := a.status = b.status ∧ a.ptS = b.ptS ∧ a.ptI = b.ptI ∧ a.data = b.data

omit [DecidableEq σ] in
theorem core_refl (a : SCState σ) : Core a a := ⟨rfl, rfl, rfl, rfl⟩

/-- `applyEvent` with two different event times: same outcome class, same core -/
theorem applyEvent_coreT (P : SCParams σ) (a b : SCState σ) (hc : Core a b) (e : SCEvent) (t t' : Rat) :
    match applyEvent P a e t, applyEvent P b e t' with
    | some a', some b' => Core a' b'
    | none, none => True
    | _, _ => False := by
  rcases a with ⟨st, ps, pi, tm, dt, lg⟩
  rcases b with ⟨st', ps', pi', tm', dt', lg'⟩
  obtain ⟨h1, h2, h3, h4⟩ := hc
  dsimp only at h1 h2 h3 h4
  subst h1 h2 h3 h4
  unfold applyEvent
  simp only [Option.bind_eq_bind, Option.pure_def]
  cases decode P e with
  | none => trivial
  | some q =>
    obtain ⟨src, m, old, new⟩ := q
    simp only [Option.bind_some]
    cases mapPT P.spont ps (updSpontOne old new m) with
    | none => trivial
    | some ps1 =>
      simp only [Option.bind_some]
      cases mapPT P.ind pi (updIndOne P (fset st m new) old new m) with
      | none => trivial
      | some pi1 => exact ⟨rfl, rfl, rfl, rfl⟩

/-- the `n`-event law with an arbitrary supply of recorded event times (one per event) -/
def trajDistT (P : SCParams σ) (k : Nat) : List Rat → SCState σ → Dist (List (SCEvent × Rat))
  | [], _ => Dist.pure []
  | t :: ts, s =>
    if halted P s then Dist.pure []
    else
      Dist.bind (pickDist P s k) fun o =>
        match o with
        | none => []
        | some e =>
          match applyEvent P s e t with
          | none => []
          | some s' => Dist.push (fun h => (e, totalRate P s) :: h) (trajDistT P k ts s')

theorem trajDistT_eq' (P : SCParams σ) (k : Nat) (ts : List Rat) (a b : SCState σ) (hc : Core a b) :
    trajDistT P k ts a = trajDist P k ts.length b := by
  induction ts generalizing a b with
  | nil => rfl
  | cons t ts ih =>
    obtain ⟨-, c2, c3, -⟩ := id hc
    have e0 : rateList P a = rateList P b := by unfold rateList; rw [c2, c3]
    have e1 : totalRate P a = totalRate P b := by unfold totalRate; rw [e0]
    have e2 : halted P a ↔ halted P b := by unfold halted; rw [e1]
    have e3 : pickDist P a k = pickDist P b k := by
      unfold pickDist idxDist; rw [e0, e1, c2, c3]
    rw [trajDistT, List.length_cons, trajDist]
    by_cases hh : halted P a
    · rw [if_pos hh, if_pos (e2.1 hh)]
    · rw [if_neg hh, if_neg (fun hb => hh (e2.2 hb)), e3]
      congr 1
      funext o
      cases o with
      | none => rfl
      | some e =>
        dsimp only
        have := applyEvent_coreT P a b hc e t 0
        cases ha : applyEvent P a e t with
        | none =>
          cases hb : applyEvent P b e 0 with
          | none => rfl
          | some b' => rw [ha, hb] at this; exact absurd this id
        | some a' =>
          cases hb : applyEvent P b e 0 with
          | none => rw [ha, hb] at this; exact absurd this id
          | some b' =>
            rw [ha, hb] at this
            dsimp only at this ⊢
            rw [ih a' b' this, e1]

/-! ### `halted` is the tape loop's stop test -/

/-- the tape loop (no time horizon) returns the current state exactly on `halted` … -/
theorem loop_halted (P : SCParams σ) (cfuel fuel : Nat) (s : SCState σ) (tv : Rat) (hh : halted P s) :
    loop P none cfuel (fuel + 1) s (if totalRate P s > 0 then some tv else none) =
      (Pure.pure s : TM (SCState σ)) := by
  have hp : ¬ (totalRate P s > 0) := hh
  rw [if_neg hp, loop]

/-- … and otherwise selects an event with `pick` (whose law is `pickDist`) in `s`, applies it, and draws the next
holding time with the total rate of the new state -/
theorem loop_running (P : SCParams σ) (cfuel fuel : Nat) (s : SCState σ) (tv : Rat) (hh : ¬ halted P s) :
    loop P none cfuel (fuel + 1) s (if totalRate P s > 0 then some tv else none) =
      (do
        let e ← pick P s cfuel
        match applyEvent P s e tv with
        | none => TM.fail "KeyError"
        | some s' =>
          let tot := totalRate P s'
          if tot > 0 then do
            let d ← TM.popExpo tot
            loop P none cfuel fuel s' (some (tv + d))
          else loop P none cfuel fuel s' none) := by
  have hp : totalRate P s > 0 := pos_of_not_halted P s hh
  rw [if_pos hp, loop, if_neg (by simp [hp, ERat.lt])]
  rfl

/-! ### the shares handed to `pickIdx` -/

omit [DecidableEq σ] in
/-- the shares `rate_i·total_weight_i / total_rate` sum to 1 while the loop runs, so every draw `r ∈ [0, 1)` falls in
exactly one cumulative-share interval (`pickIdx_interval`) -/
theorem shares_sum (P : SCParams σ) (s : SCState σ) (hpos : 0 < totalRate P s) :
    sumRat ((rateList P s).map fun x => x / totalRate P s) = 1 := by
  have : (fun x : Rat => x / totalRate P s) = fun x => id x * (totalRate P s)⁻¹ := by
    funext x; simp [div_eq_mul_inv]
  rw [this, sumRat_map_mul_right, List.map_id]
  change totalRate P s * (totalRate P s)⁻¹ = 1
  field_simp

omit [DecidableEq σ] in
/-- the weight `idxDist` gives index `i` is the length of the `i`-th cumulative-share interval -/
theorem share_interval (l : List Rat) (T : Rat) (i : Nat) :
    sumRat ((l.map fun x => x / T).take (i + 1)) - sumRat ((l.map fun x => x / T).take i) = l.getD i 0 / T := by
  induction l generalizing i with
  | nil => simp
  | cons a t ih =>
    cases i with
    | zero => simp
    | succ i =>
      simp only [List.map_cons, List.take_succ_cons, sumRat_cons, List.getD_cons_succ]
      rw [← ih i]; ring

end Simple

/-! ### `pickIdx` returns `i` exactly on the `i`-th cumulative-share interval -/
namespace Simple
variable {σ : Type} [DecidableEq σ]

theorem take_sum_mono (l : List Rat) (hn : ∀ x ∈ l, 0 ≤ x) (i j : Nat) (hij : i ≤ j) :
    sumRat (l.take i) ≤ sumRat (l.take j) := by
  induction l generalizing i j with
  | nil => simp
  | cons a t ih =>
    cases i with
    | zero =>
      have := sumRat_map_nonneg ((a :: t).take j) id (fun c hc => hn c (List.mem_of_mem_take hc))
      simpa using this
    | succ i =>
      cases j with
      | zero => omega
      | succ j =>
        simp only [List.take_succ_cons, sumRat_cons]
        have := ih (fun x hx => hn x (by simp [hx])) i j (by omega)
        linarith

theorem pickIdx_eq_iff (shares : List Rat) (hn : ∀ x ∈ shares, 0 ≤ x) (r : Rat) (h0 : 0 ≤ r)
    (hr : r < sumRat shares) (i : Nat) :
    pickIdx shares r = i ↔
      (i < shares.length ∧ sumRat (shares.take i) ≤ r ∧ r < sumRat (shares.take (i + 1))) := by
  obtain ⟨p1, p2, p3⟩ := pickIdx_interval' shares hn r h0 hr
  constructor
  · rintro rfl; exact ⟨p1, p2, p3⟩
  · rintro ⟨_, q2, q3⟩
    by_contra hne
    rcases Nat.lt_or_gt_of_ne hne with hlt | hgt
    · have := take_sum_mono shares hn (pickIdx shares r + 1) i hlt
      linarith
    · have := take_sum_mono shares hn (i + 1) (pickIdx shares r) hgt
      linarith

theorem zipWith_nonneg {τ : Type} (trs : List τ) (pts : List (LD Actor)) (g : τ → LD Actor → Rat)
    (hh : ∀ (i : Nat) tr ld, trs[i]? = some tr → pts[i]? = some ld → 0 ≤ g tr ld) :
    ∀ x ∈ List.zipWith g trs pts, 0 ≤ x := by
  induction trs generalizing pts with
  | nil => intro x hx; simp at hx
  | cons tr trs ih =>
    cases pts with
    | nil => intro x hx; simp at hx
    | cons ld pts =>
      intro x hx
      simp only [List.zipWith_cons_cons, List.mem_cons] at hx
      rcases hx with rfl | hx
      · exact hh 0 tr ld rfl rfl
      · exact ih pts (fun i tr' ld' h1 h2 => hh (i + 1) tr' ld' (by simpa using h1) (by simpa using h2)) x hx

theorem totalWeight_nonneg (ld : LD Actor) (hinv : LD.Inv ld) : 0 ≤ ld.totalWeight := by
  unfold LD.totalWeight
  by_cases hw : ld.weighted = true
  · rw [if_pos hw, hinv.total hw]; exact Gillespie.weightSum_nonneg ld hinv hw
  · rw [if_neg hw]; exact Nat.cast_nonneg _

theorem rateList_nonneg (P : SCParams σ) (h : WF P) (s : SCState σ) (hs : Inv P s) :
    ∀ x ∈ rateList P s, 0 ≤ x := by
  intro x hx
  unfold rateList at hx
  rcases List.mem_append.1 hx with hx | hx
  · exact zipWith_nonneg P.spont s.ptS _ (fun i tr ld h1 h2 =>
      mul_nonneg (h.rate_nonneg.1 tr (List.mem_of_getElem? h1)) (totalWeight_nonneg ld (hs.spont i tr ld h1 h2).1))
      x hx
  · exact zipWith_nonneg P.ind s.ptI _ (fun i tr ld h1 h2 =>
      mul_nonneg (h.rate_nonneg.2 tr (List.mem_of_getElem? h1)) (totalWeight_nonneg ld (hs.ind i tr ld h1 h2).1))
      x hx

/-- the index returned by the model's cumulative-share loop on the draw `r ∈ [0, 1)` is `i` **iff** `r` lies in the
`i`-th cumulative-share interval -/
theorem pick_index_exact (P : SCParams σ) (h : WF P) (s : SCState σ) (hs : Inv P s) (hpos : 0 < totalRate P s)
    (r : Rat) (h0 : 0 ≤ r) (h1 : r < 1) (i : Nat) :
    pickIdx ((rateList P s).map fun x => x / totalRate P s) r = i ↔
      (i < (rateList P s).length ∧
        sumRat (((rateList P s).map fun x => x / totalRate P s).take i) ≤ r ∧
        r < sumRat (((rateList P s).map fun x => x / totalRate P s).take (i + 1))) := by
  have hn : ∀ x ∈ (rateList P s).map (fun x => x / totalRate P s), 0 ≤ x := by
    intro x hx
    obtain ⟨y, hy, rfl⟩ := List.mem_map.1 hx
    exact div_nonneg (rateList_nonneg P h s hs y hy) (le_of_lt hpos)
  have := pickIdx_eq_iff _ hn r h0 (by rw [shares_sum P s hpos]; exact h1) i
  rw [List.length_map] at this
  exact this

end Simple
