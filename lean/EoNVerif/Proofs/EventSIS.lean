import EoNVerif.Model.EventSIS
import Mathlib.Tactic.Linarith
import Mathlib.Algebra.Order.Field.Rat
import Mathlib.Data.List.Basic
/-!
Helper lemmas for C13 (`fast_nonMarkov_SIS`), part 1: the priority queue (`pop` / `apop`), the scheduling loop,
an explicit description of one step of the lazy simulator, and the state invariants that give
`log_before_tmax`, `log_alternates`, `recovery_after_dur` and `trans_is_listed_attempt`.
-/
namespace EventSIS

structure WF (P : SSParams) (infs : List Node) : Prop where
  nodup : P.nodes.Nodup
  nbr_nodup : ∀ u ∈ P.nodes, (P.nbrs u).Nodup
  nbr_mem : ∀ u ∈ P.nodes, ∀ v ∈ P.nbrs u, v ∈ P.nodes
  noloop : ∀ u, u ∉ P.nbrs u
  infs_nodup : infs.Nodup
  infs_mem : ∀ u ∈ infs, u ∈ P.nodes
  dur_pos : ∀ u k, 0 < P.dur u k
  delay_pos : ∀ u v k, ∀ d ∈ P.delays u v k, 0 < d
  delay_sorted : ∀ u v k, (P.delays u v k).Pairwise (· < ·)

/-! ### generic priority queue -/

section Generic
variable {α : Type} (tm : α → Rat)

def gminTime : List α → Option Rat
  | [] => none
  | x :: xs => match gminTime xs with
    | none => some (tm x)
    | some m => some (if tm x ≤ m then tm x else m)

def gpop (q : List α) : Option (α × List α) :=
  match gminTime tm q with
  | none => none
  | some m =>
    match q.findIdx? (fun x => tm x == m) with
    | none => none
    | some i => match q[i]? with
      | some x => some (x, q.eraseIdx i)
      | none => none

theorem gminTime_none {q : List α} (h : gminTime tm q = none) : q = [] := by
  cases q with
  | nil => rfl
  | cons x xs => simp only [gminTime] at h; split at h <;> simp at h

theorem gminTime_spec {q : List α} {m : Rat} (h : gminTime tm q = some m) :
    (∃ x ∈ q, tm x = m) ∧ ∀ y ∈ q, m ≤ tm y := by
  induction q generalizing m with
  | nil => simp [gminTime] at h
  | cons x xs ih =>
    simp only [gminTime] at h
    split at h
    · rename_i h0
      have := gminTime_none tm h0
      subst this
      simp at h
      subst h
      simp
    · rename_i m' h0
      obtain ⟨⟨y, hy, hym⟩, hle⟩ := ih h0
      simp at h
      split at h
      · subst h
        refine ⟨⟨x, by simp, rfl⟩, ?_⟩
        intro z hz
        rcases List.mem_cons.1 hz with rfl | hz
        · exact le_refl _
        · exact le_trans ‹_› (hle z hz)
      · subst h
        refine ⟨⟨y, by simp [hy], hym⟩, ?_⟩
        intro z hz
        rcases List.mem_cons.1 hz with rfl | hz
        · linarith
        · exact hle z hz

theorem gpop_none {q : List α} (h : gpop tm q = none) : q = [] := by
  unfold gpop at h
  split at h
  · rename_i h0; exact gminTime_none tm h0
  · rename_i m h0
    obtain ⟨⟨x, hx, hxm⟩, _⟩ := gminTime_spec tm h0
    split at h
    · rename_i h1
      rw [List.findIdx?_eq_none_iff] at h1
      have := h1 x hx
      simp [hxm] at this
    · rename_i i h1
      have := List.findIdx?_eq_some_iff_getElem.1 h1
      obtain ⟨hi, _⟩ := this
      split at h
      · simp at h
      · rename_i h2
        simp at h2
        omega

theorem gpop_some {q : List α} {x : α} {q' : List α} (h : gpop tm q = some (x, q')) :
    ∃ l1 l2, q = l1 ++ x :: l2 ∧ q' = l1 ++ l2 ∧ (∀ y ∈ l1, tm x < tm y) ∧ (∀ y ∈ l2, tm x ≤ tm y) := by
  unfold gpop at h
  split at h
  · simp at h
  · rename_i m h0
    obtain ⟨_, hle⟩ := gminTime_spec tm h0
    split at h
    · simp at h
    · rename_i i h1
      obtain ⟨hi, hxi, hlt⟩ := List.findIdx?_eq_some_iff_getElem.1 h1
      split at h
      · rename_i y h2
        simp at h
        obtain ⟨rfl, rfl⟩ := h
        have hy : q[i] = y := by
          have := List.getElem?_eq_getElem hi
          rw [this] at h2; simpa using h2
        subst hy
        simp at hxi
        refine ⟨q.take i, q.drop (i + 1), ?_, ?_, ?_, ?_⟩
        · simp
        · exact List.eraseIdx_eq_take_drop_succ q i
        · intro z hz
          obtain ⟨j, hj, rfl⟩ := List.mem_iff_getElem.1 hz
          simp at hj
          have h3 := hlt j hj.1
          simp at h3
          have h4 := hle ((q.take i)[j]) (List.mem_of_mem_take (List.getElem_mem _))
          rw [hxi]
          rw [List.getElem_take] at h4 ⊢
          exact lt_of_le_of_ne h4 (fun h => h3 h.symm)
        · intro z hz
          rw [hxi]
          exact hle z (List.mem_of_mem_drop hz)
      · simp at h

/-- popping a list whose first element is minimal -/
theorem gpop_head {x : α} {xs : List α} (h : ∀ y ∈ xs, tm x ≤ tm y) : gpop tm (x :: xs) = some (x, xs) := by
  cases h0 : gpop tm (x :: xs) with
  | none => have := gpop_none tm h0; simp at this
  | some p =>
    obtain ⟨y, q'⟩ := p
    obtain ⟨l1, l2, h1, h2, h3, h4⟩ := gpop_some tm h0
    cases l1 with
    | nil => simp at h1 h2; obtain ⟨rfl, rfl⟩ := h1; subst h2; rfl
    | cons z l1 =>
      simp at h1
      obtain ⟨rfl, rfl⟩ := h1
      have := h3 x (by simp)
      have := h y (by simp)
      linarith

end Generic

theorem minTime_eq (q : List SItem) : minTime q = gminTime SItem.time q := by
  induction q with
  | nil => rfl
  | cons x xs ih => simp only [minTime, gminTime, ih]; cases gminTime SItem.time xs <;> rfl

theorem pop_eq (q : List SItem) : pop q = gpop SItem.time q := by
  unfold pop gpop; rw [minTime_eq]
  cases gminTime SItem.time q with
  | none => rfl
  | some m =>
    simp only
    cases List.findIdx? (fun x => x.time == m) q with
    | none => rfl
    | some i => simp only; cases q[i]? <;> rfl

theorem aminTime_eq (q : List AItem) : aminTime q = gminTime AItem.time q := by
  induction q with
  | nil => rfl
  | cons x xs ih => simp only [aminTime, gminTime, ih]; cases gminTime AItem.time xs <;> rfl

theorem apop_eq (q : List AItem) : apop q = gpop AItem.time q := by
  unfold apop gpop; rw [aminTime_eq]
  cases gminTime AItem.time q with
  | none => rfl
  | some m =>
    simp only
    cases List.findIdx? (fun x => x.time == m) q with
    | none => rfl
    | some i => simp only; cases q[i]? <;> rfl

/-! ### explicit description of one step of the lazy simulator -/

theorem qadd_eq (tmax : Rat) (q : List SItem) (t : Rat) (e : SEv) :
    qadd tmax q t e = q ++ (if t < tmax then [⟨t, e⟩] else []) := by
  unfold qadd; split <;> simp

theorem aadd_eq (tmax : Rat) (q : List AItem) (t : Rat) (e : AEv) :
    aadd tmax q t e = q ++ (if t < tmax then [⟨t, e⟩] else []) := by
  unfold aadd; split <;> simp

/-- the (at most one) queue entry of a chain of attempt times -/
def chainOf (tmax : Rat) (src tgt : Node) : List Rat → List SItem
  | [] => []
  | t0 :: fol => if t0 < tmax then [⟨t0, SEv.trans (some src) tgt fol⟩] else []

/-- the attempt times that survive the filter against the target's current infectious period -/
def liveTimes (inf : Node → Bool) (recTime : Node → Rat) (v : Node) (tt : List Rat) : List Rat :=
  if inf v then tt.filter (fun t => t > recTime v) else tt

theorem mem_chainOf {tmax : Rat} {src tgt : Node} {tt : List Rat} {x : SItem} (h : x ∈ chainOf tmax src tgt tt) :
    ∃ t0 fol, tt = t0 :: fol ∧ t0 < tmax ∧ x = ⟨t0, SEv.trans (some src) tgt fol⟩ := by
  cases tt with
  | nil => simp [chainOf] at h
  | cons t0 fol =>
    simp only [chainOf] at h
    split at h
    · simp at h; exact ⟨t0, fol, rfl, ‹_›, h⟩
    · simp at h

theorem scheduleNbrs_eq (P : SSParams) (s : SSState) (time : Rat) (tgt : Node) (k : Nat) (l : List Node)
    (q : List SItem) :
    scheduleNbrs P s time tgt k l q =
      q ++ l.flatMap (fun v => chainOf P.tmax tgt v
        (liveTimes s.inf s.recTime v ((P.delays tgt v k).map fun d => time + d))) := by
  induction l generalizing q with
  | nil => simp [scheduleNbrs]
  | cons v rest ih =>
    have key : scheduleNbrs P s time tgt k (v :: rest) q = scheduleNbrs P s time tgt k rest
        (q ++ chainOf P.tmax tgt v (liveTimes s.inf s.recTime v ((P.delays tgt v k).map fun d => time + d))) := by
      simp only [scheduleNbrs]
      split
      · rename_i h0
        have : P.delays tgt v k = [] := by simpa using h0
        simp [this, liveTimes, chainOf]
      · unfold liveTimes
        split
        · rename_i h1
          rw [h1]; simp [chainOf]
        · rename_i t0 fol h1
          rw [h1, qadd_eq]; simp only [chainOf]
    rw [key, ih]; simp [List.append_assoc]

/-- the re-queued rest of a chain -/
def reQ (tmax : Rat) (src : Option Node) (tgt : Node) (tt : List Rat) : List SItem :=
  match src with
  | none => []
  | some u => chainOf tmax u tgt tt

/-- the state after infecting `tgt` (before the chain is re-queued) -/
def infectS (P : SSParams) (s : SSState) (time : Rat) (src : Option Node) (tgt : Node) : SSState :=
  let k := s.count tgt
  let recT := time + P.dur tgt k
  { inf := fset s.inf tgt true, recTime := fset s.recTime tgt recT, count := fset s.count tgt (k + 1),
    queue := s.queue ++ (if recT < P.tmax then [⟨recT, SEv.recov tgt⟩] else []) ++
      (P.nbrs tgt).flatMap (fun v => chainOf P.tmax tgt v
        (liveTimes (fset s.inf tgt true) (fset s.recTime tgt recT) v ((P.delays tgt v k).map fun d => time + d))),
    log := (time, tgt, true) :: s.log, trans := (time, src, tgt) :: s.trans }

theorem processTrans_eq (P : SSParams) (s : SSState) (time : Rat) (src : Option Node) (tgt : Node) (fut : List Rat) :
    processTrans P s time src tgt fut =
      let s1 := if s.inf tgt then s else infectS P s time src tgt
      { s1 with queue := s1.queue ++ reQ P.tmax src tgt (fut.filter (fun t => t > s1.recTime tgt)) } := by
  unfold processTrans
  cases hi : s.inf tgt
  · simp only [Bool.not_false, if_true, Bool.false_eq_true, if_false, scheduleNbrs_eq, qadd_eq, infectS]
    cases src with
    | none => simp [reQ]
    | some u =>
      simp only [reQ]
      split
      · rename_i h; rw [h]; simp [chainOf]
      · rename_i t0 fol h; rw [h]; simp only [chainOf]
  · simp only [Bool.not_true, Bool.false_eq_true, if_false, if_true]
    cases src with
    | none => simp [reQ]
    | some u =>
      simp only [reQ]
      split
      · rename_i h; rw [h]; simp [chainOf]
      · rename_i t0 fol h; rw [h, qadd_eq]; simp only [chainOf]

/-- executing a popped event -/
def exec (P : SSParams) (s : SSState) (x : SItem) : SSState :=
  match x.ev with
  | .trans src tgt fut => processTrans P s x.time src tgt fut
  | .recov u => processRec s x.time u

theorem step_some {P : SSParams} {s s' : SSState} (h : step P s = some s') :
    ∃ x l1 l2, s.queue = l1 ++ x :: l2 ∧ (∀ y ∈ l1, x.time < y.time) ∧ (∀ y ∈ l2, x.time ≤ y.time) ∧
      s' = exec P { s with queue := l1 ++ l2 } x := by
  unfold step at h
  split at h
  · simp at h
  · rename_i x q hp
    rw [pop_eq] at hp
    obtain ⟨l1, l2, h1, h2, h3, h4⟩ := gpop_some _ hp
    refine ⟨x, l1, l2, h1, h3, h4, ?_⟩
    subst h2
    unfold exec
    split at h <;> simp_all

theorem step_none {P : SSParams} {s : SSState} (h : step P s = none) : s.queue = [] := by
  unfold step at h
  split at h
  · rename_i hp; rw [pop_eq] at hp; exact gpop_none _ hp
  · split at h <;> simp at h

/-- the new queue entries created by infecting `v` at `t` (`k`-th infection, recovery at `recT`) -/
def newItems (P : SSParams) (s : SSState) (t : Rat) (v : Node) : List SItem :=
  (if t + P.dur v (s.count v) < P.tmax then [⟨t + P.dur v (s.count v), SEv.recov v⟩] else []) ++
    (P.nbrs v).flatMap (fun w => chainOf P.tmax v w
      (liveTimes (fset s.inf v true) (fset s.recTime v (t + P.dur v (s.count v))) w
        ((P.delays v w (s.count v)).map fun d => t + d)))

/-- the three kinds of steps, with all fields explicit -/
theorem step_cases {P : SSParams} {s s' : SSState} (h : step P s = some s') :
    ∃ x l1 l2, s.queue = l1 ++ x :: l2 ∧ (∀ y ∈ l1, x.time < y.time) ∧ (∀ y ∈ l2, x.time ≤ y.time) ∧
      ((∃ u, x.ev = SEv.recov u ∧
          s' = { inf := fset s.inf u false, recTime := s.recTime, count := s.count, queue := l1 ++ l2,
                 log := (x.time, u, false) :: s.log, trans := s.trans }) ∨
       (∃ src v fut, x.ev = SEv.trans src v fut ∧ s.inf v = true ∧
          s' = { inf := s.inf, recTime := s.recTime, count := s.count,
                 queue := l1 ++ l2 ++ reQ P.tmax src v (fut.filter (fun t => t > s.recTime v)),
                 log := s.log, trans := s.trans }) ∨
       (∃ src v fut, x.ev = SEv.trans src v fut ∧ s.inf v = false ∧
          s' = { inf := fset s.inf v true, recTime := fset s.recTime v (x.time + P.dur v (s.count v)),
                 count := fset s.count v (s.count v + 1),
                 queue := l1 ++ l2 ++ newItems P s x.time v ++
                   reQ P.tmax src v (fut.filter (fun t => t > x.time + P.dur v (s.count v))),
                 log := (x.time, v, true) :: s.log, trans := (x.time, src, v) :: s.trans })) := by
  obtain ⟨x, l1, l2, h1, h2, h3, h4⟩ := step_some h
  refine ⟨x, l1, l2, h1, h2, h3, ?_⟩
  unfold exec at h4
  split at h4
  · rename_i src v fut hev
    right
    rw [processTrans_eq] at h4
    cases hi : s.inf v
    · right
      refine ⟨src, v, fut, hev, hi, ?_⟩
      rw [h4]
      simp [hi, infectS, newItems, fset, List.append_assoc]
    · left
      refine ⟨src, v, fut, hev, hi, ?_⟩
      rw [h4]
      simp [hi]
  · rename_i u hev
    left
    exact ⟨u, hev, by rw [h4]; rfl⟩

theorem loop_inv {P : SSParams} (I : SSState → Prop) (hstep : ∀ s s', I s → step P s = some s' → I s')
    (n : Nat) (s : SSState) (h : I s) : I (loop P n s) := by
  induction n generalizing s with
  | zero => exact h
  | succ n ih =>
    simp only [loop]
    split
    · exact h
    · rename_i s' hs; exact ih s' (hstep s s' h hs)

theorem init_queue (P : SSParams) (infs : List Node) :
    (init P infs).queue = if P.tmin < P.tmax then infs.map (fun u => ⟨P.tmin, SEv.trans none u []⟩) else [] := by
  simp only [init]
  have : ∀ (l : List Node) (q : List SItem),
      l.foldl (fun q u => qadd P.tmax q P.tmin (SEv.trans none u [])) q =
        q ++ (if P.tmin < P.tmax then l.map (fun u => ⟨P.tmin, SEv.trans none u []⟩) else []) := by
    intro l
    induction l with
    | nil => intro q; simp
    | cons u l ih =>
      intro q
      rw [List.foldl_cons, ih, qadd_eq]
      split <;> simp
  rw [this]; simp

theorem mem_reQ {tmax : Rat} {src : Option Node} {v : Node} {tt : List Rat} {x : SItem} (h : x ∈ reQ tmax src v tt) :
    ∃ u, src = some u ∧ x ∈ chainOf tmax u v tt := by
  cases src with
  | none => simp [reQ] at h
  | some u => exact ⟨u, rfl, h⟩

theorem mem_newItems {P : SSParams} {s : SSState} {t : Rat} {v : Node} {x : SItem} (h : x ∈ newItems P s t v) :
    (x = ⟨t + P.dur v (s.count v), SEv.recov v⟩ ∧ t + P.dur v (s.count v) < P.tmax) ∨
    ∃ w ∈ P.nbrs v, x ∈ chainOf P.tmax v w
      (liveTimes (fset s.inf v true) (fset s.recTime v (t + P.dur v (s.count v))) w
        ((P.delays v w (s.count v)).map fun d => t + d)) := by
  unfold newItems at h
  rcases List.mem_append.1 h with h | h
  · left
    split at h
    · simp at h; exact ⟨h, ‹_›⟩
    · simp at h
  · right
    obtain ⟨w, hw, hx⟩ := List.mem_flatMap.1 h
    exact ⟨w, hw, hx⟩

/-! ### invariant A: nothing at or after `tmax` -/

structure InvA (P : SSParams) (s : SSState) : Prop where
  q_lt : ∀ x ∈ s.queue, x.time < P.tmax
  log_lt : ∀ c ∈ s.log, c.1 < P.tmax

theorem chainOf_lt {tmax : Rat} {src tgt : Node} {tt : List Rat} {x : SItem} (h : x ∈ chainOf tmax src tgt tt) :
    x.time < tmax := by
  obtain ⟨t0, fol, _, h2, rfl⟩ := mem_chainOf h; exact h2

theorem newItems_lt {P : SSParams} {s : SSState} {t : Rat} {v : Node} {x : SItem} (h : x ∈ newItems P s t v) :
    x.time < P.tmax := by
  rcases mem_newItems h with ⟨rfl, h'⟩ | ⟨w, _, h'⟩
  · exact h'
  · exact chainOf_lt h'

theorem reQ_lt {tmax : Rat} {src : Option Node} {v : Node} {tt : List Rat} {x : SItem} (h : x ∈ reQ tmax src v tt) :
    x.time < tmax := by
  obtain ⟨u, _, h⟩ := mem_reQ h; exact chainOf_lt h

theorem InvA_step {P : SSParams} {s s' : SSState} (hI : InvA P s) (h : step P s = some s') : InvA P s' := by
  obtain ⟨x, l1, l2, hq, _, _, hc⟩ := step_cases h
  have hx : x.time < P.tmax := hI.q_lt x (by simp [hq])
  have hold : ∀ y ∈ l1 ++ l2, y.time < P.tmax := by
    intro y hy; apply hI.q_lt y; rw [hq]
    rcases List.mem_append.1 hy with hy | hy <;> simp [hy]
  rcases hc with ⟨u, _, rfl⟩ | ⟨src, v, fut, _, _, rfl⟩ | ⟨src, v, fut, _, _, rfl⟩
  · refine ⟨hold, ?_⟩
    intro c hc
    rcases List.mem_cons.1 hc with rfl | hc
    · exact hx
    · exact hI.log_lt c hc
  · refine ⟨?_, hI.log_lt⟩
    intro y hy
    rcases List.mem_append.1 hy with hy | hy
    · exact hold y hy
    · exact reQ_lt hy
  · refine ⟨?_, ?_⟩
    · intro y hy
      rcases List.mem_append.1 hy with hy | hy
      · rcases List.mem_append.1 hy with hy | hy
        · exact hold y hy
        · exact newItems_lt hy
      · exact reQ_lt hy
    · intro c hc
      rcases List.mem_cons.1 hc with rfl | hc
      · exact hx
      · exact hI.log_lt c hc

theorem InvA_init (P : SSParams) (infs : List Node) : InvA P (init P infs) := by
  refine ⟨?_, by simp [init]⟩
  rw [init_queue]
  intro x hx
  split at hx
  · simp at hx; obtain ⟨u, _, rfl⟩ := hx; assumption
  · simp at hx

theorem InvA_run (P : SSParams) (infs : List Node) (fuel : Nat) : InvA P (run P infs fuel) :=
  loop_inv (InvA P) (fun _ _ => InvA_step) fuel _ (InvA_init P infs)

/-! ### invariant B: the per-node log alternates; recovery times -/

/-- the status changes of node `v`, oldest first -/
def nlog (log : List Change) (v : Node) : List Change := log.reverse.filter (fun c => c.2.1 == v)

theorem nlog_cons_self (t : Rat) (v : Node) (b : Bool) (log : List Change) :
    nlog ((t, v, b) :: log) v = nlog log v ++ [(t, v, b)] := by
  simp [nlog, List.filter_append]

theorem nlog_cons_ne (t : Rat) {u v : Node} (b : Bool) (log : List Change) (h : u ≠ v) :
    nlog ((t, u, b) :: log) v = nlog log v := by
  simp [nlog, List.filter_append, h]

theorem getElem?_snoc_cases {α : Type} {l : List α} {a c : α} {i : Nat} (h : (l ++ [a])[i]? = some c) :
    (i < l.length ∧ l[i]? = some c) ∨ (i = l.length ∧ c = a) := by
  rw [List.getElem?_append] at h
  split at h
  · left; exact ⟨‹_›, h⟩
  · right
    rename_i hi
    have : i - l.length = 0 := by
      by_contra hne
      have : ([a] : List α)[i - l.length]? = none := by
        apply List.getElem?_eq_none; simp; omega
      rw [this] at h; simp at h
    rw [this] at h
    simp at h
    exact ⟨by omega, h.symm⟩

structure InvB (P : SSParams) (s : SSState) (v : Node) : Prop where
  alt : ∀ i c, (nlog s.log v)[i]? = some c → c.2.2 = (i % 2 == 0)
  infl : s.inf v = ((nlog s.log v).length % 2 == 1)
  cnt : s.count v = ((nlog s.log v).length + 1) / 2
  rc : s.queue.countP (fun x => x.ev == SEv.recov v) ≤ if s.inf v then 1 else 0
  rt : ∀ x ∈ s.queue, x.ev = SEv.recov v → x.time = s.recTime v
  rT : ∀ i c, (nlog s.log v).length = 2 * i + 1 → (nlog s.log v)[2 * i]? = some c → s.recTime v = c.1 + P.dur v i
  pair : ∀ i ci cr, (nlog s.log v)[2 * i]? = some ci → (nlog s.log v)[2 * i + 1]? = some cr →
    cr.1 = ci.1 + P.dur v i

theorem InvB_frame {P : SSParams} {s s' : SSState} {v : Node} (hI : InvB P s v)
    (h1 : s'.inf v = s.inf v) (h2 : s'.recTime v = s.recTime v) (h3 : s'.count v = s.count v)
    (h4 : nlog s'.log v = nlog s.log v)
    (h5 : s'.queue.countP (fun x => x.ev == SEv.recov v) ≤ s.queue.countP (fun x => x.ev == SEv.recov v))
    (h6 : ∀ x ∈ s'.queue, x.ev = SEv.recov v → x ∈ s.queue) : InvB P s' v := by
  refine ⟨?_, ?_, ?_, ?_, ?_, ?_, ?_⟩
  · rw [h4]; exact hI.alt
  · rw [h4, h1]; exact hI.infl
  · rw [h4, h3]; exact hI.cnt
  · rw [h1]; exact le_trans h5 hI.rc
  · intro x hx he; rw [h2]; exact hI.rt x (h6 x hx he) he
  · rw [h4, h2]; exact hI.rT
  · rw [h4]; exact hI.pair

def noRecov (v : Node) (l : List SItem) : Prop := ∀ x ∈ l, x.ev ≠ SEv.recov v

theorem noRecov_countP {v : Node} {l : List SItem} (h : noRecov v l) :
    l.countP (fun x => x.ev == SEv.recov v) = 0 := by
  rw [List.countP_eq_zero]
  intro x hx; simpa using h x hx

theorem noRecov_chainOf (v : Node) (tmax : Rat) (src tgt : Node) (tt : List Rat) :
    noRecov v (chainOf tmax src tgt tt) := by
  intro x hx
  obtain ⟨t0, fol, _, _, rfl⟩ := mem_chainOf hx
  simp

theorem noRecov_reQ (v : Node) (tmax : Rat) (src : Option Node) (tgt : Node) (tt : List Rat) :
    noRecov v (reQ tmax src tgt tt) := by
  intro x hx
  obtain ⟨u, _, hx⟩ := mem_reQ hx
  exact noRecov_chainOf v _ _ _ _ x hx

theorem noRecov_newItems {v w : Node} (P : SSParams) (s : SSState) (t : Rat) (h : w ≠ v) :
    noRecov v (newItems P s t w) := by
  intro x hx
  rcases mem_newItems hx with ⟨rfl, _⟩ | ⟨z, _, hx⟩
  · simp [h]
  · exact noRecov_chainOf v _ _ _ _ x hx

theorem countP_mid_le {α : Type} (p : α → Bool) (l1 l2 : List α) (x : α) :
    (l1 ++ l2).countP p ≤ (l1 ++ x :: l2).countP p := by
  simp [List.countP_append, List.countP_cons]

theorem mem_mid {α : Type} {l1 l2 : List α} {x y : α} (h : y ∈ l1 ++ l2) : y ∈ l1 ++ x :: l2 := by
  rcases List.mem_append.1 h with h | h <;> simp [h]

theorem InvB_step {P : SSParams} {s s' : SSState} (hI : ∀ v, InvB P s v) (h : step P s = some s') :
    ∀ v, InvB P s' v := by
  obtain ⟨x, l1, l2, hq, _, _, hc⟩ := step_cases h
  intro v
  have hIv := hI v
  rcases hc with ⟨u, hev, rfl⟩ | ⟨src, w, fut, hev, hinf, rfl⟩ | ⟨src, w, fut, hev, hinf, rfl⟩
  · -- recovery of u
    by_cases huv : u = v
    · subst huv
      have hxq : x ∈ s.queue := by simp [hq]
      have hcnt : 1 ≤ s.queue.countP (fun y => y.ev == SEv.recov u) := by
        apply List.countP_pos_iff.2; exact ⟨x, hxq, by simp [hev]⟩
      have hinf : s.inf u = true := by
        have := hIv.rc
        split at this
        · assumption
        · omega
      have hodd : (nlog s.log u).length % 2 = 1 := by
        have := hIv.infl; rw [hinf] at this; simpa using this.symm
      have hxt : x.time = s.recTime u := hIv.rt x hxq hev
      refine ⟨?_, ?_, ?_, ?_, ?_, ?_, ?_⟩
      · intro i c hic
        simp only [nlog_cons_self] at hic
        rcases getElem?_snoc_cases hic with ⟨_, h1⟩ | ⟨rfl, rfl⟩
        · exact hIv.alt i c h1
        · simp; omega
      · simp only [nlog_cons_self, fset]; simp; omega
      · simp only [nlog_cons_self]; rw [hIv.cnt]; simp; omega
      · simp only [fset]; simp
        have := hIv.rc
        rw [hinf, hq, List.countP_append, List.countP_cons] at this
        simp only [hev, beq_self_eq_true, if_true] at this
        constructor
        · have : l1.countP (fun x => x.ev == SEv.recov u) = 0 := by omega
          rw [List.countP_eq_zero] at this; simpa using this
        · have : l2.countP (fun x => x.ev == SEv.recov u) = 0 := by omega
          rw [List.countP_eq_zero] at this; simpa using this
      · intro y hy he
        exact hIv.rt y (by rw [hq]; exact mem_mid hy) he
      · intro i c hlen
        simp only [nlog_cons_self] at hlen; simp at hlen; omega
      · intro i ci cr h1 h2
        simp only [nlog_cons_self] at h1 h2
        rcases getElem?_snoc_cases h2 with ⟨h2l, h2⟩ | ⟨h2l, rfl⟩
        · rcases getElem?_snoc_cases h1 with ⟨_, h1⟩ | ⟨h1l, _⟩
          · exact hIv.pair i ci cr h1 h2
          · omega
        · rcases getElem?_snoc_cases h1 with ⟨_, h1⟩ | ⟨h1l, _⟩
          · show x.time = _
            rw [hxt]; exact hIv.rT i ci h2l.symm h1
          · omega
    · apply InvB_frame hIv
      · simp [fset, Ne.symm huv]
      · rfl
      · rfl
      · exact nlog_cons_ne _ _ _ huv
      · rw [hq]; exact countP_mid_le _ _ _ _
      · intro y hy _; rw [hq]; exact mem_mid hy
  · -- attempt on an infectious node
    apply InvB_frame hIv
    · rfl
    · rfl
    · rfl
    · rfl
    · rw [hq]
      simp only [List.countP_append (l₁ := l1 ++ l2), noRecov_countP (noRecov_reQ v _ _ _ _)]
      exact countP_mid_le _ _ _ _
    · intro y hy he
      rcases List.mem_append.1 hy with hy | hy
      · rw [hq]; exact mem_mid hy
      · exact absurd he (noRecov_reQ v _ _ _ _ y hy)
  · -- infection of w
    by_cases hwv : w = v
    · subst hwv
      have heven : (nlog s.log w).length % 2 = 0 := by
        have := hIv.infl; rw [hinf] at this
        have h2 : ¬ ((nlog s.log w).length % 2 = 1) := by simpa using this.symm
        omega
      have hno : s.queue.countP (fun y => y.ev == SEv.recov w) = 0 := by
        have := hIv.rc; rw [hinf] at this; simpa using this
      have hno' : ∀ y ∈ l1 ++ l2, y.ev ≠ SEv.recov w := by
        intro y hy
        rw [List.countP_eq_zero] at hno
        simpa using hno y (by rw [hq]; exact mem_mid hy)
      refine ⟨?_, ?_, ?_, ?_, ?_, ?_, ?_⟩
      · intro i c hic
        simp only [nlog_cons_self] at hic
        rcases getElem?_snoc_cases hic with ⟨_, h1⟩ | ⟨rfl, rfl⟩
        · exact hIv.alt i c h1
        · simp; omega
      · simp only [nlog_cons_self, fset]; simp; omega
      · simp only [nlog_cons_self, fset]; rw [hIv.cnt]; simp; omega
      · simp only [fset]; simp only [if_true]
        rw [List.countP_append, noRecov_countP (noRecov_reQ w _ _ _ _), List.countP_append]
        have h0 : (l1 ++ l2).countP (fun y => y.ev == SEv.recov w) = 0 := by
          rw [List.countP_eq_zero]; intro y hy; simpa using hno' y hy
        rw [h0]
        unfold newItems
        rw [List.countP_append]
        have h1 : ((P.nbrs w).flatMap (fun z => chainOf P.tmax w z
            (liveTimes (fset s.inf w true) (fset s.recTime w (x.time + P.dur w (s.count w))) z
              ((P.delays w z (s.count w)).map fun d => x.time + d)))).countP
              (fun y => y.ev == SEv.recov w) = 0 := by
          apply noRecov_countP
          intro y hy
          obtain ⟨z, _, hy⟩ := List.mem_flatMap.1 hy
          exact noRecov_chainOf w _ _ _ _ y hy
        rw [h1]
        split <;> simp
      · intro y hy he
        simp only [fset]; simp
        rcases List.mem_append.1 hy with hy | hy
        · rcases List.mem_append.1 hy with hy | hy
          · exact absurd he (hno' y hy)
          · rcases mem_newItems hy with ⟨rfl, _⟩ | ⟨z, _, hy⟩
            · rfl
            · exact absurd he (noRecov_chainOf w _ _ _ _ y hy)
        · exact absurd he (noRecov_reQ w _ _ _ _ y hy)
      · intro i c hlen hic
        simp only [nlog_cons_self] at hlen hic
        simp at hlen
        have hi2 : 2 * i = (nlog s.log w).length := by omega
        rcases getElem?_snoc_cases hic with ⟨h1, _⟩ | ⟨_, rfl⟩
        · omega
        · simp only [fset]; simp
          rw [hIv.cnt]
          have : ((nlog s.log w).length + 1) / 2 = i := by omega
          rw [this]
      · intro i ci cr h1 h2
        simp only [nlog_cons_self] at h1 h2
        rcases getElem?_snoc_cases h2 with ⟨h2l, h2⟩ | ⟨h2l, rfl⟩
        · rcases getElem?_snoc_cases h1 with ⟨_, h1⟩ | ⟨h1l, _⟩
          · exact hIv.pair i ci cr h1 h2
          · omega
        · omega
    · apply InvB_frame hIv
      · simp [fset, Ne.symm hwv]
      · simp [fset, Ne.symm hwv]
      · simp [fset, Ne.symm hwv]
      · exact nlog_cons_ne _ _ _ hwv
      · rw [hq]
        simp only [List.countP_append (l₁ := l1 ++ l2 ++ newItems P s x.time w),
          List.countP_append (l₁ := l1 ++ l2) (l₂ := newItems P s x.time w),
          noRecov_countP (noRecov_reQ v _ _ _ _), noRecov_countP (noRecov_newItems P s x.time hwv)]
        exact countP_mid_le _ _ _ _
      · intro y hy he
        rcases List.mem_append.1 hy with hy | hy
        · rcases List.mem_append.1 hy with hy | hy
          · rw [hq]; exact mem_mid hy
          · exact absurd he (noRecov_newItems P s x.time hwv y hy)
        · exact absurd he (noRecov_reQ v _ _ _ _ y hy)

theorem InvB_init (P : SSParams) (infs : List Node) (v : Node) : InvB P (init P infs) v := by
  have hl : nlog (init P infs).log v = [] := by simp [init, nlog]
  have hnr : noRecov v (init P infs).queue := by
    rw [init_queue]
    intro x hx; split at hx
    · simp at hx; obtain ⟨u, _, rfl⟩ := hx; simp
    · simp at hx
  refine ⟨?_, ?_, ?_, ?_, ?_, ?_, ?_⟩
  · rw [hl]; simp
  · rw [hl]; simp [init]
  · rw [hl]; simp [init]
  · rw [noRecov_countP hnr]; simp
  · intro x hx he; exact absurd he (hnr x hx)
  · rw [hl]; simp
  · rw [hl]; simp

theorem InvB_run (P : SSParams) (infs : List Node) (fuel : Nat) : ∀ v, InvB P (run P infs fuel) v :=
  loop_inv (fun s => ∀ v, InvB P s v) (fun _ _ => InvB_step) fuel _ (InvB_init P infs)

/-! ### invariant C: every transmission is a listed attempt -/

def TransOK (P : SSParams) (infs : List Node) (tr : List (Rat × Option Node × Node)) (e : Rat × Option Node × Node) :
    Prop :=
  match e.2.1 with
  | none => e.2.2 ∈ infs ∧ e.1 = P.tmin
  | some u => e.2.2 ∈ P.nbrs u ∧ ∃ eu ∈ tr, eu.2.2 = u ∧ ∃ k d, d ∈ P.delays u e.2.2 k ∧ eu.1 + d = e.1

def ChainOK (P : SSParams) (infs : List Node) (tr : List (Rat × Option Node × Node)) (t : Rat) (src : Option Node)
    (v : Node) (fut : List Rat) : Prop :=
  match src with
  | none => v ∈ infs ∧ t = P.tmin
  | some u => v ∈ P.nbrs u ∧ ∃ eu ∈ tr, eu.2.2 = u ∧ ∃ k, ∀ t' ∈ t :: fut, ∃ d ∈ P.delays u v k, eu.1 + d = t'

theorem TransOK.mono {P : SSParams} {infs : List Node} {tr tr' : List (Rat × Option Node × Node)}
    {e : Rat × Option Node × Node} (h : TransOK P infs tr e) (hs : ∀ x ∈ tr, x ∈ tr') : TransOK P infs tr' e := by
  unfold TransOK at h ⊢
  split
  · rename_i h0; simp only [h0] at h; exact h
  · rename_i u h0; simp only [h0] at h
    obtain ⟨h1, eu, h2, h3⟩ := h
    exact ⟨h1, eu, hs eu h2, h3⟩

theorem ChainOK.mono {P : SSParams} {infs : List Node} {tr tr' : List (Rat × Option Node × Node)}
    {t : Rat} {src : Option Node} {v : Node} {fut : List Rat}
    (h : ChainOK P infs tr t src v fut) (hs : ∀ x ∈ tr, x ∈ tr') : ChainOK P infs tr' t src v fut := by
  cases src with
  | none => exact h
  | some u =>
    obtain ⟨h1, eu, h2, h3⟩ := h
    exact ⟨h1, eu, hs eu h2, h3⟩

theorem liveTimes_subset {inf : Node → Bool} {recTime : Node → Rat} {v : Node} {tt : List Rat} {t : Rat}
    (h : t ∈ liveTimes inf recTime v tt) : t ∈ tt := by
  unfold liveTimes at h
  split at h
  · exact (List.mem_filter.1 h).1
  · exact h

structure InvC (P : SSParams) (infs : List Node) (s : SSState) : Prop where
  tr : ∀ e ∈ s.trans, TransOK P infs s.trans e
  qc : ∀ x ∈ s.queue, ∀ src v fut, x.ev = SEv.trans src v fut → ChainOK P infs s.trans x.time src v fut

/-- the re-queued rest of a chain is still a listed chain -/
theorem reQ_ChainOK {P : SSParams} {infs : List Node} {tr : List (Rat × Option Node × Node)}
    {t : Rat} {src : Option Node} {v : Node} {fut : List Rat} (h : ChainOK P infs tr t src v fut)
    (p : Rat → Bool) {y : SItem} (hy : y ∈ reQ P.tmax src v (fut.filter p)) :
    ∀ src' v' fut', y.ev = SEv.trans src' v' fut' → ChainOK P infs tr y.time src' v' fut' := by
  obtain ⟨u, rfl, hy⟩ := mem_reQ hy
  obtain ⟨t0, fol, h1, _, rfl⟩ := mem_chainOf hy
  intro src' v' fut' he
  simp at he
  obtain ⟨rfl, rfl, rfl⟩ := he
  obtain ⟨h2, eu, h3, h4, k, h5⟩ := h
  refine ⟨h2, eu, h3, h4, k, ?_⟩
  intro t' ht'
  apply h5
  have : t' ∈ fut.filter p := by rw [h1]; exact ht'
  exact List.mem_cons_of_mem _ (List.mem_filter.1 this).1

theorem InvC_step {P : SSParams} {infs : List Node} {s s' : SSState} (hI : InvC P infs s) (h : step P s = some s') :
    InvC P infs s' := by
  obtain ⟨x, l1, l2, hq, _, _, hc⟩ := step_cases h
  have hxq : x ∈ s.queue := by simp [hq]
  have hold : ∀ y ∈ l1 ++ l2, y ∈ s.queue := by intro y hy; rw [hq]; exact mem_mid hy
  rcases hc with ⟨u, hev, rfl⟩ | ⟨src, w, fut, hev, hinf, rfl⟩ | ⟨src, w, fut, hev, hinf, rfl⟩
  · exact ⟨hI.tr, fun y hy => hI.qc y (hold y hy)⟩
  · refine ⟨hI.tr, ?_⟩
    intro y hy
    rcases List.mem_append.1 hy with hy | hy
    · exact hI.qc y (hold y hy)
    · exact reQ_ChainOK (hI.qc x hxq src w fut hev) _ hy
  · have hsub : ∀ e ∈ s.trans, e ∈ (x.time, src, w) :: s.trans := fun e he => List.mem_cons_of_mem _ he
    have hx := hI.qc x hxq src w fut hev
    refine ⟨?_, ?_⟩
    · intro e he
      rcases List.mem_cons.1 he with rfl | he
      · unfold TransOK
        cases src with
        | none => exact hx
        | some u =>
          obtain ⟨h1, eu, h2, h3, k, h4⟩ := hx
          obtain ⟨d, hd, hd'⟩ := h4 x.time (by simp)
          exact ⟨h1, eu, hsub eu h2, h3, k, d, hd, hd'⟩
      · exact (hI.tr e he).mono hsub
    · intro y hy
      rcases List.mem_append.1 hy with hy | hy
      · rcases List.mem_append.1 hy with hy | hy
        · intro src' v' fut' he
          exact (hI.qc y (hold y hy) src' v' fut' he).mono hsub
        · rcases mem_newItems hy with ⟨rfl, _⟩ | ⟨z, hz, hy⟩
          · intro src' v' fut' he; simp at he
          · obtain ⟨t0, fol, h1, _, rfl⟩ := mem_chainOf hy
            intro src' v' fut' he
            simp at he
            obtain ⟨rfl, rfl, rfl⟩ := he
            refine ⟨hz, (x.time, src, w), by simp, rfl, s.count w, ?_⟩
            intro t' ht'
            have : t' ∈ (P.delays w z (s.count w)).map fun d => x.time + d := by
              apply liveTimes_subset; rw [h1]; exact ht'
            obtain ⟨d, hd, rfl⟩ := List.mem_map.1 this
            exact ⟨d, hd, rfl⟩
      · intro src' v' fut' he
        exact (reQ_ChainOK hx _ hy src' v' fut' he).mono hsub

theorem InvC_init (P : SSParams) (infs : List Node) : InvC P infs (init P infs) := by
  refine ⟨by simp [init], ?_⟩
  rw [init_queue]
  intro x hx src v fut he
  split at hx
  · simp at hx; obtain ⟨u, hu, rfl⟩ := hx
    simp at he
    obtain ⟨rfl, rfl, rfl⟩ := he
    exact ⟨hu, rfl⟩
  · simp at hx

theorem InvC_run (P : SSParams) (infs : List Node) (fuel : Nat) : InvC P infs (run P infs fuel) :=
  loop_inv (InvC P infs) (fun _ _ => InvC_step) fuel _ (InvC_init P infs)

end EventSIS
