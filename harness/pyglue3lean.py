#!/usr/bin/env python3
"""pyglue3lean — translator for the ODE *entry points* of EoN/analytic.py that pyglue2lean.py does not cover
-> lean/EoNVerif/Gen/OdeGlue2.lean (namespace GenGlue2; runtime Gen/PyGlue2.lean):

  SIS/SIR_individual_based(+_pure_IC), SIS/SIR_pair_based(+_pure_IC), SIS/SIR_effective_degree,
  SIS_compact_effective_degree (and its callee SIS_compact_pairwise), EBCM_uniform_introduction (and its callee EBCM),
  SIS/SIR_heterogeneous_pairwise, EBCM_pref_mix (right-hand sides opaque), EBCM_pref_mix_discrete.

Every function is translated WHOLE, statement by statement, into a Lean `do` block in `Except String`:
  * Python locals that are re-assigned become `let mut` variables; a `None`-able argument is an `Option`, reading it where
    Python needs a value is `PyGlue2.need` (TypeError), `x is None` is `x.isNone`;
  * `if/elif/else` (nested), `raise EoN.EoNError` (`throw "EoNError"`) in source order, `return` in either branch;
  * NumPy: 1-D arrays `Gen.V`, 2-D arrays `PyGlue2.Mx`; `+ - * /` pointwise with NumPy broadcasting (a length mismatch is
    `ValueError`), `v[:, None]`, `v[None, :]`, `.T`, `.shape`, `.shape = …` (reshape, `ValueError` on a size mismatch),
    `.copy()`, `.sum()`, `.sum(axis=0)`, `sum(…)`, `np.ones/np.array/np.concatenate/np.linspace`, Python slices with clamping;
  * graph arguments as Gen/AnalyticLoops.lean does: nodes are their index in `nodelist` (`index_of_node` = identity,
    `G.nodes()` = `0..G.order()-1`), `G.neighbors` = `nbrs`, the rate functions of `EoN._get_rate_functions_` = `tr`, `rr`,
    `nx.adjacency_matrix(G, nodelist=…, weight=None).toarray()` = the 0/1 matrix of `nbrs`;
  * `integrate.odeint` / `_my_odeint_` are PARAMETERS (`odeint rhs X0 : Nat → Gen.V`, the row at each time index); the
    right-hand side handed over is the GENERATED one (py2lean.py / py2lean_loops.py) with every entry of `args=(…)`
    matched by kind and position against that function's signature; right-hand sides that are not translated are
    opaque parameters typed by the kinds of the `args` entries;
  * the result is `(X0 handed to the solver, [returned arrays])`; a returned array is a `PyGlue2.Out`
    (series / class×time / a×b×time / dict of series …).
The only hand-supplied input is the kind of each Python parameter (SIGS).  Anything outside the subset raises
Unsupported("<fn>: <reason>") — a failed translation is an undischarged obligation.
"""
import ast, os, sys, hashlib
import py2lean, py2lean_loops

REPO = os.environ.get("EON_REPO", "/repo")
Unsupported = py2lean.Unsupported

# kinds: S scalar, N nat, I int (time bound), B bool, F function Rat→Rat, V 1-D array, MX 2-D array, NL list of nodes, G graph,
#        R passed on to EoN._get_rate_functions_ only, D dict degree→number, DD dict degree→dict, O<k> = k or None
_GR = "G:G tau:R gamma:R"
_TW = "tmin:S tmax:S tcount:N transmission_weight:R recovery_weight:R return_full_data:B"
_T = "tmin:S tmax:S tcount:N return_full_data:B"
SIGS = {
    "SIS_individual_based": f"{_GR} rho:OS Y0:OV nodelist:ONL {_TW}",
    "SIR_individual_based": f"{_GR} rho:OS Y0:OV X0:OV nodelist:ONL {_TW}",
    "SIS_individual_based_pure_IC": f"{_GR} initial_infecteds:NL nodelist:ONL {_TW}",
    "SIR_individual_based_pure_IC": f"{_GR} initial_infecteds:NL initial_recovereds:ONL nodelist:ONL {_TW}",
    "SIS_pair_based": f"{_GR} rho:OS nodelist:ONL Y0:OV XY0:OMX XX0:OMX {_TW}",
    "SIS_pair_based_pure_IC": f"{_GR} initial_infecteds:NL nodelist:ONL {_TW}",
    "SIR_pair_based": f"{_GR} rho:OS nodelist:ONL Y0:OV X0:OV XY0:OMX XX0:OMX {_TW}",
    "SIR_pair_based_pure_IC": f"{_GR} initial_infecteds:NL initial_recovereds:ONL nodelist:ONL {_TW}",
    "SIS_heterogeneous_pairwise": f"Sk0:V Ik0:V SkSl0:MX SkIl0:MX IkIl0:MX tau:S gamma:S {_T} Ks:OV",
    "SIR_heterogeneous_pairwise": f"Sk0:V Ik0:V Rk0:V SkSl0:MX SkIl0:MX tau:S gamma:S {_T} Ks:OV",
    "SIS_compact_pairwise": f"Sk0:V Ik0:V SI0:S SS0:S II0:S tau:S gamma:S {_T}",
    "SIS_effective_degree": f"Ssi0:MX Isi0:MX tau:S gamma:S {_T}",
    "SIR_effective_degree": f"S_si0:MX I0:S R0:S tau:S gamma:S {_T}",
    "SIS_compact_effective_degree": f"Sk0:V Ik0:V SI0:S SS0:S II0:S tau:S gamma:S {_T}",
    "EBCM": f"N:S psihat:F psihatPrime:F tau:S gamma:S phiS0:S phiR0:S R0:S {_T}",
    "EBCM_uniform_introduction": f"N:S psi:F psiPrime:F tau:S gamma:S rho:S {_T}",
    "EBCM_pref_mix": f"N:S Pk:D Pnk:DD tau:S gamma:S rho:OS {_T}",
    "EBCM_pref_mix_discrete": "N:S Pk:D Pnk:DD p:S rho:OS tmin:I tmax:I return_full_data:B",
}
TY = {"S": "Rat", "N": "Nat", "I": "Int", "B": "Bool", "F": "Rat → Rat", "V": "Gen.V", "MX": "Mx", "SHAPE": "Nat × Nat",
      "NL": "List Nat", "D": "List (Nat × Rat)", "DD": "List (Nat × List (Nat × Rat))",
      "DL": "List (Nat × List Rat)", "DS": "List (Nat × (Nat → Rat))", "L": "List Rat", "LI": "List Int"}
for _k in ("S", "V", "MX", "NL"):
    TY["O" + _k] = f"Option ({TY[_k]})"
DEFAULT = {"S": "0", "N": "0", "I": "0", "B": "false", "V": "PyGlue2.V0", "MX": "PyGlue2.Mx0", "SHAPE": "(0, 0)", "NL": "[]",
           "D": "[]", "DD": "[]", "DL": "[]", "DS": "[]", "L": "[]", "LI": "[]"}
MUTABLE = set(TY) - {"F"}
ODE_TY = "(Gen.V → Gen.V) → Gen.V → Nat → Gen.V"
GRAPH_BINDERS = "(GN : Nat) (nbrs : Nat → List Nat) (tr : Nat → Nat → Rat) (rr : Nat → Rat)"
RESERVED = {"V": "V_", "at": "at_", "end": "end_", "from": "from_", "fun": "fun_", "in": "in_", "show": "show_", "open": "open_",
            "Mx": "Mx_", "Out": "Out_", "odeint": "odeint_", "myodeint": "myodeint_", "GN": "GN_", "nbrs": "nbrs_", "tr": "tr_", "rr": "rr_"}
SYM = {ast.Add: "+", ast.Sub: "-", ast.Mult: "*", ast.Div: "/"}


class Val:
    """a translated expression.  kind + Lean term; T: at(i) : Rat; M: row(i) : Gen.V with `cols` classes;
    C: row(i) = flattened a×b table; X: the solution (term i = row at time i, n = length of a row)"""
    def __init__(self, kind, term=None, **kw):
        self.kind, self.term = kind, term
        self.intlit = None
        self.__dict__.update(kw)


def is_name(e, n=None):
    return isinstance(e, ast.Name) and (n is None or e.id == n)


def dotted(e):
    try:
        return ast.unparse(e)
    except Exception:
        return ""


class Fn:
    def __init__(self, node, sig, tr):
        self.node, self.tr = node, tr
        self.name = node.name
        self.params = [p.split(":") for p in sig.split()]
        self.env = {}
        self.out = []
        self.ind = "  "
        self.depth = 0
        self.pending = []
        self.names = set()
        self.extra = []          # opaque right-hand sides: (lean name, type)
        self.x0 = None
        self.has_graph = any(k == "G" for _, k in self.params)
        self.rates = False

    # ---------------------------------------------------------------- output
    def emit(self, line):
        self.out.append(self.ind + line)

    def fresh(self, base):
        base = RESERVED.get(base, base)
        n, cand = 0, base
        while cand in self.names:
            n += 1
            cand = f"{base}_{n}"
        self.names.add(cand)
        return cand

    def tmp(self, base):
        base = RESERVED.get(base, base)
        n = 1
        while f"{base}_{n}" in self.names:
            n += 1
        self.names.add(f"{base}_{n}")
        return f"{base}_{n}"

    def hoist(self, kind, term, base="t"):
        """bind a term to a fresh immutable name"""
        nm = self.tmp(base)
        self.emit(f"let {nm} : {TY[kind]} := {term}")
        return nm

    def hoist_m(self, term, ty, base="t"):
        """bind the result of a monadic runtime call"""
        nm = self.tmp(base)
        self.emit(f"let {nm} : {ty} ← {term}")
        return nm

    def atom(self, v):
        """a V / MX / NL value whose term is an identifier"""
        if v.term.replace("_", "a").isalnum():
            return v.term
        return self.hoist(v.kind, v.term)

    def bad(self, what, e=None):
        raise Unsupported(what + ((": " + ast.unparse(e)[:70]) if e is not None else ""))

    # ---------------------------------------------------------------- values
    def val(self, v):
        """strip the Option: reading a None where a value is needed is a TypeError"""
        if v.kind.startswith("O"):
            k = v.kind[1:]
            return Val(k, self.hoist_m(f"PyGlue2.need {v.term}", TY[k], base=v.term))
        return v

    def as_nat(self, v):
        v = self.val(v)
        if v.kind == "N":
            return v.term
        if v.kind == "S" and v.intlit is not None and v.intlit >= 0:
            return str(v.intlit)
        raise Unsupported("a natural number is needed, got kind " + v.kind)

    def as_rat(self, v):
        if v.kind == "S":
            return v.term
        if v.kind == "N":
            return f"(({v.term} : Nat) : Rat)"
        if v.kind == "I":
            return f"(({v.term} : Int) : Rat)"
        raise Unsupported("a number is needed, got kind " + v.kind)

    def as_mx(self, v):
        if v.kind == "MX":
            return self.atom(v)
        if v.kind == "COL":
            return self.hoist("MX", f"PyGlue2.Mx.col {v.term}")
        if v.kind == "ROW":
            return self.hoist("MX", f"PyGlue2.Mx.row {v.term}")
        raise Unsupported("a 2-D array is needed, got kind " + v.kind)

    def as_m(self, v):
        """(class × time) view: a column `v[:, None]` is constant in time"""
        if v.kind == "M":
            return v
        if v.kind == "COL":
            return Val("M", row=lambda i, t=v.term: t, cols=f"{v.term}.n")
        raise Unsupported("a (class × time) array is needed, got kind " + v.kind)

    def name_m(self, v, base="t"):
        """bind a (class × time) value: `<nm>_n` classes, `<nm> i` the class vector at time index i"""
        nm = self.fresh(base)
        self.names.add(nm + "_n")
        self.emit(f"let {nm}_n : Nat := {v.cols}")
        self.emit(f"let {nm} : Nat → Gen.V := fun i => {v.row('i')}")
        return Val("M", row=lambda i, nm=nm: f"({nm} {i})", cols=f"{nm}_n", atomic=True)

    # ---------------------------------------------------------------- arithmetic
    def binop(self, sym, a, b, src):
        a, b = self.val(a), self.val(b)
        ka, kb = a.kind, b.kind
        num = ("S", "N", "I")
        f = lambda x, y: f"({x} {sym} {y})"
        if ka == "N" and kb == "N" or (ka == "N" and b.intlit is not None and b.intlit >= 0) or (kb == "N" and a.intlit is not None and a.intlit >= 0):
            x = a.term if ka == "N" else str(a.intlit)
            y = b.term if kb == "N" else str(b.intlit)
            if sym in "+*":
                return Val("N", f"({x} {sym} {y})")
            if sym == "-":
                raise Unsupported("subtraction of naturals: " + src)
        if ka == "I" and kb in ("I", "N") or kb == "I" and ka in ("I", "N") or ("I" in (ka, kb) and (a.intlit is not None or b.intlit is not None)):
            if sym in "+-*":
                x = a.term if ka == "I" else (f"(({a.term} : Nat) : Int)" if ka == "N" else f"({a.intlit} : Int)")
                y = b.term if kb == "I" else (f"(({b.term} : Nat) : Int)" if kb == "N" else f"({b.intlit} : Int)")
                return Val("I", f"({x} {sym} {y})")
        if ka in num and kb in num:
            x, y = self.as_rat(a), self.as_rat(b)
            if sym == "/":
                if not (b.intlit is not None and b.intlit != 0) and not getattr(b, "nonzero_lit", False):
                    self.emit(f"if {y} = 0 then throw \"ZeroDivisionError\"")
            return Val("S", f(x, y))
        if ka in num and kb == "V":
            x, y = self.as_rat(a), self.atom(b)
            return Val("V", f"(⟨{y}.n, fun k => {f(x, y + '.f k')}⟩ : Gen.V)")
        if ka == "V" and kb in num:
            x, y = self.atom(a), self.as_rat(b)
            return Val("V", f"(⟨{x}.n, fun k => {f(x + '.f k', y)}⟩ : Gen.V)")
        if ka == "V" and kb == "V":
            x, y = self.atom(a), self.atom(b)
            return Val("V", self.hoist_m(f"PyGlue2.vop (fun a b => a {sym} b) {x} {y}", "Gen.V"))
        two = ("MX", "COL", "ROW")
        if ka in num and kb in two:
            x, y = self.as_rat(a), self.as_mx(b)
            return Val("MX", f"(PyGlue2.Mx.map (fun b => {x} {sym} b) {y})")
        if ka in two and kb in num:
            x, y = self.as_mx(a), self.as_rat(b)
            return Val("MX", f"(PyGlue2.Mx.map (fun a => a {sym} {y}) {x})")
        if ka in two and kb in two:
            x, y = self.as_mx(a), self.as_mx(b)
            return Val("MX", self.hoist_m(f"PyGlue2.Mx.op (fun a b => a {sym} b) {x} {y}", "Mx"))
        if {ka, kb} <= {"S", "N", "T"}:
            ga = a.at if ka == "T" else (lambda i, t=self.as_rat(a): t)
            gb = b.at if kb == "T" else (lambda i, t=self.as_rat(b): t)
            return Val("T", at=lambda i: f(ga(i), gb(i)))
        if ka in num and kb == "M":
            x = self.as_rat(a)
            return Val("M", row=lambda i: f"(⟨{b.cols}, fun k => {f(x, b.row(i) + '.f k')}⟩ : Gen.V)", cols=b.cols)
        if ka == "M" and kb in num:
            y = self.as_rat(b)
            return Val("M", row=lambda i: f"(⟨{a.cols}, fun k => {f(a.row(i) + '.f k', y)}⟩ : Gen.V)", cols=a.cols)
        if ka in ("M", "COL") and kb in ("M", "COL") and "M" in (ka, kb):
            a, b = self.as_m(a), self.as_m(b)
            a = a if getattr(a, "atomic", False) or ka == "COL" else self.name_m(a)
            b = b if getattr(b, "atomic", False) or kb == "COL" else self.name_m(b)
            n = self.hoist_m(f"PyGlue2.bdim ({a.cols}) ({b.cols})", "Nat", base="n")
            return Val("M", cols=n, row=lambda i: f"(⟨{n}, fun k => {f(f'{a.row(i)}.f (PyGlue2.bidx ({a.cols}) k)', f'{b.row(i)}.f (PyGlue2.bidx ({b.cols}) k)')}⟩ : Gen.V)")
        if ka in ("C", "MX3") and kb in ("C", "MX3") and "C" in (ka, kb):
            c = a if ka == "C" else b
            for o in (a, b):
                if (o.a, o.b) != (c.a, c.b):
                    self.emit(f"if ({o.a}, {o.b}) ≠ ({c.a}, {c.b}) then throw \"ValueError\"")
            return Val("C", a=c.a, b=c.b, row=lambda i: f"(⟨{c.a} * {c.b}, fun k => {f(a.row(i) + '.f k', b.row(i) + '.f k')}⟩ : Gen.V)")
        raise Unsupported(f"operator {sym} on kinds ({ka}, {kb}): {src[:60]}")

    def power(self, a, b, src):
        a, b = self.val(a), self.val(b)
        if a.kind == "N" and (b.kind == "N" or b.intlit is not None and b.intlit >= 0):
            return Val("N", f"({a.term} ^ {self.as_nat(b)})")
        if b.kind == "N" or (b.intlit is not None and b.intlit >= 0):
            n = self.as_nat(b)
            if a.kind in ("S",):
                return Val("S", f"({a.term} ^ {n})")
            if a.kind == "T":
                return Val("T", at=lambda i: f"({a.at(i)} ^ {n})")
        raise Unsupported(f"power on kinds ({a.kind}, {b.kind}): {src[:60]}")

    def neg(self, a):
        a = self.val(a)
        if a.kind == "S":
            return Val("S", f"(-{a.term})")
        if a.kind == "V":
            x = self.atom(a)
            return Val("V", f"(⟨{x}.n, fun k => -({x}.f k)⟩ : Gen.V)")
        if a.kind == "T":
            return Val("T", at=lambda i: f"(-{a.at(i)})")
        raise Unsupported("unary minus on kind " + a.kind)

    # ---------------------------------------------------------------- expressions
    def ex(self, e):
        src = ast.unparse(e)
        if isinstance(e, ast.Constant):
            if e.value is None:
                return Val("NONE", "none")
            if isinstance(e.value, bool):
                return Val("B", "true" if e.value else "false")
            if isinstance(e.value, (int, float)):
                v = Val("S", py2lean.lit(e.value))
                if isinstance(e.value, int):
                    v.intlit = e.value
                v.nonzero_lit = e.value != 0
                return v
            self.bad("literal", e)
        if isinstance(e, ast.Name):
            if e.id in self.env:
                return self.env[e.id]
            self.bad("unknown name " + e.id)
        if isinstance(e, ast.UnaryOp) and isinstance(e.op, ast.USub):
            if isinstance(e.operand, ast.Constant) and isinstance(e.operand.value, int):
                v = Val("S", py2lean.lit(-e.operand.value))
                v.intlit = -e.operand.value
                return v
            return self.neg(self.ex(e.operand))
        if isinstance(e, ast.BinOp) and type(e.op) in SYM:
            if isinstance(e.op, ast.Mult) and isinstance(e.left, ast.List):
                self.bad("list repetition outside np.array", e)
            return self.binop(SYM[type(e.op)], self.ex(e.left), self.ex(e.right), src)
        if isinstance(e, ast.BinOp) and isinstance(e.op, ast.Pow):
            return self.power(self.ex(e.left), self.ex(e.right), src)
        if isinstance(e, ast.Attribute):
            return self.attribute(e)
        if isinstance(e, ast.Subscript):
            return self.subscript(e)
        if isinstance(e, ast.Call):
            return self.call(e)
        if isinstance(e, ast.IfExp):
            c = self.cond(e.test)
            a, b = self.val(self.ex(e.body)), self.val(self.ex(e.orelse))
            if a.kind in ("S", "N") and b.kind in ("S", "N"):
                return Val("S", f"(if {c} then {self.as_rat(a)} else {self.as_rat(b)})")
            self.bad("conditional expression", e)
        self.bad("expression", e)

    def attribute(self, e):
        if e.attr == "T":
            v = self.val(self.ex(e.value))
            if v.kind == "X":
                return Val("M", row=lambda i: f"({v.term} {i})", cols=v.n, atomic=True)
            if v.kind == "MX":
                return Val("MX", f"(PyGlue2.Mx.T {self.atom(v)})")
            self.bad(".T of kind " + v.kind, e)
        if e.attr == "shape":
            v = self.val(self.ex(e.value))
            if v.kind == "MX":
                x = self.atom(v)
                return Val("SHAPE", f"({x}.r, {x}.c)")
            self.bad(".shape of kind " + v.kind, e)
        self.bad("attribute", e)

    def slice_of(self, v, sl):
        """Python slice / index on the class axis of a (class × time) array"""
        n = v.cols
        if isinstance(sl, ast.Slice):
            if sl.step is not None:
                self.bad("slice step")
            lo = "0" if sl.lower is None else self.bound(sl.lower, n)
            hi = n if sl.upper is None else self.bound(sl.upper, n)
            cols = self.hoist("N", f"PyGlue2.sliceLen ({n}) ({lo}) ({hi})", base="n")
            return Val("M", cols=cols, row=lambda i: f"(PyGlue2.vslice ({n}) {v.row(i)} ({lo}) ({hi}))")
        k = self.bound(sl, n)
        self.emit(f"if ¬ ({k} < {n}) then throw \"IndexError\"")
        return Val("T", at=lambda i: f"({v.row(i)}.f ({k}))")

    def bound(self, b, n):
        if isinstance(b, ast.UnaryOp) and isinstance(b.op, ast.USub) and isinstance(b.operand, ast.Constant) and isinstance(b.operand.value, int):
            return f"({n} - {b.operand.value})"
        return self.as_nat(self.ex(b))

    def subscript(self, e):
        sl = e.slice
        s = ast.unparse(sl)
        if s in (":, None", "(:, None)", "None, :", "(None, :)"):
            v = self.val(self.ex(e.value))
            if v.kind != "V":
                self.bad("[:, None] / [None, :] of kind " + v.kind, e)
            return Val("COL" if s.lstrip("(").startswith(":") else "ROW", self.atom(v))
        if s in (":, :, None", "(:, :, None)"):
            v = self.val(self.ex(e.value))
            if v.kind != "MX":
                self.bad("[:, :, None] of kind " + v.kind, e)
            x = self.atom(v)
            return Val("MX3", a=f"{x}.r", b=f"{x}.c", row=lambda i: f"(⟨{x}.r * {x}.c, fun k => {x}.f (k / {x}.c) (k % {x}.c)⟩ : Gen.V)")
        v = self.val(self.ex(e.value))
        if v.kind == "M":
            return self.slice_of(v, sl)
        if v.kind == "SHAPE" and isinstance(sl, ast.Constant) and sl.value in (0, 1):
            return Val("N", f"{v.term}.{sl.value + 1}")
        if v.kind == "MX" and isinstance(sl, ast.Constant) and isinstance(sl.value, int) and sl.value >= 0:
            return Val("V", self.hoist_m(f"PyGlue2.Mx.getRow {self.atom(v)} {sl.value}", "Gen.V"))
        if v.kind in ("D", "DD", "DS", "DL"):
            return self.dict_get(v, self.ex(sl), e)
        if v.kind in ("L",) and s == "-1":
            return Val("S", self.hoist_m(f"PyGlue2.lastE {v.term}", "Rat"))
        self.bad("subscript", e)

    def call(self, e):
        f = dotted(e.func)
        args, kws = e.args, {k.arg: k.value for k in e.keywords}
        if f == "float" and len(args) == 1:
            return self.ex(args[0])
        if f in ("np.ones", "np.zeros") and len(args) == 1 and not kws:
            return Val("V", f"(PyGlue2.v{f[3:]} {self.as_nat(self.ex(args[0]))})")
        if f == "len" and len(args) == 1:
            v = self.val(self.ex(args[0]))
            if v.kind == "V":
                return Val("N", f"{self.atom(v)}.n")
            if v.kind in ("NL", "D", "DD"):
                return Val("N", f"{v.term}.length")
            if v.kind == "M":
                return Val("N", f"({v.cols})")
            if v.kind == "MX":
                return Val("N", f"{self.atom(v)}.r")
            self.bad("len of kind " + v.kind)
        if f == "np.array" and len(args) == 1 and not kws:
            return self.np_array(args[0])
        if f == "np.linspace" and len(args) == 3 and not kws:
            a, b, c = (self.val(self.ex(x)) for x in args)
            return Val("T", at=lambda i: f"(PyGlue.linspace {self.as_rat(a)} {self.as_rat(b)} {self.as_nat(c)} {i})", length=self.as_nat(c))
        if f == "np.concatenate" and len(args) == 1 and isinstance(args[0], ast.Tuple) and list(kws) in ([], ["axis"]) \
                and all(dotted(v) == "0" for v in kws.values()):
            parts = [Val("V", self.vlist(p.elts)) if isinstance(p, ast.List) else self.val(self.ex(p)) for p in args[0].elts]
            if all(p.kind == "V" for p in parts):
                t = self.atom(parts[0])
                for p in parts[1:]:
                    t = f"(Gen.V.append {t} {self.atom(p)})"
                return Val("V", t)
            if all(p.kind in ("MX", "COL") for p in parts):
                t = self.as_mx(parts[0])
                for p in parts[1:]:
                    t = self.hoist_m(f"PyGlue2.Mx.vcat {t} {self.as_mx(p)}", "Mx")
                return Val("MX", t)
            self.bad("concatenate of kinds " + ",".join(p.kind for p in parts))
        if f == "sum" and len(args) == 1 and not kws:
            return self.total(self.ex(args[0]), args[0])
        if f == "set" and len(args) == 1:
            v = self.val(self.ex(args[0]))
            if v.kind == "NL":
                return Val("NL", v.term)      # a set of nodes is used for membership tests only
            self.bad("set of kind " + v.kind)
        if f == "list" and len(args) == 1:
            v = self.val(self.ex(args[0]))
            if v.kind == "NL":
                return v
            self.bad("list of kind " + v.kind)
        if f == "sorted" and len(args) == 1 and not kws:
            v = self.ex(args[0])
            if v.kind == "KEYS":
                return Val("KEYS", f"(PyGlue2.sortNat {v.term})")
            self.bad("sorted of kind " + v.kind)
        if f == "nx.adjacency_matrix(G, nodelist=list(nodelist), weight=None).toarray" or \
                (isinstance(e.func, ast.Attribute) and e.func.attr == "toarray" and isinstance(e.func.value, ast.Call)
                 and dotted(e.func.value.func) == "nx.adjacency_matrix"):
            c = e.func.value
            ck = {k.arg: k.value for k in c.keywords}
            if args or kws or len(c.args) != 1 or self.ex(c.args[0]).kind != "G" or sorted(ck) != ["nodelist", "weight"] \
                    or not (isinstance(ck["weight"], ast.Constant) and ck["weight"].value is None):
                self.bad("call shape of nx.adjacency_matrix", e)
            nl = self.val(self.ex(ck["nodelist"]))
            if nl.kind != "NL":
                self.bad("nodelist of adjacency_matrix of kind " + nl.kind)
            return Val("MX", f"(PyGlue2.adj {nl.term} nbrs)")
        if isinstance(e.func, ast.Attribute):
            m = e.func.attr
            if m in ("nodes", "order") and not args and not kws and self.ex(e.func.value).kind == "G":
                return Val("NL", "(List.range GN)") if m == "nodes" else Val("N", "GN")
            if m == "copy" and not args and not kws:
                v = self.val(self.ex(e.func.value))
                if v.kind in ("V", "MX"):
                    return v
            if m == "keys" and not args and not kws:
                v = self.val(self.ex(e.func.value))
                if v.kind in ("D", "DD", "DS", "DL"):
                    return Val("KEYS", f"({v.term}.map (·.1))")
            if m == "union" and len(args) == 1:
                a, b = self.val(self.ex(e.func.value)), self.val(self.ex(args[0]))
                if a.kind == "NL" and b.kind == "NL":
                    return Val("NL", f"({a.term} ++ {b.term})")
            if m == "sum":
                v = self.val(self.ex(e.func.value))
                kk = {k: dotted(x) for k, x in kws.items()}
                if not args and v.kind in ("M",) and kk == {"axis": "0"}:
                    return self.total(v, e)
                if not args and not kk and v.kind == "V":
                    return self.total(v, e)
                if not args and not kk and v.kind == "MX":
                    return Val("S", f"(PyGlue2.Mx.total {self.atom(v)})")
                self.bad("sum", e)
            if m == "transpose" and [dotted(a) for a in args] == ["1", "0", "2"]:
                v = self.ex(e.func.value)
                if v.kind == "C":
                    return Val("C", a=v.b, b=v.a, row=lambda i: f"(⟨{v.b} * {v.a}, fun k => {v.row(i)}.f ((k % {v.a}) * {v.b} + k / {v.a})⟩ : Gen.V)")
        if isinstance(e.func, ast.Name) and e.func.id in self.env and self.env[e.func.id].kind == "F" and len(args) == 1 and not kws:
            a = self.val(self.ex(args[0]))
            g = self.env[e.func.id].term
            if a.kind == "S":
                return Val("S", f"({g} {a.term})")
            if a.kind == "T":
                return Val("T", at=lambda i: f"({g} {a.at(i)})")
        self.bad("call", e)

    def vlist(self, elts):
        return "(Gen.V.ofList [" + ", ".join(self.as_rat(self.val(self.ex(x))) for x in elts) + "])"

    def np_array(self, a):
        if isinstance(a, ast.List):
            return Val("V", self.vlist(a.elts))
        if isinstance(a, ast.BinOp) and isinstance(a.op, ast.Mult) and isinstance(a.left, ast.List) and len(a.left.elts) == 1:
            x = self.as_rat(self.val(self.ex(a.left.elts[0])))
            return Val("V", f"(PyGlue2.vrep {x} {self.as_nat(self.ex(a.right))})")
        if isinstance(a, ast.Call) and dotted(a.func) == "range" and len(a.args) == 1:
            return Val("V", f"(Gen.V.arange {self.as_nat(self.ex(a.args[0]))})")
        if isinstance(a, ast.ListComp) and len(a.generators) == 1 and not a.generators[0].ifs and is_name(a.generators[0].target):
            it = self.val(self.ex(a.generators[0].iter))
            if it.kind != "NL":
                self.bad("comprehension over kind " + it.kind)
            u = a.generators[0].target.id
            saved = self.env.get(u)
            lu = self.fresh(u)
            self.env[u] = Val("NODE", lu)
            before = len(self.out)
            body = self.val(self.ex(a.elt))
            if len(self.out) != before:
                self.bad("comprehension body needs a statement", a)
            if saved is None:
                del self.env[u]
            else:
                self.env[u] = saved
            return Val("V", f"(Gen.V.ofList ({it.term}.map fun {lu} => {self.as_rat(body)}))")
        v = self.val(self.ex(a))
        if v.kind in ("V", "MX"):
            return v
        if v.kind == "L":
            return Val("V", f"(Gen.V.ofList {v.term})")
        if v.kind == "LI":
            return Val("V", f"(Gen.V.ofList ({v.term}.map fun (z : Int) => (z : Rat)))")
        self.bad("np.array", a)

    def total(self, v, e):
        v = self.val(v)
        if v.kind == "V":
            x = self.atom(v)
            return Val("S", f"(PyGlue2.vsum {x}.n {x})")
        if v.kind == "M":
            return Val("T", at=lambda i: f"(PyGlue2.vsum ({v.cols}) {v.row(i)})")
        if v.kind == "LS":
            return Val("S", f"(sumRat {v.term})")
        if v.kind == "LT":
            return Val("T", at=lambda i: f"(sumRat {v.at(i)})")
        self.bad("sum of kind " + v.kind, e)

    # ---------------------------------------------------------------- conditions
    def cond(self, c):
        if isinstance(c, ast.BoolOp):
            parts = []
            for j, x in enumerate(c.values):
                before = len(self.out)
                parts.append(self.cond(x))
                if j > 0 and len(self.out) != before:
                    self.bad("operand of and/or that needs a statement (short-circuit)", c)
            return "(" + (" && " if isinstance(c.op, ast.And) else " || ").join(parts) + ")"
        if isinstance(c, ast.UnaryOp) and isinstance(c.op, ast.Not):
            return f"(!{self.cond(c.operand)})"
        if isinstance(c, ast.Name):
            v = self.ex(c)
            if v.kind == "B":
                return v.term
            self.bad("truth value of kind " + v.kind, c)
        if isinstance(c, ast.Compare) and len(c.ops) == 1:
            op, l, r = c.ops[0], c.left, c.comparators[0]
            if isinstance(op, (ast.Is, ast.IsNot)) and isinstance(r, ast.Constant) and r.value is None:
                v = self.ex(l)
                if not v.kind.startswith("O"):
                    self.bad("`is None` on a value of kind " + v.kind, c)
                return f"{v.term}.isNone" if isinstance(op, ast.Is) else f"{v.term}.isSome"
            if isinstance(op, (ast.In, ast.NotIn)):
                a, b = self.ex(l), self.val(self.ex(r))
                if a.kind == "NODE" and b.kind == "NL":
                    t = f"({b.term}.contains {a.term})"
                    return t if isinstance(op, ast.In) else f"(!{t})"
                self.bad("membership", c)
            sym = {ast.Gt: ">", ast.Lt: "<", ast.GtE: "≥", ast.LtE: "≤", ast.NotEq: "≠", ast.Eq: "="}.get(type(op))
            if sym is None:
                self.bad("comparison", c)
            a = self.val(self.ex(l))
            if a.kind == "SHAPE" and isinstance(r, ast.Tuple) and sym in ("≠", "="):
                dims = [self.as_nat(self.ex(x)) for x in r.elts]
                if len(dims) != 2:
                    return "true" if sym == "≠" else "false"
                return f"decide ({a.term} {sym} ({dims[0]}, {dims[1]}))"
            b = self.val(self.ex(r))
            if a.kind == "N" and (b.kind == "N" or b.intlit is not None and b.intlit >= 0):
                return f"decide ({a.term} {sym} {self.as_nat(b)})"
            if a.kind in ("S", "N", "I") and b.kind in ("S", "N", "I"):
                return f"decide ({self.as_rat(a)} {sym} {self.as_rat(b)})"
        self.bad("condition", c)

    # ---------------------------------------------------------------- statements
    def assign(self, name, v, node=None):
        """`name = v`"""
        if v.kind in ("T", "M", "C", "X", "F", "IDX", "IDX0", "F1", "F2"):
            return self.bind_immutable(name, v)
        if v.kind in ("COL", "ROW"):
            v = Val("MX", self.as_mx(v))
        if v.kind == "KEYS":
            v = Val("NL", v.term)
        if v.kind not in MUTABLE and v.kind != "NONE":
            self.bad("assignment of kind " + v.kind, node)
        old = self.env.get(name)
        if old is not None and old.kind == v.kind and old.kind in MUTABLE and getattr(old, "mut", False):
            self.emit(f"{old.term} := {v.term}")
            return
        if old is not None and old.kind.startswith("O") and getattr(old, "mut", False) and (old.kind[1:] == v.kind or v.kind == "NONE"):
            self.emit(f"{old.term} := " + ("none" if v.kind == "NONE" else f"some {v.term}"))
            return
        if v.kind == "NONE":
            self.bad("assignment of None to a fresh name", node)
        if self.depth > 0:
            if old is not None:
                self.bad(f"{name} changes kind ({old.kind} → {v.kind}) inside a branch", node)
            nm = self.fresh(name)
            self.pending.append(f"let mut {nm} : {TY[v.kind]} := {DEFAULT[v.kind]}")
            self.emit(f"{nm} := {v.term}")
        else:
            nm = self.fresh(name)
            self.emit(f"let mut {nm} : {TY[v.kind]} := {v.term}")
        nv = Val(v.kind, nm, mut=True)
        self.env[name] = nv

    def bind_immutable(self, name, v):
        if v.kind == "T":
            nm = self.fresh(name)
            self.emit(f"let {nm} : Nat → Rat := fun i => {v.at('i')}")
            self.env[name] = Val("T", at=lambda i, nm=nm: f"({nm} {i})", length=getattr(v, "length", None))
        elif v.kind == "M":
            self.env[name] = self.name_m(v, base=RESERVED.get(name, name))
        elif v.kind == "C":
            nm = self.fresh(name)
            self.emit(f"let {nm} : Nat → Gen.V := fun i => {v.row('i')}")
            self.env[name] = Val("C", a=v.a, b=v.b, row=lambda i, nm=nm: f"({nm} {i})")
        elif v.kind == "F":
            nm = self.fresh(name)
            self.emit(f"let {nm} : Rat → Rat := {v.term}")
            self.env[name] = Val("F", nm)
        else:
            self.env[name] = v

    def set_shape(self, tgt, value, st):
        """`x.shape = …`"""
        if not is_name(tgt.value):
            self.bad("shape assignment", st)
        name = tgt.value.id
        v = self.ex(tgt.value)
        dims = value.elts if isinstance(value, ast.Tuple) else None
        if dims is not None and len(dims) == 3:
            if v.kind not in ("M",):
                self.bad("3-D shape of kind " + v.kind, st)
            if not is_name(dims[2], "tcount") or self.env.get("tcount") is None:
                self.bad("the last dimension of a 3-D shape must be tcount", st)
            a, b = self.as_nat(self.ex(dims[0])), self.as_nat(self.ex(dims[1]))
            self.emit(f"if ({v.cols}) ≠ ({a}) * ({b}) then throw \"ValueError\"")
            a, b = self.hoist("N", a, base="a"), self.hoist("N", b, base="b")
            self.env[name] = Val("C", a=a, b=b, row=v.row)
            return
        v = self.val(v)
        if dims is not None and len(dims) == 2:
            a, b = self.as_nat(self.ex(dims[0])), self.as_nat(self.ex(dims[1]))
            if v.kind == "MX":
                return self.assign(name, Val("MX", self.hoist_m(f"PyGlue2.Mx.reshape {self.atom(v)} ({a}) ({b})", "Mx")), st)
            if v.kind == "V":
                return self.assign(name, Val("MX", self.hoist_m(f"PyGlue2.vreshape2 {self.atom(v)} ({a}) ({b})", "Mx")), st)
        if dims is None:
            n = self.as_nat(self.ex(value))
            if v.kind == "MX":
                return self.assign(name, Val("V", self.hoist_m(f"PyGlue2.Mx.flat {self.atom(v)} ({n})", "Gen.V")), st)
            if v.kind == "V":
                return self.assign(name, Val("V", self.hoist_m(f"PyGlue2.vreshape {self.atom(v)} ({n})", "Gen.V")), st)
        self.bad("shape assignment", st)

    def stmt(self, st, nxt=None):
        if isinstance(st, ast.Expr) and isinstance(st.value, ast.Constant):
            return
        if isinstance(st, ast.Assign) and len(st.targets) == 1:
            tgt = st.targets[0]
            if isinstance(tgt, ast.Attribute) and tgt.attr == "shape":
                return self.set_shape(tgt, st.value, st)
            if isinstance(tgt, ast.Tuple) and all(is_name(x) for x in tgt.elts):
                names = [x.id for x in tgt.elts]
                if isinstance(st.value, ast.Call) and dotted(st.value.func) == "EoN._get_rate_functions_":
                    return self.rate_functions(names, st.value)
                v = self.ex(st.value)
                if v.kind != "M":
                    self.bad("tuple unpacking of kind " + v.kind, st)
                self.emit(f"if ({v.cols}) ≠ {len(names)} then throw \"ValueError\"")
                for j, nm in enumerate(names):
                    self.bind_immutable(nm, Val("T", at=lambda i, j=j: f"({v.row(i)}.f {j})"))
                return
            if is_name(tgt):
                if isinstance(st.value, ast.Call) and dotted(st.value.func) in ("integrate.odeint", "_my_odeint_"):
                    return self.solve(tgt.id, st.value)
                if isinstance(st.value, ast.Dict) and not st.value.keys:
                    self.env[tgt.id] = Val("IDX0")
                    return
                if isinstance(st.value, ast.DictComp):
                    return self.dictcomp(tgt.id, st.value)
                return self.assign(tgt.id, self.ex(st.value), st)
        if isinstance(st, ast.For):
            return self.forloop(st)
        if isinstance(st, ast.If):
            return self.if_stmt(st)
        if isinstance(st, ast.Raise):
            exc = dotted(st.exc)
            if not exc.startswith("EoN.EoNError("):
                self.bad("raise", st)
            self.emit("throw \"EoNError\"")
            return
        if isinstance(st, ast.Return):
            return self.ret(st)
        if isinstance(st, ast.FunctionDef):
            return self.closure(st)
        self.bad("statement", st)

    def block(self, stmts):
        saved_ind, saved_env = self.ind, dict(self.env)
        self.ind += "  "
        self.depth += 1
        n0 = len(self.out)
        for s in stmts:
            self.stmt(s)
        if len(self.out) == n0:
            self.emit("pure ()")
        self.depth -= 1
        self.ind = saved_ind
        # immutable bindings made in the branch are local to it; the mutable ones were declared in front of the `if`
        for k in list(self.env):
            if self.env[k] is not saved_env.get(k) and not getattr(self.env[k], "mut", False):
                if k in saved_env:
                    self.env[k] = saved_env[k]
                else:
                    del self.env[k]

    def if_stmt(self, st):
        top = self.depth == 0
        if top:
            self.pending = []
            mark = len(self.out)
        c = self.cond(st.test)
        self.emit(f"if {c} then")
        self.block(st.body)
        if st.orelse:
            self.emit("else")
            self.block(st.orelse)
        if top and self.pending:
            self.out[mark:mark] = [self.ind + p for p in self.pending]
            self.pending = []

    def forloop(self, st):
        # for i, node in enumerate(nodelist): index_of_node[node] = i
        t = st.target
        if isinstance(t, ast.Tuple) and len(t.elts) == 2 and all(is_name(x) for x in t.elts) and isinstance(st.iter, ast.Call) \
                and dotted(st.iter.func) == "enumerate" and len(st.iter.args) == 1 and len(st.body) == 1 and not st.orelse:
            i, node = t.elts[0].id, t.elts[1].id
            b = st.body[0]
            if isinstance(b, ast.Assign) and len(b.targets) == 1 and isinstance(b.targets[0], ast.Subscript) and is_name(b.targets[0].value) \
                    and is_name(b.targets[0].slice, node) and is_name(b.value, i):
                d = b.targets[0].value.id
                nl = self.val(self.ex(st.iter.args[0]))
                if self.env.get(d) is not None and self.env[d].kind == "IDX0" and nl.kind == "NL":
                    self.emit(f"-- {d}: node ↦ its position in {dotted(st.iter.args[0])} (the identity: nodes are their index)")
                    self.env[d] = Val("IDX", nl.term, py=dotted(st.iter.args[0]))
                    return
        return self.forloop_b(st)

    def forloop_b(self, st):
        self.bad("for loop", st)

    def dictcomp(self, name, dc):
        # {node: i for i, node in enumerate(nodelist)}
        if len(dc.generators) == 1 and not dc.generators[0].ifs:
            g = dc.generators[0]
            if isinstance(g.target, ast.Tuple) and len(g.target.elts) == 2 and all(is_name(x) for x in g.target.elts) \
                    and isinstance(g.iter, ast.Call) and dotted(g.iter.func) == "enumerate" and len(g.iter.args) == 1 \
                    and is_name(dc.key, g.target.elts[1].id) and is_name(dc.value, g.target.elts[0].id):
                nl = self.val(self.ex(g.iter.args[0]))
                if nl.kind == "NL":
                    self.emit(f"-- {name}: node ↦ its position in {dotted(g.iter.args[0])} (the identity: nodes are their index)")
                    self.env[name] = Val("IDX", nl.term, py=dotted(g.iter.args[0]))
                    return
        return self.dictcomp_b(name, dc)

    def dictcomp_b(self, name, dc):
        self.bad("dict comprehension", dc)

    def rate_functions(self, names, call):
        want = ["G", "tau", "gamma", "transmission_weight", "recovery_weight"]
        got = [a.id if is_name(a) else "?" for a in call.args]
        if call.keywords or got != want or len(names) != 2 or any(self.env.get(w) is None or self.env[w].kind not in ("G", "R") for w in want):
            self.bad(f"call shape of EoN._get_rate_functions_ ({got})")
        self.emit(f"-- {names[0]}, {names[1]} = EoN._get_rate_functions_({', '.join(got)}): the parameters tr, rr")
        self.env[names[0]] = Val("F2", "tr")
        self.env[names[1]] = Val("F1", "rr")

    def closure(self, fd):
        """def psihat(x): return <expr>"""
        if len(fd.args.args) != 1 or fd.args.defaults or len(fd.body) != 1 or not isinstance(fd.body[0], ast.Return):
            self.bad("nested function " + fd.name)
        x = fd.args.args[0].arg
        saved = self.env.get(x)
        lx = self.fresh(x)
        self.env[x] = Val("S", lx)
        before = len(self.out)
        body = self.val(self.ex(fd.body[0].value))
        if len(self.out) != before or body.kind != "S":
            self.bad("body of nested function " + fd.name)
        if saved is None:
            del self.env[x]
        else:
            self.env[x] = saved
        self.bind_immutable(fd.name, Val("F", f"fun {lx} => {body.term}"))

    # ---------------------------------------------------------------- the solver call
    def solve(self, target, call):
        which = dotted(call.func)
        if len(call.args) != 3 or [k.arg for k in call.keywords] != ["args"] or not isinstance(call.keywords[0].value, ast.Tuple):
            self.bad("call shape of the solver", call)
        if self.depth != 0 or self.x0 is not None:
            self.bad("solver call inside a branch / second solver call", call)
        tm = self.ex(call.args[2])
        if tm.kind != "T" or getattr(tm, "length", None) is None:
            self.bad("the time grid must be the np.linspace", call)
        x0 = self.val(self.ex(call.args[1]))
        if x0.kind != "V":
            self.bad("initial state of kind " + x0.kind, call)
        rhs = dotted(call.args[0])
        elts = call.keywords[0].value.elts
        got = [self.ex(g) for g in elts]
        if rhs in py2lean.SIGS:
            lean_rhs, sig = py2lean.SIGS[rhs]
        elif rhs in py2lean_loops.SIGS:
            lean_rhs, sig = py2lean_loops.SIGS[rhs]
        else:
            lean_rhs, sig = None, None
        if sig is not None:
            want = [p.split(":") for p in sig.split()][2:]
            if len(got) != len(want):
                self.bad(f"{rhs}: {len(got)} arguments handed over, {len(want)} expected")
            terms = []
            nl = [g for (pn, pk), g in zip(want, got) if pk == "NL"]
            nl_py = [dotted(g) for (pn, pk), g in zip(want, elts) if pk == "NL"]
            for (pn, pk), g in zip(want, got):
                if pk in ("S", "V", "F", "N"):
                    g = self.val(g)
                    if g.kind != pk and not (pk == "S" and g.kind == "N"):
                        self.bad(f"{rhs}: argument {pn} of kind {g.kind}, expected {pk}")
                    terms.append(f"({self.as_rat(g) if pk == 'S' else g.term})")
                elif pk == "SHAPE":
                    if g.kind != "SHAPE":
                        self.bad(f"{rhs}: argument {pn} of kind {g.kind}, expected a shape")
                    terms.append(f"({g.term}.1) ({g.term}.2)")
                elif pk == "G":
                    if g.kind != "G" or len(nl) != 1:
                        self.bad(f"{rhs}: argument {pn} of kind {g.kind}, expected the graph")
                    n = self.val(nl[0])
                    if n.kind != "NL":
                        self.bad(f"{rhs}: nodelist argument of kind {n.kind}")
                    terms.append(f"({n.term}.length) nbrs")
                elif pk == "NL":
                    pass
                elif pk == "IDX":
                    if g.kind != "IDX" or [g.py] != nl_py:
                        self.bad(f"{rhs}: argument {pn} is not the index of the nodelist handed over (kind {g.kind})")
                elif pk == "F2":
                    if g.kind != "F2":
                        self.bad(f"{rhs}: argument {pn} of kind {g.kind}, expected the transmission rate function")
                    terms.append(g.term)
                elif pk == "F1":
                    if g.kind != "F1":
                        self.bad(f"{rhs}: argument {pn} of kind {g.kind}, expected the recovery rate function")
                    terms.append(g.term)
                else:
                    self.bad(f"{rhs}: parameter kind {pk}")
            rhs_term = f"(fun st => Gen.{lean_rhs} st {' '.join(terms)})"
        else:
            # opaque right-hand side: typed by the kinds of the arguments handed over, named after the Python parameters
            fd = self.tr.fns.get(rhs)
            if fd is None:
                self.bad("unknown right-hand side " + rhs)
            pnames = [a.arg for a in fd.args.args][2:]
            if len(pnames) != len(got):
                self.bad(f"{rhs}: {len(got)} arguments handed over, {len(pnames)} expected")
            tys, terms = [], []
            for pn, g in zip(pnames, got):
                g = self.val(g)
                if g.kind not in ("S", "N", "V", "MX", "D", "DD"):
                    self.bad(f"{rhs}: argument {pn} of kind {g.kind}")
                tys.append(f"({pn} : {TY[g.kind]})")
                terms.append(f"({g.term})")
            lean = "rhs" + rhs.rstrip("_")
            self.extra.append((lean, " → ".join(tys + ["Gen.V", "Gen.V"])))
            rhs_term = f"(fun st => {lean} {' '.join(terms)} st)"
        self.names.add("x0_")
        self.emit(f"let x0_ : Gen.V := {x0.term}")
        nm = self.fresh(target)
        self.names.add(nm + "_n")
        solver = "odeint" if which == "integrate.odeint" else "myodeint"
        self.emit(f"let {nm} : Nat → Gen.V := {solver} {rhs_term} x0_")
        self.emit(f"let {nm}_n : Nat := x0_.n")
        self.x0 = "x0_"
        self.env[target] = Val("X", nm, n=f"{nm}_n")

    # ---------------------------------------------------------------- return
    def out_of(self, v, e):
        v = self.val(v) if v.kind.startswith("O") else v
        if v.kind == "T":
            return f"Out.s (fun i => {v.at('i')})"
        if v.kind == "M":
            return f"Out.m ({v.cols}) (fun i => {v.row('i')})"
        if v.kind == "C":
            return f"Out.c ({v.a}) ({v.b}) (fun i => {v.row('i')})"
        if v.kind == "V":
            return f"Out.v {v.term}"
        if v.kind == "DS":
            return f"Out.d {v.term}"
        if v.kind == "DL":
            return f"Out.dl {v.term}"
        self.bad("returned value of kind " + v.kind, e)

    def ret(self, st):
        if isinstance(st.value, ast.Call) and is_name(st.value.func) and st.value.func.id in SIGS:
            return self.forward(st.value)
        if not isinstance(st.value, ast.Tuple):
            self.bad("return", st)
        items = [self.out_of(self.ex(x), x) for x in st.value.elts]
        self.emit(f"return ({self.x0 or 'PyGlue2.V0'}, [" + ", ".join(items) + "])" + ("" if self.x0 else "   -- no solver call"))

    def forward(self, call):
        callee = call.func.id
        cfd = self.tr.fns.get(callee)
        if cfd is None or callee not in self.tr.done:
            self.bad(f"call of {callee}, which is not translated (before this function)")
        csig = [p.split(":") for p in SIGS[callee].split()]
        pnames = [a.arg for a in cfd.args.args]
        defaults = dict(zip(pnames[len(pnames) - len(cfd.args.defaults):], cfd.args.defaults))
        if len(call.args) > len(pnames):
            self.bad("too many arguments", call)
        actual = dict(zip(pnames, call.args))
        for k in call.keywords:
            if k.arg is None or k.arg not in pnames or k.arg in actual:
                self.bad("keyword " + str(k.arg), call)
            actual[k.arg] = k.value
        terms = []
        for pn, pk in csig:
            a = actual.get(pn)
            if pk == "G":
                if a is None or self.ex(a).kind != "G":
                    self.bad(f"{callee}: the graph must be handed on", call)
                terms.append("GN nbrs tr rr")
                continue
            if pk == "R":
                # tau, gamma, transmission_weight, recovery_weight determine tr, rr: they must be handed on unchanged
                if a is None or not is_name(a, pn) or self.env.get(pn) is None or self.env[pn].kind != "R":
                    self.bad(f"{callee}: {pn} must be handed on unchanged", call)
                continue
            if a is None:
                if pn not in defaults:
                    self.bad(f"{callee}: missing argument {pn}", call)
                v = self.ex(defaults[pn])
            else:
                v = self.ex(a)
            terms.append(self.coerce(v, pk, f"{callee}: argument {pn}"))
        args_ = " ".join(terms)
        ex_ = "".join(f" {nm}" for nm, _ in self.tr.extras.get(callee, []))
        for nm, ty in self.tr.extras.get(callee, []):
            if (nm, ty) not in self.extra:
                self.extra.append((nm, ty))
        self.emit(f"let res_ ← {callee} odeint myodeint{ex_} {args_}")
        self.emit("return res_")

    def coerce(self, v, pk, what):
        if v.kind == "NONE" and pk.startswith("O"):
            return "none"
        if v.kind == pk:
            return f"({v.term})"
        if pk.startswith("O") and v.kind == pk[1:]:
            return f"(some {v.term})"
        if pk == "S" and v.kind in ("N", "I"):
            return self.as_rat(v)
        if pk == "N" and v.kind == "S" and v.intlit is not None and v.intlit >= 0:
            return str(v.intlit)
        if pk == "I" and v.kind == "S" and v.intlit is not None:
            return f"({v.intlit} : Int)"
        raise Unsupported(f"{what} of kind {v.kind}, expected {pk}")

    # ---------------------------------------------------------------- whole function
    def translate(self):
        got = [a.arg for a in self.node.args.args]
        if got != [p for p, _ in self.params] or self.node.args.vararg or self.node.args.kwarg or self.node.args.kwonlyargs:
            raise Unsupported(f"signature changed: {got}")
        assigned = set()
        for n in ast.walk(self.node):
            if isinstance(n, ast.Name) and isinstance(n.ctx, ast.Store):
                assigned.add(n.id)
            if isinstance(n, ast.Attribute) and isinstance(n.ctx, ast.Store) and is_name(n.value):
                assigned.add(n.value.id)
        binders = []
        for p, k in self.params:
            self.names.add(p)
        for p, k in self.params:
            if k == "G":
                self.env[p] = Val("G", "G")
                continue
            if k == "R":
                self.env[p] = Val("R", p)
                continue
            lp = RESERVED.get(p, p)
            self.names.add(lp)
            binders.append(f"({lp} : {TY[k]})")
            self.env[p] = Val(k, lp)
            if p in assigned and k in MUTABLE:
                self.emit(f"let mut {lp} := {lp}")
                self.env[p].mut = True
        for s in self.node.body:
            self.stmt(s)
        last = self.node.body[-1]
        if not isinstance(last, (ast.Return, ast.If)):
            raise Unsupported("the function does not end in a return")
        extra = "".join(f" ({nm} : {ty})" for nm, ty in self.extra)
        head = (f"/-- generated from `{self.name}` (EoN/analytic.py:{self.node.lineno}) -/\n"
                f"def {self.name} (odeint myodeint : {ODE_TY}){extra}{(' ' + GRAPH_BINDERS) if self.has_graph else ''} {' '.join(binders)} :\n"
                f"    Except String (Gen.V × List Out) := do\n")
        return head + "\n".join(self.out) + "\n"


HEADER = '''import EoNVerif.Gen.Analytic
import EoNVerif.Gen.AnalyticLoops
import EoNVerif.Gen.PyGlue2
/-!
GENERATED by harness/pyglue3lean.py from the ODE entry points of EoN/analytic.py — do not edit; regenerated on every
check run.   source sha1: {sha}
Result of every function: (the initial state handed to the solver, the returned arrays).
-/
set_option linter.unusedVariables false
namespace GenGlue2
open PyGlue2

'''


class Translator:
    def __init__(self, repo=REPO):
        src = open(os.path.join(repo, "EoN", "analytic.py")).read()
        tree = ast.parse(src)
        self.fns = {n.name: n for n in tree.body if isinstance(n, ast.FunctionDef)}
        self.done, self.extras = set(), {}

    def run(self, only=None):
        errors, parts, srcs = {}, [], []
        order = sorted((n for n in SIGS if n in self.fns), key=lambda n: self.fns[n].lineno)
        for name in SIGS:
            if name not in self.fns:
                errors[name] = "function not found"
        for name in order:
            if only and name not in only:
                continue
            try:
                fn = FnB(self.fns[name], SIGS[name], self)
                text = fn.translate()
                self.done.add(name)
                self.extras[name] = fn.extra
                parts.append(text)
                srcs.append(ast.unparse(self.fns[name]))
            except (Unsupported, py2lean_loops.Unsupported) as ex:
                errors[name] = f"unsupported: {name}: {ex}"
        sha = hashlib.sha1("\n".join(srcs).encode()).hexdigest()
        return HEADER.format(sha=sha) + "\n".join(parts) + "\nend GenGlue2\n", errors


class FnB(Fn):
    """priority-B constructs: dicts keyed by degree (association lists in insertion order; `d[k]` on a missing key is
    KeyError), Python lists (`append`, `extend`, `[-1]`), `for` loops over keys / `enumerate` / `range`, dict and list
    comprehensions (`List.mapM`, so that a failing look-up inside is the exception it is in Python), `sum(…)` of one"""

    def ex(self, e):
        if isinstance(e, ast.List):
            vals = [self.val(self.ex(x)) for x in e.elts]
            if vals and all(v.kind == "I" for v in vals):
                return Val("LI", "[" + ", ".join(v.term for v in vals) + "]")
            return Val("L", "[" + ", ".join(self.as_rat(v) for v in vals) + "]")
        return super().ex(e)

    def binop(self, sym, a, b, src):
        a2, b2 = self.val(a), self.val(b)
        if sym == "-" and a2.kind == "N" and (b2.kind == "N" or b2.intlit is not None):
            y = f"(({b2.term} : Nat) : Int)" if b2.kind == "N" else f"({b2.intlit} : Int)"
            return Val("I", f"((({a2.term} : Nat) : Int) - {y})")
        return super().binop(sym, a2, b2, src)

    def power(self, a, b, src):
        a, b = self.val(a), self.val(b)
        if a.kind == "S" and b.kind == "I":
            return Val("S", self.hoist_m(f"PyGlue2.zpowE {a.term} {b.term}", "Rat"))
        return super().power(a, b, src)

    def dict_get(self, d, key, e):
        key = self.val(key)
        if key.kind != "N":
            self.bad("dict key of kind " + key.kind, e)
        if d.kind == "D":
            return Val("S", self.hoist_m(f"PyGlue2.dGet {d.term} {key.term}", "Rat"))
        if d.kind == "DD":
            return Val("D", self.hoist_m(f"PyGlue2.dGet {d.term} {key.term}", TY["D"]))
        if d.kind == "DL":
            return Val("L", self.hoist_m(f"PyGlue2.dGet {d.term} {key.term}", TY["L"]))
        if d.kind == "DS":
            nm = self.hoist_m(f"PyGlue2.dGet {d.term} {key.term}", "Nat → Rat")
            return Val("T", at=lambda i: f"({nm} {i})")
        self.bad("look-up in kind " + d.kind, e)

    def keys_of(self, it):
        """the list iterated by `for k in …` / a comprehension: keys of a dict"""
        v = self.ex(it)
        if v.kind == "KEYS":
            return v.term
        if v.kind in ("D", "DD", "DL", "DS"):
            return f"({v.term}.map (·.1))"
        self.bad("iteration over kind " + v.kind, it)

    def lam(self, var, kind, build):
        """translate a comprehension body as the `do` block of a lambda; returns (lean var, body lines, result of build)"""
        saved = self.env.get(var)
        lv = self.fresh(var)
        self.env[var] = Val(kind, lv)
        saved_out, saved_ind, saved_depth = self.out, self.ind, self.depth
        self.out, self.ind, self.depth = [], self.ind + "    ", self.depth + 1
        try:
            res = build()
            lines = self.out
        finally:
            self.out, self.ind, self.depth = saved_out, saved_ind, saved_depth
            if saved is None:
                self.env.pop(var, None)
            else:
                self.env[var] = saved
        return lv, lines, res

    def comp(self, c, key=None):
        """[elt for k in keys] / {k: elt for k in keys}: the list of values (a monadic map)"""
        if len(c.generators) != 1 or c.generators[0].ifs or not is_name(c.generators[0].target):
            self.bad("comprehension", c)
        g = c.generators[0]
        keys = self.keys_of(g.iter)
        var = g.target.id
        if key is not None and not is_name(key, var):
            self.bad("dict comprehension whose key is not the loop variable", c)
        elt = c.value if isinstance(c, ast.DictComp) else c.elt
        lv, lines, v = self.lam(var, "N", lambda: self.val(self.ex(elt)))
        if v.kind in ("S", "N"):
            kind, ty, term = "S", "Rat", self.as_rat(v)
        elif v.kind == "L":
            kind, ty, term = "L", TY["L"], v.term
        elif v.kind == "T":
            kind, ty, term = "T", "Nat → Rat", f"(fun i => {v.at('i')})"
        else:
            self.bad("comprehension element of kind " + v.kind, c)
        if key is not None:
            ty, term = f"Nat × ({ty})", f"({lv}, {term})"
        nm = self.tmp("l")
        self.emit(f"let {nm} : List ({ty}) ← ({keys}).mapM (fun {lv} => do")
        self.out += lines
        self.emit(f"    pure {term})")
        return kind, nm

    def call(self, e):
        f = dotted(e.func)
        if f == "sum" and len(e.args) == 1 and isinstance(e.args[0], (ast.ListComp, ast.GeneratorExp)):
            kind, nm = self.comp(e.args[0])
            if kind == "S":
                return Val("S", f"(sumRat {nm})")
            if kind == "T":
                return Val("T", at=lambda i: f"(sumRat ({nm}.map fun f => f {i}))")
            self.bad("sum of a comprehension of kind " + kind, e)
        if f == "range" and len(e.args) == 2:
            a, b = self.val(self.ex(e.args[0])), self.val(self.ex(e.args[1]))
            if a.kind == "I" and b.kind == "I":
                return Val("IRANGE", f"(PyGlue2.irange {a.term} {b.term})")
        return super().call(e)

    def dictcomp_b(self, name, dc):
        kind, nm = self.comp(dc, key=dc.key)
        dk = {"S": "D", "L": "DL", "T": "DS"}[kind]
        self.assign(name, Val(dk, nm), dc)

    def declare_dict(self, name, kind):
        nm = self.fresh(name)
        line = f"let mut {nm} : {TY[kind]} := []"
        if self.depth > 0:
            self.pending.append(line)
        else:
            self.emit(line)
        self.env[name] = Val(kind, nm, mut=True)
        return self.env[name]

    def stmt(self, st, nxt=None):
        if isinstance(st, ast.Assign) and len(st.targets) == 1 and isinstance(st.targets[0], ast.Subscript) and is_name(st.targets[0].value):
            name = st.targets[0].value.id
            d = self.env.get(name)
            if d is not None and d.kind in ("IDX0", "D", "DS", "DL"):
                key = self.val(self.ex(st.targets[0].slice))
                v = self.val(self.ex(st.value))
                if key.kind != "N":
                    self.bad("dict key of kind " + key.kind, st)
                want = {"S": "D", "N": "D", "T": "DS", "L": "DL"}.get(v.kind)
                if want is None:
                    self.bad("dict value of kind " + v.kind, st)
                if d.kind == "IDX0":
                    d = self.declare_dict(name, want)
                if d.kind != want or not getattr(d, "mut", False):
                    self.bad(f"dict {name} of kind {d.kind} gets a value of kind {v.kind}", st)
                term = f"(fun i => {v.at('i')})" if v.kind == "T" else (self.as_rat(v) if want == "D" else v.term)
                self.emit(f"{d.term} := PyGlue2.dSet {d.term} {key.term} {term}")
                return
        if isinstance(st, ast.Expr) and isinstance(st.value, ast.Call) and isinstance(st.value.func, ast.Attribute) \
                and st.value.func.attr in ("append", "extend") and len(st.value.args) == 1 and not st.value.keywords:
            tgt, arg, m = st.value.func.value, st.value.args[0], st.value.func.attr
            if is_name(tgt):
                l = self.env.get(tgt.id)
                if l is not None and l.kind in ("L", "LI") and getattr(l, "mut", False):
                    v = self.val(self.ex(arg))
                    if m == "extend":
                        if v.kind != l.kind:
                            self.bad(f"extend of a list of kind {l.kind} by kind {v.kind}", st)
                        self.emit(f"{l.term} := {l.term} ++ {v.term}")
                    else:
                        x = v.term if (l.kind == "LI" and v.kind == "I") else (self.as_rat(v) if l.kind == "L" else None)
                        if x is None:
                            self.bad(f"append of kind {v.kind} to a list of kind {l.kind}", st)
                        self.emit(f"{l.term} := {l.term} ++ [{x}]")
                    return
            if m == "append" and isinstance(tgt, ast.Subscript) and is_name(tgt.value):
                d = self.env.get(tgt.value.id)
                if d is not None and d.kind == "DL" and getattr(d, "mut", False):
                    key, v = self.val(self.ex(tgt.slice)), self.val(self.ex(arg))
                    if key.kind != "N":
                        self.bad("dict key of kind " + key.kind, st)
                    self.emit(f"{d.term} ← PyGlue2.dlAppend {d.term} {key.term} {self.as_rat(v)}")
                    return
        return super().stmt(st, nxt)

    def forloop_b(self, st):
        if st.orelse:
            self.bad("for … else", st)
        t, it = st.target, st.iter
        top = self.depth == 0
        if top:
            self.pending = []
            mark = len(self.out)
        binds = []
        if isinstance(t, ast.Tuple) and len(t.elts) == 2 and all(is_name(x) for x in t.elts) and isinstance(it, ast.Call) \
                and dotted(it.func) == "enumerate" and len(it.args) == 1 and not it.keywords:
            keys = self.keys_of(it.args[0])
            li, lk = self.fresh(t.elts[0].id), self.fresh(t.elts[1].id)
            binds = [(t.elts[0].id, Val("N", li)), (t.elts[1].id, Val("N", lk))]
            head = f"for ({li}, {lk}) in PyGlue2.enum {keys} do"
        elif is_name(t):
            v = self.ex(it)
            lv = self.fresh(t.id)
            if v.kind == "IRANGE":
                binds = [(t.id, Val("I", lv))]
                head = f"for {lv} in {v.term} do"
            else:
                binds = [(t.id, Val("N", lv))]
                head = f"for {lv} in {self.keys_of(it)} do"
        else:
            self.bad("for loop", st)
        self.emit(head)
        saved = {n: self.env.get(n) for n, _ in binds}
        for n, v in binds:
            self.env[n] = v
        self.block(st.body)
        for n, _ in binds:
            if saved[n] is None:
                self.env.pop(n, None)
            else:
                self.env[n] = saved[n]
        if top and self.pending:
            self.out[mark:mark] = [self.ind + p for p in self.pending]
            self.pending = []


def translate(repo=None, only=None):
    import warnings
    with warnings.catch_warnings():
        warnings.simplefilter("ignore")
        return Translator(repo or os.environ.get("EON_REPO", "/repo")).run(only)


TARGET = os.path.join(os.path.dirname(os.path.abspath(__file__)), "..", "lean", "EoNVerif", "Gen", "OdeGlue2.lean")


def regenerate():
    text, errors = translate()
    old = open(TARGET).read() if os.path.exists(TARGET) else None
    if text and not errors and old != text:
        tmp = TARGET + ".tmp%d" % os.getpid()
        with open(tmp, "w") as f:
            f.write(text)
        os.replace(tmp, TARGET)
    return (old != text and not errors), errors


def main():
    if len(sys.argv) > 1 and sys.argv[1] == "--print":
        text, errors = translate(only=set(sys.argv[2:]) or None)
        print(text)
        for n, e in errors.items():
            print(f"pyglue3lean: {n}: {e}", file=sys.stderr)
        return 1 if errors else 0
    changed, errors = regenerate()
    print("pyglue3lean: Gen/OdeGlue2.lean %s" % ("rewritten" if changed else "up to date"))
    for n, e in errors.items():
        print(f"pyglue3lean: {n}: {e}")
    return 1 if errors else 0


if __name__ == "__main__":
    sys.exit(main())
