"""Model specifications for Gillespie_simple_contagion (spontaneous / induced transition graphs) and
Gillespie_complex_contagion (rate function, chooser, influence set) as json-able cases."""
from fractions import Fraction as F
import networkx as nx
import rng as rngmod
from common import rs

R = [F(1, 4), F(1, 2), F(1), F(2)]


def library(rng):
    r = lambda: str(rng.choice(R))
    lib = {
        "SIS": (["S", "I"], [["I", "S", r()]], [[["I", "S"], ["I", "I"], r()]]),
        "SIR": (["S", "I", "R"], [["I", "R", r()]], [[["I", "S"], ["I", "I"], r()]]),
        "SI": (["S", "I"], [], [[["I", "S"], ["I", "I"], r()]]),
        "SEIR": (["S", "E", "I", "R"], [["E", "I", r()], ["I", "R", r()]], [[["I", "S"], ["I", "E"], r()]]),
        "SIRS": (["S", "I", "R"], [["I", "R", r()], ["R", "S", r()]], [[["I", "S"], ["I", "I"], r()]]),
        "vacc": (["S", "I", "R", "V"], [["I", "R", r()], ["S", "V", r()]], [[["I", "S"], ["I", "I"], r()]]),
        "compete": (["S", "A", "B"], [["A", "S", r()], ["B", "S", r()]],
                    [[["A", "S"], ["A", "A"], r()], [["B", "S"], ["B", "B"], r()], [["A", "B"], ["A", "A"], r()]]),
        "coop": (["SS", "IS", "SI", "II", "RS", "SR"], [["IS", "RS", r()], ["SI", "SR", r()]],
                 [[["IS", "SS"], ["IS", "IS"], r()], [["SI", "SS"], ["SI", "SI"], r()], [["IS", "SI"], ["IS", "II"], r()],
                  [["SI", "IS"], ["SI", "II"], r()], [["II", "SS"], ["II", "IS"], r()]]),
        "spont-only": (["A", "B", "C"], [["A", "B", r()], ["B", "C", r()], ["C", "A", r()]], []),
        # legal specifications with edges that keep the changing node's status (an event that is logged but changes
        # nothing: re-exposure of a recovered node, an 'I'->'I' renewal): the counts must simply repeat
        "SIR+reexposure": (["S", "I", "R"], [["I", "R", r()]], [[["I", "S"], ["I", "I"], r()], [["I", "R"], ["I", "R"], r()]]),
        "SIS+renewal": (["S", "I"], [["I", "S", r()], ["I", "I", r()]], [[["I", "S"], ["I", "I"], r()]]),
        # a status that nothing leaves spontaneously (so it is not a node of the spontaneous graph) and whose NAME is an
        # iterable of other statuses: the co-infected class 'AB' of a two-strain model; `None` as a status name
        "two-strain": (["S", "A", "B", "AB"], [["A", "S", r()], ["B", "S", r()]],
                       [[["A", "S"], ["A", "A"], r()], [["B", "S"], ["B", "B"], r()], [["A", "B"], ["A", "AB"], r()], [["B", "A"], ["B", "AB"], r()]]),
        "two-strain-induced-only": (["S", "A", "B", "AB"], [["A", "B", r()]],
                                    [[["AB", "S"], ["AB", "A"], r()], [["A", "S"], ["A", "A"], r()]]),
    }
    return lib


def random_spec(rng):
    sts = ["a", "b", "c", "d"][: rng.randint(2, 4)]
    spont, ind = [], []
    for x in sts:
        for y in sts:
            if (x != y and rng.random() < 0.25) or (x == y and rng.random() < 0.06):
                spont.append([x, y, str(rng.choice(R))])
    for x in sts:
        for y in sts:
            for z in sts:
                if (y != z and rng.random() < 0.15) or (y == z and rng.random() < 0.04):
                    ind.append([[x, y], [x, z], str(rng.choice(R))])
    return sts, spont, ind


def fill_case(rng, c, sim):
    n = c["n"]
    c["tmin"] = str(rng.choice([F(0), F(0), F(1), F(-1, 2), F(16384)]))
    c["tmax"] = str(F(c["tmin"]) + rng.choice([F(1, 2), 2, 4, 8]))
    if sim == "Gillespie_simple_contagion":
        if rng.random() < 0.7:
            name = rng.choice(sorted(library(rng)))
            sts, spont, ind = library(rng)[name]
        else:
            name = "random"
            sts, spont, ind = random_spec(rng)
        c["spec"] = name
        c["statuses"] = sts
        # weight modes: None | "label" | "fn"
        c["spont"] = [s + [rng.choice([None, None, "label", "fn"])] for s in spont]
        c["induced"] = [s + [rng.choice([None, None, "label", "fn"])] for s in ind]
        w = [F(1, 4), F(1, 2), F(1), F(2), F(3)]
        if rng.random() < 0.35:
            # weight 0 is a weight: a node / edge on which a weighted transition is switched off (rate * weight = 0)
            w = w + [F(0), F(0)]
            c["zero_weights"] = True
        c["nodew"] = [str(rng.choice(w)) for _ in range(n)]
        c["edgew"] = [str(rng.choice(w)) for _ in c["edges"]]           # edge attribute (weight_label) and rate function, stored orientation
        c["edgew_rev"] = [str(rng.choice(w)) for _ in c["edges"]]       # rate function in the opposite orientation (may be asymmetric)
        c["IC"] = [rng.choice(sts) for _ in range(n)]
        k = rng.randint(1, len(sts))
        c["return_statuses"] = sts[:k] if rng.random() < 0.7 else rng.sample(sts, k)
    else:
        fam = rng.choice(["sir", "threshold", "sis", "twohop", "sei", "sei"])
        c["family"] = fam
        c["tau"] = str(rng.choice(R))
        c["gamma"] = str(rng.choice(R + [F(0)]))
        c["k"] = rng.randint(1, 2)
        # what kind of iterable the user's influence-set function returns (same nodes, same order)
        c["infl_kind"] = rng.choice(["list", "tuple", "iter", "generator", "list"])
        sts = ["S", "I", "R"] if fam in ("sir", "threshold", "twohop", "sei", "lazy") else ["S", "I"]
        c["statuses"] = sts
        c["IC"] = [rng.choice(["S", "S", "I"] + (["R"] if "R" in sts and rng.random() < 0.3 else [])) for _ in range(n)]
        c["return_statuses"] = sts if rng.random() < 0.7 else sts[: rng.randint(1, len(sts))]
    # for the generic predicates
    c["init"] = dict(kind="IC")
    c["recs"] = []


def spec_graphs(case):
    H = nx.DiGraph()
    J = nx.DiGraph()
    for a, b, r, mode in case["spont"]:
        H.add_edge(a, b, rate=float(F(r)))
    for (a, b), (c_, d), r, mode in case["induced"]:
        J.add_edge((a, b), (c_, d), rate=float(F(r)))
    return H, J


def rf_node(G_, node):
    """user rate function of a spontaneous transition: reads the node attribute (same function object in every call)"""
    return G_.nodes[node]["nw"]


def rf_edge(G_, source, target):
    """user rate function of an induced transition: reads the per-ordered-pair value stored on the edge"""
    return G_.adj[source][target]["rfw"][(source, target)]


def prepare_graph(case, G, lab):
    """attach the node / edge weight attributes the specification refers to (harness-side set-up, idempotent)"""
    li = {lab(i): i for i in range(case["n"])}
    for u in G:
        G.nodes[u]["nw"] = float(F(case["nodew"][li[u]]))
    ew = {}
    rev = case.get("edgew_rev") or case["edgew"]
    for (u, v), w, wr in zip(case["edges"], case["edgew"], rev):
        G.edges[lab(u), lab(v)]["ew"] = float(F(w))
        ew[(u, v)] = float(F(w))
        rfw = {(lab(u), lab(v)): float(F(w))}
        if not case.get("directed"):
            ew[(v, u)] = float(F(wr))        # value of the user's rate function for the opposite ordered pair
            rfw[(lab(v), lab(u))] = float(F(wr))
        G.edges[lab(u), lab(v)]["rfw"] = rfw
    return ew


def call(case, G, lab, tr, full):
    import EoN
    li = {lab(i): i for i in range(case["n"])}
    IC = {lab(i): case["IC"][i] for i in range(case["n"])}
    kw = dict(tmin=float(F(case["tmin"])), tmax=float(F(case["tmax"])), return_full_data=full)
    if case["sim"] == "Gillespie_simple_contagion":
        H, J = spec_graphs(case)
        if not case.get("_keep_attrs"):          # (the warm-up call of `allsims.prewarm` runs on perturbed attributes)
            prepare_graph(case, G, lab)
        for a, b, r, mode in case["spont"]:
            if mode == "label":
                H.edges[a, b]["weight_label"] = "nw"
            elif mode == "fn":
                H.edges[a, b]["rate_function"] = rf_node
        for (a, b), (c_, d), r, mode in case["induced"]:
            if mode == "label":
                J.edges[(a, b), (c_, d)]["weight_label"] = "ew"
            elif mode == "fn":
                J.edges[(a, b), (c_, d)]["rate_function"] = rf_edge
        with rngmod.scripted(tr):
            return EoN.Gillespie_simple_contagion(G, H, J, IC, case["return_statuses"], **kw)
    else:
        fam, tau, gamma, k = case["family"], float(F(case["tau"])), float(F(case["gamma"])), case["k"]
        calls = case.setdefault("_calls", [])
        order = {u: i for i, u in enumerate(G)}

        def ninf(G_, u, status):
            if fam == "twohop":
                near = set(G_.neighbors(u))
                for v in list(near):
                    near |= set(G_.neighbors(v))
                near.discard(u)
                return sum(1 for v in near if status[v] == "I")
            return sum(1 for v in G_.neighbors(u) if status[v] == "I")

        def rate_function(G_, node, status, parameters):
            calls.append(("rate", order[node], tuple(status[u] for u in G_)))
            s = status[node]
            if fam == "sei":      # 'I' = exposed (not infectious), 'R' = infectious and absorbing
                if s == "S":
                    return tau * sum(1 for v in G_.neighbors(node) if status[v] == "R")
                return gamma if s == "I" else 0
            if s == "I":
                return gamma
            if s == "S":
                m = ninf(G_, node, status)
                if fam == "threshold":
                    return tau if m >= k else 0
                return tau * m
            return 0

        def transition_choice(G_, node, status, parameters):
            s = status[node]
            if s == "S":
                if fam == "lazy" and ninf(G_, node, status) < k:
                    return "S"           # null event: the chooser answers the current status
                return "I"
            if s == "I":
                return "S" if fam == "sis" else "R"
            raise RuntimeError("chooser asked about a node with rate 0")

        def get_influence_set(G_, node, status, parameters):
            out = influence_list(G_, node, status)
            kind = case.get("infl_kind", "list")
            if kind == "tuple":
                return tuple(out)
            if kind == "iter":
                return iter(out)                  # one-shot iterator, like `G.neighbors(node)` (docstring's suggestion)
            if kind == "generator":
                return (x for x in out)
            return out

        def influence_list(G_, node, status):
            if fam == "sei":      # only a node that has just become infectious ('R') changes its neighbours' rates
                return sorted(G_.neighbors(node), key=lambda x: order[x]) if status[node] == "R" else []
            if fam == "twohop":
                near = set(G_.neighbors(node))
                for v in list(near):
                    near |= set(G_.neighbors(v))
                near.discard(node)
                return sorted(near, key=lambda x: order[x])
            return sorted(G_.neighbors(node), key=lambda x: order[x])

        with rngmod.scripted(tr):
            return EoN.Gillespie_complex_contagion(G, rate_function, transition_choice, get_influence_set, IC,
                                                   case["return_statuses"], **kw)
