import EoNVerif.Proofs.Perc
/-!
C17 — target statements for the percolation estimators (`WF`, `Path` and the helper lemmas live in
`EoNVerif.Proofs.Perc`).
-/
namespace Perc

/-- the fixed-point iteration computes graph reachability -/
theorem reach_spec (nodes : List Node) (succ : Node → List Node) (h : WF nodes succ) (u v : Node)
    (hu : u ∈ nodes) : reach nodes succ u v = true ↔ Path succ u v :=
  reach_iff_path h hu v

/-- **representative independence**: nodes of one strongly connected component have the same in-component and
the same out-component, so the estimator's answer does not depend on which node `list(Hscc)[0]` happens to be -/
theorem inC_indep (nodes : List Node) (succ : Node → List Node) (h : WF nodes succ) (u v : Node)
    (hu : u ∈ nodes) (hv : v ∈ nodes) (huv : v ∈ scc nodes succ u) : inC nodes succ u = inC nodes succ v := by
  obtain ⟨_, h1, h2⟩ := mem_scc.1 huv
  have p1 := (reach_iff_path h hu v).1 h1
  have p2 := (reach_iff_path h hv u).1 h2
  unfold inC
  apply List.filter_congr
  intro x hx
  rw [Bool.eq_iff_iff, reach_iff_path h hx, reach_iff_path h hx]
  exact ⟨fun p => p.trans p1, fun p => p.trans p2⟩

theorem outC_indep (nodes : List Node) (succ : Node → List Node) (h : WF nodes succ) (u v : Node)
    (hu : u ∈ nodes) (hv : v ∈ nodes) (huv : v ∈ scc nodes succ u) : outC nodes succ u = outC nodes succ v := by
  obtain ⟨_, h1, h2⟩ := mem_scc.1 huv
  have p1 := (reach_iff_path h hu v).1 h1
  have p2 := (reach_iff_path h hv u).1 h2
  unfold outC
  apply List.filter_congr
  intro x _
  rw [Bool.eq_iff_iff, reach_iff_path h hu, reach_iff_path h hv]
  exact ⟨fun p => p2.trans p, fun p => p1.trans p⟩

/-- both outputs are fractions in [0,1]; the component contains its representative -/
theorem PE_AR_bounds (nodes : List Node) (succ : Node → List Node) (h : WF nodes succ) (hne : nodes ≠ []) :
    ∀ p ∈ allowed nodes succ, 0 < p.1 ∧ p.1 ≤ 1 ∧ 0 < p.2 ∧ p.2 ≤ 1 := by
  intro p hp
  unfold allowed at hp
  obtain ⟨u, hu, rfl⟩ := List.mem_map.1 hp
  have hu' : u ∈ nodes := (List.mem_filter.1 hu).1
  obtain ⟨a1, a2⟩ := inC_length_bounds h hu'
  obtain ⟨b1, b2⟩ := outC_length_bounds h hu'
  obtain ⟨c1, c2⟩ := frac_bounds a1 a2
  obtain ⟨d1, d2⟩ := frac_bounds b1 b2
  exact ⟨c1, c2, d1, d2⟩

/-- the strongly connected component is contained in both the in- and the out-component -/
theorem scc_sub (nodes : List Node) (succ : Node → List Node) (u w : Node) (hw : w ∈ scc nodes succ u) :
    w ∈ inC nodes succ u ∧ w ∈ outC nodes succ u := by
  obtain ⟨h0, h1, h2⟩ := mem_scc.1 hw
  exact ⟨mem_inC.2 ⟨h0, h2⟩, mem_outC.2 ⟨h0, h1⟩⟩

/-- undirected (symmetric) graphs: in-component = out-component = the connected component, so
`estimate_SIR_prob_size` reports the same largest-component fraction for both outputs -/
theorem undirected_size_eq (nodes : List Node) (succ : Node → List Node) (h : WF nodes succ)
    (hs : ∀ u v, v ∈ succ u → u ∈ succ v) (u : Node) (hu : u ∈ nodes) :
    inC nodes succ u = outC nodes succ u ∧ scc nodes succ u = outC nodes succ u := by
  have key : ∀ x ∈ nodes, reach nodes succ x u = reach nodes succ u x := by
    intro x hx
    rw [Bool.eq_iff_iff, reach_iff_path h hx, reach_iff_path h hu]
    exact ⟨Path.symm hs, Path.symm hs⟩
  constructor
  · unfold inC outC
    exact List.filter_congr key
  · unfold scc outC
    apply List.filter_congr
    intro x hx
    rw [key x hx, Bool.and_self]

/-- the percolated graph has an edge `u → v` exactly when `v` is a neighbour of `u` and the rule says `u` would
transmit to `v` (same node set by construction: it is a successor function over the same nodes) -/
theorem percolated_edge_iff_rule (nbrs : Node → List Node) (rule : Node → Node → Bool) (u v : Node) :
    v ∈ percolate nbrs rule u ↔ (v ∈ nbrs u ∧ rule u v = true) := by
  unfold percolate; exact List.mem_filter

end Perc

/-! non-vacuity: two 2-cycles joined one way – two largest components with different answers -/
def exSucc (u : Node) : List Node := match u with | 0 => [1] | 1 => [0, 2] | 2 => [3] | 3 => [2] | _ => []
example : Perc.allowed [0, 1, 2, 3] exSucc = [(1 / 2, 1), (1 / 2, 1), (1, 1 / 2), (1, 1 / 2)] := by decide +kernel
