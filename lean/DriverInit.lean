import Driver
import EoNVerif.Gen.InitCondGen
open Lean Drv

/-! JSON-lines driver for the code GENERATED from the initial-condition builders of EoN/analytic.py
(Gen/InitCondGen.lean). -/
namespace DrvGenInit
open GenInit

def jE {α : Type} (f : α → Json) (r : Except String α) : Json :=
  match r with
  | .ok a => Json.mkObj [("ok", Json.bool true), ("val", f a)]
  | .error e => Json.mkObj [("ok", Json.bool false), ("err", Json.str e)]

def run (j : Json) : Except String Json := do
  let n ← getNat (← fld j "n")
  let degs ← getList getNat (← fld j "deg")
  let edges ← getList (fun e => do
    match ← getArr e with
    | [u, v] => pure ((← getNat u), (← getNat v))
    | _ => .error "bad edge") (← fld j "edges")
  let infs ← getList getNat (← fld j "infs")
  let recs ← getList getNat (← fld j "recs")
  let rho ← getRat (← fld j "rho")
  -- nodes outside 0..n-1 in infs / recs model "not in G"
  let A : IArgs := { nodes := List.range n, edges := edges, degree := listFn degs 0, hasNode := fun u => decide (u < n) }
  let st := initialize_node_status A infs recs
  let ce := count_edge_types A infs recs
  let nk := get_Nk_and_IC_sets A infs recs
  let (a, b, c, d) := get_Nk_and_IC_rho A rho
  pure (Json.mkObj [
    ("status", jE (fun f => jArr (fun u => jSt (f u)) (List.range n)) st),
    ("edges", jE (fun (t : Int × Int × Int) => jArr jInt [t.1, t.2.1, t.2.2]) ce),
    ("sets", jE (fun (t : List Rat × List Rat × List Rat × List Rat) => jArr (jArr jRat) [t.1, t.2.1, t.2.2.1, t.2.2.2]) nk),
    ("rho", jArr (jArr jRat) [a, b, c, d])])

def handle (line : String) : String :=
  match Json.parse line with
  | .ok j => match run j with
    | .ok r => r.compress
    | .error e => (errObj ("driverinit:" ++ e)).compress
  | .error e => (errObj ("parse:" ++ e)).compress
end DrvGenInit
