import Driver
import EoNVerif.Gen.ArgsGen
open Lean Drv

/-! JSON-lines driver for the code GENERATED from the argument normalisation of the simulators (Gen/ArgsGen.lean). -/
namespace DrvGenArgs
open PyPM PyArgs GenArgs

def getSrc (j : Json) (k : String) : Except String (Option Src) :=
  match fldOpt j k with
  | some .null => pure none
  | none => pure none
  | some (Json.arr a) => do let l ← a.toList.mapM getNat; pure (some (Sum.inr l))
  | some x => do pure (some (Sum.inl (← getNat x)))

def pick (sim : String) : Except String (NArgs → Option Rat → Option Src → Option Src → TM (List Node)) :=
  match sim with
  | "discrete_SIR" => pure norm_discrete_SIR
  | "basic_discrete_SIR" => pure norm_basic_discrete_SIR
  | "percolation_based_discrete_SIR" => pure norm_percolation_based_discrete_SIR
  | "basic_discrete_SIS" => pure norm_basic_discrete_SIS
  | "fast_SIR" => pure norm_fast_SIR
  | "fast_nonMarkov_SIR" => pure norm_fast_nonMarkov_SIR
  | "fast_SIS" => pure norm_fast_SIS
  | "fast_nonMarkov_SIS" => pure norm_fast_nonMarkov_SIS
  | "Gillespie_SIR" => pure norm_Gillespie_SIR
  | "Gillespie_SIS" => pure norm_Gillespie_SIS
  | s => .error ("no normalisation generated for " ++ s)

def run (j : Json) : Except String Json := do
  let f ← pick (← getStr (← fld j "sim"))
  let n ← getNat (← fld j "n")
  let tape ← getList getDraw (← fld j "tape")
  let rho ← match fldOpt j "rho" with | some .null => pure none | none => pure none | some x => (getRat x).map some
  let infs ← getSrc j "infs"
  let recs ← getSrc j "recs"
  match f { nodes := List.range n } rho infs recs { tape := tape } with
  | .error e => pure (errObj e)
  | .ok (l, ts) => pure (Json.mkObj [("ok", Json.bool true), ("infs", jArr jNat l), ("used", jNat (tape.length - ts.tape.length)),
                                      ("trace", Json.arr (ts.trace.map jCall))])

def handle (line : String) : String :=
  match Json.parse line with
  | .ok j => match run j with
    | .ok r => r.compress
    | .error e => (errObj ("driverargs:" ++ e)).compress
  | .error e => (errObj ("parse:" ++ e)).compress
end DrvGenArgs
