import Driver
import EoNVerif.Gen.InvestGen
open Lean Drv

/-! JSON-lines driver for the code GENERATED from `Simulation_Investigation.node_status / get_statuses / summary` and
`_transform_to_node_history_` (Gen/InvestGen.lean).  Requests: the "c10" and "hist" requests of Driver.lean. -/
namespace DrvGenInv
open GenInvest

def getHist (j : Json) : Except String (List Rat × List String) := do
  let l ← getList (fun e => do
    match ← getArr e with
    | [t, s] => pure ((← getRat t), (← getStr s))
    | _ => .error "bad history entry") j
  pure (l.map (·.1), l.map (·.2))

def jHist (h : List Rat × List String) : Json :=
  Json.arr ((List.zip h.1 h.2).map fun p => Json.arr #[jRat p.1, Json.str p.2]).toArray

def run (j : Json) : Except String Json := do
  match ← getStr (← fld j "op") with
  | "hist" =>
    let tmin ← getRat (← fld j "tmin")
    if ← getBool (← fld j "sir") then
      let inf ← (match fldOpt j "inf" with | some .null => pure none | some x => (getRat x).map some | none => pure none)
      let rec_ ← (match fldOpt j "rec" with | some .null => pure none | some x => (getRat x).map some | none => pure none)
      pure (Json.mkObj [("ok", Json.bool true), ("hist", jHist (transform_sir tmin inf rec_))])
    else
      let infs ← getList getRat (← fld j "infs")
      let recs ← getList getRat (← fld j "recs")
      pure (Json.mkObj [("ok", Json.bool true), ("hist", jHist (transform_sis tmin infs recs))])
  | "subsample" =>
    let report ← getList getRat (← fld j "report")
    let times ← getList getRat (← fld j "times")
    let series ← getList (getList (fun x => x.getInt?)) (← fld j "series")
    let outs := series.map fun st => subsample report times st
    match outs.head? with
    | some (.error e) => pure (errObj e)
    | _ =>
      let res ← outs.mapM fun o => match o with
        | .ok l => pure (jArr jInt l)
        | .error e => .error e
      pure (Json.mkObj [("ok", Json.bool true), ("outs", Json.arr res.toArray)])
  | "timeshift" =>
    let times ← getList getRat (← fld j "times")
    let L ← getList getRat (← fld j "L")
    let thr ← getRat (← fld j "thr")
    match get_time_shift times L thr with
    | .ok t => pure (Json.mkObj [("ok", Json.bool true), ("t", jRat t)])
    | .error e => pure (errObj e)
  | _ =>
    let hs ← getList getHist (← fld j "hists")
    let statuses ← getList getStr (← fld j "statuses")
    let qs ← getList (fun q => do
      match ← getArr q with
      | [v, t] => pure ((← getNat v), (← getRat t))
      | _ => .error "bad query") (← fld j "queries")
    let hist : Node → List Rat × List String := fun v => hs.getD v ([], [])
    let summ := summary hist statuses (List.range hs.length)
    let answers := qs.map fun (v, t) =>
      match node_status (hist v) t, get_status_of (hist v) t with
      | .ok a, .ok b => if a = b then Json.str a else Json.str ("node_status/get_statuses differ: " ++ a ++ "/" ++ b)
      | .error e, _ => Json.str ("err:" ++ e)
      | _, .error e => Json.str ("err:" ++ e)
    pure (Json.mkObj [("ok", Json.bool true),
      ("summary", match summ with
        | .ok (t, cols) => Json.mkObj [("times", jArr jRat t), ("cols", jArr (jArr jInt) cols)]
        | .error e => Json.mkObj [("err", Json.str e)]),
      ("answers", Json.arr answers.toArray)])

def handle (line : String) : String :=
  match Json.parse line with
  | .ok j => match run j with
    | .ok r => r.compress
    | .error e => (errObj ("driverinv:" ++ e)).compress
  | .error e => (errObj ("parse:" ++ e)).compress
end DrvGenInv
