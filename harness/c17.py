"""C17 — percolation-based probability / size estimators compute what they document.
estimate_SIR_prob_size_from_dir_perc on random digraphs (incl. no edges, several equally large SCCs): the returned
pair must be one of the per-largest-SCC values computed by the Lean reachability model.  The wrappers are run with the
percolated graph captured (scripted draws / table rules): the captured graph must have the nodes of G and contain
u->v exactly when the rule says so, and the estimate must be an allowed value for it."""
from fractions import Fraction as F
import networkx as nx
import numpy as np
import common, gen, sims, allsims, rng as rngmod
from common import fr, rs

TOL = F(1, 10 ** 12)


def in_allowed(pair, allowed):
    return any(abs(fr(pair[0]) - F(a)) <= TOL and abs(fr(pair[1]) - F(b)) <= TOL for a, b in allowed)


def digraph_req(H, idx):
    return dict(op="perc", n=H.order(), succ=[[idx[v] for v in H.successors(u)] if H.is_directed() else [idx[v] for v in H.neighbors(u)] for u in H])


def generated_model(ctx):
    import EoN.simulation as sim
    """the Lean code GENERATED from the source of the percolation builders and estimators (harness/pyperc2lean.py ->
    Gen/PercGen.lean: _out/_in_component_, estimate_SIR_prob_size_from_dir_perc, the three percolated-network builders,
    the four estimate_* wrappers, get_infected_nodes), run by its own driver on the same graphs, scripted draws and
    time-function answers as the implementation.  networkx's routines are instantiated with the Lean reachability
    model; the generator order of strongly_connected_components is read off the real networkx.  Compared: RNG-call
    trace, sequence of time-function calls, the percolated graph (node order, attributes, edge set), the returned
    pairs / node sets, the exception kind."""
    import fcntl, subprocess, os, json, pyperc2lean, pydisc2lean, EoN
    lean = common.LEAN
    os.makedirs(os.path.join(lean, ".audit"), exist_ok=True)
    with open(os.path.join(lean, ".audit", "gengill.lock"), "w") as lock:
        fcntl.flock(lock, fcntl.LOCK_EX)
        try:
            _, e1 = pydisc2lean.regenerate()
            _, e2 = pyperc2lean.regenerate()
            errors = dict({k: v for k, v in e1.items() if k == "discrete wrappers"}, **e2)
        except Exception as e:
            errors = {"translator": "crashed: %r" % e}
        if errors:
            ctx.disagreement("generated-perc:translation", dict(entry="percolation estimators", errors=errors))
            return
        p = common.lake(["build", "driverperc"])
    if p.returncode != 0:
        ctx.disagreement("generated-perc:build", dict(entry="percolation estimators", log="\n".join(
            l for l in (p.stdout + p.stderr).splitlines() if "error" in l)[:1500]))
        return
    r = ctx.rng
    reqs, metas = [], []

    def er(x):
        return "inf" if x == float("inf") else rs(fr(x))

    def attempt(f):
        try:
            return dict(ok=True, val=f())
        except Exception as e:
            return dict(ok=False, err=sims.err_enum(e), exc=type(e).__name__)

    def sccs_of(H, idx):
        return [[idx[u] for u in list(c)] for c in nx.strongly_connected_components(H)]

    def dig_out(H, idx, dur=True, delay=True):
        return dict(nodes=[[idx[u], (er(d["duration"]) if "duration" in d else None)] for u, d in H.nodes(data=True)],
                    edges=sorted([idx[u], idx[v], (er(d["delay_to_infection"]) if "delay_to_infection" in d else None)] for u, v, d in H.edges(data=True)))

    class TimeRules(allsims.Rules):
        def __init__(self, case, lab, idx):
            super().__init__(case, lab, idx)
            self.asked, self.vals = [], []

        def trans_time(self, u, v):
            x = super().trans_time(u, v)
            self.asked.append([0, self.idx[u], self.idx[v]]); self.vals.append(er(x))
            return x

        def rec_time(self, u):
            x = super().rec_time(u)
            self.asked.append([1, self.idx[u]]); self.vals.append(er(x))
            return x

    # --- the core estimator on arbitrary digraphs
    for _ in range(ctx.scale(300, 2000)):
        H = gen.random_graph(r, 1, 9, directed=True)
        idx = gen.index_of(H)
        rep = dict(entry="estimate_SIR_prob_size_from_dir_perc", stream="generated-model", n=H.order(), edges=[[idx[u], idx[v]] for u, v in H.edges()])
        out = attempt(lambda: EoN.estimate_SIR_prob_size_from_dir_perc(H))
        reqs.append(dict(op="dirperc", succ=[[idx[v] for v in H.successors(u)] for u in H], sccs=sccs_of(H, idx)))
        metas.append((rep, "pair", out, None, None))
    # --- builders and wrappers
    for _ in range(ctx.scale(700, 4000)):
        which = r.choice(["timing", "timing_est", "xizeta", "xizeta_est", "directed", "directed_est", "bond", "infected", "infected"])
        c = sims.graph_case(r, 1, 8, directed=(which not in ("bond",) and r.random() < 0.3))
        G, lab = sims.build_graph(c)
        idx = gen.index_of(G)
        contact = dict(adj=gen.adj_lists(G, idx), edges=[[idx[u], idx[v]] for u, v in G.edges()])
        tr = rngmod.TapeRandom(rng=r, idx=idx)
        rep = dict(entry="generated:" + which, stream="generated-model", graph=c)
        rules = None
        captured = {}
        if which in ("timing", "timing_est"):
            cc = dict(c, sim="fast_nonMarkov_SIR")
            ed = [(u, v) for u, v in c["edges"]] + ([] if c["directed"] else [(v, u) for u, v in c["edges"]])
            cc["dur"] = [str(r.choice(allsims.DELAYS)) for _ in range(c["n"])]
            cc["delay"] = [[u, v, str(r.choice(allsims.DELAYS))] for u, v in ed]
            rules = TimeRules(cc, lab, idx)
            rep["tables"] = dict(dur=cc["dur"], delay=cc["delay"])
            if which == "timing":
                weights = r.random() < 0.6
                out = attempt(lambda: EoN.nonMarkov_directed_percolate_network_with_timing(G, rules.trans_time, rules.rec_time, weights=weights))
                rq, kind = dict(contact, op="timing", weights=weights), "H"
            else:
                orig = sim.nonMarkov_directed_percolate_network_with_timing
                sim.nonMarkov_directed_percolate_network_with_timing = lambda *a, **k: captured.setdefault("H", orig(*a, **k))
                try:
                    out = attempt(lambda: EoN.estimate_nonMarkov_SIR_prob_size_with_timing(G, rules.trans_time, rules.rec_time))
                finally:
                    sim.nonMarkov_directed_percolate_network_with_timing = orig
                rq, kind = dict(contact, op="timing_est"), "pair"
        elif which in ("xizeta", "xizeta_est"):
            xi = {u: r.randrange(4) for u in G}
            zeta = {u: r.randrange(4) for u in G}
            thr = r.randrange(1, 6)
            rep.update(xi=[xi[u] for u in G], zeta=[zeta[u] for u in G], thr=thr)
            transmission = lambda x, z: x + z >= thr
            if which == "xizeta":
                out = attempt(lambda: EoN.nonMarkov_directed_percolate_network(G, xi, zeta, transmission))
                kind = "H"
            else:
                orig = sim.nonMarkov_directed_percolate_network
                sim.nonMarkov_directed_percolate_network = lambda *a, **k: captured.setdefault("H", orig(*a, **k))
                try:
                    out = attempt(lambda: EoN.estimate_nonMarkov_SIR_prob_size(G, xi, zeta, transmission))
                finally:
                    sim.nonMarkov_directed_percolate_network = orig
                kind = "pair"
            rq = dict(contact, op="xizeta", estimate=(which == "xizeta_est"), xi=[str(xi[u]) for u in G], zeta=[str(zeta[u]) for u in G], thr=str(thr))
        elif which in ("directed", "directed_est"):
            tau, gamma = r.choice(gen.RATES), r.choice(gen.RATES)
            rep.update(tau=str(tau), gamma=str(gamma))
            if which == "directed":
                weights = r.random() < 0.6
                with rngmod.scripted(tr):
                    out = attempt(lambda: EoN.directed_percolate_network(G, float(tau), float(gamma), weights=weights))
                rq, kind = dict(contact, op="directed", estimate=False, weights=weights, tau=str(tau), gamma=str(gamma)), "H"
            else:
                orig = sim.directed_percolate_network
                sim.directed_percolate_network = lambda *a, **k: captured.setdefault("H", orig(*a, **k))
                try:
                    with rngmod.scripted(tr):
                        out = attempt(lambda: EoN.estimate_directed_SIR_prob_size(G, float(tau), float(gamma)))
                finally:
                    sim.directed_percolate_network = orig
                rq, kind = dict(contact, op="directed", estimate=True, tau=str(tau), gamma=str(gamma)), "pair"
        elif which == "bond":
            p_ = r.choice([F(0), F(1, 4), F(1, 2), F(3, 4), F(1)])
            rep["p"] = str(p_)
            with rngmod.scripted(tr):
                out = attempt(lambda: EoN.estimate_SIR_prob_size(G, float(p_)))
            rq, kind = dict(contact, op="bond", p=str(p_)), "pair"
        else:
            tau, gamma = r.choice(gen.RATES), r.choice(gen.RATES)
            nodes = list(range(c["n"]))
            style = r.choice(["none", "single", "list", "list", "overlap"])
            kw, infs_w, recs_w = {}, None, None
            if style == "single":
                i = r.choice(nodes)
                kw["initial_infecteds"], infs_w = lab(i), idx[lab(i)]
            elif style in ("list", "overlap"):
                ii = r.sample(nodes, r.randint(1, min(3, c["n"])))
                kw["initial_infecteds"], infs_w = [lab(i) for i in ii], [idx[lab(i)] for i in ii]
            rk = r.choice(["none", "single", "list"])
            pool = nodes if style == "overlap" else [i for i in nodes if infs_w is None or (idx[lab(i)] != infs_w and idx[lab(i)] not in (infs_w if isinstance(infs_w, list) else []))]
            if rk == "single" and pool and len(pool) < c["n"] + (style == "overlap"):
                i = r.choice(pool)
                kw["initial_recovereds"], recs_w = lab(i), idx[lab(i)]
            elif rk == "list" and pool:
                jj = r.sample(pool, r.randint(1, min(2, len(pool))))
                if style == "none" and len(jj) == c["n"]:
                    jj = jj[:-1]              # keep one node available for the default draw
                if jj:
                    kw["initial_recovereds"], recs_w = [lab(i) for i in jj], [idx[lab(i)] for i in jj]
            if style == "none" and recs_w is not None and (c["n"] == 1 or (isinstance(recs_w, list) and len(recs_w) >= c["n"])):
                kw.pop("initial_recovereds", None); recs_w = None
            rep.update(tau=str(tau), gamma=str(gamma), infs=infs_w, recs=recs_w)
            with rngmod.scripted(tr):
                out = attempt(lambda: EoN.get_infected_nodes(G, float(tau), float(gamma), **kw))
            rq, kind = dict(contact, op="infected", tau=str(tau), gamma=str(gamma), infs=infs_w, recs=recs_w), "nodes"
        rq["tape"] = tr.log
        if rules is not None:
            rq["vals"] = rules.vals
        if kind == "pair" and "H" in captured:
            rq["sccs"] = sccs_of(captured["H"], idx)
        rep["tape"] = tr.log
        reqs.append(rq)
        metas.append((rep, kind, out, sims.enc_trace(tr.trace, idx), (rules, idx)))
        ctx.count("generated-model:" + which)
    exe = os.path.join(lean, ".lake", "build", "bin", "driverperc")
    data = "\n".join(json.dumps(q, separators=(",", ":")) for q in reqs) + "\n"
    q = subprocess.run([exe], input=data, capture_output=True, text=True)
    lines = q.stdout.splitlines()
    if q.returncode != 0 or len(lines) != len(reqs):
        raise RuntimeError("driverperc crashed: " + q.stderr[-1000:])
    for (rep, kind, out, trace, extra), line in zip(metas, lines):
        g = json.loads(line)
        ctx.traces += 1
        ctx.case(rep, nontrivial=bool(out.get("ok")))
        d = []
        if not out["ok"] or not g.get("ok"):
            ierr = None if out["ok"] else out["err"]
            gerr = None if g.get("ok") else g.get("err")
            if ierr != gerr and not (ierr and gerr and ierr.startswith("other:") and gerr == ierr[6:]):
                d.append("exception: impl %s (%s), generated %s" % (ierr, out.get("exc"), gerr))
        else:
            if trace is not None and g["trace"] != trace:
                d.append("RNG trace")
            if g["unused"]:
                d.append("draws not consumed")
            if extra is not None and extra[0] is not None and (g["calls"] != extra[0].asked or g["vals_left"]):
                d.append("time-function calls")
            if kind == "pair":
                if [float(F(x)) for x in g["pair"]] != [float(out["val"][0]), float(out["val"][1])]:
                    d.append("pair: impl %s generated %s" % (list(out["val"]), g["pair"]))
            elif kind == "H":
                want = dig_out(out["val"], extra[1])
                if g["H"]["nodes"] != want["nodes"] or sorted(g["H"]["edges"], key=str) != sorted(want["edges"], key=str):
                    d.append("percolated graph")
            elif kind == "nodes":
                if sorted(g["nodes"]) != sorted(extra[1][u] for u in out["val"]):
                    d.append("infected nodes")
        if d:
            ctx.disagreement("generated-perc:" + ";".join(d)[:300], dict(rep, diffs=d, generated={k: g.get(k) for k in ("pair", "H", "nodes", "err")}))


def run(ctx):
    import EoN, EoN.simulation as sim
    drv = common.LeanDriver()
    reqs, metas = [], []
    # --- the core estimator on arbitrary digraphs
    for _ in range(ctx.scale(1200, 6000)):
        r = ctx.rng
        kind = r.random()
        if kind < 0.1:
            n = r.randint(1, 8)
            H = nx.DiGraph(); H.add_nodes_from(range(n))                     # no edges
        elif kind < 0.3:
            # several equally large components: disjoint directed cycles joined by one-way edges
            k, m = r.randint(2, 3), r.randint(2, 3)
            H = nx.DiGraph()
            for c in range(k):
                for i in range(m):
                    H.add_edge(c * m + i, c * m + (i + 1) % m)
            for _ in range(r.randint(0, 3)):
                a, b = r.sample(range(k), 2)
                H.add_edge(a * m + r.randrange(m), b * m + r.randrange(m)) if a < b else None
            for extra in range(r.randint(0, 2)):
                H.add_edge(k * m + extra, r.randrange(k * m))
        else:
            H = gen.random_graph(r, 1, 10, directed=True)
        # node names may be any hashable: a third of the digraphs get tuple / frozenset / string names, among them
        # "household" names whose ELEMENTS are themselves nodes of the graph (the docstrings promise that a source like
        # (1,2,3) is read as the single node (1,2,3))
        lk = r.random()
        if lk < 0.12:
            H = gen.relabel(r, H, "tuple")[0]
        elif lk < 0.2:
            H = gen.relabel(r, H, "frozenset")[0]
        elif lk < 0.26:
            H = gen.relabel(r, H, "str")[0]
        elif lk < 0.31:
            H = gen.relabel(r, H, "negint")[0]         # names -1, -2, … / 0, -1, …
        elif lk < 0.41 and H.order() >= 3:
            nodes_ = list(H)
            m_ = {}
            for u in nodes_[: max(1, len(nodes_) // 3)]:
                others = [x for x in nodes_ if x != u and x not in m_]
                if len(others) >= 2:
                    m_[u] = tuple(r.sample(others, 2))
            if len(set(m_.values())) == len(m_):
                H = nx.relabel_nodes(H, m_, copy=True)
                ctx.count("dir_perc:household-names")
        idx = gen.index_of(H)
        rep = dict(entry="estimate_SIR_prob_size_from_dir_perc", n=H.order(), edges=[[idx[u], idx[v]] for u, v in H.edges()],
                   names=[repr(u) for u in H][:12])
        try:
            pe, ar = EoN.estimate_SIR_prob_size_from_dir_perc(H)
        except Exception as e:
            ctx.case(rep, nontrivial=False)
            ctx.violation("estimate_SIR_prob_size_from_dir_perc raised %s" % type(e).__name__, dict(rep, error=type(e).__name__))
            continue
        reqs.append(digraph_req(H, idx))
        metas.append((rep, (pe, ar), None))
        ctx.count("dir_perc:edges=%s" % ("0" if H.number_of_edges() == 0 else ">0"))
    # --- wrappers
    for _ in range(ctx.scale(500, 3000)):
        r = ctx.rng
        which = r.choice(["bond", "directed", "timing", "xi_zeta"])
        c = sims.graph_case(r, 1, 8)
        G, lab = sims.build_graph(c)
        idx = gen.index_of(G)
        captured = {}
        rep = dict(entry="estimate:" + which, graph=c)
        tr = rngmod.TapeRandom(rng=r, idx=idx)
        try:
            if which == "bond":
                p = r.choice([F(0), F(1, 4), F(1, 2), F(3, 4), F(1)])
                rep["p"] = str(p)
                orig = sim.percolate_network
                sim.percolate_network = lambda G_, p_: captured.setdefault("H", orig(G_, p_))
                try:
                    with rngmod.scripted(tr):
                        res = EoN.estimate_SIR_prob_size(G, float(p))
                finally:
                    sim.percolate_network = orig
                H = captured["H"]
                draws = [F(d[1]) for d in tr.log if d[0] == "u"]
                kept = [e for e, x in zip(G.edges(), draws) if x < p]
                rule_ok = set(H.nodes()) == set(G.nodes()) and sorted(map(sorted, H.edges())) == sorted(map(sorted, kept))
            elif which == "directed":
                tau, gamma = r.choice(gen.RATES), r.choice(gen.RATES)
                rep.update(tau=str(tau), gamma=str(gamma))
                orig = sim.directed_percolate_network
                sim.directed_percolate_network = lambda *a, **k: captured.setdefault("H", orig(*a, **k))
                try:
                    with rngmod.scripted(tr):
                        res = EoN.estimate_directed_SIR_prob_size(G, float(tau), float(gamma))
                finally:
                    sim.directed_percolate_network = orig
                H = captured["H"]
                rule_ok = set(H.nodes()) == set(G.nodes()) and H.is_directed() and all(
                    G.has_edge(u, v) and d["delay_to_infection"] <= H.nodes[u]["duration"] for u, v, d in H.edges(data=True))
                # every neighbour pair not in H must have delay > duration: check from the trace order (rec then each nbr)
            elif which == "timing":
                cc = allsims.gen_case(r, "fast_nonMarkov_SIR")
                cc.update({k: c[k] for k in ("n", "order", "edges", "directed", "ew", "nw")})
                ed = [(u, v) for u, v in c["edges"]] + [(v, u) for u, v in c["edges"]]
                cc["dur"] = [str(r.choice(allsims.DELAYS)) for _ in range(c["n"])]
                cc["delay"] = [[u, v, str(r.choice(allsims.DELAYS))] for u, v in ed]
                rules = allsims.Rules(cc, lab, idx)
                rep["tables"] = dict(dur=cc["dur"], delay=cc["delay"])
                orig = sim.nonMarkov_directed_percolate_network_with_timing
                sim.nonMarkov_directed_percolate_network_with_timing = lambda *a, **k: captured.setdefault("H", orig(*a, **k))
                try:
                    res = EoN.estimate_nonMarkov_SIR_prob_size_with_timing(G, rules.trans_time, rules.rec_time)
                finally:
                    sim.nonMarkov_directed_percolate_network_with_timing = orig
                H = captured["H"]
                want = {(lab(u), lab(v)) for u, v, d in cc["delay"] if allsims.fl(d) <= allsims.fl(cc["dur"][u])}
                rule_ok = set(H.nodes()) == set(G.nodes()) and set(H.edges()) == want
            else:
                xi = {u: r.randrange(4) for u in G}
                zeta = {u: r.randrange(4) for u in G}
                thr = r.randrange(1, 6)
                rep.update(xi=[xi[u] for u in G], zeta=[zeta[u] for u in G], thr=thr)
                # the docstring only asks for something indexable by node ("xi[u]"): plain dict, defaultdict (the
                # library's own example uses one), a dict subclass with __missing__, and — for nodes 0..n-1 — list / array
                import collections
                kind = ["dict", "defaultdict", "missing", "list", "array"][r.randrange(5)]
                if kind in ("list", "array") and list(G) != list(range(G.order())):
                    kind = "defaultdict"
                def wrapc(d, kind=kind):
                    if kind == "defaultdict":
                        m = max(d.values()) if d else 0
                        out = collections.defaultdict(lambda m=m: m)
                        out.update({u: v for u, v in d.items() if v != m})      # the most frequent large value is the default
                        return out
                    if kind == "missing":
                        class D(dict):
                            def __missing__(self, key, d=d):
                                return d[key]
                        return D()
                    if kind == "list":
                        return [d[u] for u in G]
                    if kind == "array":
                        return np.array([d[u] for u in G])
                    return dict(d)
                xi_arg, zeta_arg = wrapc(xi), wrapc(zeta)
                rep["containers"] = kind
                ctx.count("nonMarkov-containers:" + kind)
                transmission = lambda x, z: x + z >= thr
                orig = sim.nonMarkov_directed_percolate_network
                sim.nonMarkov_directed_percolate_network = lambda *a, **k: captured.setdefault("H", orig(*a, **k))
                try:
                    res = EoN.estimate_nonMarkov_SIR_prob_size(G, xi_arg, zeta_arg, transmission)
                finally:
                    sim.nonMarkov_directed_percolate_network = orig
                H = captured["H"]
                want = {(u, v) for u in G for v in G.neighbors(u) if transmission(xi[u], zeta[v])}
                rule_ok = set(H.nodes()) == set(G.nodes()) and set(H.edges()) == want and H.is_directed()
        except Exception as e:
            ctx.case(rep, nontrivial=False)
            if G.order() == 0:
                continue
            ctx.violation("%s raised %s" % (rep["entry"], type(e).__name__), dict(rep, error=type(e).__name__, tape=tr.log))
            continue
        ctx.count("wrapper:" + which)
        rep["tape"] = tr.log
        if not rule_ok:
            ctx.case(rep, nontrivial=True)
            ctx.violation("%s: the percolated graph does not have the nodes of G / does not contain u->v exactly when the rule says so" % rep["entry"],
                          dict(rep, H=[[idx[u], idx[v]] for u, v in H.edges()]))
            continue
        hidx = {u: idx[u] for u in H}
        Hs = nx.DiGraph()
        Hs.add_nodes_from(G.nodes())
        Hs.add_edges_from(H.edges() if H.is_directed() else list(H.edges()) + [(v, u) for u, v in H.edges()])
        reqs.append(digraph_req(Hs, idx))
        metas.append((rep, res, "same" if which == "bond" else None))
    for (rep, res, flag), m in zip(metas, drv.batch(reqs)):
        ctx.traces += 1
        ctx.case(rep, nontrivial=m.get("maxscc", 0) > 1, sample=rep)
        if not m.get("ok"):
            ctx.disagreement("perc-driver", dict(rep, model=m))
            continue
        pe, ar = res
        if not (0 <= pe <= 1 and 0 <= ar <= 1):
            ctx.violation("%s returned values outside [0,1]" % rep["entry"], dict(rep, result=[pe, ar]))
        elif not in_allowed((pe, ar), m["allowed"]):
            ctx.violation("%s: (PE, AR) is not (fraction reaching a largest SCC, fraction reachable from it)" % rep["entry"],
                          dict(rep, result=[pe, ar], allowed=m["allowed"]))
        elif flag == "same" and pe != ar:
            ctx.violation("estimate_SIR_prob_size must return the largest-component fraction for both outputs", dict(rep, result=[pe, ar]))
    generated_model(ctx)
