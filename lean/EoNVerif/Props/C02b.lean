import EoNVerif.Model.FastSIS
import EoNVerif.Proofs.FastSIS
/-!
C02 (fast_SIS) / C04 / C09 — properties of the event-queue model of `fast_SIS` (Model/FastSIS.lean):
every event of an output is a transition of the SIS chain, for every tape of non-negative draws.
(`statusAfter`, `WF`, `TapeNonneg` are defined in `Proofs/FastSIS.lean`.)
-/
namespace FastSIS

/-- **legal moves only**: an infection entry concerns a node that is susceptible at that moment, a recovery entry a node
that is infectious; times are nondecreasing, start at tmin and stay below tmax -/
theorem log_legal (P : FSParams) (infs : List Node) (h : WF P infs) (fuel : Nat) (ts ts' : TapeSt) (hts : TapeNonneg ts)
    (s : FSState) (hr : run P infs fuel ts = .ok (s, ts')) :
    let log := s.log.reverse
    (∀ (k : Nat) (e : Rat × Node × Bool), log[k]? = some e → statusAfter log k e.2.1 = !e.2.2 ∧ P.tmin ≤ e.1 ∧ e.1 < P.tmax) ∧
    (log.map (·.1)).Pairwise (· ≤ ·) := by
  obtain ⟨now, hI, _⟩ := run_inv P infs h.horizon fuel ts ts' hts s hr
  exact ⟨fun k e he => hI.legal.entries k e he, hI.legal.sorted⟩

/-- **transmissions are transitions of the chain**: each recorded transmission `(t, some u, v)` goes along an edge
from a node that is infectious at that moment to the node that becomes infected then; source-less entries are the
initial infections at tmin; every infection entry of the log has exactly one transmission entry -/
theorem trans_causal (P : FSParams) (infs : List Node) (h : WF P infs) (fuel : Nat) (ts ts' : TapeSt) (hts : TapeNonneg ts)
    (s : FSState) (hr : run P infs fuel ts = .ok (s, ts')) :
    let log := s.log.reverse
    let trans := s.trans.reverse
    trans.length = (log.filter fun e => e.2.2).length ∧
    ∀ (i : Nat) (e : Rat × Option Node × Node), trans[i]? = some e →
      ∃ k, log[k]? = some (e.1, e.2.2, true) ∧
        (match e.2.1 with
         | none => e.2.2 ∈ infs ∧ e.1 = P.tmin
         | some u => e.2.2 ∈ P.nbrs u ∧ statusAfter log k u = true) := by
  obtain ⟨now, hI, _⟩ := run_inv P infs h.horizon fuel ts ts' hts s hr
  refine ⟨?_, ?_⟩
  · simp only [List.length_reverse, List.filter_reverse]
    exact hI.tr_len
  · intro i e he
    have hmem : e ∈ s.trans := List.mem_reverse.1 (List.mem_of_getElem? he)
    obtain ⟨pre, post, h1, h2⟩ := hI.tr_log e hmem
    have hlog : s.log.reverse = pre.reverse ++ (e.1, e.2.2, true) :: post.reverse := by
      rw [h1]; simp
    refine ⟨pre.length, ?_, ?_⟩
    · rw [hlog, List.getElem?_append_right (by simp)]
      simp
    · cases hs : e.2.1 with
      | none => rw [hs] at h2; exact h2
      | some u =>
        rw [hs] at h2
        refine ⟨h2.1, ?_⟩
        rw [hlog, statusAfter_eq_cur]
        exact h2.2

/-- recoveries happen exactly at the drawn recovery time of the current infectious period: an infectious node's
`recTime` is in the future of every processed event, and a node that is not infectious has no pending recovery -/
theorem recovery_pending (P : FSParams) (infs : List Node) (h : WF P infs) (fuel : Nat) (ts ts' : TapeSt) (hts : TapeNonneg ts)
    (s : FSState) (hr : run P infs fuel ts = .ok (s, ts')) :
    s.queue = [] ∧ ∀ u, s.inf u = true → (ERat.lt (s.recTime u) (some P.tmax) = false) := by
  obtain ⟨now, hI, hq⟩ := run_inv P infs h.horizon fuel ts ts' hts s hr
  refine ⟨hq, ?_⟩
  intro u hu
  cases hr : s.recTime u with
  | none => rfl
  | some rt =>
    by_contra hlt
    have hlt' : rt < P.tmax := by simpa [ERat.lt] using hlt
    have := hI.rec_pending u rt hu hr hlt'
    rw [hq] at this
    simp at this

/-! ### non-vacuity: a 3-node path `0 – 1 – 2`, unit rates, horizon `[0, 10)`, node 0 initially infected, on an explicit
tape of 20 non-negative draws.  The hypotheses `WF` and `TapeNonneg` hold, the run succeeds and consumes the whole
tape; it contains reinfections, a transmission to an already infectious node (ignored), a tie between two
transmissions, a re-drawn transmission time and recovery times beyond `tmax`. -/

def exNbrs : Node → List Node
  | 0 => [1]
  | 1 => [0, 2]
  | 2 => [1]
  | _ => []

def exP : FSParams :=
  { nodes := [0, 1, 2], nbrs := exNbrs, transRate := fun _ _ => 1, recRate := fun _ => 1, tmin := 0, tmax := 10 }

def exTape : TapeSt :=
  { tape := [3, 1, 1, 1/2, 1/2, 1/2, 5, 1, 8, 1/4, 1, 1, 1, 1, 2, 20, 1, 1, 1, 3].map Draw.expo }

theorem exP_wf : WF exP [0] where
  nodup := by decide
  nbr_mem := by decide
  symm := by
    intro u v h
    match u, v, h with
    | 0, v, h => simp [exP, exNbrs] at h; subst h; simp [exP, exNbrs]
    | 1, v, h => simp [exP, exNbrs] at h; rcases h with rfl | rfl <;> simp [exP, exNbrs]
    | 2, v, h => simp [exP, exNbrs] at h; subst h; simp [exP, exNbrs]
    | _ + 3, v, h => simp [exP, exNbrs] at h
  noloop := by
    intro u h
    match u, h with
    | 0, h => simp [exP, exNbrs] at h
    | 1, h => simp [exP, exNbrs] at h
    | 2, h => simp [exP, exNbrs] at h
    | _ + 3, h => simp [exP, exNbrs] at h
  rates := ⟨fun _ _ => by simp [exP], fun _ => by simp [exP]⟩
  infs_mem := by decide
  horizon := by decide +kernel

theorem exTape_nonneg : TapeNonneg exTape := by
  intro d hd x hx
  subst hx
  simp only [exTape, List.mem_map, Draw.expo.injEq, exists_eq_right] at hd
  simp only [List.mem_cons, List.not_mem_nil, or_false] at hd
  rcases hd with rfl | rfl | rfl | rfl | rfl | rfl | rfl | rfl | rfl | rfl | rfl | rfl | rfl | rfl | rfl | rfl | rfl |
    rfl | rfl | rfl <;> decide +kernel

example : (match run exP [0] 30 exTape with
    | .ok (s, ts) =>
      s.log.reverse == [(0, 0, true), (1, 1, true), (3 / 2, 2, true), (2, 1, false), (5 / 2, 1, true), (3, 0, false),
        (4, 0, true), (5, 0, false), (6, 0, true), (13 / 2, 2, false), (15 / 2, 2, true), (17 / 2, 2, false)]
      && s.trans.reverse == [(0, none, 0), (1, some 0, 1), (3 / 2, some 1, 2), (5 / 2, some 0, 1), (4, some 1, 0),
        (6, some 1, 0), (15 / 2, some 1, 2)]
      && s.queue.isEmpty && ts.tape.isEmpty
      && [0, 1, 2].map s.inf == [true, true, false]
      && [0, 1, 2].map s.recTime == [some 26, some (21 / 2), some (17 / 2)]
    | .error _ => false) = true := by decide +kernel

/-- the theorems apply to this run -/
example : ∃ s ts', run exP [0] 30 exTape = .ok (s, ts') ∧ s.queue = [] ∧
    ∀ u, s.inf u = true → ERat.lt (s.recTime u) (some exP.tmax) = false := by
  cases hr : run exP [0] 30 exTape with
  | error e =>
    have : (match run exP [0] 30 exTape with | .ok _ => true | .error _ => false) = true := by decide +kernel
    rw [hr] at this; cases this
  | ok p =>
    obtain ⟨s, ts'⟩ := p
    exact ⟨s, ts', rfl, recovery_pending exP [0] exP_wf 30 exTape ts' exTape_nonneg s hr⟩

end FastSIS
