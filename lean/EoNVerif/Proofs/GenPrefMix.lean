import EoNVerif.Gen.PrefMixGen
import EoNVerif.Proofs.GenHelp
import EoNVerif.Proofs.ODE2
import EoNVerif.Proofs.GenGlue2
import Mathlib.Data.List.Perm.Basic
/-!
C07d — lemmas: the Lean code GENERATED from `_dEBCM_pref_mix_` of `EoN/analytic.py` (Gen/PrefMixGen.lean, `GenPM`)
against the hand-written model `ODE.ebcmPrefMix` (Model/ODE2.lean), and the entry point `GenGlue2.EBCM_pref_mix`
(Gen/OdeGlue2.lean) for an arbitrary right-hand side.  Statements: Props/C07d.lean.

`loop1 … loop4` are the four loops of the generated function (`gen_unfold : … := rfl`); `thetaAL / phiRAL X ks` the dicts
built by loop 1; `pmStatus` the first error of loop 3 in iteration order; `pmResult` the returned array; `gen_eq` the
closed form for all inputs.
-/

namespace GenPMProofs
open PyRT PyGlue2 GenHelpProofs

/-- loop 1 of the generated code: reading θ_k, φR_k off the flat state -/
def loop1 (X : Gen.V) (ks : List Nat) : Except String (List (Nat × Rat) × List (Nat × Rat)) :=
  (PyGlue2.enum ks).foldlM (fun (st_ : List (Nat × Rat) × List (Nat × Rat)) (ik_ : Nat × Nat) => do
      let (theta, phiR) := st_
      let index := ik_.1
      let k := ik_.2
      let x_202 ← PyPM.vidx X ((1 : Int) + ((2 : Int) * ((index : Nat) : Int)))
      let theta := alSet theta k x_202
      let x_203 ← PyPM.vidx X ((2 : Int) + ((2 : Int) * ((index : Nat) : Int)))
      let phiR := alSet phiR k x_203
      pure (theta, phiR)) ([], [])

def loop2 (Pk theta : List (Nat × Rat)) : Except String Rat :=
  (Pk.map (·.1)).foldlM (fun (acc : Rat) (k : Nat) => do
      let d_304 ← PyRT.dictGet Pk k
      let d_305 ← PyRT.dictGet theta k
      let pw_306 ← PyGlue2.zpowE d_305 ((k : Nat) : Int)
      pure (acc + (d_304 * pw_306))) (0 : Rat)

def inner (Pnk : List (Nat × List (Nat × Rat))) (theta : List (Nat × Rat)) (k1 : Nat) (row : List (Nat × Rat)) :
    Except String Rat :=
  (row.map (·.1)).foldlM (fun (acc : Rat) (k2 : Nat) => do
          let row_506 ← PyRT.dictGet Pnk k1
          let d_507 ← PyRT.dictGet row_506 k2
          let d_508 ← PyRT.dictGet theta k2
          let pw_509 ← PyGlue2.zpowE d_508 (((k2 : Nat) : Int) - (1 : Int))
          pure (acc + (d_507 * pw_509))) (0 : Rat)

def loop3 (rho : Rat) (Pk : List (Nat × Rat)) (Pnk : List (Nat × List (Nat × Rat))) (theta phiR : List (Nat × Rat)) :
    Except String (List (Nat × Rat) × List (Nat × Rat)) :=
  (Pk.map (·.1)).foldlM (fun (st_ : List (Nat × Rat) × List (Nat × Rat)) (k1 : Nat) => do
      let (phiS, phiI) := st_
      let row_405 ← PyRT.dictGet Pnk k1
      let s_406 ← inner Pnk theta k1 row_405
      let phiS := alSet phiS k1 (((1 : Rat) - rho) * s_406)
      let d_407 ← PyRT.dictGet theta k1
      let d_408 ← PyRT.dictGet phiS k1
      let d_409 ← PyRT.dictGet phiR k1
      let phiI := alSet phiI k1 ((d_407 - d_408) - d_409)
      pure (phiS, phiI)) ([], [])

def loop4 (tau gamma : Rat) (ks : List Nat) (phiI : List (Nat × Rat)) (init : List Rat) : Except String (List Rat) :=
  ks.foldlM (fun (st_ : List Rat) (k : Nat) => do
      let returnval := st_
      let d_610 ← PyRT.dictGet phiI k
      let dthetak_dt : Rat := ((-tau) * d_610)
      let d_611 ← PyRT.dictGet phiI k
      let dphiRk_dt : Rat := (gamma * d_611)
      let returnval := returnval ++ [dthetak_dt, dphiRk_dt]
      pure returnval) init

theorem gen_unfold (X : Gen.V) (rho tau gamma : Rat) (Pk : List (Nat × Rat)) (Pnk : List (Nat × List (Nat × Rat))) :
    GenPM.dEBCM_pref_mix X rho tau gamma Pk Pnk = (do
      let R ← PyPM.vidx X (0 : Int)
      let (theta, phiR) ← loop1 X (sortNat (Pk.map (·.1)))
      let s ← loop2 Pk theta
      let (_, phiI) ← loop3 rho Pk Pnk theta phiR
      let rv ← loop4 tau gamma (sortNat (Pk.map (·.1))) phiI [gamma * (((1 : Rat) - ((1 : Rat) - rho) * s) - R)]
      pure (Gen.V.ofList rv)) := rfl
/-- a loop each of whose passes either raises an error that does not depend on the state, or updates the state:
the loop raises the FIRST such error (in iteration order), otherwise it is the fold of the updates -/
theorem foldlM_first {σ ι : Type} (step : σ → ι → Except String σ) (h : σ → ι → σ) (err : ι → Option String)
    (l : List ι) (a : σ)
    (hs : ∀ k ∈ l, ∀ s, step s k = match err k with | some e => .error e | none => .ok (h s k)) :
    l.foldlM step a = match l.findSome? err with | some e => .error e | none => .ok (l.foldl h a) := by
  induction l generalizing a with
  | nil => rfl
  | cons x t ih =>
    rw [List.foldlM_cons, hs x (by simp), List.findSome?_cons]
    cases hx : err x with
    | some e => rfl
    | none =>
      simp only [ok_bind, List.foldl_cons]
      exact ih _ (fun k hk => hs k (by simp [hk]))

theorem findSome_none {ι : Type} (err : ι → Option String) (l : List ι) (h : ∀ k ∈ l, err k = none) :
    l.findSome? err = none := by
  rw [List.findSome?_eq_none_iff]; exact h

theorem findSome_const {ι : Type} (err : ι → Option String) (e : String) (l : List ι)
    (h : ∀ k ∈ l, err k = none ∨ err k = some e) (hex : ∃ k ∈ l, err k = some e) :
    l.findSome? err = some e := by
  induction l with
  | nil => simp at hex
  | cons x t ih =>
    rw [List.findSome?_cons]
    rcases h x (by simp) with hx | hx
    · rw [hx]
      apply ih (fun k hk => h k (by simp [hk]))
      obtain ⟨k, hk, hk'⟩ := hex
      rcases List.mem_cons.1 hk with rfl | hk
      · rw [hx] at hk'; cases hk'
      · exact ⟨k, hk, hk'⟩
    · rw [hx]

theorem foldl_pair {α β ι : Type} (f : α → ι → α) (g : β → ι → β) (l : List ι) (a : α) (b : β) :
    l.foldl (fun st x => (f st.1 x, g st.2 x)) (a, b) = (l.foldl f a, l.foldl g b) := by
  induction l generalizing a b with
  | nil => rfl
  | cons x t ih => simp only [List.foldl_cons]; exact ih _ _

/-! ### `X[i]` for the indices that occur -/
theorem vidx_nat (X : Gen.V) (n : Nat) :
    PyPM.vidx X ((n : Nat) : Int) = if n < X.n then .ok (X.f n) else .error "IndexError" := by
  unfold PyPM.vidx
  have h1 : ¬ ((n : Int) < 0) := by omega
  by_cases h : n < X.n <;> simp [h, h1]

theorem vidx_zero (X : Gen.V) : PyPM.vidx X (0 : Int) = if 0 < X.n then .ok (X.f 0) else .error "IndexError" :=
  vidx_nat X 0

theorem vidx_odd (X : Gen.V) (i : Nat) :
    PyPM.vidx X ((1 : Int) + ((2 : Int) * ((i : Nat) : Int))) = if 1 + 2 * i < X.n then .ok (X.f (1 + 2 * i)) else .error "IndexError" := by
  have : (1 : Int) + 2 * (i : Int) = ((1 + 2 * i : Nat) : Int) := by push_cast; ring
  rw [this, vidx_nat]

theorem vidx_even (X : Gen.V) (i : Nat) :
    PyPM.vidx X ((2 : Int) + ((2 : Int) * ((i : Nat) : Int))) = if 2 + 2 * i < X.n then .ok (X.f (2 + 2 * i)) else .error "IndexError" := by
  have : (2 : Int) + 2 * (i : Int) = ((2 + 2 * i : Nat) : Int) := by push_cast; ring
  rw [this, vidx_nat]

/-! ### loop 1 -/
/-- the dicts `theta`, `phiR` built by loop 1 -/
def thetaAL (X : Gen.V) (ks : List Nat) : List (Nat × Rat) :=
  (PyGlue2.enum ks).foldl (fun acc ik => alSet acc ik.2 (X.f (1 + 2 * ik.1))) []
def phiRAL (X : Gen.V) (ks : List Nat) : List (Nat × Rat) :=
  (PyGlue2.enum ks).foldl (fun acc ik => alSet acc ik.2 (X.f (2 + 2 * ik.1))) []

theorem enum_fst {α : Type} (l : List α) : (PyGlue2.enum l).map (·.1) = List.range l.length := by
  simp [PyGlue2.enum, List.map_fst_zip]
theorem enum_snd {α : Type} (l : List α) : (PyGlue2.enum l).map (·.2) = l := by
  simp [PyGlue2.enum, List.map_snd_zip]

theorem loop1_eq (X : Gen.V) (ks : List Nat) :
    loop1 X ks = if 2 * ks.length < X.n ∨ ks = [] then .ok (thetaAL X ks, phiRAL X ks) else .error "IndexError" := by
  unfold loop1
  rw [foldlM_first _ (fun st ik => (alSet st.1 ik.2 (X.f (1 + 2 * ik.1)), alSet st.2 ik.2 (X.f (2 + 2 * ik.1))))
    (fun ik => if 2 + 2 * ik.1 < X.n then none else some "IndexError")]
  · rw [foldl_pair (fun acc (ik : Nat × Nat) => alSet acc ik.2 (X.f (1 + 2 * ik.1)))
      (fun acc (ik : Nat × Nat) => alSet acc ik.2 (X.f (2 + 2 * ik.1)))]
    have hm : (PyGlue2.enum ks).findSome? (fun ik => if 2 + 2 * ik.1 < X.n then none else some "IndexError")
        = (List.range ks.length).findSome? (fun i => if 2 + 2 * i < X.n then none else some "IndexError") := by
      rw [← enum_fst, List.findSome?_map]; rfl
    rw [hm]
    by_cases h : 2 * ks.length < X.n ∨ ks = []
    · rw [if_pos h, findSome_none]
      · rfl
      · intro i hi
        rw [List.mem_range] at hi
        rcases h with h | h
        · rw [if_pos (by omega)]
        · subst h; simp at hi
    · rw [if_neg h, findSome_const _ "IndexError"]
      · intro i _; split <;> simp
      · have hl : 0 < ks.length := by
          rcases ks with _ | ⟨a, t⟩
          · simp at h
          · simp
        refine ⟨ks.length - 1, List.mem_range.2 (by omega), ?_⟩
        rw [if_neg (by omega)]
  · rintro ⟨i, k⟩ _ ⟨th, ph⟩
    simp only [vidx_odd, vidx_even]
    by_cases h2 : 2 + 2 * i < X.n
    · have h1 : 1 + 2 * i < X.n := by omega
      simp [h1, h2]
    · by_cases h1 : 1 + 2 * i < X.n <;> simp [h1, h2]

/-! ### `sorted(keys)` -/
theorem sortNat_ins_perm (acc : List Nat) (x : Nat) :
    ((acc.filter (· ≤ x)) ++ [x] ++ (acc.filter (fun y => ¬ (y ≤ x)))).Perm (x :: acc) := by
  have h := List.filter_append_perm (fun y => decide (y ≤ x)) acc
  have h2 : (acc.filter fun y => decide (¬ (y ≤ x))) = acc.filter fun y => !decide (y ≤ x) := by
    congr 1; funext y; exact decide_not
  rw [h2, List.append_assoc]
  exact (List.perm_middle).trans (List.Perm.cons x h)

theorem sortNat_fold_perm (l acc : List Nat) :
    (l.foldl (fun acc x => (acc.filter (· ≤ x)) ++ [x] ++ (acc.filter (fun y => ¬ (y ≤ x)))) acc).Perm (acc ++ l) := by
  induction l generalizing acc with
  | nil => simp
  | cons x t ih =>
    rw [List.foldl_cons]
    refine (ih _).trans ?_
    refine ((sortNat_ins_perm acc x).append_right t).trans ?_
    exact (List.perm_middle (l₁ := acc) (l₂ := t) (a := x)).symm

/-- `sorted(l)` is a rearrangement of `l` -/
theorem sortNat_perm (l : List Nat) : (sortNat l).Perm l := by
  have := sortNat_fold_perm l []
  simpa [sortNat] using this

theorem mem_sortNat (l : List Nat) (k : Nat) : k ∈ sortNat l ↔ k ∈ l := (sortNat_perm l).mem_iff
theorem sortNat_length (l : List Nat) : (sortNat l).length = l.length := (sortNat_perm l).length_eq
theorem sortNat_nodup (l : List Nat) : (sortNat l).Nodup ↔ l.Nodup := (sortNat_perm l).nodup_iff

/-! ### dicts built by `d[k] = v` in a loop -/
theorem fold_alSet_has {ι : Type} (key : ι → Nat) (val : ι → Rat) (l : List ι) (init : List (Nat × Rat)) (k : Nat) :
    alHas (l.foldl (fun acc x => alSet acc (key x) (val x)) init) k = true ↔ (alHas init k = true ∨ k ∈ l.map key) := by
  induction l generalizing init with
  | nil => simp
  | cons x t ih =>
    rw [List.foldl_cons, ih, alHas_alSet]
    simp only [List.map_cons, List.mem_cons]
    tauto

theorem fold_alSet_get_notin {ι : Type} (key : ι → Nat) (val : ι → Rat) (l : List ι) (init : List (Nat × Rat)) (d : Rat)
    (k : Nat) (h : k ∉ l.map key) :
    alGet (l.foldl (fun acc x => alSet acc (key x) (val x)) init) d k = alGet init d k := by
  induction l generalizing init with
  | nil => rfl
  | cons x t ih =>
    simp only [List.map_cons, List.mem_cons, not_or] at h
    rw [List.foldl_cons, ih _ h.2, alGet_alSet_ne _ _ _ _ _ h.1]

/-- distinct keys: the value stored under the key of `x` is the value of `x` -/
theorem fold_alSet_get {ι : Type} (key : ι → Nat) (val : ι → Rat) (l : List ι) (init : List (Nat × Rat)) (d : Rat)
    (hn : (l.map key).Nodup) (x : ι) (hx : x ∈ l) :
    alGet (l.foldl (fun acc x => alSet acc (key x) (val x)) init) d (key x) = val x := by
  induction l generalizing init with
  | nil => simp at hx
  | cons y t ih =>
    rw [List.map_cons, List.nodup_cons] at hn
    rw [List.foldl_cons]
    rcases List.mem_cons.1 hx with rfl | hx
    · rw [fold_alSet_get_notin _ _ _ _ _ _ hn.1, alGet_alSet_self]
    · exact ih _ hn.2 hx

/-- values that depend on the key only: duplicates among the keys do no harm -/
theorem fold_alSet_get_key (val : Nat → Rat) (l : List Nat) (init : List (Nat × Rat)) (d : Rat) (k : Nat) (hk : k ∈ l) :
    alGet (l.foldl (fun acc x => alSet acc x (val x)) init) d k = val k := by
  induction l generalizing init with
  | nil => simp at hk
  | cons y t ih =>
    rw [List.foldl_cons]
    by_cases hkt : k ∈ t
    · exact ih _ hkt
    · rcases List.mem_cons.1 hk with rfl | hk
      · have := fold_alSet_get_notin id val t (alSet init k (val k)) d k (by simpa using hkt)
        simp only [id_eq] at this
        rw [this, alGet_alSet_self]
      · exact absurd hk hkt

theorem thetaAL_has (X : Gen.V) (ks : List Nat) (k : Nat) : alHas (thetaAL X ks) k = true ↔ k ∈ ks := by
  unfold thetaAL
  rw [fold_alSet_has (fun ik : Nat × Nat => ik.2) (fun ik => X.f (1 + 2 * ik.1)), enum_snd]
  simp [alHas]
theorem phiRAL_has (X : Gen.V) (ks : List Nat) (k : Nat) : alHas (phiRAL X ks) k = true ↔ k ∈ ks := by
  unfold phiRAL
  rw [fold_alSet_has (fun ik : Nat × Nat => ik.2) (fun ik => X.f (2 + 2 * ik.1)), enum_snd]
  simp [alHas]

theorem mem_enum (ks : List Nat) (i : Nat) (h : i < ks.length) : (i, ks[i]) ∈ PyGlue2.enum ks := by
  rw [List.mem_iff_getElem]
  refine ⟨i, by simp [PyGlue2.enum, h], by simp [PyGlue2.enum]⟩

theorem thetaAL_get (X : Gen.V) (ks : List Nat) (hn : ks.Nodup) (d : Rat) (i : Nat) (h : i < ks.length) :
    alGet (thetaAL X ks) d ks[i] = X.f (1 + 2 * i) := by
  unfold thetaAL
  exact fold_alSet_get (fun ik : Nat × Nat => ik.2) (fun ik => X.f (1 + 2 * ik.1)) _ [] d (by rw [enum_snd]; exact hn)
    (i, ks[i]) (mem_enum ks i h)
theorem phiRAL_get (X : Gen.V) (ks : List Nat) (hn : ks.Nodup) (d : Rat) (i : Nat) (h : i < ks.length) :
    alGet (phiRAL X ks) d ks[i] = X.f (2 + 2 * i) := by
  unfold phiRAL
  exact fold_alSet_get (fun ik : Nat × Nat => ik.2) (fun ik => X.f (2 + 2 * ik.1)) _ [] d (by rw [enum_snd]; exact hn)
    (i, ks[i]) (mem_enum ks i h)

theorem thetaAL_get_idx (X : Gen.V) (ks : List Nat) (hn : ks.Nodup) (d : Rat) (k : Nat) (h : k ∈ ks) :
    alGet (thetaAL X ks) d k = X.f (1 + 2 * ks.idxOf k) := by
  have hi := List.idxOf_lt_length_iff.2 h
  have := thetaAL_get X ks hn d (ks.idxOf k) hi
  rwa [List.getElem_idxOf] at this
theorem phiRAL_get_idx (X : Gen.V) (ks : List Nat) (hn : ks.Nodup) (d : Rat) (k : Nat) (h : k ∈ ks) :
    alGet (phiRAL X ks) d k = X.f (2 + 2 * ks.idxOf k) := by
  have hi := List.idxOf_lt_length_iff.2 h
  have := phiRAL_get X ks hn d (ks.idxOf k) hi
  rwa [List.getElem_idxOf] at this

/-! ### powers -/
/-- `x ** (k − 1)` as Python computes it when it does not raise -/
def powm1 (x : Rat) (k : Nat) : Rat := if k = 0 then 1 / x else x ^ (k - 1)

theorem zpowE_nat (x : Rat) (k : Nat) : PyGlue2.zpowE x ((k : Nat) : Int) = .ok (x ^ k) := by
  simp [PyGlue2.zpowE]

theorem zpowE_pred (x : Rat) (k : Nat) :
    PyGlue2.zpowE x (((k : Nat) : Int) - (1 : Int)) =
      if k = 0 ∧ x = 0 then .error "ZeroDivisionError" else .ok (powm1 x k) := by
  unfold PyGlue2.zpowE powm1
  rcases k with _ | k
  · by_cases hx : x = 0 <;> simp [hx]
  · have h1 : ((k + 1 : Nat) : Int) - 1 ≥ 0 := by omega
    have h2 : (((k + 1 : Nat) : Int) - 1).toNat = k := by omega
    simp only [h1, if_true, h2]
    simp

theorem powm1_pos (x : Rat) (k : Nat) (h : k ≠ 0) : powm1 x k = x ^ (k - 1) := by simp [powm1, h]

/-! ### loop 2: `S = (1-rho) * sum(Pk[k] * theta[k]**k for k in Pk.keys())` never raises -/
def sSum (Pk theta : List (Nat × Rat)) : Rat :=
  sumRat ((Pk.map (·.1)).map fun k => alGet Pk 0 k * alGet theta 0 k ^ k)

theorem loop2_eq (Pk theta : List (Nat × Rat)) (hth : ∀ k ∈ Pk.map (·.1), alHas theta k = true) :
    loop2 Pk theta = .ok (sSum Pk theta) := by
  unfold loop2 sSum
  rw [fold_keys_ok _ (fun k => alGet Pk 0 k * alGet theta 0 k ^ k)]
  · simp
  · intro k hk acc
    rw [dictGet_of_has Pk k 0 (alHas_of_mem_keys Pk k hk), dictGet_of_has theta k 0 (hth k hk)]
    simp only [ok_bind, zpowE_nat, pure_eq_ok]

/-! ### loop 3 -/
/-- what reading the entry `k2` of a row raises -/
def rowErr (theta : List (Nat × Rat)) (k2 : Nat) : Option String :=
  if alHas theta k2 = true then (if k2 = 0 ∧ alGet theta 0 k2 = 0 then some "ZeroDivisionError" else none)
  else some "KeyError"

/-- `sum(Pnk[k1][k2] * theta[k2]**(k2-1) for k2 in Pnk[k1].keys())` -/
def rowSum (theta row : List (Nat × Rat)) : Rat :=
  sumRat ((row.map (·.1)).map fun k2 => alGet row 0 k2 * powm1 (alGet theta 0 k2) k2)

theorem inner_eq (Pnk : List (Nat × List (Nat × Rat))) (theta : List (Nat × Rat)) (k1 : Nat)
    (h : alHas Pnk k1 = true) :
    inner Pnk theta k1 (alGet Pnk [] k1) =
      match ((alGet Pnk [] k1).map (·.1)).findSome? (rowErr theta) with
      | some e => .error e
      | none => .ok (rowSum theta (alGet Pnk [] k1)) := by
  unfold inner rowSum
  rw [foldlM_first _ (fun acc k2 => acc + alGet (alGet Pnk [] k1) 0 k2 * powm1 (alGet theta 0 k2) k2) (rowErr theta)]
  · rw [foldl_add_sum]; simp
  · intro k2 hk2 acc
    rw [dictGet_of_has Pnk k1 [] h]
    simp only [ok_bind]
    rw [dictGet_of_has _ k2 0 (alHas_of_mem_keys _ k2 hk2)]
    simp only [ok_bind]
    unfold rowErr
    by_cases hth : alHas theta k2 = true
    · rw [dictGet_of_has theta k2 0 hth, if_pos hth]
      simp only [ok_bind, zpowE_pred]
      by_cases hz : k2 = 0 ∧ alGet theta 0 k2 = 0
      · rw [if_pos hz, if_pos hz]; rfl
      · rw [if_neg hz, if_neg hz]; rfl
    · have hth' : alHas theta k2 = false := by simpa using hth
      rw [dictGet_of_not_has theta k2 hth', if_neg hth]; rfl

/-- what pass `k1` of loop 3 raises -/
def keyErr (Pnk : List (Nat × List (Nat × Rat))) (theta : List (Nat × Rat)) (k1 : Nat) : Option String :=
  if alHas Pnk k1 = true then ((alGet Pnk [] k1).map (·.1)).findSome? (rowErr theta) else some "KeyError"

def phiSval (rho : Rat) (Pnk : List (Nat × List (Nat × Rat))) (theta : List (Nat × Rat)) (k1 : Nat) : Rat :=
  (1 - rho) * rowSum theta (alGet Pnk [] k1)
def phiIval (rho : Rat) (Pnk : List (Nat × List (Nat × Rat))) (theta phiR : List (Nat × Rat)) (k1 : Nat) : Rat :=
  alGet theta 0 k1 - phiSval rho Pnk theta k1 - alGet phiR 0 k1

theorem loop3_eq (rho : Rat) (Pk : List (Nat × Rat)) (Pnk : List (Nat × List (Nat × Rat))) (theta phiR : List (Nat × Rat))
    (hth : ∀ k ∈ Pk.map (·.1), alHas theta k = true) (hph : ∀ k ∈ Pk.map (·.1), alHas phiR k = true) :
    loop3 rho Pk Pnk theta phiR =
      match (Pk.map (·.1)).findSome? (keyErr Pnk theta) with
      | some e => .error e
      | none => .ok ((Pk.map (·.1)).foldl (fun acc k => alSet acc k (phiSval rho Pnk theta k)) [],
                     (Pk.map (·.1)).foldl (fun acc k => alSet acc k (phiIval rho Pnk theta phiR k)) []) := by
  unfold loop3
  rw [foldlM_first _ (fun st k => (alSet st.1 k (phiSval rho Pnk theta k), alSet st.2 k (phiIval rho Pnk theta phiR k)))
    (keyErr Pnk theta)]
  · rw [foldl_pair (fun acc k => alSet acc k (phiSval rho Pnk theta k))
      (fun acc k => alSet acc k (phiIval rho Pnk theta phiR k))]
  · rintro k1 hk1 ⟨pS, pI⟩
    unfold keyErr
    by_cases hP : alHas Pnk k1 = true
    · rw [dictGet_of_has Pnk k1 [] hP, if_pos hP]
      simp only [ok_bind]
      rw [inner_eq Pnk theta k1 hP]
      cases hfs : ((alGet Pnk [] k1).map (·.1)).findSome? (rowErr theta) with
      | some e => rfl
      | none =>
        simp only [ok_bind]
        rw [dictGet_of_has theta k1 0 (hth k1 hk1), dictGet_of_has phiR k1 0 (hph k1 hk1)]
        simp only [ok_bind]
        rw [dictGet_of_has _ k1 0 ((alHas_alSet _ _ _ _).2 (Or.inr rfl))]
        simp only [ok_bind, alGet_alSet_self, pure_eq_ok]
        rfl
    · have hP' : alHas Pnk k1 = false := by simpa using hP
      rw [dictGet_of_not_has Pnk k1 hP', if_neg hP]; rfl

/-! ### loop 4 -/
theorem loop4_eq (tau gamma : Rat) (ks : List Nat) (phiI : List (Nat × Rat)) (init : List Rat)
    (h : ∀ k ∈ ks, alHas phiI k = true) :
    loop4 tau gamma ks phiI init = .ok (init ++ ks.flatMap fun k => [-tau * alGet phiI 0 k, gamma * alGet phiI 0 k]) := by
  unfold loop4
  rw [foldlM_first _ (fun st k => st ++ [-tau * alGet phiI 0 k, gamma * alGet phiI 0 k]) (fun _ => none),
    findSome_none _ _ (fun _ _ => rfl)]
  · simp only
    congr 1
    clear h
    induction ks generalizing init with
    | nil => simp
    | cons x t ih => rw [List.foldl_cons, ih]; simp
  · intro k hk st
    rw [dictGet_of_has phiI k 0 (h k hk)]
    rfl

/-! ### the whole function -/
theorem flatMap_congr_mem {α β : Type} (l : List α) (f g : α → List β) (h : ∀ x ∈ l, f x = g x) :
    l.flatMap f = l.flatMap g := by
  induction l with
  | nil => rfl
  | cons x t ih => simp only [List.flatMap_cons]; rw [h x (by simp), ih (fun y hy => h y (by simp [hy]))]

/-- the error raised after the state has been unpacked: the FIRST failing read in the order of the loops
(`k1` in `Pk.keys()` order, `k2` in `Pnk[k1].keys()` order) -/
def pmStatus (X : Gen.V) (Pk : List (Nat × Rat)) (Pnk : List (Nat × List (Nat × Rat))) : Option String :=
  (Pk.map (·.1)).findSome? (keyErr Pnk (thetaAL X (sortNat (Pk.map (·.1)))))

/-- the returned array when nothing raises -/
def pmResult (X : Gen.V) (rho tau gamma : Rat) (Pk : List (Nat × Rat)) (Pnk : List (Nat × List (Nat × Rat))) : Gen.V :=
  let ks := sortNat (Pk.map (·.1))
  let theta := thetaAL X ks
  let phiR := phiRAL X ks
  Gen.V.ofList ([gamma * ((1 - (1 - rho) * sSum Pk theta) - X.f 0)] ++
    ks.flatMap fun k => [-tau * phiIval rho Pnk theta phiR k, gamma * phiIval rho Pnk theta phiR k])

/-- **the generated function, all inputs**: IndexError first; then the first failing dict read / power; else the value -/
theorem gen_eq (X : Gen.V) (rho tau gamma : Rat) (Pk : List (Nat × Rat)) (Pnk : List (Nat × List (Nat × Rat))) :
    GenPM.dEBCM_pref_mix X rho tau gamma Pk Pnk =
      if X.n < 1 + 2 * Pk.length then .error "IndexError"
      else match pmStatus X Pk Pnk with
        | some e => .error e
        | none => .ok (pmResult X rho tau gamma Pk Pnk) := by
  rw [gen_unfold, vidx_zero, loop1_eq, sortNat_length, List.length_map]
  by_cases h0 : 0 < X.n
  swap
  · have hs : X.n < 1 + 2 * Pk.length := by omega
    rw [if_neg h0, if_pos hs]; rfl
  rw [if_pos h0]
  simp only [ok_bind]
  by_cases h1 : 2 * Pk.length < X.n ∨ sortNat (Pk.map (·.1)) = []
  swap
  · have hs : X.n < 1 + 2 * Pk.length := by omega
    rw [if_neg h1, if_pos hs]; rfl
  have hlen : ¬ X.n < 1 + 2 * Pk.length := by
    rcases h1 with h1 | h1
    · omega
    · have := sortNat_length (Pk.map (·.1))
      rw [h1] at this
      simp at this
      omega
  rw [if_pos h1, if_neg hlen]
  simp only [ok_bind]
  have hth : ∀ k ∈ Pk.map (·.1), alHas (thetaAL X (sortNat (Pk.map (·.1)))) k = true :=
    fun k hk => (thetaAL_has _ _ _).2 ((mem_sortNat _ _).2 hk)
  have hph : ∀ k ∈ Pk.map (·.1), alHas (phiRAL X (sortNat (Pk.map (·.1)))) k = true :=
    fun k hk => (phiRAL_has _ _ _).2 ((mem_sortNat _ _).2 hk)
  rw [loop2_eq Pk _ hth]
  simp only [ok_bind]
  rw [loop3_eq rho Pk Pnk _ _ hth hph]
  unfold pmStatus
  cases hst : (Pk.map (·.1)).findSome? (keyErr Pnk (thetaAL X (sortNat (Pk.map (·.1))))) with
  | some e => rfl
  | none =>
    simp only [ok_bind]
    rw [loop4_eq]
    · simp only [ok_bind, pure_eq_ok, pmResult]
      congr 3
      apply flatMap_congr_mem
      intro k hk
      rw [fold_alSet_get_key _ _ _ _ _ ((mem_sortNat _ _).1 hk)]
    · intro k hk
      have := fold_alSet_has (fun k : Nat => k)
        (phiIval rho Pnk (thetaAL X (sortNat (Pk.map (·.1)))) (phiRAL X (sortNat (Pk.map (·.1))))) (Pk.map (·.1)) [] k
      rw [this]
      right
      simpa using (mem_sortNat _ _).1 hk

/-! ### when nothing raises / what is raised -/
section Status
variable (X : Gen.V) (Pk : List (Nat × Rat)) (Pnk : List (Nat × List (Nat × Rat)))

/-- every key of `Pk` has a row in `Pnk` -/
def RowsOK : Prop := ∀ k1 ∈ Pk.map (·.1), k1 ∈ Pnk.map (·.1)
/-- every key of a row `Pnk[k1]` (`k1` a key of `Pk`) is a key of `Pk` -/
def RowKeysOK : Prop := ∀ k1 ∈ Pk.map (·.1), ∀ k2 ∈ (alGet Pnk [] k1).map (·.1), k2 ∈ Pk.map (·.1)
/-- `theta[0]` as the generated code reads it -/
def theta0 : Rat := alGet (thetaAL X (sortNat (Pk.map (·.1)))) 0 0
/-- no `0.0 ** (-1)`: no row has the key 0, or θ_0 ≠ 0 -/
def NoZeroPow : Prop := ∀ k1 ∈ Pk.map (·.1), 0 ∈ (alGet Pnk [] k1).map (·.1) → theta0 X Pk ≠ 0

theorem rowErr_none_iff (theta : List (Nat × Rat)) (k2 : Nat) :
    rowErr theta k2 = none ↔ (alHas theta k2 = true ∧ ¬ (k2 = 0 ∧ alGet theta 0 k2 = 0)) := by
  unfold rowErr
  by_cases h : alHas theta k2 = true
  · by_cases h2 : k2 = 0 ∧ alGet theta 0 k2 = 0
    · rw [if_pos h, if_pos h2]
      constructor
      · intro hh; cases hh
      · intro hh; exact absurd h2 hh.2
    · rw [if_pos h, if_neg h2]; simp [h, h2]
  · simp [h]

theorem rowErr_key_iff (theta : List (Nat × Rat)) (k2 : Nat) :
    rowErr theta k2 = some "KeyError" ↔ alHas theta k2 = false := by
  unfold rowErr
  by_cases h : alHas theta k2 = true
  · by_cases h2 : k2 = 0 ∧ alGet theta 0 k2 = 0
    · rw [if_pos h, if_pos h2]; simp [h]
    · rw [if_pos h, if_neg h2]; simp [h]
  · simp [h]

theorem rowErr_zero_iff (theta : List (Nat × Rat)) (k2 : Nat) :
    rowErr theta k2 = some "ZeroDivisionError" ↔ (alHas theta k2 = true ∧ k2 = 0 ∧ alGet theta 0 k2 = 0) := by
  unfold rowErr
  by_cases h : alHas theta k2 = true
  · by_cases h2 : k2 = 0 ∧ alGet theta 0 k2 = 0
    · rw [if_pos h, if_pos h2]; exact ⟨fun _ => ⟨h, h2⟩, fun _ => rfl⟩
    · rw [if_pos h, if_neg h2]; simp [h, h2]
  · simp [h]

theorem pmStatus_none_iff : pmStatus X Pk Pnk = none ↔ (RowsOK Pk Pnk ∧ RowKeysOK Pk Pnk ∧ NoZeroPow X Pk Pnk) := by
  unfold pmStatus RowsOK RowKeysOK NoZeroPow theta0
  rw [List.findSome?_eq_none_iff]
  constructor
  · intro h
    have h' : ∀ k1 ∈ Pk.map (·.1), alHas Pnk k1 = true ∧ ∀ k2 ∈ (alGet Pnk [] k1).map (·.1),
        rowErr (thetaAL X (sortNat (Pk.map (·.1)))) k2 = none := by
      intro k1 hk1
      have := h k1 hk1
      unfold keyErr at this
      by_cases hP : alHas Pnk k1 = true
      · rw [if_pos hP, List.findSome?_eq_none_iff] at this
        exact ⟨hP, this⟩
      · rw [if_neg hP] at this; cases this
    refine ⟨fun k1 hk1 => (mem_alKeys_iff Pnk k1).2 (h' k1 hk1).1, ?_, ?_⟩
    · intro k1 hk1 k2 hk2
      have := ((rowErr_none_iff _ _).1 ((h' k1 hk1).2 k2 hk2)).1
      exact (mem_sortNat _ _).1 ((thetaAL_has _ _ _).1 this)
    · intro k1 hk1 h0 hz
      exact ((rowErr_none_iff _ _).1 ((h' k1 hk1).2 0 h0)).2 ⟨rfl, hz⟩
  · rintro ⟨hr, hk, hz⟩ k1 hk1
    unfold keyErr
    rw [if_pos ((mem_alKeys_iff Pnk k1).1 (hr k1 hk1)), List.findSome?_eq_none_iff]
    intro k2 hk2
    rw [rowErr_none_iff]
    refine ⟨(thetaAL_has _ _ _).2 ((mem_sortNat _ _).2 (hk k1 hk1 k2 hk2)), ?_⟩
    rintro ⟨rfl, h0⟩
    exact hz k1 hk1 hk2 h0

/-- nested first-error search with a single possible error -/
theorem keyErr_const (theta : List (Nat × Rat)) (e : String) (l : List Nat)
    (h : ∀ k1 ∈ l, alHas Pnk k1 = true → ∀ k2 ∈ (alGet Pnk [] k1).map (·.1), rowErr theta k2 = none ∨ rowErr theta k2 = some e)
    (he : e = "KeyError" ∨ ∀ k1 ∈ l, alHas Pnk k1 = true)
    (hex : l.findSome? (keyErr Pnk theta) ≠ none) :
    l.findSome? (keyErr Pnk theta) = some e := by
  have hk : ∀ k1 ∈ l, keyErr Pnk theta k1 = none ∨ keyErr Pnk theta k1 = some e := by
    intro k1 hk1
    unfold keyErr
    by_cases hP : alHas Pnk k1 = true
    · rw [if_pos hP]
      cases hfs : ((alGet Pnk [] k1).map (·.1)).findSome? (rowErr theta) with
      | none => exact Or.inl rfl
      | some e' =>
        right
        obtain ⟨k2, hk2, hk2'⟩ := List.exists_of_findSome?_eq_some hfs
        rcases h k1 hk1 hP k2 hk2 with h' | h'
        · rw [h'] at hk2'; cases hk2'
        · rw [h'] at hk2'; exact hk2'.symm
    · rw [if_neg hP]
      rcases he with rfl | he
      · exact Or.inr rfl
      · exact absurd (he k1 hk1) hP
  apply findSome_const _ e l hk
  by_contra hne
  apply hex
  rw [List.findSome?_eq_none_iff]
  intro k1 hk1
  rcases hk k1 hk1 with h' | h'
  · exact h'
  · exact absurd ⟨k1, hk1, h'⟩ hne

/-- a missing row or a foreign row key, and no zero power: KeyError -/
theorem pmStatus_key (hbad : ¬ (RowsOK Pk Pnk ∧ RowKeysOK Pk Pnk)) (hz : NoZeroPow X Pk Pnk) :
    pmStatus X Pk Pnk = some "KeyError" := by
  unfold pmStatus
  apply keyErr_const
  · intro k1 hk1 _ k2 hk2
    by_cases hth : alHas (thetaAL X (sortNat (Pk.map (·.1)))) k2 = true
    · left
      rw [rowErr_none_iff]
      refine ⟨hth, ?_⟩
      rintro ⟨rfl, h0⟩
      exact hz k1 hk1 hk2 h0
    · right
      rw [rowErr_key_iff]; simpa using hth
  · exact Or.inl rfl
  · intro hn
    exact hbad ⟨((pmStatus_none_iff X Pk Pnk).1 hn).1, ((pmStatus_none_iff X Pk Pnk).1 hn).2.1⟩

/-- all rows present, all row keys known, but a key 0 in a row with θ_0 = 0: ZeroDivisionError -/
theorem pmStatus_zero (hr : RowsOK Pk Pnk) (hk : RowKeysOK Pk Pnk) (hz : ¬ NoZeroPow X Pk Pnk) :
    pmStatus X Pk Pnk = some "ZeroDivisionError" := by
  unfold pmStatus
  apply keyErr_const
  · intro k1 hk1 _ k2 hk2
    have hth : alHas (thetaAL X (sortNat (Pk.map (·.1)))) k2 = true :=
      (thetaAL_has _ _ _).2 ((mem_sortNat _ _).2 (hk k1 hk1 k2 hk2))
    by_cases h2 : k2 = 0 ∧ alGet (thetaAL X (sortNat (Pk.map (·.1)))) 0 k2 = 0
    · right; rw [rowErr_zero_iff]; exact ⟨hth, h2⟩
    · left; rw [rowErr_none_iff]; exact ⟨hth, h2⟩
  · exact Or.inr (fun k1 hk1 => (mem_alKeys_iff Pnk k1).1 (hr k1 hk1))
  · intro hn
    exact hz ((pmStatus_none_iff X Pk Pnk).1 hn).2.2

theorem pmStatus_cases : pmStatus X Pk Pnk = none ∨ pmStatus X Pk Pnk = some "KeyError" ∨
    pmStatus X Pk Pnk = some "ZeroDivisionError" := by
  by_cases h1 : RowsOK Pk Pnk ∧ RowKeysOK Pk Pnk
  · by_cases h2 : NoZeroPow X Pk Pnk
    · exact Or.inl ((pmStatus_none_iff X Pk Pnk).2 ⟨h1.1, h1.2, h2⟩)
    · exact Or.inr (Or.inr (pmStatus_zero X Pk Pnk h1.1 h1.2 h2))
  · by_cases h2 : NoZeroPow X Pk Pnk
    · exact Or.inr (Or.inl (pmStatus_key X Pk Pnk h1 h2))
    · -- both defects: whichever read comes first
      unfold pmStatus
      cases hfs : (Pk.map (·.1)).findSome? (keyErr Pnk (thetaAL X (sortNat (Pk.map (·.1))))) with
      | none => exact Or.inl rfl
      | some e =>
        right
        obtain ⟨k1, _, hk1'⟩ := List.exists_of_findSome?_eq_some hfs
        unfold keyErr at hk1'
        by_cases hP : alHas Pnk k1 = true
        · rw [if_pos hP] at hk1'
          obtain ⟨k2, _, hk2'⟩ := List.exists_of_findSome?_eq_some hk1'
          unfold rowErr at hk2'
          split at hk2'
          · split at hk2'
            · right; cases hk2'; rfl
            · cases hk2'
          · left; cases hk2'; rfl
        · rw [if_neg hP] at hk1'; left; cases hk1'; rfl
end Status

/-! ### the value against `ODE.ebcmPrefMix` -/

/-- a sum over a sub-collection of keys equals the sum over all keys when the summand vanishes on the others -/
theorem sumRat_subset (G : Nat → Rat) (l2 : List Nat) :
    ∀ l1 : List Nat, l1.Nodup → (∀ k ∈ l1, k ∈ l2) → l2.Nodup → (∀ k ∈ l2, k ∉ l1 → G k = 0) →
      sumRat (l1.map G) = sumRat (l2.map G) := by
  induction l2 with
  | nil =>
    intro l1 _ hs _ _
    cases l1 with
    | nil => rfl
    | cons a t => exact absurd (hs a (by simp)) (by simp)
  | cons a t ih =>
    intro l1 hn1 hs hn2 h0
    rw [List.nodup_cons] at hn2
    by_cases ha : a ∈ l1
    · have hp := List.perm_cons_erase ha
      rw [sumRat_perm (hp.map G), List.map_cons, List.map_cons, sumRat_cons, sumRat_cons]
      congr 1
      apply ih _ (hn1.erase a)
      · intro k hk
        have hk' := (hn1.mem_erase_iff).1 hk
        rcases List.mem_cons.1 (hs k hk'.2) with h | h
        · exact absurd h hk'.1
        · exact h
      · exact hn2.2
      · intro k hk hk'
        apply h0 k (by simp [hk])
        intro hk1
        apply hk'
        rw [hn1.mem_erase_iff]
        refine ⟨?_, hk1⟩
        rintro rfl
        exact hn2.1 hk
    · rw [List.map_cons, sumRat_cons, h0 a (by simp) ha, zero_add]
      apply ih _ hn1
      · intro k hk
        rcases List.mem_cons.1 (hs k hk) with h | h
        · subst h; exact absurd hk ha
        · exact h
      · exact hn2.2
      · intro k hk hk'
        exact h0 k (by simp [hk]) hk'

theorem getD_flatMap_pair (a b : Nat → Rat) (l : List Nat) (i : Nat) (h : i < l.length) :
    (l.flatMap fun k => [a k, b k]).getD (2 * i) 0 = a l[i] ∧
    (l.flatMap fun k => [a k, b k]).getD (2 * i + 1) 0 = b l[i] := by
  induction l generalizing i with
  | nil => simp at h
  | cons x t ih =>
    rcases i with _ | i
    · simp
    · have hi : i < t.length := by simpa using h
      have := ih i hi
      have e1 : 2 * (i + 1) = (2 * i) + 1 + 1 := by ring
      have e2 : 2 * (i + 1) + 1 = (2 * i + 1) + 1 + 1 := by ring
      simp only [List.flatMap_cons, List.cons_append, List.nil_append, e1, List.getD_cons_succ,
        List.getElem_cons_succ]
      exact this

theorem length_flatMap_pair (a b : Nat → Rat) (l : List Nat) :
    (l.flatMap fun k => [a k, b k]).length = 2 * l.length := by
  induction l with
  | nil => rfl
  | cons x t ih => simp only [List.flatMap_cons, List.length_append, ih, List.length_cons, List.length_nil]; ring

section Value
variable (X : Gen.V) (rho tau gamma : Rat) (Pk : List (Nat × Rat)) (Pnk : List (Nat × List (Nat × Rat)))

theorem pmResult_n : (pmResult X rho tau gamma Pk Pnk).n = 1 + 2 * (sortNat (Pk.map (·.1))).length := by
  simp only [pmResult, Gen.V.ofList_n, List.length_append, length_flatMap_pair, List.length_cons, List.length_nil]

theorem pmResult_f0 : (pmResult X rho tau gamma Pk Pnk).f 0 =
    gamma * ((1 - (1 - rho) * sSum Pk (thetaAL X (sortNat (Pk.map (·.1))))) - X.f 0) := by
  simp [pmResult, Gen.V.ofList]

theorem pmResult_f (i : Nat) (h : i < (sortNat (Pk.map (·.1))).length) :
    let ks := sortNat (Pk.map (·.1))
    (pmResult X rho tau gamma Pk Pnk).f (1 + 2 * i) = -tau * phiIval rho Pnk (thetaAL X ks) (phiRAL X ks) ks[i] ∧
    (pmResult X rho tau gamma Pk Pnk).f (2 + 2 * i) = gamma * phiIval rho Pnk (thetaAL X ks) (phiRAL X ks) ks[i] := by
  intro ks
  have := getD_flatMap_pair (fun k => -tau * phiIval rho Pnk (thetaAL X ks) (phiRAL X ks) k)
    (fun k => gamma * phiIval rho Pnk (thetaAL X ks) (phiRAL X ks) k) ks i h
  have e1 : 1 + 2 * i = (2 * i) + 1 := by ring
  have e2 : 2 + 2 * i = (2 * i + 1) + 1 := by ring
  simp only [pmResult, Gen.V.ofList, List.singleton_append, e1, e2, List.getD_cons_succ]
  exact this

/-- θ_d, φR_d read off the flat state by the position of `d` among the sorted keys -/
def thetaF (ks : List Nat) (d : Nat) : Rat := X.f (1 + 2 * ks.idxOf d)
def phiRF (ks : List Nat) (d : Nat) : Rat := X.f (2 + 2 * ks.idxOf d)
/-- `Pk.get(d, 0)`, `Pnk.get(d, {}).get(d', 0)` -/
def PkF (d : Nat) : Rat := alGet Pk 0 d
def PnkF (d d' : Nat) : Rat := alGet (alGet Pnk [] d) 0 d'

theorem sSum_eq (hn : (Pk.map (·.1)).Nodup) :
    sSum Pk (thetaAL X (sortNat (Pk.map (·.1)))) =
      sumRat ((sortNat (Pk.map (·.1))).map fun d => PkF Pk d * thetaF X (sortNat (Pk.map (·.1))) d ^ d) := by
  unfold sSum
  rw [← sumRat_perm ((sortNat_perm (Pk.map (·.1))).map _)]
  apply sumRat_map_congr
  intro d hd
  rw [thetaAL_get_idx X _ ((sortNat_nodup _).2 hn) 0 d hd]
  rfl

theorem phiIval_eq (hn : (Pk.map (·.1)).Nodup) (k1 : Nat) (hk1 : k1 ∈ Pk.map (·.1))
    (hrn : ((alGet Pnk [] k1).map (·.1)).Nodup)
    (hsub : ∀ k2 ∈ (alGet Pnk [] k1).map (·.1), k2 ∈ Pk.map (·.1))
    (hz : PnkF Pnk k1 0 = 0 ∨ thetaF X (sortNat (Pk.map (·.1))) 0 = 1) :
    let ks := sortNat (Pk.map (·.1))
    phiIval rho Pnk (thetaAL X ks) (phiRAL X ks) k1 =
      thetaF X ks k1 - (1 - rho) * sumRat (ks.map fun d' => PnkF Pnk k1 d' * thetaF X ks d' ^ (d' - 1)) - phiRF X ks k1 := by
  intro ks
  have hnk : ks.Nodup := (sortNat_nodup _).2 hn
  have hk1' : k1 ∈ ks := (mem_sortNat _ _).2 hk1
  unfold phiIval phiSval rowSum
  rw [thetaAL_get_idx X ks hnk 0 k1 hk1', phiRAL_get_idx X ks hnk 0 k1 hk1']
  have hs : sumRat (((alGet Pnk [] k1).map (·.1)).map fun k2 => alGet (alGet Pnk [] k1) 0 k2 * powm1 (alGet (thetaAL X ks) 0 k2) k2)
      = sumRat (((alGet Pnk [] k1).map (·.1)).map fun d' => PnkF Pnk k1 d' * thetaF X ks d' ^ (d' - 1)) := by
    apply sumRat_map_congr
    intro k2 hk2
    rw [thetaAL_get_idx X ks hnk 0 k2 ((mem_sortNat _ _).2 (hsub k2 hk2))]
    change PnkF Pnk k1 k2 * powm1 (thetaF X ks k2) k2 = _
    by_cases h0 : k2 = 0
    · subst h0
      rcases hz with hz | hz
      · rw [hz]; simp
      · rw [hz]; simp [powm1]
    · rw [powm1_pos _ _ h0]
  rw [hs, sumRat_subset (fun d' => PnkF Pnk k1 d' * thetaF X ks d' ^ (d' - 1)) ks _ hrn
    (fun k hk => (mem_sortNat _ _).2 (hsub k hk)) hnk]
  · rfl
  · intro k _ hk
    have : PnkF Pnk k1 k = 0 := alGet_of_not_key _ 0 k hk
    simp [this]
end Value

/-! ### the key 0 is first among the sorted keys, so θ_0 is `X[1]` -/
theorem sortNat_fold_head (l acc : List Nat) (h : 0 ∈ acc → acc.head? = some 0) :
    let r := l.foldl (fun acc x => (acc.filter (· ≤ x)) ++ [x] ++ (acc.filter (fun y => ¬ (y ≤ x)))) acc
    0 ∈ r → r.head? = some 0 := by
  induction l generalizing acc with
  | nil => exact h
  | cons x t ih =>
    rw [List.foldl_cons]
    apply ih
    intro h0
    by_cases ha : 0 ∈ acc
    · have := h ha
      cases acc with
      | nil => simp at ha
      | cons a s =>
        simp only [List.head?_cons, Option.some.injEq] at this
        subst this
        simp
    · rcases x with _ | x
      · have : acc.filter (fun y => decide (y ≤ 0)) = [] := by
          rw [List.filter_eq_nil_iff]
          intro y hy
          have : y ≠ 0 := fun e => ha (e ▸ hy)
          simp [this]
        rw [this]; simp
      · exfalso
        simp only [List.mem_append, List.mem_filter, List.mem_singleton] at h0
        rcases h0 with (h0 | h0) | h0
        · exact ha h0.1
        · cases h0
        · exact ha h0.1

theorem sortNat_idxOf_zero (l : List Nat) (h : 0 ∈ l) : (sortNat l).idxOf 0 = 0 := by
  have := sortNat_fold_head l [] (by simp) ((mem_sortNat l 0).2 h)
  change (sortNat l).head? = some 0 at this
  cases hs : sortNat l with
  | nil => rw [hs] at this; cases this
  | cons a t =>
    rw [hs] at this
    simp only [List.head?_cons, Option.some.injEq] at this
    subst this
    simp

/-- for a dict `Pk` (distinct keys) with the key 0, `theta[0]` is `X[1]` -/
theorem theta0_eq (X : Gen.V) (Pk : List (Nat × Rat)) (hn : (Pk.map (·.1)).Nodup) (h0 : 0 ∈ Pk.map (·.1)) :
    theta0 X Pk = X.f 1 := by
  unfold theta0
  rw [thetaAL_get_idx X _ ((sortNat_nodup _).2 hn) 0 0 ((mem_sortNat _ _).2 h0), sortNat_idxOf_zero _ h0]
end GenPMProofs

/-! ### the entry point `EBCM_pref_mix` for an arbitrary right-hand side -/
namespace GenPMGlue
open Gen PyGlue PyGlue2 GenGlue2Proofs GenHelpProofs
open GenGlueProofs (Solver RowZero linspace_zero)

theorem forIn_ok_mem {σ ι : Type} (l : List ι) (body : ι → σ → Except String (ForInStep σ)) (h : σ → ι → σ)
    (hb : ∀ x ∈ l, ∀ s, body x s = .ok (ForInStep.yield (h s x))) (a : σ) :
    forIn l a body = .ok (l.foldl h a) := by
  induction l generalizing a with
  | nil => rfl
  | cons x t ih =>
    rw [List.forIn_cons, hb x (by simp)]
    simp only [GenHelpProofs.ok_bind, List.foldl_cons]
    exact ih (fun y hy => hb y (by simp [hy])) _

theorem mapM_ok_mem {α β : Type} (f : α → Except String β) (g : α → β) (l : List α) (h : ∀ a ∈ l, f a = .ok (g a)) :
    l.mapM f = .ok (l.map g) := by
  induction l with
  | nil => rfl
  | cons a t ih =>
    rw [List.mapM_cons, h a (by simp), ih (fun b hb => h b (by simp [hb]))]; rfl

/-- `d.get(k, dflt)` on the dicts of `PyGlue2` -/
def dGetD {α : Type} (d : List (Nat × α)) (dflt : α) (k : Nat) : α :=
  match d with
  | [] => dflt
  | (k', v) :: t => if k' = k then v else dGetD t dflt k

theorem dGet_of_mem {α : Type} (d : List (Nat × α)) (dflt : α) (k : Nat) (h : k ∈ d.map (·.1)) :
    dGet d k = .ok (dGetD d dflt k) := by
  induction d with
  | nil => simp at h
  | cons p t ih =>
    obtain ⟨k', v⟩ := p
    by_cases hk : k' = k
    · simp [dGet, dGetD, hk]
    · have : k ∈ t.map (·.1) := by
        rcases List.mem_cons.1 h with h | h
        · exact absurd h.symm hk
        · exact h
      have ih' := ih this
      unfold dGet at ih' ⊢
      simp only [List.find?_cons, dGetD, hk, if_false]
      have : ((k', v).1 == k) = false := by simpa using hk
      rw [this]
      exact ih'

theorem dSet_keys {α : Type} (d : List (Nat × α)) (k : Nat) (v : α) (k' : Nat) :
    k' ∈ (dSet d k v).map (·.1) ↔ (k' ∈ d.map (·.1) ∨ k' = k) := by
  induction d with
  | nil => simp [dSet]
  | cons p t ih =>
    obtain ⟨a, w⟩ := p
    by_cases ha : a = k
    · subst ha; simp [dSet]; tauto
    · simp only [dSet, ha, if_false, List.map_cons, List.mem_cons, ih]
      tauto

theorem dGetD_dSet {α : Type} (P : α → Prop) (d : List (Nat × α)) (dflt : α) (k : Nat) (v : α) (k' : Nat)
    (hd : P (dGetD d dflt k')) (hv : P v) : P (dGetD (dSet d k v) dflt k') := by
  induction d with
  | nil =>
    simp only [dSet, dGetD]
    split
    · exact hv
    · exact hd
  | cons p t ih =>
    obtain ⟨a, w⟩ := p
    by_cases ha : a = k
    · subst ha
      simp only [dSet, if_true, dGetD] at hd ⊢
      split
      · exact hv
      · rename_i h; rw [if_neg h] at hd; exact hd
    · simp only [dSet, ha, if_false, dGetD] at hd ⊢
      split
      · rename_i h; rw [if_pos h] at hd; exact hd
      · rename_i h; rw [if_neg h] at hd; exact ih hd

theorem fold_inv {σ ι : Type} (l : List ι) (h : σ → ι → σ) (Inv : σ → Prop)
    (hstep : ∀ s, ∀ x ∈ l, Inv s → Inv (h s x)) (a : σ) (ha : Inv a) : Inv (l.foldl h a) := by
  induction l generalizing a with
  | nil => exact ha
  | cons x t ih =>
    rw [List.foldl_cons]
    exact ih (fun s y hy => hstep s y (by simp [hy])) _ (hstep a x (by simp) ha)

abbrev TS := List (Nat × (Nat → Rat))

theorem fold_dSet_keys (l : List (Nat × Nat)) (v1 v2 : Nat × Nat → (Nat → Rat)) (a : TS × TS) (k : Nat) :
    k ∈ (l.foldl (fun st x => (dSet st.1 x.2 (v1 x), dSet st.2 x.2 (v2 x))) a).1.map (·.1) ↔
      (k ∈ a.1.map (·.1) ∨ k ∈ l.map (·.2)) := by
  induction l generalizing a with
  | nil => simp
  | cons x t ih =>
    rw [List.foldl_cons, ih, dSet_keys]
    simp only [List.map_cons, List.mem_cons]
    tauto

/-- the initial condition `[0, 1, 0, 1, 0, …]` built by the first loop of `EBCM_pref_mix` -/
def pmIC (ks : List Nat) : List Rat := ks.foldl (fun s _ => s ++ [1, 0]) [0]

theorem pmIC_fold (ks : List Nat) (init : List Rat) :
    ks.foldl (fun s _ => s ++ [(1 : Rat), 0]) init = init ++ ks.flatMap fun _ => [(1 : Rat), 0] := by
  induction ks generalizing init with
  | nil => simp
  | cons x t ih => rw [List.foldl_cons, ih]; simp

theorem pmIC_eq (ks : List Nat) : pmIC ks = [0] ++ ks.flatMap fun _ => [(1 : Rat), 0] := pmIC_fold ks [0]

theorem pmIC_length (ks : List Nat) : (pmIC ks).length = 1 + 2 * ks.length := by
  rw [pmIC_eq, List.length_append, GenPMProofs.length_flatMap_pair]; rfl

theorem pmIC_odd (ks : List Nat) (j : Nat) (h : j < ks.length) : (V.ofList (pmIC ks)).f (1 + 2 * j) = 1 := by
  have := (GenPMProofs.getD_flatMap_pair (fun _ => 1) (fun _ => 0) ks j h).1
  have e1 : 1 + 2 * j = (2 * j) + 1 := by ring
  simp only [V.ofList, pmIC_eq, List.singleton_append, e1, List.getD_cons_succ]
  exact this

theorem pmIC_zero (ks : List Nat) : (V.ofList (pmIC ks)).f 0 = 0 := by
  simp [V.ofList, pmIC_eq]

/-- the dicts `theta`, `phiR` of time series built by the second loop -/
def pmTheta (Xs : Nat → V) (ks : List Nat) : TS × TS :=
  (PyGlue2.enum ks).foldl (fun st x => (dSet st.1 x.2 (fun i => (Xs i).f (1 + 2 * x.1)),
    dSet st.2 x.2 (fun i => (Xs i).f (1 + 2 * x.1)))) ([], [])

def outPM (T : Nat → Rat) (N r : Rat) (Pk : List (Nat × Rat)) (theta : TS) (full : Bool) (Xs : Nat → V) : List Out :=
  let S : Nat → Rat := fun i => (1 - r) * sumRat (((Pk.map (·.1)).map
    (fun k => fun i => dGetD Pk 0 k * dGetD theta (fun _ => 1) k i ^ k)).map fun f => f i)
  if full then [Out.s T, Out.s (fun i => N * S i), Out.s (fun i => N * (1 - S i - (Xs i).f 0)), Out.s (fun i => N * (Xs i).f 0), Out.d theta]
  else [Out.s T, Out.s (fun i => N * S i), Out.s (fun i => N * (1 - S i - (Xs i).f 0)), Out.s (fun i => N * (Xs i).f 0)]

theorem EBCM_pref_mix_call (odeint myodeint : Solver)
    (rhs : Rat → Rat → Rat → List (Nat × Rat) → List (Nat × List (Nat × Rat)) → V → V) (N : Rat)
    (Pk : List (Nat × Rat)) (Pnk : List (Nat × List (Nat × Rat))) (tau gamma r tmin tmax : Rat) (tcount : Nat) (full : Bool) :
    let ks := sortNat (Pk.map (·.1))
    let Xs := odeint (fun st => rhs r tau gamma Pk Pnk st) (V.ofList (pmIC ks))
    GenGlue2.EBCM_pref_mix odeint myodeint rhs N Pk Pnk tau gamma (some r) tmin tmax tcount full =
      .ok (V.ofList (pmIC ks), outPM (linspace tmin tmax tcount) N r Pk (pmTheta Xs ks).1 full Xs) := by
  intro ks Xs
  unfold GenGlue2.EBCM_pref_mix
  simp only [Option.isNone_some, Bool.false_eq_true, if_false, PyGlue2.need, GenHelpProofs.pure_eq_ok]
  rw [forIn_ok_mem _ _ (fun s _ => s ++ [1, 0]) (fun _ _ _ => rfl)]
  simp only [GenHelpProofs.ok_bind]
  change (if ¬ 0 < (V.ofList (pmIC ks)).n then _ else _) = _
  have hn : (V.ofList (pmIC ks)).n = 1 + 2 * ks.length := pmIC_length ks
  rw [if_neg (by rw [hn]; omega)]
  rw [forIn_ok_mem _ _ (fun st x => (dSet st.1 x.2 (fun i => (Xs i).f (1 + 2 * x.1)),
    dSet st.2 x.2 (fun i => (Xs i).f (1 + 2 * x.1))))]
  · simp only [GenHelpProofs.ok_bind]
    rw [mapM_ok_mem _ (fun k => fun i => dGetD Pk 0 k * dGetD (pmTheta Xs ks).1 (fun _ => 1) k i ^ k)]
    · cases full <;> rfl
    · intro k hk
      change (do
        let t_1 ← dGet Pk k
        let t_2 ← dGet (pmTheta Xs ks).1 k
        Except.ok fun i => t_1 * t_2 i ^ k) = _
      rw [dGet_of_mem Pk 0 k hk, dGet_of_mem (pmTheta Xs ks).1 (fun _ => 1) k]
      · rfl
      · unfold pmTheta
        rw [fold_dSet_keys, GenPMProofs.enum_snd]
        exact Or.inr ((GenPMProofs.mem_sortNat _ _).2 hk)
  · intro x hx s
    have hx1 : x.1 < ks.length := by
      have : x.1 ∈ (PyGlue2.enum ks).map (·.1) := List.mem_map_of_mem hx
      rw [GenPMProofs.enum_fst] at this
      exact List.mem_range.1 this
    have : 1 + 2 * x.1 < (V.ofList (pmIC ks)).n := by rw [hn]; omega
    have hn' : ¬ ¬ 1 + 2 * x.1 < (V.ofList (ks.foldl (fun s _ => s ++ [(1 : Rat), 0]) [0])).n := not_not.2 this
    rw [if_neg hn', if_neg hn']
    rfl

theorem pmTheta_one (Xs : Nat → V) (ks : List Nat) (h : ∀ j, j < ks.length → (Xs 0).f (1 + 2 * j) = 1) (k : Nat) :
    dGetD (pmTheta Xs ks).1 (fun _ => 1) k 0 = 1 := by
  unfold pmTheta
  apply fold_inv (PyGlue2.enum ks) _ (fun st : TS × TS => dGetD st.1 (fun _ => 1) k 0 = 1)
  · intro s x hx hs
    have hx1 : x.1 < ks.length := by
      have : x.1 ∈ (PyGlue2.enum ks).map (·.1) := List.mem_map_of_mem hx
      rw [GenPMProofs.enum_fst] at this
      exact List.mem_range.1 this
    exact dGetD_dSet (fun t : Nat → Rat => t 0 = 1) s.1 _ x.2 _ k hs (h x.1 hx1)
  · rfl

theorem dGetD_eq_alGet (d : List (Nat × Rat)) (k : Nat) : dGetD d 0 k = alGet d 0 k := by
  induction d with
  | nil => rfl
  | cons p t ih => obtain ⟨a, w⟩ := p; simp only [dGetD, alGet, ih]
end GenPMGlue
