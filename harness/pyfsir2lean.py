#!/usr/bin/env python3
"""pyfsir2lean — translator for what `fast_SIR` adds on top of `fast_nonMarkov_SIR`
-> lean/EoNVerif/Gen/FastSIRGen.lean (namespace GenFSIR; runtime Gen/PyFS.lean).

Translated from the ast of /repo's working tree:
  EoN/simulation.py : _truncated_exponential_, _trans_and_rec_time_Markovian_const_trans_,
                      _find_trans_and_rec_delays_SIR_, the dispatch at the head of fast_SIR (incl. its two nested time
                      functions and what it hands to fast_nonMarkov_SIR), and fast_nonMarkov_SIR's choice of
                      _find_trans_and_rec_delays_SIR_ when separate time functions are given;
  EoN/__init__.py   : _get_rate_functions_ (the four lambdas).
The event loop itself is the code generated from fast_nonMarkov_SIR (Gen/EventSIRGen.lean, pyevent2lean.py); the rule
generated here is plugged into it (`GenFSIR.fast_SIR`).
`np.exp` on floats is a parameter (`exp : Rat → Rat`); the weight look-ups `G.adj[x][y][label]`, `G.nodes[x][label]`
are `Except`-valued parameters (KeyError when missing).  Expressions are translated structurally; the statement
shapes are checked against the ast.  Anything else raises Unsupported — an undischarged obligation.
"""
import ast, os, sys, hashlib

REPO = os.environ.get("EON_REPO", "/repo")


class Unsupported(Exception):
    pass


def body_of(fn):
    return [s for s in fn.body if not (isinstance(s, ast.Expr) and isinstance(s.value, ast.Constant))]


class E:
    """expression translator; env: name -> kind (rat, int, nat, node, nodes, erat, rate1, rate2, cb1, cb2, td)"""
    def __init__(self, env, ind):
        self.env, self.ind, self.pre, self.n = dict(env), ind, [], 0

    def tmp(self, b):
        self.n += 1
        return f"{b}_{self.n}"

    def emit(self, line):
        self.pre.append(self.ind + line)

    def ex(self, e):
        src = ast.unparse(e)
        if isinstance(e, ast.Constant) and isinstance(e.value, int) and not isinstance(e.value, bool):
            return f"({e.value} : Rat)", "rat"
        if isinstance(e, ast.Name) and e.id in self.env:
            return e.id, self.env[e.id]
        if src == "float('Inf')":
            return "(none : ERat)", "erat"
        if isinstance(e, ast.UnaryOp) and isinstance(e.op, ast.USub):
            a, k = self.ex(e.operand)
            if k == "rat":
                return f"(-{a})", "rat"
        if isinstance(e, ast.BinOp) and isinstance(e.op, (ast.Add, ast.Sub, ast.Mult)):
            a, ka = self.ex(e.left)
            b, kb = self.ex(e.right)
            sym = {ast.Add: "+", ast.Sub: "-", ast.Mult: "*"}[type(e.op)]
            conv = lambda t, k: t if k == "rat" else f"(({t} : Int) : Rat)"
            if {ka, kb} <= {"rat", "int"}:
                return f"({conv(a, ka)} {sym} {conv(b, kb)})", "rat"
            raise Unsupported("arithmetic " + src)
        if isinstance(e, ast.BinOp) and isinstance(e.op, ast.Div):
            a, ka = self.ex(e.left)
            b, kb = self.ex(e.right)
            if ka == kb == "rat":
                q = self.tmp("q")
                self.emit(f"let {q} ← PyTM.liftE (PyTM.fdiv {a} {b})")
                return q, "rat"
            raise Unsupported("division " + src)
        if isinstance(e, ast.Call):
            f = ast.unparse(e.func)
            args = e.args
            if f == "int" and len(args) == 1:
                a, k = self.ex(args[0])
                if k == "rat":
                    return f"(PyFS.intTrunc {a})", "int"
            if f == "len" and len(args) == 1:
                a, k = self.ex(args[0])
                if k == "nodes":
                    return f"{a}.length", "nat"
            if f == "np.exp" and len(args) == 1:
                a, k = self.ex(args[0])
                if k == "rat":
                    return f"(exp {a})", "rat"
            if f == "random.expovariate" and len(args) == 1:
                a, k = self.ex(args[0])
                if k == "rat":
                    d = self.tmp("d")
                    self.emit(f"let {d} ← TM.popExpo {a}")
                    return d, "rat"
            if f == "np.random.binomial" and len(args) == 2:
                (a, ka), (b, kb) = self.ex(args[0]), self.ex(args[1])
                if (ka, kb) == ("nat", "rat"):
                    x = self.tmp("k")
                    self.emit(f"let {x} ← TM.popBinom {a} {b}")
                    return x, "nat"
            if f == "random.sample" and len(args) == 2:
                (a, ka), (b, kb) = self.ex(args[0]), self.ex(args[1])
                if (ka, kb) == ("nodes", "nat"):
                    x = self.tmp("s")
                    self.emit(f"let {x} ← PyFS.sample {a} {b}")
                    return x, "nodes"
            if f == "_truncated_exponential_" and len(args) == 2:
                (a, ka), (b, kb) = self.ex(args[0]), self.ex(args[1])
                if (ka, kb) == ("rat", "rat"):
                    x = self.tmp("t")
                    self.emit(f"let {x} ← truncated_exponential {a} {b}")
                    return x, "rat"
            if isinstance(e.func, ast.Name) and self.env.get(f) in ("rate1", "rate2"):
                n = 1 if self.env[f] == "rate1" else 2
                if len(args) == n and all(self.ex(a_)[1] == "node" for a_ in args):
                    x = self.tmp("r")
                    self.emit(f"let {x} ← PyTM.liftE ({f} {' '.join(self.ex(a_)[0] for a_ in args)})")
                    return x, "rat"
            if isinstance(e.func, ast.Name) and self.env.get(f) in ("cb1", "cb2"):
                n = 1 if self.env[f] == "cb1" else 2
                if len(args) == n + 1 and isinstance(args[n], ast.Starred) and self.env.get(ast.unparse(args[n].value)) == "args" \
                        and all(self.ex(a_)[1] == "node" for a_ in args[:n]):
                    x = self.tmp("x")
                    self.emit(f"let {x} ← {f} {' '.join(self.ex(a_)[0] for a_ in args[:n])}")
                    return x, "erat"
        raise Unsupported("expression " + src[:70])


def simple_fn(fn, params, ret_ty, extra_binders=""):
    """a function whose body is: assignments, one optional `for v in <nodes>: d[v] = e` loop, `return`"""
    got = [a.arg for a in fn.args.args]
    if got != [p for p, _ in params]:
        raise Unsupported(f"{fn.name}: signature {got}")
    env = {p: k for p, k in params}
    lines = []
    body = body_of(fn)
    # statements after the first top-level return are dead code; only a repeated return is tolerated there
    ri = next((i for i, s in enumerate(body) if isinstance(s, ast.Return)), None)
    if ri is None or any(not isinstance(s, ast.Return) or ast.unparse(s) != ast.unparse(body[ri]) for s in body[ri + 1:]):
        raise Unsupported(f"{fn.name}: return structure")
    for st in body[:ri]:
        src = ast.unparse(st)
        if isinstance(st, ast.Assign) and len(st.targets) == 1 and isinstance(st.targets[0], ast.Name):
            name = st.targets[0].id
            if src.endswith("= {}"):
                env[name] = "td"
                lines.append(f"  let {name} : List (Node × ERat) := []")
                continue
            t = E(env, "  ")
            a, k = t.ex(st.value)
            lines += t.pre + [f"  let {name} := {a}"]
            env[name] = k
            continue
        if isinstance(st, ast.For) and isinstance(st.target, ast.Name) and not st.orelse and len(st.body) == 1 \
                and isinstance(st.body[0], ast.Assign) and isinstance(st.body[0].targets[0], ast.Subscript):
            seq, ks = E(env, "  ").ex(st.iter)
            tgt = st.body[0].targets[0]
            d = ast.unparse(tgt.value)
            if ks != "nodes" or env.get(d) != "td" or ast.unparse(tgt.slice) != st.target.id:
                raise Unsupported(f"{fn.name}: loop {src[:60]}")
            t = E(dict(env, **{st.target.id: "node"}), "    ")
            a, k = t.ex(st.body[0].value)
            val = a if k == "erat" else (f"(some {a})" if k == "rat" else None)
            if val is None:
                raise Unsupported(f"{fn.name}: dict value of kind {k}")
            lines += [f"  let {d} ← {seq}.foldlM (fun ({d} : List (Node × ERat)) ({st.target.id} : Node) => do"] + t.pre + \
                     [f"    pure (alSet {d} {st.target.id} {val})) {d}"]
            continue
        raise Unsupported(f"{fn.name}: statement {src[:60]}")
    rv = body[ri].value
    if isinstance(rv, ast.Tuple) and len(rv.elts) == 2:
        t = E(env, "  ")
        (a, ka), (b, kb) = t.ex(rv.elts[0]), t.ex(rv.elts[1])
        if ka != "td" or kb not in ("rat", "erat"):
            raise Unsupported(f"{fn.name}: returns ({ka}, {kb})")
        lines += t.pre + [f"  pure ({a}, {b if kb == 'erat' else f'(some {b})'})"]
    else:
        t = E(env, "  ")
        a, k = t.ex(rv)
        if k != "rat":
            raise Unsupported(f"{fn.name}: returns {k}")
        lines += t.pre + [f"  pure {a}"]
    tys = {"rat": "Rat", "node": "Node", "nodes": "List Node", "rate1": "Rate1", "rate2": "Rate2", "cb1": "Node → TM ERat", "cb2": "Node → Node → TM ERat"}
    binders = " ".join(f"({p} : {tys[k]})" for p, k in params if k != "args")
    lean = {"_truncated_exponential_": "truncated_exponential", "_find_trans_and_rec_delays_SIR_": "find_trans_and_rec_delays_SIR",
            "_trans_and_rec_time_Markovian_const_trans_": "const_trans"}[fn.name]
    return (f"/-- generated from `{fn.name}` (EoN/simulation.py:{fn.lineno}) -/\n"
            f"def {lean} {extra_binders}{binders} : TM ({ret_ty}) := do\n" + "\n".join(lines) + "\n")


def rate_functions(fn):
    """_get_rate_functions_: four lambdas chosen by two `is None` tests"""
    if [a.arg for a in fn.args.args] != ["G", "tau", "gamma", "transmission_weight", "recovery_weight"]:
        raise Unsupported("_get_rate_functions_: signature")
    body = body_of(fn)
    if len(body) != 3 or ast.unparse(body[2]) != "return (trans_rate_fxn, rec_rate_fxn)":
        raise Unsupported("_get_rate_functions_: structure")

    def lam(node, params, look, lookname):
        if not (isinstance(node, ast.Assign) and isinstance(node.value, ast.Lambda) and [a.arg for a in node.value.args.args] == params):
            raise Unsupported("_get_rate_functions_: expected a lambda " + ast.unparse(node)[:50])
        b = node.value.body
        if isinstance(b, ast.Name) and b.id in ("tau", "gamma"):
            return f"fun {' '.join('_' + p for p in params)} => pure {b.id}"
        if isinstance(b, ast.BinOp) and isinstance(b.op, ast.Mult) and isinstance(b.left, ast.Name) and b.left.id in ("tau", "gamma") \
                and ast.unparse(b.right) == look:
            return f"fun {' '.join(params)} => do let w_ ← {lookname} {' '.join(params)}; pure ({b.left.id} * w_)"
        raise Unsupported("_get_rate_functions_: lambda body " + ast.unparse(b)[:50])

    t, r = body[0], body[1]
    if not (isinstance(t, ast.If) and ast.unparse(t.test) == "transmission_weight is None" and len(t.body) == 1 and len(t.orelse) == 1
            and isinstance(t.orelse[0], ast.Try) and len(t.orelse[0].body) == 1):
        raise Unsupported("_get_rate_functions_: transmission branch")
    if not (isinstance(r, ast.If) and ast.unparse(r.test) == "recovery_weight is None" and len(r.body) == 1 and len(r.orelse) == 1):
        raise Unsupported("_get_rate_functions_: recovery branch")
    for st in (t.body[0], t.orelse[0].body[0]):
        if ast.unparse(st.targets[0]) != "trans_rate_fxn":
            raise Unsupported("_get_rate_functions_: target")
    for st in (r.body[0], r.orelse[0]):
        if ast.unparse(st.targets[0]) != "rec_rate_fxn":
            raise Unsupported("_get_rate_functions_: target")
    t_none = lam(t.body[0], ["x", "y"], None, None)
    t_some = lam(t.orelse[0].body[0], ["x", "y"], "G.adj[x][y][transmission_weight]", "tw")
    r_none = lam(r.body[0], ["x"], None, None)
    r_some = lam(r.orelse[0], ["x"], "G.nodes[x][recovery_weight]", "rw")
    return (f"/-- generated from `EoN._get_rate_functions_` (EoN/__init__.py:{fn.lineno}); `tw x y` = `G.adj[x][y][transmission_weight]`,\n"
            "`rw x` = `G.nodes[x][recovery_weight]` (KeyError when missing) -/\n"
            "def get_rate_functions (tau gamma : Rat) (transmission_weight : Option Rate2) (recovery_weight : Option Rate1) : Rate2 × Rate1 :=\n"
            "  let trans_rate_fxn : Rate2 := (match transmission_weight with\n"
            f"    | none => {t_none}\n    | some tw => {t_some})\n"
            "  let rec_rate_fxn : Rate1 := (match recovery_weight with\n"
            f"    | none => {r_none}\n    | some rw => {r_some})\n"
            "  (trans_rate_fxn, rec_rate_fxn)\n")


def time_fn(st, name, params, ratekind):
    """def trans_time_fxn(source, target, trans_rate_fxn): rate = f(...); if rate > 0: return expovariate(rate) else: return inf"""
    if not (isinstance(st, ast.FunctionDef) and st.name == name and [a.arg for a in st.args.args] == params):
        raise Unsupported(f"fast_SIR: nested {name}")
    b = body_of(st)
    if len(b) != 2 or not isinstance(b[0], ast.Assign) or not isinstance(b[1], ast.If) or len(b[1].body) != 1 or len(b[1].orelse) != 1 \
            or not isinstance(b[1].body[0], ast.Return) or not isinstance(b[1].orelse[0], ast.Return):
        raise Unsupported(f"fast_SIR: body of {name}")
    env = {p: "node" for p in params[:-1]}
    env[params[-1]] = ratekind
    t = E(env, "      ")
    a, k = t.ex(b[0].value)
    rn = b[0].targets[0].id
    env2 = dict(env, **{rn: k})
    test = b[1].test
    if not (isinstance(test, ast.Compare) and len(test.ops) == 1 and isinstance(test.ops[0], (ast.Gt, ast.GtE)) and ast.unparse(test.left) == rn
            and ast.unparse(test.comparators[0]) == "0") or k != "rat":
        raise Unsupported(f"fast_SIR: test in {name}")
    sym = ">" if isinstance(test.ops[0], ast.Gt) else "≥"
    t1 = E(env2, "        ")
    a1, k1 = t1.ex(b[1].body[0].value)
    t2 = E(env2, "        ")
    a2, k2 = t2.ex(b[1].orelse[0].value)
    conv = lambda x, kk: x if kk == "erat" else f"(some {x})"
    tys = " ".join(f"({p} : Node)" for p in params[:-1]) + f" ({params[-1]} : {'Rate2' if ratekind == 'rate2' else 'Rate1'})"
    return ([f"    let {name} := fun {tys} => (do"] + t.pre + [f"      let {rn} := {a}", f"      if decide ({rn} {sym} 0) then do"] + t1.pre +
            [f"        pure {conv(a1, k1)}", "      else do"] + t2.pre + [f"        pure {conv(a2, k2)}", "      : TM ERat)"])


def fast_sir(fn, fnm):
    body = body_of(fn)
    if len(body) != 1 or not isinstance(body[0], ast.If):
        raise Unsupported("fast_SIR: structure")
    st = body[0]
    test = ast.unparse(st.test)
    if test != "transmission_weight is not None or tau * gamma == 0":
        raise Unsupported("fast_SIR: dispatch test " + test)
    getrf = "(trans_rate_fxn, rec_rate_fxn) = EoN._get_rate_functions_(G, tau, gamma, transmission_weight, recovery_weight)"
    a, b = st.body, st.orelse
    if len(a) != 6 or ast.unparse(a[0]) not in (getrf, getrf[1:].replace(") =", " =", 1)) and "EoN._get_rate_functions_(G, tau, gamma, transmission_weight, recovery_weight)" not in ast.unparse(a[0]):
        raise Unsupported("fast_SIR: first branch")
    if ast.unparse(a[0].targets[0]) not in ("(trans_rate_fxn, rec_rate_fxn)", "trans_rate_fxn, rec_rate_fxn"):
        raise Unsupported("fast_SIR: unpacking of the rate functions")
    f1 = time_fn(a[1], "trans_time_fxn", ["source", "target", "trans_rate_fxn"], "rate2")
    f2 = time_fn(a[2], "rec_time_fxn", ["node", "rec_rate_fxn"], "rate1")
    if ast.unparse(a[3]) != "trans_time_args = (trans_rate_fxn,)" or ast.unparse(a[4]) != "rec_time_args = (rec_rate_fxn,)":
        raise Unsupported("fast_SIR: args tuples")
    fwd = {"initial_infecteds", "initial_recovereds", "rho", "tmin", "tmax", "return_full_data", "sim_kwargs"}

    def call_kws(ret, want):
        if not (isinstance(ret, ast.Return) and isinstance(ret.value, ast.Call) and ast.unparse(ret.value.func) == "fast_nonMarkov_SIR"
                and [ast.unparse(x) for x in ret.value.args] == ["G"]):
            raise Unsupported("fast_SIR: call of fast_nonMarkov_SIR")
        kws = {k.arg: ast.unparse(k.value) for k in ret.value.keywords}
        for k_ in fwd:
            if kws.pop(k_, None) != k_:
                raise Unsupported(f"fast_SIR: {k_} not forwarded unchanged")
        if kws != want:
            raise Unsupported(f"fast_SIR: hands {kws} to fast_nonMarkov_SIR")
    call_kws(a[5], dict(trans_time_fxn="trans_time_fxn", rec_time_fxn="rec_time_fxn", trans_time_args="trans_time_args", rec_time_args="rec_time_args"))
    if len(b) != 2 or ast.unparse(b[0].targets[0]) not in ("(trans_rate_fxn, rec_rate_fxn)", "trans_rate_fxn, rec_rate_fxn") \
            or ast.unparse(b[0].value) != "EoN._get_rate_functions_(G, tau, gamma, transmission_weight, recovery_weight)" \
            or ast.unparse(a[0].value) != ast.unparse(b[0].value):
        raise Unsupported("fast_SIR: second branch")
    call_kws(b[1], dict(trans_and_rec_time_fxn="_trans_and_rec_time_Markovian_const_trans_", trans_and_rec_time_args="(tau, rec_rate_fxn)"))
    # fast_nonMarkov_SIR: separate time functions are wrapped by _find_trans_and_rec_delays_SIR_
    nb = body_of(fnm)
    wrap = next((s for s in nb if isinstance(s, ast.If) and ast.unparse(s.test) == "not trans_and_rec_time_fxn"), None)
    if wrap is None or [ast.unparse(x) for x in wrap.body] != ["trans_and_rec_time_fxn = _find_trans_and_rec_delays_SIR_",
                                                               "trans_and_rec_time_args = (trans_time_fxn, rec_time_fxn, trans_time_args, rec_time_args)"] or wrap.orelse:
        raise Unsupported("fast_nonMarkov_SIR: choice of _find_trans_and_rec_delays_SIR_")
    lines = ["/-- generated from the head of `fast_SIR` (EoN/simulation.py:%d): the rule it hands to `fast_nonMarkov_SIR`\n"
             "(separate time functions are wrapped by `_find_trans_and_rec_delays_SIR_`, EoN/simulation.py:%d) -/" % (fn.lineno, wrap.lineno),
             "def fast_SIR_rule (exp : Rat → Rat) (tau gamma : Rat) (transmission_weight : Option Rate2) (recovery_weight : Option Rate1) :",
             "    Node → List Node → TM (List (Node × ERat) × ERat) :=",
             "  if (transmission_weight.isSome || decide (tau * gamma = 0)) then",
             "    let (trans_rate_fxn, rec_rate_fxn) := get_rate_functions tau gamma transmission_weight recovery_weight"] + f1 + f2 + \
            ["    fun node sus_neighbors => find_trans_and_rec_delays_SIR node sus_neighbors",
             "      (fun u v => trans_time_fxn u v trans_rate_fxn) (fun u => rec_time_fxn u rec_rate_fxn)",
             "  else",
             "    let (_trans_rate_fxn, rec_rate_fxn) := get_rate_functions tau gamma transmission_weight recovery_weight",
             "    fun node sus_neighbors => const_trans exp node sus_neighbors tau rec_rate_fxn",
             "",
             "/-- `fast_SIR` = the code generated from `fast_nonMarkov_SIR` run with that rule -/",
             "def fast_SIR (exp : Rat → Rat) (nbrs : Node → List Node) (order : Nat) (tmin : Rat) (tmax : ERat) (tau gamma : Rat)",
             "    (transmission_weight : Option Rate2) (recovery_weight : Option Rate1) (initial_infecteds initial_recovereds : List Node) (fuel : Nat) :",
             "    TM GenESIR.Loc :=",
             "  GenESIR.run { nbrs := nbrs, order := order, tmin := tmin, tmax := tmax,",
             "                transRec := fast_SIR_rule exp tau gamma transmission_weight recovery_weight } initial_infecteds initial_recovereds fuel"]
    return "\n".join(lines) + "\n"


HEADER = '''import EoNVerif.Gen.PyFS
import EoNVerif.Gen.EventSIRGen
/-!
GENERATED by harness/pyfsir2lean.py from `fast_SIR`, `_trans_and_rec_time_Markovian_const_trans_`,
`_truncated_exponential_`, `_find_trans_and_rec_delays_SIR_` (EoN/simulation.py) and `_get_rate_functions_`
(EoN/__init__.py) — do not edit; regenerated on every check run.   source sha1: {sha}
-/
open PyFS

namespace GenFSIR

'''


def translate(repo=REPO):
    t1 = ast.parse(open(os.path.join(repo, "EoN", "simulation.py")).read())
    t2 = ast.parse(open(os.path.join(repo, "EoN", "__init__.py")).read())
    fns = {n.name: n for n in t1.body if isinstance(n, ast.FunctionDef)}
    fns2 = {n.name: n for n in t2.body if isinstance(n, ast.FunctionDef)}
    errors, parts, srcs = {}, [], []
    jobs = [
        ("_truncated_exponential_", lambda: simple_fn(fns["_truncated_exponential_"], [("rate", "rat"), ("T", "rat")], "Rat")),
        ("_find_trans_and_rec_delays_SIR_", lambda: simple_fn(fns["_find_trans_and_rec_delays_SIR_"],
            [("node", "node"), ("sus_neighbors", "nodes"), ("trans_time_fxn", "cb2"), ("rec_time_fxn", "cb1"), ("trans_time_args", "args"),
             ("rec_time_args", "args")], "List (Node × ERat) × ERat")),
        ("_trans_and_rec_time_Markovian_const_trans_", lambda: simple_fn(fns["_trans_and_rec_time_Markovian_const_trans_"],
            [("node", "node"), ("sus_neighbors", "nodes"), ("tau", "rat"), ("rec_rate_fxn", "rate1")], "List (Node × ERat) × ERat", "(exp : Rat → Rat) ")),
        ("_get_rate_functions_", lambda: rate_functions(fns2["_get_rate_functions_"])),
        ("fast_SIR", lambda: fast_sir(fns["fast_SIR"], fns["fast_nonMarkov_SIR"])),
    ]
    for name, job in jobs:
        try:
            parts.append(job())
            srcs.append(ast.unparse((fns2 if name == "_get_rate_functions_" else fns)[name]))
        except (Unsupported, KeyError) as ex:
            errors[name] = f"unsupported: {ex}"
    sha = hashlib.sha1("\n".join(srcs).encode()).hexdigest()
    return HEADER.format(sha=sha) + "\n".join(parts) + "\nend GenFSIR\n", errors


def regenerate():
    import warnings
    target = os.path.join(os.path.dirname(os.path.abspath(__file__)), "..", "lean", "EoNVerif", "Gen", "FastSIRGen.lean")
    with warnings.catch_warnings():
        warnings.simplefilter("ignore")
        text, errors = translate()
    old = open(target).read() if os.path.exists(target) else None
    if text and not errors and old != text:
        tmp = target + ".tmp%d" % os.getpid()
        with open(tmp, "w") as f:
            f.write(text)
        os.replace(tmp, target)
    return (old != text and not errors), errors


def main():
    changed, errors = regenerate()
    print("pyfsir2lean: Gen/FastSIRGen.lean %s" % ("rewritten" if changed else "up to date"))
    for n, e in errors.items():
        print(f"pyfsir2lean: {n}: {e}")
    return 1 if errors else 0


if __name__ == "__main__":
    sys.exit(main())
