import EoNVerif.Gen.PyTM
/-!
Runtime of the code generated from `fast_SIR`'s own part (`harness/pyfsir2lean.py`).
-/
namespace PyFS

abbrev Rate2 := Node → Node → Except String Rat
abbrev Rate1 := Node → Except String Rat

/-- `int(x)` for a float: truncation toward zero -/
def intTrunc (x : Rat) : Int := if x < 0 then -((-x).floor) else x.floor

/-- `random.sample(population, k)` -/
def sample (population : List Node) (k : Nat) : TM (List Node) := do
  let idx ← TM.popSample population.length k
  PyTM.liftE (idx.mapM fun i => PyRT.listChoice population i)

end PyFS
