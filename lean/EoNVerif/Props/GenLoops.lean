import EoNVerif.Proofs.GenEqLoops
/-!
Tie by translation for the loop-style right-hand sides (C06 / C07).  `Gen/AnalyticLoops.lean` is regenerated from
`EoN/analytic.py` on every run by `harness/py2lean_loops.py` (Python `for` loops become `List.foldl` over the iteration
list, `a[i] = v` / `a[s,i] = v` become `Gen.upd1` / `Gen.upd2`).  The theorems below (proved in
`Proofs/GenEqLoops.lean` from generic loop lemmas `foldl_range_inv`, `foldl_upd1_range`, `foldl_upd1_pair_dep`,
`foldl_upd2_block`, `foldl_upd2_block_gen`, `foldl_upd2_block_pair`) state that each generated function equals the
hand-written model the ODE theorems are about — for every size, state and parameter; no hypothesis on the graph,
the rates or the state is needed.

State vectors are packed the way the solvers pack them: `flat A B M` is the row-major flattening of an `A × B` matrix
(`M.shape = A*B`), `V.append` is `np.concatenate`, `V.ofList` is `np.array([...])`.
-/
namespace GenEqLoops
open Gen ODE

/-- `_dSIS_effective_degree_` (EoN/analytic.py:3895–3967).  Called on the flat vector `concatenate(Ssi.flat, Isi.flat)`
with `original_shape = (A, B)`, the Python function returns a vector of length `2·A·B` whose entry `s*B+i` is the
model's `dS_{s,i}` and whose entry `A*B + s*B+i` is the model's `dI_{s,i}` (`ODE.sisEffDeg`), for every cell of the
`A × B` block.  Covers: the unpacking `X[:ksq]`, `X[ksq:]`, the reshape, the four double sums, the two `== 0` guards,
the boundary cases `s==0 or i+1==B`, `i==0 or s+1==A`, the nested loop writing `dSsi[s,i]`, `dIsi[s,i]`, and the
re-packing. -/
theorem gen_sisEffDeg (A B : Nat) (tau gamma : Rat) (Ssi Isi : Nat → Nat → Rat) :
    let r := dSIS_effective_degree (V.append (flat A B Ssi) (flat A B Isi)) A B tau gamma
    let m := sisEffDeg A B tau gamma Ssi Isi
    r.n = A * B + A * B ∧
      ∀ s i, s < A → i < B → r.f (s * B + i) = m.1 s i ∧ r.f (A * B + (s * B + i)) = m.2 s i :=
  gen_sisEffDeg_aux A B tau gamma Ssi Isi

/-- `_dSIR_effective_degree_` (EoN/analytic.py:3970–4022).  Called on `concatenate(Ssi.flat, [R])` with
`original_shape = (A, B)`, the Python function returns a vector of length `A·B + 1` whose entry `s*B+i` is the model's
`dS_{s,i}` and whose last entry is the model's `dR` (`ODE.sirEffDeg`).  Covers `R = X[-1]`, `Ssi = X[:-1]`, the
reshape, the sums, the `SS == 0` guard, the boundary cases `i+1==B`, `s+1==A or i==0`, the nested loop and
`dR = gamma*(N - Ssi.sum() - R)`. -/
theorem gen_sirEffDeg (A B : Nat) (tau gamma N : Rat) (Ssi : Nat → Nat → Rat) (R : Rat) :
    let r := dSIR_effective_degree (V.append (flat A B Ssi) (V.ofList [R])) N A B tau gamma
    let m := sirEffDeg A B tau gamma N Ssi R
    r.n = A * B + 1 ∧ (∀ s i, s < A → i < B → r.f (s * B + i) = m.1 s i) ∧ r.f (A * B + 0) = m.2 :=
  gen_sirEffDeg_aux A B tau gamma N Ssi R

/-- `_dSIS_individual_based_` (EoN/analytic.py:471–484).  For `N` nodes with neighbour lists `nbrs` (as indices), the
loop `for index, (node, Yi) in enumerate(zip(nodelist, Y)): dY[index] = sum(...) - rec_rate_fxn(node)*Yi` returns a
vector of length `N` whose entry `i` is the model's `ODE.sisIndividual nbrs tr rr Y i`.  No assumption on the graph
(self-loops, repeated or out-of-range neighbours are all allowed). -/
theorem gen_sisIndividual (N : Nat) (nbrs : Nat → List Nat) (tr : Nat → Nat → Rat) (rr : Nat → Rat) (Y : Nat → Rat) :
    let r := dSIS_individual_based ⟨N, Y⟩ N nbrs tr rr
    r.n = N ∧ ∀ i, i < N → r.f i = sisIndividual nbrs tr rr Y i :=
  gen_sisIndividual_aux N nbrs tr rr Y

/-- `_dSIR_individual_based_` (EoN/analytic.py:486–510).  Called on `concatenate(X, Y)`, the loop that sets
`dX[index] = -Xi*sum(...)` and then `dY[index] = -dX[index] - rec_rate_fxn(node)*Yi` (reading the cell of `dX` written
in the same iteration) returns a vector of length `2N` whose entries `i` and `N+i` are the two components of
`ODE.sirIndividual nbrs tr rr X Y` at `i`.  No assumption on the graph. -/
theorem gen_sirIndividual (N : Nat) (nbrs : Nat → List Nat) (tr : Nat → Nat → Rat) (rr : Nat → Rat) (X Y : Nat → Rat) :
    let r := dSIR_individual_based (V.append ⟨N, X⟩ ⟨N, Y⟩) N nbrs tr rr
    let m := sirIndividual nbrs tr rr X Y
    r.n = N + N ∧ ∀ i, i < N → r.f i = m.1 i ∧ r.f (N + i) = m.2 i :=
  gen_sirIndividual_aux N nbrs tr rr X Y

/-! ### consequences transported to the generated code (examples of use) -/

/-- the last component returned by the generated `_dSIR_effective_degree_` is `γ (N − Σ_{s,i} S_{s,i} − R)`, i.e.
`dR = γ·I` with `I = N − S − R` (analytic.py:4016–4018). -/
theorem gen_sirEffDeg_dR (A B : Nat) (tau gamma N : Rat) (Ssi : Nat → Nat → Rat) (R : Rat) :
    (dSIR_effective_degree (V.append (flat A B Ssi) (V.ofList [R])) N A B tau gamma).f (A * B)
      = gamma * (N - sum2 A B Ssi - R) := by
  obtain ⟨_, _, h⟩ := gen_sirEffDeg A B tau gamma N Ssi R
  rw [Nat.add_zero] at h
  rw [h]
  rfl

/-- the generated `_dSIR_individual_based_` moves probability only from X to Y to Z: for every node
`dX_i + dY_i = −γ_i Y_i` (whatever the graph and the transmission rates are). -/
theorem gen_sirIndividual_flow (N : Nat) (nbrs : Nat → List Nat) (tr : Nat → Nat → Rat) (rr : Nat → Rat)
    (X Y : Nat → Rat) (i : Nat) (hi : i < N) :
    (dSIR_individual_based (V.append ⟨N, X⟩ ⟨N, Y⟩) N nbrs tr rr).f i
      + (dSIR_individual_based (V.append ⟨N, X⟩ ⟨N, Y⟩) N nbrs tr rr).f (N + i) = -(rr i * Y i) := by
  obtain ⟨_, h⟩ := gen_sirIndividual N nbrs tr rr X Y
  obtain ⟨h1, h2⟩ := h i hi
  rw [h1, h2]
  simp only [sirIndividual]
  ring

/-! ### non-vacuity: concrete instances (the generated code is evaluated by the kernel) -/

/-- a 2 × 2 test state -/
def exS : Nat → Nat → Rat := fun s i => ((s + 2 * i + 1 : Nat) : Rat) / 20
def exI : Nat → Nat → Rat := fun s i => ((2 * s + i + 1 : Nat) : Rat) / 40
def exNbrs : Nat → List Nat := fun i => [(i + 1) % 3, (i + 2) % 3]
def exTr : Nat → Nat → Rat := fun i j => ((i + j + 1 : Nat) : Rat) / 2
def exRr : Nat → Rat := fun i => ((i + 1 : Nat) : Rat) / 3

/-- the generated SIS effective-degree code on the 2 × 2 state, all 8 components -/
example : (dSIS_effective_degree (V.append (flat 2 2 exS) (flat 2 2 exI)) 2 2 (1/2) (1/3)).toList
    = [1/120, -3/40, 1/24, -1/5, -1/120, 19/240, -11/240, -1/60] := by decide +kernel

/-- ... and the model gives the same numbers (as `gen_sisEffDeg` says) -/
example : (sisEffDeg 2 2 (1/2) (1/3) exS exI).1 1 0 = 1/24 ∧ (sisEffDeg 2 2 (1/2) (1/3) exS exI).2 0 1 = 19/240 := by
  decide +kernel

example : (dSIS_effective_degree (V.append (flat 2 2 exS) (flat 2 2 exI)) 2 2 (1/2) (1/3)).f (1 * 2 + 0)
    = (sisEffDeg 2 2 (1/2) (1/3) exS exI).1 1 0 :=
  ((gen_sisEffDeg 2 2 (1/2) (1/3) exS exI).2 1 0 (by decide) (by decide)).1

/-- the generated SIR effective-degree code on the 2 × 2 state with R = 1/10, N = 1 -/
example : (dSIR_effective_degree (V.append (flat 2 2 exS) (V.ofList [1/10])) 1 2 2 (1/2) (1/3)).toList
    = [1/20, -11/120, 1/30, -7/30, 2/15] := by decide +kernel

example : (dSIR_effective_degree (V.append (flat 2 2 exS) (V.ofList [1/10])) 1 2 2 (1/2) (1/3)).f (2 * 2)
    = (1/3) * (1 - sum2 2 2 exS - 1/10) :=
  gen_sirEffDeg_dR 2 2 (1/2) (1/3) 1 exS (1/10)

/-- the generated individual-based code on a triangle with heterogeneous rates -/
example : (dSIS_individual_based ⟨3, fun i => ((i + 1 : Nat) : Rat) / 10⟩ 3 exNbrs exTr exRr).toList
    = [331/600, 32/75, 17/200] := by decide +kernel

example : (dSIS_individual_based ⟨3, fun i => ((i + 1 : Nat) : Rat) / 10⟩ 3 exNbrs exTr exRr).f 1
    = sisIndividual exNbrs exTr exRr (fun i => ((i + 1 : Nat) : Rat) / 10) 1 :=
  (gen_sisIndividual 3 exNbrs exTr exRr _).2 1 (by decide)

example : (dSIR_individual_based (V.append ⟨3, fun i => ((9 - i : Nat) : Rat) / 10⟩ ⟨3, fun i => ((i + 1 : Nat) : Rat) / 20⟩)
      3 exNbrs exTr exRr).toList
    = [-117/400, -7/25, -77/400, 331/1200, 16/75, 17/400] := by decide +kernel

example : (dSIR_individual_based (V.append ⟨3, fun i => ((9 - i : Nat) : Rat) / 10⟩ ⟨3, fun i => ((i + 1 : Nat) : Rat) / 20⟩)
      3 exNbrs exTr exRr).f (3 + 2)
    = (sirIndividual exNbrs exTr exRr (fun i => ((9 - i : Nat) : Rat) / 10) (fun i => ((i + 1 : Nat) : Rat) / 20)).2 2 :=
  ((gen_sirIndividual 3 exNbrs exTr exRr _ _).2 2 (by decide)).2

end GenEqLoops
