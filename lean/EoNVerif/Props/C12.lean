import EoNVerif.Proofs.Discrete
/-!
C12 — properties of the discrete-time simulators (`discrete_SIR`, `basic_discrete_*`, `percolate_network`).
Helper lemmas and the well-formedness predicate `Discrete.WF` live in `EoNVerif.Proofs.Discrete`.
-/
namespace Discrete

/-- **pathwise generation rule**: for every outcome table of the contacts, the next generation is exactly the set of
susceptible nodes with at least one successful contact from a currently infectious neighbour (the outcome of the
contact `u → v` may depend on how many steps `u` has already been infectious, `s.age u`) -/
theorem step_newInf (P : DParams) (s : DState) (v : Node) (hv : v ∈ P.nodes) (hnot : v ∉ s.inf) :
    v ∈ (step P s).inf ↔ (s.sus v = true ∧ ∃ u ∈ s.inf, v ∈ P.nbrs u ∧ P.rule (s.age u) u v = true) :=
  step_newInf' P s v hv hnot

/-- default recovery rule: every infectious node is infectious for exactly one step -/
theorem one_step_infectious (P : DParams) (h : P.recSteps = none) (s : DState)
    (hs : ∀ u ∈ s.inf, s.sus u = false) (u : Node) (hu : u ∈ s.inf) : u ∉ (step P s).inf :=
  one_step_infectious' P h s hs u hu

/-- **conservation**: every row has S + I + R = N -/
theorem conserve (P : DParams) (infs recs : List Node) (h : WF P infs recs) (fuel : Nat) :
    let s := run P infs recs fuel
    ∀ i, i < s.t.length → s.S.getD i 0 + s.I.getD i 0 + s.R.getD i 0 = (P.nodes.length : Int) :=
  (consInv_run P infs recs h fuel).rows

/-- rows are equally long and times advance by exactly one step from `tmin` -/
theorem rows_shape (P : DParams) (infs recs : List Node) (fuel : Nat) :
    let s := run P infs recs fuel
    s.S.length = s.t.length ∧ s.I.length = s.t.length ∧ s.R.length = s.t.length ∧
    ∀ i, i < s.t.length → s.t.reverse.getD i 0 = P.tmin + (i : Rat) :=
  rows_shape' P infs recs fuel

/-- **BFS**: when the loop has stopped (no infecteds left or horizon reached), a node is infected exactly at
`tmin +` its breadth-first distance from the initial set in the digraph of successful contacts (initially recovered
nodes removed), if that step was simulated; holds under the default recovery rule (every node is infectious for one
step, so every contact is made at age 0) for every transmission rule, and under every recovery rule for every
transmission rule that does not depend on the age of the source (`Ageless`) -/
theorem bfs_correct (P : DParams) (infs recs : List Node) (h : WF P infs recs) (fuel : Nat)
    (hrule : P.recSteps = none ∨ Ageless P)
    (hstop : let s := run P infs recs fuel
             s.inf.isEmpty = true ∨ ERat.lt (some (s.t.headD P.tmin)) P.tmax = false) :
    isBFS P infs recs (run P infs recs fuel).infTime = true :=
  bfs_correct' P infs recs hrule h fuel hstop

/-- default recovery rule: the age of every node stays 0 (every contact is made at age 0) -/
theorem age_default (P : DParams) (infs recs : List Node) (fuel : Nat) (h : P.recSteps = none) :
    (run P infs recs fuel).age = fun _ => 0 :=
  age_default' P infs recs fuel h

/-- the iteration order of the infectious set does not matter -/
theorem step_perm (P : DParams) (s s' : DState) (hp : s.inf.Perm s'.inf)
    (hsus : s.sus = s'.sus) (hage : s.age = s'.age) (ht : s.t = s'.t) (hn : s.nS = s'.nS) (hr : s.totR = s'.totR) :
    (step P s).inf = (step P s').inf ∧ (step P s).nS = (step P s').nS ∧ (step P s).totR = (step P s').totR ∧
    (step P s).infTime.drop s.infTime.length = (step P s').infTime.drop s'.infTime.length :=
  step_perm' P s s' hp hsus hage ht hn hr

/-- **per-node marginal of the basic simulators**: with `k` infectious neighbours, each contact an independent
Bernoulli(p), a susceptible node is infected with probability `1 - (1-p)^k` -/
theorem basic_marginal (p : Rat) (k : Nat) :
    Dist.mass (anyContact p k) (fun b => b) = infProb p k :=
  basic_marginal' p k

/-- **percolate_network**: a given set of kept edges (as the sublist selected by `keep`) has probability
`p^|A| (1-p)^(m-|A|)` -/
theorem percolate_edge_law {ε : Type} [DecidableEq ε] (p : Rat) (edges : List ε) (hn : edges.Nodup) (keep : ε → Bool) :
    Dist.mass (percolateDist p edges) (fun kept => kept == edges.filter keep) =
      p ^ (edges.filter keep).length * (1 - p) ^ (edges.length - (edges.filter keep).length) :=
  percolate_edge_law' p edges hn keep

/-- the percolated graph only ever contains edges of the original one -/
theorem percolate_support {ε : Type} [DecidableEq ε] (p : Rat) (edges : List ε) (kept : List ε)
    (hk : ∃ q, (kept, q) ∈ percolateDist p edges) : kept.Sublist edges :=
  percolate_support' p edges kept hk

end Discrete

/-! non-vacuity: path 0-1-2-3 with one failed contact -/
def exDn (u : Node) : List Node := match u with | 0 => [1] | 1 => [0, 2] | 2 => [1, 3] | 3 => [2] | _ => []
def exD : DParams :=
  { nodes := [0, 1, 2, 3], nbrs := exDn, rule := fun _ u v => !(u == 2 && v == 3), recSteps := none, tmin := 0, tmax := none }
example : (Discrete.run exD [0] [] 10).infTime = [(1, 1), (2, 2)] := by decide +kernel
example : Discrete.isBFS exD [0] [] (Discrete.run exD [0] [] 10).infTime = true := by decide +kernel

/-! non-vacuity of the age argument: path 0-1-2, every node infectious for two steps, the contact 0 → 1 fails at the
first step node 0 is infectious (age 0) and succeeds at the second (age 1): node 1 is infected at time 2 (not 1), node 2
at time 3.  The rule is not `Ageless` and the recovery rule is not the default one, and indeed the BFS predicate (which
reads the rule at age 0 only, where 0 → 1 fails, so 1 and 2 are unreachable) is false for this run: the hypothesis
`hrule` of `bfs_correct` cannot be dropped. -/
def exAn (u : Node) : List Node := match u with | 0 => [1] | 1 => [0, 2] | 2 => [1] | _ => []
def exA : DParams :=
  { nodes := [0, 1, 2], nbrs := exAn, rule := fun a u v => !(u == 0 && v == 1 && a == 0),
    recSteps := some (fun _ => 2), tmin := 0, tmax := none }
example : exA.rule 0 0 1 = false ∧ exA.rule 1 0 1 = true := by decide +kernel
example : (Discrete.run exA [0] [] 10).infTime = [(1, 2), (2, 3)] := by decide +kernel
example : (Discrete.run exA [0] [] 10).inf = [] := by decide +kernel
example : (Discrete.run exA [0] [] 10).age 0 = 2 := by decide +kernel
example : Discrete.isBFS exA [0] [] (Discrete.run exA [0] [] 10).infTime = false := by decide +kernel
example : ¬ Discrete.Ageless exA := fun h => absurd (h 1 0 1) (by decide +kernel)
/-- the same network with the stateless rule `rule 0` and the same recovery rule satisfies the BFS predicate -/
def exA0 : DParams := { exA with rule := fun _ u v => exA.rule 0 u v }
example : Discrete.Ageless exA0 := fun _ _ _ => rfl
example : Discrete.isBFS exA0 [0] [] (Discrete.run exA0 [0] [] 10).infTime = true := by decide +kernel
