import EoNVerif.Props.C01
import EoNVerif.Props.C02
import EoNVerif.Props.C04
import EoNVerif.Props.C05
import EoNVerif.Props.C09
import EoNVerif.Props.C10
import EoNVerif.Props.C16
