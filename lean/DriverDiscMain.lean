import DriverDisc
partial def loopDisc (h : IO.FS.Stream) (out : IO.FS.Stream) : IO Unit := do
  let line ← h.getLine
  if line.isEmpty then return ()
  out.putStrLn (DrvGenDisc.handle line)
  loopDisc h out
def main : IO Unit := do loopDisc (← IO.getStdin) (← IO.getStdout)
