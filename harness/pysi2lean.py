#!/usr/bin/env python3
"""pysi2lean — translator for the STATEFUL part of `Simulation_Investigation` (EoN/simulation_investigation.py):
the caching prologue / epilogue of `summary()` around its computation, the accessors `t()`, `S()`, `I()`, `R()` that read
the cache, and the call of `self.summary()` in `__init__`  ->  lean/EoNVerif/Gen/InvestState.lean (namespace GenSI).

The object is a record of the attributes the code assigns (`Option`s: an attribute that has not been assigned yet reads as
AttributeError); a method is a function `St → args → Except String (result × St)`.  The argument `nodelist` is one of
`NL.none` (not given), `NL.graph` (the graph object itself) or `NL.list l` (any other list): `x is None`, `x is self.G` are
tests on that tag, `x == self.G` is `True` only for the graph object (a list never equals a Graph).  The computation between
prologue and epilogue is the generated `GenInvest.summary` (harness/pyinvest2lean.py).
Supported statements: `if <test>: <name> = self.G`, `if <test>:` + `try: self.<a>; return self.<a>` / `except AttributeError:
pass`, `if <test>:` + attribute assignments from `mysummary`, `t`, `mysummary[1]`, `return mysummary`; accessors
`return self.<a>[0]` and `if '<X>' in self._possible_statuses_: return self.<a>[1]['<X>']` / `else: raise EoN.EoNError(…)`.
Anything else raises Unsupported — a failed translation is an undischarged obligation."""
import ast, os, sys, hashlib

REPO = os.environ.get("EON_REPO", "/repo")


class Unsupported(Exception):
    pass


def body_of(fn):
    return [s for s in fn.body if not (isinstance(s, ast.Expr) and isinstance(s.value, ast.Constant))]


def test(t):
    """a test on the nodelist argument -> Lean Bool term"""
    if isinstance(t, ast.Compare) and len(t.ops) == 1 and isinstance(t.left, ast.Name) and t.left.id == "nodelist":
        r, op = t.comparators[0], t.ops[0]
        if isinstance(r, ast.Constant) and r.value is None and isinstance(op, (ast.Is, ast.Eq)):
            return "nodelist.isNone"
        if ast.unparse(r) == "self.G":
            if isinstance(op, ast.Is):
                return "nodelist.isG"
            if isinstance(op, ast.Eq):
                return "nodelist.eqG"
            if isinstance(op, ast.IsNot):
                return "(!nodelist.isG)"
    raise Unsupported("test " + ast.unparse(t))


def value(e, attrs):
    """right-hand side of an attribute assignment in the epilogue -> (Lean term, field type)"""
    s = ast.unparse(e)
    if s == "mysummary":
        return "mysummary", "Summ"
    if s == "t":
        return "mysummary.1", "List Rat"          # `t` is the first component of `mysummary`
    if s == "mysummary[1]":
        return "mysummary.2", "List (List Int)"
    if s == "mysummary[0]":
        return "mysummary.1", "List Rat"
    raise Unsupported("assigned value " + s)


def gen(cls):
    m = {n.name: n for n in cls.body if isinstance(n, ast.FunctionDef)}
    n = m["summary"]
    if [a.arg for a in n.args.args] != ["self", "nodelist"] or [ast.unparse(d) for d in n.args.defaults] != ["None"]:
        raise Unsupported("summary: signature")
    b = body_of(n)
    i0 = next((i for i, s in enumerate(b) if ast.unparse(s) == "times = set()"), None)
    i1 = next((i for i, s in enumerate(b) if ast.unparse(s).startswith("for status in self._possible_statuses_:\n    mysummary[1][status] = np.array(")), None)
    if i0 is None or i1 is None or i1 < i0:
        raise Unsupported("summary: computation not found")
    pro, epi = b[:i0], b[i1 + 1:]
    fields = {}                     # attribute -> Lean type, in order of first assignment
    lines = []
    # ---- prologue
    for st in pro:
        if not isinstance(st, ast.If) or st.orelse:
            raise Unsupported("summary prologue: " + ast.unparse(st)[:60])
        c = test(st.test)
        if len(st.body) == 1 and isinstance(st.body[0], ast.Assign) and ast.unparse(st.body[0]) == "nodelist = self.G":
            lines.append(f"  let nodelist : NL := if {c} then NL.graph else nodelist")
            continue
        if len(st.body) == 1 and isinstance(st.body[0], ast.Try):
            tr = st.body[0]
            if tr.orelse or tr.finalbody or len(tr.handlers) != 1 or ast.unparse(tr.handlers[0].type) != "AttributeError" \
                    or [ast.unparse(x) for x in tr.handlers[0].body] != ["pass"] or len(tr.body) != 2 \
                    or not isinstance(tr.body[1], ast.Return):
                raise Unsupported("summary prologue: try " + ast.unparse(tr)[:60])
            a = ast.unparse(tr.body[1].value)
            if not a.startswith("self.") or ast.unparse(tr.body[0]) != a:
                raise Unsupported("summary prologue: cached attribute " + a)
            attr = a[5:]
            fields.setdefault(attr, "Summ")
            lines += [f"  if {c} then",
                      f"    match self.{attr} with",
                      f"    | some cached_ => return (cached_, self)          -- `return {a}`",
                      f"    | none => pure ()                               -- AttributeError: first time through"]
            continue
        raise Unsupported("summary prologue: " + ast.unparse(st)[:60])
    lines += ["  let mysummary ← GenInvest.summary hist statuses (nodelist.nodes allNodes)"]
    # ---- epilogue
    returned = False
    for st in epi:
        if returned:
            raise Unsupported("summary: code after return")
        if isinstance(st, ast.Return) and ast.unparse(st.value) == "mysummary":
            lines.append("  return (mysummary, self)")
            returned = True
            continue
        if isinstance(st, ast.If) and not st.orelse:
            c = test(st.test)
            ups = []
            for a in st.body:
                if not (isinstance(a, ast.Assign) and len(a.targets) == 1 and ast.unparse(a.targets[0]).startswith("self.")):
                    raise Unsupported("summary epilogue: " + ast.unparse(a)[:60])
                attr = ast.unparse(a.targets[0])[5:]
                term, ty = value(a.value, fields)
                if fields.setdefault(attr, ty) != ty:
                    raise Unsupported(f"summary epilogue: attribute {attr} used with two kinds")
                ups.append(f"{attr} := some {term}")
            lines.append(f"  let self : St := if {c} then {{ self with {', '.join(ups)} }} else self")
            continue
        raise Unsupported("summary epilogue: " + ast.unparse(st)[:60])
    if not returned:
        raise Unsupported("summary: no `return mysummary`")
    # ---- __init__ must call self.summary() (and nothing else touches the cache attributes)
    ib = body_of(m["__init__"])
    calls = [ast.unparse(s) for s in ib if "summary" in ast.unparse(s) and ast.unparse(s).startswith("self.summary(")]
    if calls != ["self.summary()"]:
        raise Unsupported("__init__: expected exactly one `self.summary()` call, found %r" % calls)
    for s in ib:
        for node in ast.walk(s):
            if isinstance(node, ast.Attribute) and isinstance(node.ctx, ast.Store) and node.attr in fields:
                raise Unsupported("__init__ assigns " + node.attr)
    # ---- accessors
    acc = []
    for name in ("t", "S", "I", "R"):
        f = m[name]
        fb = body_of(f)
        if name == "t":
            if len(fb) != 1 or not isinstance(fb[0], ast.Return):
                raise Unsupported("t(): body")
            e = fb[0].value
            if not (isinstance(e, ast.Subscript) and isinstance(e.slice, ast.Constant) and e.slice.value == 0 and ast.unparse(e.value).startswith("self.")
                    and ast.unparse(e.value)[5:] in fields and fields[ast.unparse(e.value)[5:]] == "Summ"):
                raise Unsupported("t(): " + ast.unparse(e))
            attr = ast.unparse(e.value)[5:]
            acc.append(f"/-- generated from `Simulation_Investigation.t` (simulation_investigation.py:{f.lineno}) -/\n"
                       f"def t (self : St) : Except String (List Rat) :=\n"
                       f"  match self.{attr} with | some c_ => pure c_.1 | none => throw \"AttributeError\"\n")
            continue
        if not (len(fb) == 1 and isinstance(fb[0], ast.If) and len(fb[0].body) == 1 and len(fb[0].orelse) == 1
                and isinstance(fb[0].body[0], ast.Return) and isinstance(fb[0].orelse[0], ast.Raise)):
            raise Unsupported(name + "(): body")
        cond, ret, rs = fb[0].test, fb[0].body[0].value, ast.unparse(fb[0].orelse[0].exc)
        if not (isinstance(cond, ast.Compare) and isinstance(cond.ops[0], ast.In) and isinstance(cond.left, ast.Constant)
                and ast.unparse(cond.comparators[0]) == "self._possible_statuses_" and rs.startswith("EoN.EoNError(")):
            raise Unsupported(name + "(): test")
        key = cond.left.value
        if not (isinstance(ret, ast.Subscript) and isinstance(ret.slice, ast.Constant) and isinstance(ret.value, ast.Subscript)
                and isinstance(ret.value.slice, ast.Constant) and ret.value.slice.value == 1 and ast.unparse(ret.value.value).startswith("self.")):
            raise Unsupported(name + "(): return " + ast.unparse(ret))
        attr = ast.unparse(ret.value.value)[5:]
        if fields.get(attr) != "Summ":
            raise Unsupported(name + "(): reads " + attr)
        acc.append(f"/-- generated from `Simulation_Investigation.{name}` (simulation_investigation.py:{f.lineno}) -/\n"
                   f"def {name} (statuses : List String) (self : St) : Except String (List Int) :=\n"
                   f"  if statuses.contains \"{key}\" then\n"
                   f"    match self.{attr} with | some c_ => PySI.col statuses c_.2 \"{ret.slice.value}\" | none => throw \"AttributeError\"\n"
                   f"  else throw \"EoNError\"\n")
    st_fields = "\n".join(f"  {a} : Option ({'List Rat × List (List Int)' if ty == 'Summ' else ty}) := none" for a, ty in fields.items())
    text = ("/-- the attributes `summary()` assigns; `none` = not assigned yet -/\nstructure St where\n" + st_fields + "\n\n"
            f"/-- generated from `Simulation_Investigation.summary` (simulation_investigation.py:{n.lineno}): caching prologue, the computation\n"
            "(`GenInvest.summary`), caching epilogue -/\n"
            "def summary (hist : Node → List Rat × List String) (statuses : List String) (allNodes : List Node) (self : St) (nodelist : NL) :\n"
            "    Except String (Summ × St) := do\n" + "\n".join(lines) + "\n\n"
            "/-- generated from `Simulation_Investigation.__init__`: the one call `self.summary()` on the fresh object -/\n"
            "def init (hist : Node → List Rat × List String) (statuses : List String) (allNodes : List Node) : Except String St := do\n"
            "  let r ← summary hist statuses allNodes {} NL.none\n  pure r.2\n\n" + "\n".join(acc))
    return text, [ast.unparse(n), ast.unparse(m["__init__"])] + [ast.unparse(m[x]) for x in ("t", "S", "I", "R")]


HEADER = '''import EoNVerif.Gen.InvestGen
/-!
GENERATED by harness/pysi2lean.py from the caching part of `Simulation_Investigation.summary`, `__init__` and the accessors
`t / S / I / R` (EoN/simulation_investigation.py) — do not edit; regenerated on every check run.   source sha1: {sha}
-/
namespace PySI
/-- `D['X']` on the dict of count columns: the column of status `X` (KeyError if it is not a possible status) -/
def col (statuses : List String) (cols : List (List Int)) (s : String) : Except String (List Int) :=
  match (List.zip statuses cols).find? (fun p => p.1 == s) with
  | some p => pure p.2
  | none => throw "KeyError"
end PySI

namespace GenSI
abbrev Summ := List Rat × List (List Int)

/-- how the caller passed `nodelist`: not at all, the graph object itself, or some other list of nodes -/
inductive NL where
  | none | graph | list (l : List Node)

def NL.isNone : NL → Bool | .none => true | _ => false
/-- `nodelist is self.G` -/
def NL.isG : NL → Bool | .graph => true | _ => false
/-- `nodelist == self.G`: a list never equals a Graph object -/
def NL.eqG : NL → Bool | .graph => true | _ => false
/-- the nodes the computation iterates over -/
def NL.nodes (allNodes : List Node) : NL → List Node | .list l => l | _ => allNodes

'''


def translate(repo=REPO):
    try:
        tree = ast.parse(open(os.path.join(repo, "EoN", "simulation_investigation.py")).read())
        cls = next(n for n in tree.body if isinstance(n, ast.ClassDef) and n.name == "Simulation_Investigation")
        text, srcs = gen(cls)
        errors = {}
    except (Unsupported, KeyError, StopIteration) as ex:
        text, srcs, errors = "", [], {"Simulation_Investigation(cache)": f"unsupported: {ex}"}
    sha = hashlib.sha1("\n".join(srcs).encode()).hexdigest()
    return HEADER.format(sha=sha) + text + "\nend GenSI\n", errors


def regenerate():
    import warnings
    target = os.path.join(os.path.dirname(os.path.abspath(__file__)), "..", "lean", "EoNVerif", "Gen", "InvestState.lean")
    with warnings.catch_warnings():
        warnings.simplefilter("ignore")
        text, errors = translate()
    old = open(target).read() if os.path.exists(target) else None
    if text and not errors and old != text:
        tmp = target + ".tmp%d" % os.getpid()
        with open(tmp, "w") as f:
            f.write(text)
        os.replace(tmp, target)
    return (old != text and not errors), errors


def main():
    changed, errors = regenerate()
    print("pysi2lean: Gen/InvestState.lean %s" % ("rewritten" if changed else "up to date"))
    for n, e in errors.items():
        print(f"pysi2lean: {n}: {e}")
    return 1 if errors else 0


if __name__ == "__main__":
    sys.exit(main())
