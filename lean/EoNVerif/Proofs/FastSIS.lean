import EoNVerif.Model.FastSIS
import EoNVerif.Proofs.Gillespie
import EoNVerif.Proofs.EventSIS
import Mathlib.Tactic.Linarith
import Mathlib.Algebra.Order.Field.Rat
import Mathlib.Data.List.Basic
/-!
Helper lemmas for C02 (`fast_SIS`): the priority queue, the effect of the sub-programs `findNext` / `nbrLoop` /
`processTrans` on the state (they only append transmission events that lie strictly before the source's recovery time),
the tape bookkeeping (`TapeNonneg`), and the state invariant `Inv` of the event loop.
-/
namespace FastSIS

/-- infection status of `u` after the first `k` entries of a (chronological) change log -/
def statusAfter (log : List (Rat × Node × Bool)) (k : Nat) (u : Node) : Bool :=
  ((log.take k).filter fun e => e.2.1 == u).getLast?.map (·.2.2) |>.getD false

structure WF (P : FSParams) (infs : List Node) : Prop where
  nodup : P.nodes.Nodup
  nbr_mem : ∀ u ∈ P.nodes, ∀ v ∈ P.nbrs u, v ∈ P.nodes
  symm : ∀ u v, v ∈ P.nbrs u → u ∈ P.nbrs v
  noloop : ∀ u, u ∉ P.nbrs u
  rates : (∀ u v, 0 ≤ P.transRate u v) ∧ (∀ u, 0 ≤ P.recRate u)
  infs_mem : ∀ u ∈ infs, u ∈ P.nodes
  horizon : P.tmin < P.tmax

/-- every `expovariate` value on the tape is non-negative -/
def TapeNonneg (ts : TapeSt) : Prop := ∀ d ∈ ts.tape, ∀ x, d = Draw.expo x → 0 ≤ x

/-! ### tape -/

theorem popExpo_nonneg (rate : Rat) (ts ts' : TapeSt) (x : Rat) (hts : TapeNonneg ts)
    (h : TM.popExpo rate ts = .ok (x, ts')) : 0 ≤ x ∧ TapeNonneg ts' := by
  unfold TM.popExpo at h
  split at h
  · cases h
  · split at h
    · rename_i d t heq
      cases h
      refine ⟨hts _ (by rw [heq]; exact List.mem_cons_self) _ rfl, ?_⟩
      intro d hd y hy
      exact hts d (by rw [heq]; exact List.mem_cons_of_mem _ hd) y hy
    · cases h
    · cases h

/-! ### priority queue -/

theorem minTime_eq (q : List FItem) : minTime q = EventSIS.gminTime FItem.time q := by
  induction q with
  | nil => rfl
  | cons x xs ih => simp only [minTime, EventSIS.gminTime, ih]; cases EventSIS.gminTime FItem.time xs <;> rfl

theorem pop_eq (q : List FItem) : pop q = EventSIS.gpop FItem.time q := by
  unfold pop EventSIS.gpop; rw [minTime_eq]
  cases EventSIS.gminTime FItem.time q with
  | none => rfl
  | some m =>
    simp only
    cases List.findIdx? (fun x => x.time == m) q with
    | none => rfl
    | some i => simp only; cases q[i]? <;> rfl

theorem pop_none {q : List FItem} (h : pop q = none) : q = [] := by
  rw [pop_eq] at h; exact EventSIS.gpop_none _ h

theorem pop_some {q : List FItem} {x : FItem} {q' : List FItem} (h : pop q = some (x, q')) :
    ∃ l1 l2, q = l1 ++ x :: l2 ∧ q' = l1 ++ l2 ∧ (∀ y ∈ l1, x.time < y.time) ∧ (∀ y ∈ l2, x.time ≤ y.time) := by
  rw [pop_eq] at h; exact EventSIS.gpop_some _ h

theorem qadd_eq (tmax : Rat) (q : List FItem) (t : Rat) (e : FEv) :
    qadd tmax q t e = q ++ (if t < tmax then [⟨t, e⟩] else []) := by
  unfold qadd; split <;> simp

/-! ### status according to a reversed log -/

/-- status of `u` according to a *reversed* change log (newest entry first) -/
def cur : List (Rat × Node × Bool) → Node → Bool
  | [], _ => false
  | e :: rest, u => if e.2.1 = u then e.2.2 else cur rest u

theorem statusAfter_eq_cur (pre rest : List (Rat × Node × Bool)) (u : Node) :
    statusAfter (pre.reverse ++ rest) pre.length u = cur pre u := by
  unfold statusAfter
  have : (pre.reverse ++ rest).take pre.length = pre.reverse := by
    rw [List.take_append_of_le_length (by simp)]
    rw [List.take_of_length_le (by simp)]
  rw [this, List.filter_reverse, List.getLast?_reverse]
  induction pre with
  | nil => rfl
  | cons e pre ih =>
    simp only [List.filter_cons, cur]
    by_cases he : e.2.1 = u
    · simp [he]
    · have : (e.2.1 == u) = false := by simpa using he
      simp only [this, if_neg he]
      exact ih (by
        rw [List.take_append_of_le_length (by simp)]
        rw [List.take_of_length_le (by simp)])

theorem statusAfter_append (l rest : List (Rat × Node × Bool)) (k : Nat) (hk : k ≤ l.length) (u : Node) :
    statusAfter (l ++ rest) k u = statusAfter l k u := by
  unfold statusAfter
  rw [List.take_append_of_le_length hk]

/-- legality of a reversed log -/
def Legal (P : FSParams) : List (Rat × Node × Bool) → Prop
  | [] => True
  | e :: rest => Legal P rest ∧ cur rest e.2.1 = (!e.2.2) ∧ P.tmin ≤ e.1 ∧ e.1 < P.tmax ∧ ∀ e' ∈ rest, e'.1 ≤ e.1

theorem Legal.entries {P : FSParams} {l : List (Rat × Node × Bool)} (h : Legal P l) (k : Nat)
    (e : Rat × Node × Bool) (he : l.reverse[k]? = some e) :
    statusAfter l.reverse k e.2.1 = (!e.2.2) ∧ P.tmin ≤ e.1 ∧ e.1 < P.tmax := by
  induction l with
  | nil => simp at he
  | cons e0 rest ih =>
    obtain ⟨h1, h2, h3, h4, _⟩ := h
    rw [List.reverse_cons] at he ⊢
    by_cases hk : k < rest.length
    · rw [List.getElem?_append_left (by simpa using hk)] at he
      rw [statusAfter_append _ _ _ (by simp; omega)]
      exact ih h1 he
    · rw [List.getElem?_append_right (by simp; omega)] at he
      have hk' : k = rest.length := by
        by_contra hne
        have : k - rest.reverse.length ≠ 0 := by simp; omega
        cases hkk : k - rest.reverse.length with
        | zero => exact this hkk
        | succ n => rw [hkk] at he; simp at he
      subst hk'
      simp at he
      subst he
      rw [statusAfter_eq_cur]
      exact ⟨h2, h3, h4⟩

theorem Legal.sorted {P : FSParams} {l : List (Rat × Node × Bool)} (h : Legal P l) :
    (l.reverse.map (·.1)).Pairwise (· ≤ ·) := by
  rw [List.map_reverse, List.pairwise_reverse]
  induction l with
  | nil => simp
  | cons e rest ih =>
    obtain ⟨h1, _, _, _, h5⟩ := h
    rw [List.map_cons, List.pairwise_cons]
    refine ⟨?_, ih h1⟩
    intro a ha
    obtain ⟨e', he', rfl⟩ := List.mem_map.1 ha
    exact h5 e' he'

/-! ### effect of the sub-programs -/

/-- the state with extra queue items appended -/
def addQ (s : FSState) (l : List FItem) : FSState := { s with queue := s.queue ++ l }

theorem draw_spec (rate base : Rat) (ts ts1 : TapeSt) (t1 : ERat) (hts : TapeNonneg ts)
    (h1 : (if rate > 0 then do let d ← TM.popExpo rate; pure (some (base + d)) else pure none : TM ERat) ts = .ok (t1, ts1)) :
    TapeNonneg ts1 ∧ ∀ v, t1 = some v → base ≤ v := by
  split at h1
  · obtain ⟨d, ts0, h0, h1⟩ := TM.bind_ok _ _ _ _ _ h1
    obtain ⟨hd, hts0⟩ := popExpo_nonneg _ _ _ _ hts h0
    obtain ⟨rfl, rfl⟩ := TM.pure_ok _ _ _ _ h1
    refine ⟨hts0, ?_⟩
    intro v hv
    cases hv
    linarith
  · obtain ⟨rfl, rfl⟩ := TM.pure_ok _ _ _ _ h1
    exact ⟨hts, fun v hv => by cases hv⟩

theorem findNext_spec (P : FSParams) (s : FSState) (time rate : Rat) (src tgt : Node) (ts ts' : TapeSt) (s' : FSState)
    (hts : TapeNonneg ts) (h : findNext P s time rate src tgt ts = .ok (s', ts')) :
    TapeNonneg ts' ∧ ∃ l, s' = addQ s l ∧ ∀ x ∈ l, x.ev = FEv.trans (some src) tgt ∧ time ≤ x.time ∧ x.time < P.tmax ∧
      ERat.lt (some x.time) (s.recTime src) = true := by
  have hnil : s = addQ s [] := by simp [addQ]
  unfold findNext at h
  split at h
  · split at h
    · exact absurd h (TM.fail_ne_ok _ _ _)
    · obtain ⟨t1, ts1, h1, h⟩ := TM.bind_ok _ _ _ _ _ h
      obtain ⟨t2, ts2, h2, h⟩ := TM.bind_ok _ _ _ _ _ h
      obtain ⟨hts1, ht1⟩ := draw_spec _ _ _ _ _ hts h1
      have h2' : TapeNonneg ts2 ∧ ∀ v, t2 = some v → time ≤ v := by
        split at h2
        · rename_i hlt
          obtain ⟨d, ts0, h0, h2⟩ := TM.bind_ok _ _ _ _ _ h2
          obtain ⟨hd, hts0⟩ := popExpo_nonneg _ _ _ _ hts1 h0
          obtain ⟨rfl, rfl⟩ := TM.pure_ok _ _ _ _ h2
          refine ⟨hts0, ?_⟩
          intro v hv
          cases t1 with
          | none => simp [ERat.lt] at hlt
          | some a =>
            have := ht1 a rfl
            cases hr : s.recTime tgt with
            | none => rw [hr] at hv; simp [ERat.add] at hv
            | some r =>
              rw [hr] at hv hlt
              simp [ERat.add] at hv
              simp [ERat.lt] at hlt
              linarith
        · obtain ⟨rfl, rfl⟩ := TM.pure_ok _ _ _ _ h2
          exact ⟨hts1, ht1⟩
      obtain ⟨hts2, ht2⟩ := h2'
      split at h
      · rename_i tt
        split at h
        · rename_i hc
          obtain ⟨rfl, rfl⟩ := TM.pure_ok _ _ _ _ h
          refine ⟨hts2, [⟨tt, FEv.trans (some src) tgt⟩], ?_, ?_⟩
          · simp [addQ, qadd, hc.2]
          · intro x hx
            simp at hx
            subst hx
            exact ⟨rfl, ht2 _ rfl, hc.2, hc.1⟩
        · obtain ⟨rfl, rfl⟩ := TM.pure_ok _ _ _ _ h
          exact ⟨hts2, [], hnil, by simp⟩
      · obtain ⟨rfl, rfl⟩ := TM.pure_ok _ _ _ _ h
        exact ⟨hts2, [], hnil, by simp⟩
  · obtain ⟨rfl, rfl⟩ := TM.pure_ok _ _ _ _ h
    exact ⟨hts, [], hnil, by simp⟩

theorem nbrLoop_spec (P : FSParams) (time : Rat) (tgt : Node) (l : List Node) (s : FSState) (ts ts' : TapeSt) (s' : FSState)
    (hts : TapeNonneg ts) (h : nbrLoop P time tgt l s ts = .ok (s', ts')) :
    TapeNonneg ts' ∧ ∃ a, s' = addQ s a ∧ ∀ x ∈ a, ∃ v ∈ l, x.ev = FEv.trans (some tgt) v ∧ time ≤ x.time ∧ x.time < P.tmax ∧
      ERat.lt (some x.time) (s.recTime tgt) = true := by
  induction l generalizing s ts with
  | nil =>
    obtain ⟨rfl, rfl⟩ := TM.pure_ok _ _ _ _ h
    exact ⟨hts, [], by simp [addQ], by simp⟩
  | cons v rest ih =>
    rw [nbrLoop] at h
    obtain ⟨s1, ts1, h1, h⟩ := TM.bind_ok _ _ _ _ _ h
    obtain ⟨hts1, a1, rfl, ha1⟩ := findNext_spec _ _ _ _ _ _ _ _ _ hts h1
    obtain ⟨hts2, a2, rfl, ha2⟩ := ih _ _ hts1 h
    refine ⟨hts2, a1 ++ a2, by simp [addQ], ?_⟩
    intro x hx
    rcases List.mem_append.1 hx with hx | hx
    · exact ⟨v, by simp, ha1 x hx⟩
    · obtain ⟨w, hw, hh⟩ := ha2 x hx
      exact ⟨w, by simp [hw], hh⟩

/-! ### the state invariant -/

/-- the (at most one) recovery event queued when `tgt` is infected with recovery time `recT` -/
def recItems (P : FSParams) (tgt : Node) : ERat → List FItem
  | some rt => if rt < P.tmax then [⟨rt, FEv.recov tgt⟩] else []
  | none => []

theorem mem_recItems {P : FSParams} {tgt : Node} {recT : ERat} {x : FItem} (hx : x ∈ recItems P tgt recT) :
    ∃ rt, recT = some rt ∧ rt < P.tmax ∧ x = ⟨rt, FEv.recov tgt⟩ := by
  cases recT with
  | none => simp [recItems] at hx
  | some rt =>
    by_cases hlt : rt < P.tmax
    · simp [recItems, hlt] at hx; exact ⟨rt, rfl, hlt, hx⟩
    · simp [recItems, hlt] at hx

theorem countP_recItems (P : FSParams) (tgt u : Node) (recT : ERat) :
    List.countP (fun x => x.ev == FEv.recov u) (recItems P tgt recT) ≤ 1 ∧
      (u ≠ tgt → List.countP (fun x => x.ev == FEv.recov u) (recItems P tgt recT) = 0) := by
  cases recT with
  | none => simp [recItems]
  | some rt =>
    by_cases hlt : rt < P.tmax
    · simp only [recItems, if_pos hlt]
      refine ⟨by simp [List.countP_cons]; split <;> omega, ?_⟩
      intro hne
      have : ¬ tgt = u := fun h => hne h.symm
      simp [this]
    · simp [recItems, hlt]

/-- the state after `tgt` has been infected at `time` with recovery time `recT` (before the neighbour loop) -/
def infect (P : FSParams) (s : FSState) (time : Rat) (src : Option Node) (tgt : Node) (recT : ERat) : FSState :=
  { inf := fset s.inf tgt true, recTime := fset s.recTime tgt recT,
    queue := s.queue ++ recItems P tgt recT,
    log := (time, tgt, true) :: s.log, trans := (time, src, tgt) :: s.trans }

/-- the condition under which a popped transmission event is a legal move -/
def SrcOK (P : FSParams) (infs : List Node) (s : FSState) (time : Rat) (src : Option Node) (tgt : Node) : Prop :=
  match src with
  | none => tgt ∈ infs ∧ time = P.tmin
  | some u => tgt ∈ P.nbrs u ∧ s.inf u = true ∧ ERat.lt (some time) (s.recTime u) = true

structure Inv (P : FSParams) (infs : List Node) (now : Rat) (s : FSState) : Prop where
  legal : Legal P s.log
  logle : ∀ e ∈ s.log, e.1 ≤ now
  tmin_le : P.tmin ≤ now
  status : ∀ u, s.inf u = cur s.log u
  qtime : ∀ x ∈ s.queue, now ≤ x.time ∧ x.time < P.tmax
  rec_q : ∀ x ∈ s.queue, ∀ u, x.ev = FEv.recov u → s.inf u = true ∧ s.recTime u = some x.time
  rec_pending : ∀ u rt, s.inf u = true → s.recTime u = some rt → rt < P.tmax → (⟨rt, FEv.recov u⟩ : FItem) ∈ s.queue
  rec_uniq : ∀ u, s.queue.countP (fun x => x.ev == FEv.recov u) ≤ 1
  tr_q : ∀ x ∈ s.queue, ∀ u v, x.ev = FEv.trans (some u) v →
    v ∈ P.nbrs u ∧ s.inf u = true ∧ ERat.lt (some x.time) (s.recTime u) = true
  tr0_q : ∀ x ∈ s.queue, ∀ v, x.ev = FEv.trans none v → v ∈ infs ∧ x.time = P.tmin
  tr_len : s.trans.length = (s.log.filter (·.2.2)).length
  tr_log : ∀ e ∈ s.trans, ∃ pre post, s.log = post ++ (e.1, e.2.2, true) :: pre ∧
    (match e.2.1 with
     | none => e.2.2 ∈ infs ∧ e.1 = P.tmin
     | some u => e.2.2 ∈ P.nbrs u ∧ cur pre u = true)

/-- adding transmission events from infectious sources, strictly before the source's recovery time -/
theorem Inv_addQ {P : FSParams} {infs : List Node} {now : Rat} {s : FSState} (hI : Inv P infs now s) (a : List FItem)
    (ha : ∀ x ∈ a, ∃ u v, x.ev = FEv.trans (some u) v ∧ v ∈ P.nbrs u ∧ s.inf u = true ∧ now ≤ x.time ∧ x.time < P.tmax ∧
      ERat.lt (some x.time) (s.recTime u) = true) : Inv P infs now (addQ s a) := by
  have hmem : ∀ x, x ∈ (addQ s a).queue → x ∈ s.queue ∨ x ∈ a := fun x hx => List.mem_append.1 hx
  refine ⟨hI.legal, hI.logle, hI.tmin_le, hI.status, ?_, ?_, ?_, ?_, ?_, ?_, hI.tr_len, hI.tr_log⟩
  · intro x hx
    rcases hmem x hx with hx | hx
    · exact hI.qtime x hx
    · obtain ⟨u, v, _, _, _, h1, h2, _⟩ := ha x hx
      exact ⟨h1, h2⟩
  · intro x hx u hu
    rcases hmem x hx with hx | hx
    · exact hI.rec_q x hx u hu
    · obtain ⟨u', v, h0, _⟩ := ha x hx
      rw [h0] at hu; cases hu
  · intro u rt h1 h2 h3
    exact List.mem_append_left _ (hI.rec_pending u rt h1 h2 h3)
  · intro u
    show List.countP _ (s.queue ++ a) ≤ 1
    rw [List.countP_append]
    have : List.countP (fun x => x.ev == FEv.recov u) a = 0 := by
      rw [List.countP_eq_zero]
      intro x hx
      obtain ⟨u', v, h0, _⟩ := ha x hx
      simp [h0]
    have := hI.rec_uniq u
    omega
  · intro x hx u v hu
    rcases hmem x hx with hx | hx
    · exact hI.tr_q x hx u v hu
    · obtain ⟨u', v', h0, h1, h2, _, _, h3⟩ := ha x hx
      rw [h0] at hu; cases hu
      exact ⟨h1, h2, h3⟩
  · intro x hx v hv
    rcases hmem x hx with hx | hx
    · exact hI.tr0_q x hx v hv
    · obtain ⟨u', v', h0, _⟩ := ha x hx
      rw [h0] at hv; cases hv


theorem processTrans_spec (P : FSParams) (s : FSState) (time : Rat) (src : Option Node) (tgt : Node) (ts ts' : TapeSt)
    (s' : FSState) (hts : TapeNonneg ts) (h : processTrans P s time src tgt ts = .ok (s', ts')) :
    TapeNonneg ts' ∧ ∃ sm a,
      ((s.inf tgt = true ∧ sm = s) ∨
        (s.inf tgt = false ∧ ∃ recT, (∀ v, recT = some v → time ≤ v) ∧ sm = infect P s time src tgt recT)) ∧
      s' = addQ sm a ∧
      ∀ x ∈ a, ∃ u v, x.ev = FEv.trans (some u) v ∧
        ((u = tgt ∧ v ∈ P.nbrs tgt ∧ s.inf tgt = false) ∨ (src = some u ∧ v = tgt)) ∧
        time ≤ x.time ∧ x.time < P.tmax ∧ ERat.lt (some x.time) (sm.recTime u) = true := by
  unfold processTrans at h
  obtain ⟨s1, ts1, h1, h⟩ := TM.bind_ok _ _ _ _ _ h
  have key : TapeNonneg ts1 ∧ ∃ sm a,
      ((s.inf tgt = true ∧ sm = s) ∨
        (s.inf tgt = false ∧ ∃ recT, (∀ v, recT = some v → time ≤ v) ∧ sm = infect P s time src tgt recT)) ∧
      s1 = addQ sm a ∧
      ∀ x ∈ a, ∃ v, x.ev = FEv.trans (some tgt) v ∧ (v ∈ P.nbrs tgt ∧ s.inf tgt = false) ∧
        time ≤ x.time ∧ x.time < P.tmax ∧ ERat.lt (some x.time) (sm.recTime tgt) = true := by
    split at h1
    · rename_i hinf
      have hinf' : s.inf tgt = false := by simpa using hinf
      dsimp only at h1
      split at h1
      · exact absurd h1 (TM.fail_ne_ok _ _ _)
      · obtain ⟨recT, ts0, h0, h1⟩ := TM.bind_ok _ _ _ _ _ h1
        obtain ⟨hts0, hrec⟩ := draw_spec _ _ _ _ _ hts h0
        obtain ⟨hts1, a, ha, hall⟩ := nbrLoop_spec _ _ _ _ _ _ _ _ hts0 h1
        refine ⟨hts1, infect P s time src tgt recT, a, Or.inr ⟨hinf', recT, hrec, rfl⟩, ?_, ?_⟩
        · rw [ha]
          cases recT with
          | none => simp [infect, addQ, recItems]
          | some rt => simp [infect, addQ, qadd_eq, recItems]
        · intro x hx
          obtain ⟨v, hv, h2, h3, h4, h5⟩ := hall x hx
          refine ⟨v, h2, ⟨hv, hinf'⟩, h3, h4, ?_⟩
          cases recT <;> exact h5
    · rename_i hinf
      have hinf' : s.inf tgt = true := by simpa using hinf
      obtain ⟨rfl, rfl⟩ := TM.pure_ok _ _ _ _ h1
      exact ⟨hts, s1, [], Or.inl ⟨hinf', rfl⟩, by simp [addQ], by simp⟩
  obtain ⟨hts1, sm, a, hsm, rfl, ha⟩ := key
  cases src with
  | none =>
    obtain ⟨rfl, rfl⟩ := TM.pure_ok _ _ _ _ h
    refine ⟨hts1, sm, a, hsm, rfl, ?_⟩
    intro x hx
    obtain ⟨v, h2, h3, h4⟩ := ha x hx
    exact ⟨tgt, v, h2, Or.inl ⟨rfl, h3⟩, h4⟩
  | some u =>
    obtain ⟨hts2, b, rfl, hb⟩ := findNext_spec _ _ _ _ _ _ _ _ _ hts1 h
    refine ⟨hts2, sm, a ++ b, hsm, by simp [addQ], ?_⟩
    intro x hx
    rcases List.mem_append.1 hx with hx | hx
    · obtain ⟨v, h2, h3, h4⟩ := ha x hx
      exact ⟨tgt, v, h2, Or.inl ⟨rfl, h3⟩, h4⟩
    · obtain ⟨h2, h3⟩ := hb x hx
      exact ⟨u, tgt, h2, Or.inr ⟨rfl, rfl⟩, h3⟩


theorem Inv_infect {P : FSParams} {infs : List Node} {now : Rat} {s : FSState} (hI : Inv P infs now s)
    (src : Option Node) (tgt : Node) (recT : ERat) (hsus : s.inf tgt = false) (hnow : now < P.tmax)
    (hrec : ∀ v, recT = some v → now ≤ v) (hsrc : SrcOK P infs s now src tgt) :
    Inv P infs now (infect P s now src tgt recT) := by
  have hnorec : ∀ x ∈ s.queue, x.ev ≠ FEv.recov tgt := by
    intro x hx he
    have := (hI.rec_q x hx tgt he).1
    rw [hsus] at this; cases this
  have hmem : ∀ x, x ∈ (infect P s now src tgt recT).queue →
      x ∈ s.queue ∨ ∃ rt, recT = some rt ∧ rt < P.tmax ∧ x = ⟨rt, FEv.recov tgt⟩ := by
    intro x hx
    rcases List.mem_append.1 hx with hx | hx
    · exact Or.inl hx
    · exact Or.inr (mem_recItems hx)
  refine ⟨?_, ?_, hI.tmin_le, ?_, ?_, ?_, ?_, ?_, ?_, ?_, ?_, ?_⟩
  · -- legal
    refine ⟨hI.legal, ?_, hI.tmin_le, hnow, hI.logle⟩
    show cur s.log tgt = !true
    rw [← hI.status, hsus]; rfl
  · intro e he
    rcases List.mem_cons.1 he with rfl | he
    · exact le_refl _
    · exact hI.logle e he
  · intro u
    show fset s.inf tgt true u = cur ((now, tgt, true) :: s.log) u
    by_cases hu : tgt = u
    · subst hu; simp [fset, cur]
    · have : u ≠ tgt := fun h => hu h.symm
      simp [fset, cur, hu, this, hI.status]
  · intro x hx
    rcases hmem x hx with hx | ⟨rt, h1, h2, rfl⟩
    · exact hI.qtime x hx
    · exact ⟨hrec rt h1, h2⟩
  · intro x hx u hu
    show fset s.inf tgt true u = true ∧ fset s.recTime tgt recT u = some x.time
    rcases hmem x hx with hx' | ⟨rt, h1, h2, rfl⟩
    · have hne : u ≠ tgt := by
        intro h; rw [h] at hu; exact hnorec x hx' hu
      simp only [fset, if_neg hne]
      exact hI.rec_q x hx' u hu
    · cases hu
      simp [fset, h1]
  · intro u rt h1 h2 h3
    by_cases hu : u = tgt
    · subst hu
      have h2' : recT = some rt := by simpa [infect, fset] using h2
      subst h2'
      show _ ∈ s.queue ++ _
      simp [recItems, h3]
    · have h1' : s.inf u = true := by simpa [infect, fset, hu] using h1
      have h2' : s.recTime u = some rt := by simpa [infect, fset, hu] using h2
      exact List.mem_append_left _ (hI.rec_pending u rt h1' h2' h3)
  · intro u
    show List.countP _ (s.queue ++ _) ≤ 1
    rw [List.countP_append]
    by_cases hu : u = tgt
    · subst hu
      have : List.countP (fun x => x.ev == FEv.recov u) s.queue = 0 := by
        rw [List.countP_eq_zero]
        intro x hx
        simpa using hnorec x hx
      rw [this]
      have := (countP_recItems P u u recT).1
      omega
    · rw [(countP_recItems P tgt u recT).2 hu]
      exact hI.rec_uniq u
  · intro x hx u v hu
    show v ∈ P.nbrs u ∧ fset s.inf tgt true u = true ∧ ERat.lt (some x.time) (fset s.recTime tgt recT u) = true
    rcases hmem x hx with hx | ⟨rt, h1, h2, rfl⟩
    · obtain ⟨h1, h2, h3⟩ := hI.tr_q x hx u v hu
      have hne : u ≠ tgt := by
        rintro rfl; rw [hsus] at h2; cases h2
      simp only [fset, if_neg hne]
      exact ⟨h1, h2, h3⟩
    · cases hu
  · intro x hx v hv
    rcases hmem x hx with hx | ⟨rt, h1, h2, rfl⟩
    · exact hI.tr0_q x hx v hv
    · cases hv
  · show ((now, src, tgt) :: s.trans).length = (((now, tgt, true) :: s.log).filter (·.2.2)).length
    simp [hI.tr_len]
  · intro e he
    rcases List.mem_cons.1 he with rfl | he
    · refine ⟨s.log, [], rfl, ?_⟩
      cases src with
      | none => exact hsrc
      | some u =>
        obtain ⟨h1, h2, _⟩ := hsrc
        exact ⟨h1, by rw [← hI.status]; exact h2⟩
    · obtain ⟨pre, post, h1, h2⟩ := hI.tr_log e he
      exact ⟨pre, (now, tgt, true) :: post, by show _ :: s.log = _; rw [h1]; rfl, h2⟩

theorem Inv_pop_trans {P : FSParams} {infs : List Node} {now : Rat} {s : FSState} (hI : Inv P infs now s)
    {x : FItem} {l1 l2 : List FItem} (hq : s.queue = l1 ++ x :: l2) (hmin : ∀ y ∈ l1 ++ l2, x.time ≤ y.time)
    (src : Option Node) (tgt : Node) (hx : x.ev = FEv.trans src tgt) :
    Inv P infs x.time { s with queue := l1 ++ l2 } ∧ x.time < P.tmax ∧
      SrcOK P infs { s with queue := l1 ++ l2 } x.time src tgt := by
  have hsub : ∀ y ∈ l1 ++ l2, y ∈ s.queue := by
    intro y hy; rw [hq]; exact EventSIS.mem_mid hy
  have hxq : x ∈ s.queue := by rw [hq]; simp
  have hxt := hI.qtime x hxq
  refine ⟨⟨hI.legal, fun e he => le_trans (hI.logle e he) hxt.1, le_trans hI.tmin_le hxt.1, hI.status, ?_, ?_, ?_, ?_,
    ?_, ?_, hI.tr_len, hI.tr_log⟩, hxt.2, ?_⟩
  · intro y hy
    exact ⟨hmin y hy, (hI.qtime y (hsub y hy)).2⟩
  · intro y hy u hu
    exact hI.rec_q y (hsub y hy) u hu
  · intro u rt h1 h2 h3
    have := hI.rec_pending u rt h1 h2 h3
    rw [hq] at this
    rcases List.mem_append.1 this with h | h
    · exact List.mem_append_left _ h
    · rcases List.mem_cons.1 h with h | h
      · rw [← h] at hx; cases hx
      · exact List.mem_append_right _ h
  · intro u
    have := hI.rec_uniq u
    rw [hq] at this
    exact le_trans (EventSIS.countP_mid_le _ _ _ _) this
  · intro y hy u v hu
    exact hI.tr_q y (hsub y hy) u v hu
  · intro y hy v hv
    exact hI.tr0_q y (hsub y hy) v hv
  · cases src with
    | none => exact hI.tr0_q x hxq tgt hx
    | some u => exact hI.tr_q x hxq u tgt hx

theorem Inv_pop_rec {P : FSParams} {infs : List Node} {now : Rat} {s : FSState} (hI : Inv P infs now s)
    {x : FItem} {l1 l2 : List FItem} (hq : s.queue = l1 ++ x :: l2) (hmin : ∀ y ∈ l1 ++ l2, x.time ≤ y.time)
    (u : Node) (hx : x.ev = FEv.recov u) :
    Inv P infs x.time (processRec { s with queue := l1 ++ l2 } x.time u) := by
  have hsub : ∀ y ∈ l1 ++ l2, y ∈ s.queue := by
    intro y hy; rw [hq]; exact EventSIS.mem_mid hy
  have hxq : x ∈ s.queue := by rw [hq]; simp
  have hxt := hI.qtime x hxq
  obtain ⟨hinf, hrt⟩ := hI.rec_q x hxq u hx
  have hnone : ∀ y ∈ l1 ++ l2, y.ev ≠ FEv.recov u := by
    have h1 := hI.rec_uniq u
    rw [hq, List.countP_append, List.countP_cons] at h1
    have hx' : (x.ev == FEv.recov u) = true := by simp [hx]
    rw [if_pos hx'] at h1
    have h0 : List.countP (fun x => x.ev == FEv.recov u) (l1 ++ l2) = 0 := by
      rw [List.countP_append]; omega
    rw [List.countP_eq_zero] at h0
    intro y hy
    simpa using h0 y hy
  refine ⟨?_, ?_, le_trans hI.tmin_le hxt.1, ?_, ?_, ?_, ?_, ?_, ?_, ?_, ?_, ?_⟩
  · refine ⟨hI.legal, ?_, le_trans hI.tmin_le hxt.1, hxt.2, fun e he => le_trans (hI.logle e he) hxt.1⟩
    show cur s.log u = !false
    rw [← hI.status, hinf]; rfl
  · intro e he
    rcases List.mem_cons.1 he with rfl | he
    · exact le_refl _
    · exact le_trans (hI.logle e he) hxt.1
  · intro w
    show fset s.inf u false w = cur ((x.time, u, false) :: s.log) w
    by_cases hw : u = w
    · subst hw; simp [fset, cur]
    · have : w ≠ u := fun h => hw h.symm
      simp [fset, cur, hw, this, hI.status]
  · intro y hy
    exact ⟨hmin y hy, (hI.qtime y (hsub y hy)).2⟩
  · intro y hy w hw
    show fset s.inf u false w = true ∧ s.recTime w = some y.time
    have hne : w ≠ u := by
      intro h; rw [h] at hw; exact hnone y hy hw
    simp only [fset, if_neg hne]
    exact hI.rec_q y (hsub y hy) w hw
  · intro w rt h1 h2 h3
    have hne : w ≠ u := by
      intro h; rw [h] at h1; simp [processRec, fset] at h1
    have h1' : s.inf w = true := by simpa [processRec, fset, hne] using h1
    have := hI.rec_pending w rt h1' h2 h3
    rw [hq] at this
    rcases List.mem_append.1 this with h | h
    · exact List.mem_append_left _ h
    · rcases List.mem_cons.1 h with h | h
      · rw [← h] at hx; cases hx; exact absurd rfl hne
      · exact List.mem_append_right _ h
  · intro w
    have := hI.rec_uniq w
    rw [hq] at this
    exact le_trans (EventSIS.countP_mid_le _ _ _ _) this
  · intro y hy w v hw
    show v ∈ P.nbrs w ∧ fset s.inf u false w = true ∧ ERat.lt (some y.time) (s.recTime w) = true
    obtain ⟨h1, h2, h3⟩ := hI.tr_q y (hsub y hy) w v hw
    have hne : w ≠ u := by
      intro h
      rw [h, hrt] at h3
      have := hmin y hy
      simp [ERat.lt] at h3
      linarith
    simp only [fset, if_neg hne]
    exact ⟨h1, h2, h3⟩
  · intro y hy v hv
    exact hI.tr0_q y (hsub y hy) v hv
  · show s.trans.length = (((x.time, u, false) :: s.log).filter (·.2.2)).length
    simp [hI.tr_len]
  · intro e he
    obtain ⟨pre, post, h1, h2⟩ := hI.tr_log e he
    exact ⟨pre, (x.time, u, false) :: post, by show _ :: s.log = _; rw [h1]; rfl, h2⟩

theorem Inv_processTrans {P : FSParams} {infs : List Node} {now : Rat} {s : FSState} (hI : Inv P infs now s)
    (src : Option Node) (tgt : Node) (hnow : now < P.tmax) (hsrc : SrcOK P infs s now src tgt)
    (ts ts' : TapeSt) (s' : FSState) (hts : TapeNonneg ts) (h : processTrans P s now src tgt ts = .ok (s', ts')) :
    Inv P infs now s' ∧ TapeNonneg ts' := by
  obtain ⟨hts', sm, a, hsm, rfl, ha⟩ := processTrans_spec _ _ _ _ _ _ _ _ hts h
  refine ⟨?_, hts'⟩
  rcases hsm with ⟨hinf, rfl⟩ | ⟨hsus, recT, hrec, rfl⟩
  · apply Inv_addQ hI
    intro x hx
    obtain ⟨u, v, h1, h2, h3, h4, h5⟩ := ha x hx
    rcases h2 with ⟨_, _, h2⟩ | ⟨rfl, rfl⟩
    · rw [hinf] at h2; cases h2
    · exact ⟨u, v, h1, hsrc.1, hsrc.2.1, h3, h4, h5⟩
  · apply Inv_addQ (Inv_infect hI src tgt recT hsus hnow hrec hsrc)
    intro x hx
    obtain ⟨u, v, h1, h2, h3, h4, h5⟩ := ha x hx
    rcases h2 with ⟨rfl, h2, _⟩ | ⟨rfl, rfl⟩
    · exact ⟨u, v, h1, h2, by simp [infect, fset], h3, h4, h5⟩
    · refine ⟨u, v, h1, hsrc.1, ?_, h3, h4, h5⟩
      show fset s.inf v true u = true
      have := hsrc.2.1
      simp only [fset]; split
      · rfl
      · exact this

theorem init_queue (P : FSParams) (infs : List Node) (h : P.tmin < P.tmax) (q0 : List FItem) :
    infs.foldl (fun q u => qadd P.tmax q P.tmin (FEv.trans none u)) q0 =
      q0 ++ infs.map (fun u => (⟨P.tmin, FEv.trans none u⟩ : FItem)) := by
  induction infs generalizing q0 with
  | nil => simp
  | cons u rest ih =>
    rw [List.foldl_cons, ih]
    simp [qadd, h]

theorem Inv_init (P : FSParams) (infs : List Node) (h : P.tmin < P.tmax) : Inv P infs P.tmin (init P infs) := by
  have hq : (init P infs).queue = infs.map (fun u => (⟨P.tmin, FEv.trans none u⟩ : FItem)) := by
    have := init_queue P infs h []
    simpa [init] using this
  have hmem : ∀ x ∈ (init P infs).queue, ∃ u ∈ infs, x = ⟨P.tmin, FEv.trans none u⟩ := by
    intro x hx
    rw [hq] at hx
    obtain ⟨u, hu, rfl⟩ := List.mem_map.1 hx
    exact ⟨u, hu, rfl⟩
  refine ⟨trivial, by simp [init], le_refl _, fun u => rfl, ?_, ?_, ?_, ?_, ?_, ?_, rfl, by simp [init]⟩
  · intro x hx
    obtain ⟨u, _, rfl⟩ := hmem x hx
    exact ⟨le_refl _, h⟩
  · intro x hx u hu
    obtain ⟨w, _, rfl⟩ := hmem x hx
    cases hu
  · intro u rt h1
    simp [init] at h1
  · intro u
    have : List.countP (fun x => x.ev == FEv.recov u) (init P infs).queue = 0 := by
      rw [List.countP_eq_zero]
      intro x hx
      obtain ⟨w, _, rfl⟩ := hmem x hx
      simp
    omega
  · intro x hx u v hu
    obtain ⟨w, _, rfl⟩ := hmem x hx
    cases hu
  · intro x hx v hv
    obtain ⟨w, hw, rfl⟩ := hmem x hx
    cases hv
    exact ⟨hw, rfl⟩

theorem loop_inv (P : FSParams) (infs : List Node) (fuel : Nat) (s : FSState) (now : Rat) (ts ts' : TapeSt) (s' : FSState)
    (hI : Inv P infs now s) (hts : TapeNonneg ts) (h : loop P fuel s ts = .ok (s', ts')) :
    ∃ now', Inv P infs now' s' ∧ s'.queue = [] := by
  induction fuel generalizing s now ts with
  | zero => exact absurd h (TM.fail_ne_ok _ _ _)
  | succ fuel ih =>
    rw [loop] at h
    cases hp : pop s.queue with
    | none =>
      rw [hp] at h
      obtain ⟨rfl, rfl⟩ := TM.pure_ok _ _ _ _ h
      exact ⟨now, hI, pop_none hp⟩
    | some xq =>
      obtain ⟨x, q⟩ := xq
      rw [hp] at h
      dsimp only at h
      obtain ⟨l1, l2, hq, rfl, hlt, hle⟩ := pop_some hp
      have hmin : ∀ y ∈ l1 ++ l2, x.time ≤ y.time := by
        intro y hy
        rcases List.mem_append.1 hy with hy | hy
        · exact le_of_lt (hlt y hy)
        · exact hle y hy
      obtain ⟨s1, ts1, h1, h2⟩ := TM.bind_ok _ _ _ _ _ h
      cases hx : x.ev with
      | trans src tgt =>
        rw [hx] at h1
        obtain ⟨hI0, hnow, hsrc⟩ := Inv_pop_trans hI hq hmin src tgt hx
        obtain ⟨hI1, hts1⟩ := Inv_processTrans hI0 src tgt hnow hsrc _ _ _ hts h1
        exact ih _ _ _ hI1 hts1 h2
      | recov u =>
        rw [hx] at h1
        obtain ⟨rfl, rfl⟩ := TM.pure_ok _ _ _ _ h1
        exact ih _ _ _ (Inv_pop_rec hI hq hmin u hx) hts h2

theorem run_inv (P : FSParams) (infs : List Node) (hz : P.tmin < P.tmax) (fuel : Nat) (ts ts' : TapeSt)
    (hts : TapeNonneg ts) (s : FSState) (hr : run P infs fuel ts = .ok (s, ts')) :
    ∃ now, Inv P infs now s ∧ s.queue = [] :=
  loop_inv P infs fuel _ _ ts ts' s (Inv_init P infs hz) hts hr

end FastSIS
