import EoNVerif.Model.Complex
