"""Generic runner for every simulator of EoN.simulation: case generation, the real call under scripted randomness,
and a canonical dump of the result (arrays or Simulation_Investigation).  Used by the predicate-based checks
(C04, C05, C09, C10, C18, C19) and by the model correspondences.
"""
from fractions import Fraction as F
import numpy as np, networkx as nx
import sims, gen, rng as rngmod
from common import fr, rs
from sims import arr, iarr, err_enum, build_graph, graph_case

INF = float("inf")
DELAYS = [F(0), F(1, 4), F(1, 2), F(1), F(3, 2), F(2), F(3), "inf"]

SIMS = ["Gillespie_SIR", "Gillespie_SIS", "fast_SIR", "fast_SIS", "fast_nonMarkov_SIR", "fast_nonMarkov_SIS",
        "discrete_SIR", "basic_discrete_SIR", "basic_discrete_SIS", "percolation_based_discrete_SIR",
        "Gillespie_simple_contagion", "Gillespie_complex_contagion"]
KIND = {"Gillespie_SIR": "sirCont", "fast_SIR": "sirCont", "fast_nonMarkov_SIR": "sirCont",
        "Gillespie_SIS": "sisCont", "fast_SIS": "sisCont", "fast_nonMarkov_SIS": "sisCont",
        "discrete_SIR": "sirDisc", "basic_discrete_SIR": "sirDisc", "percolation_based_discrete_SIR": "sirDisc",
        "basic_discrete_SIS": "sisDisc", "Gillespie_simple_contagion": "generic", "Gillespie_complex_contagion": "generic"}
SIR = {s for s, k in KIND.items() if k.startswith("sir")}
HAS_RECS = {"Gillespie_SIR", "fast_SIR", "fast_nonMarkov_SIR", "discrete_SIR", "basic_discrete_SIR", "percolation_based_discrete_SIR"}
TMAX_DEFAULT_INF = SIR


def fl(x):
    return INF if x == "inf" else float(F(x))


# ------------------------------------------------------------------------------------------------- case generation
def init_part(rng, c, sim, styles=("list", "single", "rho", "default")):
    n = c["n"]
    nodes = list(range(n))
    style = rng.choice(styles) if rng.random() < 0.35 else "list"
    if style == "list":
        k = rng.randint(1, min(n, 3))
        c["init"] = dict(kind="list", nodes=rng.sample(nodes, k))
        c["container"] = rng.choice(["list", "tuple", "set", "array", "range"]) if rng.random() < 0.3 else "list"
    elif style == "single":
        c["init"] = dict(kind="single", node=rng.choice(nodes))
    elif style == "rho":
        rhos = [F(1, 4), F(1, 2), F(1, 8), F(3, 4), F(1), F(0)]          # rho = 0 is a number: int(round(N*0)) = 0 nodes
        # exact halves N*rho = m + 1/2 (round-half-even vs half-up, floor vs round): one case in three when possible
        halves = [F(2 * m + 1, 2 * c["n"]) for m in range(c["n"]) if F(2 * m + 1, 2 * c["n"]) <= 1
                  and (2 * c["n"]) & (2 * c["n"] - 1) == 0]          # dyadic only: the float product N*rho is exact
        if halves and rng.random() < 0.34:
            rhos = halves
        c["init"] = dict(kind="rho", rho=str(rng.choice(rhos)))
    else:
        c["init"] = dict(kind="default")
    c["recs"] = []
    if sim in HAS_RECS and c["init"]["kind"] in ("list", "single") and rng.random() < 0.4:
        used = c["init"].get("nodes", [c["init"].get("node")])
        rest = [u for u in nodes if u not in used]
        if rest:
            c["recs"] = rng.sample(rest, rng.randint(1, min(2, len(rest))))
    # 16384: a run continued in "calendar time" — absolute tolerances (isclose-style comparisons with tmin) become visible
    c["tmin"] = str(rng.choice([F(0), F(0), F(1), F(-1, 2), F(5, 2), F(-3), F(16384)]))


def gen_case(rng, sim, nmax=8):
    """a json-able case for simulator `sim`; one case in four is preceded by a call on the same graph object in a different
    state (`prewarm`)"""
    c = _gen_case(rng, sim, nmax)
    c["prewarm"] = rng.random() < 0.25
    return c


def _gen_case(rng, sim, nmax=8):
    if sim in ("Gillespie_SIR", "Gillespie_SIS"):
        c = sims.gillespie_case(rng, sim == "Gillespie_SIS")
        c["sim"] = sim
        return c
    c = graph_case(rng, 1, nmax, weighted_e=sim in ("fast_SIR", "fast_SIS") and rng.random() < 0.5,
                   weighted_n=sim in ("fast_SIR", "fast_SIS") and rng.random() < 0.5,
                   directed=sim in ("Gillespie_simple_contagion",) and rng.random() < 0.4)
    c["sim"] = sim
    n = c["n"]
    c["full"] = rng.random() < 0.5
    if sim in ("Gillespie_simple_contagion", "Gillespie_complex_contagion"):
        import specs
        specs.fill_case(rng, c, sim)
        return c
    init_part(rng, c, sim)
    tmin = F(c["tmin"])
    if sim in ("fast_SIR", "fast_SIS"):
        c["tau"] = str(rng.choice(gen.RATES))
        c["gamma"] = str(rng.choice(gen.RATES))
    if KIND[sim].endswith("Disc"):
        c["tmax"] = rng.choice(["inf"] if sim != "basic_discrete_SIS" else [] + [str(tmin + d) for d in (1, 2, 3, 6, F(5, 2))]) \
            if rng.random() < 0.5 else str(tmin + rng.choice([1, 2, 3, 6, F(5, 2)]))
        if sim == "basic_discrete_SIS" and c["tmax"] == "inf":
            c["tmax"] = str(tmin + 6)
    elif sim in SIR:
        c["tmax"] = rng.choice(["inf", "inf"] + [str(tmin + d) for d in (F(1, 2), 2, 5, 20)])
    else:
        c["tmax"] = str(tmin + rng.choice([F(1, 2), 2, 4, 8]))
    edges_dir = [(u, v) for u, v in c["edges"]] + [(v, u) for u, v in c["edges"]]
    if sim == "fast_nonMarkov_SIR":
        c["dur"] = [str(rng.choice(DELAYS)) for _ in range(n)]
        c["delay"] = [[u, v, str(rng.choice(DELAYS))] for u, v in edges_dir]
        c["joint"] = rng.random() < 0.3           # call through trans_and_rec_time_fxn
    if sim == "fast_nonMarkov_SIS":
        m = 3
        den = 64
        c["dur"] = [[str(F(rng.randrange(1, 3 * den), den)) for _ in range(m)] for _ in range(n)]
        c["delay"] = []
        for u, v in edges_dir:
            per = []
            for occ in range(m):
                k = rng.choice([0, 1, 1, 2, 3])
                d = F(c["dur"][u][occ])
                # "All delays are before recovery" (docstring): delays in (0, duration)
                per.append([str(x) for x in sorted({d * F(rng.randrange(1, 64), 64) for _ in range(k)})])
            c["delay"].append([u, v, per])
        c["joint"] = rng.random() < 0.3
    if sim == "discrete_SIR":
        c["contacts"] = [[u, v] for u, v in edges_dir if rng.random() < 0.6]
        c["recsteps"] = [rng.randint(1, 3) for _ in range(n)] if rng.random() < 0.3 else None
        # a stateful user rule: the outcome of u->v depends on how many times it has been asked (only observable when
        # a recovery rule keeps u infectious for several steps).  [u, v, [1st ask, 2nd ask, ...]] (last entry repeats)
        c["sched"] = []
        if c["recsteps"] is not None and rng.random() < 0.6:
            for u, v in edges_dir:
                if rng.random() < 0.4:
                    c["sched"].append([u, v, [rng.random() < 0.4 for _ in range(rng.randint(2, 3))]])
    if sim in ("basic_discrete_SIR", "basic_discrete_SIS", "percolation_based_discrete_SIR"):
        c["p"] = str(rng.choice([F(0), F(1, 4), F(1, 2), F(3, 4), F(1)]))
        c["positional"] = rng.random() < 0.3
    return c


# ------------------------------------------------------------------------------------------------- the real call
class Rules:
    """deterministic user rules built from the tables of a case; callbacks log their arguments"""

    def __init__(self, case, lab, idx):
        self.c, self.lab, self.idx = case, lab, idx
        self.li = {lab(i): i for i in range(case["n"])}
        self.calls = []
        self.count = {}
        if "delay" in case:
            self.delay = {(u, v): d for u, v, d in case["delay"]}

    # --- SIR
    def trans_time(self, u, v):
        return fl(self.delay[(self.li[u], self.li[v])])

    def rec_time(self, u):
        return fl(self.c["dur"][self.li[u]])

    def joint_sir(self, node, sus):
        return {v: self.trans_time(node, v) for v in sus}, self.rec_time(node)

    # --- SIS
    def rec_time_sis(self, u):
        k = self.count.get(self.li[u], 0)
        self.count[self.li[u]] = k + 1
        self._k = k
        return fl(self.c["dur"][self.li[u]][k % len(self.c["dur"][self.li[u]])])

    def trans_time_sis(self, u, v, rec_delay):
        per = self.delay[(self.li[u], self.li[v])]
        j = self._k % len(per)
        if self.c.get("stored_lists", True):
            # a look-up table: the SAME list object is handed back whenever the same entry is asked for again (the
            # simulator must treat what a user function returns as read-only)
            if not hasattr(self, "_tab"):
                self._tab = {}
            return self._tab.setdefault((self.li[u], self.li[v], j), [fl(x) for x in per[j]])
        return [fl(x) for x in per[j]]

    def joint_sis(self, node, nbrs):
        d = self.rec_time_sis(node)
        return {v: self.trans_time_sis(node, v, d) for v in nbrs}, d

    # --- discrete
    def test_transmission(self, u, v):
        a, b = self.li[u], self.li[v]
        for x, y, bs in self.c.get("sched") or []:
            if (x, y) == (a, b):
                k = self.count.get(("t", a, b), 0)
                self.count[("t", a, b)] = k + 1
                return bs[min(k, len(bs) - 1)]
        return [a, b] in self.c["contacts"]

    def test_recovery(self, u):
        k = self.count.get(("r", self.li[u]), 0) + 1
        self.count[("r", self.li[u])] = k
        return k >= self.c["recsteps"][self.li[u]]


def _reorder(d, order):
    """put the keys of the (networkx adjacency) dict `d` back into `order`, in place, keeping the value objects"""
    tmp = dict(d)
    d.clear()
    for k in order:
        if k in tmp:
            d[k] = tmp[k]
    for k in tmp:
        if k not in d:
            d[k] = tmp[k]


def prewarm(case, G, lab, full, rules):
    """Hidden state across calls: run the simulator once on THE SAME graph object in a different state, then put the
    object back exactly as it was (in place) before the run that is checked.  One edge is moved (node and edge counts
    unchanged) and every numeric node / edge attribute is overwritten by item assignment through the networkx views —
    edits that do not go through add_edge / set_*_attributes for the attributes.  An implementation that memoises
    anything per graph object (neighbour lists, rate tables, degree counts) then works on stale data in the real run."""
    import random as _r, copy as _copy
    r = _r.Random(20240917)
    directed = G.is_directed()
    order = {u: list(G._adj[u]) for u in G}
    porder = {u: list(G._pred[u]) for u in G} if directed else None
    nattrs = {u: _copy.deepcopy(dict(G.nodes[u])) for u in G}
    eattrs = {(u, v): _copy.deepcopy(dict(d)) for u, v, d in G.edges(data=True)}
    es = list(G.edges())
    non = [(u, v) for u in G for v in G if u != v and not G.has_edge(u, v) and (directed or not G.has_edge(v, u))]
    moved = None
    if es and non and case["sim"] != "Gillespie_simple_contagion":     # (its spec tables are keyed by the case's edge list)
        e, f = r.choice(es), r.choice(non)
        G.remove_edge(*e)
        G.add_edge(*f, **_copy.deepcopy(eattrs[e]))
        moved = (e, f)
    for u in G:
        for k, v in list(G.nodes[u].items()):
            if isinstance(v, (int, float)) and not isinstance(v, bool):
                G.nodes[u][k] = float(v) * 3 + 1
    for u, v, d in G.edges(data=True):
        for k, val in list(d.items()):
            if isinstance(val, (int, float)) and not isinstance(val, bool):
                G[u][v][k] = float(val) * 3 + 1
            elif isinstance(val, dict):
                for kk in list(val):
                    val[kk] = float(val[kk]) * 3 + 1
    try:
        throw = rngmod.TapeRandom(rng=_r.Random(7), idx=gen.index_of(G), max_calls=4000)
        warm = dict(case, prewarm=False, tmax=case["tmax"] if case["tmax"] != "inf" else str(F(case["tmin"]) + 5), _calls=[], _keep_attrs=True)
        # (the harness's own callbacks may be stateful: the warm-up gets fresh ones)
        call_sim(warm, G, lab, throw, full, Rules(warm, lab, gen.index_of(G)) if rules is not None else None)
    except Exception:
        pass
    finally:
        if moved:
            e, f = moved
            G.remove_edge(*f)
            G.add_edge(*e)
        for (u, v), d in eattrs.items():
            G[u][v].clear()
            G[u][v].update(_copy.deepcopy(d))
        for u, d in nattrs.items():
            G.nodes[u].clear()
            G.nodes[u].update(_copy.deepcopy(d))
        for u in G:
            _reorder(G._adj[u], order[u])
            if directed:
                _reorder(G._pred[u], porder[u])


def call_sim(case, G, lab, tr, full, rules=None):
    import EoN
    sim = case["sim"]
    if case.get("prewarm"):
        if sim == "Gillespie_simple_contagion":
            import specs as _sp
            _sp.prepare_graph(case, G, lab)
        prewarm(case, G, lab, full, rules)
    if sim in ("Gillespie_SIR", "Gillespie_SIS"):
        return sims.gillespie_call(case, G, lab, tr, full)
    if sim in ("Gillespie_simple_contagion", "Gillespie_complex_contagion"):
        import specs
        return specs.call(case, G, lab, tr, full)
    kw = dict(tmin=fl(case["tmin"]), tmax=fl(case["tmax"]), return_full_data=full)
    init = case["init"]
    if init["kind"] == "list":
        kw["initial_infecteds"] = sims._container(case.get("container", "list"), [lab(i) for i in init["nodes"]])
    elif init["kind"] == "single":
        kw["initial_infecteds"] = lab(init["node"])
    elif init["kind"] == "rho":
        kw["rho"] = float(F(init["rho"]))
    if sim in HAS_RECS and case["recs"]:
        recs_ = [lab(i) for i in case["recs"]]
        # the collection of initially recovered nodes as the caller may hand it over: a list, a tuple, a dict-keys view, or a
        # one-shot iterator (accepted by the event-driven simulators; it can be walked only once)
        kw["initial_recovereds"] = {"list": recs_, "tuple": tuple(recs_), "dictkeys": dict.fromkeys(recs_).keys(),
                                    "generator": (x for x in recs_)}[case.get("recs_container", "list")]
    f = getattr(EoN, sim)
    kw.update(case.get("_objs", {}))      # caller-owned initial-condition containers (C19)
    with rngmod.scripted(tr):
        if sim in ("fast_SIR", "fast_SIS"):
            if case.get("ew") is not None:
                kw["transmission_weight"] = "w"
            if case.get("nw") is not None:
                kw["recovery_weight"] = "r"
            return f(G, float(F(case["tau"])), float(F(case["gamma"])), **kw)
        if sim == "fast_nonMarkov_SIR":
            if case["joint"]:
                return f(G, trans_and_rec_time_fxn=rules.joint_sir, **kw)
            return f(G, trans_time_fxn=rules.trans_time, rec_time_fxn=rules.rec_time, **kw)
        if sim == "fast_nonMarkov_SIS":
            if case["joint"]:
                return f(G, trans_and_rec_time_fxn=rules.joint_sis, **kw)
            return f(G, trans_time_fxn=rules.trans_time_sis, rec_time_fxn=rules.rec_time_sis, **kw)
        if sim == "discrete_SIR":
            if case["recsteps"] is not None:
                kw["test_recovery"] = rules.test_recovery
            return f(G, test_transmission=rules.test_transmission, **kw)
        if sim in ("basic_discrete_SIR", "basic_discrete_SIS", "percolation_based_discrete_SIR"):
            p = float(F(case["p"]))
            if case.get("positional") and "initial_infecteds" in kw:
                ii = kw.pop("initial_infecteds")
                return f(G, p, ii, **kw)
            return f(G, p, **kw)
    raise ValueError(sim)


def statuses_of(case):
    if case["sim"] in ("Gillespie_simple_contagion", "Gillespie_complex_contagion"):
        return case["return_statuses"]
    return ["S", "I", "R"] if case["sim"] in SIR else ["S", "I"]


def dump_full(res, G, idx, case):
    out = {}
    try:
        tr = res.transmissions()
        out["transmissions"] = [[rs(t), (None if u is None else idx[u]), idx[v]] for (t, u, v) in tr]
        T = res.transmission_tree()
        out["tree"] = sorted([rs(d["time"]), idx[u], idx[v]] for u, v, d in T.edges(data=True))
        out["tree_indeg_max"] = max([d for _, d in T.in_degree()] or [0])
    except Exception as e:
        out["transmissions_err"] = err_enum(e)
    hist = {}
    for u in G:
        ts, ss = res.node_history(u)
        hist[idx[u]] = [[rs(t), ss_] for t, ss_ in zip(ts, ss)]
    out["history"] = [hist[i] for i in range(len(idx))]
    summ = res.summary()
    sts = statuses_of(case)
    out["summary"] = dict(times=arr(summ[0]), cols=[iarr(summ[1][s]) for s in sts])
    acc = dict(t=arr(res.t()))
    for s, name in (("S", "S"), ("I", "I"), ("R", "R")):
        if s in sts:
            try:
                acc[name] = iarr(getattr(res, name)())
            except Exception as e:
                acc[name] = "err:" + err_enum(e)
    out["accessors"] = acc
    try:
        st0 = res.get_statuses(time=fl(case["tmin"]))
        out["status_tmin"] = [st0[u] for u in G]
        st_def = res.get_statuses()
        out["status_default"] = [st_def[u] for u in G]
    except Exception as e:
        out["status_err"] = err_enum(e)
    return out


def run_impl(case, tape=None, rng=None, full=None, keep_obj=False, free_choice=False):
    """returns (out dict, G, idx).  out: ok, err?, times, cols, [full dump], tape, trace"""
    G, lab = build_graph(case)
    idx = gen.index_of(G)
    tr = rngmod.TapeRandom(rng=rng, tape=tape, idx=idx, free_choice=free_choice)
    rules = Rules(case, lab, idx)
    isfull = case["full"] if full is None else full
    out = {"full": isfull}
    try:
        res = call_sim(case, G, lab, tr, isfull, rules)
        if isfull:
            out.update(dump_full(res, G, idx, case))
            if keep_obj:
                out["obj"] = res
        else:
            out["times"] = arr(res[0])
            out["cols"] = [iarr(x) for x in res[1:]]
        out["ok"] = True
    except Exception as e:
        out["ok"] = False
        out["err"] = err_enum(e)
        import traceback
        out["tb"] = traceback.format_exc()[-600:]
    out["tape"] = tr.log
    out["trace"] = sims.enc_trace(tr.trace, idx)
    out["lab_index"] = {i: idx[lab(i)] for i in range(case["n"])}
    if case.get("init", {}).get("kind") == "list":
        objs = [lab(i) for i in case["init"]["nodes"]]
        if case.get("container") == "set":
            objs = list(set(objs))          # the order in which the simulator iterates the set
        out["init_order"] = [idx[x] for x in objs]
    return out, G, idx


def requested_init(case, out):
    """the initially infected / recovered node indices (in list(G) index space) the call asked for; for rho/default
    the sampled nodes are read off the tape"""
    li = out["lab_index"]
    init = case["init"]
    if init["kind"] == "list":
        infs = out.get("init_order") or [li[i] for i in init["nodes"]]
    elif init["kind"] == "single":
        infs = [li[init["node"]]]
    else:
        s = next((d for d in out["tape"] if d[0] == "s"), None)
        infs = list(s[1]) if s else None
    return infs, [li[i] for i in case.get("recs", [])]


def succ_lists(G, idx):
    return gen.adj_lists(G, idx)


def zero_delay_at_tmin(case, out):
    """a neighbour-induced infection at exactly tmin (zero transmission delay; with the scripted dyadic draws this can
    also come out of `_truncated_exponential_`): the node-history representation records such a node as initially
    infected, so "the state at tmin" and the S->I change are not observable.  Probability 0 under real draws; such runs
    are left to C11, which reads infection times from the transmission list."""
    return any(u is not None and F(t) == F(case["tmin"]) for t, u, v in out.get("transmissions", []))
