import EoNVerif.Model.InitCond
