import EoNVerif.Gen.PercGen
import EoNVerif.Proofs.Perc
import EoNVerif.Proofs.GenDiscrete
import Mathlib.Data.List.Induction
/-!
The code GENERATED from the percolation builders / estimators of EoN (`Gen/PercGen.lean`, namespace `GenPerc`) against the
hand model `Model/Perc.lean`: helper definitions and lemmas for `Props/C17c.lean`.
-/
set_option linter.unusedSimpArgs false
set_option linter.unusedVariables false
open PyDM PyPM

namespace GenPercProofs

/-! ### the monad `PM` -/


/-- the failing computation -/
def err {α : Type} (e : String) : PM α := fun _ _ => .error e

@[simp] theorem liftE_ok {α : Type} (a : α) : (PyPM.liftE (.ok a) : PM α) = pure a := rfl
@[simp] theorem liftE_pure {α : Type} (a : α) : (PyPM.liftE (pure a) : PM α) = pure a := rfl
@[simp] theorem liftE_error {α : Type} (e : String) : (PyPM.liftE (.error e) : PM α) = err e := rfl
@[simp] theorem liftE_throw {α : Type} (e : String) : (PyPM.liftE (throw e) : PM α) = err e := rfl
@[simp] theorem fail_eq {α : Type} (e : String) : (PyPM.fail e : PM α) = err e := rfl
@[simp] theorem err_bind {α β : Type} (e : String) (f : α → PM β) : (err e >>= f) = err e := rfl
theorem pure_run {α : Type} (a : α) (s : PSt) (ts : TapeSt) : (pure a : PM α) s ts = .ok ((a, s), ts) := rfl
theorem err_run {α : Type} (e : String) (s : PSt) (ts : TapeSt) : (err e : PM α) s ts = .error e := rfl

theorem liftE_bind {α β : Type} (x : Except String α) (f : α → Except String β) :
    (PyPM.liftE (x >>= f) : PM β) = PyPM.liftE x >>= fun a => PyPM.liftE (f a) := by
  cases x <;> rfl

theorem liftE_ite {α : Type} (c : Bool) (x y : Except String α) :
    (PyPM.liftE (if c then x else y) : PM α) = if c then PyPM.liftE x else PyPM.liftE y := by
  cases c <;> rfl

theorem liftE_foldlM {α β : Type} (f : β → α → Except String β) (l : List α) : ∀ (init : β),
    (PyPM.liftE (l.foldlM f init) : PM β) = l.foldlM (fun b a => PyPM.liftE (f b a)) init := by
  induction l with
  | nil => intro init; rfl
  | cons a t ih =>
    intro init
    rw [List.foldlM_cons, List.foldlM_cons, liftE_bind]
    simp only [ih]

/-! ### Python sets -/

open GenDiscrete (mem_setOf setOf_nodup mem_setAdd setAdd_nodup)

theorem union_spec (b : List Node) : ∀ (a : List Node), a.Nodup →
    (union a b).Nodup ∧ ∀ v, v ∈ union a b ↔ v ∈ a ∨ v ∈ b := by
  induction b with
  | nil => intro a h; exact ⟨h, by simp [union]⟩
  | cons x t ih =>
    intro a h
    have h1 := ih (setAdd a x) (setAdd_nodup a x h)
    refine ⟨h1.1, fun v => ?_⟩
    have h2 := h1.2 v
    unfold union at h2 ⊢
    rw [List.foldl_cons, h2, mem_setAdd]
    simp only [List.mem_cons]
    tauto

theorem union_nodup (a b : List Node) (h : a.Nodup) : (union a b).Nodup := (union_spec b a h).1
theorem mem_union (a b : List Node) (h : a.Nodup) (v : Node) : v ∈ union a b ↔ v ∈ a ∨ v ∈ b := (union_spec b a h).2 v

/-- the accumulation loop of `_out_component_` / `_in_component_` -/
def compStep (D : Node → Except String (List Node)) (acc : List Node) (node : Node) : Except String (List Node) := do
  let r ← D node
  pure (union acc (PyDM.setOf r))

theorem compLoop_ok (D : Node → Except String (List Node)) (R : Node → Node → Prop) (l : List Node)
    (hD : ∀ x ∈ l, ∃ d, D x = .ok d ∧ ∀ v, v ∈ d ↔ R x v) : ∀ (acc : List Node), acc.Nodup →
    ∃ r, l.foldlM (compStep D) acc = .ok r ∧ r.Nodup ∧ ∀ v, v ∈ r ↔ v ∈ acc ∨ ∃ x ∈ l, R x v := by
  induction l with
  | nil => intro acc h; exact ⟨acc, rfl, h, by simp⟩
  | cons a t ih =>
    intro acc h
    obtain ⟨d, hd, hd'⟩ := hD a (List.mem_cons_self ..)
    have hn := union_nodup acc (PyDM.setOf d) h
    obtain ⟨r, hr, hrn, hr'⟩ := ih (fun x hx => hD x (List.mem_cons_of_mem _ hx)) _ hn
    refine ⟨r, ?_, hrn, fun v => ?_⟩
    · rw [List.foldlM_cons]
      unfold compStep at hr ⊢
      rw [hd]
      exact hr
    · rw [hr', mem_union _ _ h, mem_setOf, hd']
      simp only [List.mem_cons, exists_eq_or_imp]
      tauto

theorem compLoop_err (D : Node → Except String (List Node)) (e : String) (l : List Node)
    (hD : ∀ x ∈ l, (∃ d, D x = .ok d) ∨ D x = .error e) (hbad : ∃ x ∈ l, D x = .error e) : ∀ (acc : List Node),
    l.foldlM (compStep D) acc = .error e := by
  induction l with
  | nil => obtain ⟨x, hx, _⟩ := hbad; cases hx
  | cons a t ih =>
    intro acc
    rw [List.foldlM_cons]
    rcases hD a (List.mem_cons_self ..) with ⟨d, hd⟩ | hd
    · unfold compStep
      rw [hd]
      obtain ⟨x, hx, hxe⟩ := hbad
      rcases List.mem_cons.1 hx with rfl | hx'
      · rw [hd] at hxe; cases hxe
      · exact ih (fun y hy => hD y (List.mem_cons_of_mem _ hy)) ⟨x, hx', hxe⟩ _
    · unfold compStep
      rw [hd]; rfl

/-! ### `_out_component_`, `_in_component_` as `Except` computations -/

/-- `_out_component_` / `_in_component_` in `Except`: `D` is `descendants` resp. `ancestors` -/
def compE (iter : List Node → List Node) (D : Node → Except String (List Node)) (G : DiG) (source : Src) :
    Except String (List Node) := do
  let src ← (if hasNodeS G source then singletonS source else setOfS source)
  (iter src).foldlM (compStep D) (union [] src)

theorem out_component_eq (X : NX) (G : DiG) (source : Src) :
    GenPerc.out_component X G source = PyPM.liftE (compE X.iter (X.descendants G) G source) := by
  unfold GenPerc.out_component compE compStep
  simp only [liftE_bind, liftE_ite, liftE_foldlM, liftE_pure, bind_pure, pure_bind]


theorem in_component_eq (X : NX) (G : DiG) (target : Src) :
    GenPerc.in_component X G target = PyPM.liftE (compE X.iter (X.ancestors G) G target) := by
  unfold GenPerc.in_component compE compStep
  simp only [liftE_bind, liftE_ite, liftE_foldlM, liftE_pure, bind_pure, pure_bind]

/-! ### digraphs -/


theorem alHas_iff {α β : Type} [DecidableEq α] (l : List (α × β)) (x : α) : alHas l x = true ↔ x ∈ l.map (·.1) := by
  induction l with
  | nil => simp [alHas]
  | cons p t ih =>
    obtain ⟨k, w⟩ := p
    unfold alHas
    by_cases h : k = x
    · simp [h]
    · rw [if_neg h, ih]; simp [h, Ne.symm h]

theorem hasNode_iff (H : DiG) (u : Node) : H.hasNode u = true ↔ u ∈ H.nodeList := alHas_iff H.nodes u

theorem hasNode_false_iff (H : DiG) (u : Node) : H.hasNode u = false ↔ u ∉ H.nodeList := by
  rw [← hasNode_iff]; simp

theorem mem_succ (H : DiG) (u v : Node) : v ∈ H.succ u ↔ (u, v) ∈ H.edges.map (·.1) := by
  unfold DiG.succ
  simp only [List.mem_map, List.mem_filter, beq_iff_eq]
  constructor
  · rintro ⟨e, ⟨he, h1⟩, h2⟩; exact ⟨e, he, by rw [← h1, ← h2]⟩
  · rintro ⟨e, he, h⟩; exact ⟨e, ⟨he, by rw [h]⟩, by rw [h]⟩

/-- a well-formed digraph: no node listed twice, every edge joins listed nodes -/
structure HWF (H : DiG) : Prop where
  nodup : H.nodeList.Nodup
  edge_mem : ∀ e ∈ H.edges, e.1.1 ∈ H.nodeList ∧ e.1.2 ∈ H.nodeList

theorem HWF.wf {H : DiG} (h : HWF H) : Perc.WF H.nodeList H.succ := by
  refine ⟨h.nodup, fun u _ v hv => ?_⟩
  rw [mem_succ] at hv
  obtain ⟨e, he, h1⟩ := List.mem_map.1 hv
  have := (h.edge_mem e he).2
  rw [h1] at this; exact this

theorem reach_self' {nodes : List Node} {succ : Node → List Node} {u : Node} (hu : u ∈ nodes) :
    Perc.reach nodes succ u u = true := by
  unfold Perc.reach
  rw [Perc.reachFrom_eq, List.contains_iff_mem]
  exact Perc.Ck_mono_le u (Nat.zero_le _) ((Perc.mem_Ck_zero u u).2 ⟨hu, rfl⟩)

theorem reach_mem {nodes : List Node} {succ : Node → List Node} {u v : Node}
    (h : Perc.reach nodes succ u v = true) : v ∈ nodes := by
  unfold Perc.reach at h
  rw [Perc.reachFrom_eq, List.contains_iff_mem] at h
  exact Perc.Ck_sub_nodes u _ h

theorem reach_src_mem {nodes : List Node} {succ : Node → List Node} {u v : Node}
    (h : Perc.reach nodes succ u v = true) : u ∈ nodes := by
  have hp := Perc.Ck_path (nodes := nodes) (succ := succ) u
  unfold Perc.reach at h
  rw [Perc.reachFrom_eq, List.contains_iff_mem] at h
  -- the start set is empty when `u` is not listed
  by_contra hu
  have h0 : ∀ k, Perc.Ck nodes succ u k = [] := by
    intro k
    induction k with
    | zero =>
      apply List.eq_nil_iff_forall_not_mem.2
      intro x hx
      rw [Perc.mem_Ck_zero] at hx
      exact hu (hx.2 ▸ hx.1)
    | succ k ih =>
      apply List.eq_nil_iff_forall_not_mem.2
      intro x hx
      rw [Perc.mem_Ck_succ, ih] at hx
      simp at hx
  rw [h0] at h; cases h


/-! ### the assumed meaning of the networkx routines -/

/-- what the translated code assumes about `nx.descendants`, `nx.ancestors`, `nx.strongly_connected_components` on the
digraph `H`, and about the iteration order of a `set` -/
structure NXSpecAt (X : NX) (H : DiG) : Prop where
  /-- iterating over a set visits every element once -/
  iter : ∀ s, (X.iter s).Perm s
  /-- `nx.descendants(H, u)`: the nodes other than `u` reachable from `u` -/
  desc : ∀ u, H.hasNode u = true → ∃ l, X.descendants H u = .ok l ∧
    ∀ v, v ∈ l ↔ (v ≠ u ∧ Perc.reach H.nodeList H.succ u v = true)
  desc_err : ∀ u, H.hasNode u = false → X.descendants H u = .error "NetworkXError"
  /-- `nx.ancestors(H, u)`: the nodes other than `u` from which `u` is reachable -/
  anc : ∀ u, H.hasNode u = true → ∃ l, X.ancestors H u = .ok l ∧
    ∀ v, v ∈ l ↔ (v ≠ u ∧ Perc.reach H.nodeList H.succ v u = true)
  anc_err : ∀ u, H.hasNode u = false → X.ancestors H u = .error "NetworkXError"
  /-- every yielded component is a duplicate-free listing of the strongly connected component of each of its nodes -/
  scc_mem : ∀ c ∈ X.sccs H, c ≠ [] ∧ c.Nodup ∧ ∀ u ∈ c, u ∈ H.nodeList ∧ ∀ v, v ∈ c ↔ v ∈ Perc.scc H.nodeList H.succ u
  /-- every node is in a yielded component -/
  scc_cover : ∀ u ∈ H.nodeList, ∃ c ∈ X.sccs H, u ∈ c

/-- the normalised source set of `_out_component_` / `_in_component_` -/
theorem compE_ok (iter : List Node → List Node) (hiter : ∀ s, (iter s).Perm s) (D : Node → Except String (List Node))
    (R : Node → Node → Prop) (G : DiG) (source : Src) (src : List Node)
    (hsrc : (if hasNodeS G source then singletonS source else setOfS source) = .ok src)
    (hD : ∀ x ∈ src, ∃ d, D x = .ok d ∧ ∀ v, v ∈ d ↔ R x v) :
    ∃ r, compE iter D G source = .ok r ∧ r.Nodup ∧ ∀ v, v ∈ r ↔ v ∈ src ∨ ∃ x ∈ src, R x v := by
  have h0 : (union [] src).Nodup := union_nodup [] src List.nodup_nil
  obtain ⟨r, hr, hrn, hr'⟩ := compLoop_ok D R (iter src) (fun x hx => hD x ((hiter src).mem_iff.1 hx)) _ h0
  refine ⟨r, ?_, hrn, fun v => ?_⟩
  · unfold compE; rw [hsrc]; exact hr
  · rw [hr', mem_union _ _ List.nodup_nil]
    simp only [List.not_mem_nil, false_or, (hiter src).mem_iff]

theorem compE_err (iter : List Node → List Node) (hiter : ∀ s, (iter s).Perm s) (D : Node → Except String (List Node))
    (e : String) (G : DiG) (source : Src) (src : List Node)
    (hsrc : (if hasNodeS G source then singletonS source else setOfS source) = .ok src)
    (hD : ∀ x ∈ src, (∃ d, D x = .ok d) ∨ D x = .error e) (hbad : ∃ x ∈ src, D x = .error e) :
    compE iter D G source = .error e := by
  unfold compE; rw [hsrc]
  obtain ⟨x, hx, hxe⟩ := hbad
  exact compLoop_err D e (iter src) (fun y hy => hD y ((hiter src).mem_iff.1 hy))
    ⟨x, (hiter src).mem_iff.2 hx, hxe⟩ _

theorem src_node {G : DiG} {u : Node} (hu : G.hasNode u = true) :
    (if hasNodeS G (Sum.inl u) then singletonS (Sum.inl u) else setOfS (Sum.inl u)) = .ok [u] := by
  simp only [hasNodeS, hu, if_true]; rfl

theorem src_list (G : DiG) (l : List Node) :
    (if hasNodeS G (Sum.inr l) then singletonS (Sum.inr l) else setOfS (Sum.inr l)) = .ok (PyDM.setOf l) := rfl

theorem src_absent {G : DiG} {u : Node} (hu : G.hasNode u = false) :
    (if hasNodeS G (Sum.inl u) then singletonS (Sum.inl u) else setOfS (Sum.inl u)) = .error "TypeError" := by
  simp only [hasNodeS, hu]; rfl

/-- `_out_component_(H, u)` for a node of `H` -/
theorem outE_node (X : NX) (H : DiG) (hX : NXSpecAt X H) (u : Node) (hu : H.hasNode u = true) :
    ∃ r, compE X.iter (X.descendants H) H (Sum.inl u) = .ok r ∧ r.Nodup ∧
      ∀ v, v ∈ r ↔ Perc.reach H.nodeList H.succ u v = true := by
  obtain ⟨r, hr, hrn, hr'⟩ := compE_ok X.iter hX.iter (X.descendants H)
    (fun x v => v ≠ x ∧ Perc.reach H.nodeList H.succ x v = true) H (Sum.inl u) [u] (src_node hu) (fun x hx => by rw [List.mem_singleton.1 hx]; exact hX.desc u hu)
  refine ⟨r, hr, hrn, fun v => ?_⟩
  rw [hr']
  simp only [List.mem_singleton, exists_eq_left]
  constructor
  · rintro (rfl | h)
    · exact reach_self' ((hasNode_iff H _).1 hu)
    · exact h.2
  · intro h
    by_cases hv : v = u
    · exact Or.inl hv
    · exact Or.inr ⟨hv, h⟩

/-- `_in_component_(H, u)` for a node of `H` -/
theorem inE_node (X : NX) (H : DiG) (hX : NXSpecAt X H) (u : Node) (hu : H.hasNode u = true) :
    ∃ r, compE X.iter (X.ancestors H) H (Sum.inl u) = .ok r ∧ r.Nodup ∧
      ∀ v, v ∈ r ↔ Perc.reach H.nodeList H.succ v u = true := by
  obtain ⟨r, hr, hrn, hr'⟩ := compE_ok X.iter hX.iter (X.ancestors H)
    (fun x v => v ≠ x ∧ Perc.reach H.nodeList H.succ v x = true) H (Sum.inl u) [u] (src_node hu) (fun x hx => by rw [List.mem_singleton.1 hx]; exact hX.anc u hu)
  refine ⟨r, hr, hrn, fun v => ?_⟩
  rw [hr']
  simp only [List.mem_singleton, exists_eq_left]
  constructor
  · rintro (rfl | h)
    · exact reach_self' ((hasNode_iff H _).1 hu)
    · exact h.2
  · intro h
    by_cases hv : v = u
    · exact Or.inl hv
    · exact Or.inr ⟨hv, h⟩

/-- `_out_component_(H, l)` for an iterable of nodes of `H` -/
theorem outE_list (X : NX) (H : DiG) (hX : NXSpecAt X H) (l : List Node) (hl : ∀ u ∈ l, H.hasNode u = true) :
    ∃ r, compE X.iter (X.descendants H) H (Sum.inr l) = .ok r ∧ r.Nodup ∧
      ∀ v, v ∈ r ↔ ∃ u ∈ l, Perc.reach H.nodeList H.succ u v = true := by
  obtain ⟨r, hr, hrn, hr'⟩ := compE_ok X.iter hX.iter (X.descendants H)
    (fun x v => v ≠ x ∧ Perc.reach H.nodeList H.succ x v = true) H (Sum.inr l) (PyDM.setOf l) (src_list H l) (fun x hx => hX.desc x (hl x ((mem_setOf l x).1 hx)))
  refine ⟨r, hr, hrn, fun v => ?_⟩
  rw [hr']
  simp only [mem_setOf]
  constructor
  · rintro (h | ⟨x, hx, h⟩)
    · exact ⟨v, h, reach_self' ((hasNode_iff H _).1 (hl v h))⟩
    · exact ⟨x, hx, h.2⟩
  · rintro ⟨x, hx, h⟩
    by_cases hv : v = x
    · exact Or.inl (hv ▸ hx)
    · exact Or.inr ⟨x, hx, hv, h⟩

theorem inE_list (X : NX) (H : DiG) (hX : NXSpecAt X H) (l : List Node) (hl : ∀ u ∈ l, H.hasNode u = true) :
    ∃ r, compE X.iter (X.ancestors H) H (Sum.inr l) = .ok r ∧ r.Nodup ∧
      ∀ v, v ∈ r ↔ ∃ u ∈ l, Perc.reach H.nodeList H.succ v u = true := by
  obtain ⟨r, hr, hrn, hr'⟩ := compE_ok X.iter hX.iter (X.ancestors H)
    (fun x v => v ≠ x ∧ Perc.reach H.nodeList H.succ v x = true) H (Sum.inr l) (PyDM.setOf l) (src_list H l) (fun x hx => hX.anc x (hl x ((mem_setOf l x).1 hx)))
  refine ⟨r, hr, hrn, fun v => ?_⟩
  rw [hr']
  simp only [mem_setOf]
  constructor
  · rintro (h | ⟨x, hx, h⟩)
    · exact ⟨v, h, reach_self' ((hasNode_iff H _).1 (hl v h))⟩
    · exact ⟨x, hx, h.2⟩
  · rintro ⟨x, hx, h⟩
    by_cases hv : v = x
    · exact Or.inl (hv ▸ hx)
    · exact Or.inr ⟨x, hx, hv, h⟩

/-- a listed node that is not in the graph: `nx.descendants` raises -/
theorem outE_list_err (X : NX) (H : DiG) (hX : NXSpecAt X H) (l : List Node) (hbad : ∃ u ∈ l, H.hasNode u = false) :
    compE X.iter (X.descendants H) H (Sum.inr l) = .error "NetworkXError" := by
  refine compE_err X.iter hX.iter _ _ H _ (PyDM.setOf l) (src_list H l) (fun x _ => ?_) ?_
  · cases hx : H.hasNode x
    · exact Or.inr (hX.desc_err x hx)
    · obtain ⟨d, hd, _⟩ := hX.desc x hx; exact Or.inl ⟨d, hd⟩
  · obtain ⟨u, hu, hu'⟩ := hbad
    exact ⟨u, (mem_setOf l u).2 hu, hX.desc_err u hu'⟩

theorem inE_list_err (X : NX) (H : DiG) (hX : NXSpecAt X H) (l : List Node) (hbad : ∃ u ∈ l, H.hasNode u = false) :
    compE X.iter (X.ancestors H) H (Sum.inr l) = .error "NetworkXError" := by
  refine compE_err X.iter hX.iter _ _ H _ (PyDM.setOf l) (src_list H l) (fun x _ => ?_) ?_
  · cases hx : H.hasNode x
    · exact Or.inr (hX.anc_err x hx)
    · obtain ⟨d, hd, _⟩ := hX.anc x hx; exact Or.inl ⟨d, hd⟩
  · obtain ⟨u, hu, hu'⟩ := hbad
    exact ⟨u, (mem_setOf l u).2 hu, hX.anc_err u hu'⟩

/-- a single node that is not in the graph is not iterable -/
theorem compE_absent (iter : List Node → List Node) (D : Node → Except String (List Node)) (H : DiG) (u : Node)
    (hu : H.hasNode u = false) : compE iter D H (Sum.inl u) = .error "TypeError" := by
  unfold compE; rw [src_absent hu]; rfl

/-! ### `estimate_SIR_prob_size_from_dir_perc` -/

/-- `estimate_SIR_prob_size_from_dir_perc` in `Except` -/
def estE (X : NX) (H : DiG) : Except String (Rat × Rat) := do
  let Hscc ← maxByLen (X.sccs H)
  let u ← PyRT.pyIndex (X.iter Hscc) 0
  let inC ← compE X.iter (X.ancestors H) H (Sum.inl u)
  let outC ← compE X.iter (X.descendants H) H (Sum.inl u)
  let PE ← PyTM.fdiv (((inC.length : Int) : Int) : Rat) ((H.order : Int) : Rat)
  let AR ← PyTM.fdiv (((outC.length : Int) : Int) : Rat) ((H.order : Int) : Rat)
  pure (PE, AR)

theorem estimate_eq (X : NX) (H : DiG) : GenPerc.estimate_from_dir_perc X H = PyPM.liftE (estE X H) := by
  unfold GenPerc.estimate_from_dir_perc estE
  simp only [liftE_bind, liftE_pure, in_component_eq, out_component_eq]

theorem maxByLen_fold (xs : List (List Node)) : ∀ (x : List Node),
    let m := xs.foldl (fun best y => if y.length > best.length then y else best) x
    (m = x ∨ m ∈ xs) ∧ x.length ≤ m.length ∧ ∀ c ∈ xs, c.length ≤ m.length := by
  induction xs with
  | nil => intro x; simp
  | cons y t ih =>
    intro x
    simp only [List.foldl_cons]
    by_cases h : y.length > x.length
    · rw [if_pos h]
      obtain ⟨h1, h2, h3⟩ := ih y
      refine ⟨?_, by omega, ?_⟩
      · rcases h1 with h1 | h1
        · exact Or.inr (by rw [h1]; exact List.mem_cons_self ..)
        · exact Or.inr (List.mem_cons_of_mem _ h1)
      · intro c hc
        rcases List.mem_cons.1 hc with rfl | hc
        · exact h2
        · exact h3 c hc
    · rw [if_neg h]
      obtain ⟨h1, h2, h3⟩ := ih x
      refine ⟨?_, h2, ?_⟩
      · rcases h1 with h1 | h1
        · exact Or.inl h1
        · exact Or.inr (List.mem_cons_of_mem _ h1)
      · intro c hc
        rcases List.mem_cons.1 hc with rfl | hc
        · omega
        · exact h3 c hc

theorem maxByLen_ok (l : List (List Node)) (hl : l ≠ []) :
    ∃ m, maxByLen l = .ok m ∧ m ∈ l ∧ ∀ c ∈ l, c.length ≤ m.length := by
  cases l with
  | nil => exact absurd rfl hl
  | cons x xs =>
    obtain ⟨h1, h2, h3⟩ := maxByLen_fold xs x
    refine ⟨_, rfl, ?_, ?_⟩
    · rcases h1 with h1 | h1
      · rw [h1]; exact List.mem_cons_self ..
      · exact List.mem_cons_of_mem _ h1
    · intro c hc
      rcases List.mem_cons.1 hc with rfl | hc
      · exact h2
      · exact h3 c hc

theorem pyIndex_zero {α : Type} (l : List α) (hl : l ≠ []) : ∃ x, PyRT.pyIndex l 0 = .ok x ∧ x ∈ l := by
  cases l with
  | nil => exact absurd rfl hl
  | cons x xs =>
    refine ⟨x, ?_, List.mem_cons_self ..⟩
    unfold PyRT.pyIndex
    simp
    have : ¬ ((xs.length : Int) + 1 ≤ 0) := by omega
    simp [this]
    rfl

theorem foldl_max_le (l : List Nat) : ∀ (a : Nat), a ≤ l.foldl max a ∧ ∀ x ∈ l, x ≤ l.foldl max a := by
  induction l with
  | nil => intro a; simp
  | cons y t ih =>
    intro a
    simp only [List.foldl_cons]
    obtain ⟨h1, h2⟩ := ih (max a y)
    refine ⟨by omega, fun x hx => ?_⟩
    rcases List.mem_cons.1 hx with rfl | hx
    · omega
    · exact h2 x hx

theorem foldl_max_mem (l : List Nat) : ∀ (a : Nat), l.foldl max a = a ∨ l.foldl max a ∈ l := by
  induction l with
  | nil => intro a; simp
  | cons y t ih =>
    intro a
    simp only [List.foldl_cons]
    rcases ih (max a y) with h | h
    · rw [h]
      rcases Nat.le_total a y with h' | h'
      · rw [Nat.max_eq_right h']; exact Or.inr (List.mem_cons_self ..)
      · rw [Nat.max_eq_left h']; exact Or.inl rfl
    · exact Or.inr (List.mem_cons_of_mem _ h)

theorem scc_nodup {nodes : List Node} {succ : Node → List Node} (h : nodes.Nodup) (u : Node) :
    (Perc.scc nodes succ u).Nodup := by unfold Perc.scc; exact h.filter _

theorem length_eq_of_mem_iff {a b : List Node} (ha : a.Nodup) (hb : b.Nodup) (h : ∀ v, v ∈ a ↔ v ∈ b) :
    a.length = b.length := ((List.perm_ext_iff_of_nodup ha hb).2 h).length_eq

/-- a longest yielded component has `maxSccSize` elements -/
theorem maxScc_length (X : NX) (H : DiG) (hX : NXSpecAt X H) (hnd : H.nodeList.Nodup) (m : List Node)
    (hm : m ∈ X.sccs H) (hmax : ∀ c ∈ X.sccs H, c.length ≤ m.length) (u : Node) (hu : u ∈ m) :
    (Perc.scc H.nodeList H.succ u).length = Perc.maxSccSize H.nodeList H.succ := by
  obtain ⟨_, hmn, hm'⟩ := hX.scc_mem m hm
  have hlen : ∀ c ∈ X.sccs H, ∀ x ∈ c, (Perc.scc H.nodeList H.succ x).length = c.length := by
    intro c hc x hx
    obtain ⟨_, hcn, hc'⟩ := hX.scc_mem c hc
    exact (length_eq_of_mem_iff hcn (scc_nodup hnd x) (hc' x hx).2).symm
  have hum := hlen m hm u hu
  unfold Perc.maxSccSize
  apply Nat.le_antisymm
  · exact (foldl_max_le _ 0).2 _ (List.mem_map.2 ⟨u, (hm' u hu).1, rfl⟩)
  · rcases foldl_max_mem (H.nodeList.map fun u => (Perc.scc H.nodeList H.succ u).length) 0 with h | h
    · rw [h]; exact Nat.zero_le _
    · obtain ⟨x, hx, hxe⟩ := List.mem_map.1 h
      obtain ⟨c, hc, hxc⟩ := hX.scc_cover x hx
      rw [← hxe, hlen c hc x hxc, hum]
      exact hmax c hc

theorem sccs_nil (X : NX) (H : DiG) (hX : NXSpecAt X H) (h : H.nodes = []) : X.sccs H = [] := by
  apply List.eq_nil_iff_forall_not_mem.2
  intro c hc
  obtain ⟨hne, _, hc'⟩ := hX.scc_mem c hc
  cases c with
  | nil => exact hne rfl
  | cons x t =>
    have := (hc' x (List.mem_cons_self ..)).1
    unfold DiG.nodeList at this
    rw [h] at this; cases this

theorem estE_empty (X : NX) (H : DiG) (hX : NXSpecAt X H) (h : H.nodes = []) : estE X H = .error "ValueError" := by
  unfold estE; rw [sccs_nil X H hX h]; rfl

theorem estE_ok (X : NX) (H : DiG) (hX : NXSpecAt X H) (hnd : H.nodeList.Nodup) (hne : H.nodes ≠ []) :
    ∃ u, u ∈ H.nodeList ∧ (Perc.scc H.nodeList H.succ u).length = Perc.maxSccSize H.nodeList H.succ ∧
      estE X H = .ok (((Perc.inC H.nodeList H.succ u).length : Rat) / (H.nodeList.length : Rat),
        ((Perc.outC H.nodeList H.succ u).length : Rat) / (H.nodeList.length : Rat)) := by
  have hsne : X.sccs H ≠ [] := by
    cases hn : H.nodes with
    | nil => exact absurd hn hne
    | cons p t =>
      obtain ⟨c, hc, _⟩ := hX.scc_cover p.1 (by unfold DiG.nodeList; rw [hn]; exact List.mem_cons_self ..)
      exact List.ne_nil_of_mem hc
  obtain ⟨m, hm, hmm, hmax⟩ := maxByLen_ok _ hsne
  obtain ⟨hmne, _, hm'⟩ := hX.scc_mem m hmm
  have hine : X.iter m ≠ [] := by
    intro h
    have := (hX.iter m).length_eq
    rw [h] at this
    exact hmne (List.length_eq_zero_iff.1 this.symm)
  obtain ⟨u, hu, hum⟩ := pyIndex_zero (X.iter m) hine
  have hum' : u ∈ m := (hX.iter m).mem_iff.1 hum
  have hun : u ∈ H.nodeList := (hm' u hum').1
  have huh : H.hasNode u = true := (hasNode_iff H u).2 hun
  obtain ⟨ri, hri, hrin, hri'⟩ := inE_node X H hX u huh
  obtain ⟨ro, hro, hron, hro'⟩ := outE_node X H hX u huh
  refine ⟨u, hun, maxScc_length X H hX hnd m hmm hmax u hum', ?_⟩
  have hli : ri.length = (Perc.inC H.nodeList H.succ u).length := by
    apply length_eq_of_mem_iff hrin (by unfold Perc.inC; exact hnd.filter _)
    intro v; rw [hri', Perc.mem_inC]
    exact ⟨fun h => ⟨reach_src_mem h, h⟩, fun h => h.2⟩
  have hlo : ro.length = (Perc.outC H.nodeList H.succ u).length := by
    apply length_eq_of_mem_iff hron (by unfold Perc.outC; exact hnd.filter _)
    intro v; rw [hro', Perc.mem_outC]
    exact ⟨fun h => ⟨reach_mem h, h⟩, fun h => h.2⟩
  have hN : ((H.order : Int) : Rat) = (H.nodeList.length : Rat) := by
    unfold DiG.order DiG.nodeList; simp
  have hN0 : ((H.nodeList.length : Nat) : Rat) ≠ 0 := by
    have : H.nodeList.length ≠ 0 := by
      unfold DiG.nodeList
      rw [List.length_map]
      exact fun h => hne (List.length_eq_zero_iff.1 h)
    exact_mod_cast this
  unfold estE
  rw [hm]
  simp only [bind, Except.bind]
  rw [hu]
  simp only [hri, hro, hN, hli, hlo, PyTM.fdiv, if_neg hN0]
  simp [pure, Except.pure]

/-! ### the specification is satisfiable: the reachability model (the instance the test driver uses) -/

/-- predecessors in `H` -/
def pred (H : DiG) (u : Node) : List Node := (H.edges.filter (fun e => e.1.2 == u)).map (·.1.1)

/-- the networkx routines as the driver (`DriverPerc.lean`, `DrvGenPerc.mkNX`) instantiates them: reachability by the
fixed-point iteration of `Model/Perc.lean`; `sccs?` optionally overrides the generator order of the components -/
def mkNX (sccs? : Option (List (List Node))) : NX :=
  { descendants := fun H u =>
      if H.hasNode u then pure ((Perc.reachFrom H.nodeList H.succ [u]).filter (· != u)) else throw "NetworkXError",
    ancestors := fun H u =>
      if H.hasNode u then pure ((Perc.reachFrom H.nodeList (pred H) [u]).filter (· != u)) else throw "NetworkXError",
    sccs := fun H => match sccs? with
      | some l => l
      | none => (H.nodeList.foldl (fun (acc : List (List Node)) u =>
          if acc.any (·.contains u) then acc else acc ++ [Perc.scc H.nodeList H.succ u]) []),
    ccs := fun nodes edges =>
      let succ := fun u => (edges.filterMap fun e => if e.1 = u then some e.2 else if e.2 = u then some e.1 else none)
      nodes.foldl (fun (acc : List (List Node)) u =>
        if acc.any (·.contains u) then acc else acc ++ [Perc.reachFrom nodes succ [u]]) [],
    iter := fun s => s }

theorem mem_pred (H : DiG) (u v : Node) : v ∈ pred H u ↔ (v, u) ∈ H.edges.map (·.1) := by
  unfold pred
  simp only [List.mem_map, List.mem_filter, beq_iff_eq]
  constructor
  · rintro ⟨e, ⟨he, h1⟩, h2⟩; exact ⟨e, he, by rw [← h1, ← h2]⟩
  · rintro ⟨e, he, h⟩; exact ⟨e, ⟨he, by rw [h]⟩, by rw [h]⟩

theorem HWF.wf_pred {H : DiG} (h : HWF H) : Perc.WF H.nodeList (pred H) := by
  refine ⟨h.nodup, fun u _ v hv => ?_⟩
  rw [mem_pred] at hv
  obtain ⟨e, he, h1⟩ := List.mem_map.1 hv
  have := (h.edge_mem e he).1
  rw [h1] at this; exact this

theorem path_rev {s1 s2 : Node → List Node} (h : ∀ a b, b ∈ s1 a → a ∈ s2 b) {u v : Node}
    (p : Perc.Path s1 u v) : Perc.Path s2 v u := by
  induction p with
  | refl => exact Perc.Path.refl _
  | step x y _ hy ih => exact (Perc.Path.single (h x y hy)).trans ih

theorem reach_pred {H : DiG} (h : HWF H) (u v : Node) :
    Perc.reach H.nodeList (pred H) u v = true ↔ Perc.reach H.nodeList H.succ v u = true := by
  have h12 : ∀ a b, b ∈ pred H a → a ∈ H.succ b := fun a b hb => (mem_succ H b a).2 ((mem_pred H a b).1 hb)
  have h21 : ∀ a b, b ∈ H.succ a → a ∈ pred H b := fun a b hb => (mem_pred H b a).2 ((mem_succ H a b).1 hb)
  constructor
  · intro hr
    have hu := reach_src_mem hr
    have hv := reach_mem hr
    exact (Perc.reach_iff_path h.wf hv u).2 (path_rev h12 ((Perc.reach_iff_path h.wf_pred hu v).1 hr))
  · intro hr
    have hv := reach_src_mem hr
    have hu := reach_mem hr
    exact (Perc.reach_iff_path h.wf_pred hu v).2 (path_rev h21 ((Perc.reach_iff_path h.wf hv u).1 hr))

/-- the component list of the reachability model -/
def sccStep (nodes : List Node) (succ : Node → List Node) (acc : List (List Node)) (u : Node) : List (List Node) :=
  if acc.any (·.contains u) then acc else acc ++ [Perc.scc nodes succ u]

theorem sccFold_spec (nodes : List Node) (succ : Node → List Node) (l : List Node) (hl : ∀ u ∈ l, u ∈ nodes) :
    ∀ (acc : List (List Node)),
      (∀ c ∈ l.foldl (sccStep nodes succ) acc, c ∈ acc ∨ ∃ u ∈ l, c = Perc.scc nodes succ u) ∧
      (∀ c ∈ acc, c ∈ l.foldl (sccStep nodes succ) acc) ∧
      (∀ u ∈ l, ∃ c ∈ l.foldl (sccStep nodes succ) acc, u ∈ c) := by
  induction l with
  | nil => intro acc; simp
  | cons a t ih =>
    intro acc
    have ha : a ∈ nodes := hl a (List.mem_cons_self ..)
    obtain ⟨h1, h2, h3⟩ := ih (fun u hu => hl u (List.mem_cons_of_mem _ hu)) (sccStep nodes succ acc a)
    have hsub : ∀ c ∈ acc, c ∈ sccStep nodes succ acc a := by
      intro c hc; unfold sccStep; split
      · exact hc
      · exact List.mem_append_left _ hc
    rw [List.foldl_cons]
    refine ⟨fun c hc => ?_, fun c hc => h2 c (hsub c hc), fun u hu => ?_⟩
    · rcases h1 c hc with h | ⟨u, hu, h⟩
      · unfold sccStep at h
        split at h
        · exact Or.inl h
        · rcases List.mem_append.1 h with h | h
          · exact Or.inl h
          · exact Or.inr ⟨a, List.mem_cons_self .., List.mem_singleton.1 h⟩
      · exact Or.inr ⟨u, List.mem_cons_of_mem _ hu, h⟩
    · rcases List.mem_cons.1 hu with rfl | hu
      · have : ∃ c ∈ sccStep nodes succ acc u, u ∈ c := by
          unfold sccStep
          split
          · rename_i hany
            obtain ⟨c, hc, hcu⟩ := List.any_eq_true.1 hany
            exact ⟨c, hc, List.contains_iff_mem.1 hcu⟩
          · exact ⟨_, List.mem_append_right _ (List.mem_singleton.2 rfl),
              Perc.mem_scc.2 ⟨ha, reach_self' ha, reach_self' ha⟩⟩
        obtain ⟨c, hc, hcu⟩ := this
        exact ⟨c, h2 c hc, hcu⟩
      · exact h3 u hu

theorem scc_eq_class {nodes : List Node} {succ : Node → List Node} (h : Perc.WF nodes succ) {u0 u : Node}
    (hu : u ∈ Perc.scc nodes succ u0) (v : Node) : v ∈ Perc.scc nodes succ u0 ↔ v ∈ Perc.scc nodes succ u := by
  obtain ⟨hun, h1, h2⟩ := Perc.mem_scc.1 hu
  have hu0 := reach_src_mem h1
  have p1 := (Perc.reach_iff_path h hu0 u).1 h1
  have p2 := (Perc.reach_iff_path h hun u0).1 h2
  rw [Perc.mem_scc, Perc.mem_scc]
  constructor
  · rintro ⟨hv, a, b⟩
    have pa := (Perc.reach_iff_path h hu0 v).1 a
    have pb := (Perc.reach_iff_path h hv u0).1 b
    exact ⟨hv, (Perc.reach_iff_path h hun v).2 (p2.trans pa), (Perc.reach_iff_path h hv u).2 (pb.trans p1)⟩
  · rintro ⟨hv, a, b⟩
    have pa := (Perc.reach_iff_path h hun v).1 a
    have pb := (Perc.reach_iff_path h hv u).1 b
    exact ⟨hv, (Perc.reach_iff_path h hu0 v).2 (p1.trans pa), (Perc.reach_iff_path h hv u0).2 (pb.trans p2)⟩

/-- **non-vacuity of the whole development**: on every well-formed digraph the driver's instance meets the specification -/
theorem mkNX_spec (H : DiG) (h : HWF H) : NXSpecAt (mkNX none) H := by
  refine ⟨fun s => List.Perm.refl s, ?_, ?_, ?_, ?_, ?_, ?_⟩
  · intro u hu
    refine ⟨(Perc.reachFrom H.nodeList H.succ [u]).filter (· != u), by simp [mkNX, hu]; rfl, fun v => ?_⟩
    unfold Perc.reach
    simp [and_comm]
  · intro u hu
    simp [mkNX, hu]; rfl
  · intro u hu
    refine ⟨(Perc.reachFrom H.nodeList (pred H) [u]).filter (· != u), by simp [mkNX, hu]; rfl, fun v => ?_⟩
    rw [← reach_pred h]
    unfold Perc.reach
    simp [and_comm]
  · intro u hu
    simp [mkNX, hu]; rfl
  · intro c hc
    have hc' : c ∈ H.nodeList.foldl (sccStep H.nodeList H.succ) [] := hc
    rcases (sccFold_spec H.nodeList H.succ H.nodeList (fun u hu => hu) []).1 c hc' with h0 | ⟨u0, hu0, rfl⟩
    · cases h0
    · have hself : u0 ∈ Perc.scc H.nodeList H.succ u0 := Perc.mem_scc.2 ⟨hu0, reach_self' hu0, reach_self' hu0⟩
      refine ⟨List.ne_nil_of_mem hself, scc_nodup h.nodup u0, fun u hu => ⟨(Perc.mem_scc.1 hu).1, ?_⟩⟩
      exact scc_eq_class h.wf hu
  · intro u hu
    exact (sccFold_spec H.nodeList H.succ H.nodeList (fun u hu => hu) []).2.2 u hu

/-! ### `add_node` / `add_edge` on association lists -/

section al
variable {κ β : Type} [DecidableEq κ]

/-- insert a key with an optional attribute: a new key goes last, an existing one keeps its place and, when an attribute is
given, gets it -/
def alIns (l : List (κ × Option β)) (k : κ) (a : Option β) : List (κ × Option β) :=
  if alHas l k then (match a with | some d => alSet l k (some d) | none => l) else l ++ [(k, a)]

theorem keys_alIns (l : List (κ × Option β)) (k : κ) (a : Option β) :
    (alIns l k a).map (·.1) = if k ∈ l.map (·.1) then l.map (·.1) else l.map (·.1) ++ [k] := by
  unfold alIns
  by_cases h : alHas l k = true
  · have hk := (alHas_iff l k).1 h
    rw [if_pos h, if_pos hk]
    cases a with
    | none => rfl
    | some d => simp only [GenDiscrete.keys_alSet, if_pos hk]
  · have hk : k ∉ l.map (·.1) := fun h' => h ((alHas_iff l k).2 h')
    rw [if_neg h, if_neg hk]; simp

theorem mem_keys_alIns (l : List (κ × Option β)) (k : κ) (a : Option β) (x : κ) :
    x ∈ (alIns l k a).map (·.1) ↔ x ∈ l.map (·.1) ∨ x = k := by
  rw [keys_alIns]
  split
  · rename_i h
    constructor
    · exact Or.inl
    · rintro (h' | rfl); exact h'; exact h
  · simp

theorem nodup_keys_alIns (l : List (κ × Option β)) (k : κ) (a : Option β) (h : (l.map (·.1)).Nodup) :
    ((alIns l k a).map (·.1)).Nodup := by
  rw [keys_alIns]
  split
  · exact h
  · rename_i hk
    rw [List.nodup_append]
    exact ⟨h, List.nodup_singleton k, fun x hx y hy => by
      rw [List.mem_singleton.1 hy]; intro hxy; exact hk (hxy ▸ hx)⟩

theorem mem_alSet {ν : Type} (l : List (κ × ν)) (k : κ) (v : ν) (p : κ × ν) (hp : p ∈ alSet l k v) : p ∈ l ∨ p = (k, v) := by
  induction l with
  | nil => simp [alSet] at hp; exact Or.inr hp
  | cons q t ih =>
    obtain ⟨k', w⟩ := q
    unfold alSet at hp
    by_cases h : k' = k
    · rw [if_pos h] at hp
      rcases List.mem_cons.1 hp with hp | hp
      · exact Or.inr (by rw [hp, h])
      · exact Or.inl (List.mem_cons_of_mem _ hp)
    · rw [if_neg h] at hp
      rcases List.mem_cons.1 hp with hp | hp
      · exact Or.inl (hp ▸ List.mem_cons_self ..)
      · rcases ih hp with h' | h'
        · exact Or.inl (List.mem_cons_of_mem _ h')
        · exact Or.inr h'

theorem alSet_keep {ν : Type} (l : List (κ × ν)) (k : κ) (v : ν) (p : κ × ν) (hp : p ∈ l) (hk : p.1 ≠ k) :
    p ∈ alSet l k v := by
  induction l with
  | nil => cases hp
  | cons q t ih =>
    obtain ⟨k', w⟩ := q
    unfold alSet
    by_cases h : k' = k
    · rw [if_pos h]
      rcases List.mem_cons.1 hp with hp | hp
      · exact absurd (by rw [hp]; exact h) hk
      · exact List.mem_cons_of_mem _ hp
    · rw [if_neg h]
      rcases List.mem_cons.1 hp with hp | hp
      · exact hp ▸ List.mem_cons_self ..
      · exact List.mem_cons_of_mem _ (ih hp)

theorem alSet_self {ν : Type} (l : List (κ × ν)) (k : κ) (v : ν) : (k, v) ∈ alSet l k v := by
  induction l with
  | nil => simp [alSet]
  | cons q t ih =>
    obtain ⟨k', w⟩ := q
    unfold alSet
    by_cases h : k' = k
    · rw [if_pos h, h]; exact List.mem_cons_self ..
    · rw [if_neg h]; exact List.mem_cons_of_mem _ ih

theorem mem_alIns (l : List (κ × Option β)) (k : κ) (a : Option β) (p : κ × Option β) (hp : p ∈ alIns l k a) :
    p ∈ l ∨ p = (k, a) := by
  unfold alIns at hp
  split at hp
  · cases a with
    | none => exact Or.inl hp
    | some d => exact mem_alSet l k (some d) p hp
  · rcases List.mem_append.1 hp with h | h
    · exact Or.inl h
    · exact Or.inr (List.mem_singleton.1 h)

theorem alIns_keep (l : List (κ × Option β)) (k : κ) (a : Option β) (p : κ × Option β) (hp : p ∈ l) (hk : p.1 ≠ k) :
    p ∈ alIns l k a := by
  unfold alIns
  split
  · cases a with
    | none => exact hp
    | some d => exact alSet_keep l k (some d) p hp hk
  · exact List.mem_append_left _ hp

theorem alIns_none (l : List (κ × Option β)) (k : κ) (p : κ × Option β) (hp : p ∈ l) : p ∈ alIns l k none := by
  unfold alIns
  split
  · exact hp
  · exact List.mem_append_left _ hp

theorem alIns_some (l : List (κ × Option β)) (k : κ) (d : β) : (k, some d) ∈ alIns l k (some d) := by
  unfold alIns
  split
  · exact alSet_self l k (some d)
  · exact List.mem_append_right _ (List.mem_singleton.2 rfl)

end al

theorem addNode_eq (H : DiG) (u : Node) (a : Option ERat) : H.addNode u a = { H with nodes := alIns H.nodes u a } := by
  unfold DiG.addNode alIns
  split
  · cases a <;> rfl
  · rfl

theorem addEdge_eq (H : DiG) (u v : Node) (a : Option ERat) :
    H.addEdge u v a = { nodes := alIns (alIns H.nodes u none) v none, edges := alIns H.edges (u, v) a } := by
  unfold DiG.addEdge
  simp only [addNode_eq]
  unfold alIns
  split
  · cases a <;> rfl
  · rfl

/-! ### the pure core of the builders: rows of kept edges -/

/-- the keys of the edge table -/
def ekeys (H : DiG) : List (Node × Node) := H.edges.map (·.1)

/-- `H.add_node(u, …)` followed by `H.add_edge(u, v, …)` for the kept neighbours `v`, in order -/
def addRow (H : DiG) (u : Node) (na : Option ERat) (es : List (Node × Option ERat)) : DiG :=
  es.foldl (fun H e => H.addEdge u e.1 e.2) (H.addNode u na)

abbrev Row := Node × Option ERat × List (Node × Option ERat)

/-- the digraph built row by row from the empty one -/
def buildRows (rows : List Row) : DiG := rows.foldl (fun H r => addRow H r.1 r.2.1 r.2.2) DiG.empty

theorem buildRows_snoc (rows : List Row) (r : Row) :
    buildRows (rows ++ [r]) = addRow (buildRows rows) r.1 r.2.1 r.2.2 := by
  unfold buildRows; rw [List.foldl_append]; rfl

/-! one `add_node` -/

theorem N_edges (H : DiG) (u : Node) (a : Option ERat) : (H.addNode u a).edges = H.edges := by rw [addNode_eq]
theorem N_nodes (H : DiG) (u : Node) (a : Option ERat) : (H.addNode u a).nodes = alIns H.nodes u a := by rw [addNode_eq]
theorem N_mem (H : DiG) (u : Node) (a : Option ERat) (x : Node) :
    x ∈ (H.addNode u a).nodeList ↔ x ∈ H.nodeList ∨ x = u := by
  unfold DiG.nodeList; rw [N_nodes]; exact mem_keys_alIns _ _ _ _
theorem N_nodup (H : DiG) (u : Node) (a : Option ERat) (h : H.nodeList.Nodup) : (H.addNode u a).nodeList.Nodup := by
  unfold DiG.nodeList; rw [N_nodes]; exact nodup_keys_alIns _ _ _ h

/-! one `add_edge` -/

theorem A_edges (H : DiG) (u v : Node) (a : Option ERat) : (H.addEdge u v a).edges = alIns H.edges (u, v) a := by
  rw [addEdge_eq]
theorem A_nodes (H : DiG) (u v : Node) (a : Option ERat) :
    (H.addEdge u v a).nodes = alIns (alIns H.nodes u none) v none := by rw [addEdge_eq]
theorem A_mem (H : DiG) (u v : Node) (a : Option ERat) (x : Node) :
    x ∈ (H.addEdge u v a).nodeList ↔ x ∈ H.nodeList ∨ x = u ∨ x = v := by
  unfold DiG.nodeList; rw [A_nodes, mem_keys_alIns, mem_keys_alIns, or_assoc]
theorem A_nodup (H : DiG) (u v : Node) (a : Option ERat) (h : H.nodeList.Nodup) : (H.addEdge u v a).nodeList.Nodup := by
  unfold DiG.nodeList; rw [A_nodes]; exact nodup_keys_alIns _ _ _ (nodup_keys_alIns _ _ _ h)
theorem A_ekeys (H : DiG) (u v : Node) (a : Option ERat) (k : Node × Node) :
    k ∈ ekeys (H.addEdge u v a) ↔ k ∈ ekeys H ∨ k = (u, v) := by
  unfold ekeys; rw [A_edges]; exact mem_keys_alIns _ _ _ _
theorem A_enodup (H : DiG) (u v : Node) (a : Option ERat) (h : (ekeys H).Nodup) : (ekeys (H.addEdge u v a)).Nodup := by
  unfold ekeys; rw [A_edges]; exact nodup_keys_alIns _ _ _ h
theorem A_node_entry (H : DiG) (u v : Node) (a : Option ERat) (p : Node × Option ERat)
    (hp : p ∈ (H.addEdge u v a).nodes) : p ∈ H.nodes ∨ p.2 = none := by
  rw [A_nodes] at hp
  rcases mem_alIns _ _ _ _ hp with h | h
  · rcases mem_alIns _ _ _ _ h with h | h
    · exact Or.inl h
    · exact Or.inr (by rw [h])
  · exact Or.inr (by rw [h])
theorem A_node_keep (H : DiG) (u v : Node) (a : Option ERat) (p : Node × Option ERat) (hp : p ∈ H.nodes) :
    p ∈ (H.addEdge u v a).nodes := by
  rw [A_nodes]; exact alIns_none _ _ _ (alIns_none _ _ _ hp)

/-! the edges of one row -/

/-- the `add_edge` loop of one row -/
def addEdges (u : Node) (es : List (Node × Option ERat)) (G : DiG) : DiG := es.foldl (fun H e => H.addEdge u e.1 e.2) G

theorem addEdges_cons (u : Node) (e : Node × Option ERat) (es : List (Node × Option ERat)) (G : DiG) :
    addEdges u (e :: es) G = addEdges u es (G.addEdge u e.1 e.2) := rfl

theorem E_mem (u : Node) (es : List (Node × Option ERat)) : ∀ (G : DiG), u ∈ G.nodeList →
    ∀ x, x ∈ (addEdges u es G).nodeList ↔ x ∈ G.nodeList ∨ x ∈ es.map (·.1) := by
  induction es with
  | nil => intro G _ x; simp [addEdges]
  | cons e t ih =>
    intro G hu x
    rw [addEdges_cons, ih _ ((A_mem G u e.1 e.2 u).2 (Or.inl hu)), A_mem]
    simp only [List.map_cons, List.mem_cons]
    constructor
    · rintro ((h | rfl | rfl) | h)
      · exact Or.inl h
      · exact Or.inl hu
      · exact Or.inr (Or.inl rfl)
      · exact Or.inr (Or.inr h)
    · rintro (h | rfl | h)
      · exact Or.inl (Or.inl h)
      · exact Or.inl (Or.inr (Or.inr rfl))
      · exact Or.inr h

theorem E_nodup (u : Node) (es : List (Node × Option ERat)) : ∀ (G : DiG), G.nodeList.Nodup →
    (addEdges u es G).nodeList.Nodup := by
  induction es with
  | nil => intro G h; exact h
  | cons e t ih => intro G h; rw [addEdges_cons]; exact ih _ (A_nodup G u e.1 e.2 h)

theorem E_ekeys (u : Node) (es : List (Node × Option ERat)) : ∀ (G : DiG) (k : Node × Node),
    k ∈ ekeys (addEdges u es G) ↔ k ∈ ekeys G ∨ ∃ v ∈ es.map (·.1), k = (u, v) := by
  induction es with
  | nil => intro G k; simp [addEdges]
  | cons e t ih =>
    intro G k
    rw [addEdges_cons, ih, A_ekeys]
    simp only [List.map_cons, List.mem_cons, exists_eq_or_imp]
    tauto

theorem E_enodup (u : Node) (es : List (Node × Option ERat)) : ∀ (G : DiG), (ekeys G).Nodup →
    (ekeys (addEdges u es G)).Nodup := by
  induction es with
  | nil => intro G h; exact h
  | cons e t ih => intro G h; rw [addEdges_cons]; exact ih _ (A_enodup G u e.1 e.2 h)

theorem E_edge_entry (u : Node) (es : List (Node × Option ERat)) : ∀ (G : DiG) (e : (Node × Node) × Option ERat),
    e ∈ (addEdges u es G).edges → e ∈ G.edges ∨ (e.1.1 = u ∧ (e.1.2, e.2) ∈ es) := by
  induction es with
  | nil => intro G e h; exact Or.inl h
  | cons a t ih =>
    intro G e h
    rw [addEdges_cons] at h
    rcases ih _ e h with h | h
    · rw [A_edges] at h
      rcases mem_alIns _ _ _ _ h with h | h
      · exact Or.inl h
      · refine Or.inr ⟨by rw [h], ?_⟩
        rw [h]; exact List.mem_cons_self ..
    · exact Or.inr ⟨h.1, List.mem_cons_of_mem _ h.2⟩

theorem E_node_entry (u : Node) (es : List (Node × Option ERat)) : ∀ (G : DiG) (p : Node × Option ERat),
    p ∈ (addEdges u es G).nodes → p ∈ G.nodes ∨ p.2 = none := by
  induction es with
  | nil => intro G p h; exact Or.inl h
  | cons a t ih =>
    intro G p h
    rw [addEdges_cons] at h
    rcases ih _ p h with h | h
    · exact A_node_entry G u a.1 a.2 p h
    · exact Or.inr h

theorem E_node_keep (u : Node) (es : List (Node × Option ERat)) : ∀ (G : DiG) (p : Node × Option ERat),
    p ∈ G.nodes → p ∈ (addEdges u es G).nodes := by
  induction es with
  | nil => intro G p h; exact h
  | cons a t ih => intro G p h; rw [addEdges_cons]; exact ih _ p (A_node_keep G u a.1 a.2 p h)

/-! one row -/

theorem addRow_eq (H : DiG) (u : Node) (na : Option ERat) (es : List (Node × Option ERat)) :
    addRow H u na es = addEdges u es (H.addNode u na) := rfl

theorem R_mem (H : DiG) (u : Node) (na : Option ERat) (es : List (Node × Option ERat)) (x : Node) :
    x ∈ (addRow H u na es).nodeList ↔ x ∈ H.nodeList ∨ x = u ∨ x ∈ es.map (·.1) := by
  rw [addRow_eq, E_mem u es _ ((N_mem H u na u).2 (Or.inr rfl)), N_mem, or_assoc]

theorem R_nodup (H : DiG) (u : Node) (na : Option ERat) (es : List (Node × Option ERat)) (h : H.nodeList.Nodup) :
    (addRow H u na es).nodeList.Nodup := E_nodup u es _ (N_nodup H u na h)

theorem R_ekeys (H : DiG) (u : Node) (na : Option ERat) (es : List (Node × Option ERat)) (k : Node × Node) :
    k ∈ ekeys (addRow H u na es) ↔ k ∈ ekeys H ∨ ∃ v ∈ es.map (·.1), k = (u, v) := by
  rw [addRow_eq, E_ekeys]; unfold ekeys; rw [N_edges]

theorem R_enodup (H : DiG) (u : Node) (na : Option ERat) (es : List (Node × Option ERat)) (h : (ekeys H).Nodup) :
    (ekeys (addRow H u na es)).Nodup := E_enodup u es _ (by unfold ekeys; rw [N_edges]; exact h)

theorem R_edge_entry (H : DiG) (u : Node) (na : Option ERat) (es : List (Node × Option ERat))
    (e : (Node × Node) × Option ERat) (h : e ∈ (addRow H u na es).edges) :
    e ∈ H.edges ∨ (e.1.1 = u ∧ (e.1.2, e.2) ∈ es) := by
  have := E_edge_entry u es _ e h
  rwa [N_edges] at this

theorem R_node_entry (H : DiG) (u : Node) (na : Option ERat) (es : List (Node × Option ERat))
    (p : Node × Option ERat) (h : p ∈ (addRow H u na es).nodes) : p ∈ H.nodes ∨ p.2 = none ∨ p = (u, na) := by
  rcases E_node_entry u es _ p h with h | h
  · rw [N_nodes] at h
    rcases mem_alIns _ _ _ _ h with h | h
    · exact Or.inl h
    · exact Or.inr (Or.inr h)
  · exact Or.inr (Or.inl h)

theorem R_node_keep (H : DiG) (u : Node) (na : Option ERat) (es : List (Node × Option ERat))
    (p : Node × Option ERat) (h : p ∈ H.nodes) (hne : p.1 ≠ u) : p ∈ (addRow H u na es).nodes :=
  E_node_keep u es _ p (by rw [N_nodes]; exact alIns_keep _ _ _ _ h hne)

theorem R_node_some (H : DiG) (u : Node) (d : ERat) (es : List (Node × Option ERat)) :
    (u, some d) ∈ (addRow H u (some d) es).nodes :=
  E_node_keep u es _ _ (by rw [N_nodes]; exact alIns_some _ _ _)

/-! all rows -/

/-- what the digraph built from `rows` looks like -/
structure RowsSpec (rows : List Row) (B : DiG) : Prop where
  nodup : B.nodeList.Nodup
  enodup : (ekeys B).Nodup
  mem_node : ∀ x, x ∈ B.nodeList ↔ (x ∈ rows.map (·.1) ∨ ∃ r ∈ rows, x ∈ r.2.2.map (·.1))
  mem_edge : ∀ k, k ∈ ekeys B ↔ ∃ r ∈ rows, r.1 = k.1 ∧ k.2 ∈ r.2.2.map (·.1)
  edge_attr : ∀ e ∈ B.edges, ∃ r ∈ rows, r.1 = e.1.1 ∧ (e.1.2, e.2) ∈ r.2.2
  node_attr : ∀ p ∈ B.nodes, p.2 = none ∨ ∃ r ∈ rows, r.1 = p.1 ∧ r.2.1 = p.2

theorem buildRows_spec (rows : List Row) : RowsSpec rows (buildRows rows) := by
  induction rows using List.reverseRecOn with
  | nil =>
    exact ⟨List.nodup_nil, List.nodup_nil, by simp [buildRows, DiG.empty, DiG.nodeList],
      by simp [buildRows, DiG.empty, ekeys], by simp [buildRows, DiG.empty], by simp [buildRows, DiG.empty]⟩
  | append_singleton rows r ih =>
    rw [buildRows_snoc]
    refine ⟨R_nodup _ _ _ _ ih.nodup, R_enodup _ _ _ _ ih.enodup, fun x => ?_, fun k => ?_, fun e he => ?_,
      fun p hp => ?_⟩
    · rw [R_mem, ih.mem_node]
      simp only [List.map_append, List.mem_append, List.map_cons, List.map_nil, List.mem_singleton]
      constructor
      · rintro ((h | ⟨r', hr', h⟩) | rfl | h)
        · exact Or.inl (Or.inl h)
        · exact Or.inr ⟨r', Or.inl hr', h⟩
        · exact Or.inl (Or.inr rfl)
        · exact Or.inr ⟨r, Or.inr rfl, h⟩
      · rintro ((h | rfl) | ⟨r', hr' | rfl, h⟩)
        · exact Or.inl (Or.inl h)
        · exact Or.inr (Or.inl rfl)
        · exact Or.inl (Or.inr ⟨r', hr', h⟩)
        · exact Or.inr (Or.inr h)
    · rw [R_ekeys, ih.mem_edge]
      simp only [List.mem_append, List.mem_singleton]
      constructor
      · rintro (⟨r', hr', h⟩ | ⟨v, hv, rfl⟩)
        · exact ⟨r', Or.inl hr', h⟩
        · exact ⟨r, Or.inr rfl, rfl, hv⟩
      · rintro ⟨r', hr' | rfl, h1, h2⟩
        · exact Or.inl ⟨r', hr', h1, h2⟩
        · exact Or.inr ⟨k.2, h2, by rw [h1]⟩
    · rcases R_edge_entry _ _ _ _ e he with h | h
      · obtain ⟨r', hr', h'⟩ := ih.edge_attr e h
        exact ⟨r', List.mem_append_left _ hr', h'⟩
      · exact ⟨r, List.mem_append_right _ (List.mem_singleton.2 rfl), h.1.symm, h.2⟩
    · rcases R_node_entry _ _ _ _ p hp with h | h | h
      · rcases ih.node_attr p h with h' | ⟨r', hr', h'⟩
        · exact Or.inl h'
        · exact Or.inr ⟨r', List.mem_append_left _ hr', h'⟩
      · exact Or.inl h
      · exact Or.inr ⟨r, List.mem_append_right _ (List.mem_singleton.2 rfl), by rw [h], by rw [h]⟩

/-- with distinct row keys the `duration` written by `add_node` survives -/
theorem buildRows_some (rows : List Row) (hnd : (rows.map (·.1)).Nodup) :
    ∀ r ∈ rows, ∀ d, r.2.1 = some d → (r.1, some d) ∈ (buildRows rows).nodes := by
  induction rows using List.reverseRecOn with
  | nil => intro r hr; cases hr
  | append_singleton rows r0 ih =>
    intro r hr d hd
    rw [buildRows_snoc]
    rw [List.map_append, List.nodup_append] at hnd
    obtain ⟨h1, _, h3⟩ := hnd
    rcases List.mem_append.1 hr with hr | hr
    · refine R_node_keep _ _ _ _ _ (ih h1 r hr d hd) ?_
      exact h3 r.1 (List.mem_map.2 ⟨r, hr, rfl⟩) r0.1 (by simp)
    · rw [List.mem_singleton.1 hr] at hd ⊢
      rw [hd]; exact R_node_some _ _ _ _

theorem buildRows_hwf (rows : List Row) : HWF (buildRows rows) := by
  have h := buildRows_spec rows
  refine ⟨h.nodup, fun e he => ?_⟩
  obtain ⟨r, hr, h1, h2⟩ := (h.mem_edge e.1).1 (List.mem_map.2 ⟨e, he, rfl⟩)
  exact ⟨(h.mem_node _).2 (Or.inl (List.mem_map.2 ⟨r, hr, h1⟩)), (h.mem_node _).2 (Or.inr ⟨r, hr, h2⟩)⟩

/-! ### the builders: first all the answers of the time functions, then a pure construction -/

section monad
variable {m : Type → Type} [Monad m] [LawfulMonad m] {α β γ : Type}

/-- run `c` on the elements of a list, left to right, and collect the answers -/
def mapA (c : α → m β) : List α → m (List β)
  | [] => pure []
  | x :: xs => do
    let t ← c x
    let ts ← mapA c xs
    pure (t :: ts)

/-- fold over two lists in step -/
def foldl2 (g : γ → α → β → γ) : γ → List α → List β → γ
  | acc, x :: xs, t :: ts => foldl2 g (g acc x t) xs ts
  | acc, _, _ => acc

/-- a loop whose body asks one question and then updates the accumulator purely = ask all the questions, then fold -/
theorem foldlM_collect (c : α → m β) (g : γ → α → β → γ) (l : List α) : ∀ (init : γ),
    l.foldlM (fun acc x => c x >>= fun t => pure (g acc x t)) init =
      mapA c l >>= fun ts => pure (foldl2 g init l ts) := by
  induction l with
  | nil => intro init; simp [mapA, foldl2]
  | cons x xs ih =>
    intro init
    rw [List.foldlM_cons]
    simp only [mapA, bind_assoc, pure_bind, ih, foldl2]

theorem mapA_pure (f : α → β) (l : List α) : mapA (fun x => (pure (f x) : m β)) l = pure (l.map f) := by
  induction l with
  | nil => rfl
  | cons x xs ih => simp [mapA, ih]

theorem foldl2_eq_zip (g : γ → α → β → γ) (l : List α) : ∀ (ts : List β) (init : γ),
    foldl2 g init l ts = (l.zip ts).foldl (fun acc p => g acc p.1 p.2) init := by
  induction l with
  | nil => intro ts init; cases ts <;> rfl
  | cons x xs ih =>
    intro ts init
    cases ts with
    | nil => rfl
    | cons t ts => simp only [foldl2, List.zip_cons_cons, List.foldl_cons, ih]
end monad

/-- the attribute written when `weights` is set -/
def attr (w : Bool) (t : ERat) : Option ERat := if w then some t else none

/-- one neighbour `v` of `u` with its delay `t`: the edge is kept iff `t ≤ duration` -/
def edgeStep (w : Bool) (u : Node) (dur : ERat) (H : DiG) (v : Node) (t : ERat) : DiG :=
  if ERat.le t dur then H.addEdge u v (attr w t) else H

/-- one node `u` with its answers (duration, delays to the neighbours in order) -/
def rowStep (w : Bool) (nbrs : Node → List Node) (H : DiG) (u : Node) (a : ERat × List ERat) : DiG :=
  foldl2 (edgeStep w u a.1) (H.addNode u (attr w a.1)) (nbrs u) a.2

/-- the digraph `nonMarkov_directed_percolate_network_with_timing` builds from the answers, positionally:
`answers[i] = (duration of nodes[i], delays to its neighbours in order)` -/
def buildL (w : Bool) (C : Contact) (answers : List (ERat × List ERat)) : DiG :=
  foldl2 (rowStep w C.nbrs) DiG.empty C.nodes answers

/-- all the calls of the time functions, in order: per node `rec_time_fxn(u)`, then `trans_time_fxn(u, v)` per neighbour -/
def answersM (C : Contact) (tt : Node → Node → PM ERat) (rt : Node → PM ERat) : PM (List (ERat × List ERat)) :=
  mapA (fun u => do
    let d ← rt u
    let ds ← mapA (tt u) (C.nbrs u)
    pure (d, ds)) C.nodes

theorem with_timing_eq (X : NX) (C : Contact) (tt : Node → Node → PM ERat) (rt : Node → PM ERat) (w : Bool) :
    GenPerc.with_timing X C tt rt w = answersM C tt rt >>= fun a => pure (buildL w C a) := by
  have hin : ∀ (w : Bool) (u : Node) (d : ERat) (H0 : DiG),
      (C.nbrs u).foldlM (fun (acc : DiG) (v : Node) => (do
        let t ← tt u v
        let H ← (if (ERat.le t d) then (pure (acc.addEdge u v (attr w t)) : PM DiG) else pure acc)
        pure H)) H0 = mapA (tt u) (C.nbrs u) >>= fun ts => pure (foldl2 (edgeStep w u d) H0 (C.nbrs u) ts) := by
    intro w u d H0
    rw [← foldlM_collect]
    congr 1
    funext acc v
    congr 1
    funext t
    unfold edgeStep
    cases ERat.le t d <;> simp
  have hout : ∀ (w : Bool), C.nodes.foldlM (fun (acc : DiG) (u : Node) => (do
        let d ← rt u
        let H ← (C.nbrs u).foldlM (fun (acc : DiG) (v : Node) => (do
          let t ← tt u v
          let H ← (if (ERat.le t d) then (pure (acc.addEdge u v (attr w t)) : PM DiG) else pure acc)
          pure H)) (acc.addNode u (attr w d))
        pure H)) DiG.empty = answersM C tt rt >>= fun a => pure (buildL w C a) := by
    intro w
    unfold answersM buildL
    rw [← foldlM_collect]
    congr 1
    funext acc u
    simp only [hin, bind_assoc, pure_bind, bind_pure, rowStep]
  cases w
  · have := hout false
    simp only [attr, Bool.false_eq_true, if_false] at this
    rw [← this]
    unfold GenPerc.with_timing
    simp only [Bool.false_eq_true, if_false, bind_pure, pure_bind]
  · have := hout true
    simp only [attr, if_true] at this
    rw [← this]
    unfold GenPerc.with_timing
    simp only [if_true, bind_pure, pure_bind]

/-! ### from the positional answers to rows -/

/-- the kept neighbours of one node with their attributes -/
def kept (w : Bool) (d : ERat) (vs : List Node) (ts : List ERat) : List (Node × Option ERat) :=
  ((vs.zip ts).filter (fun p => ERat.le p.2 d)).map (fun p => (p.1, attr w p.2))

theorem foldl2_edgeStep (w : Bool) (u : Node) (d : ERat) (vs : List Node) : ∀ (ts : List ERat) (G : DiG),
    foldl2 (edgeStep w u d) G vs ts = addEdges u (kept w d vs ts) G := by
  induction vs with
  | nil => intro ts G; cases ts <;> rfl
  | cons v vs ih =>
    intro ts G
    cases ts with
    | nil => rfl
    | cons t ts =>
      simp only [foldl2, ih]
      unfold edgeStep kept
      simp only [List.zip_cons_cons, List.filter_cons]
      cases ERat.le t d <;> simp [addEdges]

theorem rowStep_eq (w : Bool) (nbrs : Node → List Node) (H : DiG) (u : Node) (a : ERat × List ERat) :
    rowStep w nbrs H u a = addRow H u (attr w a.1) (kept w a.1 (nbrs u) a.2) := by
  unfold rowStep; rw [foldl2_edgeStep]; rfl

/-- the rows `with_timing` adds for the given answers -/
def rowsOf (w : Bool) (C : Contact) (answers : List (ERat × List ERat)) : List Row :=
  (C.nodes.zip answers).map (fun p => (p.1, attr w p.2.1, kept w p.2.1 (C.nbrs p.1) p.2.2))

theorem buildL_eq (w : Bool) (C : Contact) (answers : List (ERat × List ERat)) :
    buildL w C answers = buildRows (rowsOf w C answers) := by
  unfold buildL buildRows rowsOf
  rw [foldl2_eq_zip, List.foldl_map]
  congr 1
  funext H p
  exact rowStep_eq w C.nbrs H p.1 p.2

/-- rows given by a keep rule and attribute functions -/
def ruleRows (C : Contact) (rule : Node → Node → Bool) (na : Node → Option ERat) (ea : Node → Node → Option ERat) :
    List Row :=
  C.nodes.map fun u => (u, na u, ((C.nbrs u).filter (rule u)).map fun v => (v, ea u v))

theorem kept_fun (w : Bool) (d : ERat) (f : Node → ERat) (vs : List Node) :
    kept w d vs (vs.map f) = (vs.filter fun v => ERat.le (f v) d).map fun v => (v, attr w (f v)) := by
  unfold kept
  induction vs with
  | nil => rfl
  | cons v vs ih =>
    simp only [List.map_cons, List.zip_cons_cons, List.filter_cons]
    cases ERat.le (f v) d <;> simp [ih]

/-- answers given by functions of the node / the ordered pair -/
def funAnswers (C : Contact) (dur : Node → ERat) (delay : Node → Node → ERat) : List (ERat × List ERat) :=
  C.nodes.map fun u => (dur u, (C.nbrs u).map (delay u))

theorem rowsOf_fun (w : Bool) (C : Contact) (dur : Node → ERat) (delay : Node → Node → ERat) :
    rowsOf w C (funAnswers C dur delay) =
      ruleRows C (fun u v => ERat.le (delay u v) (dur u)) (fun u => attr w (dur u)) (fun u v => attr w (delay u v)) := by
  unfold rowsOf funAnswers ruleRows
  have : ∀ l : List Node, (l.zip (l.map fun u => (dur u, (C.nbrs u).map (delay u)))).map
      (fun p => ((p.1, attr w p.2.1, kept w p.2.1 (C.nbrs p.1) p.2.2) : Row)) =
      l.map fun u => ((u, attr w (dur u), ((C.nbrs u).filter (fun v => ERat.le (delay u v) (dur u))).map
        fun v => (v, attr w (delay u v))) : Row) := by
    intro l
    induction l with
    | nil => rfl
    | cons u l ih => simp only [List.map_cons, List.zip_cons_cons, ih, kept_fun]
  exact this C.nodes

/-- **`with_timing` with deterministic time functions** builds the rule graph, touching neither script nor tape -/
theorem with_timing_pure (X : NX) (C : Contact) (dur : Node → ERat) (delay : Node → Node → ERat) (w : Bool) :
    GenPerc.with_timing X C (fun u v => pure (delay u v)) (fun u => pure (dur u)) w =
      pure (buildRows (ruleRows C (fun u v => ERat.le (delay u v) (dur u)) (fun u => attr w (dur u))
        (fun u v => attr w (delay u v)))) := by
  rw [with_timing_eq, ← rowsOf_fun, ← buildL_eq]
  unfold answersM funAnswers
  simp only [mapA_pure, pure_bind]

theorem foldlM_pure' {α γ : Type} (f : γ → α → γ) (l : List α) : ∀ (init : γ),
    l.foldlM (fun acc x => (pure (f acc x) : PM γ)) init = pure (l.foldl f init) := by
  induction l with
  | nil => intro init; rfl
  | cons x xs ih => intro init; rw [List.foldlM_cons, pure_bind, ih]; rfl

theorem foldl_filter_addEdges (u : Node) (c : Node → Bool) (ea : Node → Option ERat) (vs : List Node) : ∀ (G : DiG),
    vs.foldl (fun H v => if c v then H.addEdge u v (ea v) else H) G =
      addEdges u ((vs.filter c).map fun v => (v, ea v)) G := by
  induction vs with
  | nil => intro G; rfl
  | cons v vs ih =>
    intro G
    simp only [List.foldl_cons, List.filter_cons, ih]
    cases c v <;> simp [addEdges]

/-- **`nonMarkov_directed_percolate_network`** (`xi`, `zeta`, `transmission`) builds the rule graph -/
theorem xi_zeta_eq (X : NX) (C : Contact) (xi zeta : Node → Rat) (tr : Rat → Rat → Bool) :
    GenPerc.xi_zeta_network X C xi zeta tr =
      pure (buildRows (ruleRows C (fun u v => tr (xi u) (zeta v)) (fun _ => none) (fun _ _ => none))) := by
  unfold GenPerc.xi_zeta_network
  have hin : ∀ (u : Node) (H0 : DiG), (C.nbrs u).foldlM (fun (acc : DiG) (v : Node) => (do
      let H ← (if (tr (xi u) (zeta v)) then (pure (acc.addEdge u v none) : PM DiG) else pure acc)
      pure H)) H0 = pure (addEdges u (((C.nbrs u).filter fun v => tr (xi u) (zeta v)).map fun v => (v, none)) H0) := by
    intro u H0
    rw [← foldl_filter_addEdges u (fun v => tr (xi u) (zeta v)) (fun _ => none), ← foldlM_pure']
    congr 1
    funext acc v
    cases tr (xi u) (zeta v) <;> simp
  simp only [hin, pure_bind, bind_pure]
  rw [foldlM_pure']
  unfold buildRows ruleRows
  rw [List.foldl_map]
  rfl

/-! ### the rule graph -/

/-- a well-formed contact graph: no node listed twice, neighbours are nodes -/
structure CWF (C : Contact) : Prop where
  nodup : C.nodes.Nodup
  nbrs_mem : ∀ u ∈ C.nodes, ∀ v ∈ C.nbrs u, v ∈ C.nodes

/-- `H` is the percolated digraph of `rule` on the contact graph `C`, with the attributes `na` / `ea` -/
structure RuleGraph (C : Contact) (rule : Node → Node → Bool) (na : Node → Option ERat)
    (ea : Node → Node → Option ERat) (H : DiG) : Prop where
  hwf : HWF H
  enodup : (ekeys H).Nodup
  hasNode : ∀ x, H.hasNode x = true ↔ x ∈ C.nodes
  perm : H.nodeList.Perm C.nodes
  succ : ∀ u v, v ∈ H.succ u ↔ (u ∈ C.nodes ∧ v ∈ Perc.percolate C.nbrs rule u)
  edge_attr : ∀ e ∈ H.edges, e.2 = ea e.1.1 e.1.2
  node_attr : ∀ p ∈ H.nodes, p.2 = na p.1

theorem eq_of_nodup_keys {κ ν : Type} : ∀ (l : List (κ × ν)), (l.map (·.1)).Nodup → ∀ p ∈ l, ∀ q ∈ l, p.1 = q.1 → p = q := by
  intro l
  induction l with
  | nil => intro _ p hp; cases hp
  | cons a t ih =>
    intro hnd p hp q hq hk
    rw [List.map_cons, List.nodup_cons] at hnd
    rcases List.mem_cons.1 hp with hp1 | hp1 <;> rcases List.mem_cons.1 hq with hq1 | hq1
    · rw [hp1, hq1]
    · rw [hp1] at hk
      exact absurd (show a.1 ∈ t.map (·.1) from List.mem_map.2 ⟨q, hq1, hk.symm⟩) hnd.1
    · rw [hq1] at hk
      exact absurd (show a.1 ∈ t.map (·.1) from List.mem_map.2 ⟨p, hp1, hk⟩) hnd.1
    · exact ih hnd.2 p hp1 q hq1 hk

theorem mem_ruleRows (C : Contact) (rule : Node → Node → Bool) (na : Node → Option ERat)
    (ea : Node → Node → Option ERat) (r : Row) : r ∈ ruleRows C rule na ea ↔
      r.1 ∈ C.nodes ∧ r = (r.1, na r.1, ((C.nbrs r.1).filter (rule r.1)).map fun v => (v, ea r.1 v)) := by
  unfold ruleRows
  rw [List.mem_map]
  constructor
  · rintro ⟨u, hu, rfl⟩; exact ⟨hu, rfl⟩
  · rintro ⟨hu, h⟩; exact ⟨r.1, hu, h.symm⟩

theorem ruleRows_keys (C : Contact) (rule : Node → Node → Bool) (na : Node → Option ERat)
    (ea : Node → Node → Option ERat) : (ruleRows C rule na ea).map (·.1) = C.nodes := by
  unfold ruleRows; rw [List.map_map]; exact List.map_id' _

theorem ruleGraph (C : Contact) (hC : CWF C) (rule : Node → Node → Bool) (na : Node → Option ERat)
    (ea : Node → Node → Option ERat) : RuleGraph C rule na ea (buildRows (ruleRows C rule na ea)) := by
  have hs := buildRows_spec (ruleRows C rule na ea)
  have hmem : ∀ x, x ∈ (buildRows (ruleRows C rule na ea)).nodeList ↔ x ∈ C.nodes := by
    intro x
    rw [hs.mem_node, ruleRows_keys]
    constructor
    · rintro (h | ⟨r, hr, h⟩)
      · exact h
      · obtain ⟨hu, hr'⟩ := (mem_ruleRows C rule na ea r).1 hr
        rw [hr'] at h
        simp only [List.map_map, List.mem_map, List.mem_filter] at h
        obtain ⟨v, ⟨hv, _⟩, rfl⟩ := h
        exact hC.nbrs_mem _ hu _ hv
    · exact Or.inl
  refine ⟨buildRows_hwf _, hs.enodup, fun x => by rw [hasNode_iff, hmem],
    (List.perm_ext_iff_of_nodup hs.nodup hC.nodup).2 hmem, fun u v => ?_, fun e he => ?_, fun p hp => ?_⟩
  · rw [mem_succ]
    have := hs.mem_edge (u, v)
    unfold ekeys at this
    rw [this]
    unfold Perc.percolate
    constructor
    · rintro ⟨r, hr, h1, h2⟩
      obtain ⟨hu, hr'⟩ := (mem_ruleRows C rule na ea r).1 hr
      rw [hr'] at h2
      simp only [List.map_map, List.mem_map, List.mem_filter] at h2 h1
      obtain ⟨v', ⟨hv, hrule⟩, hv'⟩ := h2
      simp only [Function.comp] at hv'
      subst hv'
      rw [h1] at hu hv hrule
      exact ⟨hu, List.mem_filter.2 ⟨hv, hrule⟩⟩
    · rintro ⟨hu, hv⟩
      refine ⟨(u, na u, ((C.nbrs u).filter (rule u)).map fun v => (v, ea u v)),
        (mem_ruleRows C rule na ea _).2 ⟨hu, rfl⟩, rfl, ?_⟩
      simp only [List.map_map, List.mem_map]
      exact ⟨v, hv, rfl⟩
  · obtain ⟨r, hr, h1, h2⟩ := hs.edge_attr e he
    obtain ⟨hu, hr'⟩ := (mem_ruleRows C rule na ea r).1 hr
    rw [hr'] at h2
    simp only [List.mem_map] at h2
    obtain ⟨v, _, hv⟩ := h2
    have h3 : v = e.1.2 := congrArg Prod.fst hv
    have h4 : ea r.1 v = e.2 := congrArg Prod.snd hv
    rw [← h4, h3, h1]
  · have hpn : p.1 ∈ C.nodes := (hmem p.1).1 (List.mem_map.2 ⟨p, hp, rfl⟩)
    have hrow : (p.1, na p.1, ((C.nbrs p.1).filter (rule p.1)).map fun v => (v, ea p.1 v)) ∈ ruleRows C rule na ea :=
      (mem_ruleRows C rule na ea _).2 ⟨hpn, rfl⟩
    cases hna : na p.1 with
    | none =>
      rcases hs.node_attr p hp with h | ⟨r, hr, h1, h2⟩
      · exact h
      · obtain ⟨_, hr'⟩ := (mem_ruleRows C rule na ea r).1 hr
        rw [← h2, hr', h1, hna]
    | some d =>
      have hin := buildRows_some (ruleRows C rule na ea) (by rw [ruleRows_keys]; exact hC.nodup) _ hrow d hna
      have := eq_of_nodup_keys _ hs.nodup p hp _ hin rfl
      rw [this]

/-- reachability in a rule graph is reachability in the hand model's percolated graph on the contact graph's node list -/
theorem RuleGraph.reach_iff {C : Contact} (hC : CWF C) {rule : Node → Node → Bool} {na : Node → Option ERat}
    {ea : Node → Node → Option ERat} {H : DiG} (h : RuleGraph C rule na ea H) (u v : Node) :
    Perc.reach H.nodeList H.succ u v = true ↔ Perc.reach C.nodes (Perc.percolate C.nbrs rule) u v = true := by
  have hwf2 : Perc.WF C.nodes (Perc.percolate C.nbrs rule) :=
    ⟨hC.nodup, fun x hx y hy => hC.nbrs_mem x hx y (List.mem_filter.1 hy).1⟩
  have hpath : ∀ {a b : Node}, a ∈ C.nodes → (Perc.Path H.succ a b ↔ Perc.Path (Perc.percolate C.nbrs rule) a b) := by
    intro a b ha
    constructor
    · intro p
      induction p with
      | refl => exact Perc.Path.refl _
      | step x y _ hy ih => exact Perc.Path.step _ x y ih ((h.succ x y).1 hy).2
    · intro p
      induction p with
      | refl => exact Perc.Path.refl _
      | step x y hp hy ih =>
        exact Perc.Path.step _ x y ih ((h.succ x y).2 ⟨Perc.Path.mem_nodes hwf2 ha hp, hy⟩)
  constructor
  · intro hr
    have hu : u ∈ C.nodes := h.perm.mem_iff.1 (reach_src_mem hr)
    exact (Perc.reach_iff_path hwf2 hu v).2 ((hpath hu).1 ((Perc.reach_iff_path h.hwf.wf (h.perm.mem_iff.2 hu) v).1 hr))
  · intro hr
    have hu : u ∈ C.nodes := reach_src_mem hr
    exact (Perc.reach_iff_path h.hwf.wf (h.perm.mem_iff.2 hu) v).2 ((hpath hu).2 ((Perc.reach_iff_path hwf2 hu v).1 hr))

/-! ### running `PM` computations -/

theorem pm_bind_ok {α β : Type} {x : PM α} {f : α → PM β} {s s1 : PSt} {ts ts1 : TapeSt} {a : α}
    (h : x s ts = .ok ((a, s1), ts1)) : (x >>= f) s ts = f a s1 ts1 := by
  have h0 : (x >>= f) s = (x s >>= fun p => f p.1 p.2) := rfl
  rw [h0]; exact GenDiscrete.tm_bind_ok h

theorem pm_bind_err {α β : Type} {x : PM α} {f : α → PM β} {s : PSt} {ts : TapeSt} {e : String}
    (h : x s ts = .error e) : (x >>= f) s ts = .error e := by
  have h0 : (x >>= f) s = (x s >>= fun p => f p.1 p.2) := rfl
  rw [h0]; exact GenDiscrete.tm_bind_err h

theorem askVal_cons (call : List Nat) (b : ERat) (r : List ERat) (cs : Array (List Nat)) (ts : TapeSt) :
    askVal call ⟨b :: r, cs⟩ ts = .ok ((b, ⟨r, cs.push call⟩), ts) := rfl

theorem askVal_nil (call : List Nat) (cs : Array (List Nat)) (ts : TapeSt) :
    askVal call ⟨[], cs⟩ ts = .error "answers-exhausted" := rfl

/-- scripted questions: the answers are popped in order, the calls logged in order -/
theorem mapA_ask {α : Type} (lab : α → List Nat) (l : List α) : ∀ (bs rest : List ERat) (cs : Array (List Nat))
    (ts : TapeSt), bs.length = l.length →
    mapA (fun x => askVal (lab x)) l ⟨bs ++ rest, cs⟩ ts = .ok ((bs, ⟨rest, cs ++ l.map lab⟩), ts) := by
  induction l with
  | nil =>
    intro bs rest cs ts hl
    have : bs = [] := List.length_eq_zero_iff.1 hl
    subst this
    simp [mapA, pure_run]
  | cons x xs ih =>
    intro bs rest cs ts hl
    cases bs with
    | nil => simp at hl
    | cons b bs =>
      have hl' : bs.length = xs.length := by simpa using hl
      unfold mapA
      rw [List.cons_append, pm_bind_ok (askVal_cons (lab x) b (bs ++ rest) cs ts), pm_bind_ok (ih bs rest _ ts hl'), pure_run]
      simp
/-! ### scripted time functions -/

theorem arr_app_assoc {α : Type} (a : Array α) (l1 l2 : List α) : a ++ l1 ++ l2 = a ++ (l1 ++ l2) := by
  apply Array.ext'; simp
theorem arr_push_app {α : Type} (a : Array α) (x : α) (l : List α) : a.push x ++ l = a ++ (x :: l) := by
  apply Array.ext'; simp

/-- the answers in the order they are asked for -/
def flatAns (answers : List (ERat × List ERat)) : List ERat := answers.flatMap (fun a => a.1 :: a.2)

/-- the calls `with_timing` makes on the node list `l`: per node `rec_time_fxn(u)` (`[1, u]`), then `trans_time_fxn(u, v)`
(`[0, u, v]`) for the neighbours `v` in order -/
def callsOn (nbrs : Node → List Node) (l : List Node) : List (List Nat) :=
  l.flatMap (fun u => [1, u] :: (nbrs u).map (fun v => [0, u, v]))

/-- one duration per node and one delay per neighbour -/
def Shape (nbrs : Node → List Node) (l : List Node) (answers : List (ERat × List ERat)) : Prop :=
  List.Forall₂ (fun u a => a.2.length = (nbrs u).length) l answers

theorem answers_script (nbrs : Node → List Node) (l : List Node) (answers : List (ERat × List ERat))
    (hsh : Shape nbrs l answers) : ∀ (rest : List ERat) (cs : Array (List Nat)) (ts : TapeSt),
    mapA (fun u => (do
      let d ← askVal [1, u]
      let ds ← mapA (fun v => askVal [0, u, v]) (nbrs u)
      pure (d, ds) : PM (ERat × List ERat))) l ⟨flatAns answers ++ rest, cs⟩ ts =
      .ok ((answers, ⟨rest, cs ++ callsOn nbrs l⟩), ts) := by
  induction hsh with
  | nil => intro rest cs ts; simp [mapA, flatAns, callsOn, pure_run]
  | @cons u a l answers ha _ ih =>
    intro rest cs ts
    obtain ⟨d, ds⟩ := a
    unfold mapA
    have hrow : (do
        let d ← askVal [1, u]
        let ds ← mapA (fun v => askVal [0, u, v]) (nbrs u)
        pure (d, ds) : PM (ERat × List ERat)) ⟨flatAns ((d, ds) :: answers) ++ rest, cs⟩ ts =
        .ok (((d, ds), ⟨flatAns answers ++ rest, cs ++ ([1, u] :: (nbrs u).map (fun v => [0, u, v]))⟩), ts) := by
      have h1 : flatAns ((d, ds) :: answers) ++ rest = d :: (ds ++ (flatAns answers ++ rest)) := by
        simp [flatAns]
      rw [h1, pm_bind_ok (askVal_cons [1, u] d _ cs ts),
        pm_bind_ok (mapA_ask (fun v => [0, u, v]) (nbrs u) ds _ _ ts ha), pure_run]
      simp
    rw [pm_bind_ok hrow, pm_bind_ok (ih rest _ ts), pure_run]
    simp [callsOn, arr_app_assoc]

/-- **`with_timing` with scripted time functions**: if the script starts with one answer per call (durations and delays in
call order, `answers`) the run succeeds, leaves the tape alone, consumes exactly those answers, logs exactly the calls
`callsOn`, and returns the digraph built from the answers -/
theorem with_timing_script (X : NX) (C : Contact) (w : Bool) (answers : List (ERat × List ERat))
    (hsh : Shape C.nbrs C.nodes answers) (rest : List ERat) (cs : Array (List Nat)) (ts : TapeSt) :
    GenPerc.with_timing X C (fun u v => askVal [0, u, v]) (fun u => askVal [1, u]) w ⟨flatAns answers ++ rest, cs⟩ ts =
      .ok ((buildL w C answers, ⟨rest, cs ++ callsOn C.nbrs C.nodes⟩), ts) := by
  rw [with_timing_eq]
  unfold answersM
  rw [pm_bind_ok (answers_script C.nbrs C.nodes answers hsh rest cs ts), pure_run]

/-! ### `directed_percolate_network`: exponential times from the tape -/

/-- the time functions of `directed_percolate_network`: `random.expovariate(rate)` if `rate > 0`, else `float('Inf')` -/
def drawE (rate : Rat) : PM ERat := if decide (rate > (0 : Rat)) then expo rate else pure (none : ERat)

theorem directed_eq (X : NX) (C : Contact) (tau gamma : Rat) (w : Bool) :
    GenPerc.directed_percolate_network X C tau gamma w =
      GenPerc.with_timing X C (fun _ _ => drawE tau) (fun _ => drawE gamma) w := by
  unfold GenPerc.directed_percolate_network drawE
  simp only [bind_pure]

/-- an answer the time function with this rate can give: a finite time iff the rate is positive -/
def OkAns (rate : Rat) (a : ERat) : Prop := (0 < rate → a.isSome = true) ∧ (¬ 0 < rate → a = none)

/-- the draw an answer consumes -/
def drawOf (a : ERat) : List Draw := match a with | some d => [Draw.expo d] | none => []
/-- the call an answer logs -/
def callOf (rate : Rat) (a : ERat) : List Call := match a with | some _ => [Call.expo rate] | none => []

theorem expo_run (rate d : Rat) (h : rate ≠ 0) (s : PSt) (t : List Draw) (tr : Array Call) :
    expo rate s ⟨Draw.expo d :: t, tr⟩ = .ok ((some d, s), ⟨t, tr.push (Call.expo rate)⟩) := by
  have h1 : (PyPM.liftT (TM.popExpo rate) : PM Rat) s ⟨Draw.expo d :: t, tr⟩ =
      .ok ((d, s), ⟨t, tr.push (Call.expo rate)⟩) := by
    have : TM.popExpo rate ⟨Draw.expo d :: t, tr⟩ = .ok (d, ⟨t, tr.push (Call.expo rate)⟩) := by
      unfold TM.popExpo; rw [if_neg h]
    unfold PyPM.liftT
    rw [GenDiscrete.tm_bind_ok this]; rfl
  unfold expo
  rw [pm_bind_ok h1]; rfl

theorem drawE_run (rate : Rat) (a : ERat) (h : OkAns rate a) (s : PSt) (rest : List Draw) (tr : Array Call) :
    drawE rate s ⟨drawOf a ++ rest, tr⟩ = .ok ((a, s), ⟨rest, tr ++ callOf rate a⟩) := by
  unfold drawE
  by_cases hr : 0 < rate
  · have := h.1 hr
    cases a with
    | none => cases this
    | some d =>
      rw [decide_eq_true hr, if_pos rfl]
      simp only [drawOf, callOf, List.cons_append, List.nil_append]
      rw [expo_run rate d (ne_of_gt hr)]
      simp [arr_push_app]
  · rw [h.2 hr, decide_eq_false hr]
    simp [drawOf, callOf, pure_run]

theorem mapA_drawE {α : Type} (rate : Rat) (l : List α) : ∀ (as : List ERat), (∀ a ∈ as, OkAns rate a) →
    as.length = l.length → ∀ (s : PSt) (rest : List Draw) (tr : Array Call),
    mapA (fun _ => drawE rate) l s ⟨as.flatMap drawOf ++ rest, tr⟩ =
      .ok ((as, s), ⟨rest, tr ++ as.flatMap (callOf rate)⟩) := by
  induction l with
  | nil =>
    intro as _ hl s rest tr
    have : as = [] := List.length_eq_zero_iff.1 hl
    subst this
    simp [mapA, pure_run]
  | cons x xs ih =>
    intro as hok hl s rest tr
    cases as with
    | nil => simp at hl
    | cons a as =>
      have hl' : as.length = xs.length := by simpa using hl
      unfold mapA
      rw [List.flatMap_cons, List.append_assoc,
        pm_bind_ok (drawE_run rate a (hok a (List.mem_cons_self ..)) s _ tr),
        pm_bind_ok (ih as (fun b hb => hok b (List.mem_cons_of_mem _ hb)) hl' s rest _), pure_run]
      simp [arr_app_assoc]

/-- the draws / calls of a whole run, in order -/
def tapeOf (answers : List (ERat × List ERat)) : List Draw :=
  answers.flatMap (fun a => drawOf a.1 ++ a.2.flatMap drawOf)
def traceOf (tau gamma : Rat) (answers : List (ERat × List ERat)) : List Call :=
  answers.flatMap (fun a => callOf gamma a.1 ++ a.2.flatMap (callOf tau))

theorem answers_tape (nbrs : Node → List Node) (tau gamma : Rat) (l : List Node) (answers : List (ERat × List ERat))
    (hsh : Shape nbrs l answers) (hok : ∀ a ∈ answers, OkAns gamma a.1 ∧ ∀ t ∈ a.2, OkAns tau t) :
    ∀ (s : PSt) (rest : List Draw) (tr : Array Call),
    mapA (fun u => (do
      let d ← drawE gamma
      let ds ← mapA (fun _ => drawE tau) (nbrs u)
      pure (d, ds) : PM (ERat × List ERat))) l s ⟨tapeOf answers ++ rest, tr⟩ =
      .ok ((answers, s), ⟨rest, tr ++ traceOf tau gamma answers⟩) := by
  induction hsh with
  | nil => intro s rest tr; simp [mapA, tapeOf, traceOf, pure_run]
  | @cons u a l answers ha _ ih =>
    intro s rest tr
    obtain ⟨d, ds⟩ := a
    obtain ⟨hd, hds⟩ := hok (d, ds) (List.mem_cons_self ..)
    unfold mapA
    have hrow : (do
        let d ← drawE gamma
        let ds ← mapA (fun _ => drawE tau) (nbrs u)
        pure (d, ds) : PM (ERat × List ERat)) s ⟨tapeOf ((d, ds) :: answers) ++ rest, tr⟩ =
        .ok (((d, ds), s), ⟨tapeOf answers ++ rest, tr ++ (callOf gamma d ++ ds.flatMap (callOf tau))⟩) := by
      have h1 : tapeOf ((d, ds) :: answers) ++ rest = drawOf d ++ (ds.flatMap drawOf ++ (tapeOf answers ++ rest)) := by
        simp [tapeOf]
      rw [h1, pm_bind_ok (drawE_run gamma d hd s _ tr),
        pm_bind_ok (mapA_drawE tau (nbrs u) ds hds ha s _ _), pure_run]
      simp [arr_app_assoc]
    rw [pm_bind_ok hrow, pm_bind_ok (ih (fun b hb => hok b (List.mem_cons_of_mem _ hb)) s rest _), pure_run]
    simp [traceOf, arr_app_assoc]

/-- **`directed_percolate_network` on a tape**: per node one `expovariate(gamma)` (none if `gamma ≤ 0`: the duration is
infinite), then one `expovariate(tau)` per neighbour (none if `tau ≤ 0`: the delays are infinite); the script is untouched,
exactly these draws are consumed and logged, and the digraph is the one built from the drawn values -/
theorem directed_tape (X : NX) (C : Contact) (tau gamma : Rat) (w : Bool) (answers : List (ERat × List ERat))
    (hsh : Shape C.nbrs C.nodes answers) (hok : ∀ a ∈ answers, OkAns gamma a.1 ∧ ∀ t ∈ a.2, OkAns tau t)
    (s : PSt) (rest : List Draw) (tr : Array Call) :
    GenPerc.directed_percolate_network X C tau gamma w s ⟨tapeOf answers ++ rest, tr⟩ =
      .ok ((buildL w C answers, s), ⟨rest, tr ++ traceOf tau gamma answers⟩) := by
  rw [directed_eq, with_timing_eq]
  unfold answersM
  rw [pm_bind_ok (answers_tape C.nbrs tau gamma C.nodes answers hsh hok s rest tr), pure_run]

/-! ### positional answers as functions (distinct nodes, distinct neighbours) -/

/-- the answer at the position of `x` -/
def lk {β : Type} (l : List Node) (bs : List β) (dflt : β) (x : Node) : β := alGet (l.zip bs) dflt x

theorem map_lk {β : Type} (dflt : β) : ∀ (l : List Node) (bs : List β), l.Nodup → l.length = bs.length →
    l.map (lk l bs dflt) = bs := by
  intro l
  induction l with
  | nil => intro bs _ hl; cases bs with | nil => rfl | cons => simp at hl
  | cons x xs ih =>
    intro bs hnd hl
    cases bs with
    | nil => simp at hl
    | cons b bs =>
      rw [List.nodup_cons] at hnd
      have hl' : xs.length = bs.length := by simpa using hl
      rw [List.map_cons]
      congr 1
      · simp [lk, alGet]
      · rw [← ih bs hnd.2 hl']
        apply List.map_congr_left
        intro y hy
        have : x ≠ y := fun h => hnd.1 (h ▸ hy)
        simp only [lk, List.zip_cons_cons, alGet, if_neg this]
        rw [ih bs hnd.2 hl']

theorem lk_mem {β : Type} (dflt : β) : ∀ (l : List Node) (bs : List β) (x : Node), x ∈ l → l.length = bs.length →
    lk l bs dflt x ∈ bs := by
  intro l
  induction l with
  | nil => intro bs x hx; cases hx
  | cons y ys ih =>
    intro bs x hx hl
    cases bs with
    | nil => simp at hl
    | cons b bs =>
      have hl' : ys.length = bs.length := by simpa using hl
      by_cases h : y = x
      · simp [lk, alGet, h]
      · have hx' : x ∈ ys := by
          rcases List.mem_cons.1 hx with h' | h'
          · exact absurd h'.symm h
          · exact h'
        have := ih bs x hx' hl'
        simp only [lk, List.zip_cons_cons, alGet, if_neg h]
        exact List.mem_cons_of_mem _ this

/-- the duration of `u` / the delay from `u` to `v` in positional answers -/
def durOf (C : Contact) (answers : List (ERat × List ERat)) (u : Node) : ERat :=
  (lk C.nodes answers (none, []) u).1
def delayOf (C : Contact) (answers : List (ERat × List ERat)) (u v : Node) : ERat :=
  lk (C.nbrs u) (lk C.nodes answers (none, []) u).2 none v

theorem forall2_lk (nbrs : Node → List Node) : ∀ (l : List Node) (answers : List (ERat × List ERat)),
    Shape nbrs l answers → l.Nodup → l.length = answers.length ∧
      ∀ u ∈ l, (lk l answers (none, []) u).2.length = (nbrs u).length := by
  intro l answers hsh
  induction hsh with
  | nil => intro _; exact ⟨rfl, fun u hu => by cases hu⟩
  | @cons u a l answers ha _ ih =>
    intro hnd
    rw [List.nodup_cons] at hnd
    obtain ⟨h1, h2⟩ := ih hnd.2
    refine ⟨by simp [h1], fun x hx => ?_⟩
    by_cases h : u = x
    · subst h; simp [lk, alGet]; exact ha
    · have hx' : x ∈ l := by
        rcases List.mem_cons.1 hx with h' | h'
        · exact absurd h'.symm h
        · exact h'
      simp only [lk, List.zip_cons_cons, alGet, if_neg h]
      exact h2 x hx'

/-- on a contact graph with distinct nodes and distinct neighbours positional answers are functions of the node / the pair -/
theorem answers_eq_fun (C : Contact) (hnd : C.nodes.Nodup) (hnb : ∀ u ∈ C.nodes, (C.nbrs u).Nodup)
    (answers : List (ERat × List ERat)) (hsh : Shape C.nbrs C.nodes answers) :
    answers = funAnswers C (durOf C answers) (delayOf C answers) := by
  obtain ⟨h1, h2⟩ := forall2_lk C.nbrs C.nodes answers hsh hnd
  have h3 := map_lk (none, []) C.nodes answers hnd h1
  unfold funAnswers
  conv_lhs => rw [← h3]
  apply List.map_congr_left
  intro u hu
  unfold durOf delayOf
  rw [map_lk none (C.nbrs u) _ (hnb u hu) (h2 u hu).symm]

/-! ### the attributes do not influence nodes and edges (`weights=True` vs `weights=False`) -/

/-- insertion of a key into an insertion-ordered key list -/
def kIns {κ : Type} [DecidableEq κ] (l : List κ) (k : κ) : List κ := if k ∈ l then l else l ++ [k]

/-- node list and edge-key list -/
def keysOf (H : DiG) : List Node × List (Node × Node) := (H.nodeList, ekeys H)

def kRow (K : List Node × List (Node × Node)) (u : Node) (vs : List Node) : List Node × List (Node × Node) :=
  vs.foldl (fun K v => (kIns (kIns K.1 u) v, kIns K.2 (u, v))) (kIns K.1 u, K.2)

theorem keysOf_addNode (H : DiG) (u : Node) (a : Option ERat) : keysOf (H.addNode u a) = (kIns (keysOf H).1 u, (keysOf H).2) := by
  unfold keysOf ekeys DiG.nodeList kIns
  rw [N_nodes, N_edges, keys_alIns]

theorem keysOf_addEdge (H : DiG) (u v : Node) (a : Option ERat) :
    keysOf (H.addEdge u v a) = (kIns (kIns (keysOf H).1 u) v, kIns (keysOf H).2 (u, v)) := by
  unfold keysOf ekeys DiG.nodeList kIns
  rw [A_nodes, A_edges, keys_alIns, keys_alIns, keys_alIns]

theorem keysOf_addEdges (u : Node) (es : List (Node × Option ERat)) : ∀ (G : DiG),
    keysOf (addEdges u es G) = (es.map (·.1)).foldl (fun K v => (kIns (kIns K.1 u) v, kIns K.2 (u, v))) (keysOf G) := by
  induction es with
  | nil => intro G; rfl
  | cons e t ih => intro G; rw [addEdges_cons, ih, keysOf_addEdge]; rfl

theorem keysOf_addRow (H : DiG) (u : Node) (na : Option ERat) (es : List (Node × Option ERat)) :
    keysOf (addRow H u na es) = kRow (keysOf H) u (es.map (·.1)) := by
  rw [addRow_eq, keysOf_addEdges, keysOf_addNode]; rfl

/-- the key skeleton of a row -/
def skel (r : Row) : Node × List Node := (r.1, r.2.2.map (·.1))

theorem keysOf_buildRows (rows : List Row) :
    keysOf (buildRows rows) = (rows.map skel).foldl (fun K r => kRow K r.1 r.2) ([], []) := by
  induction rows using List.reverseRecOn with
  | nil => rfl
  | append_singleton rows r ih =>
    rw [buildRows_snoc, keysOf_addRow, ih, List.map_append, List.foldl_append]; rfl

theorem rowsOf_skel (w : Bool) (C : Contact) (answers : List (ERat × List ERat)) :
    (rowsOf w C answers).map skel = (rowsOf false C answers).map skel := by
  unfold rowsOf
  rw [List.map_map, List.map_map]
  apply List.map_congr_left
  intro p _
  simp [skel, kept, List.map_map, Function.comp_def]

/-- **both `weights` branches give the same node list and the same edge list (keys, in order)** -/
theorem buildL_keys (C : Contact) (answers : List (ERat × List ERat)) :
    (buildL true C answers).nodeList = (buildL false C answers).nodeList ∧
      ekeys (buildL true C answers) = ekeys (buildL false C answers) := by
  have h : keysOf (buildL true C answers) = keysOf (buildL false C answers) := by
    rw [buildL_eq, buildL_eq, keysOf_buildRows, keysOf_buildRows, rowsOf_skel true]
  exact ⟨congrArg Prod.fst h, congrArg Prod.snd h⟩

/-- with `weights=False` nothing is stored -/
theorem buildL_false_attrs (C : Contact) (answers : List (ERat × List ERat)) :
    (∀ p ∈ (buildL false C answers).nodes, p.2 = none) ∧ (∀ e ∈ (buildL false C answers).edges, e.2 = none) := by
  rw [buildL_eq]
  have hs := buildRows_spec (rowsOf false C answers)
  have hrow : ∀ r ∈ rowsOf false C answers, r.2.1 = none ∧ ∀ q ∈ r.2.2, q.2 = none := by
    intro r hr
    unfold rowsOf at hr
    obtain ⟨p, _, rfl⟩ := List.mem_map.1 hr
    refine ⟨rfl, fun q hq => ?_⟩
    unfold kept at hq
    obtain ⟨x, _, rfl⟩ := List.mem_map.1 hq
    rfl
  constructor
  · intro p hp
    rcases hs.node_attr p hp with h | ⟨r, hr, _, h2⟩
    · exact h
    · rw [← h2]; exact (hrow r hr).1
  · intro e he
    obtain ⟨r, hr, _, h2⟩ := hs.edge_attr e he
    exact (hrow r hr).2 _ h2

/-! ### a long enough script splits into answers -/

theorem exists_answers (nbrs : Node → List Node) : ∀ (l : List Node) (vals : List ERat),
    (callsOn nbrs l).length ≤ vals.length →
    ∃ answers rest, Shape nbrs l answers ∧ vals = flatAns answers ++ rest := by
  intro l
  induction l with
  | nil => intro vals _; exact ⟨[], vals, List.Forall₂.nil, rfl⟩
  | cons u l ih =>
    intro vals hlen
    have hc : (callsOn nbrs (u :: l)).length = 1 + (nbrs u).length + (callsOn nbrs l).length := by
      simp [callsOn]; omega
    cases vals with
    | nil => rw [hc] at hlen; simp at hlen
    | cons d vs =>
      rw [hc] at hlen
      simp only [List.length_cons] at hlen
      obtain ⟨answers, rest, hsh, hv⟩ := ih (vs.drop (nbrs u).length) (by rw [List.length_drop]; omega)
      refine ⟨(d, vs.take (nbrs u).length) :: answers, rest, List.Forall₂.cons ?_ hsh, ?_⟩
      · simp only [List.length_take]; omega
      · simp only [flatAns, List.flatMap_cons, List.cons_append, List.append_assoc]
        unfold flatAns at hv
        rw [← hv, List.take_append_drop]

/-! ### the admissible answers depend on the digraph only through its node set and its reachability relation -/

theorem filter_length_perm {l1 l2 : List Node} (hp : l1.Perm l2) (p1 p2 : Node → Bool) (h : ∀ x ∈ l2, p1 x = p2 x) :
    (l1.filter p1).length = (l2.filter p2).length := by
  rw [(hp.filter p1).length_eq, List.filter_congr h]

theorem foldl_max_eq_of_forall (l1 l2 : List Nat) (h : ∀ x, x ∈ l1 ↔ x ∈ l2) : l1.foldl max 0 = l2.foldl max 0 := by
  apply Nat.le_antisymm
  · rcases foldl_max_mem l1 0 with h1 | h1
    · rw [h1]; exact Nat.zero_le _
    · exact (foldl_max_le l2 0).2 _ ((h _).1 h1)
  · rcases foldl_max_mem l2 0 with h1 | h1
    · rw [h1]; exact Nat.zero_le _
    · exact (foldl_max_le l1 0).2 _ ((h _).2 h1)

theorem allowed_perm {n1 n2 : List Node} {s1 s2 : Node → List Node} (hp : n1.Perm n2)
    (hr : ∀ u v, Perc.reach n1 s1 u v = Perc.reach n2 s2 u v) (p : Rat × Rat) :
    p ∈ Perc.allowed n1 s1 → p ∈ Perc.allowed n2 s2 := by
  have hin : ∀ u, (Perc.inC n1 s1 u).length = (Perc.inC n2 s2 u).length := fun u =>
    filter_length_perm hp _ _ (fun x _ => hr x u)
  have hout : ∀ u, (Perc.outC n1 s1 u).length = (Perc.outC n2 s2 u).length := fun u =>
    filter_length_perm hp _ _ (fun x _ => hr u x)
  have hscc : ∀ u, (Perc.scc n1 s1 u).length = (Perc.scc n2 s2 u).length := fun u =>
    filter_length_perm hp _ _ (fun x _ => by rw [hr u x, hr x u])
  have hmax : Perc.maxSccSize n1 s1 = Perc.maxSccSize n2 s2 := by
    unfold Perc.maxSccSize
    apply foldl_max_eq_of_forall
    intro x
    simp only [List.mem_map]
    constructor
    · rintro ⟨u, hu, rfl⟩; exact ⟨u, hp.mem_iff.1 hu, (hscc u).symm⟩
    · rintro ⟨u, hu, rfl⟩; exact ⟨u, hp.mem_iff.2 hu, hscc u⟩
  unfold Perc.allowed
  simp only [List.mem_map, List.mem_filter, decide_eq_true_eq]
  rintro ⟨u, ⟨hu, hm⟩, rfl⟩
  refine ⟨u, ⟨hp.mem_iff.1 hu, by rw [← hscc, hm, hmax]⟩, ?_⟩
  rw [hin, hout, hp.length_eq]

theorem RuleGraph.allowed {C : Contact} (hC : CWF C) {rule : Node → Node → Bool} {na : Node → Option ERat}
    {ea : Node → Node → Option ERat} {H : DiG} (h : RuleGraph C rule na ea H) (p : Rat × Rat)
    (hp : p ∈ Perc.allowed H.nodeList H.succ) : p ∈ Perc.allowed C.nodes (Perc.percolate C.nbrs rule) :=
  allowed_perm h.perm (fun u v => by rw [Bool.eq_iff_iff]; exact h.reach_iff hC u v) p hp

/-! ### builder, then estimator -/

theorem est_after {b : PM DiG} {X : NX} {s s' : PSt} {ts ts' : TapeSt} {H : DiG}
    (hb : b s ts = .ok ((H, s'), ts')) (hX : NXSpecAt X H) (hnd : H.nodeList.Nodup) (hne : H.nodes ≠ []) :
    ∃ p, (b >>= fun H => GenPerc.estimate_from_dir_perc X H) s ts = .ok ((p, s'), ts') ∧
      p ∈ Perc.allowed H.nodeList H.succ := by
  obtain ⟨u, hu, hmax, he⟩ := estE_ok X H hX hnd hne
  refine ⟨_, by rw [pm_bind_ok hb, estimate_eq, he]; rfl, ?_⟩
  unfold Perc.allowed
  exact List.mem_map.2 ⟨u, List.mem_filter.2 ⟨hu, by simpa using hmax⟩, rfl⟩

theorem est_after_empty {b : PM DiG} {X : NX} {s s' : PSt} {ts ts' : TapeSt} {H : DiG}
    (hb : b s ts = .ok ((H, s'), ts')) (hX : NXSpecAt X H) (he : H.nodes = []) :
    (b >>= fun H => GenPerc.estimate_from_dir_perc X H) s ts = .error "ValueError" := by
  rw [pm_bind_ok hb, estimate_eq, estE_empty X H hX he]; rfl

theorem estimate_with_timing_eq (X : NX) (C : Contact) (tt : Node → Node → PM ERat) (rt : Node → PM ERat) :
    GenPerc.estimate_with_timing X C tt rt =
      GenPerc.with_timing X C tt rt true >>= fun H => GenPerc.estimate_from_dir_perc X H := by
  unfold GenPerc.estimate_with_timing; simp only [bind_pure]

theorem estimate_xi_zeta_eq (X : NX) (C : Contact) (xi zeta : Node → Rat) (tr : Rat → Rat → Bool) :
    GenPerc.estimate_xi_zeta X C xi zeta tr =
      GenPerc.xi_zeta_network X C xi zeta tr >>= fun H => GenPerc.estimate_from_dir_perc X H := by
  unfold GenPerc.estimate_xi_zeta; simp only [bind_pure]

theorem estimate_directed_eq (X : NX) (C : Contact) (tau gamma : Rat) :
    GenPerc.estimate_directed_SIR_prob_size X C tau gamma =
      GenPerc.directed_percolate_network X C tau gamma true >>= fun H => GenPerc.estimate_from_dir_perc X H := by
  unfold GenPerc.estimate_directed_SIR_prob_size; simp only [bind_pure]

theorem RuleGraph.nodes_ne {C : Contact} {rule : Node → Node → Bool} {na : Node → Option ERat}
    {ea : Node → Node → Option ERat} {H : DiG} (h : RuleGraph C rule na ea H) (hne : C.nodes ≠ []) : H.nodes ≠ [] := by
  intro h0
  have := h.perm.length_eq
  unfold DiG.nodeList at this
  rw [h0] at this
  exact hne (List.length_eq_zero_iff.1 this.symm)

theorem RuleGraph.nodes_nil {C : Contact} {rule : Node → Node → Bool} {na : Node → Option ERat}
    {ea : Node → Node → Option ERat} {H : DiG} (h : RuleGraph C rule na ea H) (hne : C.nodes = []) : H.nodes = [] := by
  have := h.perm.length_eq
  unfold DiG.nodeList at this
  rw [hne, List.length_map] at this
  exact List.length_eq_zero_iff.1 this

/-! ### more on the positional construction -/

/-- the specification on every well-formed digraph -/
def NXSpec (X : NX) : Prop := ∀ H, HWF H → NXSpecAt X H

theorem mkNX_spec' : NXSpec (mkNX none) := fun H h => mkNX_spec H h

theorem pm_bind_inv {α β : Type} {x : PM α} {f : α → PM β} {s : PSt} {ts : TapeSt} {r : (β × PSt) × TapeSt}
    (h : (x >>= f) s ts = .ok r) : ∃ a s1 ts1, x s ts = .ok ((a, s1), ts1) ∧ f a s1 ts1 = .ok r := by
  cases hx : x s ts with
  | error e => rw [pm_bind_err hx] at h; cases h
  | ok q =>
    obtain ⟨⟨a, s1⟩, ts1⟩ := q
    rw [pm_bind_ok hx] at h
    exact ⟨a, s1, ts1, rfl, h⟩

theorem buildL_hwf (w : Bool) (C : Contact) (answers : List (ERat × List ERat)) : HWF (buildL w C answers) := by
  rw [buildL_eq]; exact buildRows_hwf _

theorem zip_keys {β : Type} : ∀ (l : List Node) (bs : List β), l.length = bs.length → (l.zip bs).map (·.1) = l := by
  intro l
  induction l with
  | nil => intro bs _; rfl
  | cons x xs ih =>
    intro bs hl
    cases bs with
    | nil => simp at hl
    | cons b bs => simp only [List.zip_cons_cons, List.map_cons, ih bs (by simpa using hl)]

theorem Shape.length {nbrs : Node → List Node} {l : List Node} {answers : List (ERat × List ERat)}
    (h : Shape nbrs l answers) : l.length = answers.length := List.Forall₂.length_eq h

theorem rowsOf_keys (w : Bool) (C : Contact) (answers : List (ERat × List ERat)) (hsh : Shape C.nbrs C.nodes answers) :
    (rowsOf w C answers).map (·.1) = C.nodes := by
  unfold rowsOf
  rw [List.map_map]
  exact zip_keys C.nodes answers hsh.length

/-- every contact-graph node is a node of the built digraph -/
theorem buildL_mem (w : Bool) (C : Contact) (answers : List (ERat × List ERat)) (hsh : Shape C.nbrs C.nodes answers)
    (u : Node) (hu : u ∈ C.nodes) : u ∈ (buildL w C answers).nodeList := by
  rw [buildL_eq, (buildRows_spec _).mem_node, rowsOf_keys w C answers hsh]
  exact Or.inl hu

theorem buildL_nodes_ne (w : Bool) (C : Contact) (answers : List (ERat × List ERat))
    (hsh : Shape C.nbrs C.nodes answers) (hne : C.nodes ≠ []) : (buildL w C answers).nodes ≠ [] := by
  cases hn : C.nodes with
  | nil => exact absurd hn hne
  | cons u t =>
    have := buildL_mem w C answers hsh u (by rw [hn]; exact List.mem_cons_self ..)
    intro h0
    unfold DiG.nodeList at this
    rw [h0] at this; cases this

/-- positional answers on a simple contact graph: the rule graph of the looked-up durations and delays -/
theorem buildL_ruleGraph (C : Contact) (hC : CWF C) (hnb : ∀ u ∈ C.nodes, (C.nbrs u).Nodup) (w : Bool)
    (answers : List (ERat × List ERat)) (hsh : Shape C.nbrs C.nodes answers) :
    RuleGraph C (fun u v => ERat.le (delayOf C answers u v) (durOf C answers u))
      (fun u => attr w (durOf C answers u)) (fun u v => attr w (delayOf C answers u v)) (buildL w C answers) := by
  have h : buildL w C answers = buildRows (ruleRows C (fun u v => ERat.le (delayOf C answers u v) (durOf C answers u))
      (fun u => attr w (durOf C answers u)) (fun u v => attr w (delayOf C answers u v))) := by
    rw [← rowsOf_fun, ← buildL_eq, ← answers_eq_fun C hC.nodup hnb answers hsh]
  rw [h]
  exact ruleGraph C hC _ _ _

/-- the looked-up values are among the answers -/
theorem durOf_mem (C : Contact) (answers : List (ERat × List ERat)) (hsh : Shape C.nbrs C.nodes answers)
    (u : Node) (hu : u ∈ C.nodes) : ∃ a ∈ answers, durOf C answers u = a.1 :=
  ⟨_, lk_mem (none, []) C.nodes answers u hu hsh.length, rfl⟩

theorem delayOf_mem (C : Contact) (hnd : C.nodes.Nodup) (answers : List (ERat × List ERat))
    (hsh : Shape C.nbrs C.nodes answers) (u : Node) (hu : u ∈ C.nodes) (v : Node) (hv : v ∈ C.nbrs u) :
    ∃ a ∈ answers, delayOf C answers u v ∈ a.2 := by
  obtain ⟨_, h2⟩ := forall2_lk C.nbrs C.nodes answers hsh hnd
  exact ⟨_, lk_mem (none, []) C.nodes answers u hu hsh.length, lk_mem none (C.nbrs u) _ v hv (h2 u hu).symm⟩

/-! ### one answer per call -/

theorem flatAns_length (nbrs : Node → List Node) (l : List Node) (answers : List (ERat × List ERat))
    (hsh : Shape nbrs l answers) : (flatAns answers).length = (callsOn nbrs l).length := by
  induction hsh with
  | nil => rfl
  | @cons u a l as ha _ ih =>
    simp only [flatAns, callsOn, List.flatMap_cons, List.length_append, List.length_cons, List.length_map] at ih ⊢
    rw [ih, ha]

/-! ### estimator after a rule-graph builder; tapes of positive rates -/

theorem CWF.wf_percolate {C : Contact} (hC : CWF C) (rule : Node → Node → Bool) :
    Perc.WF C.nodes (Perc.percolate C.nbrs rule) :=
  ⟨hC.nodup, fun x hx y hy => hC.nbrs_mem x hx y (List.mem_filter.1 hy).1⟩

theorem est_rule {b : PM DiG} {X : NX} (hX : NXSpec X) {C : Contact} (hC : CWF C) (hne : C.nodes ≠ [])
    {rule : Node → Node → Bool} {na : Node → Option ERat} {ea : Node → Node → Option ERat}
    {s s' : PSt} {ts ts' : TapeSt} {H : DiG} (hb : b s ts = .ok ((H, s'), ts')) (hg : RuleGraph C rule na ea H) :
    ∃ p, (b >>= fun H => GenPerc.estimate_from_dir_perc X H) s ts = .ok ((p, s'), ts') ∧
      p ∈ Perc.allowed C.nodes (Perc.percolate C.nbrs rule) := by
  obtain ⟨p, hp, hal⟩ := est_after hb (hX H hg.hwf) hg.hwf.nodup (hg.nodes_ne hne)
  exact ⟨p, hp, hg.allowed hC p hal⟩

theorem est_rule_empty {b : PM DiG} {X : NX} (hX : NXSpec X) {C : Contact} (hne : C.nodes = [])
    {rule : Node → Node → Bool} {na : Node → Option ERat} {ea : Node → Node → Option ERat}
    {s s' : PSt} {ts ts' : TapeSt} {H : DiG} (hb : b s ts = .ok ((H, s'), ts')) (hg : RuleGraph C rule na ea H) :
    (b >>= fun H => GenPerc.estimate_from_dir_perc X H) s ts = .error "ValueError" :=
  est_after_empty hb (hX H hg.hwf) (hg.nodes_nil hne)

/-- the answers for drawn values (both rates positive) -/
def drawnAns (drawn : List (Rat × List Rat)) : List (ERat × List ERat) := drawn.map fun a => (some a.1, a.2.map some)

theorem tapeOf_drawn (drawn : List (Rat × List Rat)) :
    tapeOf (drawnAns drawn) = drawn.flatMap (fun a => Draw.expo a.1 :: a.2.map Draw.expo) := by
  unfold tapeOf drawnAns
  rw [List.flatMap_map]
  congr 1
  funext a
  simp only [drawOf, List.singleton_append, List.flatMap_map]
  congr 1
  induction a.2 with
  | nil => rfl
  | cons x xs ih => simp [List.flatMap_cons, ih]

theorem traceOf_drawn (tau gamma : Rat) (drawn : List (Rat × List Rat)) :
    traceOf tau gamma (drawnAns drawn) = drawn.flatMap (fun a => Call.expo gamma :: a.2.map (fun _ => Call.expo tau)) := by
  unfold traceOf drawnAns
  rw [List.flatMap_map]
  congr 1
  funext a
  simp only [callOf, List.singleton_append, List.flatMap_map]
  congr 1
  induction a.2 with
  | nil => rfl
  | cons x xs ih => simp [List.flatMap_cons, ih]

theorem okAns_some {rate : Rat} (h : 0 < rate) (d : Rat) : OkAns rate (some d) :=
  ⟨fun _ => rfl, fun h' => absurd h h'⟩

theorem okAns_none {rate : Rat} (h : ¬ 0 < rate) : OkAns rate none := ⟨fun h' => absurd h' h, fun _ => rfl⟩

theorem drawn_ok {tau gamma : Rat} (ht : 0 < tau) (hg : 0 < gamma) (drawn : List (Rat × List Rat)) :
    ∀ a ∈ drawnAns drawn, OkAns gamma a.1 ∧ ∀ t ∈ a.2, OkAns tau t := by
  intro a ha
  obtain ⟨x, _, rfl⟩ := List.mem_map.1 ha
  refine ⟨okAns_some hg _, fun t ht' => ?_⟩
  obtain ⟨y, _, rfl⟩ := List.mem_map.1 ht'
  exact okAns_some ht _

theorem drawn_shape (nbrs : Node → List Node) (l : List Node) (drawn : List (Rat × List Rat))
    (h : List.Forall₂ (fun u a => a.2.length = (nbrs u).length) l drawn) : Shape nbrs l (drawnAns drawn) := by
  unfold Shape drawnAns
  induction h with
  | nil => exact List.Forall₂.nil
  | cons ha _ ih => exact List.Forall₂.cons (by simpa using ha) ih

/-! ### `estimate_SIR_prob_size`: bond percolation, largest connected component -/

/-- neighbours in the undirected graph with the given edge list -/
def usucc (edges : List (Node × Node)) (u : Node) : List Node :=
  edges.filterMap fun e => if e.1 = u then some e.2 else if e.2 = u then some e.1 else none

/-- the assumed meaning of `nx.connected_components` on the Graph with these nodes and edges: every yielded component is a
duplicate-free listing of the nodes reachable from each of its members, and every node is in a yielded component -/
structure CCSpec (X : NX) (nodes : List Node) (edges : List (Node × Node)) : Prop where
  cc_mem : ∀ c ∈ X.ccs nodes edges, c ≠ [] ∧ c.Nodup ∧
    ∀ u ∈ c, u ∈ nodes ∧ ∀ v, v ∈ c ↔ Perc.reach nodes (usucc edges) u v = true
  cc_cover : ∀ u ∈ nodes, ∃ c ∈ X.ccs nodes edges, u ∈ c

/-- size of the largest connected component -/
def maxCC (nodes : List Node) (edges : List (Node × Node)) : Nat :=
  (nodes.map fun u => (Perc.outC nodes (usucc edges) u).length).foldl max 0

theorem maxLen_fold (xs : List (List Node)) : ∀ (a : Nat),
    xs.foldl (fun best y => max best y.length) a = (xs.map List.length).foldl max a := by
  induction xs with
  | nil => intro a; rfl
  | cons x t ih => intro a; simp only [List.foldl_cons, List.map_cons, ih]

theorem maxLen_ok (l : List (List Node)) (hl : l ≠ []) : maxLen l = .ok (((l.map List.length).foldl max 0 : Nat) : Int) := by
  cases l with
  | nil => exact absurd rfl hl
  | cons x xs =>
    unfold maxLen
    simp only [maxLen_fold, List.map_cons, List.foldl_cons, Nat.zero_max]
    rfl

theorem ccs_max (X : NX) (nodes : List Node) (edges : List (Node × Node)) (hX : CCSpec X nodes edges) (hnd : nodes.Nodup) :
    ((X.ccs nodes edges).map List.length).foldl max 0 = maxCC nodes edges := by
  have hlen : ∀ c ∈ X.ccs nodes edges, ∀ x ∈ c, (Perc.outC nodes (usucc edges) x).length = c.length := by
    intro c hc x hx
    obtain ⟨_, hcn, hc'⟩ := hX.cc_mem c hc
    refine (length_eq_of_mem_iff hcn (by unfold Perc.outC; exact hnd.filter _) (fun v => ?_)).symm
    rw [(hc' x hx).2, Perc.mem_outC]
    exact ⟨fun h => ⟨reach_mem h, h⟩, fun h => h.2⟩
  unfold maxCC
  apply Nat.le_antisymm
  · rcases foldl_max_mem ((X.ccs nodes edges).map List.length) 0 with h | h
    · rw [h]; exact Nat.zero_le _
    · obtain ⟨c, hc, hce⟩ := List.mem_map.1 h
      obtain ⟨hne, _, hc'⟩ := hX.cc_mem c hc
      cases c with
      | nil => exact absurd rfl hne
      | cons x t =>
        have hx : x ∈ x :: t := List.mem_cons_self ..
        rw [← hce, ← hlen _ hc x hx]
        exact (foldl_max_le _ 0).2 _ (List.mem_map.2 ⟨x, (hc' x hx).1, rfl⟩)
  · rcases foldl_max_mem (nodes.map fun u => (Perc.outC nodes (usucc edges) u).length) 0 with h | h
    · rw [h]; exact Nat.zero_le _
    · obtain ⟨x, hx, hxe⟩ := List.mem_map.1 h
      obtain ⟨c, hc, hxc⟩ := hX.cc_cover x hx
      rw [← hxe, hlen c hc x hxc]
      exact (foldl_max_le _ 0).2 _ (List.mem_map.2 ⟨c, hc, rfl⟩)

theorem ccs_nil (X : NX) (edges : List (Node × Node)) (hX : CCSpec X [] edges) : X.ccs [] edges = [] := by
  apply List.eq_nil_iff_forall_not_mem.2
  intro c hc
  obtain ⟨hne, _, hc'⟩ := hX.cc_mem c hc
  cases c with
  | nil => exact hne rfl
  | cons x t => exact absurd (hc' x (List.mem_cons_self ..)).1 (by simp)

theorem fdiv_ok (a b : Rat) (h : b ≠ 0) : PyTM.fdiv a b = .ok (a / b) := by
  unfold PyTM.fdiv; rw [if_neg h]; rfl

/-- `percolate_network` inside `PM`, with the explicit trace -/
theorem percolate_trace (p : Rat) (d : DSt) (rest : List Draw) :
    ∀ (edges : List (Node × Node)) (rs : List Rat) (H : List (Node × Node)) (tr : Array Call),
      rs.length = edges.length →
      edges.foldlM (GenDiscrete.percBody p) H d ⟨rs.map Draw.unif ++ rest, tr⟩ =
        .ok ((H ++ GenDiscrete.keptBy p edges rs, d), ⟨rest, tr ++ List.replicate edges.length Call.unif⟩) := by
  intro edges
  induction edges with
  | nil =>
    intro rs H tr hl
    cases rs with
    | nil => simp [GenDiscrete.keptBy]; rfl
    | cons r rs => simp at hl
  | cons e es ih =>
    intro rs H tr hl
    cases rs with
    | nil => simp at hl
    | cons r rs =>
      have hl' : rs.length = es.length := by simpa using hl
      rw [List.foldlM_cons]
      have hev : (PyDM.liftT TM.popUnif : DM Rat) d ⟨(r :: rs).map Draw.unif ++ rest, tr⟩ =
          .ok ((r, d), ⟨rs.map Draw.unif ++ rest, tr.push Call.unif⟩) := rfl
      rw [show GenDiscrete.percBody p H e = (do
        let r ← PyDM.liftT TM.popUnif
        if decide (r < p) then pure (H ++ [e]) else pure H) from rfl]
      rw [bind_assoc, GenDiscrete.dm_bind_ok hev]
      rcases Bool.eq_false_or_eq_true (decide (r < p)) with hb | hb
      · simp only [hb, if_true, pure_bind, GenDiscrete.keptBy]
        rw [ih rs (H ++ [e]) (tr.push Call.unif) hl', arr_push_app, List.append_assoc]
        rfl
      · simp only [hb, Bool.false_eq_true, if_false, pure_bind, GenDiscrete.keptBy]
        rw [ih rs H (tr.push Call.unif) hl', arr_push_app]
        rfl

theorem liftDM_percolate (edges : List (Node × Node)) (p : Rat) (rs : List Rat) (hl : rs.length = edges.length)
    (s : PSt) (rest : List Draw) (tr : Array Call) :
    (PyPM.liftDM (GenDisc.percolate_network edges p) : PM (List (Node × Node))) s ⟨rs.map Draw.unif ++ rest, tr⟩ =
      .ok ((GenDiscrete.keptBy p edges rs, s), ⟨rest, tr ++ List.replicate edges.length Call.unif⟩) := by
  have h := percolate_trace p { answers := [] } rest edges rs [] tr hl
  rw [← GenDiscrete.percolate_eq, List.nil_append] at h
  unfold PyPM.liftDM
  rw [GenDiscrete.tm_bind_ok h]; rfl

/-- **`estimate_SIR_prob_size`** on a tape with one uniform per contact edge -/
theorem estimate_SIR_run (X : NX) (C : Contact) (p : Rat) (rs : List Rat) (hl : rs.length = C.edges.length)
    (hX : CCSpec X C.nodes (GenDiscrete.keptBy p C.edges rs)) (hnd : C.nodes.Nodup) (hne : C.nodes ≠ [])
    (s : PSt) (rest : List Draw) (tr : Array Call) :
    GenPerc.estimate_SIR_prob_size X C p s ⟨rs.map Draw.unif ++ rest, tr⟩ =
      .ok ((((maxCC C.nodes (GenDiscrete.keptBy p C.edges rs) : Rat) / (C.nodes.length : Rat),
             (maxCC C.nodes (GenDiscrete.keptBy p C.edges rs) : Rat) / (C.nodes.length : Rat)), s),
        ⟨rest, tr ++ List.replicate C.edges.length Call.unif⟩) := by
  have hcne : X.ccs C.nodes (GenDiscrete.keptBy p C.edges rs) ≠ [] := by
    cases hn : C.nodes with
    | nil => exact absurd hn hne
    | cons u t =>
      obtain ⟨c, hc, _⟩ := hX.cc_cover u (by rw [hn]; exact List.mem_cons_self ..)
      rw [← hn]; exact List.ne_nil_of_mem hc
  have hN0 : ((C.nodes.length : Nat) : Rat) ≠ 0 := by
    have : C.nodes.length ≠ 0 := fun h => hne (List.length_eq_zero_iff.1 h)
    exact_mod_cast this
  unfold GenPerc.estimate_SIR_prob_size
  rw [pm_bind_ok (liftDM_percolate C.edges p rs hl s rest tr), maxLen_ok _ hcne, ccs_max X _ _ hX hnd]
  have hord : ((C.order : Int) : Rat) = (C.nodes.length : Rat) := by unfold Contact.order; simp
  simp only [liftE_ok, pure_bind]
  rw [fdiv_ok _ _ (by rw [hord]; exact hN0)]
  simp only [liftE_ok, pure_bind]
  rw [pure_run, hord]
  simp

theorem estimate_SIR_empty (X : NX) (C : Contact) (p : Rat) (rs : List Rat) (hl : rs.length = C.edges.length)
    (hX : CCSpec X C.nodes (GenDiscrete.keptBy p C.edges rs)) (hne : C.nodes = [])
    (s : PSt) (rest : List Draw) (tr : Array Call) :
    GenPerc.estimate_SIR_prob_size X C p s ⟨rs.map Draw.unif ++ rest, tr⟩ = .error "ValueError" := by
  unfold GenPerc.estimate_SIR_prob_size
  rw [pm_bind_ok (liftDM_percolate C.edges p rs hl s rest tr)]
  rw [hne] at hX
  rw [hne, ccs_nil X _ hX]
  rfl

/-! ### the driver's `connected_components` meets `CCSpec` -/

theorem mem_usucc (edges : List (Node × Node)) (u v : Node) :
    v ∈ usucc edges u ↔ ∃ e ∈ edges, (e.1 = u ∧ e.2 = v) ∨ (e.2 = u ∧ e.1 = v) := by
  unfold usucc
  rw [List.mem_filterMap]
  constructor
  · rintro ⟨e, he, h⟩
    refine ⟨e, he, ?_⟩
    by_cases h1 : e.1 = u
    · rw [if_pos h1] at h; exact Or.inl ⟨h1, Option.some.inj h⟩
    · rw [if_neg h1] at h
      by_cases h2 : e.2 = u
      · rw [if_pos h2] at h; exact Or.inr ⟨h2, Option.some.inj h⟩
      · rw [if_neg h2] at h; cases h
  · rintro ⟨e, he, h | h⟩
    · exact ⟨e, he, by rw [if_pos h.1, h.2]⟩
    · refine ⟨e, he, ?_⟩
      by_cases h1 : e.1 = u
      · rw [if_pos h1]
        have : e.2 = v := by rw [h.1, ← h1, h.2]
        rw [this]
      · rw [if_neg h1, if_pos h.1, h.2]

theorem usucc_symm (edges : List (Node × Node)) (u v : Node) (h : v ∈ usucc edges u) : u ∈ usucc edges v := by
  rw [mem_usucc] at h ⊢
  obtain ⟨e, he, h | h⟩ := h
  · exact ⟨e, he, Or.inr ⟨h.2, h.1⟩⟩
  · exact ⟨e, he, Or.inl ⟨h.2, h.1⟩⟩

theorem usucc_wf (nodes : List Node) (edges : List (Node × Node)) (hnd : nodes.Nodup)
    (he : ∀ e ∈ edges, e.1 ∈ nodes ∧ e.2 ∈ nodes) : Perc.WF nodes (usucc edges) := by
  refine ⟨hnd, fun u _ v hv => ?_⟩
  obtain ⟨e, hee, h | h⟩ := (mem_usucc edges u v).1 hv
  · rw [← h.2]; exact (he e hee).2
  · rw [← h.2]; exact (he e hee).1

/-- the driver's component loop -/
def ccStep (comp : Node → List Node) (acc : List (List Node)) (u : Node) : List (List Node) :=
  if acc.any (·.contains u) then acc else acc ++ [comp u]

theorem ccFold_spec (comp : Node → List Node) (l : List Node) (hl : ∀ u ∈ l, u ∈ comp u) :
    ∀ (acc : List (List Node)),
      (∀ c ∈ l.foldl (ccStep comp) acc, c ∈ acc ∨ ∃ u ∈ l, c = comp u) ∧
      (∀ c ∈ acc, c ∈ l.foldl (ccStep comp) acc) ∧
      (∀ u ∈ l, ∃ c ∈ l.foldl (ccStep comp) acc, u ∈ c) := by
  induction l with
  | nil => intro acc; simp
  | cons a t ih =>
    intro acc
    obtain ⟨h1, h2, h3⟩ := ih (fun u hu => hl u (List.mem_cons_of_mem _ hu)) (ccStep comp acc a)
    have hsub : ∀ c ∈ acc, c ∈ ccStep comp acc a := by
      intro c hc; unfold ccStep; split
      · exact hc
      · exact List.mem_append_left _ hc
    rw [List.foldl_cons]
    refine ⟨fun c hc => ?_, fun c hc => h2 c (hsub c hc), fun u hu => ?_⟩
    · rcases h1 c hc with h | ⟨u, hu, h⟩
      · unfold ccStep at h
        split at h
        · exact Or.inl h
        · rcases List.mem_append.1 h with h | h
          · exact Or.inl h
          · exact Or.inr ⟨a, List.mem_cons_self .., List.mem_singleton.1 h⟩
      · exact Or.inr ⟨u, List.mem_cons_of_mem _ hu, h⟩
    · rcases List.mem_cons.1 hu with rfl | hu
      · have : ∃ c ∈ ccStep comp acc u, u ∈ c := by
          unfold ccStep
          split
          · rename_i hany
            obtain ⟨c, hc, hcu⟩ := List.any_eq_true.1 hany
            exact ⟨c, hc, List.contains_iff_mem.1 hcu⟩
          · exact ⟨_, List.mem_append_right _ (List.mem_singleton.2 rfl), hl u (List.mem_cons_self ..)⟩
        obtain ⟨c, hc, hcu⟩ := this
        exact ⟨c, h2 c hc, hcu⟩
      · exact h3 u hu

theorem mkNX_ccs_spec (sccs? : Option (List (List Node))) (nodes : List Node) (edges : List (Node × Node))
    (hnd : nodes.Nodup) (he : ∀ e ∈ edges, e.1 ∈ nodes ∧ e.2 ∈ nodes) : CCSpec (mkNX sccs?) nodes edges := by
  have hwf := usucc_wf nodes edges hnd he
  have hccs : (mkNX sccs?).ccs nodes edges =
      nodes.foldl (ccStep fun u => Perc.reachFrom nodes (usucc edges) [u]) [] := rfl
  have hmem : ∀ u v, v ∈ Perc.reachFrom nodes (usucc edges) [u] ↔ Perc.reach nodes (usucc edges) u v = true := by
    intro u v; unfold Perc.reach; rw [List.contains_iff_mem]
  have hself : ∀ u ∈ nodes, u ∈ Perc.reachFrom nodes (usucc edges) [u] := fun u hu => (hmem u u).2 (reach_self' hu)
  have hspec := ccFold_spec (fun u => Perc.reachFrom nodes (usucc edges) [u]) nodes hself []
  constructor
  · intro c hc
    rw [hccs] at hc
    rcases hspec.1 c hc with h0 | ⟨u0, hu0, rfl⟩
    · cases h0
    · refine ⟨List.ne_nil_of_mem (hself u0 hu0), ?_, fun u hu => ?_⟩
      · rw [Perc.reachFrom_eq]; exact (Perc.Ck_sublist u0 _).nodup hnd
      · have hr := (hmem u0 u).1 hu
        have hun := reach_mem hr
        have p1 := (Perc.reach_iff_path hwf hu0 u).1 hr
        have p2 := Perc.Path.symm (usucc_symm edges) p1
        refine ⟨hun, fun v => ?_⟩
        show v ∈ Perc.reachFrom nodes (usucc edges) [u0] ↔ _
        rw [hmem, Perc.reach_iff_path hwf hu0, Perc.reach_iff_path hwf hun]
        exact ⟨fun p => p2.trans p, fun p => p1.trans p⟩
  · intro u hu
    rw [hccs]
    exact hspec.2.2 u hu

/-! ### `get_infected_nodes` -/

/-- normalisation of `initial_infecteds` / `initial_recovereds` when given: a node of `G` becomes the singleton, anything
else is passed to `set()` (which raises `TypeError` for a single non-node) -/
def normSrc (C : Contact) (x : Src) : Except String (List Node) :=
  match x with
  | .inl u => if C.nodes.contains u then .ok [u] else .error "TypeError"
  | .inr l => .ok (PyDM.setOf l)

/-- removal of the recovered nodes from the percolated digraph -/
def removeLoop (X : NX) (recs : List Node) (H : DiG) : PM DiG :=
  (X.iter recs).foldlM (fun acc node => PyPM.liftE (acc.removeNode node)) H

/-- everything after the normalisation -/
def infectedBody (X : NX) (C : Contact) (tau gamma : Rat) (infs recs : List Node) : PM (List Node) :=
  if (!(inter infs recs).isEmpty) then err "EoNError" else do
    let H ← GenPerc.directed_percolate_network X C tau gamma true
    let H ← removeLoop X recs H
    GenPerc.out_component X H (Sum.inr infs)

theorem norm_eq (C : Contact) (x : Src) :
    (if C.hasNodeS x = true then do
        let s ← PyPM.liftE (singletonS x)
        pure (PyDM.setOf s)
      else do
        let s ← PyPM.liftE (setOfS x)
        pure s : PM (List Node)) = PyPM.liftE (normSrc C x) := by
  cases x with
  | inl u =>
    unfold normSrc Contact.hasNodeS
    cases h : C.nodes.contains u
    · simp only [h, Bool.false_eq_true, if_false, setOfS]; rfl
    · simp only [h, if_true, singletonS]; rfl
  | inr l => rfl

/-- **by unfolding**: both arguments given -/
theorem get_infected_some (X : NX) (C : Contact) (tau gamma : Rat) (i r : Src) :
    GenPerc.get_infected_nodes X C tau gamma (some i) (some r) = (do
      let recs ← PyPM.liftE (normSrc C r)
      let infs ← PyPM.liftE (normSrc C i)
      infectedBody X C tau gamma infs recs) := by
  unfold GenPerc.get_infected_nodes infectedBody removeLoop
  simp only [norm_eq, bind_pure, fail_eq]

theorem get_infected_some_none (X : NX) (C : Contact) (tau gamma : Rat) (i : Src) :
    GenPerc.get_infected_nodes X C tau gamma (some i) none = (do
      let infs ← PyPM.liftE (normSrc C i)
      infectedBody X C tau gamma infs []) := by
  unfold GenPerc.get_infected_nodes infectedBody removeLoop
  simp only [norm_eq, bind_pure, pure_bind, fail_eq]

theorem get_infected_none_some (X : NX) (C : Contact) (tau gamma : Rat) (r : Src) :
    GenPerc.get_infected_nodes X C tau gamma none (some r) = (do
      let recs ← PyPM.liftE (normSrc C r)
      let node ← GenPerc.get_infected_nodes.draw_node C recs 10000
      infectedBody X C tau gamma [node] recs) := by
  unfold GenPerc.get_infected_nodes infectedBody removeLoop
  simp only [norm_eq, bind_pure, pure_bind, fail_eq, bind_assoc]
  rfl

theorem get_infected_none_none (X : NX) (C : Contact) (tau gamma : Rat) :
    GenPerc.get_infected_nodes X C tau gamma none none = (do
      let node ← GenPerc.get_infected_nodes.draw_node C [] 10000
      infectedBody X C tau gamma [node] []) := by
  unfold GenPerc.get_infected_nodes infectedBody removeLoop
  simp only [norm_eq, bind_pure, pure_bind, fail_eq, bind_assoc]
  rfl

/-! ### removing the recovered nodes -/

/-- `H.remove_node(u)` for a node of `H` -/
def rm1 (H : DiG) (u : Node) : DiG :=
  { nodes := H.nodes.filter (fun p => p.1 != u), edges := H.edges.filter (fun e => e.1.1 != u && e.1.2 != u) }

def rmAll (H : DiG) (l : List Node) : DiG := l.foldl rm1 H

theorem removeNode_ok (H : DiG) (u : Node) (h : u ∈ H.nodeList) : H.removeNode u = .ok (rm1 H u) := by
  unfold DiG.removeNode
  rw [if_pos (show alHas H.nodes u = true from (hasNode_iff H u).2 h)]; rfl

theorem removeNode_err (H : DiG) (u : Node) (h : u ∉ H.nodeList) : H.removeNode u = .error "NetworkXError" := by
  unfold DiG.removeNode
  rw [if_neg (show ¬ alHas H.nodes u = true from fun h' => h ((hasNode_iff H u).1 h'))]; rfl

theorem mem_rm1_nodes (H : DiG) (u : Node) (p : Node × Option ERat) : p ∈ (rm1 H u).nodes ↔ p ∈ H.nodes ∧ p.1 ≠ u := by
  simp [rm1]

theorem mem_rm1_edges (H : DiG) (u : Node) (e : (Node × Node) × Option ERat) :
    e ∈ (rm1 H u).edges ↔ e ∈ H.edges ∧ e.1.1 ≠ u ∧ e.1.2 ≠ u := by
  simp [rm1]

theorem mem_rmAll_nodes (l : List Node) : ∀ (H : DiG) (p : Node × Option ERat),
    p ∈ (rmAll H l).nodes ↔ p ∈ H.nodes ∧ p.1 ∉ l := by
  induction l with
  | nil => intro H p; simp [rmAll]
  | cons a t ih =>
    intro H p
    have : rmAll H (a :: t) = rmAll (rm1 H a) t := rfl
    rw [this, ih, mem_rm1_nodes]
    simp only [List.mem_cons, not_or]
    tauto

theorem mem_rmAll_edges (l : List Node) : ∀ (H : DiG) (e : (Node × Node) × Option ERat),
    e ∈ (rmAll H l).edges ↔ e ∈ H.edges ∧ e.1.1 ∉ l ∧ e.1.2 ∉ l := by
  induction l with
  | nil => intro H e; simp [rmAll]
  | cons a t ih =>
    intro H e
    have : rmAll H (a :: t) = rmAll (rm1 H a) t := rfl
    rw [this, ih, mem_rm1_edges]
    simp only [List.mem_cons, not_or]
    tauto

theorem rmAll_sublist (l : List Node) : ∀ (H : DiG), (rmAll H l).nodeList.Sublist H.nodeList := by
  induction l with
  | nil => intro H; exact List.Sublist.refl _
  | cons a t ih =>
    intro H
    have : rmAll H (a :: t) = rmAll (rm1 H a) t := rfl
    rw [this]
    refine (ih (rm1 H a)).trans ?_
    unfold DiG.nodeList rm1
    exact List.Sublist.map _ List.filter_sublist

theorem mem_rmAll_nodeList (l : List Node) (H : DiG) (x : Node) :
    x ∈ (rmAll H l).nodeList ↔ x ∈ H.nodeList ∧ x ∉ l := by
  unfold DiG.nodeList
  simp only [List.mem_map]
  constructor
  · rintro ⟨p, hp, rfl⟩
    obtain ⟨h1, h2⟩ := (mem_rmAll_nodes l H p).1 hp
    exact ⟨⟨p, h1, rfl⟩, h2⟩
  · rintro ⟨⟨p, hp, rfl⟩, h2⟩
    exact ⟨p, (mem_rmAll_nodes l H p).2 ⟨hp, h2⟩, rfl⟩

theorem rmAll_hwf (l : List Node) (H : DiG) (h : HWF H) : HWF (rmAll H l) := by
  refine ⟨(rmAll_sublist l H).nodup h.nodup, fun e he => ?_⟩
  obtain ⟨h1, h2, h3⟩ := (mem_rmAll_edges l H e).1 he
  exact ⟨(mem_rmAll_nodeList l H _).2 ⟨(h.edge_mem e h1).1, h2⟩, (mem_rmAll_nodeList l H _).2 ⟨(h.edge_mem e h1).2, h3⟩⟩

theorem mem_rmAll_succ (l : List Node) (H : DiG) (u v : Node) :
    v ∈ (rmAll H l).succ u ↔ v ∈ H.succ u ∧ u ∉ l ∧ v ∉ l := by
  rw [mem_succ, mem_succ]
  simp only [List.mem_map]
  constructor
  · rintro ⟨e, he, hk⟩
    obtain ⟨h1, h2, h3⟩ := (mem_rmAll_edges l H e).1 he
    rw [hk] at h2 h3
    exact ⟨⟨e, h1, hk⟩, h2, h3⟩
  · rintro ⟨⟨e, he, hk⟩, h2, h3⟩
    refine ⟨e, (mem_rmAll_edges l H e).2 ⟨he, ?_, ?_⟩, hk⟩
    · rw [hk]; exact h2
    · rw [hk]; exact h3

theorem removeFold_ok (l : List Node) : ∀ (H : DiG), l.Nodup → (∀ u ∈ l, u ∈ H.nodeList) →
    l.foldlM (fun (acc : DiG) node => acc.removeNode node) H = .ok (rmAll H l) := by
  induction l with
  | nil => intro H _ _; rfl
  | cons a t ih =>
    intro H hnd hl
    rw [List.nodup_cons] at hnd
    rw [List.foldlM_cons, removeNode_ok H a (hl a (List.mem_cons_self ..))]
    have := ih (rm1 H a) hnd.2 (fun u hu => by
      have h1 : u ∈ (rmAll H [a]).nodeList :=
        (mem_rmAll_nodeList [a] H u).2 ⟨hl u (List.mem_cons_of_mem _ hu), by
          intro h; rw [List.mem_singleton] at h; exact hnd.1 (h ▸ hu)⟩
      exact h1)
    exact this

theorem removeFold_err (l : List Node) : ∀ (H : DiG), l.Nodup → (∃ u ∈ l, u ∉ H.nodeList) →
    l.foldlM (fun (acc : DiG) node => acc.removeNode node) H = .error "NetworkXError" := by
  induction l with
  | nil => intro H _ h; obtain ⟨u, hu, _⟩ := h; cases hu
  | cons a t ih =>
    intro H hnd hbad
    rw [List.nodup_cons] at hnd
    rw [List.foldlM_cons]
    by_cases ha : a ∈ H.nodeList
    · rw [removeNode_ok H a ha]
      obtain ⟨u, hu, hun⟩ := hbad
      rcases List.mem_cons.1 hu with rfl | hu'
      · exact absurd ha hun
      · refine ih (rm1 H a) hnd.2 ⟨u, hu', fun h => hun ?_⟩
        exact ((mem_rmAll_nodeList [a] H u).1 h).1
    · rw [removeNode_err H a ha]; rfl

theorem removeLoop_eq (X : NX) (recs : List Node) (H : DiG) :
    removeLoop X recs H = PyPM.liftE ((X.iter recs).foldlM (fun (acc : DiG) node => acc.removeNode node) H) := by
  unfold removeLoop; rw [liftE_foldlM]

/-! ### the body of `get_infected_nodes`, the default draw -/

theorem inter_isEmpty (a b : List Node) : (inter a b).isEmpty = true ↔ ∀ x ∈ a, x ∉ b := by
  unfold inter
  rw [List.isEmpty_iff, List.filter_eq_nil_iff]
  simp

theorem infectedBody_overlap (X : NX) (C : Contact) (tau gamma : Rat) (infs recs : List Node)
    (h : ∃ u ∈ infs, u ∈ recs) : infectedBody X C tau gamma infs recs = err "EoNError" := by
  unfold infectedBody
  have : (inter infs recs).isEmpty = false := by
    cases hh : (inter infs recs).isEmpty
    · rfl
    · obtain ⟨u, hu, hur⟩ := h
      exact absurd hur ((inter_isEmpty infs recs).1 hh u hu)
  rw [this]; rfl

theorem infectedBody_ok (X : NX) (hX : NXSpec X) (C : Contact) (tau gamma : Rat) (infs recs : List Node)
    (hdisj : ∀ u ∈ infs, u ∉ recs) (hrn : recs.Nodup) {s s' : PSt} {ts ts' : TapeSt} {H : DiG}
    (hb : GenPerc.directed_percolate_network X C tau gamma true s ts = .ok ((H, s'), ts')) (hH : HWF H)
    (hr : ∀ u ∈ recs, u ∈ H.nodeList) (hi : ∀ u ∈ infs, u ∈ H.nodeList) :
    ∃ r, infectedBody X C tau gamma infs recs s ts = .ok ((r, s'), ts') ∧ r.Nodup ∧
      ∀ v, v ∈ r ↔ ∃ u ∈ infs, Perc.reach (rmAll H (X.iter recs)).nodeList (rmAll H (X.iter recs)).succ u v = true := by
  have hwf' := rmAll_hwf (X.iter recs) H hH
  have hXH := hX _ hwf'
  have hperm := hXH.iter recs
  have hin : ∀ u ∈ infs, (rmAll H (X.iter recs)).hasNode u = true := by
    intro u hu
    rw [hasNode_iff, mem_rmAll_nodeList]
    exact ⟨hi u hu, fun h => hdisj u hu (hperm.mem_iff.1 h)⟩
  obtain ⟨r, hr1, hr2, hr3⟩ := outE_list X _ hXH infs hin
  refine ⟨r, ?_, hr2, hr3⟩
  unfold infectedBody
  have he : (inter infs recs).isEmpty = true := (inter_isEmpty infs recs).2 hdisj
  rw [he]
  simp only [Bool.not_true, Bool.false_eq_true, if_false]
  rw [pm_bind_ok hb, removeLoop_eq,
    removeFold_ok (X.iter recs) H (hperm.nodup_iff.2 hrn) (fun u hu => hr u (hperm.mem_iff.1 hu))]
  simp only [liftE_ok, pure_bind]
  rw [out_component_eq, hr1]; rfl

/-- a recovered node that is not in the graph: `remove_node` raises -/
theorem infectedBody_foreign_rec (X : NX) (hX : NXSpec X) (C : Contact) (tau gamma : Rat) (infs recs : List Node)
    (hdisj : ∀ u ∈ infs, u ∉ recs) (hrn : recs.Nodup) {s s' : PSt} {ts ts' : TapeSt} {H : DiG}
    (hb : GenPerc.directed_percolate_network X C tau gamma true s ts = .ok ((H, s'), ts')) (hH : HWF H)
    (hr : ∃ u ∈ recs, u ∉ H.nodeList) :
    infectedBody X C tau gamma infs recs s ts = .error "NetworkXError" := by
  have hperm := (hX _ hH).iter recs
  unfold infectedBody
  have he : (inter infs recs).isEmpty = true := (inter_isEmpty infs recs).2 hdisj
  rw [he]
  simp only [Bool.not_true, Bool.false_eq_true, if_false]
  obtain ⟨u, hu, hun⟩ := hr
  rw [pm_bind_ok hb, removeLoop_eq,
    removeFold_err (X.iter recs) H (hperm.nodup_iff.2 hrn) ⟨u, hperm.mem_iff.2 hu, hun⟩]
  rfl

/-- paths that avoid the removed nodes -/
def succAvoid (succ : Node → List Node) (recs : List Node) (x : Node) : List Node :=
  (succ x).filter fun v => !recs.contains v

theorem path_rmAll (H : DiG) (l recs : List Node) (hl : ∀ x, x ∈ l ↔ x ∈ recs) (u v : Node) (hu : u ∉ recs) :
    Perc.Path (rmAll H l).succ u v ↔ Perc.Path (succAvoid H.succ recs) u v := by
  constructor
  · intro p
    induction p with
    | refl => exact Perc.Path.refl _
    | step x y _ hy ih =>
      obtain ⟨h1, _, h3⟩ := (mem_rmAll_succ l H x y).1 hy
      refine Perc.Path.step _ x y ih ?_
      unfold succAvoid
      rw [List.mem_filter]
      exact ⟨h1, by simpa using fun h => h3 ((hl y).2 h)⟩
  · intro p
    have key : v ∉ recs ∧ Perc.Path (rmAll H l).succ u v := by
      induction p with
      | refl => exact ⟨hu, Perc.Path.refl _⟩
      | step x y _ hy ih =>
        unfold succAvoid at hy
        rw [List.mem_filter] at hy
        have hy2 : y ∉ recs := by simpa using hy.2
        refine ⟨hy2, Perc.Path.step _ x y ih.2 ?_⟩
        exact (mem_rmAll_succ l H x y).2 ⟨hy.1, fun h => ih.1 ((hl x).1 h), fun h => hy2 ((hl y).1 h)⟩
    exact key.2

theorem choiceNode_run (seq : List Node) (i : Nat) (x : Node) (hx : seq[i]? = some x) (s : PSt) (t : List Draw)
    (tr : Array Call) :
    PyPM.choiceNode seq s ⟨Draw.choice i :: t, tr⟩ = .ok ((x, s), ⟨t, tr.push (Call.choice (seq.map PyTM.encNode))⟩) := by
  have hi : i < seq.length := by
    rcases Nat.lt_or_ge i seq.length with h | h
    · exact h
    · rw [List.getElem?_eq_none h] at hx; cases hx
  have hne : (seq.map PyTM.encNode).isEmpty = false := by
    cases seq with
    | nil => simp at hi
    | cons a b => rfl
  have h1 : (PyPM.liftT (TM.popChoice (seq.map PyTM.encNode)) : PM Nat) s ⟨Draw.choice i :: t, tr⟩ =
      .ok ((i, s), ⟨t, tr.push (Call.choice (seq.map PyTM.encNode))⟩) := by
    have : TM.popChoice (seq.map PyTM.encNode) ⟨Draw.choice i :: t, tr⟩ =
        .ok (i, ⟨t, tr.push (Call.choice (seq.map PyTM.encNode))⟩) := by
      unfold TM.popChoice
      rw [hne]
      simp only [Bool.false_eq_true, if_false, List.length_map, if_pos hi]
    unfold PyPM.liftT
    rw [GenDiscrete.tm_bind_ok this]; rfl
  unfold PyPM.choiceNode
  rw [pm_bind_ok h1]
  unfold PyRT.listChoice
  rw [hx]; rfl

theorem draw_node_succ (C : Contact) (recs : List Node) (fuel : Nat) :
    GenPerc.get_infected_nodes.draw_node C recs (fuel + 1) = (do
      let c ← PyPM.choiceNode C.nodes
      if (!(recs.contains c)) then pure c else GenPerc.get_infected_nodes.draw_node C recs fuel) := by
  rw [GenPerc.get_infected_nodes.draw_node]

/-- the default initial infection: `random.choice(G.nodes())` until the node is not initially recovered -/
theorem draw_node_run (C : Contact) (recs : List Node) (j : Nat) (y : Node) (hj : C.nodes[j]? = some y) (hy : y ∉ recs)
    (s : PSt) (rest : List Draw) : ∀ (is : List Nat) (fuel : Nat) (tr : Array Call), is.length < fuel →
    (∀ i ∈ is, ∃ x ∈ recs, C.nodes[i]? = some x) →
    GenPerc.get_infected_nodes.draw_node C recs fuel s ⟨is.map Draw.choice ++ Draw.choice j :: rest, tr⟩ =
      .ok ((y, s), ⟨rest, tr ++ List.replicate (is.length + 1) (Call.choice (C.nodes.map PyTM.encNode))⟩) := by
  intro is
  induction is with
  | nil =>
    intro fuel tr hf _
    cases fuel with
    | zero => simp at hf
    | succ fuel =>
      rw [draw_node_succ, List.map_nil, List.nil_append, pm_bind_ok (choiceNode_run C.nodes j y hj s rest tr)]
      have : recs.contains y = false := by simpa using hy
      rw [this]
      simp only [Bool.not_false, if_true, pure_run]
      congr 2
  | cons i is ih =>
    intro fuel tr hf hrec
    cases fuel with
    | zero => simp at hf
    | succ fuel =>
      obtain ⟨x, hxr, hx⟩ := hrec i (List.mem_cons_self ..)
      rw [draw_node_succ, List.map_cons, List.cons_append,
        pm_bind_ok (choiceNode_run C.nodes i x hx s _ tr)]
      have : recs.contains x = true := by simpa using hxr
      rw [this]
      simp only [Bool.not_true, Bool.false_eq_true, if_false]
      rw [ih fuel _ (by simpa using hf) (fun k hk => hrec k (List.mem_cons_of_mem _ hk)), arr_push_app]
      rfl

/-! ### `get_infected_nodes`: whole runs -/

/-- normalisation of an optional argument whose default is the empty set (`initial_recovereds`) -/
def normOpt (C : Contact) (o : Option Src) : Except String (List Node) :=
  match o with
  | none => .ok []
  | some x => normSrc C x

theorem normSrc_nodup {C : Contact} {x : Src} {l : List Node} (h : normSrc C x = .ok l) : l.Nodup := by
  cases x with
  | inl u =>
    have h' : (if C.nodes.contains u then Except.ok [u] else Except.error "TypeError" : Except String (List Node)) = .ok l := h
    split at h'
    · injection h' with h'; rw [← h']; exact List.nodup_singleton u
    · cases h'
  | inr l' =>
    have h' : (Except.ok (PyDM.setOf l') : Except String (List Node)) = .ok l := h
    injection h' with h'; rw [← h']; exact setOf_nodup l'

theorem normOpt_nodup {C : Contact} {o : Option Src} {l : List Node} (h : normOpt C o = .ok l) : l.Nodup := by
  cases o with
  | none => unfold normOpt at h; injection h with h; rw [← h]; exact List.nodup_nil
  | some x => exact normSrc_nodup h

theorem get_infected_given (X : NX) (C : Contact) (tau gamma : Rat) (i : Src) (o : Option Src) :
    GenPerc.get_infected_nodes X C tau gamma (some i) o = (do
      let recs ← PyPM.liftE (normOpt C o)
      let infs ← PyPM.liftE (normSrc C i)
      infectedBody X C tau gamma infs recs) := by
  cases o with
  | none => rw [get_infected_some_none]; simp only [normOpt, liftE_ok, pure_bind]
  | some r => rw [get_infected_some]; rfl

theorem get_infected_default (X : NX) (C : Contact) (tau gamma : Rat) (o : Option Src) :
    GenPerc.get_infected_nodes X C tau gamma none o = (do
      let recs ← PyPM.liftE (normOpt C o)
      let node ← GenPerc.get_infected_nodes.draw_node C recs 10000
      infectedBody X C tau gamma [node] recs) := by
  cases o with
  | none => rw [get_infected_none_none]; simp only [normOpt, liftE_ok, pure_bind]
  | some r => rw [get_infected_none_some]; rfl

/-- the infected set in terms of paths avoiding the recovered nodes -/
theorem infectedBody_tape (X : NX) (hX : NXSpec X) (C : Contact) (tau gamma : Rat) (infs recs : List Node)
    (hdisj : ∀ u ∈ infs, u ∉ recs) (hrn : recs.Nodup) (hrc : ∀ u ∈ recs, u ∈ C.nodes) (hic : ∀ u ∈ infs, u ∈ C.nodes)
    (answers : List (ERat × List ERat)) (hsh : Shape C.nbrs C.nodes answers)
    (hok : ∀ a ∈ answers, OkAns gamma a.1 ∧ ∀ t ∈ a.2, OkAns tau t) (s : PSt) (rest : List Draw) (tr : Array Call) :
    ∃ res, infectedBody X C tau gamma infs recs s ⟨tapeOf answers ++ rest, tr⟩ =
        .ok ((res, s), ⟨rest, tr ++ traceOf tau gamma answers⟩) ∧ res.Nodup ∧
      ∀ v, v ∈ res ↔ ∃ u ∈ infs, Perc.Path (succAvoid (buildL true C answers).succ recs) u v := by
  have hb := directed_tape X C tau gamma true answers hsh hok s rest tr
  have hH := buildL_hwf true C answers
  obtain ⟨res, h1, h2, h3⟩ := infectedBody_ok X hX C tau gamma infs recs hdisj hrn hb hH
    (fun u hu => buildL_mem true C answers hsh u (hrc u hu)) (fun u hu => buildL_mem true C answers hsh u (hic u hu))
  refine ⟨res, h1, h2, fun v => ?_⟩
  rw [h3]
  have hwf' := rmAll_hwf (X.iter recs) _ hH
  have hperm := (hX _ hwf').iter recs
  constructor
  · rintro ⟨u, hu, hr⟩
    have hun := reach_src_mem hr
    exact ⟨u, hu, (path_rmAll _ _ recs (fun x => hperm.mem_iff) u v (hdisj u hu)).1
      ((Perc.reach_iff_path hwf'.wf hun v).1 hr)⟩
  · rintro ⟨u, hu, hp⟩
    have hun : u ∈ (rmAll (buildL true C answers) (X.iter recs)).nodeList := by
      rw [mem_rmAll_nodeList]
      exact ⟨buildL_mem true C answers hsh u (hic u hu), fun h => hdisj u hu (hperm.mem_iff.1 h)⟩
    exact ⟨u, hu, (Perc.reach_iff_path hwf'.wf hun v).2
      ((path_rmAll _ _ recs (fun x => hperm.mem_iff) u v (hdisj u hu)).2 hp)⟩

/-! ### data for the closed examples of `Props/C17c.lean` -/

/-- the values of a run -/
def val {α : Type} (r : Except String ((α × PSt) × TapeSt)) : Except String α := r.map (·.1.1)

def exH : DiG :=
  { nodes := [(0, none), (1, none), (2, none), (3, none)],
    edges := [((0, 1), none), ((1, 2), none), ((2, 0), none), ((2, 3), none)] }

def s0 : PSt := { vals := [] }

def t0 : TapeSt := { tape := [] }

theorem exH_wf : HWF exH := ⟨by decide, by decide⟩

/-- the generator order of the components decides ties: C17's example (two 2-cycles joined one way) with both orders -/
def exT : DiG :=
  { nodes := [(0, none), (1, none), (2, none), (3, none)],
    edges := [((0, 1), none), ((1, 0), none), ((1, 2), none), ((2, 3), none), ((3, 2), none)] }

/-- nodes and edges of a returned digraph -/
def valN (r : Except String ((DiG × PSt) × TapeSt)) : Except String (List (Node × Option ERat)) := r.map (·.1.1.nodes)

def valE (r : Except String ((DiG × PSt) × TapeSt)) : Except String (List ((Node × Node) × Option ERat)) :=
  r.map (·.1.1.edges)

def exC : Contact :=
  { nodes := [0, 1, 2, 3],
    nbrs := fun u => match u with | 0 => [1, 2] | 1 => [0, 2] | 2 => [1, 0, 3] | 3 => [2] | _ => [],
    edges := [(0, 1), (0, 2), (1, 2), (2, 3)] }

theorem exC_wf : CWF exC := ⟨by decide, by decide⟩

theorem exC_nbrs_nodup : ∀ u ∈ exC.nodes, (exC.nbrs u).Nodup := by decide

/-- durations 2; delay 1 along 0→1→2→0 and 2→3, delay 3 against -/
def exDelay (u v : Node) : ERat := if v = (u + 1) % 3 ∨ (u = 2 ∧ v = 3) then some 1 else some 3

def exRunT := GenPerc.with_timing (mkNX none) exC (fun u v => pure (exDelay u v)) (fun _ => pure (some 2)) true s0 t0

def exRunF := GenPerc.with_timing (mkNX none) exC (fun u v => pure (exDelay u v)) (fun _ => pure (some 2)) false s0 t0

/-- `xi[u] = u`, `zeta[v] = v`, transmission iff `xi + zeta ≥ 3`: a node added by `add_edge` before its own turn keeps its
place -/
def exRunX := GenPerc.xi_zeta_network (mkNX none) exC (fun u => u) (fun v => v) (fun x z => decide (x + z ≥ 3)) s0 t0

def exTape : List Draw :=
  [.expo 2, .expo 1, .expo 3,  .expo 2, .expo 3, .expo 1,  .expo 2, .expo 3, .expo 1, .expo 1,  .expo 2, .expo 3, .unif 0]

def exRunD := GenPerc.directed_percolate_network (mkNX none) exC 1 (1/2) true s0 ⟨exTape, #[]⟩

/-- the answers `exTape` encodes (`tau = 1`, `gamma = 1/2`) -/
def exAnswers : List (ERat × List ERat) :=
  [(some 2, [some 1, some 3]), (some 2, [some 3, some 1]), (some 2, [some 3, some 1, some 1]), (some 2, [some 3])]

theorem exAnswers_shape : Shape exC.nbrs exC.nodes exAnswers :=
  List.Forall₂.cons rfl (List.Forall₂.cons rfl (List.Forall₂.cons rfl (List.Forall₂.cons rfl List.Forall₂.nil)))

theorem exAnswers_ok : ∀ a ∈ exAnswers, OkAns (1/2) a.1 ∧ ∀ t ∈ a.2, OkAns 1 t := by
  have h1 : (0 : Rat) < 1 / 2 := by decide +kernel
  have h2 : (0 : Rat) < 1 := by decide +kernel
  intro a ha
  simp only [exAnswers, List.mem_cons, List.not_mem_nil, or_false] at ha
  rcases ha with rfl | rfl | rfl | rfl <;>
    exact ⟨okAns_some h1 _, fun t ht => by
      simp only [List.mem_cons, List.not_mem_nil, or_false] at ht
      rcases ht with rfl | rfl | rfl <;> exact okAns_some h2 _⟩

end GenPercProofs
