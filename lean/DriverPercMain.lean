import DriverPerc
partial def loopPerc (h : IO.FS.Stream) (out : IO.FS.Stream) : IO Unit := do
  let line ← h.getLine
  if line.isEmpty then return ()
  out.putStrLn (DrvGenPerc.handle line)
  loopPerc h out
def main : IO Unit := do loopPerc (← IO.getStdin) (← IO.getStdout)
