import EoNVerif.Model.Discrete
import EoNVerif.Rand.Dist
/-!
Law side of ONE generation of the discrete-time simulators, with the *sequential* draw structure of the code
(`discrete_SIR`, simulation.py 614–624, called by `basic_discrete_SIR` with
`_simple_test_transmission_ = (random.random() < p)`, and `basic_discrete_SIS`, simulation.py 873–880):

    for u in infecteds:
        for v in G.neighbors(u):
            if susceptible[v] and test_transmission(u, v, *args):      # draw only while v is still susceptible
                new_infecteds.add(v); susceptible[v] = False
            elif return_full_data and v in new_infecteds and test_transmission(u, v, *args):   # extra draw,
                infector[v].append(u)                                  # does not change new_infecteds

`sus` is the `susceptible` table at the START of the generation; "currently susceptible" is
`sus v && !new.contains v` where `new` is the list of nodes infected so far in this generation (in the order they
were infected).  The flag `redraw` selects the variants that also consume a draw for a node that has already been
infected in this generation (`discrete_SIR(..., return_full_data=True)`, and `basic_discrete_SIS`, whose test is
`if v not in infecteds and random.random() < p` — there `sus v = !infecteds.contains v`): the draw is made and thrown
away as far as `new_infecteds` is concerned.

Core Lean only (no Mathlib): everything here is executable.
-/

/-- product of a list of rationals (the analogue of `sumRat`) -/
def prodRat (l : List Rat) : Rat := l.foldr (· * ·) 1

namespace ReedFrost

/-- one contact `u → v` (the source plays no role for the `basic_*` rule), `new` = nodes infected so far -/
def contact (p : Rat) (redraw : Bool) (sus : Node → Bool) (v : Node) (new : List Node) : Dist (List Node) :=
  if sus v && !new.contains v then
    Dist.bind (Dist.bern p) fun b => Dist.pure (if b then new ++ [v] else new)
  else if redraw && sus v then
    Dist.bind (Dist.bern p) fun _ => Dist.pure new
  else Dist.pure new

/-- inner loop `for v in G.neighbors(u)` over the neighbour list `vs` -/
def inner (p : Rat) (redraw : Bool) (sus : Node → Bool) : List Node → List Node → Dist (List Node)
  | [], new => Dist.pure new
  | v :: vs, new => Dist.bind (contact p redraw sus v new) fun new' => inner p redraw sus vs new'

/-- outer loop `for u in infecteds` -/
def outer (p : Rat) (redraw : Bool) (nbrs : Node → List Node) (sus : Node → Bool) :
    List Node → List Node → Dist (List Node)
  | [], new => Dist.pure new
  | u :: us, new => Dist.bind (inner p redraw sus (nbrs u) new) fun new' => outer p redraw nbrs sus us new'

/-- one generation of `discrete_SIR` with the Bernoulli(p) rule: the law of `new_infecteds` (as the list of nodes in
the order they were infected) -/
def stepDist (p : Rat) (nbrs : Node → List Node) (infecteds : List Node) (sus : Node → Bool)
    (redraw : Bool := false) : Dist (List Node) :=
  outer p redraw nbrs sus infecteds []

/-- one generation of `basic_discrete_SIS`: every non-infectious node is susceptible and every contact with a
non-infectious node consumes a draw -/
def stepDistSIS (p : Rat) (nbrs : Node → List Node) (infecteds : List Node) : Dist (List Node) :=
  stepDist p nbrs infecteds (fun v => !infecteds.contains v) true

/-- number of contacts `· → v` made by the two loops (with the multiplicity the loops have) -/
def contacts (nbrs : Node → List Node) (infecteds : List Node) (v : Node) : Nat :=
  (infecteds.flatMap nbrs).count v

/-- Reed–Frost factor of node `v` for the target "`v` is newly infected iff `A v`", `m` contacts:
susceptible: `1-(1-p)^m` / `(1-p)^m`; not susceptible: can not be infected -/
def factor (p : Rat) (sus A : Node → Bool) (m : Node → Nat) (v : Node) : Rat :=
  if sus v then (if A v then 1 - (1 - p) ^ m v else (1 - p) ^ m v) else (if A v then 0 else 1)

/-- the event "for every `v` in `nodes`: `v` is newly infected iff `A v`" -/
def agrees (nodes : List Node) (A : Node → Bool) (new : List Node) : Bool :=
  nodes.all fun v => new.contains v == A v

end ReedFrost
