import EoNVerif.Model.InitArgs
import EoNVerif.Model.History
import EoNVerif.Model.Investigation
import EoNVerif.Proofs.InitHist
/-!
C05 / C10 — target statements: argument normalisation shared by all simulators (`InitArgs`) and the construction of
node histories from infection / recovery times (`History`, the model of `_transform_to_node_history_`).
-/
namespace InitArgs

/-- Python's round-half-even on an exactly represented product -/
theorem roundHalfEven_spec (x : Rat) :
    x - (roundHalfEven x : Rat) ≤ 1 / 2 ∧ (roundHalfEven x : Rat) - x ≤ 1 / 2 ∧
    (x - (x.floor : Rat) = 1 / 2 → (roundHalfEven x) % 2 = 0) := by
  exact roundHalfEven_spec' x

/-- a collection is taken as is and consumes no randomness -/
theorem normInit_nodes (n : Nat) (l : List Node) (ts : TapeSt) : normInit n (.nodes l) ts = .ok (l, ts) := by
  rfl

/-- a single node means the same as the one-element collection -/
theorem normInit_single (n : Nat) (u : Node) : normInit n (.single u) = normInit n (.nodes [u]) := by
  rfl

/-- `rho` selects exactly `int(round(N·rho))` distinct nodes of the graph -/
theorem normInit_rho (n : Nat) (r : Rat) (ts ts' : TapeSt) (l : List Node)
    (h : normInit n (.rho r) ts = .ok (l, ts')) :
    (l.length : Int) = roundHalfEven ((n : Rat) * r) ∧ l.Nodup ∧ ∀ u ∈ l, u < n := by
  simp only [normInit] at h
  split at h
  · cases h
  · rename_i hk
    obtain ⟨h1, h2, h3⟩ := popSample_ok _ _ _ _ _ h
    refine ⟨?_, h2, h3⟩
    omega

/-- neither given: one uniformly sampled node -/
theorem normInit_default (n : Nat) (ts ts' : TapeSt) (l : List Node)
    (h : normInit n .default ts = .ok (l, ts')) : l.length = 1 ∧ ∀ u ∈ l, u < n := by
  obtain ⟨h1, _, h3⟩ := popSample_ok _ _ _ _ _ h
  exact ⟨h1, h3⟩

/-- giving both is rejected with EoNError, whatever the values (also node 0, an empty list, rho = 0) -/
theorem normInit_both (n : Nat) (l : List Node) (r : Rat) (ts : TapeSt) :
    normInit n (.both l r) ts = .error "EoNError" := by
  rfl

end InitArgs

namespace History
open Pred

/-- a node infected and recovered strictly after tmin: the history is the plain event history (C10's `histOf`) -/
theorem sirHist_generic (tmin ti tr : Rat) (h1 : tmin < ti) (h2 : ti ≤ tr) :
    sirHist tmin (some ti) (some tr) = [(tmin, "S"), (ti, "I"), (tr, "R")] ∧
    sirHist tmin (some ti) none = [(tmin, "S"), (ti, "I")] ∧
    sirHist tmin none none = [(tmin, "S")] := by
  have e1 : ti ≠ tmin := ne_of_gt h1
  have e2 : tr ≠ tmin := ne_of_gt (lt_of_lt_of_le h1 h2)
  simp [sirHist, e1, e2]

/-- initially infected / recovered nodes start with 'I' / 'R' at tmin -/
theorem sirHist_initial (tmin tr : Rat) (h : tmin < tr) :
    sirHist tmin (some tmin) none = [(tmin, "I")] ∧
    sirHist tmin (some tmin) (some tr) = [(tmin, "I"), (tr, "R")] ∧
    sirHist tmin none (some tmin) = [(tmin, "R")] := by
  have e2 : tr ≠ tmin := ne_of_gt h
  simp [sirHist, e2]

/-- the degenerate case recorded in DESIGN §4: infected at tmin *and* recovered at tmin (zero duration) loses its
'I' entry -/
theorem sirHist_zero_duration (tmin : Rat) : sirHist tmin (some tmin) (some tmin) = [(tmin, "R")] := by
  simp [sirHist]

/-- every SIR history built this way is well-formed (starts at tmin, ordered, legal moves) -/
theorem sirHist_wf (tmin : Rat) (inf rec : Option Rat)
    (h1 : ∀ ti, inf = some ti → tmin ≤ ti) (h2 : ∀ tr, rec = some tr → tmin ≤ tr)
    (h3 : ∀ ti tr, inf = some ti → rec = some tr → ti ≤ tr)
    (h4 : ∀ tr, rec = some tr → inf = none → tr = tmin) :
    histWF true tmin (sirHist tmin inf rec) = true := by
  cases inf with
  | none =>
    cases rec with
    | none => simp [sirHist, histWF, histWFg, histTimesOrdered, nondecreasing, pairwise]
    | some tr =>
      have := h4 tr rfl rfl
      subst this
      simp [sirHist, histWF, histWFg, histTimesOrdered, nondecreasing, pairwise]
  | some ti =>
    have a1 := h1 ti rfl
    cases rec with
    | none =>
      by_cases e : ti = tmin
      · subst e; simp [sirHist, histWF, histWFg, histTimesOrdered, nondecreasing, pairwise]
      · simp [sirHist, histWF, histWFg, histTimesOrdered, nondecreasing, pairwise, e, a1]
    | some tr =>
      have a2 := h2 tr rfl
      have a3 := h3 ti tr rfl rfl
      by_cases e' : tr = tmin
      · subst e'; simp [sirHist, histWF, histWFg, histTimesOrdered, nondecreasing, pairwise]
      · by_cases e : ti = tmin
        · subst e; simp [sirHist, histWF, histWFg, histTimesOrdered, nondecreasing, pairwise, e', a2]
        · simp [sirHist, histWF, histWFg, histTimesOrdered, nondecreasing, pairwise, e, e', a1, a3]

/-- SIS: alternating infection / recovery times, strictly increasing after tmin -/
theorem sisHist_wf (tmin : Rat) (infs recs : List Rat)
    (hlen : recs.length ≤ infs.length ∧ infs.length ≤ recs.length + 1)
    (hfirst : ∀ t ∈ infs, tmin ≤ t)
    (halt : ∀ k, (∀ ti tr, infs[k]? = some ti → recs[k]? = some tr → ti ≤ tr) ∧
                 (∀ tr ti, recs[k]? = some tr → infs[k + 1]? = some ti → tr ≤ ti ∧ tmin < ti)) :
    histWF false tmin (sisHist tmin infs recs) = true := by
  have hbase : histWF false tmin [(tmin, "S")] = true := by
    simp [histWF, histWFg, histTimesOrdered, nondecreasing, pairwise]
  unfold sisHist
  cases infs with
  | nil => simpa [sisLoop] using hbase
  | cons ti is =>
    have a1 : tmin ≤ ti := hfirst ti (by simp)
    have hwf1 : histWF false tmin ((if ti = tmin then [] else [(tmin, "S")]) ++ [(ti, "I")]) = true := by
      by_cases e : ti = tmin
      · subst e; simp [histWF, histWFg, histTimesOrdered, nondecreasing, pairwise]
      · simp [histWF, histWFg, histTimesOrdered, nondecreasing, pairwise, e, a1]
    cases recs with
    | nil =>
      have : is = [] := by simp at hlen; exact hlen
      subst this
      simpa [sisLoop] using hwf1
    | cons tr rs =>
      simp only [sisLoop]
      have htr : ti ≤ tr := (halt 0).1 ti tr (by simp) (by simp)
      apply sisLoop_wf tmin is rs _ tr
      · exact histWFg_append _ _ _ ti tr "I" "S" hwf1 (by split <;> simp) htr (by decide)
      · simp
      · simp at hlen; omega
      · intro t ht
        obtain ⟨k, hk⟩ := List.getElem?_of_mem ht
        cases k with
        | zero => exact ((halt 0).2 tr t (by simp) (by simpa using hk)).2
        | succ k =>
          have hlt : k + 1 < is.length := by
            rcases Nat.lt_or_ge (k + 1) is.length with h | h
            · exact h
            · rw [List.getElem?_eq_none h] at hk; cases hk
          have : k < rs.length := by simp at hlen; omega
          exact ((halt (k + 1)).2 rs[k] t (by simp [this]) (by simpa using hk)).2
      · intro ti' hti'
        exact ((halt 0).2 tr ti' (by simp) (by simpa using hti')).1
      · intro k
        refine ⟨fun a b ha hb => (halt (k + 1)).1 a b (by simpa using ha) (by simpa using hb),
                fun a b ha hb => ((halt (k + 1)).2 a b (by simpa using ha) (by simpa using hb)).1⟩

end History

