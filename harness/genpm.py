"""Generated-code stream for the preferential-mixing right-hand side (harness/pypm2lean.py -> Gen/PrefMixGen.lean, driver
`driverpm`): the Lean code regenerated from `_dEBCM_pref_mix_` is evaluated at the same states, with the same `Pk` / `Pnk`
dicts (insertion order kept), as the Python function; values to 1e-10, exceptions by class (NumPy's division by zero and
ZeroDivisionError are one class, as in genhelp)."""
import json, os, subprocess, fcntl
from fractions import Fraction as F
import numpy as np, networkx as nx
import common, gen
from common import rs
from genhelp import attempt, close, q


def run_stream(ctx):
    import pypm2lean, EoN, EoN.analytic as an
    lean = common.LEAN
    os.makedirs(os.path.join(lean, ".audit"), exist_ok=True)
    with open(os.path.join(lean, ".audit", "genpm.lock"), "w") as lock:
        fcntl.flock(lock, fcntl.LOCK_EX)
        try:
            _, errors = pypm2lean.regenerate()
        except Exception as e:
            errors = {"translator": "crashed: %r" % e}
        if errors:
            ctx.disagreement("generated-prefmix:translation", dict(entry="_dEBCM_pref_mix_", errors=errors))
            return
        p = common.lake(["build", "driverpm"])
    if p.returncode != 0:
        ctx.disagreement("generated-prefmix:build", dict(entry="_dEBCM_pref_mix_", log="\n".join(
            l for l in (p.stdout + p.stderr).splitlines() if "error" in l)[:1500]))
        return
    r = ctx.rng
    reqs, metas = [], []
    for _ in range(ctx.scale(150, 1000)):
        kind = r.choice(["graph", "graph", "graph", "hand", "missing-key", "zero-theta"])
        if kind == "graph" or kind == "zero-theta":
            G = gen.random_graph(r, 2, 9)
            if G.number_of_edges() == 0:
                continue
            Pk, Pnk = an.get_Pk(G), {k1: dict(row) for k1, row in an.get_Pnk(G).items()}
        elif kind == "hand":
            ks = r.sample(range(0, 6), r.randint(1, 4))
            Pk = {k: r.choice([0.25, 0.5, 0.125]) for k in ks}
            Pnk = {k1: {k2: r.choice([0.25, 0.5, 1.0]) for k2 in r.sample(ks, r.randint(0, len(ks)))} for k1 in ks}
        else:
            ks = r.sample(range(1, 6), r.randint(2, 4))
            Pk = {k: 1.0 / len(ks) for k in ks}
            Pnk = {k1: {k2: 0.5 for k2 in ks} for k1 in ks}
            if r.random() < 0.5:
                Pnk[ks[0]][7] = 0.25            # a neighbour degree that is not a key of Pk: theta[7] -> KeyError
            else:
                del Pnk[ks[-1]]                 # a degree class without a row: Pnk[k1] -> KeyError
        n = len(Pk)
        X = [r.choice([0.0, 0.125, 0.25])] + [x for _ in range(n) for x in (r.choice([1.0, 0.75, 0.5, 0.875]), r.choice([0.0, 0.125, 0.25]))]
        if kind == "zero-theta":
            X[1] = 0.0                           # theta of the smallest degree is 0: 0 ** (k - 1) with k = 0 raises
        if r.random() < 0.1:
            X = X[:-1]                           # state one entry short -> IndexError
        rho, tau, gamma = r.choice([0.0, 0.125, 0.25]), r.choice([0.5, 1.0, 2.0]), r.choice([0.0, 0.5, 1.0])
        rep = dict(entry="_dEBCM_pref_mix_", stream="generated-model", kind=kind, Pk={str(k): v for k, v in Pk.items()},
                   Pnk={str(k): {str(b): w for b, w in row.items()} for k, row in Pnk.items()}, X=X, rho=rho, tau=tau, gamma=gamma)
        out = attempt(lambda: [float(v) for v in an._dEBCM_pref_mix_(np.array(X), 0.0, rho, tau, gamma, Pk, Pnk)])
        reqs.append(dict(X=[q(x) for x in X], rho=q(rho), tau=q(tau), gamma=q(gamma), Pk=[[k, q(v)] for k, v in Pk.items()],
                         Pnk=[[k, [[b, q(w)] for b, w in row.items()]] for k, row in Pnk.items()]))
        metas.append((rep, out))
        ctx.count("generated-model:prefmix:" + kind)
    exe = os.path.join(lean, ".lake", "build", "bin", "driverpm")
    data = "\n".join(json.dumps(x, separators=(",", ":")) for x in reqs) + "\n"
    pr = subprocess.run([exe], input=data, capture_output=True, text=True)
    lines = pr.stdout.splitlines()
    if pr.returncode != 0 or len(lines) != len(reqs):
        raise RuntimeError("driverpm crashed: " + pr.stderr[-1000:])
    for (rep, out), line in zip(metas, lines):
        g = json.loads(line)
        ctx.traces += 1
        ctx.case(rep, nontrivial=bool(out["ok"]))
        ctx.count("generated-model:prefmix:" + ("ok" if out["ok"] else out["err"]))
        d = None
        if out["ok"] != bool(g.get("ok")):
            d = "outcome: impl %s generated %s" % (out.get("err", "ok"), g.get("err", "ok"))
        elif not out["ok"]:
            if out["err"] != g.get("err"):
                d = "exception: impl %s generated %s" % (out["err"], g.get("err"))
        elif len(out["val"]) != len(g["out"]) or any(not close(F(a), b) for a, b in zip(g["out"], out["val"])):
            d = "values differ: impl %s generated %s" % (out["val"], [float(F(a)) for a in g["out"]])
        if d:
            ctx.disagreement("generated-prefmix:" + d[:200], dict(rep, generated={k: g.get(k) for k in ("out", "err")}))
