import EoNVerif.Model.ODE2
/-!
The aggregation map from the state of the SIR effective-degree model (`_dSIR_effective_degree_`, array `S[s,i]`,
`EoN/analytic.py` 3970–4022) to the state of the compact effective-degree model
(`_dSIR_compact_effective_degree_`, vector `S_κ`, `R`, `[SI]`, 4376–4393), and the binomial ("closed") states on
which the compact model is exact.  Core Lean only.
-/
namespace ODE

/-- binomial coefficient (`scipy.special.binom(n, k)` on integers), Pascal recursion, core Lean only -/
def binom : Nat → Nat → Nat
  | _, 0 => 1
  | 0, _ + 1 => 0
  | n + 1, k + 1 => binom n k + binom n (k + 1)

/-- `S_κ = Σ_{s+i=κ} S[s,i]`: number of susceptible nodes of effective degree κ -/
def aggSk (X : Nat → Nat → Rat) (κ : Nat) : Rat := sumTo (κ + 1) (fun i => X (κ - i) i)

/-- `[SI] = Σ_{s,i} i S[s,i]`: number of S–I edges -/
def aggSI (A : Nat) (X : Nat → Nat → Rat) : Rat := sum2 A A (fun s i => kf i * X s i)

/-- `effectiveI` of `_dSIR_compact_effective_degree_` at the aggregated state: `[SI] / Σ_κ κ S_κ` -/
def aggEff (A : Nat) (X : Nat → Nat → Rat) : Rat := aggSI A X / sumTo A (fun k => aggSk X k * kf k)

/-- the closed state: every one of the `s+i` live stubs of a susceptible node is infected independently with
probability `e`:  `S[s,i] = S_{s+i} · C(s+i,i) · e^i (1-e)^s`, and 0 outside the feasible support `s+i < A`.
This is the shape of the initial array built by `SIR_effective_degree_from_graph` (4323–4328, with `e = rho`,
`S_κ = (1-rho) N_κ`). -/
def binomState (A : Nat) (Sk : Nat → Rat) (e : Rat) : Nat → Nat → Rat :=
  fun s i => if s + i < A then Sk (s + i) * (binom (s + i) i : Nat) * e ^ i * (1 - e) ^ s else 0

end ODE
