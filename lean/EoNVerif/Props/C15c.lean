import EoNVerif.Props.C15
import EoNVerif.Proofs.ComplexTraj
/-!
C15c — **the induction over events** for `Gillespie_complex_contagion`: the one-step selection law of `Props/C15`
(`next_node_law`, `zero_rate_never`, `clock_eq`, `stop_iff`, `applyEvent_inv`) lifted to the law of whole finite
histories, exactly as `Props/C01g` does for `Gillespie_SIR/SIS`.

Definitions (in `Proofs/ComplexTraj.lean`, restated here in words; `σ` is the user's type of statuses):

* `Complex.Spec.totalRate P st = Σ_{x ∈ P.nodes} P.rate st x`, `Complex.Spec.apply P st x = fset st x (P.choose st x)`
  (the model's field is called `choose`: the user's `transition_choice`, a deterministic function of the statuses).
* `Complex.Spec.jumpDist P n st : Dist (List (Node × Rat))` — first `n` jumps of the specification chain: if
  `Σ rates = 0` the history ends; else node `x ∈ P.nodes` is next with probability `rate x / Σ rates`, the pair
  `(x, Σ rates)` is recorded (holding time `Exp(Σ rates)`), and the chain continues from `Spec.apply P st x`.
* `Complex.trajDist P k n s` — law of the first `n` events of the model's loop from state `s`, each recorded with the
  rate handed to `expovariate` in the state the node was selected in (`s.ld.totalWeight`).  Stop test = the loop's
  (`Complex.halted s`: `total_weight() > 0` fails; no horizon, `tmax = ∞`); selection = `s.ld.chooseDist k` (the
  `k`-round rejection sampler on the single weighted `_ListDict_` `nodes_by_rate`); continuation from `applyEvent`.
  **Deviations from the plan, forced by the model**: (1) "sampler budget exhausted" (`none`) is an *error* of the
  tape model (`chooseTM … 0 = fail "fuel"`), not a stop, so it contributes no history: `trajDist` is a
  sub-distribution (as in C01g); same for `applyEvent = none` (KeyError), unreachable by `traj_status`.  (2) the
  loop does not test `Σ rates = 0`, it tests `total_weight() > 0` on the data structure (and `t < tmax` with `t = inf`
  exactly when that test failed one event earlier, `loop_stops`/`loop_continues`); under `WF`/`Inv` the two agree
  (`halt_iff_absorbing`).  (3) `applyEvent` takes the event time; it is only recorded (`times`, `log`); `trajDist`
  passes `0` and `traj_time_irrelevant` shows any other supply of times gives the same law.  (4) the structure is
  always weighted, so there is no "unweighted" special case and no `0 < k` hypothesis: for `k = 0` both sides of
  `traj_law` are `0` on non-empty histories (`1 - ρ^0 = 0`).
* `Complex.accProd P k s h = Π_i (1 - ρ_i^k)`, `ρ_i = s_i.ld.rejProb` the one-round rejection probability of
  `nodes_by_rate` in the state reached after `i-1` events; `Complex.defectSum P k s h = Σ_i ρ_i^k`.
* `Complex.Spec.Legal P st h` — `h` is a path of the chain from `st`: each selected node is in `P.nodes` and has a
  positive rate in the status reached so far, the recorded clock rate is the (positive) sum of the rates there.
  `Complex.Spec.applyHist`, `Complex.applyHist` — status / model state after a history.

Hypotheses, as in C15: `WF P` (`P.nodes` duplicate-free — otherwise a node would be counted twice in `Σ rates` but
once in `nodes_by_rate`; rates non-negative — `_ListDict_` needs non-negative weights; influence sets inside
`P.nodes`; `InfluenceCovers P` — the user's influence set contains every *other* node whose rate changes, otherwise
`nodes_by_rate` goes stale and neither the clock nor the selection law hold) and `Inv P s` (holds after `init`,
`Complex.init_inv`, and is preserved, `traj_status`).
-/
namespace ComplexTraj
open Complex
variable {σ : Type} [DecidableEq σ]

/-- the loop's stop test is, under the invariant, "the chain is absorbed" (`Σ rates = 0`) -/
theorem halt_iff_absorbing (P : CCParams σ) (h : WF P) (s : CCState σ) (hs : Inv P s) :
    halted s ↔ Spec.totalRate P s.status = 0 :=
  halted_iff P h s hs

/-- the rate recorded with an event is the sum of the user's rates in the current status (C15 `clock_eq`) -/
theorem clock_is_total (P : CCParams σ) (h : WF P) (s : CCState σ) (hs : Inv P s) :
    s.ld.totalWeight = Spec.totalRate P s.status :=
  clock_spec P h s hs

/-- `trajDist` mirrors `Complex.loop` (no time horizon, next-event time computed as `loop`/`run` do from the current
total weight): on `halted` the tape loop returns the current state … -/
theorem loop_stops (P : CCParams σ) (cfuel fuel : Nat) (s : CCState σ) (tv : Rat) (hh : halted s) :
    loop P none cfuel (fuel + 1) s (if s.ld.totalWeight > 0 then some tv else none) = pure s :=
  loop_halted P cfuel fuel s tv hh

/-- … and otherwise it selects a node with `chooseTM` on `nodes_by_rate` (whose law is `chooseDist`) in `s`, applies
the event, and draws the next holding time with the total weight of the new state -/
theorem loop_continues (P : CCParams σ) (cfuel fuel : Nat) (s : CCState σ) (tv : Rat) (hh : ¬ halted s) :
    loop P none cfuel (fuel + 1) s (if s.ld.totalWeight > 0 then some tv else none) =
      (do
        let node ← Gillespie.chooseTM Gillespie.encNode s.ld cfuel
        match applyEvent P s node tv with
        | none => TM.fail "KeyError"
        | some s' =>
          if s'.ld.totalWeight > 0 then do
            let d ← TM.popExpo s'.ld.totalWeight
            loop P none cfuel fuel s' (some (tv + d))
          else loop P none cfuel fuel s' none) :=
  loop_running P cfuel fuel s tv hh

/-- **trajectory law**: for every history `h = [(x₁,r₁),…,(x_m,r_m)]`, every length `n` and every budget `k` of
rejection rounds, the model produces `h` with the probability the jump chain gives it, times `Π_i (1 - ρ_i^k)` — the
probability that none of the `m` rejection samplers ran out of rounds -/
theorem traj_law (P : CCParams σ) (h : WF P) (k n : Nat) (s : CCState σ) (hs : Inv P s)
    (hist : List (Node × Rat)) :
    Dist.mass (trajDist P k n s) (fun x => x == hist) =
      Dist.mass (Spec.jumpDist P n s.status) (fun x => x == hist) * accProd P k s hist :=
  Complex.traj_law P h k n s hs hist

/-- the acceptance product is a probability -/
theorem accProd_unit (P : CCParams σ) (h : WF P) (k : Nat) (s : CCState σ) (hs : Inv P s)
    (hist : List (Node × Rat)) : 0 ≤ accProd P k s hist ∧ accProd P k s hist ≤ 1 :=
  ⟨(accProd_bounds P h k s hs hist).1, (accProd_bounds P h k s hs hist).2.1⟩

omit [DecidableEq σ] in
/-- the chain's masses are non-negative (needs only non-negative rates) -/
theorem jump_mass_nonneg (P : CCParams σ) (h : WF P) (n : Nat) (st : Node → σ) (Q : List (Node × Rat) → Bool) :
    0 ≤ Dist.mass (Spec.jumpDist P n st) Q :=
  Dist.mass_nonneg _ (jumpDist_nonneg P h.rate_nonneg n st) Q

/-- the model never over-weights a history -/
theorem traj_law_le (P : CCParams σ) (h : WF P) (k n : Nat) (s : CCState σ) (hs : Inv P s)
    (hist : List (Node × Rat)) :
    Dist.mass (trajDist P k n s) (fun x => x == hist) ≤
      Dist.mass (Spec.jumpDist P n s.status) (fun x => x == hist) := by
  rw [traj_law P h k n s hs hist]
  have h1 := jump_mass_nonneg P h n s.status (fun x => x == hist)
  have h2 := (accProd_bounds P h k s hs hist).2.1
  nlinarith

/-- … and under-weights it by at most the relative defect `Σ_i ρ_i^k` (union bound over the `m` samplers) -/
theorem traj_law_ge (P : CCParams σ) (h : WF P) (k n : Nat) (s : CCState σ) (hs : Inv P s)
    (hist : List (Node × Rat)) :
    Dist.mass (Spec.jumpDist P n s.status) (fun x => x == hist) * (1 - defectSum P k s hist) ≤
      Dist.mass (trajDist P k n s) (fun x => x == hist) := by
  rw [traj_law P h k n s hs hist]
  have h1 := jump_mass_nonneg P h n s.status (fun x => x == hist)
  have h2 := (accProd_bounds P h k s hs hist).2.2.1
  exact mul_le_mul_of_nonneg_left h2 h1

omit [DecidableEq σ] in
/-- the jump chain's law is a probability distribution (total mass 1), whatever the parameters (no hypothesis:
`Σ_x rate x / Σ rates = 1` as soon as `Σ rates ≠ 0`) -/
theorem jump_total (P : CCParams σ) (n : Nat) (st : Node → σ) :
    Dist.mass (Spec.jumpDist P n st) (fun _ => true) = 1 :=
  jumpDist_total P n st

/-- **the defect vanishes as `k → ∞`** (stated without analysis): for every history and every `ε > 0` there is a
budget `K` of rejection rounds from which on the model's mass of the history is within `ε` below the chain's (it is
never above: `traj_law_le`).  Uses `ρ_i < 1` (C16 `ld_rej_lt_one`) in every non-absorbed state of the path. -/
theorem traj_law_limit (P : CCParams σ) (h : WF P) (n : Nat) (s : CCState σ) (hs : Inv P s)
    (hist : List (Node × Rat)) (ε : Rat) (hε : 0 < ε) :
    ∃ K : Nat, ∀ k, K ≤ k →
      Dist.mass (Spec.jumpDist P n s.status) (fun x => x == hist) - ε ≤
        Dist.mass (trajDist P k n s) (fun x => x == hist) := by
  have hm0 := jump_mass_nonneg P h n s.status (fun x => x == hist)
  by_cases hm : Dist.mass (Spec.jumpDist P n s.status) (fun x => x == hist) = 0
  · refine ⟨0, fun k _ => ?_⟩
    rw [traj_law P h k n s hs hist, hm]; linarith
  · have hpos : 0 < Dist.mass (Spec.jumpDist P n s.status) (fun x => x == hist) :=
      lt_of_le_of_ne hm0 (Ne.symm hm)
    obtain ⟨K, hK⟩ := defect_small P h s hs hist
      (chain_support P h.nodup h.rate_nonneg n s.status hist hm).1 _ (div_pos hε hpos)
    refine ⟨K, fun k hk => ?_⟩
    have h1 := traj_law_ge P h k n s hs hist
    have h2 := hK k hk
    have h3 := mul_le_mul_of_nonneg_left h2 hm0
    rw [mul_div_cancel₀ _ hm] at h3
    linarith

/-- **support**: a history the model produces with positive probability is a legal path of the chain — each `x_i` is
a node of the network with a positive rate in the status reached by `Spec.apply` of its predecessors and `r_i` (the
rate of the `Exp` holding-time draw) is the sum of the rates in that status —, has at most `n` events, and fewer
only if the chain is absorbed -/
theorem traj_support (P : CCParams σ) (h : WF P) (k n : Nat) (s : CCState σ) (hs : Inv P s)
    (hist : List (Node × Rat)) (hm : Dist.mass (trajDist P k n s) (fun x => x == hist) ≠ 0) :
    Spec.Legal P s.status hist ∧ hist.length ≤ n ∧
      (hist.length < n → Spec.totalRate P (Spec.applyHist P s.status hist) = 0) := by
  rw [traj_law P h k n s hs hist] at hm
  exact chain_support P h.nodup h.rate_nonneg n s.status hist (left_ne_zero_of_mul hm)

omit [DecidableEq σ] in
/-- the same for the chain itself -/
theorem jump_support (P : CCParams σ) (h : WF P) (n : Nat) (st : Node → σ) (hist : List (Node × Rat))
    (hm : Dist.mass (Spec.jumpDist P n st) (fun x => x == hist) ≠ 0) :
    Spec.Legal P st hist ∧ hist.length ≤ n ∧
      (hist.length < n → Spec.totalRate P (Spec.applyHist P st hist) = 0) :=
  chain_support P h.nodup h.rate_nonneg n st hist hm

/-- **status along a history**: after every prefix of a positive-probability history the model is in a state (no
KeyError) that satisfies `Inv` and whose status is the iterated `Spec.apply` -/
theorem traj_status (P : CCParams σ) (h : WF P) (k n : Nat) (s : CCState σ) (hs : Inv P s)
    (hist : List (Node × Rat)) (hm : Dist.mass (trajDist P k n s) (fun x => x == hist) ≠ 0)
    (h1 h2 : List (Node × Rat)) (hsplit : hist = h1 ++ h2) :
    ∃ s', applyHist P s h1 = some s' ∧ Inv P s' ∧ s'.status = Spec.applyHist P s.status h1 := by
  have hl := (traj_support P h k n s hs hist hm).1
  rw [hsplit] at hl
  exact legal_applyHist P h s hs h1 (legal_prefix P s.status h1 h2 hl)

/-- the same for legal paths of the chain, whether or not `n` and `k` let the model reach them -/
theorem legal_status (P : CCParams σ) (h : WF P) (s : CCState σ) (hs : Inv P s) (hist : List (Node × Rat))
    (hl : Spec.Legal P s.status hist) :
    ∃ s', applyHist P s hist = some s' ∧ Inv P s' ∧ s'.status = Spec.applyHist P s.status hist :=
  legal_applyHist P h s hs hist hl

/-- the recorded event time does not influence what `applyEvent` does to the rest of the state (statuses, candidate
structure, counters) -/
theorem applyEvent_time (P : CCParams σ) (s : CCState σ) (x : Node) (t t' : Rat) :
    match applyEvent P s x t, applyEvent P s x t' with
    | some a, some b => Core a b
    | none, none => True
    | _, _ => False :=
  applyEvent_core P s s (core_refl s) x t t'

/-- **times do not influence node selection**: whatever event times are recorded (`ts`, one per event), the law of
the first `ts.length` events is `trajDist` -/
theorem traj_time_irrelevant (P : CCParams σ) (k : Nat) (ts : List Rat) (s : CCState σ) :
    trajDistT P k ts s = trajDist P k ts.length s :=
  trajDistT_eq' P k ts s s (core_refl s)

/-- from the initial condition: `init` succeeds and the trajectory law holds from its result -/
theorem traj_law_init (P : CCParams σ) (h : WF P) (ic : Node → σ) (tmin : Rat) (k n : Nat)
    (hist : List (Node × Rat)) :
    ∃ s, init P ic tmin = some s ∧
      Dist.mass (trajDist P k n s) (fun x => x == hist) =
        Dist.mass (Spec.jumpDist P n ic) (fun x => x == hist) * accProd P k s hist := by
  obtain ⟨s, h1, h2, h3⟩ := init_inv' P h ic tmin
  exact ⟨s, h1, by rw [traj_law P h k n s h2 hist, h3]⟩

end ComplexTraj

/-! ### non-vacuity

The SIR-like family on the path 0 – 1 – 2 of `Props/C15` (`P3`: τ = 1, γ = 1/2; node 0 infected).  Rates: node 0
(recovers): 1/2, node 1 (one infected neighbour): 1; total 3/2.  After node 1 is infected: node 0: 1/2, node 1: 1/2,
node 2: 1; total 2.  History `[(1, 3/2), (2, 2)]`: chain mass `1/(3/2) · 1/2 = 1/3`; `ρ₁ = 1 - (3/2)/(2·1) = 1/4`,
`ρ₂ = 1 - 2/(3·1) = 1/3`, so the model's mass is `1/3 · (1 - 4^{-k}) (1 - 3^{-k})`. -/
namespace Complex.Example

def exH : List (Node × Rat) := [(1, 3/2), (2, 2)]

example : Dist.mass (Spec.jumpDist P3 2 ic3) (fun x => x == exH) = 1 / 3 := by decide +kernel
example : (init P3 ic3 0).map (fun s => accProd P3 2 s exH) = some (15 / 16 * (8 / 9)) := by decide +kernel
example : (init P3 ic3 0).map (fun s => Dist.mass (trajDist P3 1 2 s) (fun x => x == exH))
    = some (1 / 3 * ((1 - 1/4) * (1 - 1/3))) := by decide +kernel
example : (init P3 ic3 0).map (fun s => Dist.mass (trajDist P3 2 2 s) (fun x => x == exH))
    = some (1 / 3 * ((1 - (1/4)^2) * (1 - (1/3)^2))) := by decide +kernel
example : (init P3 ic3 0).map (fun s => Dist.mass (trajDist P3 3 2 s) (fun x => x == exH))
    = some (1 / 3 * ((1 - (1/4)^3) * (1 - (1/3)^3))) := by decide +kernel
/-- a history with a wrong recorded rate, or a node of rate 0 (node 2 before node 1 is infected), or the empty
history while the chain is not absorbed, has mass 0 in both laws -/
example : (init P3 ic3 0).map (fun s =>
      (Dist.mass (trajDist P3 2 2 s) (fun x => x == [(1, 3/2), (2, 1)]),
       Dist.mass (trajDist P3 2 2 s) (fun x => x == [(2, 3/2), (1, 2)]),
       Dist.mass (trajDist P3 2 2 s) (fun x => x == [])))
    = some (0, 0, 0) := by decide +kernel
example : (Dist.mass (Spec.jumpDist P3 2 ic3) (fun x => x == [(1, 3/2), (2, 1)]),
           Dist.mass (Spec.jumpDist P3 2 ic3) (fun x => x == [(2, 3/2), (1, 2)])) = (0, 0) := by decide +kernel
example : Dist.mass (Spec.jumpDist P3 2 ic3) (fun _ => true) = 1 := by decide +kernel
/-- absorption: after node 0 recovers first nothing can happen; the one-event history has the same mass for every
`n ≥ 1` -/
example : Dist.mass (Spec.jumpDist P3 3 ic3) (fun x => x == [(0, 3/2)]) = 1 / 3 := by decide +kernel
example : (init P3 ic3 0).map (fun s => Dist.mass (trajDist P3 2 3 s) (fun x => x == [(0, 3/2)]))
    = some (1 / 3 * (1 - (1/4)^2)) := by decide +kernel

/-- the hypotheses are satisfiable (`P3_wf` of `Props/C15`, `init_inv`), and the general theorem, instantiated, gives
for **every** budget `k` the value the direct computations above give for `k = 1, 2, 3` -/
example (k : Nat) :
    ∃ s, init P3 ic3 0 = some s ∧
      Dist.mass (trajDist P3 k 2 s) (fun x => x == exH) = 1 / 3 * accProd P3 k s exH := by
  obtain ⟨s, h1, h2⟩ := ComplexTraj.traj_law_init P3 P3_wf ic3 0 k 2 exH
  refine ⟨s, h1, ?_⟩
  rw [h2]
  congr 1
  decide +kernel

end Complex.Example
