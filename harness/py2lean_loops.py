#!/usr/bin/env python3
"""py2lean_loops — translator for the loop-style ODE right-hand sides of EoN/analytic.py (effective degree,
individual-based): `for` loops over ranges / nodes / neighbours that fill `np.zeros` arrays, list-comprehension sums,
reshaped views of the flat state.  Output: lean/EoNVerif/Gen/AnalyticLoops.lean; `Proofs/GenEqLoops.lean` proves each
generated function equal to the hand-written model of `Model/ODE.lean` / `Model/ODE2.lean`.

Loops become `List.foldl` over the iteration list with the tuple of arrays mutated in the body as state; an array is a
function (`Nat → Rat`, `Nat → Nat → Rat`) and `a[i] = e` / `a[i] += e` are functional updates (`Gen.upd1/upd2`).
Graph arguments are abstracted the way the hand-written models do: nodes are identified with their index in `nodelist`
(`index_of_node[x]` ↦ `x`, `nodelist` ↦ `0..N-1`, `G.neighbors(u)` ↦ `nbrs u`, `len(nodelist)`/`G.order()` ↦ `N`);
the label/index mapping itself is the subject of C14.

Supported subset (anything else raises Unsupported) — see the handlers below; the parameter kinds (SIGS) are the
only hand-supplied input.
"""
import ast, os, sys, hashlib

REPO = os.environ.get("EON_REPO", "/repo")


class Unsupported(Exception):
    pass


# kinds: V flat vector, S scalar, SHAPE (rows, cols), G graph, NL nodelist, IDX index_of_node, F1/F2 rate functions, - ignored
SIGS = {
    "_dSIS_effective_degree_": ("dSIS_effective_degree", "X:V t:- original_shape:SHAPE tau:S gamma:S"),
    "_dSIR_effective_degree_": ("dSIR_effective_degree", "X:V t:- N:S original_shape:SHAPE tau:S gamma:S"),
    "_dSIS_individual_based_": ("dSIS_individual_based", "Y:V t:- G:G nodelist:NL index_of_node:IDX trans_rate_fxn:F2 rec_rate_fxn:F1"),
    "_dSIR_individual_based_": ("dSIR_individual_based", "V:V t:- G:G nodelist:NL index_of_node:IDX trans_rate_fxn:F2 rec_rate_fxn:F1"),
    "_dSIS_pair_based_": ("dSIS_pair_based", "V:V t:- G:G nodelist:NL index_of_node:IDX trans_rate_fxn:F2 rec_rate_fxn:F1"),
    "_dSIR_pair_based_": ("dSIR_pair_based", "V:V t:- G:G nodelist:NL index_of_node:IDX trans_rate_fxn:F2 rec_rate_fxn:F1"),
}
LEAN_PARAM = {"V": "V", "S": "Rat", "F1": "Nat → Rat", "F2": "Nat → Nat → Rat"}
ARR_TY = {"A1": "Nat → Rat", "A2": "Nat → Nat → Rat"}


def is_np(e, attr):
    return isinstance(e, ast.Call) and isinstance(e.func, ast.Attribute) and isinstance(e.func.value, ast.Name) \
        and e.func.value.id == "np" and e.func.attr == attr


class Fn:
    def __init__(self, node, lean_name, sig, labelled=False):
        self.node, self.lean_name = node, lean_name
        self.labelled = labelled        # keep node labels: `index_of_node[x]` is `idx x`, `nodelist` a list of labels
        self.params = [tuple(x.split(":")) for x in sig.split()]
        names = [a.arg for a in node.args.args]
        if names != [p for p, _ in self.params]:
            raise Unsupported(f"{node.name}: parameter list changed: {names}")
        self.env = {}            # python name -> kind: S I(index) N V A1 A2 + params' kinds
        self.cur = {}            # python name -> lean name
        self.meta = {}           # name -> extra info (A1/A2 dims, V view)
        self.counter = {}
        self.graph = any(k == "G" for _, k in self.params)
        for p, k in self.params:
            if k != "-":
                self.env[p] = k
                self.cur[p] = {"trans_rate_fxn": "tr", "rec_rate_fxn": "rr", "V": "Vst"}.get(p, p)
        for p, k in self.params:
            if k == "SHAPE":
                self.meta[p] = ("rowsA", "colsB")

    def fresh(self, name):
        n = self.counter.get(name, 0)
        self.counter[name] = n + 1
        taken = [p for p, _ in self.params]
        return name if n == 0 and name not in taken else f"{name}_{n}"

    # ---------------------------------------------------------------- nat expressions (indices, sizes)
    def nat(self, e):
        if isinstance(e, ast.Constant) and isinstance(e.value, int) and e.value >= 0:
            return str(e.value)
        if isinstance(e, ast.Name):
            k = self.env.get(e.id)
            if k in ("I", "N"):
                return self.cur[e.id]
            raise Unsupported(f"name {e.id} of kind {k} as an index")
        if isinstance(e, ast.Subscript) and isinstance(e.value, ast.Name) and self.env.get(e.value.id) == "SHAPE":
            i = e.slice
            if isinstance(i, ast.Constant) and i.value in (0, 1):
                return self.meta[e.value.id][i.value]
        if isinstance(e, ast.Subscript) and isinstance(e.value, ast.Name) and self.env.get(e.value.id) == "IDX":
            if self.labelled:
                return f"(idx {self.nat(e.slice)})"                 # index_of_node[x]
            return self.nat(e.slice)                               # index_of_node[x] ↦ x
        if isinstance(e, ast.Call) and isinstance(e.func, ast.Name) and e.func.id == "len" and len(e.args) == 1:
            a = e.args[0]
            if isinstance(a, ast.Name) and self.env.get(a.id) == "NL":
                return "nodelist.length" if self.labelled else "N"
            if isinstance(a, ast.Name) and self.env.get(a.id) == "V":
                return f"{self.cur[a.id]}.n"
        if isinstance(e, ast.Call) and isinstance(e.func, ast.Attribute) and e.func.attr == "order" \
                and isinstance(e.func.value, ast.Name) and self.env.get(e.func.value.id) == "G":
            return "N"
        if isinstance(e, ast.BinOp):
            op = {ast.Add: "+", ast.Sub: "-", ast.Mult: "*"}.get(type(e.op))
            if op:
                return f"({self.nat(e.left)} {op} {self.nat(e.right)})"
            if isinstance(e.op, ast.Pow) and isinstance(e.right, ast.Constant) and e.right.value == 2:
                a = self.nat(e.left)
                return f"({a} * {a})"
        raise Unsupported(f"nat expression {ast.dump(e)[:80]}")

    def is_index_expr(self, e):
        try:
            self.nat(e)
            return True
        except Unsupported:
            return False

    # ---------------------------------------------------------------- rational expressions
    def rat(self, e):
        if isinstance(e, ast.Constant):
            if isinstance(e.value, bool) or not isinstance(e.value, (int, float)):
                raise Unsupported("literal")
            if isinstance(e.value, float) and e.value != int(e.value):
                from fractions import Fraction
                fr = Fraction(repr(e.value))
                return f"(({fr.numerator} : Rat) / {fr.denominator})"
            return f"({int(e.value)} : Rat)"
        if isinstance(e, ast.Name):
            k = self.env.get(e.id)
            if k == "S":
                return self.cur[e.id]
            if k in ("I", "N"):
                return f"(({self.cur[e.id]} : Nat) : Rat)"
            raise Unsupported(f"name {e.id} of kind {k} in arithmetic")
        if isinstance(e, ast.UnaryOp) and isinstance(e.op, ast.USub):
            return f"(-{self.rat(e.operand)})"
        if isinstance(e, ast.BinOp):
            op = {ast.Add: "+", ast.Sub: "-", ast.Mult: "*", ast.Div: "/"}.get(type(e.op))
            if op:
                return f"({self.rat(e.left)} {op} {self.rat(e.right)})"
            if isinstance(e.op, ast.Pow) and isinstance(e.right, ast.Constant) and isinstance(e.right.value, int) and e.right.value >= 0:
                return f"({self.rat(e.left)} ^ {e.right.value})"
            raise Unsupported("operator")
        if isinstance(e, ast.Subscript):
            v = e.value
            if isinstance(v, ast.Name):
                k = self.env.get(v.id)
                if k == "A2" and isinstance(e.slice, ast.Tuple) and len(e.slice.elts) == 2:
                    return f"({self.cur[v.id]} {self.nat(e.slice.elts[0])} {self.nat(e.slice.elts[1])})"
                if k == "A1":
                    return f"({self.cur[v.id]} {self.nat(e.slice)})"
                if k == "V":
                    s = e.slice
                    if isinstance(s, ast.UnaryOp) and isinstance(s.op, ast.USub) and isinstance(s.operand, ast.Constant):
                        return f"({self.cur[v.id]}.f ({self.cur[v.id]}.n - {s.operand.value}))"
                    return f"({self.cur[v.id]}.f {self.nat(s)})"
            raise Unsupported("subscript")
        if isinstance(e, ast.Call):
            f = e.func
            if isinstance(f, ast.Name) and f.id == "sum" and len(e.args) == 1:
                return self.sum_(e.args[0])
            if isinstance(f, ast.Name) and f.id == "float" and len(e.args) == 1:
                return self.rat(e.args[0])
            if isinstance(f, ast.Name) and self.env.get(f.id) == "F2" and len(e.args) == 2:
                return f"({self.cur[f.id]} {self.nat(e.args[0])} {self.nat(e.args[1])})"
            if isinstance(f, ast.Name) and self.env.get(f.id) == "F1" and len(e.args) == 1:
                return f"({self.cur[f.id]} {self.nat(e.args[0])})"
            if isinstance(f, ast.Attribute) and f.attr == "sum" and not e.args and isinstance(f.value, ast.Name) \
                    and self.env.get(f.value.id) == "A2":
                r, c = self.meta[f.value.id]
                return f"(sum2 {r} {c} {self.cur[f.value.id]})"
        raise Unsupported(f"expression {ast.dump(e)[:90]}")

    def rank(self, e):
        """0 scalar, 1 vector-valued, 2 matrix-valued (whole-array arithmetic such as `1 - Y`, `1 - XY - XX - YX`, `XY.T`)"""
        if isinstance(e, ast.Constant):
            return 0
        if isinstance(e, ast.Name):
            return {"V": 1, "A1": 1, "A2": 2}.get(self.env.get(e.id), 0)
        if isinstance(e, ast.UnaryOp):
            return self.rank(e.operand)
        if isinstance(e, ast.BinOp):
            return max(self.rank(e.left), self.rank(e.right))
        if isinstance(e, ast.Attribute) and e.attr == "T":
            return self.rank(e.value)
        return 0

    def at(self, e, idx):
        """pointwise value of a whole-array expression at the index terms `idx`"""
        if isinstance(e, ast.Name):
            k = self.env.get(e.id)
            if k == "V":
                return f"({self.cur[e.id]}.f {idx[0]})"
            if k == "A1":
                return f"({self.cur[e.id]} {idx[0]})"
            if k == "A2":
                return f"({self.cur[e.id]} {idx[0]} {idx[1]})"
            return self.rat(e)
        if isinstance(e, ast.Constant):
            return self.rat(e)
        if isinstance(e, ast.UnaryOp) and isinstance(e.op, ast.USub):
            return f"(-{self.at(e.operand, idx)})"
        if isinstance(e, ast.BinOp):
            op = {ast.Add: "+", ast.Sub: "-", ast.Mult: "*", ast.Div: "/"}.get(type(e.op))
            if op is None:
                raise Unsupported("array operator")
            return f"({self.at(e.left, idx)} {op} {self.at(e.right, idx)})"
        if isinstance(e, ast.Attribute) and e.attr == "T" and self.rank(e.value) == 2:
            return self.at(e.value, [idx[1], idx[0]])
        raise Unsupported(f"array expression {ast.dump(e)[:80]}")

    def vlen(self, e):
        for n in ast.walk(e):
            if isinstance(n, ast.Name) and self.env.get(n.id) == "V":
                return f"{self.cur[n.id]}.n"
            if isinstance(n, ast.Name) and self.env.get(n.id) == "A1" and self.meta.get(n.id):
                return self.meta[n.id][0]
        raise Unsupported("length of a vector expression")

    def sum_(self, g):
        """sum([... for i in range(n)]) / sum(( ... for nbr in G.neighbors(u)))"""
        if isinstance(g, (ast.ListComp, ast.GeneratorExp)) and len(g.generators) == 1 and not g.generators[0].ifs:
            gen = g.generators[0]
            if not isinstance(gen.target, ast.Name):
                raise Unsupported("comprehension target")
            x = gen.target.id
            saved = (self.env.get(x), self.cur.get(x))
            self.env[x], self.cur[x] = "I", x
            try:
                it = gen.iter
                if isinstance(it, ast.Call) and isinstance(it.func, ast.Name) and it.func.id == "range" and len(it.args) == 1:
                    return f"(sumTo {self.nat(it.args[0])} (fun {x} => {self.rat(g.elt)}))"
                nb = self.neighbors(it)
                if nb:
                    return f"(sumRat (({nb}).map fun {x} => {self.rat(g.elt)}))"
            finally:
                if saved[0] is None:
                    self.env.pop(x, None); self.cur.pop(x, None)
                else:
                    self.env[x], self.cur[x] = saved
        raise Unsupported("sum of something else")

    def neighbors(self, it):
        if isinstance(it, ast.Call) and isinstance(it.func, ast.Attribute) and it.func.attr == "neighbors" \
                and isinstance(it.func.value, ast.Name) and self.env.get(it.func.value.id) == "G" and len(it.args) == 1:
            return f"nbrs {self.nat(it.args[0])}"
        return None

    def cond(self, c):
        if isinstance(c, ast.BoolOp):
            j = " ∨ " if isinstance(c.op, ast.Or) else " ∧ "
            return "(" + j.join(self.cond(v) for v in c.values) + ")"
        if isinstance(c, ast.Compare) and len(c.ops) == 1 and isinstance(c.ops[0], (ast.Eq, ast.NotEq)):
            sym = "=" if isinstance(c.ops[0], ast.Eq) else "≠"
            l, r = c.left, c.comparators[0]
            if self.is_index_expr(l) and self.is_index_expr(r):
                return f"{self.nat(l)} {sym} {self.nat(r)}"
            return f"{self.rat(l)} {sym} {self.rat(r)}"
        raise Unsupported("condition")

    # ---------------------------------------------------------------- statements
    def bind(self, name, kind, term, ty):
        ln = self.fresh(name)
        self.env[name], self.cur[name] = kind, ln
        return f"let {ln} : {ty} := {term}"

    def mutated(self, stmts):
        out = []
        for st in ast.walk(ast.Module(body=list(stmts), type_ignores=[])):
            tgt = None
            if isinstance(st, ast.Assign) and len(st.targets) == 1:
                tgt = st.targets[0]
            elif isinstance(st, ast.AugAssign):
                tgt = st.target
            if isinstance(tgt, ast.Subscript) and isinstance(tgt.value, ast.Name) and self.env.get(tgt.value.id) in ("A1", "A2"):
                if tgt.value.id not in out:
                    out.append(tgt.value.id)
        return out

    def block(self, stmts, ind):
        lines = []
        for k, st in enumerate(stmts):
            if isinstance(st, ast.Expr) and isinstance(st.value, ast.Constant):
                continue
            if isinstance(st, ast.If) and len(st.body) == 1 and isinstance(st.body[0], ast.Continue) and not st.orelse:
                return lines, (self.cond(st.test), stmts[k + 1:])       # caller wraps the rest
            lines += [ind + l for l in self.stmt(st, ind)]
        return lines, None

    def stmt(self, st, ind):
        if isinstance(st, ast.Assign) and len(st.targets) == 1:
            return self.assign(st.targets[0], st.value)
        if isinstance(st, ast.AugAssign) and isinstance(st.op, ast.Add):
            return self.assign(st.target, ast.BinOp(left=st.target, op=ast.Add(), right=st.value))
        if isinstance(st, ast.If):
            return self.ifscalar(st)
        if isinstance(st, ast.For):
            return self.forloop(st, ind)
        raise Unsupported(f"statement {type(st).__name__}")

    def assign(self, tgt, val):
        # attribute assignment  name.shape = ...
        if isinstance(tgt, ast.Attribute) and tgt.attr == "shape" and isinstance(tgt.value, ast.Name):
            nm = tgt.value.id
            k = self.env.get(nm)
            if k == "V":                    # flat vector viewed as a matrix
                if isinstance(val, ast.Name) and self.env.get(val.id) == "SHAPE":
                    r, c = self.meta[val.id]
                elif isinstance(val, ast.Tuple) and len(val.elts) == 2:
                    r, c = self.nat(val.elts[0]), self.nat(val.elts[1])
                else:
                    raise Unsupported("reshape to something else than a shape")
                old = self.cur[nm]
                line = self.bind(nm, "A2", f"fun a b => {old}.f (a * {c} + b)", ARR_TY["A2"])
                self.meta[nm] = (r, c)
                return [line]
            if k == "A2":                   # matrix flattened back (row-major)
                r, c = self.meta[nm]
                if isinstance(val, ast.Tuple) and len(val.elts) == 2 and isinstance(val.elts[1], ast.Constant) and val.elts[1].value == 1:
                    val = val.elts[0]                      # column vector (n, 1): flattened by the final `.T[0]`
                want = self.nat(val)
                if want.replace("(", "").replace(")", "") != f"{r} * {c}":
                    raise Unsupported(f"flatten to {want}")
                old = self.cur[nm]
                return [self.bind(nm, "V", f"⟨{r} * {c}, fun k => {old} (k / {c}) (k % {c})⟩", "V")]
            raise Unsupported("shape assignment")
        if isinstance(tgt, ast.Subscript) and isinstance(tgt.value, ast.Name):
            nm = tgt.value.id
            k = self.env.get(nm)
            if k == "A1":
                return [f"let {self.cur[nm]} := upd1 {self.cur[nm]} {self.nat(tgt.slice)} {self.rat(val)}"]
            if k == "A2" and isinstance(tgt.slice, ast.Tuple):
                a, b = tgt.slice.elts
                return [f"let {self.cur[nm]} := upd2 {self.cur[nm]} {self.nat(a)} {self.nat(b)} {self.rat(val)}"]
            raise Unsupported("subscript assignment")
        if not isinstance(tgt, ast.Name):
            raise Unsupported("assignment target")
        nm = tgt.id
        # np.zeros
        if is_np(val, "zeros") and len(val.args) == 1:
            a = val.args[0]
            if isinstance(a, ast.Name) and self.env.get(a.id) == "SHAPE":
                line = self.bind(nm, "A2", "fun _ _ => 0", ARR_TY["A2"])
                self.meta[nm] = self.meta[a.id]
                return [line]
            if isinstance(a, ast.Tuple) and len(a.elts) == 2:
                line = self.bind(nm, "A2", "fun _ _ => 0", ARR_TY["A2"])
                self.meta[nm] = (self.nat(a.elts[0]), self.nat(a.elts[1]))
                return [line]
            line = self.bind(nm, "A1", "fun _ => 0", ARR_TY["A1"])
            self.meta[nm] = (self.nat(a),)
            return [line]
        # slices of the flat state
        if isinstance(val, ast.Subscript) and isinstance(val.value, ast.Name) and self.env.get(val.value.id) == "V" \
                and isinstance(val.slice, ast.Slice):
            base = self.cur[val.value.id]
            lo, hi = val.slice.lower, val.slice.upper
            if lo is None and hi is not None:
                if isinstance(hi, ast.UnaryOp) and isinstance(hi.op, ast.USub):
                    return [self.bind(nm, "V", f"⟨{base}.n - {self.nat(hi.operand)}, fun i => {base}.f i⟩", "V")]
                return [self.bind(nm, "V", f"⟨{self.nat(hi)}, fun i => {base}.f i⟩", "V")]
            if hi is None and lo is not None:
                return [self.bind(nm, "V", f"⟨{base}.n - {self.nat(lo)}, fun i => {base}.f ({self.nat(lo)} + i)⟩", "V")]
            if hi is not None and lo is not None:
                return [self.bind(nm, "V", f"⟨{self.nat(hi)} - {self.nat(lo)}, fun i => {base}.f ({self.nat(lo)} + i)⟩", "V")]
            raise Unsupported("slice form")
        if self.is_index_expr(val):
            return [self.bind(nm, "N", self.nat(val), "Nat")]
        # np.array([a if c else b for v in X])
        if is_np(val, "array") and len(val.args) == 1 and isinstance(val.args[0], ast.ListComp):
            lc = val.args[0]
            g = lc.generators[0]
            if len(lc.generators) == 1 and not g.ifs and isinstance(g.target, ast.Name) and self.rank(g.iter) == 1 \
                    and isinstance(lc.elt, ast.IfExp):
                v = g.target.id
                saved = (self.env.get(v), self.cur.get(v))
                self.env[v], self.cur[v] = "S", self.at(g.iter, ["i"])
                try:
                    term = f"fun i => if {self.cond(lc.elt.test)} then {self.rat(lc.elt.body)} else {self.rat(lc.elt.orelse)}"
                finally:
                    if saved[0] is None:
                        self.env.pop(v); self.cur.pop(v)
                    else:
                        self.env[v], self.cur[v] = saved
                ln = self.vlen(g.iter)
                line = self.bind(nm, "A1", term, ARR_TY["A1"])
                self.meta[nm] = (ln,)
                return [line]
            raise Unsupported("list comprehension")
        # whole-array arithmetic
        if self.rank(val) == 1 and isinstance(val, (ast.BinOp, ast.UnaryOp)):
            ln = self.vlen(val)
            line = self.bind(nm, "A1", f"fun i => {self.at(val, ['i'])}", ARR_TY["A1"])
            self.meta[nm] = (ln,)
            return [line]
        if self.rank(val) == 2 and isinstance(val, (ast.BinOp, ast.UnaryOp, ast.Attribute)):
            dims = next(self.meta[n.id] for n in ast.walk(val) if isinstance(n, ast.Name) and self.env.get(n.id) == "A2")
            line = self.bind(nm, "A2", f"fun a b => {self.at(val, ['a', 'b'])}", ARR_TY["A2"])
            self.meta[nm] = dims
            return [line]
        # np.concatenate((col, col, ...), axis=0).T[0]
        if isinstance(val, ast.Subscript) and isinstance(val.value, ast.Attribute) and val.value.attr == "T" \
                and is_np(val.value.value, "concatenate") and isinstance(val.slice, ast.Constant) and val.slice.value == 0:
            return [self.bind(nm, "V", self.concat(val.value.value), "V")]
        # concatenation of flat vectors / [scalar] lists, optionally wrapped in np.array(...)
        if is_np(val, "array") and len(val.args) == 1 and is_np(val.args[0], "concatenate"):
            val = val.args[0]
        if is_np(val, "concatenate"):
            return [self.bind(nm, "V", self.concat(val), "V")]
        return [self.bind(nm, "S", self.rat(val), "Rat")]

    def concat(self, val):
        for kw in val.keywords:
            if not (kw.arg == "axis" and isinstance(kw.value, ast.Constant) and kw.value.value == 0):
                raise Unsupported("concatenate keyword")
        parts = val.args[0]
        if not isinstance(parts, (ast.Tuple, ast.List)):
            raise Unsupported("concatenate argument")
        terms = []
        for p in parts.elts:
            if isinstance(p, (ast.List, ast.Tuple)):
                terms.append("(V.ofList [" + ", ".join(self.rat(x) for x in p.elts) + "])")
            elif isinstance(p, ast.Name) and self.env.get(p.id) == "V":
                terms.append(self.cur[p.id])
            elif isinstance(p, ast.Name) and self.env.get(p.id) == "A1":
                terms.append(f"(⟨{self.meta[p.id][0]}, {self.cur[p.id]}⟩ : V)")
            elif isinstance(p, ast.Subscript) and isinstance(p.value, ast.Name) and self.env.get(p.value.id) == "A1" \
                    and isinstance(p.slice, ast.Tuple) and len(p.slice.elts) == 2 and isinstance(p.slice.elts[0], ast.Slice) \
                    and isinstance(p.slice.elts[1], ast.Constant) and p.slice.elts[1].value is None:
                terms.append(f"(⟨{self.meta[p.value.id][0]}, {self.cur[p.value.id]}⟩ : V)")       # a[:, None]: column vector
            else:
                raise Unsupported("concatenate part")
        out = terms[-1]
        for t in reversed(terms[:-1]):
            out = f"(V.append {t} {out})"
        return out

    def ifscalar(self, st):
        """if c: a = e1; b = e2  else: a = e3; b = e4   (or without else when the names are already bound)"""
        def table(body):
            d = {}
            for s in body:
                if not (isinstance(s, ast.Assign) and len(s.targets) == 1 and isinstance(s.targets[0], ast.Name)):
                    raise Unsupported("if body")
                d[s.targets[0].id] = s.value
            return d
        c = self.cond(st.test)
        t1 = table(st.body)
        t2 = table(st.orelse) if st.orelse else None
        if t2 is not None and set(t1) != set(t2):
            raise Unsupported("if/else assign different names")
        # right-hand sides are evaluated in the environment before the if (no dependence between the assigned names)
        used = {n.id for v in list(t1.values()) + (list(t2.values()) if t2 else []) for n in ast.walk(v) if isinstance(n, ast.Name)}
        if used & set(t1):
            raise Unsupported("if branch reads a name it assigns")
        terms = {}
        for nm in t1:
            a = self.rat(t1[nm])
            if t2 is not None:
                b = self.rat(t2[nm])
            elif self.env.get(nm) == "S":
                b = self.cur[nm]
            else:
                raise Unsupported("conditional assignment of an unbound name")
            terms[nm] = f"if {c} then {a} else {b}"
        return [self.bind(nm, "S", t, "Rat") for nm, t in terms.items()]

    def forloop(self, st, ind):
        if st.orelse:
            raise Unsupported("for/else")
        tgt, it = st.target, st.iter
        pre = []
        # iteration list and loop variables
        if isinstance(it, ast.Call) and isinstance(it.func, ast.Name) and it.func.id == "range" and len(it.args) == 1 \
                and isinstance(tgt, ast.Name):
            lst, var = f"List.range {self.nat(it.args[0])}", tgt.id
            binds = {}
        elif self.neighbors(it) and isinstance(tgt, ast.Name):
            lst, var, binds = self.neighbors(it), tgt.id, {}
        elif isinstance(it, ast.Name) and self.env.get(it.id) == "NL" and isinstance(tgt, ast.Name):
            lst, var, binds = ("nodelist" if self.labelled else "List.range N"), tgt.id, {}
        elif isinstance(it, ast.Call) and isinstance(it.func, ast.Name) and it.func.id == "enumerate" and len(it.args) == 1 \
                and isinstance(it.args[0], ast.Call) and isinstance(it.args[0].func, ast.Name) and it.args[0].func.id == "zip" \
                and isinstance(tgt, ast.Tuple) and len(tgt.elts) == 2 and isinstance(tgt.elts[0], ast.Name) \
                and isinstance(tgt.elts[1], ast.Tuple):
            # for index, (node, a, b..) in enumerate(zip(nodelist, A, B..)):   node ↦ index
            zargs = it.args[0].args
            if not (isinstance(zargs[0], ast.Name) and self.env.get(zargs[0].id) == "NL"):
                raise Unsupported("zip must start with nodelist")
            names = tgt.elts[1].elts
            if len(names) != len(zargs) or not all(isinstance(n, ast.Name) for n in names):
                raise Unsupported("zip arity")
            lst, var = "List.range N", tgt.elts[0].id
            binds = {names[0].id: ("I", f"(nodelist.getD {var} 0)" if self.labelled else var)}
            for n, a in zip(names[1:], zargs[1:]):
                if not (isinstance(a, ast.Name) and self.env.get(a.id) == "V"):
                    raise Unsupported("zip of a non-vector")
                binds[n.id] = ("S", f"{self.cur[a.id]}.f {var}")
        else:
            raise Unsupported("loop header")
        muts = self.mutated(st.body)
        if not muts:
            raise Unsupported("loop without array effect")
        saved_env, saved_cur = dict(self.env), dict(self.cur)
        self.env[var], self.cur[var] = "I", var
        body_pre = []
        for nm, (k, term) in binds.items():
            if k == "I":
                self.env[nm], self.cur[nm] = "I", term
            else:
                self.env[nm], self.cur[nm] = "S", nm
                body_pre.append(f"let {nm} : Rat := {term}")
        names = [self.cur[m] for m in muts]
        tys = [ARR_TY[self.env[m]] for m in muts]
        tup = names[0] if len(names) == 1 else "(" + ", ".join(names) + ")"
        tty = tys[0] if len(tys) == 1 else "(" + " × ".join(f"({t})" for t in tys) + ")"
        sub = "  "
        body, cont = self.block(st.body, sub)
        lines = [f"let {tup} := ({lst}).foldl (fun (st : {tty}) {var} =>"]
        if len(names) > 1:
            lines.append(f"{sub}let {tup} := st")
        else:
            lines.append(f"{sub}let {names[0]} := st")
        lines += [sub + l for l in body_pre] + body
        while cont is not None:
            c, rest = cont
            lines.append(f"{sub}if {c} then {tup} else")
            body, cont = self.block(rest, sub)
            lines += body
        lines.append(f"{sub}{tup}) {tup}")
        # restore scalars bound inside the loop; arrays keep their (shadowed) names
        for k in list(self.env):
            if k not in saved_env:
                self.env.pop(k); self.cur.pop(k, None)
        for k, v in saved_env.items():
            if self.env.get(k) not in ("A1", "A2"):
                self.env[k], self.cur[k] = v, saved_cur[k]
        return lines

    def emit(self):
        lines = []
        ret = None
        for st in self.node.body:
            if isinstance(st, ast.Expr) and isinstance(st.value, ast.Constant):
                continue
            if ret is not None:
                raise Unsupported("code after return")
            if isinstance(st, ast.Return):
                v = st.value
                if is_np(v, "array") and len(v.args) == 1:
                    v = v.args[0]
                if isinstance(v, ast.Name) and self.env.get(v.id) == "V":
                    ret = self.cur[v.id]
                elif isinstance(v, ast.Name) and self.env.get(v.id) == "A1":
                    ret = f"⟨{self.meta[v.id][0]}, {self.cur[v.id]}⟩"
                elif is_np(v, "concatenate"):
                    ret = self.concat(v)
                else:
                    raise Unsupported("return value")
                continue
            lines += ["  " + l for l in self.stmt(st, "  ")]
        if ret is None:
            raise Unsupported("no return")
        ps = []
        for p, k in self.params:
            if k in LEAN_PARAM:
                ps.append(f"({self.cur.get(p, p)} : {LEAN_PARAM[k]})")
            elif k == "SHAPE":
                ps.append("(rowsA colsB : Nat)")
            elif k == "G":
                ps.append("(nodelist : List Nat) (idx : Nat → Nat) (nbrs : Nat → List Nat)" if self.labelled else "(N : Nat) (nbrs : Nat → List Nat)")
        if self.labelled:
            lines = ["  let N : Nat := nodelist.length"] + lines
        head = f"/-- generated from `{self.node.name}` (EoN/analytic.py:{self.node.lineno})" \
               + (", node labels kept: `nodelist` lists the labels, `idx` is `index_of_node`, `nbrs`/`tr`/`rr` take labels" if self.labelled else "") + " -/\n" \
               f"def {self.lean_name} {' '.join(ps)} : V :=\n"
        return head + "\n".join(lines) + ("\n" if lines else "") + f"  {ret}\n"


HEADER = '''import EoNVerif.Gen.Arr
import EoNVerif.Model.ODE2
/-!
GENERATED by harness/py2lean_loops.py from EoN/analytic.py — do not edit; regenerated on every check run.
source sha1: {sha}
-/
set_option linter.unusedVariables false
namespace Gen
open ODE (sumTo sum2)

'''


def translate(repo=REPO):
    src = open(os.path.join(repo, "EoN", "analytic.py")).read()
    tree = ast.parse(src)
    fns = {n.name: n for n in tree.body if isinstance(n, ast.FunctionDef)}
    out, errors, sources = [], {}, {}
    for name, (lean_name, sig) in SIGS.items():
        if name not in fns:
            errors[name] = "function not found"
            continue
        try:
            out.append(Fn(fns[name], lean_name, sig).emit())
            sources[name] = ast.unparse(fns[name])
        except Unsupported as ex:
            errors[name] = f"unsupported: {ex}"
    sha = hashlib.sha1("\n".join(sources.get(n, "") for n in SIGS).encode()).hexdigest()
    # second file: the four graph right-hand sides with node LABELS kept (the index_of_node mapping is explicit): C14
    outL, errL = [], {}
    for name, (lean_name, sig) in SIGS.items():
        if " G:G " not in " " + sig + " " or name not in fns:
            continue
        try:
            outL.append(Fn(fns[name], lean_name + "L", sig, labelled=True).emit())
        except Unsupported as ex:
            errL[name + " (labelled)"] = f"unsupported: {ex}"
    translate.labelled_text = (HEADER.format(sha=sha).replace("namespace Gen\n", "namespace GenL\nopen Gen\n") + "\n".join(outL) + "\nend GenL\n") if not errL else ""
    errors.update(errL)
    return HEADER.format(sha=sha) + "\n".join(out) + "\nend Gen\n", errors


def regenerate():
    import warnings
    target = os.path.join(os.path.dirname(os.path.abspath(__file__)), "..", "lean", "EoNVerif", "Gen", "AnalyticLoops.lean")
    with warnings.catch_warnings():
        warnings.simplefilter("ignore")
        text, errors = translate()
    old = open(target).read() if os.path.exists(target) else None
    if old != text:
        tmp = target + ".tmp%d" % os.getpid()
        with open(tmp, "w") as f:
            f.write(text)
        os.replace(tmp, target)
    ltext = getattr(translate, "labelled_text", "")
    ltarget = os.path.join(os.path.dirname(target), "AnalyticLoopsL.lean")
    lold = open(ltarget).read() if os.path.exists(ltarget) else None
    if ltext and lold != ltext:
        tmp = ltarget + ".tmp%d" % os.getpid()
        with open(tmp, "w") as f:
            f.write(ltext)
        os.replace(tmp, ltarget)
    return old != text or (bool(ltext) and lold != ltext), errors


def main():
    changed, errors = regenerate()
    print("py2lean_loops: Gen/AnalyticLoops.lean %s (%d functions)" % ("rewritten" if changed else "up to date", len(SIGS) - len(errors)))
    for n, e in errors.items():
        print(f"py2lean_loops: {n}: {e}")
    return 1 if errors else 0


if __name__ == "__main__":
    sys.exit(main())
