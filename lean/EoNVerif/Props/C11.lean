import EoNVerif.Model.EventSIR
