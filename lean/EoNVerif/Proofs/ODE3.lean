import EoNVerif.Proofs.ODE2
import EoNVerif.Proofs.ODESemi
import Mathlib.Data.Nat.Choose.Sum
import Mathlib.Tactic.LinearCombination
/-!
Helper lemmas for C07b (more reductions between the ODE models of `EoN.analytic`):

* regular-graph reductions of the heterogeneous pairwise models (`sirHetPW`, `sisHetPW`) to the homogeneous pairwise
  models, including the behaviour of the `x[x==0] = 1` guards (`nz`);
* regular-graph reduction of the SIS pair-based model (`sisPairBased`) to `sisHomPW`;
* the change of variables EBCM → SIR compact effective degree (`Skappa`, `dSkappa`), the binomial sums it needs and
  the semiconjugacy identities.
-/
namespace ODE

/-! ## heterogeneous pairwise on a regular graph -/

/-- all pair mass in the degree-class pair `(m, m)` -/
def only2 (m : Nat) (x : Rat) : Nat → Nat → Rat := fun k l => if k = m ∧ l = m then x else 0

theorem only2_self (m : Nat) (x : Rat) : only2 m x m m = x := by simp [only2]

theorem only2_off (m : Nat) (x : Rat) (k l : Nat) (h : ¬ (k = m ∧ l = m)) : only2 m x k l = 0 := by
  simp only [only2, if_neg h]

theorem only_self (m : Nat) (x : Rat) : only m x m = x := by simp [only]

theorem only_off (m : Nat) (x : Rat) (k : Nat) (h : k ≠ m) : only m x k = 0 := by simp [only, h]

/-- row sums of `only2`: `Σ_l only2 m x k l = only m x k` -/
theorem sumTo_only2_row (K m : Nat) (hm : m < K) (x : Rat) (k : Nat) :
    sumTo K (fun l => only2 m x k l) = only m x k := by
  by_cases hk : k = m
  · subst hk
    rw [sumTo_single K k hm _ (fun l hl => only2_off k x k l (fun h => hl h.2)), only2_self, only_self]
  · rw [ODE.sumTo_congr K _ (fun _ => 0) (fun l _ => only2_off m x k l (fun h => hk h.1)), sumTo_const_zero,
      only_off m x k hk]

/-- SIR heterogeneous pairwise, all mass in class `m` (degree `Ks m = n`): the occupied class obeys the homogeneous
pairwise equations and every other entry of the right-hand side vanishes.  The guards `nz (Ks m)`, `nz (S m)` are
inactive because `n ≠ 0`, `S ≠ 0`. -/
theorem hetPW_sir_regular_aux (K m : Nat) (hm : m < K) (Ks : Nat → Rat) (tau gamma n S I SS SI : Rat)
    (hKs : Ks m = n) (hn : n ≠ 0) (hS : S ≠ 0) :
    let r := sirHetPW K tau gamma Ks (only m S) (only m I) (only2 m SS) (only2 m SI)
    let h := sirHomPW n tau gamma S I SI SS
    (r.1 m = h.1 ∧ r.2.1 m = h.2.1 ∧ r.2.2.1 m m = h.2.2.2 ∧ r.2.2.2 m m = h.2.2.1) ∧
    (∀ k, k ≠ m → r.1 k = 0 ∧ r.2.1 k = 0) ∧
    (∀ k l, ¬ (k = m ∧ l = m) → r.2.2.1 k l = 0 ∧ r.2.2.2 k l = 0) := by
  intro r h
  have e1 : nz n = n := if_neg hn
  have e2 : nz S = S := if_neg hS
  simp only [r, h, sirHetPW, sirHomPW, sumTo_only2_row K m hm]
  refine ⟨⟨?_, ?_, ?_, ?_⟩, ?_, ?_⟩
  · simp only [only_self]
  · simp only [only_self]
  · simp only [only_self, only2_self, hKs, e1, e2]
    field_simp
    ring
  · simp only [only_self, only2_self, hKs, e1, e2]
    field_simp
    ring
  · intro k hk
    simp only [only_off m _ k hk]
    constructor <;> ring
  · intro k l hkl
    have hlk : ¬ (l = m ∧ k = m) := fun h => hkl ⟨h.2, h.1⟩
    simp only [only2_off m _ k l hkl, only2_off m _ l k hlk]
    constructor <;> ring

/-- the SIR guards when they ARE active (`S = 0`, `n ≠ 0`): the code divides by `n * 1`, so the triple terms are
`[SS](n-1)[SI]/n` and `[SI](n-1)[SI]/n`; they vanish when the (consistent) state has `[SS] = [SI] = 0`, whereas the
homogeneous code divides by `S = 0`. -/
theorem hetPW_sir_regular_guard_aux (K m : Nat) (hm : m < K) (Ks : Nat → Rat) (tau gamma n I SS SI : Rat)
    (hKs : Ks m = n) (hn : n ≠ 0) :
    let r := sirHetPW K tau gamma Ks (only m 0) (only m I) (only2 m SS) (only2 m SI)
    r.2.2.1 m m = -2 * tau * (SS * (n - 1) * SI / n) ∧
    r.2.2.2 m m = -gamma * SI + tau * (SS * (n - 1) * SI / n - SI * (n - 1) * SI / n - SI) := by
  intro r
  have e1 : nz n = n := if_neg hn
  have e2 : nz 0 = 1 := if_pos rfl
  simp only [r, sirHetPW, sumTo_only2_row K m hm, only_self, only2_self, hKs, e1, e2, mul_one]
  constructor <;> first | ring | trivial

/-- SIS heterogeneous pairwise, all mass in class `m` (degree `Ks m = n`, `N_m = Ntot`, `[N_mN_m] = Ntot n`): the
occupied class obeys the homogeneous pairwise equations and every other entry of the right-hand side vanishes.  The
guard `nz (Ks m * S m)` is inactive because `n * S ≠ 0`. -/
theorem hetPW_sis_regular_aux (K m : Nat) (hm : m < K) (Ks : Nat → Rat) (tau gamma n Ntot S SS SI : Rat)
    (hKs : Ks m = n) (hnS : n * S ≠ 0) :
    let r := sisHetPW K tau gamma Ks (only m Ntot) (only2 m (Ntot * n)) (only m S) (only2 m SS) (only2 m SI)
    let h := sisHomPW Ntot n tau gamma S SI SS
    (r.1 m = h.1 ∧ r.2.1 m m = h.2.2 ∧ r.2.2 m m = h.2.1) ∧
    (∀ k, k ≠ m → r.1 k = 0) ∧
    (∀ k l, ¬ (k = m ∧ l = m) → r.2.1 k l = 0 ∧ r.2.2 k l = 0) := by
  intro r h
  have e1 : nz (n * S) = n * S := if_neg hnS
  have hn : n ≠ 0 := left_ne_zero_of_mul hnS
  have hS : S ≠ 0 := right_ne_zero_of_mul hnS
  simp only [r, h, sisHetPW, sisHomPW, sumTo_only2_row K m hm]
  refine ⟨⟨?_, ?_, ?_⟩, ?_, ?_⟩
  · simp only [only_self]
  · simp only [only_self, only2_self, hKs, e1]
    field_simp
    ring
  · simp only [only_self, only2_self, hKs, e1]
    field_simp
    ring
  · intro k hk
    simp only [only_off m _ k hk]
    ring
  · intro k l hkl
    have hlk : ¬ (l = m ∧ k = m) := fun h => hkl ⟨h.2, h.1⟩
    simp only [only2_off m _ k l hkl, only2_off m _ l k hlk]
    constructor <;> ring

/-- the SIS guard when it IS active (`n * S = 0`): the code divides by 1 -/
theorem hetPW_sis_regular_guard_aux (K m : Nat) (hm : m < K) (Ks : Nat → Rat) (tau gamma n Ntot S SS SI : Rat)
    (hKs : Ks m = n) (hnS : n * S = 0) :
    let r := sisHetPW K tau gamma Ks (only m Ntot) (only2 m (Ntot * n)) (only m S) (only2 m SS) (only2 m SI)
    r.2.1 m m = 2 * gamma * SI - 2 * tau * (SS * (n - 1) * SI) ∧
    r.2.2 m m = gamma * (Ntot * n - SS - 2 * SI - SI) + tau * (SS * (n - 1) * SI - SI * (n - 1) * SI - SI) := by
  intro r
  have e1 : nz (n * S) = 1 := if_pos hnS
  simp only [r, sisHetPW, sumTo_only2_row K m hm, only_self, only2_self, hKs, e1, div_one]
  constructor <;> ring

/-! ## SIS pair-based on a regular graph with node-uniform state -/

/-- SIS pair-based model on a graph where the edge's end nodes `i`, `j` have degree `n` (e.g. an `n`-regular graph) with uniform node state `y = ⟨Y_i⟩` and uniform edge state
`xy = ⟨X_iY_j⟩`, `xx = ⟨X_iX_j⟩`: scaled by `Ntot` (nodes) and `Ntot n` (directed edges) it is the homogeneous
pairwise SIS model with `[S] = Ntot (1-y)`, `[SI] = Ntot n xy`, `[SS] = Ntot n xx`.  The first component of
`sisPairBased` is `dY/dt`, hence the sign. -/
theorem pairBased_sis_regular_aux (nbrs : Nat → List Nat) (n : Nat) (tau gamma y xy xx Ntot : Rat)
    (i j : Nat) (hdi : (nbrs i).length = n) (hdj : (nbrs j).length = n) (hndi : (nbrs i).Nodup) (hndj : (nbrs j).Nodup)
    (hij : j ∈ nbrs i) (hji : i ∈ nbrs j) (hx : 1 - y ≠ 0) (hn : (n : Rat) ≠ 0) (hN : Ntot ≠ 0) :
    let r := sisPairBased nbrs (fun _ _ => tau) (fun _ => gamma) (fun _ => y) (fun _ _ => xy) (fun _ _ => xx)
    let h := sisHomPW Ntot (n : Rat) tau gamma (Ntot * (1 - y)) (Ntot * n * xy) (Ntot * n * xx)
    Ntot * r.1 i = -h.1 ∧ Ntot * n * r.2.1 i j = h.2.1 ∧ Ntot * n * r.2.2 i j = h.2.2 := by
  have hc : (nbrs i).contains j = true := by simpa using hij
  have l1 := filter_ne_length_cast (nbrs j) i n hndj hji hdj
  have l2 := filter_ne_length_cast (nbrs i) j n hndi hij hdi
  have hxi : xinv (1 - y) = 1 / (1 - y) := if_neg hx
  dsimp only [sisPairBased, sisHomPW]
  rw [if_pos hc, if_pos hc]
  simp only [sumRat_map_const, l1, l2, hdi, hxi]
  refine ⟨by ring, ?_, ?_⟩
  · field_simp; ring
  · field_simp; ring

/-! ## binomial sums in the `sumTo` form -/

theorem sumTo_eq_finset (K : Nat) (f : Nat → Rat) : sumTo K f = ∑ k ∈ Finset.range K, f k := by
  induction K with
  | zero => simp [sumTo_zero_left]
  | succ K ih => rw [sumTo_succ, Finset.sum_range_succ, ih]

/-- a sum over `κ < K` of terms vanishing for `κ > k` (where `k < K`) -/
theorem sumTo_trunc (K k : Nat) (hk : k < K) (f : Nat → Rat) (h : ∀ κ, k < κ → f κ = 0) :
    sumTo K f = ∑ κ ∈ Finset.range (k + 1), f κ := by
  rw [sumTo_eq_finset]
  symm
  apply Finset.sum_subset
  · intro x hx
    simp only [Finset.mem_range] at hx ⊢
    omega
  · intro x _ hx
    simp only [Finset.mem_range] at hx
    exact h x (by omega)

/-- binomial theorem in the `sumTo` form -/
theorem sumTo_binom (K k : Nat) (hk : k < K) (z r : Rat) :
    sumTo K (fun κ => (Nat.choose k κ : Rat) * z ^ κ * r ^ (k - κ)) = (z + r) ^ k := by
  rw [sumTo_trunc K k hk _ (fun κ h => by simp [Nat.choose_eq_zero_of_lt h]), add_pow]
  apply Finset.sum_congr rfl
  intro κ _
  ring

theorem sumTo_binom1 (K k : Nat) (hk : k < K) (z r : Rat) :
    sumTo K (fun κ => kf κ * ((Nat.choose k κ : Rat) * z ^ κ * r ^ (k - κ))) = kf k * z * (z + r) ^ (k - 1) := by
  rw [sumTo_trunc K k hk _ (fun κ h => by simp [Nat.choose_eq_zero_of_lt h])]
  cases k with
  | zero => simp [kf]
  | succ k =>
    rw [Finset.sum_range_succ', Nat.add_sub_cancel, add_pow, Finset.mul_sum]
    simp only [kf, Nat.cast_zero, zero_mul, add_zero]
    apply Finset.sum_congr rfl
    intro κ _
    have h := Nat.add_one_mul_choose_eq k κ
    have h' : ((k + 1 : Nat) : Rat) * (Nat.choose k κ : Rat) = (Nat.choose (k + 1) (κ + 1) : Rat) * ((κ + 1 : Nat) : Rat) := by
      exact_mod_cast h
    rw [Nat.add_sub_add_right]
    push_cast at h' ⊢
    linear_combination (z ^ (κ + 1) * r ^ (k - κ)) * (-h')
theorem sumTo_binom2 (K k : Nat) (hk : k < K) (z r : Rat) :
    sumTo K (fun κ => kf κ * (kf κ - 1) * ((Nat.choose k κ : Rat) * z ^ κ * r ^ (k - κ)))
      = kf k * (kf k - 1) * z ^ 2 * (z + r) ^ (k - 2) := by
  rw [sumTo_trunc K k hk _ (fun κ h => by simp [Nat.choose_eq_zero_of_lt h])]
  match k with
  | 0 => simp [kf]
  | 1 => simp [kf, Finset.sum_range_succ]
  | k + 2 =>
    rw [Finset.sum_range_succ', Finset.sum_range_succ', Nat.add_sub_cancel, add_pow, Finset.mul_sum]
    simp only [kf, Nat.cast_zero, zero_mul, zero_add, add_zero, Nat.cast_one, sub_self, mul_zero]
    apply Finset.sum_congr rfl
    intro κ _
    have h1 : ((k + 1 + 1 : Nat) : Rat) * (Nat.choose (k + 1) (κ + 1) : Rat)
        = (Nat.choose (k + 1 + 1) (κ + 1 + 1) : Rat) * ((κ + 1 + 1 : Nat) : Rat) := by
      exact_mod_cast Nat.add_one_mul_choose_eq (k + 1) (κ + 1)
    have h2 : ((k + 1 : Nat) : Rat) * (Nat.choose k κ : Rat) = (Nat.choose (k + 1) (κ + 1) : Rat) * ((κ + 1 : Nat) : Rat) := by
      exact_mod_cast Nat.add_one_mul_choose_eq k κ
    have e : k + 2 - (κ + 1 + 1) = k - κ := by omega
    rw [e]
    push_cast at h1 h2 ⊢
    linear_combination (z ^ (κ + 1 + 1) * r ^ (k - κ)) * ((-(κ : Rat) - 1) * h1 - ((k : Rat) + 1 + 1) * h2)

/-! ## EBCM → SIR compact effective degree: the change of variables -/
section CompactED
variable (K : Nat) (c : Nat → Rat) (N tau gamma phiS0 phiR0 : Rat)

/-- probability that a neighbour of a test node has not transmitted to it and is not recovered: `ζ = θ - φ_R = φ_S + φ_I` -/
def zetaOf (theta : Rat) : Rat := theta - phiR tau gamma phiR0 theta

/-- number of susceptible nodes with `κ` non-recovered neighbours, as a function of θ: a degree-`k` node is
susceptible with probability `θ^k`, and then each neighbour is independently non-recovered with probability `ζ/θ`
and recovered with probability `φ_R/θ`:  `S_κ = N Σ_k c_k C(k,κ) ζ^κ φ_R^(k-κ)` -/
def Skappa (theta : Rat) (κ : Nat) : Rat :=
  N * sumTo K (fun k => c k * ((Nat.choose k κ : Rat) * zetaOf tau gamma phiR0 theta ^ κ
                                * phiR tau gamma phiR0 theta ^ (k - κ)))

/-- the θ-derivative of `Skappa` (`dζ/dθ = 1 + γ/τ`, `dφ_R/dθ = -γ/τ`; justified by `Skappa_eval`, `dSkappa_eval`) -/
def dSkappa (theta : Rat) (κ : Nat) : Rat :=
  N * sumTo K (fun k => c k * ((Nat.choose k κ : Rat)
        * (kf κ * zetaOf tau gamma phiR0 theta ^ (κ - 1) * (1 + gamma / tau) * phiR tau gamma phiR0 theta ^ (k - κ)
           + zetaOf tau gamma phiR0 theta ^ κ
              * (kf (k - κ) * phiR tau gamma phiR0 theta ^ (k - κ - 1) * (-(gamma / tau))))))

theorem zeta_add_phiR (theta : Rat) : zetaOf tau gamma phiR0 theta + phiR tau gamma phiR0 theta = theta := by
  simp only [zetaOf]; ring

/-- interchange of the κ-sum and the k-sum -/
theorem sumTo_Skappa_weight (w : Nat → Rat) (theta : Rat) :
    sumTo K (fun κ => w κ * Skappa K c N tau gamma phiR0 theta κ)
      = N * sumTo K (fun k => c k * sumTo K (fun κ => w κ * ((Nat.choose k κ : Rat)
          * zetaOf tau gamma phiR0 theta ^ κ * phiR tau gamma phiR0 theta ^ (k - κ)))) := by
  have e1 : ∀ κ, κ < K → w κ * Skappa K c N tau gamma phiR0 theta κ
      = N * sumTo K (fun k => c k * (w κ * ((Nat.choose k κ : Rat)
          * zetaOf tau gamma phiR0 theta ^ κ * phiR tau gamma phiR0 theta ^ (k - κ)))) := by
    intro κ _
    unfold Skappa
    rw [← mul_assoc, mul_comm (w κ) N, mul_assoc, ← ODE.sumTo_mul_left]
    congr 1
    apply ODE.sumTo_congr; intro k _; ring
  rw [ODE.sumTo_congr K _ _ e1, ODE.sumTo_mul_left]
  congr 1
  have e2 := sum2_swap K K (fun κ k => c k * (w κ * ((Nat.choose k κ : Rat)
          * zetaOf tau gamma phiR0 theta ^ κ * phiR tau gamma phiR0 theta ^ (k - κ))))
  unfold sum2 at e2
  rw [e2]
  apply ODE.sumTo_congr; intro k _
  exact ODE.sumTo_mul_left K _ (c k)

/-- the susceptible classes add up to the EBCM susceptible count: `Σ_κ S_κ = N ψ̂(θ)` -/
theorem sum_Skappa (theta : Rat) : sumTo K (Skappa K c N tau gamma phiR0 theta) = N * psiH K c theta := by
  have e := sumTo_Skappa_weight K c N tau gamma phiR0 (fun _ => 1) theta
  simp only [one_mul] at e
  rw [e]
  unfold psiH
  congr 1
  apply ODE.sumTo_congr; intro k hk
  rw [sumTo_binom K k hk, zeta_add_phiR]

/-- `Σ_κ κ S_κ = N ζ ψ̂'(θ)`: the number of (susceptible, non-recovered neighbour) pairs -/
theorem sum_kSkappa (theta : Rat) :
    sumTo K (fun κ => Skappa K c N tau gamma phiR0 theta κ * kf κ)
      = N * zetaOf tau gamma phiR0 theta * psiHP K c theta := by
  rw [ODE.sumTo_congr K _ (fun κ => kf κ * Skappa K c N tau gamma phiR0 theta κ) (fun κ _ => mul_comm _ _),
    sumTo_Skappa_weight K c N tau gamma phiR0 kf theta]
  unfold psiHP
  rw [mul_assoc]
  congr 1
  rw [← ODE.sumTo_mul_left]
  apply ODE.sumTo_congr; intro k hk
  rw [sumTo_binom1 K k hk, zeta_add_phiR]
  ring

/-- `Σ_κ κ(κ-1) S_κ = N ζ² ψ̂''(θ)` -/
theorem sum_kkSkappa (theta : Rat) :
    sumTo K (fun κ => kf κ * (kf κ - 1) * Skappa K c N tau gamma phiR0 theta κ)
      = N * zetaOf tau gamma phiR0 theta ^ 2 * psiHDP K c theta := by
  rw [sumTo_Skappa_weight K c N tau gamma phiR0 (fun κ => kf κ * (kf κ - 1)) theta]
  unfold psiHDP
  rw [mul_assoc]
  congr 1
  rw [← ODE.sumTo_mul_left]
  apply ODE.sumTo_congr; intro k hk
  rw [sumTo_binom2 K k hk, zeta_add_phiR]
  ring

/-- the term-by-term identity behind the `S_κ` equation (`ck = c_k`, `z = ζ`, `r = φ_R`, `pI = φ_I`) -/
theorem Skappa_term (k κ : Nat) (ck z r pI : Rat) (ht : tau ≠ 0) (hz : z ≠ 0) :
    pI / z * (-(tau + gamma) * kf κ * (ck * ((Nat.choose k κ : Rat) * z ^ κ * r ^ (k - κ)))
               + gamma * (kf (κ + 1) * (ck * ((Nat.choose k (κ + 1) : Rat) * z ^ (κ + 1) * r ^ (k - (κ + 1))))))
      = ck * ((Nat.choose k κ : Rat)
          * (kf κ * z ^ (κ - 1) * (1 + gamma / tau) * r ^ (k - κ)
             + z ^ κ * (kf (k - κ) * r ^ (k - κ - 1) * (-(gamma / tau))))) * (-tau * pI) := by
  have hc : (Nat.choose k (κ + 1) : Rat) * kf (κ + 1) = (Nat.choose k κ : Rat) * kf (k - κ) := by
    simp only [kf]
    exact_mod_cast Nat.choose_succ_right_eq k κ
  rw [Nat.sub_sub]
  cases κ with
  | zero =>
    simp only [kf, Nat.cast_zero, mul_zero, zero_mul, zero_add, pow_zero, pow_one, Nat.sub_zero] at hc ⊢
    field_simp
    linear_combination (gamma * pI * ck * r ^ (k - 1)) * hc
  | succ κ =>
    simp only [Nat.add_sub_cancel, pow_succ] at hc ⊢
    field_simp
    linear_combination (gamma * pI * ck * r ^ (k - (κ + 1 + 1)) * z) * hc

/-- there is no class above the maximal degree: `S_κ = 0` for `κ ≥ K` -/
theorem Skappa_top (theta : Rat) (κ : Nat) (hκ : K ≤ κ) : Skappa K c N tau gamma phiR0 theta κ = 0 := by
  unfold Skappa
  rw [ODE.sumTo_congr K _ (fun _ => 0), sumTo_const_zero, mul_zero]
  intro k hk
  rw [Nat.choose_eq_zero_of_lt (by omega)]
  simp

theorem sumTo_lin2 (a b d e M : Rat) (f g : Nat → Rat) :
    a * (b * (M * sumTo K f) + d * (e * (M * sumTo K g))) = M * sumTo K (fun k => a * (b * f k + d * (e * g k))) := by
  rw [ODE.sumTo_mul_left, sumTo_add, ODE.sumTo_mul_left, ODE.sumTo_mul_left, ODE.sumTo_mul_left]
  ring

/-- the `S_κ` equation of the compact effective-degree model holds along EBCM (`pI = φ_I`, `θ' = -τ φ_I`) -/
theorem Skappa_eq (theta pI : Rat) (κ : Nat) (ht : tau ≠ 0) (hz : zetaOf tau gamma phiR0 theta ≠ 0) :
    pI / zetaOf tau gamma phiR0 theta
        * (-(tau + gamma) * kf κ * Skappa K c N tau gamma phiR0 theta κ
           + gamma * (if κ + 1 < K then kf (κ + 1) * Skappa K c N tau gamma phiR0 theta (κ + 1) else 0))
      = dSkappa K c N tau gamma phiR0 theta κ * (-tau * pI) := by
  have hif : (if κ + 1 < K then kf (κ + 1) * Skappa K c N tau gamma phiR0 theta (κ + 1) else 0)
      = kf (κ + 1) * Skappa K c N tau gamma phiR0 theta (κ + 1) := by
    split
    · rfl
    · rw [Skappa_top K c N tau gamma phiR0 theta (κ + 1) (by omega), mul_zero]
  rw [hif]
  unfold Skappa dSkappa
  rw [sumTo_lin2, mul_assoc, ← ODE.sumTo_mul_right]
  congr 1
  apply ODE.sumTo_congr; intro k _
  exact Skappa_term tau gamma k κ (c k) _ _ pI ht hz

/-- the EBCM θ-equation is θ' = -τ φ_I (same as `ebcm_theta` in `Props/C07.lean`, which this file cannot import) -/
theorem ebcm_theta' (theta R : Rat) (ht : tau ≠ 0) :
    (ebcm K c N tau gamma phiS0 phiR0 theta R).1 = -tau * phiI K c tau gamma phiS0 phiR0 theta := by
  simp only [ebcm, phiI, phiS, phiR]
  field_simp
  ring

/-- `⟨I⟩ = [SI] / Σ_κ κ S_κ = φ_I / ζ` -/
theorem effI_eq (theta : Rat) (hN : N ≠ 0) (hz : zetaOf tau gamma phiR0 theta ≠ 0) (hp : psiHP K c theta ≠ 0) :
    SIof K c N tau gamma phiS0 phiR0 theta / (N * zetaOf tau gamma phiR0 theta * psiHP K c theta)
      = phiI K c tau gamma phiS0 phiR0 theta / zetaOf tau gamma phiR0 theta := by
  unfold SIof
  field_simp

/-- **EBCM → SIR compact effective degree** (helper form) -/
theorem ebcm_to_compactED_aux (theta R : Rat) (ht : tau ≠ 0) (hN : N ≠ 0)
    (hz : zetaOf tau gamma phiR0 theta ≠ 0) (hp : psiHP K c theta ≠ 0) :
    let th' := (ebcm K c N tau gamma phiS0 phiR0 theta R).1
    let r := sirCompactED K tau gamma N (Skappa K c N tau gamma phiR0 theta) R (SIof K c N tau gamma phiS0 phiR0 theta)
    (∀ κ, κ < K → r.1 κ = dSkappa K c N tau gamma phiR0 theta κ * th') ∧
    r.2.1 = (ebcm K c N tau gamma phiS0 phiR0 theta R).2 ∧
    r.2.2 = dSIof K c N tau gamma phiS0 phiR0 theta * th' := by
  intro th' r
  have hth : th' = -tau * phiI K c tau gamma phiS0 phiR0 theta := ebcm_theta' K c N tau gamma phiS0 phiR0 theta R ht
  rw [hth]
  simp only [r, sirCompactED, sum_Skappa, sum_kSkappa, sum_kkSkappa, effI_eq K c N tau gamma phiS0 phiR0 theta hN hz hp]
  refine ⟨?_, ?_, ?_⟩
  · intro κ _
    exact Skappa_eq K c N tau gamma phiR0 theta _ κ ht hz
  · simp only [ebcm]
    ring
  · simp only [SIof, dSIof, phiI, phiS, zetaOf] at hz ⊢
    generalize phiR tau gamma phiR0 theta = ρ at hz ⊢
    generalize psiHP K c theta = P at hp ⊢
    generalize psiHDP K c theta = D
    generalize psiHP K c 1 = P1
    field_simp
    ring

/-! ### `dSkappa` is the θ-derivative of `Skappa` (both are polynomials in θ) -/
open Polynomial in
/-- `φ_R(θ) = φ_R(0) + γ(1-θ)/τ` as a polynomial in θ -/
noncomputable def phiRPoly : ℚ[X] := C (phiR0 + gamma / tau) - C (gamma / tau) * X
open Polynomial in
/-- `ζ(θ) = θ - φ_R(θ)` as a polynomial in θ -/
noncomputable def zetaPoly : ℚ[X] := X - phiRPoly tau gamma phiR0
open Polynomial in
/-- `S_κ(θ)` as a polynomial in θ -/
noncomputable def SkappaPoly (κ : Nat) : ℚ[X] :=
  C N * ((List.range K).map fun k => C (c k * (Nat.choose k κ : ℚ)) * zetaPoly tau gamma phiR0 ^ κ
                                        * phiRPoly tau gamma phiR0 ^ (k - κ)).sum

open Polynomial in
theorem phiRPoly_eval (theta : Rat) : (phiRPoly tau gamma phiR0).eval theta = phiR tau gamma phiR0 theta := by
  simp only [phiRPoly, phiR, eval_sub, eval_mul, eval_C, eval_X]
  ring

open Polynomial in
theorem zetaPoly_eval (theta : Rat) : (zetaPoly tau gamma phiR0).eval theta = zetaOf tau gamma phiR0 theta := by
  simp only [zetaPoly, zetaOf, eval_sub, eval_X, phiRPoly_eval]

open Polynomial in
theorem phiRPoly_deriv : derivative (phiRPoly tau gamma phiR0) = C (-(gamma / tau)) := by
  simp [phiRPoly]

open Polynomial in
theorem zetaPoly_deriv : derivative (zetaPoly tau gamma phiR0) = C (1 + gamma / tau) := by
  simp [zetaPoly, phiRPoly_deriv]

open Polynomial in
theorem Skappa_eval (theta : Rat) (κ : Nat) :
    Skappa K c N tau gamma phiR0 theta κ = (SkappaPoly K c N tau gamma phiR0 κ).eval theta := by
  unfold Skappa SkappaPoly sumTo
  rw [eval_mul, eval_C, eval_list_sum_map]
  congr 1
  apply sumRat_map_congr
  intro k _
  simp only [eval_mul, eval_C, eval_pow, phiRPoly_eval, zetaPoly_eval]
  ring

open Polynomial in
theorem dSkappa_eval (theta : Rat) (κ : Nat) :
    dSkappa K c N tau gamma phiR0 theta κ = (derivative (SkappaPoly K c N tau gamma phiR0 κ)).eval theta := by
  unfold dSkappa SkappaPoly sumTo
  rw [derivative_C_mul, eval_mul, eval_C, derivative_list_sum_map, eval_list_sum_map]
  congr 1
  apply sumRat_map_congr
  intro k _
  simp only [derivative_mul, derivative_C, derivative_pow, phiRPoly_deriv, zetaPoly_deriv, eval_mul, eval_add, eval_C,
    eval_pow, phiRPoly_eval, zetaPoly_eval, zero_mul, zero_add, kf]
  ring

/-! ### the change of variables at t = 0 is the initial condition of `SIR_compact_effective_degree_from_graph` -/

/-- at θ = 1 with no initially recovered nodes (`φ_R(0) = 0`): `S_κ = N c_κ` (`Skappa0 = Nk*(1-rho)`) -/
theorem Skappa_init_aux (κ : Nat) (hκ : κ < K) : Skappa K c N tau gamma 0 1 κ = N * c κ := by
  have hr : phiR tau gamma 0 1 = 0 := by simp [phiR]
  have hz : zetaOf tau gamma 0 1 = 1 := by simp [zetaOf, hr]
  unfold Skappa
  rw [hr, hz, sumTo_single K κ hκ]
  · simp
  · intro k hk
    rcases Nat.lt_or_gt_of_ne hk with h | h
    · rw [Nat.choose_eq_zero_of_lt h]; simp
    · rw [zero_pow (by omega)]; simp

/-- at θ = 1 with `φ_R(0) = 0`: `[SI] = Σ_k k (N c_k) (1 - φ_S(0))` (`SI0 = sum(k*Skappa0[k]*rho)`) -/
theorem SIof_init_aux (h1 : psiHP K c 1 ≠ 0) :
    SIof K c N tau gamma phiS0 0 1 = sumTo K (fun k => kf k * (N * c k) * (1 - phiS0)) := by
  have e : sumTo K (fun k => kf k * (N * c k) * (1 - phiS0)) = N * psiHP K c 1 * (1 - phiS0) := by
    unfold psiHP
    rw [mul_assoc, mul_comm (sumTo K _), ← ODE.sumTo_mul_left, ← ODE.sumTo_mul_left]
    apply ODE.sumTo_congr; intro k _
    simp only [one_pow]; ring
  rw [e]
  simp only [SIof, phiI, phiS, phiR]
  field_simp
  ring

end CompactED

end ODE
