import EoNVerif.Model.Gillespie
import EoNVerif.Model.GillespieLaw
import EoNVerif.Spec.Chain
import EoNVerif.Proofs.ListDict
import EoNVerif.Proofs.Gillespie
/-!
C01 / C02 — target statements for the model of `Gillespie_SIR` / `Gillespie_SIS`
(`P.sis` selects the variant; every theorem is for both).
-/
namespace Gillespie

/- `Gillespie.WF` (well-formed undirected simple contact network with non-negative symmetric weights) and
`Gillespie.Inv` (the bookkeeping invariant) are defined, unchanged, in `EoNVerif/Proofs/Gillespie.lean`. -/

set_option linter.unusedVariables false in -- `hr` is not needed
/-- the initial state is built without KeyError and satisfies the invariant -/
theorem init_inv (P : GParams) (h : WF P) (infs recs : List Node) (tmin : Rat)
    (hi : infs.Nodup) (him : ∀ u ∈ infs, u ∈ P.nodes) (hr : ∀ u ∈ recs, u ∈ P.nodes)
    (hd : ∀ u ∈ infs, u ∉ recs) (hsis : P.sis = true → recs = []) :
    ∃ s, init P infs recs tmin = some s ∧ Inv P s ∧ s.status = initStatus infs recs :=
  init_inv' P h infs recs tmin hi him hd hsis

/-- recovery of an enabled node: no KeyError, invariant preserved, status changes as in the chain -/
theorem applyRec_inv (P : GParams) (h : WF P) (s : GState) (hs : Inv P s) (u : Node) (t : Rat)
    (hu : u ∈ s.inf.items) :
    ∃ s', applyRec P s u t = some s' ∧ Inv P s' ∧ s'.status = Chain.apply P s.status (.recover u) :=
  applyRec_inv' P h s hs u t hu

/-- transmission along an enabled I–S link -/
theorem applyTrans_inv (P : GParams) (h : WF P) (s : GState) (hs : Inv P s) (u v : Node) (t : Rat)
    (huv : (u, v) ∈ s.links.items) :
    ∃ s', applyTrans P s u v t = some s' ∧ Inv P s' ∧ s'.status = Chain.apply P s.status (.transmit u v) :=
  applyTrans_inv' P h s hs u v t huv

/-- the selection step only ever returns enabled events, for every tape -/
theorem pick_enabled (P : GParams) (s : GState) (fuel : Nat) (ts ts' : TapeSt) (e : GEvent)
    (hp : pick P s fuel ts = .ok (e, ts')) :
    match e with
    | .recover u => u ∈ s.inf.items
    | .transmit u v => (u, v) ∈ s.links.items := by
  have := pick_enabled' P s fuel ts ts' e hp
  cases e <;> exact this

/-- **invariant for every tape prefix**: whatever the draws, every state the loop reaches satisfies `Inv`
(in particular the model's KeyError state is unreachable from an `Inv` state) -/
theorem loop_inv (P : GParams) (h : WF P) (tmax : ERat) (cfuel fuel : Nat) (s s' : GState) (t : ERat)
    (ts ts' : TapeSt) (hs : Inv P s) (hl : loop P tmax cfuel fuel s t ts = .ok (s', ts')) : Inv P s' :=
  loop_inv' P h tmax cfuel fuel s s' t ts ts' hs hl

theorem loop_no_keyerror (P : GParams) (h : WF P) (tmax : ERat) (cfuel fuel : Nat) (s : GState) (t : ERat)
    (ts : TapeSt) (hs : Inv P s) : loop P tmax cfuel fuel s t ts ≠ .error "KeyError" :=
  loop_no_keyerror' P h tmax cfuel fuel s t ts hs

set_option linter.unusedVariables false in -- `hr` is not needed
theorem run_inv (P : GParams) (h : WF P) (infs recs : List Node) (tmin : Rat) (tmax : ERat) (fuel cfuel : Nat)
    (hi : infs.Nodup) (him : ∀ u ∈ infs, u ∈ P.nodes) (hr : ∀ u ∈ recs, u ∈ P.nodes)
    (hd : ∀ u ∈ infs, u ∉ recs) (hsis : P.sis = true → recs = []) (ts ts' : TapeSt) (s' : GState)
    (hrun : run P infs recs tmin tmax fuel cfuel ts = .ok (s', ts')) : Inv P s' :=
  run_inv' P h infs recs tmin tmax fuel cfuel hi him hd hsis ts ts' s' hrun

/-- **clock**: the rate handed to `expovariate` is the total rate of the chain in the current status -/
theorem clock_eq (P : GParams) (h : WF P) (s : GState) (hs : Inv P s) :
    totalRate P s = Chain.totalRate P s.status :=
  clock_eq' P h s hs

/-- **jump law (recovery)**: an infectious node `u` is the next to recover with probability
`γ w_u / total · (1-ρ^k)` where `ρ^k` is the probability that the rejection sampler is still running after `k`
rounds (`ρ < 1`, C16) -/
theorem jump_law_rec (P : GParams) (h : WF P) (s : GState) (hs : Inv P s) (hpos : 0 < totalRate P s)
    (u : Node) (hu : u ∈ s.inf.items) (k : Nat) (hk : 0 < k) :
    Dist.mass (pickDist P s k) (fun o => o == some (GEvent.recover u)) =
      Chain.nodeRate P u / Chain.totalRate P s.status *
        (if s.inf.weighted then 1 - s.inf.rejProb ^ k else 1) :=
  jump_law_rec' P h s hs hpos u hu k hk

/-- **jump law (transmission)** -/
theorem jump_law_trans (P : GParams) (h : WF P) (s : GState) (hs : Inv P s) (hpos : 0 < totalRate P s)
    (u v : Node) (huv : (u, v) ∈ s.links.items) (k : Nat) (hk : 0 < k) :
    Dist.mass (pickDist P s k) (fun o => o == some (GEvent.transmit u v)) =
      Chain.edgeRate P u v / Chain.totalRate P s.status *
        (if s.links.weighted then 1 - s.links.rejProb ^ k else 1) :=
  jump_law_trans' P h s hs hpos u v huv k hk

set_option linter.unusedVariables false in -- `h`, `hs` are not needed
/-- nothing but enabled events has positive probability -/
theorem jump_law_support (P : GParams) (h : WF P) (s : GState) (hs : Inv P s) (k : Nat) (e : GEvent)
    (he : match e with
          | .recover u => u ∉ s.inf.items
          | .transmit u v => (u, v) ∉ s.links.items) :
    Dist.mass (pickDist P s k) (fun o => o == some e) = 0 := by
  cases e <;> exact jump_law_support' P s k _ he

set_option linter.unusedVariables false in -- `h` is not needed
/-- the enabled sets of the chain are exactly the candidate lists -/
theorem enabled_iff (P : GParams) (h : WF P) (s : GState) (hs : Inv P s) :
    (∀ u, u ∈ Chain.enabledRec P s.status ↔ u ∈ s.inf.items) ∧
    (∀ p, p ∈ Chain.enabledTrans P s.status ↔ p ∈ s.links.items) :=
  enabled_iff' P s hs

end Gillespie

/-! non-vacuity: a weighted 4-node path, two initial infecteds, one recovered; `init` succeeds -/
def exNbrs (u : Node) : List Node :=
  match u with
  | 0 => [1] | 1 => [0, 2] | 2 => [1, 3] | 3 => [2] | _ => []
def exP : GParams :=
  { nodes := [0, 1, 2, 3], nbrs := exNbrs, tau := 2, gamma := 1,
    ew := some (fun u v => if u + v = 3 then 1/2 else 2), nw := some (fun u => (u : Rat) + 1), sis := false }
example : (Gillespie.init exP [1, 3] [0] 0).map (fun s => (s.inf.items, s.links.items, s.links.total))
    = some ([1, 3], [(1, 2), (3, 2)], 5 / 2) := by decide +kernel

/-- the example network satisfies the well-formedness hypothesis of every theorem above -/
example : Gillespie.WF exP where
  nodup := by decide
  nbr_nodup := by decide
  nbr_mem := by decide
  nbr_out := by
    intro u hu
    simp only [exP, List.mem_cons, List.not_mem_nil, or_false, not_or] at hu
    obtain ⟨h0, h1, h2, h3⟩ := hu
    show exNbrs u = []
    unfold exNbrs
    split <;> first | rfl | contradiction
  symm := by
    intro u v
    show v ∈ exNbrs u → u ∈ exNbrs v
    unfold exNbrs
    split <;> simp <;> (try rintro (rfl | rfl)) <;> simp
  noloop := by
    intro u
    show u ∉ exNbrs u
    unfold exNbrs
    split <;> simp
  ew_nonneg := by
    intro f hf u v
    obtain rfl : (fun u v => if u + v = 3 then (1/2 : Rat) else 2) = f := Option.some.inj hf
    dsimp only; split <;> decide +kernel
  ew_symm := by
    intro f hf u v
    obtain rfl : (fun u v => if u + v = 3 then (1/2 : Rat) else 2) = f := Option.some.inj hf
    dsimp only; rw [Nat.add_comm]
  nw_nonneg := by
    intro f hf u
    obtain rfl : (fun u : Node => (u : Rat) + 1) = f := Option.some.inj hf
    dsimp only
    have : (0 : Rat) ≤ (u : Rat) := Nat.cast_nonneg u
    linarith
  tau_nonneg := by decide +kernel
  gamma_nonneg := by decide +kernel

/-- ... and the initial state it produces can recover node 1 and transmit along (1,2) without KeyError -/
example : ((Gillespie.init exP [1, 3] [0] 0).bind fun s => Gillespie.applyRec exP s 1 1).map
    (fun s => (s.inf.items, s.links.items, s.links.total)) = some ([3], [(3, 2)], 2) := by decide +kernel
example : ((Gillespie.init exP [1, 3] [0] 0).bind fun s => Gillespie.applyTrans exP s 1 2 1).map
    (fun s => (s.inf.items, s.links.items, s.links.total)) = some ([1, 3, 2], [], 0) := by decide +kernel

