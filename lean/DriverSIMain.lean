import DriverSI
partial def loopSI (h : IO.FS.Stream) (out : IO.FS.Stream) : IO Unit := do
  let line ← h.getLine
  if line.isEmpty then return ()
  out.putStrLn (DrvGenSI.handle line)
  loopSI h out
def main : IO Unit := do loopSI (← IO.getStdin) (← IO.getStdout)
