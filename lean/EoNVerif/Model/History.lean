import EoNVerif.Spec.Predicates
/-!
Model of `_transform_to_node_history_` (simulation.py 363–397): the continuous-time SIR/SIS simulators collect
`infection_times` / `recovery_times` per node and turn them into node histories afterwards.  The quirk: an entry whose
time equals `tmin` *resets* the history built so far (that is how initially infected / recovered nodes get a history
starting with 'I' / 'R'), for infections **and** recoveries.
-/
namespace History

/-- SIR branch: a node has at most one infection time and one recovery time.  `node_history` defaults to
`([tmin], ['S'])`; the infection entry is appended first, then the recovery entry; each resets when its time is tmin -/
def sirHist (tmin : Rat) (inf rec : Option Rat) : Pred.Hist :=
  let h0 : Pred.Hist := [(tmin, "S")]
  let h1 : Pred.Hist := match inf with
    | none => h0
    | some t => (if t = tmin then [] else h0) ++ [(t, "I")]
  match rec with
  | none => h1
  | some t => (if t = tmin then [] else h1) ++ [(t, "R")]

/-- SIS branch: lists of infection and recovery times are consumed alternately (`Itimes.pop(0)`, `Rtimes.pop(0)`);
only an infection at tmin resets -/
def sisLoop (tmin : Rat) : List Rat → List Rat → Pred.Hist → Pred.Hist
  | [], _, h => h
  | ti :: is, rs, h =>
    let h1 := (if ti = tmin then [] else h) ++ [(ti, "I")]
    match rs with
    | [] => sisLoop tmin is [] h1
    | tr :: rs' => sisLoop tmin is rs' (h1 ++ [(tr, "S")])

def sisHist (tmin : Rat) (infs recs : List Rat) : Pred.Hist := sisLoop tmin infs recs [(tmin, "S")]

end History
